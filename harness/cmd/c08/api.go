package main

// `api` sessions: several calls into the rlp package that share its mutable state — the
// encbuf pool, the type cache, one reused Stream — with results kept alive and re-read later.
// Every step is answered by the pure model from the step's own arguments, so any influence of
// an earlier or interleaved call on a later result shows up as a diff.
//
//	eb:<ty>:<val>        EncodeToBytes                         -> hex
//	ew:<ty>:<val>        Encode into a bytes.Buffer            -> hex
//	er:<id>:<ty>:<val>   EncodeToReader, keep the reader       -> announced size
//	rd:<id>:<n>          one Read of n bytes from reader id    -> hex, "$" appended on io.EOF
//	dr:<id>              drain reader id (ioutil.ReadAll)      -> hex
//	db:<ty>:<hex>        DecodeBytes                           -> ok <val> | err
//	dd:<ty>:<hex>        Decode from an io.Reader              -> ok <val> | err
//	en:<b|r|e>:<val>     EncodeToBytes of a struct whose field has an EncodeRLP method that itself
//	                     calls EncodeToBytes / EncodeToReader / Encode
//	sr:<hex>:<ops>       the session's one Stream, Reset onto new input, then a method script
//	sl:<n>:<hex>:<ops>   NewListStream(r, n), then a method script
//	chk                  every byte result handed out so far, as it looks now (aliasing)

import (
	"bytes"
	"errors"
	"io"
	"io/ioutil"
	"math/big"
	"reflect"
	"strconv"
	"strings"

	"com.tuntun.rangers/node/src/storage/rlp"
	"verif/harness/hx"
)

type innerB struct{ V []uint64 }

func (n innerB) EncodeRLP(w io.Writer) error {
	enc, err := rlp.EncodeToBytes(n.V)
	if err != nil {
		return err
	}
	_, err = w.Write(enc)
	return err
}

type innerR struct{ V []uint64 }

func (n innerR) EncodeRLP(w io.Writer) error {
	_, r, err := rlp.EncodeToReader(n.V)
	if err != nil {
		return err
	}
	_, err = io.Copy(w, r)
	return err
}

type innerE struct{ V []uint64 }

func (n innerE) EncodeRLP(w io.Writer) error { return rlp.Encode(w, n.V) }

type outerB struct {
	Pre  string
	In   innerB
	Post uint64
}
type outerR struct {
	Pre  string
	In   innerR
	Post uint64
}
type outerE struct {
	Pre  string
	In   innerE
	Post uint64
}

type nestedPlain struct {
	Pre  string
	V    []uint64
	Post uint64
}

var errFault = errors.New("injected fault")

// faultWriter takes writes until their total would exceed limit, then fails.
type faultWriter struct {
	buf   []byte
	limit int
}

func (w *faultWriter) Write(p []byte) (int, error) {
	if len(w.buf)+len(p) > w.limit {
		return 0, errFault
	}
	w.buf = append(w.buf, p...)
	return len(p), nil
}

// faultReader delivers at most `left` bytes, then fails (it is a ByteReader, so the Stream reads
// from it directly, without an input limit).
type faultReader struct {
	r    *bytes.Reader
	left int
}

func (f *faultReader) Read(p []byte) (int, error) {
	if len(p) == 0 {
		return 0, nil
	}
	if f.left <= 0 {
		return 0, errFault
	}
	if len(p) > f.left {
		p = p[:f.left]
	}
	n, err := f.r.Read(p)
	f.left -= n
	return n, err
}

func (f *faultReader) ReadByte() (byte, error) {
	if f.left <= 0 {
		return 0, errFault
	}
	b, err := f.r.ReadByte()
	if err == nil {
		f.left--
	}
	return b, err
}

type session struct {
	readers map[string]io.Reader
	kept    [][]byte
	stream  *rlp.Stream
}

func encodePtr(v reflect.Value) ([]byte, error) {
	p := reflect.New(v.Type())
	p.Elem().Set(v)
	return rlp.EncodeToBytes(p.Interface())
}

func (ss *session) step(st string) (string, bool) {
	f := strings.Split(st, ":")
	tyVal := func(i int) (reflect.Value, bool, bool) { // value, parsed, buildable
		if i+1 >= len(f) {
			return reflect.Value{}, false, false
		}
		ty, err := tyOf(f[i])
		if err != nil {
			return reflect.Value{}, false, false
		}
		v, err := buildVal(goType(ty), f[i+1])
		if err != nil {
			return reflect.Value{}, true, false
		}
		return v, true, true
	}
	switch f[0] {
	case "eb", "ew":
		if len(f) != 3 {
			return "", false
		}
		v, ok, ok2 := tyVal(1)
		if !ok {
			return "", false
		}
		if !ok2 {
			return "!", true
		}
		var b []byte
		var err error
		if f[0] == "eb" {
			b, err = encodePtr(v)
		} else {
			var buf bytes.Buffer
			p := reflect.New(v.Type())
			p.Elem().Set(v)
			err = rlp.Encode(&buf, p.Interface())
			b = buf.Bytes()
		}
		if err != nil {
			return "!", true
		}
		ss.kept = append(ss.kept, b)
		return hx.Hex(b), true
	case "en":
		if len(f) != 3 {
			return "", false
		}
		pv, err := buildVal(reflect.TypeOf(nestedPlain{}), f[2])
		if err != nil {
			return "!", true
		}
		np := pv.Interface().(nestedPlain)
		var b []byte
		switch f[1] {
		case "b":
			b, err = rlp.EncodeToBytes(&outerB{np.Pre, innerB{np.V}, np.Post})
		case "r":
			b, err = rlp.EncodeToBytes(&outerR{np.Pre, innerR{np.V}, np.Post})
		case "e":
			b, err = rlp.EncodeToBytes(&outerE{np.Pre, innerE{np.V}, np.Post})
		default:
			return "", false
		}
		if err != nil {
			return "!", true
		}
		ss.kept = append(ss.kept, b)
		return hx.Hex(b), true
	case "er":
		if len(f) != 4 {
			return "", false
		}
		v, ok, ok2 := tyVal(2)
		if !ok {
			return "", false
		}
		if !ok2 {
			return "!", true
		}
		p := reflect.New(v.Type())
		p.Elem().Set(v)
		size, r, err := rlp.EncodeToReader(p.Interface())
		if err != nil {
			return "!", true
		}
		ss.readers[f[1]] = r
		return strconv.Itoa(size), true
	case "rd":
		if len(f) != 3 {
			return "", false
		}
		r, ok := ss.readers[f[1]]
		n, err := strconv.Atoi(f[2])
		if !ok || err != nil || n < 0 {
			return "", false
		}
		buf := make([]byte, n)
		k, rerr := r.Read(buf)
		out := hx.Hex(buf[:k])
		if rerr == io.EOF {
			out += "$"
		} else if rerr != nil {
			out += "!"
		}
		return out, true
	case "dr":
		if len(f) != 2 {
			return "", false
		}
		r, ok := ss.readers[f[1]]
		if !ok {
			return "", false
		}
		b, err := ioutil.ReadAll(r)
		if err != nil {
			return "!", true
		}
		ss.kept = append(ss.kept, b)
		return hx.Hex(b), true
	case "db", "dd":
		if len(f) != 3 {
			return "", false
		}
		ty, err := tyOf(f[1])
		b, err2 := hx.UnHex(f[2])
		if err != nil || err2 != nil {
			return "", false
		}
		pv := reflect.New(goType(ty))
		if f[0] == "db" {
			err = rlp.DecodeBytes(b, pv.Interface())
		} else {
			err = rlp.Decode(bytes.NewReader(b), pv.Interface())
		}
		if err != nil {
			return "err", true
		}
		return "ok " + showVal(pv.Elem()), true
	case "sr", "sl":
		var b []byte
		var ops string
		var err error
		rdr := bytes.NewReader(nil)
		var s *rlp.Stream
		if f[0] == "sr" {
			if len(f) != 3 {
				return "", false
			}
			b, err = hx.UnHex(f[1])
			ops = f[2]
			rdr = bytes.NewReader(b)
			if ss.stream == nil {
				ss.stream = rlp.NewStream(bytes.NewReader(nil), 0)
			}
			ss.stream.Reset(rdr, 0)
			s = ss.stream
		} else {
			if len(f) != 4 {
				return "", false
			}
			n, err0 := strconv.ParseUint(f[1], 10, 64)
			b, err = hx.UnHex(f[2])
			ops = f[3]
			if err0 != nil {
				return "", false
			}
			rdr = bytes.NewReader(b)
			s = rlp.NewListStream(rdr, n)
		}
		if err != nil {
			return "", false
		}
		out, ok := runScript(s, strings.Split(ops, ","))
		if !ok {
			return "", false
		}
		return strings.Join(out, "|") + "|c=" + strconv.Itoa(len(b)-rdr.Len()), true
	case "fx":
		// values the encoder must refuse, part-way through or up front; nothing may linger in the
		// pool / type cache afterwards
		if len(f) != 2 {
			return "", false
		}
		var v interface{}
		switch f[1] {
		case "neg":
			v = &struct {
				A []uint64
				B *big.Int
				C string
			}{[]uint64{1, 2, 300}, big.NewInt(-1), "tail"}
		case "int":
			v = &struct {
				A uint64
				B []struct{ X int }
			}{1, nil}
		case "chan":
			v = &struct {
				A string
				C chan int
			}{"x", nil}
		default:
			return "", false
		}
		if _, err := rlp.EncodeToBytes(v); err != nil {
			return "!", true
		}
		return "accepted", true
	case "wf":
		// Encode into a writer that refuses to take more than k bytes in total
		if len(f) != 4 {
			return "", false
		}
		k, err := strconv.Atoi(f[1])
		v, ok, ok2 := tyVal(2)
		if err != nil || !ok {
			return "", false
		}
		if !ok2 {
			return "!", true
		}
		p := reflect.New(v.Type())
		p.Elem().Set(v)
		fw := &faultWriter{limit: k}
		werr := rlp.Encode(fw, p.Interface())
		if werr == nil {
			ss.kept = append(ss.kept, fw.buf)
			return hx.Hex(fw.buf), true
		}
		if werr != errFault {
			return "!", true
		}
		full, err := encodePtr(v)
		if err != nil || !bytes.HasPrefix(full, fw.buf) {
			return "!x", true // what reached the writer is not a prefix of the encoding
		}
		return "!p", true
	case "rf":
		// Decode from a reader that fails once k bytes have been delivered
		if len(f) != 4 {
			return "", false
		}
		k, err := strconv.Atoi(f[1])
		ty, err1 := tyOf(f[2])
		b, err2 := hx.UnHex(f[3])
		if err != nil || err1 != nil || err2 != nil {
			return "", false
		}
		pv := reflect.New(goType(ty))
		if err := rlp.Decode(&faultReader{r: bytes.NewReader(b), left: k}, pv.Interface()); err != nil {
			return "err", true
		}
		return "ok " + showVal(pv.Elem()), true
	case "chk":
		parts := make([]string, len(ss.kept))
		for i, b := range ss.kept {
			parts[i] = hx.Hex(b)
		}
		return strings.Join(parts, ","), true
	}
	return "", false
}

func runApi(steps []string) string {
	ss := &session{readers: map[string]io.Reader{}}
	var out []string
	for _, st := range steps {
		r, ok := ss.step(st)
		if !ok {
			return "bad-op"
		}
		out = append(out, r)
	}
	return strings.Join(out, ";")
}

// ---------------------------------------------------------------------------
// generator

func smallTyVal(r *hx.Rng) (string, string) {
	if r.Chance(1, 8) {
		// a recursive fixture type (the type cache builds it through a placeholder entry)
		name := recNames[r.Intn(len(recNames))]
		vt, it := genRec(r, name, r.Intn(4))
		return name + strconv.Itoa(len(specEncode(it))+8), vt
	}
	for {
		t := genTy(r, 2)
		v := genVal(r, t, false, 1)
		if len(v) < 900 && !strings.Contains(t.String()+v, ":") && !strings.Contains(t.String()+v, ";") {
			return t.String(), v
		}
	}
}

func nestedVal(r *hx.Rng) string {
	n := r.Pick(0, 1, 2, 5, 20, 60)
	parts := []string{"L3", "B" + hx.Hex(strBytes(r, r.Pick(0, 1, 3, 60))), "L" + strconv.Itoa(n)}
	for i := 0; i < n; i++ {
		parts = append(parts, "N"+strconv.FormatUint(genUint(r, 64), 10))
	}
	parts = append(parts, "N"+strconv.FormatUint(genUint(r, 64), 10))
	return strings.Join(parts, ",")
}

// histOp: the same four operations on a fresh pair of types (a plain []T and a struct whose last field
// is a `rlp:"tail"` []T) in a given order; the answers must not depend on the order (type cache).
func histOp(r *hx.Rng, order string, elem *Ty, n int) string {
	et := &Ty{K: "R", Fs: []Field{{"", elem}}}
	plain := &Ty{K: "S", E: et}
	tail := &Ty{K: "R", Fs: []Field{{"", &Ty{K: "u64"}}, {"tail", plain}}}
	parts := []string{"L" + strconv.Itoa(n)}
	for i := 0; i < n; i++ {
		parts = append(parts, "L1", genVal(r, elem, true, 2))
	}
	v := strings.Join(parts, ",")
	pe, ok1 := encodeText(plain, v)
	te, ok2 := encodeText(tail, "L2,N7,"+v)
	if !ok1 || !ok2 {
		pe, te = []byte{0xc0}, []byte{0xc1, 0x07}
	}
	return "hist " + order + " " + elem.String() + " " + v + " " + hx.Hex(pe) + " " + hx.Hex(te)
}

var histOrders = []string{"PTpt", "TPpt", "ptPT", "tpTP", "PpTt", "TtPp", "pTtP", "tPpT"}

// wellFormedItem: enc is exactly one RLP item, nested items included (checked with the package's own
// limited decoder: it is only a filter for what may be fed to an unlimited stream)
func wellFormedItem(enc []byte) bool {
	var v interface{}
	return rlp.DecodeBytes(enc, &v) == nil
}

func genApiSession(r *hx.Rng) string {
	var steps []string
	open := []string{}
	nextID := 0
	n := 4 + r.Intn(8)
	for i := 0; i < n; i++ {
		switch r.Intn(15) {
		case 12:
			steps = append(steps, "fx:"+pickS(r, "neg", "int", "chan"))
		case 13:
			t, v := smallTyVal(r)
			ty, _ := tyOf(t)
			n := 0
			if enc, ok := encodeText(ty, v); ok {
				n = len(enc)
			}
			steps = append(steps, "wf:"+strconv.Itoa(r.Pick(0, 1, 2, n/2, max(0, n-1), n, n+1, 56))+":"+t+":"+v)
		case 14:
			t, v := smallTyVal(r)
			ty, _ := tyOf(t)
			// the reader of `rf` is not a bytes.Reader, so the Stream has NO input limit and allocates what a
			// header declares (documented; outside the property's "declared input"): only encodings that are
			// one well-formed item go there (a RawValue field may hold arbitrary bytes, e.g. `bb7fffffff`)
			if enc, ok := encodeText(ty, v); ok && len(enc) < 400 && len(enc) > 0 && wellFormedItem(enc) {
				n := len(enc)
				k := r.Pick(0, 1, 2, n/2, n-1, n, n+1)
				enc = append(enc, r.Bytes(r.Intn(3))...)
				steps = append(steps, "rf:"+strconv.Itoa(k)+":"+t+":"+hx.Hex(enc))
			}
		case 0, 1:
			t, v := smallTyVal(r)
			steps = append(steps, pickS(r, "eb", "eb", "ew")+":"+t+":"+v)
		case 2, 3, 4:
			t, v := smallTyVal(r)
			id := "r" + strconv.Itoa(nextID)
			nextID++
			steps = append(steps, "er:"+id+":"+t+":"+v)
			open = append(open, id)
		case 5, 6:
			if len(open) > 0 {
				steps = append(steps, "rd:"+open[r.Intn(len(open))]+":"+strconv.Itoa(r.Pick(1, 1, 2, 3, 9, 56, 300)))
			}
		case 7:
			if len(open) > 0 {
				k := r.Intn(len(open))
				steps = append(steps, "dr:"+open[k])
			}
		case 8:
			steps = append(steps, "en:"+pickS(r, "b", "r", "e")+":"+nestedVal(r))
		case 9:
			enc, _ := rlp.EncodeToBytes(randItem(r, 2, false))
			if r.Chance(1, 3) {
				enc = mutate(r, enc)
			}
			if len(enc) < 400 {
				if r.Bool() {
					steps = append(steps, "sr:"+hx.Hex(enc)+":"+strings.Join(randScript(r), ","))
				} else {
					steps = append(steps, "sl:"+strconv.Itoa(r.Pick(0, 1, len(enc), len(enc)+1))+":"+hx.Hex(enc)+":"+strings.Join(randScript(r), ","))
				}
			}
		case 10:
			t, v := smallTyVal(r)
			ty, _ := tyOf(t)
			if enc, ok := encodeText(ty, v); ok && len(enc) < 400 {
				if r.Chance(1, 4) {
					enc = mutate(r, enc)
				}
				steps = append(steps, "db:"+t+":"+hx.Hex(enc))
			}
		default:
			t, v := smallTyVal(r)
			ty, _ := tyOf(t)
			if enc, ok := encodeText(ty, v); ok && len(enc) < 400 {
				// Decode from a reader leaves what follows the value unread
				enc = append(enc, r.Bytes(r.Intn(3))...)
				steps = append(steps, "dd:"+t+":"+hx.Hex(enc))
			}
		}
	}
	for _, id := range open {
		if r.Chance(2, 3) {
			steps = append(steps, "dr:"+id)
		}
	}
	steps = append(steps, "chk")
	return "api " + strings.Join(steps, ";")
}
