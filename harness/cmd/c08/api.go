package main

// `api` sessions: several calls into the rlp package that share its mutable state — the
// encbuf pool, the type cache, one reused Stream — with results kept alive and re-read later.
// Every step is answered by the pure model from the step's own arguments, so any influence of
// an earlier or interleaved call on a later result shows up as a diff.
//
//	eb:<ty>:<val>        EncodeToBytes                         -> hex
//	ew:<ty>:<val>        Encode into a bytes.Buffer            -> hex
//	er:<id>:<ty>:<val>   EncodeToReader, keep the reader       -> announced size
//	rd:<id>:<n>          one Read of n bytes from reader id    -> hex, "$" appended on io.EOF
//	dr:<id>              drain reader id (ioutil.ReadAll)      -> hex
//	db:<ty>:<hex>        DecodeBytes                           -> ok <val> | err
//	dd:<ty>:<hex>        Decode from an io.Reader              -> ok <val> | err
//	en:<b|r|e>:<val>     EncodeToBytes of a struct whose field has an EncodeRLP method that itself
//	                     calls EncodeToBytes / EncodeToReader / Encode
//	sr:<hex>:<ops>       the session's one Stream, Reset onto new input, then a method script
//	sl:<n>:<hex>:<ops>   NewListStream(r, n), then a method script
//	chk                  every byte result handed out so far, as it looks now (aliasing)

import (
	"bytes"
	"io"
	"io/ioutil"
	"reflect"
	"strconv"
	"strings"

	"com.tuntun.rangers/node/src/storage/rlp"
	"verif/harness/hx"
)

type innerB struct{ V []uint64 }

func (n innerB) EncodeRLP(w io.Writer) error {
	enc, err := rlp.EncodeToBytes(n.V)
	if err != nil {
		return err
	}
	_, err = w.Write(enc)
	return err
}

type innerR struct{ V []uint64 }

func (n innerR) EncodeRLP(w io.Writer) error {
	_, r, err := rlp.EncodeToReader(n.V)
	if err != nil {
		return err
	}
	_, err = io.Copy(w, r)
	return err
}

type innerE struct{ V []uint64 }

func (n innerE) EncodeRLP(w io.Writer) error { return rlp.Encode(w, n.V) }

type outerB struct {
	Pre  string
	In   innerB
	Post uint64
}
type outerR struct {
	Pre  string
	In   innerR
	Post uint64
}
type outerE struct {
	Pre  string
	In   innerE
	Post uint64
}

type nestedPlain struct {
	Pre  string
	V    []uint64
	Post uint64
}

type session struct {
	readers map[string]io.Reader
	kept    [][]byte
	stream  *rlp.Stream
}

func encodePtr(v reflect.Value) ([]byte, error) {
	p := reflect.New(v.Type())
	p.Elem().Set(v)
	return rlp.EncodeToBytes(p.Interface())
}

func (ss *session) step(st string) (string, bool) {
	f := strings.Split(st, ":")
	tyVal := func(i int) (reflect.Value, bool, bool) { // value, parsed, buildable
		if i+1 >= len(f) {
			return reflect.Value{}, false, false
		}
		ty, err := tyOf(f[i])
		if err != nil {
			return reflect.Value{}, false, false
		}
		v, err := buildVal(goType(ty), f[i+1])
		if err != nil {
			return reflect.Value{}, true, false
		}
		return v, true, true
	}
	switch f[0] {
	case "eb", "ew":
		if len(f) != 3 {
			return "", false
		}
		v, ok, ok2 := tyVal(1)
		if !ok {
			return "", false
		}
		if !ok2 {
			return "!", true
		}
		var b []byte
		var err error
		if f[0] == "eb" {
			b, err = encodePtr(v)
		} else {
			var buf bytes.Buffer
			p := reflect.New(v.Type())
			p.Elem().Set(v)
			err = rlp.Encode(&buf, p.Interface())
			b = buf.Bytes()
		}
		if err != nil {
			return "!", true
		}
		ss.kept = append(ss.kept, b)
		return hx.Hex(b), true
	case "en":
		if len(f) != 3 {
			return "", false
		}
		pv, err := buildVal(reflect.TypeOf(nestedPlain{}), f[2])
		if err != nil {
			return "!", true
		}
		np := pv.Interface().(nestedPlain)
		var b []byte
		switch f[1] {
		case "b":
			b, err = rlp.EncodeToBytes(&outerB{np.Pre, innerB{np.V}, np.Post})
		case "r":
			b, err = rlp.EncodeToBytes(&outerR{np.Pre, innerR{np.V}, np.Post})
		case "e":
			b, err = rlp.EncodeToBytes(&outerE{np.Pre, innerE{np.V}, np.Post})
		default:
			return "", false
		}
		if err != nil {
			return "!", true
		}
		ss.kept = append(ss.kept, b)
		return hx.Hex(b), true
	case "er":
		if len(f) != 4 {
			return "", false
		}
		v, ok, ok2 := tyVal(2)
		if !ok {
			return "", false
		}
		if !ok2 {
			return "!", true
		}
		p := reflect.New(v.Type())
		p.Elem().Set(v)
		size, r, err := rlp.EncodeToReader(p.Interface())
		if err != nil {
			return "!", true
		}
		ss.readers[f[1]] = r
		return strconv.Itoa(size), true
	case "rd":
		if len(f) != 3 {
			return "", false
		}
		r, ok := ss.readers[f[1]]
		n, err := strconv.Atoi(f[2])
		if !ok || err != nil || n < 0 {
			return "", false
		}
		buf := make([]byte, n)
		k, rerr := r.Read(buf)
		out := hx.Hex(buf[:k])
		if rerr == io.EOF {
			out += "$"
		} else if rerr != nil {
			out += "!"
		}
		return out, true
	case "dr":
		if len(f) != 2 {
			return "", false
		}
		r, ok := ss.readers[f[1]]
		if !ok {
			return "", false
		}
		b, err := ioutil.ReadAll(r)
		if err != nil {
			return "!", true
		}
		ss.kept = append(ss.kept, b)
		return hx.Hex(b), true
	case "db", "dd":
		if len(f) != 3 {
			return "", false
		}
		ty, err := tyOf(f[1])
		b, err2 := hx.UnHex(f[2])
		if err != nil || err2 != nil {
			return "", false
		}
		pv := reflect.New(goType(ty))
		if f[0] == "db" {
			err = rlp.DecodeBytes(b, pv.Interface())
		} else {
			err = rlp.Decode(bytes.NewReader(b), pv.Interface())
		}
		if err != nil {
			return "err", true
		}
		return "ok " + showVal(pv.Elem()), true
	case "sr", "sl":
		var b []byte
		var ops string
		var err error
		rdr := bytes.NewReader(nil)
		var s *rlp.Stream
		if f[0] == "sr" {
			if len(f) != 3 {
				return "", false
			}
			b, err = hx.UnHex(f[1])
			ops = f[2]
			rdr = bytes.NewReader(b)
			if ss.stream == nil {
				ss.stream = rlp.NewStream(bytes.NewReader(nil), 0)
			}
			ss.stream.Reset(rdr, 0)
			s = ss.stream
		} else {
			if len(f) != 4 {
				return "", false
			}
			n, err0 := strconv.ParseUint(f[1], 10, 64)
			b, err = hx.UnHex(f[2])
			ops = f[3]
			if err0 != nil {
				return "", false
			}
			rdr = bytes.NewReader(b)
			s = rlp.NewListStream(rdr, n)
		}
		if err != nil {
			return "", false
		}
		out, ok := runScript(s, strings.Split(ops, ","))
		if !ok {
			return "", false
		}
		return strings.Join(out, "|") + "|c=" + strconv.Itoa(len(b)-rdr.Len()), true
	case "chk":
		parts := make([]string, len(ss.kept))
		for i, b := range ss.kept {
			parts[i] = hx.Hex(b)
		}
		return strings.Join(parts, ","), true
	}
	return "", false
}

func runApi(steps []string) string {
	ss := &session{readers: map[string]io.Reader{}}
	var out []string
	for _, st := range steps {
		r, ok := ss.step(st)
		if !ok {
			return "bad-op"
		}
		out = append(out, r)
	}
	return strings.Join(out, ";")
}

// ---------------------------------------------------------------------------
// generator

func smallTyVal(r *hx.Rng) (string, string) {
	for {
		t := genTy(r, 2)
		v := genVal(r, t, false, 1)
		if len(v) < 900 && !strings.Contains(t.String()+v, ":") && !strings.Contains(t.String()+v, ";") {
			return t.String(), v
		}
	}
}

func nestedVal(r *hx.Rng) string {
	n := r.Pick(0, 1, 2, 5, 20, 60)
	parts := []string{"L3", "B" + hx.Hex(strBytes(r, r.Pick(0, 1, 3, 60))), "L" + strconv.Itoa(n)}
	for i := 0; i < n; i++ {
		parts = append(parts, "N"+strconv.FormatUint(genUint(r, 64), 10))
	}
	parts = append(parts, "N"+strconv.FormatUint(genUint(r, 64), 10))
	return strings.Join(parts, ",")
}

func genApiSession(r *hx.Rng) string {
	var steps []string
	open := []string{}
	nextID := 0
	n := 4 + r.Intn(8)
	for i := 0; i < n; i++ {
		switch r.Intn(12) {
		case 0, 1:
			t, v := smallTyVal(r)
			steps = append(steps, pickS(r, "eb", "eb", "ew")+":"+t+":"+v)
		case 2, 3, 4:
			t, v := smallTyVal(r)
			id := "r" + strconv.Itoa(nextID)
			nextID++
			steps = append(steps, "er:"+id+":"+t+":"+v)
			open = append(open, id)
		case 5, 6:
			if len(open) > 0 {
				steps = append(steps, "rd:"+open[r.Intn(len(open))]+":"+strconv.Itoa(r.Pick(1, 1, 2, 3, 9, 56, 300)))
			}
		case 7:
			if len(open) > 0 {
				k := r.Intn(len(open))
				steps = append(steps, "dr:"+open[k])
			}
		case 8:
			steps = append(steps, "en:"+pickS(r, "b", "r", "e")+":"+nestedVal(r))
		case 9:
			enc, _ := rlp.EncodeToBytes(randItem(r, 2, false))
			if r.Chance(1, 3) {
				enc = mutate(r, enc)
			}
			if len(enc) < 400 {
				if r.Bool() {
					steps = append(steps, "sr:"+hx.Hex(enc)+":"+strings.Join(randScript(r), ","))
				} else {
					steps = append(steps, "sl:"+strconv.Itoa(r.Pick(0, 1, len(enc), len(enc)+1))+":"+hx.Hex(enc)+":"+strings.Join(randScript(r), ","))
				}
			}
		case 10:
			t, v := smallTyVal(r)
			ty, _ := tyOf(t)
			if enc, ok := encodeText(ty, v); ok && len(enc) < 400 {
				if r.Chance(1, 4) {
					enc = mutate(r, enc)
				}
				steps = append(steps, "db:"+t+":"+hx.Hex(enc))
			}
		default:
			t, v := smallTyVal(r)
			ty, _ := tyOf(t)
			if enc, ok := encodeText(ty, v); ok && len(enc) < 400 {
				// Decode from a reader leaves what follows the value unread
				enc = append(enc, r.Bytes(r.Intn(3))...)
				steps = append(steps, "dd:"+t+":"+hx.Hex(enc))
			}
		}
	}
	for _, id := range open {
		if r.Chance(2, 3) {
			steps = append(steps, "dr:"+id)
		}
	}
	steps = append(steps, "chk")
	return "api " + strings.Join(steps, ";")
}
