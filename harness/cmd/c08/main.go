// c08: correspondence harness and searcher for property C08 (RLP coding is
// canonical, lossless and total).  Every op line is executed against the REAL
// com.tuntun.rangers/node/src/storage/rlp package in-process; the same lines go to
// the Lean driver (lean/Rangers/Drive/C08.lean).
//
//	c08 ops=<f> obs=<f> tier=quick|thorough            generate + execute (corpus first)
//	c08 mode=exec in=<f> ops=<f> obs=<f>                 execute the given op lines only
//	c08 mode=search tier=… out=<f>                       Go-only property oracles, FINDING lines
//	c08 mode=probe ty=<type> hex=<hex>                   decode once under a watchdog (hang/alloc probe)
//	c08 mode=types                                       print the node's own RLP types as type expressions
package main

import (
	"bufio"
	"bytes"
	"fmt"
	"io"
	"os"
	"path/filepath"
	"reflect"
	"runtime"
	"sort"
	"strconv"
	"strings"
	"sync/atomic"
	"time"

	"com.tuntun.rangers/node/src/storage/rlp"
	"verif/harness/hx"
)

// errName maps an error of the rlp package to the enum shared with the Lean model (Err.name).
func errName(err error) string {
	switch err {
	case io.ErrUnexpectedEOF:
		return "eof"
	case io.EOF:
		return "ioeof"
	case rlp.ErrCanonSize:
		return "canon-size"
	case rlp.ErrCanonInt:
		return "canon-int"
	case rlp.ErrExpectedString:
		return "expected-string"
	case rlp.ErrExpectedList:
		return "expected-list"
	case rlp.ErrElemTooLarge:
		return "elem-too-large"
	case rlp.ErrValueTooLarge:
		return "value-too-large"
	case rlp.ErrMoreThanOneValue:
		return "more-than-one"
	case rlp.EOL:
		return "eol"
	}
	m := err.Error()
	switch {
	case m == "rlp: call of ListEnd outside of any list":
		return "not-in-list"
	case m == "rlp: call of ListEnd not positioned at EOL":
		return "not-at-eol"
	case m == "rlp: uint overflow":
		return "uint-overflow"
	case strings.HasPrefix(m, "rlp: invalid boolean value"):
		return "bad-bool"
	case strings.HasPrefix(m, "rlp: non-canonical integer (leading zero bytes) for"):
		return "canon-int"
	case strings.HasPrefix(m, "rlp: non-canonical size information for"):
		return "canon-size"
	case strings.HasPrefix(m, "rlp: expected input list for"):
		return "expected-list"
	case strings.HasPrefix(m, "rlp: expected input string or byte for"):
		return "expected-string"
	case strings.HasPrefix(m, "rlp: input string too long for"):
		return "uint-overflow"
	case strings.HasPrefix(m, "rlp: input list has too many elements"):
		return "not-at-eol"
	}
	return "other:" + strings.ReplaceAll(m, " ", "_")
}

// unlimited hides *bytes.Reader from Stream.Reset's type switch (so no input limit is
// discovered) while still being a ByteReader (so no bufio read-ahead).
type unlimited struct{ r *bytes.Reader }

func (u *unlimited) Read(p []byte) (int, error) { return u.r.Read(p) }
func (u *unlimited) ReadByte() (byte, error)    { return u.r.ReadByte() }

func kindName(k rlp.Kind) string {
	switch k {
	case rlp.Byte:
		return "byte"
	case rlp.String:
		return "string"
	case rlp.List:
		return "list"
	}
	return "kind?" + strconv.Itoa(int(k))
}

func runStream(mode string, b []byte, ops []string) string {
	rd := bytes.NewReader(b)
	var s *rlp.Stream
	switch {
	case mode == "auto":
		s = rlp.NewStream(rd, 0)
	case mode == "unl":
		s = rlp.NewStream(&unlimited{rd}, 0)
	case strings.HasPrefix(mode, "lim"):
		k, err := strconv.ParseUint(mode[3:], 10, 64)
		if err != nil {
			return "bad-op"
		}
		s = rlp.NewStream(rd, k)
	default:
		return "bad-op"
	}
	out, ok := runScript(s, ops)
	if !ok {
		return "bad-op"
	}
	return strings.Join(out, ";") + " c=" + strconv.Itoa(len(b)-rd.Len())
}

// runScript calls the Stream methods named by ops and renders each result.
func runScript(s *rlp.Stream, ops []string) ([]string, bool) {
	var out []string
	put := func(ok string, err error) {
		if err != nil {
			out = append(out, "!"+errName(err))
		} else {
			out = append(out, ok)
		}
	}
	for _, op := range ops {
		switch op {
		case "k":
			k, n, err := s.Kind()
			put("K:"+kindName(k)+":"+strconv.FormatUint(n, 10), err)
		case "b":
			x, err := s.Bytes()
			put("B:"+hx.Hex(x), err)
		case "r":
			x, err := s.Raw()
			put("R:"+hx.Hex(x), err)
		case "u64":
			x, err := s.Uint()
			put("U:"+strconv.FormatUint(x, 10), err)
		case "u8":
			var x uint8
			err := s.Decode(&x)
			put("U:"+strconv.FormatUint(uint64(x), 10), err)
		case "u16":
			var x uint16
			err := s.Decode(&x)
			put("U:"+strconv.FormatUint(uint64(x), 10), err)
		case "u32":
			var x uint32
			err := s.Decode(&x)
			put("U:"+strconv.FormatUint(uint64(x), 10), err)
		case "t":
			x, err := s.Bool()
			put("T:"+strconv.FormatBool(x), err)
		case "l":
			n, err := s.List()
			put("L:"+strconv.FormatUint(n, 10), err)
		case "e":
			err := s.ListEnd()
			put("E", err)
		case "a":
			var v interface{}
			err := s.Decode(&v)
			if err != nil {
				put("", err)
			} else {
				put("A:"+showVal(reflect.ValueOf(&v).Elem()), nil)
			}
		default:
			return nil, false
		}
	}
	return out, true
}

func resE(ok string, err error) string {
	if err != nil {
		return "err " + errName(err)
	}
	return "ok " + ok
}

func resCoarse(ok string, err error) string {
	if err != nil {
		return "err"
	}
	return "ok " + ok
}

// execOp runs one op line on the implementation.
func execOp(line string) string {
	w := strings.Fields(line)
	if len(w) == 0 {
		return "bad-op"
	}
	unhex := func(i int) ([]byte, bool) {
		if i >= len(w) {
			return nil, false
		}
		b, err := hx.UnHex(w[i])
		return b, err == nil
	}
	switch w[0] {
	case "split", "splitstr", "splitlist", "count", "any", "anyp":
		if len(w) != 2 {
			return "bad-op"
		}
		b, ok := unhex(1)
		if !ok {
			return "bad-op"
		}
		switch w[0] {
		case "split":
			k, c, r, err := rlp.Split(b)
			return resE(kindName(k)+" "+hx.Hex(c)+" "+hx.Hex(r), err)
		case "splitstr":
			c, r, err := rlp.SplitString(b)
			return resE(hx.Hex(c)+" "+hx.Hex(r), err)
		case "splitlist":
			c, r, err := rlp.SplitList(b)
			return resE(hx.Hex(c)+" "+hx.Hex(r), err)
		case "count":
			n, err := rlp.CountValues(b)
			return resE(strconv.Itoa(n), err)
		case "any", "anyp":
			var v interface{}
			err := rlp.DecodeBytes(b, &v)
			s := ""
			if err == nil {
				s = showVal(reflect.ValueOf(&v).Elem())
			}
			if w[0] == "any" {
				return resE(s, err)
			}
			return resCoarse(s, err)
		}
	case "stream":
		if len(w) != 4 {
			return "bad-op"
		}
		b, ok := unhex(2)
		if !ok {
			return "bad-op"
		}
		return runStream(w[1], b, strings.Split(w[3], ","))
	case "dec":
		if len(w) != 3 {
			return "bad-op"
		}
		ty, err := tyOf(w[1])
		b, ok := unhex(2)
		if err != nil || !ok {
			return "bad-op"
		}
		v := reflect.New(goType(ty))
		err = rlp.DecodeBytes(b, v.Interface())
		if err != nil {
			return "err"
		}
		return "ok " + showVal(v.Elem())
	case "hist":
		if len(w) != 6 {
			return "bad-op"
		}
		return runHist(w[1], w[2], w[3], w[4], w[5])
	case "api":
		if len(w) != 2 {
			return "bad-op"
		}
		return runApi(strings.Split(w[1], ";"))
	case "encbuf":
		if len(w) != 2 {
			return "bad-op"
		}
		v, err := buildVal(ifaceType, w[1])
		if err != nil || v.IsNil() {
			return "bad-op"
		}
		b, err := rlp.EncodeToBytes(v.Interface())
		return resE(hx.Hex(b), err)
	case "enc":
		if len(w) != 3 {
			return "bad-op"
		}
		ty, err := tyOf(w[1])
		if err != nil {
			return "bad-op"
		}
		v, err := buildVal(goType(ty), w[2])
		if err != nil {
			return "err"
		}
		var b []byte
		if ty.K == "any" && v.IsNil() {
			// a nil interface{} cannot be passed to EncodeToBytes directly; encode it as the
			// only element of a struct and strip the list header (c1 c0 -> c0).
			b, err = rlp.EncodeToBytes([]interface{}{nil})
			if err == nil && len(b) > 1 {
				b = b[1:]
			}
		} else {
			// pass a pointer so that arrays are addressable, exactly like the node does (&tx.data)
			p := reflect.New(v.Type())
			p.Elem().Set(v)
			b, err = rlp.EncodeToBytes(p.Interface())
		}
		return resCoarse(hx.Hex(b), err)
	}
	return "bad-op"
}

var histSalt int64

// runHist: plain-encode / tail-encode / plain-decode / tail-decode on types nobody has used yet
// in this process, in the order given; the four answers are printed in the fixed order P;T;p;t.
func runHist(order, elemS, vtext, plainHex, tailHex string) string {
	elem, err := tyOf(elemS)
	pb, err1 := hx.UnHex(plainHex)
	tb, err2 := hx.UnHex(tailHex)
	if err != nil || err1 != nil || err2 != nil || len(order) != 4 {
		return "bad-op"
	}
	salt := "h" + strconv.FormatInt(atomic.AddInt64(&histSalt, 1), 10)
	et := &Ty{K: "R", Fs: []Field{{"", elem}}}
	plainTy := &Ty{K: "S", E: et}
	tailTy := &Ty{K: "R", Fs: []Field{{"", &Ty{K: "u64"}}, {"tail", plainTy}}}
	prt := goTypeSalted(plainTy, salt)
	trt := goTypeSalted(tailTy, salt)
	res := map[byte]string{}
	for i := 0; i < 4; i++ {
		switch order[i] {
		case 'P':
			v, err := buildVal(prt, vtext)
			if err != nil {
				return "bad-op"
			}
			b, err := encodePtr(v)
			res['P'] = resCoarse(hx.Hex(b), err)
		case 'T':
			v, err := buildVal(trt, "L2,N7,"+vtext)
			if err != nil {
				return "bad-op"
			}
			b, err := encodePtr(v)
			res['T'] = resCoarse(hx.Hex(b), err)
		case 'p':
			pv := reflect.New(prt)
			if err := rlp.DecodeBytes(pb, pv.Interface()); err != nil {
				res['p'] = "err"
			} else {
				res['p'] = "ok " + showVal(pv.Elem())
			}
		case 't':
			pv := reflect.New(trt)
			if err := rlp.DecodeBytes(tb, pv.Interface()); err != nil {
				res['t'] = "err"
			} else {
				res['t'] = "ok " + showVal(pv.Elem())
			}
		default:
			return "bad-op"
		}
	}
	if len(res) != 4 {
		return "bad-op"
	}
	return res['P'] + ";" + res['T'] + ";" + res['p'] + ";" + res['t']
}

// ---------------------------------------------------------------------------
// watchdog: an op that runs away (time or heap) aborts the process with a clear marker
// instead of taking the sandbox down (the unfixed decodeByteArray loops forever while
// growing a slice on `dec S,a1 c100`).

var opStart int64      // unix nano of the running call, 0 when idle
var peakHeap uint64    // largest HeapAlloc the watchdog has seen
var curOp atomic.Value // the op line being executed (string)
var curPath string     // where to leave it if the watchdog aborts (vlib reads <ops>.cur)

// curOpText renders the call the process is in (a string, or a closure evaluated only now).
func curOpText() string {
	if f, ok := curOp.Load().(func() string); ok && f != nil {
		return f()
	}
	return ""
}

// leaveCur leaves the op the process died in where vlib (correspondence) looks for it; a death that
// is not attributable to one call is marked so that it is never taken for a failing input.
func leaveCur(attributable bool) {
	if curPath != "" {
		s := curOpText()
		if !attributable {
			s = "(process-heap) " + s
		}
		_ = os.WriteFile(curPath, []byte(s+"\n"), 0644)
	}
}

var opSeq int64 // incremented at the start of every call into the package

// startWatchdog aborts the process (exit 3) in three distinguishable situations:
//
//	WATCHDOG call-time …   ONE call into the package has been running longer than maxOp
//	WATCHDOG call-heap …   the heap grew by more than 1 GiB (or past maxHeap) WHILE ONE call was running:
//	                       growth is measured from the first sample taken during that call
//	                       (both: the property-level "never returns / allocates without bound";
//	                       the full op follows on a line `WATCHDOG-OP <op>`)
//	WATCHDOG process-heap  the process as a whole grew past maxHeap across many calls:
//	                       that is the check machinery's own memory use, never a property finding
func startWatchdog(maxOp time.Duration, maxHeap uint64) {
	go func() {
		var ms runtime.MemStats
		var lastSeq int64 = -1
		var baseHeap uint64
		die := func(kind string, attributable bool, running time.Duration) {
			op := curOpText()
			short := op
			if len(short) > 300 {
				short = short[:300] + "…"
			}
			if attributable {
				fmt.Printf("WATCHDOG %s heap=%d grown=%d running=%s op=%s\n", kind, ms.HeapAlloc, ms.HeapAlloc-baseHeap, running.Round(time.Millisecond), short)
				fmt.Printf("WATCHDOG-OP %s\n", op)
			} else {
				fmt.Printf("WATCHDOG process-heap heap=%d (spread over many calls: the harness/searcher itself grew)\n", ms.HeapAlloc)
			}
			leaveCur(attributable)
			os.Exit(3)
		}
		for {
			time.Sleep(50 * time.Millisecond)
			st := atomic.LoadInt64(&opStart)
			seq := atomic.LoadInt64(&opSeq)
			runtime.ReadMemStats(&ms)
			if ms.HeapAlloc > atomic.LoadUint64(&peakHeap) {
				if os.Getenv("C08_HEAPTRACE") != "" && ms.HeapAlloc>>28 > atomic.LoadUint64(&peakHeap)>>28 {
					op := curOpText()
					fmt.Fprintf(os.Stderr, "HEAP %d MB inuse=%d MB objects=%d op=%s\n", ms.HeapAlloc>>20, ms.HeapInuse>>20, ms.HeapObjects, op)
				}
				atomic.StoreUint64(&peakHeap, ms.HeapAlloc)
			}
			if seq != lastSeq || ms.HeapAlloc < baseHeap {
				lastSeq, baseHeap = seq, ms.HeapAlloc
			}
			running := time.Duration(0)
			if st != 0 {
				running = time.Since(time.Unix(0, st))
			}
			grown := ms.HeapAlloc - baseHeap
			inCallNow := st != 0 && atomic.LoadInt64(&opSeq) == seq
			if inCallNow && grown > 1<<30 {
				die("call-heap", true, running)
			}
			if ms.HeapAlloc > maxHeap {
				attributable := inCallNow && (running > 2*time.Second || grown > maxHeap/4)
				if !attributable {
					// garbage of many finished calls is not a reason to die: collect, look again
					runtime.GC()
					runtime.ReadMemStats(&ms)
					if ms.HeapAlloc <= maxHeap*3/4 {
						baseHeap = ms.HeapAlloc
						continue
					}
				}
				die("call-heap", attributable, running)
			}
			if st != 0 && running > maxOp {
				die("call-time", true, running)
			}
		}
	}()
}

// inCall brackets one call into the package for the watchdog (search mode).
func inCall(op string) func() {
	curOp.Store(func() string { return op })
	atomic.AddInt64(&opSeq, 1)
	atomic.StoreInt64(&opStart, time.Now().UnixNano())
	return func() { atomic.StoreInt64(&opStart, 0) }
}

// inCallF is inCall with the op text built only if the watchdog needs it.
func inCallF(op func() string) func() {
	curOp.Store(op)
	atomic.AddInt64(&opSeq, 1)
	atomic.StoreInt64(&opStart, time.Now().UnixNano())
	return func() { atomic.StoreInt64(&opStart, 0) }
}

type runner struct {
	out  *hx.Out
	size map[string]int // input size buckets
	errs map[string]int // op kind + error kind of error-exact answers, stream step results
	n    int
}

func (r *runner) do(op string) string {
	// hx.Out.Do would rewrite the .cur file for every op (3 syscalls each, ~150 s per
	// run); the watchdog leaves the current op there instead when it has to abort.
	r.n++
	atomic.AddInt64(&opSeq, 1)
	atomic.StoreInt64(&opStart, time.Now().UnixNano())
	curOp.Store(func() string { return op })
	res := hx.Guard(func() string { return execOp(op) })
	r.out.Emit(op, res)
	w := strings.Fields(op)
	if len(w) >= 1 {
		switch {
		case strings.HasPrefix(res, "err "):
			r.errs[w[0]+":"+strings.Fields(res)[1]]++
		case res == "err":
			r.errs[w[0]+":err"]++
		case strings.HasPrefix(res, "ok"):
			r.errs[w[0]+":ok"]++
		case w[0] == "stream":
			for _, step := range strings.Split(strings.Fields(res)[0], ";") {
				if strings.HasPrefix(step, "!") {
					r.errs["stream-step:"+step[1:]]++
				} else if i := strings.IndexByte(step, ':'); i > 0 {
					r.errs["stream-step:"+step[:i]]++
				} else {
					r.errs["stream-step:"+step]++
				}
			}
		}
	}
	if len(w) >= 2 {
		h := w[len(w)-1]
		if w[0] == "stream" {
			h = w[2]
		}
		n := len(h) / 2
		var bk string
		switch {
		case n <= 2:
			bk = "len<=2"
		case n <= 8:
			bk = "len<=8"
		case n <= 55:
			bk = "len<=55"
		case n <= 256:
			bk = "len<=256"
		default:
			bk = "len>256"
		}
		r.size[bk]++
	}
	return res
}

func readLines(path string) []string {
	f, err := os.Open(path)
	if err != nil {
		return nil
	}
	defer f.Close()
	var ls []string
	sc := bufio.NewScanner(f)
	sc.Buffer(make([]byte, 1<<20), 1<<26)
	for sc.Scan() {
		l := strings.TrimSpace(sc.Text())
		if l == "" || strings.HasPrefix(l, "#") {
			continue
		}
		ls = append(ls, l)
	}
	return ls
}

func main() {
	a := hx.Args()
	switch a["mode"] {
	case "search":
		startWatchdog(20*time.Second, 3<<30)
		searchMain(a)
		return
	case "probe":
		probeMain(a)
		return
	case "conc":
		startWatchdog(60*time.Second, 3<<30)
		concMain(a)
		return
	case "types":
		for _, nt := range nodeTypes() {
			fmt.Printf("%s %s\n", nt.Name, nt.Ty.String())
		}
		return
	}
	startWatchdog(20*time.Second, 3<<30)
	out, err := hx.NewOut(a["ops"], a["obs"])
	if err != nil {
		panic(err)
	}
	curPath = a["ops"] + ".cur"
	atomic.StoreInt64(&opStart, time.Now().UnixNano())
	defer out.Close()
	r := &runner{out: out, size: map[string]int{}, errs: map[string]int{}}
	if a["mode"] == "exec" {
		for _, l := range readLines(a["in"]) {
			r.do(l)
		}
		fmt.Println("STATS " + out.StatsJSON())
		return
	}
	// corpus first
	if dir := os.Getenv("VERIF_CORPUS"); dir != "" {
		fs, _ := filepath.Glob(filepath.Join(dir, "*.ops"))
		sort.Strings(fs)
		for _, f := range fs {
			for _, l := range readLines(f) {
				r.do(l)
			}
		}
	}
	rng := hx.NewRng(hx.SeedFromEnv())
	generate(r, rng, a["tier"] == "thorough")
	st := out.StatsJSON()
	// append the size distribution
	var sb strings.Builder
	sb.WriteString(st[:len(st)-1])
	sb.WriteString(",\"sizes\":{")
	ks := make([]string, 0, len(r.size))
	for k := range r.size {
		ks = append(ks, k)
	}
	sort.Strings(ks)
	for i, k := range ks {
		if i > 0 {
			sb.WriteByte(',')
		}
		sb.WriteString(strconv.Quote(k) + ":" + strconv.Itoa(r.size[k]))
	}
	sb.WriteString("},\"answers\":{")
	ks = ks[:0]
	for k := range r.errs {
		ks = append(ks, k)
	}
	sort.Strings(ks)
	for i, k := range ks {
		if i > 0 {
			sb.WriteByte(',')
		}
		sb.WriteString(strconv.Quote(k) + ":" + strconv.Itoa(r.errs[k]))
	}
	sb.WriteString("}}")
	fmt.Println("STATS " + sb.String())
}
