// c16: correspondence harness and searcher for property C16 (VRF proofs are
// complete, mutation-proof and survive header transport; qn in range).
//
// Every op line is executed by exec() against the REAL go-rangers code
// (common/ed25519, consensus/vrf, consensus/logical, consensus) and the answer
// is written next to it; the Lean driver answers the same lines from the model.
//
//	mode=corr   (default) corpus first, then generated ops
//	mode=search direct property oracle on the implementation (no model)
//	mode=exec   run the op lines of file in=<path> (replay)
package main

import (
	"bufio"
	"bytes"
	"crypto/sha512"
	"encoding/json"
	"fmt"
	"math/big"
	"os"
	"path/filepath"
	"sort"
	"strconv"
	"strings"
	"time"

	"com.tuntun.rangers/node/src/common"
	"com.tuntun.rangers/node/src/common/ed25519"
	"com.tuntun.rangers/node/src/consensus"
	"com.tuntun.rangers/node/src/consensus/logical"
	"com.tuntun.rangers/node/src/consensus/model"
	"com.tuntun.rangers/node/src/consensus/vrf"
	"com.tuntun.rangers/node/src/middleware/types"
	"golang.org/x/crypto/sha3"
	"verif/harness/hx"
	"verif/harness/hxnode"
)

var (
	pFe, _  = new(big.Int).SetString("7fffffffffffffffffffffffffffffffffffffffffffffffffffffffffffffed", 16)
	lOrd, _ = new(big.Int).SetString("1000000000000000000000000000000014def9dea2f79cd65812631a5cf5d3ed", 16)
	max256  = new(big.Int).Sub(new(big.Int).Lsh(big.NewInt(1), 256), big.NewInt(1))
)

func threshold() uint64 {
	return common.LocalChainConfig.Proposal025Block + common.GetRewardBlocks()
}

func b32(b []byte) (r [32]byte) { copy(r[:], b); return }

func u(s string) (uint64, bool) {
	n, err := strconv.ParseUint(s, 10, 64)
	return n, err == nil
}

// exec runs one op line against the implementation. Panics are caught by the caller (hx.Guard).
// ops that are issued TWICE on the same in-memory byte slices: the answer must be the same both times
var twiceOps = map[string]bool{"prove": true, "verify": true, "qn": true, "vbv": true, "vbt": true, "vbp": true, "gp": true,
	"vmsg": true, "p2h": true, "p2v": true, "pad": true, "transport": true, "h2c": true, "genkey": true}

// exec runs one op line against the implementation. Every byte-string argument is decoded ONCE, handed to the
// code, and compared with a deep copy afterwards (a callee that writes into caller-owned input answers
// INPUT-MUTATED); verification / proof ops are then issued a second time on the very same slices and must
// answer the same (else UNSTABLE).
func exec(line string) string {
	w := strings.Fields(line)
	if len(w) == 0 {
		return "bad-op"
	}
	held := map[int][]byte{}
	copies := map[int][]byte{}
	r1 := execInner(w, held, copies)
	for i, b := range held {
		if !bytes.Equal(b, copies[i]) {
			return fmt.Sprintf("INPUT-MUTATED arg%d %s->%s answer=%s", i, hx.Hex(copies[i]), hx.Hex(b), strings.ReplaceAll(r1, " ", "_"))
		}
	}
	if twiceOps[w[0]] {
		r2 := execInner(w, held, copies)
		for i, b := range held {
			if !bytes.Equal(b, copies[i]) {
				return fmt.Sprintf("INPUT-MUTATED arg%d (second call) answer=%s", i, strings.ReplaceAll(r1, " ", "_"))
			}
		}
		if r2 != r1 {
			return "UNSTABLE first=" + strings.ReplaceAll(r1, " ", "_") + " second=" + strings.ReplaceAll(r2, " ", "_")
		}
	}
	return r1
}

// execDeadline: exec under a panic guard and a per-call deadline. A call that does not return in time is
// answered HANG (its goroutine is abandoned; the caller stops the stream after a few of them).
var callDeadline = 6 * time.Second

func execDeadline(line string) (res string, hung bool) {
	ch := make(chan string, 1)
	go func() { ch <- hx.Guard(func() string { return exec(line) }) }()
	select {
	case r := <-ch:
		return r, false
	case <-time.After(callDeadline):
		return "HANG call did not return within " + callDeadline.String(), true
	}
}

func execInner(w []string, held, copies map[int][]byte) string {
	hb := func(i int) []byte {
		if b, ok := held[i]; ok {
			return b
		}
		b, err := hx.UnHex(w[i])
		if err != nil {
			panic("harness: bad hex in op")
		}
		held[i] = b
		copies[i] = append([]byte{}, b...)
		return b
	}
	switch w[0] {
	case "sha512":
		d := sha512.Sum512(hb(1))
		return hx.Hex(d[:])
	case "genkey":
		pk, sk, err := vrf.VRFGenerateKey(bytes.NewReader(hb(1)))
		if err != nil {
			return "err"
		}
		return hx.Hex(pk) + " " + hx.Hex(sk)
	case "thr": // Proposal025Block + GetRewardBlocks() as the node computes it, for a given Proposal025Block
		p, _ := u(w[1])
		save := common.LocalChainConfig.Proposal025Block
		common.LocalChainConfig.Proposal025Block = p
		r := threshold()
		common.LocalChainConfig.Proposal025Block = save
		return strconv.FormatUint(r, 10)
	case "gp": // vrfWorker.genProve: proposer side
		thr, _ := u(w[1])
		setThreshold(thr)
		sk := hb(2)
		ns, _ := strconv.ParseInt(w[4], 10, 64)
		bhh, _ := u(w[5])
		wm, _ := u(w[6])
		t, _ := u(w[7])
		var pk []byte
		if len(sk) >= 64 {
			pk = sk[32:64]
		}
		before := time.Unix(1700000000, 0)
		pi, qn, err := logical.VerifC16GenProve(pk, sk, hb(3), before, before.Add(time.Duration(ns)), bhh, bhh+1, wm, t)
		switch {
		case err == nil:
			return "ok " + hx.Hex(pi) + " " + strconv.FormatUint(qn, 10)
		case err.Error() == "proof fail":
			return "proof-fail"
		case err == ed25519.ErrMalformedSK:
			return "err-sk"
		}
		return "err-other " + strings.ReplaceAll(err.Error(), " ", "_")
	case "sha3":
		d := sha3.Sum256(hb(1))
		return hx.Hex(d[:])
	case "cdelta":
		ns, _ := strconv.ParseInt(w[1], 10, 64)
		before := time.Unix(1700000000, 0)
		return strconv.Itoa(logical.CalDeltaByTime(before.Add(time.Duration(ns)), before))
	case "vmsg":
		d, _ := strconv.Atoi(w[2])
		return hx.Hex(logical.VerifC16GenVrfMsg(hb(1), d))
	case "vbt": // verifyBlockVRF with the message built by the node itself from pre.Random and the two block times
		thr, _ := u(w[1])
		setThreshold(thr)
		ns, _ := strconv.ParseInt(w[5], 10, 64)
		h, _ := u(w[6])
		wm, _ := u(w[7])
		t, _ := u(w[8])
		tq, _ := u(w[9])
		ptq, _ := u(w[10])
		before := time.Unix(1700000000, 0)
		pre := &types.BlockHeader{Random: hb(4), CurTime: before, TotalQN: ptq, Height: h - 1}
		bh := &types.BlockHeader{ProveValue: new(big.Int).SetBytes(hb(3)), CurTime: before.Add(time.Duration(ns)), PreTime: before, TotalQN: tq, Height: h}
		castor := &model.MinerInfo{VrfPK: vrf.VRFPublicKey(hb(2)), WorkingMiners: wm}
		ok, err := logical.VerifC16VerifyBlockVRF(bh, pre, castor, t)
		return vbvResult(ok, err)
	case "vbp": // like vbt, but the header's PreTime field is whatever the sender wrote: <ns offset from the parent's CurTime> | zero | past
		thr, _ := u(w[1])
		setThreshold(thr)
		ns, _ := strconv.ParseInt(w[5], 10, 64)
		h, _ := u(w[7])
		wm, _ := u(w[8])
		t, _ := u(w[9])
		tq, _ := u(w[10])
		ptq, _ := u(w[11])
		before := time.Unix(1700000000, 0)
		var preTime time.Time
		switch w[6] {
		case "zero":
		case "past":
			preTime = time.Unix(1000, 0)
		default:
			off, _ := strconv.ParseInt(w[6], 10, 64)
			preTime = before.Add(time.Duration(off))
		}
		pre := &types.BlockHeader{Random: hb(4), CurTime: before, TotalQN: ptq, Height: h - 1}
		bh := &types.BlockHeader{ProveValue: new(big.Int).SetBytes(hb(3)), CurTime: before.Add(time.Duration(ns)), PreTime: preTime, TotalQN: tq, Height: h}
		castor := &model.MinerInfo{VrfPK: vrf.VRFPublicKey(hb(2)), WorkingMiners: wm}
		ok, err := logical.VerifC16VerifyBlockVRF(bh, pre, castor, t)
		return vbvResult(ok, err)
	case "pad":
		return hx.Hex(ed25519.VerifC16TryZeroPadding(hb(1))) + " " + hx.Hex(logical.VerifC16TryZeroPadding(hb(1)))
	case "transport":
		pv := vrf.VRFProve(hb(1)).Big() // what the proposer stores in the header
		back := pv.Bytes()              // what verifyBlockVRF reads back
		return hx.Hex(back) + " " + hx.Hex(ed25519.VerifC16TryZeroPadding(back))
	case "canon":
		return strconv.Itoa(int(ed25519.VerifC16IsCanonical(b32(hb(1)))))
	case "s2p":
		ok, re := ed25519.VerifC16StringToPoint(b32(hb(1)))
		if !ok {
			return "fail"
		}
		return "ok " + hx.Hex(re[:])
	case "funi":
		r := ed25519.VerifC16FromUniform(b32(hb(1)))
		return hx.Hex(r[:])
	case "h2c":
		r := ed25519.VerifC16HashToCurve(hb(1), ed25519.PublicKey(hb(2)))
		return hx.Hex(r[:])
	case "expand":
		x, t := ed25519.VerifC16ExpandSecret(ed25519.PrivateKey(hb(1)))
		return hx.Hex(x[:]) + " " + hx.Hex(t[:])
	case "nonce":
		k := ed25519.VerifC16Nonce(b32(hb(1)), b32(hb(2)))
		return hx.Hex(k[:])
	case "hpts":
		c := ed25519.VerifC16HashPoints(b32(hb(1)), b32(hb(2)), b32(hb(3)), b32(hb(4)))
		return hx.Hex(c[:])
	case "smulb":
		return hx.Hex(smulBase(hb(1)))
	case "smul": // GeScalarMult (sliding window) on FromBytes(a), decode flag ignored like ECVRFVerify does for pk
		return hx.Hex(scalarMult(hb(1), hb(2)))
	case "prove":
		sk := hb(1)
		pi, err := vrf.VRFGenProve(nil, vrf.VRFPrivateKey(sk), hb(2))
		if err != nil {
			return "err-sk"
		}
		return "ok " + hx.Hex(pi)
	case "verify":
		ok, err := vrf.VRFVerify(vrf.VRFPublicKey(hb(1)), vrf.VRFProve(hb(2)), hb(3))
		if err != nil {
			return "err-decode"
		}
		return strconv.FormatBool(ok)
	case "p2h":
		return hx.Hex(vrf.VRFProof2Hash(vrf.VRFProve(hb(1))))
	case "p2v":
		h := &consensus.ConsensusHelperImpl{}
		return h.VRFProve2Value(new(big.Int).SetBytes(hb(1))).String()
	case "pp":
		t, _ := u(w[1])
		return strconv.FormatUint(logical.VerifC16CalcPotentialProposal(t), 10)
	case "sr":
		d, _ := u(w[1])
		t, _ := u(w[2])
		return logical.VerifC16CalcStakeRatio(d, t).RatString()
	case "qnr":
		vn, _ := new(big.Int).SetString(w[1], 10)
		vd, _ := new(big.Int).SetString(w[2], 10)
		sn, _ := new(big.Int).SetString(w[3], 10)
		sd, _ := new(big.Int).SetString(w[4], 10)
		v := new(big.Rat).SetFrac(vn, vd)
		s := new(big.Rat).SetFrac(sn, sd)
		return strconv.FormatUint(logical.VerifC16CalQn(v, s), 10)
	case "qn":
		thr, _ := u(w[1])
		setThreshold(thr)
		h, _ := u(w[3])
		wm, _ := u(w[4])
		t, _ := u(w[5])
		ok, qn := logical.VerifC16ValidateProve(hb(2), h, wm, t)
		return strconv.FormatBool(ok) + " " + strconv.FormatUint(qn, 10)
	case "vbv":
		thr, _ := u(w[1])
		setThreshold(thr)
		h, _ := u(w[5])
		wm, _ := u(w[6])
		t, _ := u(w[7])
		tq, _ := u(w[8])
		ptq, _ := u(w[9])
		now := time.Unix(1700000000, 0)
		msg := hb(4)
		pre := &types.BlockHeader{Random: msg, CurTime: now, TotalQN: ptq, Height: h - 1}
		bh := &types.BlockHeader{ProveValue: new(big.Int).SetBytes(hb(3)), CurTime: now, PreTime: now, TotalQN: tq, Height: h}
		castor := &model.MinerInfo{VrfPK: vrf.VRFPublicKey(hb(2)), WorkingMiners: wm}
		ok, err := logical.VerifC16VerifyBlockVRF(bh, pre, castor, t)
		return vbvResult(ok, err)
	}
	return "bad-op"
}

func vbvResult(ok bool, err error) string {
	switch {
	case ok:
		return "ok"
	case err == nil:
		return "false"
	case err == ed25519.ErrDecodeError:
		return "err-decode"
	case err.Error() == "proof not satisfy":
		return "not-satisfy"
	case strings.HasPrefix(err.Error(), "qn error"):
		return "qn-error"
	}
	return "err-other " + strings.ReplaceAll(err.Error(), " ", "_")
}

// setThreshold makes Proposal025Block + GetRewardBlocks() equal thr (thr >= reward blocks).
func setThreshold(thr uint64) {
	rb := common.GetRewardBlocks()
	if thr < rb {
		panic("harness: threshold below reward blocks")
	}
	common.LocalChainConfig.Proposal025Block = thr - rb
}

// smulBase: k*B through the public prove path is not available; use ed25519 key
// derivation's own primitive via the exported edwards25519 package.
func smulBase(k []byte) []byte { return smulBaseImpl(k) }

type gen struct {
	r     *hx.Rng
	out   *hx.Out
	thr   []uint64
	hangs []string // op lines that did not return within the deadline
	abort bool     // set after a few hangs: the rest of the stream is skipped so that the run ends quickly
}

func (g *gen) do(line string) string {
	if g.abort {
		return "skipped"
	}
	return g.out.Do(line, func() string {
		r, hung := execDeadline(line)
		if hung {
			g.hangs = append(g.hangs, line)
			if len(g.hangs) >= 3 {
				g.abort = true
			}
		}
		return r
	})
}

// special answers of the harness itself (input mutation, instability, hangs): reported to the plugin as violations
func (g *gen) specials() {
	type sp struct{ Key, Desc, Op string }
	var out []sp
	for _, l := range g.hangs {
		out = append(out, sp{"hang:" + strings.Fields(l)[0], "the call did not return within " + callDeadline.String() + " (per-call deadline of the harness)", l})
	}
	b, _ := json.Marshal(out)
	fmt.Println("SPECIALS " + string(b))
}

func (g *gen) key() (pk, sk []byte) {
	seed := g.r.Bytes(32)
	p, s, err := ed25519.GenerateKey(bytes.NewReader(seed))
	if err != nil {
		panic(err)
	}
	return p, s
}

func (g *gen) msg() []byte {
	switch g.r.Intn(6) {
	case 0:
		return []byte{}
	case 1:
		return g.r.Bytes(32)
	case 2:
		return g.r.Bytes(64)
	default:
		return g.r.Bytes(g.r.Intn(130))
	}
}

func flip(b []byte, bit int) []byte {
	c := append([]byte{}, b...)
	c[bit/8] ^= 1 << uint(bit%8)
	return c
}

func leBig(b []byte) *big.Int {
	c := make([]byte, len(b))
	for i := range b {
		c[len(b)-1-i] = b[i]
	}
	return new(big.Int).SetBytes(c)
}

func bigLE(v *big.Int, n int) []byte {
	be := v.Bytes()
	c := make([]byte, n)
	for i := 0; i < len(be) && i < n; i++ {
		c[i] = be[len(be)-1-i]
	}
	return c
}

// interesting 32-byte point encodings: boundaries of the field, small-order points, sign-bit variants.
func edgeEncodings() [][]byte {
	var res [][]byte
	add := func(v *big.Int, sign bool) {
		b := bigLE(v, 32)
		if sign {
			b[31] |= 0x80
		}
		res = append(res, b)
	}
	for _, d := range []int64{-2, -1, 0, 1, 2, 18, 19, 20} {
		v := new(big.Int).Add(pFe, big.NewInt(d))
		if v.BitLen() <= 255 {
			add(v, false)
			add(v, true)
		}
	}
	for _, d := range []int64{0, 1, 2, 3, 4, 5, 18, 19} {
		add(big.NewInt(d), false)
		add(big.NewInt(d), true)
	}
	add(new(big.Int).Sub(new(big.Int).Lsh(big.NewInt(1), 255), big.NewInt(1)), false)
	add(new(big.Int).Sub(new(big.Int).Lsh(big.NewInt(1), 255), big.NewInt(1)), true)
	// the eight small-order points (canonical encodings)
	for _, h := range smallOrderHex {
		b, _ := hx.UnHex(h)
		res = append(res, b)
	}
	return res
}

var smallOrderHex = []string{
	"0100000000000000000000000000000000000000000000000000000000000000", // identity
	"ecffffffffffffffffffffffffffffffffffffffffffffffffffffffffffff7f", // (0,-1) order 2
	"0000000000000000000000000000000000000000000000000000000000000000", // order 4
	"0000000000000000000000000000000000000000000000000000000000000080", // order 4
	"26e8958fc2b227b045c3f489f2ef98f0d5dfac05d3c63339b13802886d53fc05", // order 8
	"26e8958fc2b227b045c3f489f2ef98f0d5dfac05d3c63339b13802886d53fc85", // order 8
	"c7176a703d4dd84fba3c0b760d10670f2a2053fa2c39ccc64ec7fd7792ac037a", // order 8
	"c7176a703d4dd84fba3c0b760d10670f2a2053fa2c39ccc64ec7fd7792ac03fa", // order 8
}

func (g *gen) corpus() {
	dir := os.Getenv("VERIF_CORPUS")
	if dir == "" {
		return
	}
	files, _ := filepath.Glob(filepath.Join(dir, "*.ops"))
	sort.Strings(files)
	for _, f := range files {
		fh, err := os.Open(f)
		if err != nil {
			continue
		}
		sc := bufio.NewScanner(fh)
		sc.Buffer(make([]byte, 1<<20), 1<<20)
		for sc.Scan() {
			l := strings.TrimSpace(sc.Text())
			if l == "" || strings.HasPrefix(l, "#") {
				continue
			}
			g.do(l)
		}
		fh.Close()
	}
}

func (g *gen) primitives(n int) {
	r := g.r
	for _, l := range []int{0, 1, 55, 56, 111, 112, 113, 127, 128, 129, 239, 240, 255, 256, 300} {
		g.do("sha512 " + hx.Hex(r.Bytes(l)))
	}
	for i := 0; i < n; i++ {
		g.do("sha512 " + hx.Hex(r.Bytes(r.Intn(200))))
	}
	edges := edgeEncodings()
	for _, e := range edges {
		g.do("canon " + hx.Hex(e))
		g.do("s2p " + hx.Hex(e))
		g.do("funi " + hx.Hex(e))
	}
	for i := 0; i < n; i++ {
		b := r.Bytes(32)
		switch r.Intn(4) {
		case 0: // high bytes ff: near p
			for j := 1; j < 31; j++ {
				b[j] = 0xff
			}
			b[31] |= 0x7f
		case 1: // a valid point (k*B), maybe sign flipped
			k := r.Bytes(32)
			k[31] &= 0x7f
			b = smulBase(k)
			if r.Chance(1, 4) {
				b[31] ^= 0x80
			}
		}
		g.do("canon " + hx.Hex(b))
		g.do("s2p " + hx.Hex(b))
		if r.Chance(1, 2) {
			g.do("funi " + hx.Hex(b))
		}
	}
	// sliding-window scalar multiplication, also on points that are NOT on the curve
	ff := bytes.Repeat([]byte{0xff}, 32)
	scalars := [][]byte{make([]byte, 32), bigLE(big.NewInt(1), 32), bigLE(big.NewInt(15), 32), bigLE(big.NewInt(16), 32), bigLE(big.NewInt(0x5555), 32),
		bigLE(lOrd, 32), bigLE(new(big.Int).Sub(lOrd, big.NewInt(1)), 32), ff, append(append([]byte{}, ff[:31]...), 0x7f), append(make([]byte, 31), 0x80),
		bigLE(new(big.Int).Sub(new(big.Int).Lsh(big.NewInt(1), 128), big.NewInt(1)), 32)}
	for _, k := range scalars {
		g.do("smul " + hx.Hex(k) + " " + hx.Hex(smulBase(bigLE(big.NewInt(7), 32))))
		g.do("smul " + hx.Hex(k) + " " + hx.Hex(r.Bytes(32)))
	}
	for i := 0; i < n; i++ {
		k := r.Bytes(32)
		switch r.Intn(4) {
		case 0:
			k[31] &= 0x7f
		case 1:
			k = append(r.Bytes(16), make([]byte, 16)...) // a 128-bit challenge
		case 2:
			for j := r.Intn(32); j < 32; j++ { // long runs of ones: carries in slide
				k[j] = 0xff
			}
			k[31] &= byte(r.Pick(0x7f, 0xff, 0x3f))
		}
		a := r.Bytes(32) // about half of these are off the curve
		if r.Chance(1, 3) {
			kk := r.Bytes(32)
			kk[31] &= 0x7f
			a = smulBase(kk)
		} else if r.Chance(1, 4) {
			a = edges[r.Intn(len(edges))]
		}
		g.do("smul " + hx.Hex(k) + " " + hx.Hex(a))
	}
	for i := 0; i < n; i++ {
		k := r.Bytes(32)
		k[31] &= 0x7f
		if r.Chance(1, 6) {
			k = bigLE(big.NewInt(int64(r.Intn(20))), 32)
		}
		g.do("smulb " + hx.Hex(k))
		pk, sk := g.key()
		m := g.msg()
		g.do("h2c " + hx.Hex(m) + " " + hx.Hex(pk))
		g.do("expand " + hx.Hex(sk))
		g.do("nonce " + hx.Hex(r.Bytes(32)) + " " + hx.Hex(r.Bytes(32)))
		a := [4][]byte{}
		for j := range a {
			kk := r.Bytes(32)
			kk[31] &= 0x7f
			a[j] = smulBase(kk)
			if r.Chance(1, 8) {
				a[j] = edges[r.Intn(len(edges))]
			}
		}
		g.do("hpts " + hx.Hex(a[0]) + " " + hx.Hex(a[1]) + " " + hx.Hex(a[2]) + " " + hx.Hex(a[3]))
	}
}

func (g *gen) framing(n int) {
	r := g.r
	for l := 0; l <= 84; l++ {
		b := r.Bytes(l)
		g.do("pad " + hx.Hex(b))
	}
	for i := 0; i < n; i++ {
		l := r.Pick(0, 1, 31, 32, 33, 47, 48, 78, 79, 80, 81, 82, 100, r.Intn(120))
		b := r.Bytes(l)
		z := r.Pick(0, 0, 1, 2, 3, l)
		for j := 0; j < z && j < l; j++ {
			b[j] = 0
		}
		g.do("pad " + hx.Hex(b))
		g.do("transport " + hx.Hex(b))
		g.do("p2h " + hx.Hex(b))
		g.do("p2v " + hx.Hex(b))
	}
}

// proofsWithLeadingZero searches keys/messages for proofs whose encoding starts with zero bytes.
func (g *gen) proofsWithLeadingZero(want int, budget int) (res [][3][]byte) {
	pk, sk := g.key()
	for i := 0; i < budget && len(res) < want; i++ {
		if i%512 == 511 {
			pk, sk = g.key()
		}
		m := g.r.Bytes(8 + g.r.Intn(40))
		pi, err := ed25519.ECVRFProve(sk, m)
		if err == nil && pi[0] == 0 {
			res = append(res, [3][]byte{pk, pi, m})
			_ = sk
		}
	}
	return
}

func (g *gen) vrf(n int, nz int) {
	r := g.r
	// malformed secret keys
	for _, l := range []int{0, 1, 32, 63, 65, 96} {
		g.do("prove " + hx.Hex(r.Bytes(l)) + " " + hx.Hex(g.msg()))
	}
	for i := 0; i < 6; i++ {
		_, sk := g.key()
		bad := append([]byte{}, sk...)
		copy(bad[32:], r.Bytes(32)) // pk half random: decodes for about half of them
		g.do("prove " + hx.Hex(bad) + " " + hx.Hex(g.msg()))
	}
	for i := 0; i < n; i++ {
		pk, sk := g.key()
		m := g.msg()
		res := g.do("prove " + hx.Hex(sk) + " " + hx.Hex(m))
		if !strings.HasPrefix(res, "ok ") {
			continue
		}
		pi, _ := hx.UnHex(res[3:])
		g.do("verify " + hx.Hex(pk) + " " + hx.Hex(pi) + " " + hx.Hex(m))
		g.verifyVariants(pk, pi, m, 4)
	}
	// deterministic family of message lengths (the model hashes the whole message)
	for _, L := range []int{0, 1, 31, 32, 33, 63, 64, 65, 66, 96, 127, 128, 129, 200, 1000} {
		pk, sk := g.key()
		m := r.Bytes(L)
		res := g.do("prove " + hx.Hex(sk) + " " + hx.Hex(m))
		if !strings.HasPrefix(res, "ok ") {
			continue
		}
		pi, _ := hx.UnHex(res[3:])
		g.do("verify " + hx.Hex(pk) + " " + hx.Hex(pi) + " " + hx.Hex(m))
		if L > 0 {
			g.do("verify " + hx.Hex(pk) + " " + hx.Hex(pi) + " " + hx.Hex(flip(m, 8*(L-1)+r.Intn(8))))
			g.do("prove " + hx.Hex(sk) + " " + hx.Hex(flip(m, 8*(L-1))))
		}
		g.do("verify " + hx.Hex(pk) + " " + hx.Hex(pi) + " " + hx.Hex(append(append([]byte{}, m...), 0)))
		g.do("prove " + hx.Hex(sk) + " " + hx.Hex(append(append([]byte{}, m...), 0)))
		// over-long / under-long prove values around this proof through every consumer
		for _, extra := range []int{1, 5, 32, 80} {
			pre := r.Bytes(extra)
			pre[0] |= 1
			for _, pv := range [][]byte{append(append([]byte{}, pre...), pi...), append(append([]byte{}, pi...), r.Bytes(extra)...)} {
				g.do("verify " + hx.Hex(pk) + " " + hx.Hex(pv) + " " + hx.Hex(m))
				g.do("pad " + hx.Hex(pv))
				g.do("p2h " + hx.Hex(pv))
				g.do("p2v " + hx.Hex(pv))
				g.do(fmt.Sprintf("qn %d %s 10 0 10", g.thr[0], hx.Hex(pv)))
				g.do(fmt.Sprintf("vbv %d %s %s %s 10 0 1 5 0", g.thr[0], hx.Hex(pk), hx.Hex(pv), hx.Hex(m)))
			}
		}
	}
	// the 1-in-256 proofs whose first byte is zero (header transport drops it)
	zs := g.proofsWithLeadingZero(nz, nz*2000)
	for _, z := range zs {
		pk, pi, m := z[0], z[1], z[2]
		g.do("transport " + hx.Hex(pi))
		g.do("verify " + hx.Hex(pk) + " " + hx.Hex(pi) + " " + hx.Hex(m))
		g.do("verify " + hx.Hex(pk) + " " + hx.Hex(new(big.Int).SetBytes(pi).Bytes()) + " " + hx.Hex(m))
		g.do("p2h " + hx.Hex(pi))
		g.do("p2v " + hx.Hex(pi))
		thr := g.thr[0]
		g.do(fmt.Sprintf("vbv %d %s %s %s %d %d %d %d %d", thr, hx.Hex(pk), hx.Hex(pi), hx.Hex(m), 10, 0, 1, 8, 7))
		// the qualification rule on both forms of the proof: full 80 bytes and as read back from the header
		short := new(big.Int).SetBytes(pi).Bytes()
		for _, st := range [][3]uint64{{10, 0, 1}, {10, 0, 10}, {g.thr[1] + 1, 2, 1000}} {
			for _, thr := range g.thr {
				g.do(fmt.Sprintf("qn %d %s %d %d %d", thr, hx.Hex(pi), st[0], st[1], st[2]))
				g.do(fmt.Sprintf("qn %d %s %d %d %d", thr, hx.Hex(short), st[0], st[1], st[2]))
			}
			var qn uint64
			hx.Guard(func() string {
				setThreshold(g.thr[1])
				_, qn = logical.VerifC16ValidateProve(pi, st[0], st[1], st[2])
				return ""
			})
			g.do(fmt.Sprintf("vbv %d %s %s %s %d %d %d %d %d", g.thr[1], hx.Hex(pk), hx.Hex(short), hx.Hex(m), st[0], st[1], st[2], 50+qn, 50))
		}
	}
	g.out.Kinds["(leading-zero proofs found)"] = len(zs)
}

// verifyVariants emits mutated / re-encoded versions of an accepted proof.
func (g *gen) verifyVariants(pk, pi, m []byte, k int) {
	r := g.r
	v := func(pk, pi, m []byte) { g.do("verify " + hx.Hex(pk) + " " + hx.Hex(pi) + " " + hx.Hex(m)) }
	for i := 0; i < k; i++ {
		switch r.Intn(12) {
		case 0:
			v(pk, flip(pi, r.Intn(8*len(pi))), m)
		case 1:
			if len(m) > 0 {
				v(pk, pi, flip(m, r.Intn(8*len(m))))
			} else {
				v(pk, pi, []byte{0})
			}
		case 2:
			v(flip(pk, r.Intn(256)), pi, m)
		case 3: // s + L (fits in 32 bytes: s < L < 2^253)
			s := leBig(pi[48:80])
			s.Add(s, lOrd)
			q := append(append([]byte{}, pi[:48]...), bigLE(s, 32)...)
			v(pk, q, m)
		case 4: // trailing bytes
			v(pk, append(append([]byte{}, pi...), r.Bytes(1+r.Intn(4))...), m)
		case 5: // header transport
			v(pk, new(big.Int).SetBytes(pi).Bytes(), m)
		case 6: // truncated
			v(pk, pi[:r.Intn(len(pi))], m)
		case 7: // gamma replaced by small-order / edge encoding
			e := edgeEncodings()
			q := append(append([]byte{}, e[r.Intn(len(e))]...), pi[32:]...)
			v(pk, q, m)
		case 8: // extra leading zero (81 bytes)
			v(pk, append([]byte{0}, pi...), m)
		case 9: // pk of odd length
			v(pk[:r.Intn(33)], pi, m)
		case 10: // other key
			pk2, _ := g.key()
			v(pk2, pi, m)
		case 11: // c zeroed
			q := append([]byte{}, pi...)
			for j := 32; j < 48; j++ {
				q[j] = 0
			}
			v(pk, q, m)
		}
	}
}

func (g *gen) qn(n int) {
	r := g.r
	stakes := []uint64{1, 2, 3, 4, 5, 6, 7, 10, 14, 15, 16, 24, 25, 26, 100, 1000, 12345, 1 << 20, 1<<53 - 1, 1 << 53, 1<<53 + 1, 1<<53 + 3, 1<<54 + 2, 1<<54 + 6, 1<<62 + 12345, 1<<63 - 1, 1 << 63, 1<<63 + 1025, 3689348814741910323, 3689348814741910324, 1<<64 - 1}
	for _, t := range stakes {
		g.do(fmt.Sprintf("pp %d", t))
		for _, d := range []uint64{0, 1, 2, t, t / 2, t / 3} {
			g.do(fmt.Sprintf("sr %d %d", d, t))
		}
	}
	g.do("sr 1 0")
	for i := 0; i < n; i++ {
		t := r.U64() >> uint(r.Intn(64))
		g.do(fmt.Sprintf("pp %d", t))
		if t != 0 {
			g.do(fmt.Sprintf("sr %d %d", r.U64()>>uint(r.Intn(64)), t))
		}
	}
	maxq := int64(model.Param.MaxQN)
	// calQn on hand-placed rationals around every i/MaxQN boundary of r = v/(s/MaxQN)
	for _, sd := range []int64{1, 3, 7, 10, 1000003} {
		for _, sn := range []int64{1, 2, 3} {
			if sn > sd {
				continue
			}
			for i := int64(0); i <= maxq; i++ {
				// v = s * i / maxq  (r = i exactly), then +- tiny
				base := new(big.Rat).Mul(big.NewRat(sn, sd), big.NewRat(i, maxq))
				for _, e := range []int{-1, 0, 1} {
					for _, sh := range []uint{40, 51, 52, 53, 54, 55, 60, 200} {
						eps := new(big.Rat).SetFrac(big.NewInt(int64(e)), new(big.Int).Lsh(big.NewInt(1), sh))
						v := new(big.Rat).Add(base, new(big.Rat).Mul(base, eps))
						if v.Sign() < 0 {
							continue
						}
						g.do(fmt.Sprintf("qnr %s %s %d %d", v.Num().String(), v.Denom().String(), sn, sd))
						if e == 0 {
							break
						}
					}
				}
			}
		}
	}
	for _, l := range []string{"qnr 1 2 0 1", "qnr 0 1 0 1", "qnr 1 2 -1 3", "qnr 0 1 -1 3", "qnr 1 1 7 2", "qnr 1 1 1 1", "qnr 1 3 5 2"} {
		g.do(l)
	}
	for i := 0; i < n; i++ {
		vn := new(big.Int).SetBytes(r.Bytes(1 + r.Intn(32)))
		sn := int64(r.Intn(50)) - 5
		sd := int64(1 + r.Intn(100))
		g.do(fmt.Sprintf("qnr %s %s %d %d", vn.String(), max256.String(), sn, sd))
	}
	// validateProve: value placed relative to the acceptance threshold
	mk := func(val *big.Int) []byte {
		p := make([]byte, 80)
		if val.Cmp(max256) > 0 {
			val = max256
		}
		vb := val.Bytes()
		copy(p[32-len(vb):32], vb)
		copy(p[32:], r.Bytes(48))
		return p
	}
	for _, thr := range g.thr {
		for _, t := range stakes {
			for _, wm := range []uint64{0, 1, 3, t, t + 1} {
				for _, h := range []uint64{0, thr, thr + 1} {
					if wm == t+1 && (t == 1<<64-1) {
						continue
					}
					// the stake ratio the code will use, to place the value at the boundary
					diff := uint64(1)
					if wm != 0 && h > thr {
						diff = t / wm
					}
					vals := []*big.Int{big.NewInt(0), big.NewInt(1), new(big.Int).Sub(max256, big.NewInt(1)), new(big.Int).Set(max256)}
					if diff != 0 {
						sr := logical.VerifC16CalcStakeRatio(diff, t)
						if sr.Sign() > 0 {
							b := new(big.Rat).Mul(sr, new(big.Rat).SetInt(max256))
							fl := new(big.Int).Quo(b.Num(), b.Denom())
							if fl.Cmp(max256) <= 0 {
								for _, dlt := range []int64{-1, 0, 1} {
									x := new(big.Int).Add(fl, big.NewInt(dlt))
									if x.Sign() >= 0 && x.Cmp(max256) <= 0 {
										vals = append(vals, x)
									}
								}
								// inner qn boundaries i/MaxQN of the accepted range
								i := int64(1 + r.Intn(int(maxq)))
								x := new(big.Int).Quo(new(big.Int).Mul(fl, big.NewInt(i)), big.NewInt(maxq))
								vals = append(vals, x, new(big.Int).Add(x, big.NewInt(1)))
							}
						}
					}
					for _, v := range vals {
						if r.Chance(1, 3) || v.Cmp(max256) == 0 || v.Sign() == 0 {
							g.do(fmt.Sprintf("qn %d %s %d %d %d", thr, hx.Hex(mk(v)), h, wm, t))
						}
					}
				}
			}
		}
	}
	g.do(fmt.Sprintf("qn %d %s 5 0 0", g.thr[0], hx.Hex(r.Bytes(80))))
	// synthetic proofs with 1..3 leading zero bytes, in both forms (full / transported through big.Int)
	for i := 0; i < n/4; i++ {
		p := r.Bytes(80)
		z := 1 + i%3
		for j := 0; j < z; j++ {
			p[j] = 0
		}
		if r.Chance(1, 2) {
			p[z] = byte(1 + r.Intn(4))
		}
		short := new(big.Int).SetBytes(p).Bytes()
		thr := g.thr[r.Intn(len(g.thr))]
		t := uint64(r.Pick(1, 5, 6, 10, 100, 1000, 1<<30))
		wm := uint64(r.Pick(0, 0, 1, 3))
		h := thr + uint64(r.Intn(2))
		g.do(fmt.Sprintf("qn %d %s %d %d %d", thr, hx.Hex(p), h, wm, t))
		g.do(fmt.Sprintf("qn %d %s %d %d %d", thr, hx.Hex(short), h, wm, t))
	}
	for i := 0; i < n; i++ {
		thr := g.thr[r.Intn(len(g.thr))]
		t := r.U64() >> uint(r.Intn(64))
		wm := r.U64() >> uint(r.Intn(64))
		if r.Chance(1, 2) {
			wm = uint64(r.Intn(5))
		}
		h := thr + uint64(r.Intn(3)) - 1
		p := r.Bytes(r.Pick(80, 80, 80, 79, 78, 33, 32, 31, 0, 81, 100))
		if r.Chance(1, 4) && len(p) > 0 {
			p[0] = 0
		}
		g.do(fmt.Sprintf("qn %d %s %d %d %d", thr, hx.Hex(p), h, wm, t))
	}
}

// message construction: CalDeltaByTime, genVrfMsg (SHA3-256 chain), and headers checked with the
// message the node builds itself from pre.Random and the block times.
func (g *gen) messages(n int) {
	r := g.r
	for _, l := range []int{0, 1, 31, 32, 64, 135, 136, 137, 271, 272, 300} {
		g.do("sha3 " + hx.Hex(r.Bytes(l)))
	}
	sec := int64(1000000000)
	for _, ns := range []int64{0, 1, sec - 1, sec, 2*sec - 1, 2 * sec, 2*sec + 1, 4*sec - 1, 4 * sec, 7 * sec, -1, -sec, -2 * sec, -2*sec - 1, -5 * sec,
		(1<<23-1)*sec + sec - 1, (1 << 23) * sec, 3600 * sec, 86400 * sec} {
		g.do(fmt.Sprintf("cdelta %d", ns))
	}
	for i := 0; i < n; i++ {
		g.do(fmt.Sprintf("cdelta %d", int64(r.U64()>>uint(20+r.Intn(44)))-int64(r.Intn(3))*sec))
		g.do(fmt.Sprintf("vmsg %s %d", hx.Hex(r.Bytes(r.Pick(0, 32, 64, 64, 5))), r.Intn(8)-2))
	}
	for i := 0; i < n; i++ {
		pk, sk := g.key()
		rnd := r.Bytes(64)
		ns := int64(r.Intn(9))*sec + int64(r.Intn(int(sec)))
		delta := logical.CalDeltaByTime(time.Unix(1700000000, 0).Add(time.Duration(ns)), time.Unix(1700000000, 0))
		if r.Chance(1, 5) {
			delta += r.Pick(-1, 1) // proof for the wrong slot
		}
		pi, err := ed25519.ECVRFProve(sk, logical.VerifC16GenVrfMsg(rnd, delta))
		if err != nil {
			continue
		}
		t := uint64(r.Pick(1, 3, 5, 10))
		var qn uint64
		hx.Guard(func() string { _, qn = logical.VerifC16ValidateProve(pi, 10, 0, t); return "" })
		pvb := hx.Hex(new(big.Int).SetBytes(pi).Bytes())
		g.do(fmt.Sprintf("vbt %d %s %s %s %d 10 0 %d %d %d", g.thr[0], hx.Hex(pk), pvb, hx.Hex(rnd), ns, t, 70+qn, 70))
		// the header's own PreTime field is sender-controlled: the message must not depend on it
		// (small forged offsets first, the far-away ones last: a tree that honours PreTime hangs on those)
		pts := []string{"0", strconv.FormatInt(ns, 10), strconv.FormatInt(ns-2*sec, 10), strconv.FormatInt(ns-4*sec, 10), strconv.FormatInt(ns-10*sec, 10), strconv.FormatInt(5*sec, 10)}
		g.do(fmt.Sprintf("vbp %d %s %s %s %d %s 10 0 %d %d %d", g.thr[0], hx.Hex(pk), pvb, hx.Hex(rnd), ns, pts[r.Intn(len(pts))], t, 70+qn, 70))
		if i%10 == 9 {
			g.do(fmt.Sprintf("vbp %d %s %s %s %d %s 10 0 %d %d %d", g.thr[0], hx.Hex(pk), pvb, hx.Hex(rnd), ns, []string{"zero", "past"}[r.Intn(2)], t, 70+qn, 70))
		}
	}
}

// forkSession: validateProve / verifyBlockVRF under the network's own fork schedule (no override of
// Proposal025Block): heights just below, at and above Proposal025Block + reward blocks.
func (g *gen) forkSession(n int) {
	r := g.r
	thr := g.thr[0]
	g.out.Kinds[fmt.Sprintf("(threshold=%d)", thr)] = 1
	mk := func(val *big.Int) []byte {
		p := make([]byte, 80)
		vb := val.Bytes()
		copy(p[32-len(vb):32], vb)
		copy(p[32:], r.Bytes(48))
		return p
	}
	heights := []uint64{0, 1, thr - 1, thr, thr + 1, thr + 2, 2 * thr}
	for _, t := range []uint64{1, 3, 5, 6, 10, 100, 12345, 1 << 30, 1<<53 + 1} {
		for _, wm := range []uint64{0, 1, 2, 3, t, t + 1} {
			for _, h := range heights {
				for _, v := range []*big.Int{big.NewInt(0), new(big.Int).Rsh(max256, 4), new(big.Int).Rsh(max256, 1), new(big.Int).Sub(max256, big.NewInt(1)), max256} {
					if r.Chance(1, 2) {
						g.do(fmt.Sprintf("qn %d %s %d %d %d", thr, hx.Hex(mk(v)), h, wm, t))
					}
				}
			}
		}
	}
	for i := 0; i < n; i++ {
		pk, sk := g.key()
		m := r.Bytes(32)
		pi, err := ed25519.ECVRFProve(sk, m)
		if err != nil {
			continue
		}
		t := uint64(r.Pick(1, 3, 5, 10, 100))
		wm := uint64(r.Pick(0, 1, 2, 3))
		h := heights[1+r.Intn(len(heights)-1)]
		var qn uint64
		hx.Guard(func() string { _, qn = logical.VerifC16ValidateProve(pi, h, wm, t); return "" })
		g.do(fmt.Sprintf("qn %d %s %d %d %d", thr, hx.Hex(pi), h, wm, t))
		g.do(fmt.Sprintf("vbv %d %s %s %s %d %d %d %d %d", thr, hx.Hex(pk), hx.Hex(new(big.Int).SetBytes(pi).Bytes()), hx.Hex(m), h, wm, t, 9+qn, 9))
	}
}

// flow: key generation, proposer side (genProve) and the verifier on the proposer's output; fork threshold.
func (g *gen) flow(n int) {
	r := g.r
	sec := int64(1000000000)
	for _, p := range []uint64{0, 1, 63311000, 77920000, 1000000000, 1<<64 - 36001, 1<<64 - 1} {
		g.do(fmt.Sprintf("thr %d", p))
	}
	for i := 0; i < n; i++ {
		seed := r.Bytes(32)
		if i < 3 {
			seed = bytes.Repeat([]byte{byte(i * 0x7f)}, 32)
		}
		res := g.do("genkey " + hx.Hex(seed))
		w := strings.Fields(res)
		if len(w) != 2 {
			continue
		}
		pk, _ := hx.UnHex(w[0])
		sk, _ := hx.UnHex(w[1])
		rnd := r.Bytes(r.Pick(32, 64, 64))
		ns := int64(r.Intn(7))*sec + int64(r.Intn(int(sec)))
		thr := g.thr[r.Intn(len(g.thr))]
		bh := thr + uint64(r.Intn(4)) - 2 // base heights on both sides of the fork threshold, incl. thr itself
		t := uint64(r.Pick(1, 3, 5, 6, 10, 50, 1000))
		wm := uint64(r.Pick(0, 0, 1, 2, 3))
		if r.Chance(1, 12) {
			sk = sk[:r.Pick(0, 32, 63)] // malformed secret key
		}
		res = g.do(fmt.Sprintf("gp %d %s %s %d %d %d %d", thr, hx.Hex(sk), hx.Hex(rnd), ns, bh, wm, t))
		gw := strings.Fields(res)
		if len(gw) == 3 && gw[0] == "ok" {
			pi, _ := hx.UnHex(gw[1])
			qn, _ := strconv.ParseUint(gw[2], 10, 64)
			// the verifier checks the block at height bh+1 with the message it builds itself
			g.do(fmt.Sprintf("vbt %d %s %s %s %d %d %d %d %d %d", thr, hx.Hex(pk), hx.Hex(new(big.Int).SetBytes(pi).Bytes()), hx.Hex(rnd), ns, bh+1, wm, t, 20+qn, 20))
		}
	}
}

func (g *gen) headers(n int) {
	r := g.r
	for i := 0; i < n; i++ {
		pk, sk := g.key()
		m := r.Bytes(32)
		pi, err := ed25519.ECVRFProve(sk, m)
		if err != nil {
			continue
		}
		thr := g.thr[r.Intn(len(g.thr))]
		t := uint64(r.Pick(1, 2, 3, 5, 6, 10, 100))
		wm := uint64(r.Pick(0, 0, 1, 2))
		h := thr + uint64(r.Intn(3))
		if h == 0 {
			h = 1
		}
		var qn uint64
		hx.Guard(func() string { // validateProve panics when workingMiners > totalStake after the fork height
			_, qn = logical.VerifC16ValidateProve(pi, h, wm, t)
			return ""
		})
		ptq := uint64(r.Intn(1000))
		tq := ptq + qn
		if r.Chance(1, 5) {
			tq++
		}
		pv := new(big.Int).SetBytes(pi).Bytes()
		if r.Chance(1, 6) {
			pv = flip(pv, r.Intn(8*len(pv)))
		}
		g.do(fmt.Sprintf("vbv %d %s %s %s %d %d %d %d %d", thr, hx.Hex(pk), hx.Hex(pv), hx.Hex(m), h, wm, t, tq, ptq))
		if r.Chance(1, 3) { // same key and prove value again, for ANOTHER message and for the same one
			g.do(fmt.Sprintf("vbv %d %s %s %s %d %d %d %d %d", thr, hx.Hex(pk), hx.Hex(pv), hx.Hex(flip(m, r.Intn(256))), h, wm, t, tq, ptq))
			g.do(fmt.Sprintf("vbt %d %s %s %s %d %d %d %d %d %d", thr, hx.Hex(pk), hx.Hex(pv), hx.Hex(m), 2000000000, h, wm, t, tq, ptq))
			g.do(fmt.Sprintf("vbv %d %s %s %s %d %d %d %d %d", thr, hx.Hex(pk), hx.Hex(pv), hx.Hex(m), h, wm, t, tq, ptq))
		}
	}
}

func main() {
	a := hx.Args()
	env := a["env"]
	if env == "" {
		env = "dev"
	}
	hxnode.BootLight(env) // dev | mainnet | robin: selects common.LocalChainConfig (fork heights)
	logical.InitConsensus()
	logical.VerifC16InitLoggers()
	mode := a["mode"]
	if mode == "search" {
		search(a)
		return
	}
	out, err := hx.NewOut(a["ops"], a["obs"])
	if err != nil {
		panic(err)
	}
	defer out.Close()
	rb := common.GetRewardBlocks()
	g := &gen{r: hx.NewRng(hx.SeedFromEnv()), out: out, thr: []uint64{threshold(), rb + 100}}
	if mode == "exec" {
		fh, err := os.Open(a["in"])
		if err != nil {
			panic(err)
		}
		sc := bufio.NewScanner(fh)
		sc.Buffer(make([]byte, 1<<20), 1<<20)
		for sc.Scan() {
			l := strings.TrimSpace(sc.Text())
			if l != "" && !strings.HasPrefix(l, "#") {
				g.do(l)
			}
		}
		g.specials()
		fmt.Println("STATS " + out.StatsJSON())
		return
	}
	scale := 1
	if a["tier"] == "thorough" {
		scale = 8
	}
	if a["part"] == "fork" {
		// fork-configuration session: the real Proposal025Block of this network, heights on both sides
		g.thr = []uint64{threshold()}
		g.forkSession(150 * scale)
		g.specials()
		fmt.Println("STATS " + out.StatsJSON())
		return
	}
	g.corpus()
	g.primitives(40 * scale)
	g.framing(120 * scale)
	g.qn(300 * scale)
	g.vrf(60*scale, 20*scale)
	g.headers(40 * scale)
	g.messages(30 * scale)
	g.flow(60 * scale)
	g.specials()
	fmt.Println("STATS " + out.StatsJSON())
}
