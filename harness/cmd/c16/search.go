package main

// Searcher for C16: a direct oracle for the PROPERTY on the implementation
// (no model involved). Every violation carries a stable class key and the op
// lines that replay it through exec().

import (
	"bytes"
	"encoding/json"
	"fmt"
	"math/big"
	"os"
	"runtime"
	"strconv"
	"strings"
	"sync"

	"com.tuntun.rangers/node/src/common"
	"com.tuntun.rangers/node/src/common/ed25519"
	"com.tuntun.rangers/node/src/consensus"
	"com.tuntun.rangers/node/src/consensus/logical"
	"com.tuntun.rangers/node/src/consensus/model"
	"com.tuntun.rangers/node/src/consensus/vrf"
	"verif/harness/hx"
)

type violation struct {
	Key    string                 `json:"key"`
	Desc   string                 `json:"desc"`
	Replay map[string]interface{} `json:"replay"`
}

type searcher struct {
	r       *hx.Rng
	evals   int
	seen    map[string]bool
	viol    []violation
	perKey  map[string]int
	counts  map[string]int
	sample  []map[string]string
	outPath string
	hangs   int
}

func (s *searcher) report(key, desc string, expected string, ops ...string) {
	s.perKey[key]++
	if s.perKey[key] > 2 { // two witnesses per class are enough
		return
	}
	s.viol = append(s.viol, violation{Key: key, Desc: desc, Replay: map[string]interface{}{"ops": ops, "expected": expected}})
	s.flush()
}

// run executes one op line under the panic guard and the per-call deadline; a call that does not return is a
// violation of its own (`hang:<op>`, replay = the op line); after three of them the search stops.
func (s *searcher) run(line string) string {
	r, hung := execDeadline(line)
	if strings.HasPrefix(r, "INPUT-MUTATED") {
		s.report("input-mutated:"+strings.Fields(line)[0], "the call wrote into a byte slice owned by the caller: "+r, "inputs unchanged after the call", line)
	}
	if strings.HasPrefix(r, "UNSTABLE") {
		s.report("unstable-answer:"+strings.Fields(line)[0], "the same call on the same in-memory inputs answered differently the second time: "+r, "same answer twice", line)
	}
	if hung {
		s.hangs++
		s.report("hang:"+strings.Fields(line)[0], "the call did not return within "+callDeadline.String()+" (per-call deadline of the harness)", "an answer", line)
		if s.hangs >= 3 {
			s.counts["aborted-after-hangs"] = s.hangs
			s.write(true)
			os.Exit(0)
		}
	}
	return r
}

// flush prints the violation just found and rewrites the (partial) result file, so that nothing found is
// lost if a later phase crashes or is killed.
func (s *searcher) flush() {
	if len(s.viol) > 0 {
		b, _ := json.Marshal(s.viol[len(s.viol)-1])
		fmt.Println("FOUND " + string(b))
	}
	s.write(false)
}

func (s *searcher) write(final bool) {
	if s.outPath == "" {
		return
	}
	res := map[string]interface{}{"evaluations": s.evals, "distinct": s.evals, "violations": s.viol, "samples": s.sample, "counts": s.counts, "complete": final}
	if s.viol == nil {
		res["violations"] = []violation{}
	}
	b, _ := json.MarshalIndent(res, "", " ")
	_ = os.WriteFile(s.outPath+".tmp", b, 0644)
	_ = os.Rename(s.outPath+".tmp", s.outPath)
}

func (s *searcher) note(op, res string) {
	if len(s.sample) < 6 {
		if len(op) > 300 {
			op = op[:300]
		}
		s.sample = append(s.sample, map[string]string{"op": op, "impl": res})
	}
}

func (s *searcher) key() (pk, sk []byte) {
	p, k, err := ed25519.GenerateKey(bytes.NewReader(s.r.Bytes(32)))
	if err != nil {
		panic(err)
	}
	return p, k
}

func vline(pk, pi, m []byte) string {
	return "verify " + hx.Hex(pk) + " " + hx.Hex(pi) + " " + hx.Hex(m)
}

func (s *searcher) verify(pk, pi, m []byte) string {
	s.evals++
	return s.run(vline(pk, pi, m))
}

// honest: completeness, determinism, header transport, header-derived output.
func (s *searcher) honest(nKeys, nMsgs int) (zeros int) {
	helper := &consensus.ConsensusHelperImpl{}
	for i := 0; i < nKeys; i++ {
		pk, sk := s.key()
		for j := 0; j < nMsgs; j++ {
			m := s.r.Bytes(s.r.Pick(0, 1, 32, 32, 64, s.r.Intn(100)))
			pi, err := ed25519.ECVRFProve(sk, m)
			s.evals++
			if err != nil {
				s.report("honest-prove-fails", "ECVRFProve failed for a generated key: "+err.Error(), "ok <proof>", "prove "+hx.Hex(sk)+" "+hx.Hex(m))
				continue
			}
			pi2, _ := ed25519.ECVRFProve(sk, m)
			if !bytes.Equal(pi, pi2) {
				s.report("prove-not-deterministic", "two ECVRFProve calls differ", "equal proofs", "prove "+hx.Hex(sk)+" "+hx.Hex(m), "prove "+hx.Hex(sk)+" "+hx.Hex(m))
			}
			if r := s.verify(pk, pi, m); r != "true" {
				s.report("honest-proof-rejected", "an honestly generated proof does not verify: "+r, "true", vline(pk, pi, m))
			}
			pv := vrf.VRFProve(pi).Big()
			back := pv.Bytes()
			if len(back) < 80 {
				zeros++
			}
			if r := s.verify(pk, back, m); r != "true" {
				s.report("transported-proof-rejected", fmt.Sprintf("proof with %d leading zero bytes fails after big.Int transport: %s", 80-len(back), r), "true", vline(pk, back, m))
			}
			// the lottery output read from the header must be the one the proof carries
			want := new(big.Int).SetBytes(pi[:32])
			got := hx.Guard(func() string { return helper.VRFProve2Value(pv).String() })
			s.evals++
			if got != want.String() {
				s.report("prove2value-unpadded", fmt.Sprintf("VRFProve2Value(header prove value) = %s but the proof's output pi[:32] = %s (leading zero bytes dropped by big.Int are not restored)", got, want.String()),
					want.String(), "p2v "+hx.Hex(pi), "p2h "+hx.Hex(pi))
			}
			if j == 0 {
				s.note(vline(pk, pi, m), "true")
			}
		}
	}
	return
}

// syntheticTransport: proofs are only bytes for the framing; force 1..3 leading zeros.
func (s *searcher) syntheticTransport(n int) {
	helper := &consensus.ConsensusHelperImpl{}
	for i := 0; i < n; i++ {
		pi := s.r.Bytes(80)
		z := 1 + s.r.Intn(3)
		for j := 0; j < z; j++ {
			pi[j] = 0
		}
		pv := vrf.VRFProve(pi).Big()
		back := ed25519.VerifC16TryZeroPadding(pv.Bytes())
		s.evals++
		if !bytes.Equal(back, pi) {
			s.report("transport-roundtrip", "pad(Big(pi).Bytes()) != pi", hx.Hex(pi), "transport "+hx.Hex(pi))
		}
		want := new(big.Int).SetBytes(pi[:32])
		got := hx.Guard(func() string { return helper.VRFProve2Value(pv).String() })
		if got != want.String() {
			s.report("prove2value-unpadded", fmt.Sprintf("VRFProve2Value(header prove value) = %s but pi[:32] = %s for a proof with %d leading zero bytes", got, want.String(), z),
				want.String(), "p2v "+hx.Hex(pi), "p2h "+hx.Hex(pi))
		}
	}
}

// bitflips: every single-bit mutation of proof, message and key must be rejected.
func (s *searcher) bitflips(nProofs int) {
	for i := 0; i < nProofs; i++ {
		pk, sk := s.key()
		m := s.r.Bytes(s.r.Pick(1, 8, 32, 40))
		pi, err := ed25519.ECVRFProve(sk, m)
		if err != nil {
			continue
		}
		for b := 0; b < 8*len(pi); b++ {
			q := flip(pi, b)
			if r := s.verify(pk, q, m); r == "true" {
				s.report("bitflip-accepted-proof", fmt.Sprintf("proof with bit %d flipped still verifies", b), "false", vline(pk, q, m))
			}
		}
		for b := 0; b < 8*len(m); b++ {
			q := flip(m, b)
			if r := s.verify(pk, pi, q); r == "true" {
				s.report("bitflip-accepted-message", fmt.Sprintf("message with bit %d flipped still verifies", b), "false", vline(pk, pi, q))
			}
		}
		for b := 0; b < 256; b++ {
			q := flip(pk, b)
			if r := s.verify(q, pi, m); r == "true" {
				s.report("bitflip-accepted-key", fmt.Sprintf("public key with bit %d flipped still verifies", b), "false", vline(q, pi, m))
			}
		}
		// transported (shorter) form, flipped
		back := new(big.Int).SetBytes(pi).Bytes()
		for k := 0; k < 64; k++ {
			q := flip(back, s.r.Intn(8*len(back)))
			if len(new(big.Int).SetBytes(q).Bytes()) != len(q) {
				continue // flipping made a new leading zero: not a header value of this length
			}
			if r := s.verify(pk, q, m); r == "true" {
				s.report("bitflip-accepted-proof", "transported proof with one bit flipped still verifies", "false", vline(pk, q, m))
			}
		}
	}
}

var smallOrders = []int64{1, 2, 4, 4, 8, 8, 8, 8}

// adversarial: a prover who knows sk shifts Gamma by a small-order point T and
// retries nonces until the challenge is a multiple of ord(T).
func (s *searcher) adversarial(nKeys int) {
	for i := 0; i < nKeys; i++ {
		pk, sk := s.key()
		m := s.r.Bytes(32)
		pi, err := ed25519.ECVRFProve(sk, m)
		if err != nil {
			continue
		}
		x, _ := ed25519.VerifC16ExpandSecret(sk)
		h := ed25519.VerifC16HashToCurve(m, pk)
		gamma := scalarMult(x[:], h[:])
		if !bytes.Equal(gamma, pi[:32]) {
			s.report("harness-self-check", "adversarial prover recomputed a different gamma", hx.Hex(pi[:32]))
			continue
		}
		xN := leBig(x[:])
		outputs := map[string]bool{hx.Hex(pi[:32]): true}
		for ti := 1; ti < len(smallOrderHex); ti++ {
			t, _ := hx.UnHex(smallOrderHex[ti])
			g2, ok := pointAdd(gamma, t)
			if !ok {
				continue
			}
			ord := big.NewInt(smallOrders[ti])
			for try := 0; try < 400; try++ {
				k := s.r.Bytes(32)
				k[31] &= 0x0f
				kB := smulBase(k)
				kH := scalarMult(k, h[:])
				c := ed25519.VerifC16HashPoints(h, b32(g2), b32(kB), b32(kH))
				cN := leBig(c[:])
				if new(big.Int).Mod(cN, ord).Sign() != 0 {
					continue
				}
				sN := new(big.Int).Mul(cN, xN)
				sN.Add(sN, leBig(k))
				sN.Mod(sN, lOrd)
				forged := append(append(append([]byte{}, g2...), c[:]...), bigLE(sN, 32)...)
				r := s.verify(pk, forged, m)
				s.counts["adversarial-shifted-tried"]++
				if r == "true" {
					s.counts["adversarial-shifted-accepted"]++
					outputs[hx.Hex(forged[:32])] = true
					if !bytes.Equal(forged[:32], pi[:32]) {
						thr := threshold()
						// both proofs also pass the header check with stake 1 (ratio capped, always qualified)
						_, q1 := logical.VerifC16ValidateProve(pi, 10, 0, 1)
						_, q2 := logical.VerifC16ValidateProve(forged, 10, 0, 1)
						s.report("output-not-unique-small-order-shift",
							fmt.Sprintf("two accepted proofs for one key and message carry different lottery outputs: gamma shifted by the order-%d point %s, challenge chosen as a multiple of %d", smallOrders[ti], smallOrderHex[ti], smallOrders[ti]),
							"equal outputs pi[:32] for all accepted proofs of one (pk, m)",
							vline(pk, pi, m), vline(pk, forged, m),
							fmt.Sprintf("vbv %d %s %s %s 10 0 1 %d 0", thr, hx.Hex(pk), hx.Hex(pi), hx.Hex(m), q1),
							fmt.Sprintf("vbv %d %s %s %s 10 0 1 %d 0", thr, hx.Hex(pk), hx.Hex(forged), hx.Hex(m), q2))
					}
				}
				break
			}
		}
		if len(outputs) > s.counts["max-distinct-outputs-per-key-message"] {
			s.counts["max-distinct-outputs-per-key-message"] = len(outputs)
		}
		// malleability that keeps the output: s + L, trailing bytes (observations, not violations)
		sN := leBig(pi[48:80])
		sN.Add(sN, lOrd)
		q := append(append([]byte{}, pi[:48]...), bigLE(sN, 32)...)
		if s.verify(pk, q, m) == "true" {
			s.counts["s-plus-L-accepted(same output)"]++
		}
		if s.verify(pk, append(append([]byte{}, pi...), 0xaa), m) == "true" {
			s.counts["trailing-byte-accepted(same output)"]++
		}
	}
}

// qnTransport: the qualification rule must see the same proof the proposer saw.
// (a) validateProve(full 80 bytes) == validateProve(bytes read back from the header's big.Int)
// for proofs with 1..3 leading zero bytes (synthetic, and honestly generated ones found by search);
// (b) an honest header built from the proposer's (ok, qn) passes verifyBlockVRF after transport.
func (s *searcher) qnTransport(nSynthetic, nHonest int) {
	rb := common.GetRewardBlocks()
	thrs := []uint64{threshold(), rb + 100}
	defer setThreshold(thrs[0])
	type stake struct{ h, wm, t uint64 }
	grid := func(thr uint64) []stake {
		return []stake{{0, 0, 1}, {10, 0, 5}, {10, 0, 10}, {10, 0, 100}, {thr + 1, 1, 7}, {thr + 1, 3, 1000}, {thr + 1, 2, 1 << 40}}
	}
	qnLine := func(thr uint64, p []byte, st stake) string {
		return fmt.Sprintf("qn %d %s %d %d %d", thr, hx.Hex(p), st.h, st.wm, st.t)
	}
	cmp := func(full []byte, what string) {
		short := new(big.Int).SetBytes(full).Bytes()
		for _, thr := range thrs {
			for _, st := range grid(thr) {
				l1, l2 := qnLine(thr, full, st), qnLine(thr, short, st)
				r1 := s.run(l1)
				r2 := s.run(l2)
				s.evals += 2
				if r1 != r2 {
					s.report("qn-differs-after-transport",
						fmt.Sprintf("validateProve gives %q for the %s 80-byte proof but %q for the same proof read back from the header's big integer (%d leading zero bytes dropped)", r1, what, r2, len(full)-len(short)),
						"validateProve(transported proof) = validateProve(full proof) = "+r1, l1, l2)
				}
			}
		}
	}
	for i := 0; i < nSynthetic; i++ {
		pi := s.r.Bytes(80)
		z := 1 + i%3
		for j := 0; j < z; j++ {
			pi[j] = 0
		}
		if pi[z] == 0 {
			pi[z] = 1
		}
		switch s.r.Intn(4) { // spread the value over the accepted range of small stake ratios
		case 0:
			pi[z] = byte(1 + s.r.Intn(3))
		case 1:
			pi[z] = 0xff
		}
		cmp(pi, "synthetic")
	}
	// honest proofs that start with a zero byte (about 1 in 256)
	found := 0
	pk, sk := s.key()
	for i := 0; i < nHonest*4000 && found < nHonest; i++ {
		if i%600 == 599 {
			pk, sk = s.key()
		}
		m := s.r.Bytes(32)
		pi, err := ed25519.ECVRFProve(sk, m)
		s.evals++
		if err != nil || pi[0] != 0 {
			continue
		}
		found++
		cmp(pi, "honest")
		pv := new(big.Int).SetBytes(pi).Bytes()
		if r := s.verify(pk, pv, m); r != "true" {
			s.report("transported-proof-rejected", "honest proof with a leading zero byte fails ECVRFVerify after big.Int transport: "+r, "true", vline(pk, pv, m))
		}
		for _, thr := range thrs {
			for _, st := range grid(thr) {
				if st.h == 0 {
					st.h = 1
				}
				// proposer side (vrfWorker.genProve): validateProve on the full proof decides (ok, qn)
				var ok bool
				var qn uint64
				g := hx.Guard(func() string {
					setThreshold(thr)
					ok, qn = logical.VerifC16ValidateProve(pi, st.h, st.wm, st.t)
					return ""
				})
				if g != "" || !ok {
					continue // the proposer would not cast this block
				}
				line := fmt.Sprintf("vbv %d %s %s %s %d %d %d %d %d", thr, hx.Hex(pk), hx.Hex(pv), hx.Hex(m), st.h, st.wm, st.t, 1000+qn, 1000)
				res := s.run(line)
				s.evals++
				s.counts["honest-leading-zero-headers-checked"]++
				if res != "ok" {
					s.report("honest-header-rejected-after-transport",
						fmt.Sprintf("a block whose proposer-side validateProve(full proof) = (true, %d) is rejected by verifyBlockVRF (%s) once the proof is read back from BlockHeader.ProveValue (leading zero byte dropped)", qn, res),
						"ok", line, qnLine(thr, pi, st), qnLine(thr, pv, st))
				}
			}
		}
	}
	s.counts["honest-proofs-with-leading-zero-byte(qn transport)"] = found
}

// concurrent: N goroutines prove and verify at the same time, each with its own keys and
// messages; every proof must equal the one generated sequentially beforehand and every honest
// proof must verify. EVIDENCE, not proof: a schedule-dependent failure may need several runs.
func (s *searcher) concurrent(workers, perWorker int) {
	if runtime.GOMAXPROCS(0) < 4 {
		runtime.GOMAXPROCS(4)
	}
	type job struct{ pk, sk, m, want []byte }
	jobs := make([][]job, workers)
	for w := 0; w < workers; w++ {
		pk, sk := s.key()
		for j := 0; j < perWorker; j++ {
			if j%16 == 15 {
				pk, sk = s.key()
			}
			m := s.r.Bytes(s.r.Pick(0, 8, 32, 32, 64, 100))
			want, err := ed25519.ECVRFProve(sk, m)
			if err != nil {
				continue
			}
			jobs[w] = append(jobs[w], job{pk, sk, m, want})
		}
	}
	type bad struct {
		kind   string
		w, j   int
		got    []byte
		detail string
	}
	var mu sync.Mutex
	var bads []bad
	var wg sync.WaitGroup
	start := make(chan struct{})
	for w := 0; w < workers; w++ {
		wg.Add(1)
		go func(w int) {
			defer wg.Done()
			<-start
			for j, jb := range jobs[w] {
				func() {
					defer func() {
						if r := recover(); r != nil {
							mu.Lock()
							bads = append(bads, bad{"concurrent-panic", w, j, nil, fmt.Sprint(r)})
							mu.Unlock()
						}
					}()
					got, err := ed25519.ECVRFProve(jb.sk, jb.m)
					if err != nil || !bytes.Equal(got, jb.want) {
						mu.Lock()
						bads = append(bads, bad{"concurrent-prove-differs", w, j, got, fmt.Sprint(err)})
						mu.Unlock()
					}
					ok, verr := ed25519.ECVRFVerify(jb.pk, jb.want, jb.m)
					if !ok {
						mu.Lock()
						bads = append(bads, bad{"concurrent-honest-rejected", w, j, nil, fmt.Sprint(verr)})
						mu.Unlock()
					}
				}()
			}
		}(w)
	}
	close(start)
	wg.Wait()
	n := 0
	for w := range jobs {
		n += 2 * len(jobs[w])
	}
	s.evals += n
	s.counts["concurrent-goroutines"] = workers
	s.counts["concurrent-prove+verify-calls"] = n
	s.counts["concurrent-failures"] = len(bads)
	for _, b := range bads {
		jb := jobs[b.w][b.j]
		s.perKey[b.kind]++
		if s.perKey[b.kind] > 2 {
			continue
		}
		desc := map[string]string{
			"concurrent-prove-differs":   "ECVRFProve called while other goroutines prove/verify returned a proof different from the one it returns sequentially for the same key and message",
			"concurrent-honest-rejected": "ECVRFVerify rejected an honest proof while other goroutines prove/verify",
			"concurrent-panic":           "panic inside ECVRFProve/ECVRFVerify under concurrency: " + b.detail,
		}[b.kind]
		s.viol = append(s.viol, violation{Key: b.kind, Desc: fmt.Sprintf("%s (%d goroutines, %d calls each, %d failures in this run; schedule-dependent)", desc, workers, perWorker, len(bads)),
			Replay: map[string]interface{}{
				"mode": "concurrent", "goroutines": workers, "calls_per_goroutine": perWorker, "failures_in_run": len(bads),
				"ops":      []string{"prove " + hx.Hex(jb.sk) + " " + hx.Hex(jb.m), vline(jb.pk, jb.want, jb.m)},
				"expected": "ok " + hx.Hex(jb.want) + " / true (what the same calls answer sequentially)",
				"observed": hx.Hex(b.got) + " " + b.detail,
				"rerun":    fmt.Sprintf("harness/bin/c16 mode=search only=concurrent workers=%d (VERIF_SEED as recorded); evidence, not proof: needs an interleaving", workers),
			}})
		s.flush()
	}
}

// history: the same calls in different orders within one process must give identical answers
// ("qn / verify / stake ratio are functions of their inputs", as a history oracle).
func (s *searcher) history(n int) {
	thr := threshold()
	defer setThreshold(thr)
	var lines []string
	mk := func(val *big.Int) []byte {
		p := make([]byte, 80)
		vb := val.Bytes()
		copy(p[32-len(vb):32], vb)
		return p
	}
	for _, t := range []uint64{1, 2, 5, 6, 10, 100, 1 << 40} {
		for _, v := range []*big.Int{big.NewInt(0), big.NewInt(1), new(big.Int).Rsh(max256, 3), new(big.Int).Rsh(max256, 1), max256} {
			lines = append(lines, fmt.Sprintf("qn %d %s 10 0 %d", thr, hx.Hex(mk(v)), t))
			lines = append(lines, fmt.Sprintf("qn %d %s %d 2 %d", thr, hx.Hex(mk(v)), thr+1, t))
		}
		lines = append(lines, fmt.Sprintf("sr 1 %d", t), fmt.Sprintf("pp %d", t))
	}
	for _, l := range []string{"qnr 1 2 3 1", "qnr 1 3 1 2", "qnr 1 1 7 2", "qnr 9 10 1 1", "qnr 1 10 3 10", "qnr 1 2 5 2", "qnr 2 3 9 4"} {
		lines = append(lines, l)
	}
	for i := 0; i < n; i++ {
		pk, sk := s.key()
		m := s.r.Bytes(32)
		pi, err := ed25519.ECVRFProve(sk, m)
		if err != nil {
			continue
		}
		lines = append(lines, vline(pk, pi, m), vline(pk, flip(pi, s.r.Intn(640)), m), "prove "+hx.Hex(sk)+" "+hx.Hex(m),
			fmt.Sprintf("qn %d %s 10 0 %d", thr, hx.Hex(pi), 1+s.r.Intn(12)),
			fmt.Sprintf("vbv %d %s %s %s 10 0 1 3 0", thr, hx.Hex(pk), hx.Hex(pi), hx.Hex(m)),
			fmt.Sprintf("vbv %d %s %s %s 10 0 1 3 0", thr, hx.Hex(pk), hx.Hex(pi), hx.Hex(flip(m, s.r.Intn(256)))),
			fmt.Sprintf("vbt %d %s %s %s 0 10 0 1 3 0", thr, hx.Hex(pk), hx.Hex(pi), hx.Hex(m)),
			fmt.Sprintf("vbt %d %s %s %s 2000000000 10 0 1 3 0", thr, hx.Hex(pk), hx.Hex(pi), hx.Hex(m)))
	}
	run := func(order []int) []string {
		res := make([]string, len(lines))
		for _, i := range order {
			l := lines[i]
			res[i] = s.run(l)
			s.evals++
		}
		return res
	}
	id := make([]int, len(lines))
	for i := range id {
		id[i] = i
	}
	first := run(id)
	orders := [][]int{}
	rev := make([]int, len(id))
	for i := range id {
		rev[i] = id[len(id)-1-i]
	}
	orders = append(orders, rev, id)
	for k := 0; k < 3; k++ {
		sh := append([]int{}, id...)
		for i := len(sh) - 1; i > 0; i-- {
			j := s.r.Intn(i + 1)
			sh[i], sh[j] = sh[j], sh[i]
		}
		orders = append(orders, sh)
	}
	for _, ord := range orders {
		got := run(ord)
		for pos, i := range ord {
			if got[i] != first[i] {
				// the calls that preceded it in this order (bounded) + the call itself
				from := pos - 40
				if from < 0 {
					from = 0
				}
				var ops []string
				for _, j := range ord[from : pos+1] {
					ops = append(ops, lines[j])
				}
				s.report("history-dependent-answer",
					fmt.Sprintf("the call %q answered %q the first time and %q later in the same process (after other calls): not a function of its inputs", lines[i], first[i], got[i]),
					first[i], ops...)
				break
			}
		}
	}
	s.counts["history-calls"] = len(lines) * (1 + len(orders))
}

// retention: results are KEPT and re-checked after later calls; input buffers are reused and mutated after
// the call. A returned slice aliasing a reused buffer, or an argument captured by reference, shows here.
func (s *searcher) retention(n int) {
	type kept struct {
		pk, m, pi, piCopy  []byte
		padded, paddedCopy []byte
		rat                *big.Rat
		ratStr             string
	}
	var ks []kept
	skBuf := make([]byte, 64)
	mBuf := make([]byte, 48)
	for i := 0; i < n; i++ {
		pk, sk := s.key()
		copy(skBuf, sk)
		copy(mBuf, s.r.Bytes(48))
		mlen := s.r.Pick(0, 16, 32, 48)
		pi, err := ed25519.ECVRFProve(ed25519.PrivateKey(skBuf), mBuf[:mlen])
		s.evals++
		if err != nil {
			continue
		}
		k := kept{pk: append([]byte{}, pk...), m: append([]byte{}, mBuf[:mlen]...), pi: pi, piCopy: append([]byte{}, pi...)}
		short := new(big.Int).SetBytes(pi).Bytes()
		if len(short) == 80 {
			short = short[:79-s.r.Intn(3)] // force the padding path
		}
		k.padded = ed25519.VerifC16TryZeroPadding(short)
		k.paddedCopy = append([]byte{}, k.padded...)
		k.rat = logical.VerifC16CalcStakeRatio(uint64(1+s.r.Intn(3)), uint64(1+s.r.Intn(50)))
		k.ratStr = k.rat.RatString()
		ks = append(ks, k)
		// mutate the input buffers after the call
		for j := range skBuf {
			skBuf[j] ^= 0xa5
		}
		for j := range mBuf {
			mBuf[j] ^= 0x5a
		}
		// other calls in between
		hx.Guard(func() string { return exec(fmt.Sprintf("qn %d %s 10 0 %d", threshold(), hx.Hex(pi), 1+s.r.Intn(9))) })
	}
	for i, k := range ks {
		s.evals++
		if !bytes.Equal(k.pi, k.piCopy) {
			s.report("retained-proof-changed", fmt.Sprintf("the proof returned by ECVRFProve call #%d changed after later calls (returned slice aliases shared memory)", i), hx.Hex(k.piCopy), "prove <sk> "+hx.Hex(k.m))
		}
		if !bytes.Equal(k.padded, k.paddedCopy) {
			s.report("retained-padding-changed", "the slice returned by tryZeroPadding changed after later calls", hx.Hex(k.paddedCopy), "pad "+hx.Hex(k.paddedCopy))
		}
		if k.rat.RatString() != k.ratStr {
			s.report("retained-rat-changed", "a *big.Rat returned by calcStakeRatio changed after later calls: "+k.ratStr+" -> "+k.rat.RatString(), k.ratStr)
		}
		if r := s.verify(k.pk, k.piCopy, k.m); r != "true" {
			s.report("honest-proof-rejected", "proof generated from reused (later mutated) input buffers does not verify for the original inputs: "+r, "true", vline(k.pk, k.piCopy, k.m))
		}
	}
	s.counts["retained-objects-rechecked"] = 3 * len(ks)
}

// messageLengths: completeness, every-position bit flips, extension and truncation of the MESSAGE over a
// deterministic family of lengths (the node uses 32/64-byte messages; the property says "every message").
func (s *searcher) messageLengths(reps int) {
	lens := []int{0, 1, 31, 32, 33, 63, 64, 65, 66, 96, 127, 128, 129, 200, 1000}
	for rep := 0; rep < reps; rep++ {
		pk, sk := s.key()
		for _, L := range lens {
			m := s.r.Bytes(L)
			pi, err := ed25519.ECVRFProve(sk, m)
			s.evals++
			if err != nil {
				s.report("honest-prove-fails", fmt.Sprintf("ECVRFProve failed for a %d-byte message: %v", L, err), "ok <proof>", "prove "+hx.Hex(sk)+" "+hx.Hex(m))
				continue
			}
			if r := s.verify(pk, pi, m); r != "true" {
				s.report("honest-proof-rejected", fmt.Sprintf("honest proof for a %d-byte message does not verify: %s", L, r), "true", vline(pk, pi, m))
			}
			// single-bit flips at sampled byte positions, always including the first and the last byte
			pos := map[int]bool{}
			for _, q := range []int{0, 1, 30, 31, 32, 33, 62, 63, 64, 65, 66, 95, 96, 127, 128, 129, 199, 500, 999, L - 2, L - 1} {
				if q >= 0 && q < L {
					pos[q] = true
				}
			}
			for k := 0; k < 6 && L > 0; k++ {
				pos[s.r.Intn(L)] = true
			}
			for q := range pos {
				mm := flip(m, 8*q+s.r.Intn(8))
				if r := s.verify(pk, pi, mm); r == "true" {
					s.report("bitflip-accepted-message", fmt.Sprintf("a %d-byte message with one bit flipped in byte %d still verifies under the proof of the original", L, q), "false", vline(pk, pi, m), vline(pk, pi, mm))
				}
				p2, _ := ed25519.ECVRFProve(sk, mm)
				s.evals++
				if bytes.Equal(p2, pi) {
					s.report("different-messages-same-proof", fmt.Sprintf("two %d-byte messages differing in one bit of byte %d get the identical proof and lottery output", L, q), "different proofs", "prove "+hx.Hex(sk)+" "+hx.Hex(m), "prove "+hx.Hex(sk)+" "+hx.Hex(mm))
				}
			}
			// extension and truncation
			for _, x := range [][]byte{{0}, {0x80}, s.r.Bytes(32)} {
				mx := append(append([]byte{}, m...), x...)
				if r := s.verify(pk, pi, mx); r == "true" {
					s.report("message-extension-accepted", fmt.Sprintf("the proof for a %d-byte message also verifies for the message extended by %d byte(s)", L, len(x)), "false", vline(pk, pi, m), vline(pk, pi, mx))
				}
				p2, _ := ed25519.ECVRFProve(sk, mx)
				s.evals++
				if bytes.Equal(p2, pi) {
					s.report("different-messages-same-proof", fmt.Sprintf("a %d-byte message and its extension by %d byte(s) get the identical proof and lottery output", L, len(x)), "different proofs", "prove "+hx.Hex(sk)+" "+hx.Hex(m), "prove "+hx.Hex(sk)+" "+hx.Hex(mx))
				}
			}
			if L > 0 {
				if r := s.verify(pk, pi, m[:L-1]); r == "true" {
					s.report("message-extension-accepted", fmt.Sprintf("the proof for a %d-byte message also verifies for the message with its last byte removed", L), "false", vline(pk, pi, m), vline(pk, pi, m[:L-1]))
				}
			}
		}
	}
}

// proveValueLengths: over-long and under-long header prove values through EVERY consumer (ECVRFVerify /
// VRFVerify, VRFProof2Hash, validateProve, verifyBlockVRF, VRFProve2Value). Oracles:
//
//	(A) an accepted prove value built around an honest proof carries the honest lottery output;
//	(B) the qualification rule reads the bytes the verifier verified: if pv is accepted, so are the first
//	    ProveSize bytes of its left-padded form (computed here, independently), which is what the rule reads;
//	(C) all consumers derive the same lottery value from one header value.
func (s *searcher) proveValueLengths(n int) {
	helper := &consensus.ConsensusHelperImpl{}
	thr := threshold()
	defer setThreshold(thr)
	for i := 0; i < n; i++ {
		pk, sk := s.key()
		m := s.r.Bytes(32)
		pi, err := ed25519.ECVRFProve(sk, m)
		if err != nil {
			continue
		}
		honestOut := new(big.Int).SetBytes(pi[:32])
		// attacker-chosen material: a tiny lottery value (wins every lottery) that survives big.Int transport
		small := func(k int) []byte {
			b := s.r.Bytes(k)
			b[0] = 1
			for j := 1; j < k && j < 8; j++ {
				b[j] = 0
			}
			return b
		}
		var pvs [][]byte
		for _, extra := range []int{1, 5, 32, 80} { // lengths 81, 85, 112, 160
			pvs = append(pvs, append(small(extra), pi...))                          // prefix ‖ proof
			pvs = append(pvs, append(append([]byte{}, pi...), s.r.Bytes(extra)...)) // proof ‖ suffix
			if extra >= 5 {
				h := extra / 2
				pvs = append(pvs, append(append(small(h), pi...), s.r.Bytes(extra-h)...)) // prefix ‖ proof ‖ suffix
			}
		}
		pvs = append(pvs, pi, pi[1:], pi[:79]) // 80, and two 79-byte mutilations
		for _, pv := range pvs {
			hdr := new(big.Int).SetBytes(pv)
			back := hdr.Bytes() // what every consumer of the header sees
			acc := s.verify(pk, back, m) == "true"
			read80 := refPad(back)[:80] // the bytes the qualification rule takes its value from (first 32 of these)
			ruleVal := new(big.Int).SetBytes(read80[:32])
			t := uint64(10)
			qnLine := fmt.Sprintf("qn %d %s 10 0 %d", thr, hx.Hex(back), t)
			if acc {
				s.counts["prove-value-variants-accepted"]++
				if ruleVal.Cmp(honestOut) != 0 {
					_, qn := logical.VerifC16ValidateProve(back, 10, 0, t)
					s.report("lottery-bytes-differ-from-verified-bytes",
						fmt.Sprintf("a %d-byte header prove value built around a valid proof is accepted by ECVRFVerify, but the qualification rule reads the lottery value %s from it while the verified proof carries %s: the proposer chooses its own lottery value", len(back), ruleVal.String(), honestOut.String()),
						"accepted prove values for one key and message carry one lottery output",
						vline(pk, back, m), vline(pk, pi, m), qnLine, fmt.Sprintf("qn %d %s 10 0 %d", thr, hx.Hex(pi), t),
						fmt.Sprintf("vbv %d %s %s %s 10 0 %d %d 0", thr, hx.Hex(pk), hx.Hex(back), hx.Hex(m), t, qn))
				}
				if r := s.verify(pk, read80, m); r != "true" {
					s.report("lottery-bytes-differ-from-verified-bytes",
						fmt.Sprintf("a %d-byte prove value is accepted, but the %d bytes the qualification rule reads (first ProveSize bytes after left-padding) are not an accepted proof: verifier and rule look at different bytes", len(back), len(read80)),
						"true", vline(pk, back, m), vline(pk, read80, m), qnLine)
				}
			}
			// (C) every consumer derives the same lottery value from this header value
			v1 := hx.Guard(func() string { return helper.VRFProve2Value(hdr).String() })
			v2 := hx.Guard(func() string {
				r := logical.VerifC16CalcVrfValueRatio(logical.VerifC16TryZeroPadding(back))
				return new(big.Int).Quo(new(big.Int).Mul(r.Num(), max256), r.Denom()).String()
			})
			v3 := hx.Guard(func() string {
				return new(big.Int).SetBytes(vrf.VRFProof2Hash(vrf.VRFProve(ed25519.VerifC16TryZeroPadding(back)))).String()
			})
			s.evals += 4
			if v1 != ruleVal.String() || v2 != ruleVal.String() || v3 != ruleVal.String() {
				s.report("lottery-value-consumers-disagree",
					fmt.Sprintf("for one %d-byte header prove value: VRFProve2Value = %s, validateProve's value = %s, VRFProof2Hash(ed25519 padding) = %s, reference (first 32 of the left-padded bytes) = %s", len(back), v1, v2, v3, ruleVal.String()),
					ruleVal.String(), "p2v "+hx.Hex(back), qnLine, "pad "+hx.Hex(back))
			}
		}
	}
}

// headerSequences: every verification entry point exercised as a SEQUENCE on one process. First a valid
// (pk, M1, proof) is verified (must be accepted), then the SAME proof and key with another message M2 != M1
// (bit-flipped parent random, another time slot, both) and the same message with another key. The oracle does
// not come from the code: a proof made for M1 must be rejected for every M2 != M1 (the property's "verifies
// for exactly that message"); M1 != M2 holds by construction (delta = 1 uses the random itself as message;
// other slots hash it). Afterwards the valid one must still be accepted (no negative memory either).
func (s *searcher) headerSequences(n int) {
	thr := threshold()
	defer setThreshold(thr)
	sec := int64(1000000000)
	for i := 0; i < n; i++ {
		pk, sk := s.key()
		pk2, _ := s.key()
		rnd := s.r.Bytes(64)
		ns := int64(s.r.Intn(2)) * sec // slot 1: the message is the parent random itself
		m1 := logical.VerifC16GenVrfMsg(rnd, 1)
		pi, err := ed25519.ECVRFProve(sk, m1)
		if err != nil {
			continue
		}
		pv := new(big.Int).SetBytes(pi).Bytes()
		t := uint64(1) // stake 1: ratio capped, every value qualifies, so only the VRF step can reject
		var qn uint64
		hx.Guard(func() string { _, qn = logical.VerifC16ValidateProve(pi, 10, 0, t); return "" })
		vbt := func(pk, rnd []byte, ns int64, h uint64) string {
			return fmt.Sprintf("vbt %d %s %s %s %d %d 0 %d %d 0", thr, hx.Hex(pk), hx.Hex(pv), hx.Hex(rnd), ns, h, t, qn)
		}
		vbv := func(pk, m []byte) string {
			return fmt.Sprintf("vbv %d %s %s %s 10 0 %d %d 0", thr, hx.Hex(pk), hx.Hex(pv), hx.Hex(m), t, qn)
		}
		rnd2 := flip(rnd, s.r.Intn(8*len(rnd)))
		type stepT struct {
			line, want, what string
		}
		valid := []stepT{{vbt(pk, rnd, ns, 10), "ok", "the honest header"}, {vbv(pk, m1), "ok", "the honest header (message given directly)"},
			{vline(pk, pv, m1), "true", "the honest proof"}}
		wrong := []stepT{
			{vbt(pk, rnd2, ns, 10), "reject", "same proof and key, parent random with one bit flipped"},
			{vbt(pk, rnd, ns+2*sec, 10), "reject", "same proof and key, next time slot (message hashed once more)"},
			{vbt(pk, rnd2, ns+4*sec, 11), "reject", "same proof and key, other random, other slot, other height"},
			{vbv(pk, flip(m1, s.r.Intn(8*len(m1)))), "reject", "same proof and key, message with one bit flipped"},
			{vbv(pk2, m1), "reject", "same proof and message, another key"},
			{vline(pk, pv, rnd2), "reject", "ECVRFVerify: same proof and key, other message"},
		}
		// the header's own PreTime field is sender-controlled and not checked against the parent: the message is
		// f(parent.Random, CurTime - parent.CurTime), so (a) the honest header stays valid whatever PreTime says,
		// (b) a proof for ANOTHER slot's message does not become valid by forging PreTime to that slot.
		vbp := func(piX []byte, nsX int64, pt string) string {
			return fmt.Sprintf("vbp %d %s %s %s %d %s 10 0 %d %d 0", thr, hx.Hex(pk), hx.Hex(new(big.Int).SetBytes(piX).Bytes()), hx.Hex(rnd), nsX, pt, t, qn)
		}
		for d := 2; d <= 6; d++ {
			piD, errD := ed25519.ECVRFProve(sk, logical.VerifC16GenVrfMsg(append([]byte{}, rnd...), d))
			if errD != nil {
				continue
			}
			var qnD uint64
			hx.Guard(func() string { _, qnD = logical.VerifC16ValidateProve(piD, 10, 0, t); return "" })
			line := fmt.Sprintf("vbp %d %s %s %s %d %d 10 0 %d %d 0", thr, hx.Hex(pk), hx.Hex(new(big.Int).SetBytes(piD).Bytes()), hx.Hex(rnd), ns, ns-int64(d-1)*2*sec, t, qnD)
			wrong = append(wrong, stepT{line, "reject", fmt.Sprintf("a proof made for the message of slot %d, in a header of slot 1 whose PreTime field is forged to make it look like slot %d", d, d)})
		}
		for _, pt := range []string{strconv.FormatInt(ns, 10), strconv.FormatInt(-3*sec, 10), strconv.FormatInt(7*sec, 10)} {
			valid = append(valid, stepT{vbp(pi, ns, pt), "ok", "the honest header with PreTime = parent time + " + pt + " ns"})
		}
		if i%3 == 2 { // far-away PreTime last: a tree that derives the slot from PreTime loops for minutes here (deadline)
			valid = append(valid, stepT{vbp(pi, ns, "past"), "ok", "the honest header with a PreTime far in the past"}, stepT{vbp(pi, ns, "zero"), "ok", "the honest header with a zero PreTime"})
		}
		var seq []string
		run := func(st stepT, phase string) {
			seq = append(seq, st.line)
			res := s.run(st.line)
			s.evals++
			accepted := res == "ok" || res == "true"
			if st.want == "reject" && accepted {
				s.report("proof-accepted-for-other-message",
					fmt.Sprintf("%s is ACCEPTED (%s) after the valid header was verified in the same process: a proof is accepted for a message it was not made for", st.what, phase),
					"reject (false / err)", append([]string{}, seq...)...)
			}
			if st.want != "reject" && !accepted {
				s.report("honest-header-rejected-in-sequence",
					fmt.Sprintf("%s is rejected (%s) %s", st.what, res, phase), st.want, append([]string{}, seq...)...)
			}
		}
		if i%2 == 0 { // valid first, then the wrong ones, then valid again
			for _, st := range valid {
				run(st, "first")
			}
			for _, st := range wrong {
				run(st, "after a valid one")
			}
			for _, st := range valid {
				run(st, "again after the rejected ones")
			}
		} else { // wrong ones first (must not poison), then valid, then wrong again
			for _, st := range wrong {
				run(st, "before any valid one")
			}
			for _, st := range valid {
				run(st, "after rejected ones")
			}
			for _, st := range wrong {
				run(st, "after a valid one")
			}
		}
	}
	s.counts["header-sequences"] = n
}

// qnRange: whenever validateProve accepts, 1 <= qn <= MaxQN; and it is a function of its inputs.
// refPad / refRatio: reference re-implementation of the padding and of the exact ratio/step of the qualification
// rule from its written definition (math/big only), used to classify violations independently of the code.
func refPad(p []byte) []byte {
	if len(p) >= 80 {
		return p
	}
	return append(make([]byte, 80-len(p)), p...)
}

func refRatio(val *big.Int, thr, h, wm, t uint64) (r *big.Rat, capped bool, ok bool) {
	if t == 0 || model.Param.MaxQN <= 0 {
		return nil, false, false
	}
	diff := uint64(1)
	if wm != 0 && h > thr {
		diff = t / wm
	}
	pp := t * uint64(model.Param.PotentialProposalIndex) / 100
	if pp < model.Param.PotentialProposal {
		pp = model.Param.PotentialProposal
	} else if pp > model.Param.PotentialProposalMax {
		pp = model.Param.PotentialProposalMax
	}
	num := new(big.Rat).SetInt64(int64(diff * pp))
	den := new(big.Rat).SetFloat64(float64(t))
	sr := new(big.Rat).Quo(num, den)
	if sr.Sign() <= 0 {
		return nil, false, false
	}
	one := big.NewRat(1, 1)
	if sr.Cmp(one) > 0 {
		sr = one
		capped = true
	}
	v := new(big.Rat).SetFrac(val, max256)
	step := new(big.Rat).Quo(sr, new(big.Rat).SetInt64(int64(model.Param.MaxQN)))
	return new(big.Rat).Quo(v, step), capped, true
}

func (s *searcher) qnRange(n int) {
	maxq := uint64(model.Param.MaxQN)
	rb := common.GetRewardBlocks()
	thrs := []uint64{threshold(), rb + 100}
	defer setThreshold(thrs[0])
	mk := func(val *big.Int) []byte {
		p := make([]byte, 80)
		if val.Cmp(max256) > 0 {
			val = max256
		}
		vb := val.Bytes()
		copy(p[32-len(vb):32], vb)
		return p
	}
	check := func(thr uint64, p []byte, h, wm, t uint64) {
		line := fmt.Sprintf("qn %d %s %d %d %d", thr, hx.Hex(p), h, wm, t)
		res := s.run(line)
		s.evals++
		if strings.HasPrefix(res, "PANIC") {
			s.counts["validateProve-panics(division by zero)"]++
			return
		}
		res2 := s.run(line)
		if res2 != res {
			s.report("qn-not-deterministic", "validateProve gave "+res+" then "+res2, res, line)
		}
		var ok bool
		var qn uint64
		w := strings.Fields(res)
		ok = w[0] == "true"
		fmt.Sscan(w[1], &qn)
		if !ok {
			return
		}
		s.counts["qn-accepted"]++
		if qn >= 1 && qn <= maxq {
			return
		}
		if qn == 0 {
			s.report("qn-zero", "accepted proof with qn = 0", "1 <= qn <= MaxQN", line)
			return
		}
		// classify with an INDEPENDENT exact computation (not the code under test): the two recorded classes are
		// exactly "qn = MaxQN+1 because ratio/step = MaxQN" and "qn = MaxQN+1 because MaxQN - ratio/step is below
		// float64 resolution"; anything else out of range is a new violation.
		val := new(big.Int).SetBytes(refPad(p)[:32])
		rExact, capped, okRef := refRatio(val, thr, h, wm, t)
		switch {
		case okRef && qn == maxq+1 && capped && val.Cmp(max256) == 0 && rExact.Cmp(new(big.Rat).SetInt64(int64(maxq))) == 0:
			s.report("qn-above-max-value-all-ones", fmt.Sprintf("validateProve accepts with qn = %d > MaxQN = %d: value = 2^256-1 and stake ratio capped at 1 give ratio/step = MaxQN exactly", qn, maxq), "1 <= qn <= MaxQN", line)
		case okRef && qn == maxq+1 && rExact.Cmp(new(big.Rat).SetInt64(int64(maxq))) < 0 && func() bool { f, _ := rExact.Float64(); return f == float64(maxq) }():
			s.report("qn-above-max-float-rounding", fmt.Sprintf("validateProve accepts with qn = %d > MaxQN = %d: ratio/step is below MaxQN but Float64() rounds it up to %d.0", qn, maxq, maxq), "1 <= qn <= MaxQN", line)
		default:
			s.report("qn-out-of-range", fmt.Sprintf("validateProve accepts with qn = %d outside [1, %d] and neither recorded rounding class explains it (exact ratio/step = %s)", qn, maxq, rExact.FloatString(20)), "1 <= qn <= MaxQN", line)
		}
	}
	stakes := []uint64{1, 2, 3, 5, 6, 10, 100, 12345, 1 << 20, 1<<53 + 1, 1 << 62}
	for _, thr := range thrs {
		for _, t := range stakes {
			for _, wm := range []uint64{0, 1, 3} {
				for _, h := range []uint64{0, thr + 1} {
					diff := uint64(1)
					if wm != 0 && h > thr {
						diff = t / wm
					}
					vals := []*big.Int{big.NewInt(0), big.NewInt(1), new(big.Int).Set(max256), new(big.Int).Sub(max256, big.NewInt(1))}
					if diff != 0 {
						sr := logical.VerifC16CalcStakeRatio(diff, t)
						if sr.Sign() > 0 {
							b := new(big.Rat).Mul(sr, new(big.Rat).SetInt(max256))
							fl := new(big.Int).Quo(b.Num(), b.Denom())
							for _, d := range []int64{-2, -1, 0, 1} {
								x := new(big.Int).Add(fl, big.NewInt(d))
								if x.Sign() >= 0 && x.Cmp(max256) <= 0 {
									vals = append(vals, x)
								}
							}
							for i := int64(1); i < int64(maxq); i++ {
								x := new(big.Int).Quo(new(big.Int).Mul(fl, big.NewInt(i)), big.NewInt(int64(maxq)))
								vals = append(vals, x, new(big.Int).Sub(x, big.NewInt(1)), new(big.Int).Add(x, big.NewInt(1)))
							}
						}
					}
					for _, v := range vals {
						if v.Sign() >= 0 {
							check(thr, mk(v), h, wm, t)
						}
					}
				}
			}
		}
	}
	for i := 0; i < n; i++ {
		thr := thrs[s.r.Intn(2)]
		t := 1 + s.r.U64()>>uint(s.r.Intn(64))
		wm := uint64(s.r.Intn(4))
		check(thr, s.r.Bytes(80), thr+uint64(s.r.Intn(2)), wm, t)
	}
	// workingMiners > totalStake after the fork height: difficulty 0 (observation)
	check(thrs[1], s.r.Bytes(80), thrs[1]+1, 7, 3)
}

func scaleW(a map[string]string) int {
	if a["tier"] == "thorough" {
		return 3
	}
	return 1
}

func search(a map[string]string) {
	s := &searcher{r: hx.NewRng(hx.SeedFromEnv() ^ 0x5eac4), seen: map[string]bool{}, perKey: map[string]int{}, counts: map[string]int{}, outPath: a["out"]}
	scale := 1
	if a["tier"] == "thorough" {
		scale = 10
	}
	workers := hx.ArgInt(a, "workers", 8*scaleW(a))
	if a["only"] == "concurrent" {
		s.concurrent(workers, 600*scale)
	} else {
		// history first: a poisoned package-level value must not be able to hide behind later phases
		s.history(12 * scale)
		s.headerSequences(6 * scale)
		s.messageLengths(2 * scale)
		s.proveValueLengths(6 * scale)
		zeros := s.honest(12*scale, 60)
		s.counts["honest-proofs-with-leading-zero-byte"] = zeros
		s.syntheticTransport(200 * scale)
		s.bitflips(6 * scale)
		s.adversarial(4 * scale)
		s.qnRange(400 * scale)
		s.qnTransport(30*scale, 6*scale)
		s.retention(60 * scale)
		s.history(6 * scale)
		s.concurrent(workers, 600*scale)
	}
	for k, v := range s.perKey {
		s.counts["violations:"+k] = v
	}
	if s.outPath != "" {
		s.write(true)
	} else {
		b, _ := json.MarshalIndent(map[string]interface{}{"evaluations": s.evals, "violations": s.viol, "counts": s.counts}, "", " ")
		fmt.Println(string(b))
	}
}
