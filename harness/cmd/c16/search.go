package main

func search(a map[string]string) {}
