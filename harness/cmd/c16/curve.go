package main

import (
	"com.tuntun.rangers/node/src/common/ed25519/edwards25519"
)

// smulBaseImpl: encoding of k*B (k little-endian, k[31] <= 127) by the real GeScalarMultBase.
func smulBaseImpl(k []byte) []byte {
	var kk, out [32]byte
	copy(kk[:], k)
	var p edwards25519.ExtendedGroupElement
	edwards25519.GeScalarMultBase(&p, &kk)
	p.ToBytes(&out)
	return out[:]
}

// pointAdd returns enc(dec(a) + dec(b)) using the real group operations (ok=false if a or b does not decode).
func pointAdd(a, b []byte) ([]byte, bool) {
	var aa, bb, out [32]byte
	copy(aa[:], a)
	copy(bb[:], b)
	var p, q, r edwards25519.ExtendedGroupElement
	if !p.FromBytes(&aa) || !q.FromBytes(&bb) {
		return nil, false
	}
	var c edwards25519.CachedGroupElement
	// p + q = p - (-q): negate q by decoding with flipped sign bit
	bb[31] ^= 0x80
	q.FromBytes(&bb)
	q.ToCached(&c)
	var t edwards25519.CompletedGroupElement
	edwards25519.GeSub(&t, &p, &c)
	t.ToExtended(&r)
	r.ToBytes(&out)
	return out[:], true
}

// scalarMult returns enc(k * dec(a)).
func scalarMult(k, a []byte) []byte {
	var kk, aa, out [32]byte
	copy(kk[:], k)
	copy(aa[:], a)
	var p edwards25519.ExtendedGroupElement
	p.FromBytes(&aa)
	r := edwards25519.GeScalarMult(&p, &kk)
	r.ToBytes(&out)
	return out[:]
}
