package main

// The implementation side: one AccountDB, the real VMExecutor run over blocks of
// transactions, observations rendered in the line protocol.

import (
	ethcrypto "com.tuntun.rangers/node/src/eth_crypto"
	"encoding/json"
	"fmt"
	"math/big"
	"os"
	"strconv"
	"strings"
	"sync"
	"time"

	"com.tuntun.rangers/node/src/common"
	"com.tuntun.rangers/node/src/core"
	"com.tuntun.rangers/node/src/middleware/db"
	"com.tuntun.rangers/node/src/middleware/types"
	"com.tuntun.rangers/node/src/storage/account"
	"com.tuntun.rangers/node/src/utility"
	"verif/harness/hx"
)

var rpgAddr = common.HexToAddress("0x71d9cfd1b7adb1e8eb4c193ce6ffbe19b4aee0db") // the genesis wRPG contract address

type QTx struct {
	line       string // op line without the oracle suffix
	tx         *types.Transaction
	isCt       bool
	feat       map[string]bool // features for the searcher's classification
	locked     *big.Int        // stake this tx locks when it succeeds
	onSuccess  func()          // harness bookkeeping when the transaction succeeded
	canRevert  bool            // a REVERT / INVALID is reachable
	unstakeSum *big.Int        // sum of the reachable UNSTAKE amounts
	canUnstake bool            // an UNSTAKE is reachable from this transaction (set by the searcher)
	mayBurn    bool            // a SELFDESTRUCT is reachable from this transaction (set by the searcher)
}

type World struct {
	adb           *account.AccountDB
	store         account.AccountDatabase
	univ          []common.Address
	height        uint64
	seq           uint64
	queue         []*QTx
	inits         map[int]Script
	codes         map[common.Address]Script
	out           *hx.Out
	miners        []minerRec // registered by successful MinerApply transactions
	minerSeq      uint64
	refundSeq     uint64
	authUsed      bool // a queued transaction of the current block already targets authC
	installed     map[common.Address]bool
	escrowHeights map[uint64]bool
	fork          forkPoint
	flags         Flags
	authC         *common.Address // the one contract whose script uses AUTHCALL (re-assembled before every block)
}

func newAccountDB() (*account.AccountDB, account.AccountDatabase) {
	mem, err := db.NewMemDatabase()
	if err != nil {
		panic(err)
	}
	store := account.NewDatabase(mem)
	adb, err := account.NewAccountDB(common.Hash{}, store)
	if err != nil {
		panic(err)
	}
	// genesis does exactly this for the native token (core/genesis_block.go: createGenesisContract)
	adb.AddERC20Binding(common.BLANCE_NAME, rpgAddr, 3, 18)
	return adb, store
}

// reopen commits the state and opens a fresh AccountDB at the new root, as the node does for every block
// (middleware.AccountDBManager.GetAccountDBByHash): object caches and `deleted` marks do not outlive a block.
func (w *World) reopen() {
	root, err := w.adb.Commit(true)
	if err != nil {
		panic(err)
	}
	if err := w.store.TrieDB().Commit(root, false); err != nil {
		panic(err)
	}
	adb, err := account.NewAccountDB(root, w.store)
	if err != nil {
		panic(err)
	}
	w.adb = adb
}

func NewWorld(out *hx.Out) *World {
	w := &World{out: out, height: 100}
	w.Reset(false)
	return w
}

func (w *World) Reset(emit bool) {
	w.adb, w.store = newAccountDB()
	w.queue = nil
	w.inits = map[int]Script{}
	w.codes = map[common.Address]Script{}
	w.authC = nil
	w.installed = map[common.Address]bool{}
	w.escrowHeights = map[uint64]bool{}
	w.miners = nil
	w.minerSeq = 0
	w.installMainNode()
	if emit {
		w.out.Emit("reset", "ok")
		w.SetFork(w.fork)
		w.Univ(w.univ)
	} else {
		w.silentFork()
	}
}

func (w *World) Univ(as []common.Address) {
	w.univ = as
	parts := []string{"univ"}
	for _, a := range as {
		parts = append(parts, hexAddr(a))
	}
	w.out.Emit(strings.Join(parts, " "), "ok")
}

func (w *World) Set(a common.Address, v *big.Int) {
	// retention: the argument is scribbled over after the call; a retained pointer would show as a diff
	tmp := new(big.Int).Set(v)
	w.adb.SetBalance(a, tmp)
	tmp.SetInt64(-987654321)
	w.out.Emit(fmt.Sprintf("set %s %s", hexAddr(a), v.String()), "ok")
}

func (w *World) Init(id int, s Script) {
	noteScript("init", s)
	w.inits[id] = s
	w.out.Emit(fmt.Sprintf("init %d %s", id, s.String()), "ok")
}

// ---- input distribution of the streams (printed into the evidence: STATS.dist)

var dist = map[string]map[string]int{}
var distMu sync.Mutex

func note(table, key string) {
	distMu.Lock()
	defer distMu.Unlock()
	m := dist[table]
	if m == nil {
		m = map[string]int{}
		dist[table] = m
	}
	m[key]++
}

// msgBucket: the receipt message with numbers, addresses and hashes removed.
func msgBucket(msg string) string {
	if i := strings.LastIndex(msg, "err: "); i > 24 {
		tail := msg[i:]
		if len(tail) > 60 {
			tail = tail[:60]
		}
		return msgBucket(msg[:24]) + " .. " + msgBucket(tail)
	}
	var sb strings.Builder
	prev := byte(0)
	for i := 0; i < len(msg) && sb.Len() < 48; i++ {
		c := msg[i]
		if c >= '0' && c <= '9' {
			c = '#'
		}
		if c == '#' && prev == '#' {
			continue
		}
		sb.WriteByte(c)
		prev = c
	}
	return sb.String()
}

func noteTx(line string, status byte, msg string, dev bool) {
	f := strings.Fields(line)
	kind := f[1]
	if kind == "ct" {
		if f[6] == "-" {
			kind = "ct-create"
		} else {
			kind = "ct-call"
		}
		if f[2] == "1" {
			kind += "-eth"
		}
	}
	if kind == "op" {
		note("op_targets", f[4])
	}
	note("tx_kind_status", kind+" "+string(status))
	if status != 's' {
		b := msgBucket(msg)
		if status == 'e' {
			b = "(evicted) " + b
		}
		note("failure_kind", kind+": "+b)
	} else if msg != "" && kind != "ct-call" && kind != "ct-create" && kind != "ct-call-eth" && kind != "ct-create-eth" {
		note("success_msg", kind+": "+msgBucket(msg))
	}
}

func noteScript(table string, s Script) {
	note(table+"_len", strconv.Itoa(len(s)))
	for _, a := range s {
		k := a.Kind
		if a.Val != nil && a.Val.Sign() != 0 {
			k += "+value"
		}
		note("script_actions", k)
	}
}

func (w *World) Code(a common.Address, s Script) {
	noteScript("code", s)
	if len(s) == 0 {
		// The assembled code of an empty script is the single byte STOP, so the account IS a contract for
		// the code (RemoveMiner keeps a fully refunded miner whose account is a contract).  The model decides
		// `hasCodeIn` by the script being non-empty: say what is installed.
		s = Script{{Kind: "st"}}
	}
	w.codes[a] = s
	hasAc := false
	for _, x := range s {
		if x.Kind == "ac" {
			hasAc = true
		}
	}
	if hasAc {
		aa := a
		w.authC = &aa
		w.refreshAuth()
	} else {
		if w.authC != nil && *w.authC == a {
			w.authC = nil
		}
		w.adb.SetCode(a, assemble(s, w.inits, nil, w.budget))
	}
	w.out.Emit(fmt.Sprintf("code %s %s", hexAddr(a), s.String()), "ok")
}

// refreshAuth re-assembles the AUTHCALL contract with the authority's current nonce.
func (w *World) refreshAuth() {
	if w.authC == nil {
		return
	}
	a := *w.authC
	if len(w.adb.GetCode(a)) == 0 && len(w.queue) >= 0 && w.installed[a] {
		// the contract self-destructed in an earlier block: it is gone, do not resurrect it
		w.authC = nil
		return
	}
	w.installed[a] = true
	au := newAuth(a, w.height+1, w.adb.GetNonce(authorityAddr()), w.budget)
	w.adb.SetCode(a, assemble(w.codes[a], w.inits, au, w.budget))
}

// Wealth = sum of all balances + escrow + stake recorded in the registry (in wei).
func (w *World) Wealth() *big.Int {
	v := new(big.Int).Set(w.Total())
	v.Add(v, w.escrowTotal())
	v.Add(v, new(big.Int).Mul(w.stakedTokens(), oneRPG))
	return v
}

// Total is the sum of every native-token balance there is: all slots of the token contract's
// storage (in this harness that contract has no code of its own, so every slot is a balance).
func (w *World) Total() *big.Int {
	w.adb.IntermediateRoot(true)
	sum := new(big.Int)
	it := w.adb.DataIterator(rpgAddr, nil)
	if it == nil {
		return sum
	}
	for it.Next() {
		sum.Add(sum, new(big.Int).SetBytes(it.Value))
	}
	return sum
}

func (w *World) stateLine() string {
	var sb strings.Builder
	sb.WriteString("T=")
	sb.WriteString(w.Total().String())
	sb.WriteString(" E=")
	sb.WriteString(w.escrowTotal().String())
	sb.WriteString(" S=")
	sb.WriteString(w.stakedTokens().String())
	for _, a := range w.univ {
		sb.WriteByte(' ')
		b := w.adb.GetBalance(a)
		sb.WriteString(b.String())
		b.SetInt64(-123456789) // retention: a returned pointer into cached state would corrupt the next read
	}
	return sb.String()
}

// budget: gas forwarded to a callee = 2M per action it can (transitively) execute, plus slack.
func (w *World) budget(to common.Address) uint64 {
	unit := uint64(2000000)
	if !w.flags.P026 && !strings.Contains(w.fork.label, "@026") {
		unit = 70000 // gas costs are 30 times smaller before the Proposal026 magnification
	}
	return unit * uint64(w.scriptCost(w.codes[to], 0)+1)
}

func strHex(s string) string { return hx.Hex([]byte(s)) }

func b2i(b bool) int {
	if b {
		return 1
	}
	return 0
}

func (w *World) nextTx(t *types.Transaction) *types.Transaction {
	w.seq++
	t.RequestId = w.seq
	t.Time = strconv.FormatUint(w.seq, 10)
	t.ChainId = "9500"
	t.Hash = t.GenHash()
	return t
}

type Target struct {
	Key    string // the JSON key as the user wrote it
	Amount string
}

// QueueOperator queues an asset-transfer transaction (TransactionTypeOperatorEvent).
func (w *World) QueueOperator(src common.Address, targets []Target, badJSON bool) *QTx {
	extra := ""
	dataOk := true
	var parts []string
	if badJSON {
		extra = "{\"0x01\":{\"balance\":"
		dataOk = false
		targets = nil
	} else if len(targets) == 0 && w.seq%2 == 1 {
		extra = "{}" // an empty object rather than absent data: both are a successful no-op
	} else if len(targets) > 0 {
		m := map[string]types.TransferData{}
		for _, t := range targets {
			m[t.Key] = types.TransferData{Balance: t.Amount}
		}
		bs, _ := json.Marshal(m)
		extra = string(bs)
	}
	for _, t := range targets {
		parts = append(parts, hexAddr(common.HexToAddress(t.Key)), strHex(t.Amount))
	}
	tx := w.nextTx(&types.Transaction{Source: src.GetHexString(), Type: types.TransactionTypeOperatorEvent, ExtraData: extra})
	line := fmt.Sprintf("tx op %s %d %d", hexAddr(src), b2i(dataOk), len(targets))
	if len(parts) > 0 {
		line += " " + strings.Join(parts, " ")
	}
	q := &QTx{line: line, tx: tx, feat: map[string]bool{"op": true}}
	w.queue = append(w.queue, q)
	return q
}

type CtSpec struct {
	Src      common.Address
	Target   *common.Address // nil = creation
	Eth      bool
	NonceOff int // offset added to the account nonce (eth only; 0 = valid)
	BadJSON  bool
	GasLimit string
	Value    string
	Input    []byte // call data (calls) ; ignored for creation (assembled from InitId)
	InitId   int    // creation behaviour
}

// QueueContract queues a contract transaction (type 200 or 188).
func (w *World) QueueContract(c CtSpec) *QTx {
	input := c.Input
	initTok := "-"
	tgtTok := "-"
	target := ""
	if c.Target == nil {
		input = assemble(w.inits[c.InitId], w.inits, nil, w.budget)
		initTok = strconv.Itoa(c.InitId)
	} else {
		tgtTok = hexAddr(*c.Target)
		target = c.Target.GetHexString()
	}
	data := ""
	if c.BadJSON {
		data = "{\"gasLimit\":"
	} else {
		cd := types.ContractData{GasLimit: c.GasLimit, TransferValue: c.Value, AbiData: "0x" + fmt.Sprintf("%x", input)}
		bs, _ := json.Marshal(cd)
		data = string(bs)
	}
	typ := int32(types.TransactionTypeContract)
	nonce := uint64(0)
	nonceOk := true
	if c.Eth {
		typ = types.TransactionTypeETHTX
		cur := w.adb.GetNonce(c.Src)
		nonce = uint64(int64(cur) + int64(c.NonceOff))
		nonceOk = nonce == cur || !w.flags.P018 // validateNonce tests nothing before Proposal018
	}
	nz, z := 0, 0
	for _, b := range input {
		if b != 0 {
			nz++
		} else {
			z++
		}
	}
	tx := w.nextTx(&types.Transaction{Source: c.Src.GetHexString(), Target: target, Type: typ, Data: data, Nonce: nonce})
	line := fmt.Sprintf("tx ct %d %d %d %s %s %s %s %d %d %s", b2i(c.Eth), b2i(nonceOk), b2i(!c.BadJSON), hexAddr(c.Src), tgtTok,
		strHex(c.GasLimit), strHex(c.Value), nz, z, initTok)
	q := &QTx{line: line, tx: tx, isCt: true, feat: map[string]bool{"ct": true}}
	if v, err := utility.StrToBigInt(c.Value); err == nil && v.Sign() < 0 {
		q.feat["negvalue"] = true
	}
	w.queue = append(w.queue, q)
	return q
}

type BlockResult struct {
	Statuses string
	Before   *big.Int
	After    *big.Int
	Panic    string
	GasUsed  []uint64
	Msgs     []string
	P002     bool     // balance writes are journaled in this block (fork flag 002)
	WBefore  *big.Int // balances + escrow + registry stake (wei)
	WAfter   *big.Int
}

// Exec runs the queued transactions as one block through the unmodified VMExecutor and emits
// the tx lines (with the gas oracle) and the exec line.
func (w *World) Exec() BlockResult {
	w.refreshFlags(w.height+1, w.height)
	w.reopen()
	w.refreshAuth()
	w.authUsed = false
	res := BlockResult{Before: w.Total(), WBefore: w.Wealth(), P002: w.flags.P002}
	w.height++
	common.SetBlockHeight(w.height)
	setCurWorld(w)
	w.escrowHeights[w.height+36000] = true
	block := &types.Block{Header: &types.BlockHeader{Height: w.height, CurTime: time.Unix(1700000000+int64(w.height), 0),
		Castor: []byte{0xca, 0x57}}}
	for _, q := range w.queue {
		block.Transactions = append(block.Transactions, q.tx)
	}
	if os.Getenv("C06_DEBUG") != "" {
		for _, q := range w.queue {
			src := common.HexToAddress(q.tx.Source)
			n := w.adb.GetNonce(src)
			for d := uint64(0); d < 3; d++ {
				ca := ethcrypto.CreateAddress(src, n+d)
				fmt.Printf("DEBUG src=%s nonce=%d+%d create=%s nonce@=%d codelen=%d exist=%v\n", q.tx.Source, n, d, ca.GetHexString(), w.adb.GetNonce(ca), len(w.adb.GetCode(ca)), w.adb.Exist(ca))
			}
		}
	}
	var evicted []common.Hash
	var receipts []*types.Receipt
	p := hx.Guard(func() string {
		_, evicted, _, receipts = core.VerifC06Execute(w.adb, block, "fullverify")
		return ""
	})
	if p != "" {
		res.Panic = p
		for _, q := range w.queue {
			w.out.Emit(q.line+" 0", "q")
		}
		w.out.Emit("exec", p)
		w.queue = nil
		return res
	}
	ev := map[common.Hash]bool{}
	for _, h := range evicted {
		ev[h] = true
	}
	rc := map[common.Hash]*types.Receipt{}
	for _, r := range receipts {
		rc[r.TxHash] = r
	}
	var st strings.Builder
	for _, q := range w.queue {
		gu := uint64(0)
		switch {
		case rc[q.tx.Hash] != nil && rc[q.tx.Hash].Status == types.ReceiptStatusSuccessful:
			st.WriteByte('s')
			gu = rc[q.tx.Hash].GasUsed
		case rc[q.tx.Hash] != nil:
			// before Proposal018 a failed transaction is also listed as evicted; it still has its receipt
			st.WriteByte('f')
			gu = rc[q.tx.Hash].GasUsed
		case ev[q.tx.Hash]:
			st.WriteByte('e')
		default:
			st.WriteByte('?')
		}
		res.GasUsed = append(res.GasUsed, gu)
		if r := rc[q.tx.Hash]; r != nil {
			res.Msgs = append(res.Msgs, r.Msg)
		} else {
			res.Msgs = append(res.Msgs, "")
		}
		noteTx(q.line, st.String()[st.Len()-1], res.Msgs[len(res.Msgs)-1], w.fork.label == "dev")
		if q.isCt {
			w.out.Emit(q.line+" "+strconv.FormatUint(gu, 10), "q")
		} else {
			w.out.Emit(q.line, "q")
		}
	}
	for i, q := range w.queue {
		if q.onSuccess != nil && st.String()[i] == 's' {
			q.onSuccess()
		}
	}
	res.Statuses = st.String()
	if res.Statuses == "" {
		res.Statuses = "-"
	}
	w.reopen()
	line := w.stateLine()
	res.After = w.Total()
	res.WAfter = w.Wealth()
	w.out.Emit("exec", res.Statuses+" "+line)
	w.queue = nil
	return res
}

// Amt checks utility.StrToBigInt alone.
func (w *World) Amt(s string) {
	v, err := utility.StrToBigInt(s)
	r := "err"
	if err == nil {
		r = v.String()
	}
	w.out.Emit("amt "+strHex(s), r)
}
