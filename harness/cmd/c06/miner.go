package main

// Stake-locking transactions (miner apply / add stake) and the refund mover, at ledger level.

import (
	"encoding/json"
	"fmt"
	"math/big"
	"strings"

	"com.tuntun.rangers/node/src/common"
	"com.tuntun.rangers/node/src/middleware/types"
	"com.tuntun.rangers/node/src/service"
)

type minerRec struct {
	id      []byte
	account common.Address
}

// QueueLock queues a MinerApply (apply=true) or MinerAdd transaction locking n whole tokens.
// registryOk — everything AddMiner/AddStake test besides the balance — is known by construction.
func (w *World) QueueLock(g *Gen, src common.Address, n uint64, apply bool, spoil int) *QTx {
	var m types.Miner
	ok := true
	typ := int32(types.TransactionTypeMinerApply)
	if apply {
		w.minerSeq++
		m.Id = []byte(fmt.Sprintf("verif-c06-miner-%08d-%016x", w.minerSeq, g.r.U64()))
		m.PublicKey = []byte{1, 2, 3}
		m.VrfPublicKey = []byte{4, 5, 6}
		m.Type = common.MinerTypeValidator
		if g.r.Bool() {
			m.Type = common.MinerTypeProposer
		}
		m.Stake = n
		m.Account = src[:]
		switch spoil {
		case 1:
			m.Type = 7
			ok = false
		case 2:
			m.PublicKey = nil
			ok = false
		}
		if (m.Type == common.MinerTypeValidator && n < common.ValidatorStake) || (m.Type == common.MinerTypeProposer && n < common.ProposerStake) {
			ok = false
		}
		for _, r := range w.miners {
			if r.account == src {
				ok = false // account already owns a miner
			}
		}
		if ok {
			w.pendingMiners = append(w.pendingMiners, minerRec{id: m.Id, account: src})
		}
	} else {
		typ = types.TransactionTypeMinerAdd
		m.Stake = n
		if len(w.miners) > 0 && spoil == 0 {
			m.Id = w.miners[g.r.Intn(len(w.miners))].id
		} else {
			m.Id = []byte("verif-c06-no-such-miner")
			ok = n == 0 // AddStake(delta = 0) answers true before looking the miner up
		}
	}
	bs, _ := json.Marshal(m)
	tx := w.nextTx(&types.Transaction{Source: src.GetHexString(), Type: typ, Data: string(bs)})
	q := &QTx{line: fmt.Sprintf("tx lock %s %d %d", hexAddr(src), n, b2i(ok)), tx: tx, feat: map[string]bool{"lock": true},
		locked: new(big.Int).Mul(new(big.Int).SetUint64(n), oneRPG)}
	w.queue = append(w.queue, q)
	return q
}

// Refund pushes an escrow list through the real RefundManager (Add, then CheckAndMove at that height).
func (w *World) Refund(list [][2]interface{}) {
	w.refundSeq++
	h := 1000000 + w.refundSeq
	var rl types.RefundInfoList
	parts := []string{}
	for _, e := range list {
		a := e[0].(common.Address)
		v := e[1].(*big.Int)
		rl.AddRefundInfo(a.Bytes(), new(big.Int).Set(v))
		parts = append(parts, hexAddr(a), v.String())
	}
	service.RefundManagerImpl.Add(map[uint64]types.RefundInfoList{h: rl}, w.adb)
	service.RefundManagerImpl.CheckAndMove(h, w.adb)
	line := fmt.Sprintf("refund %d", len(list))
	if len(parts) > 0 {
		line += " " + strings.Join(parts, " ")
	}
	w.out.Emit(line, w.stateLine())
}

// installMainNode puts a stand-in for the main-node contract at common.MainNodeContract(): it emits four
// logs whose data is the 32-byte word ORIGIN xor 0xaa00…00, which minerNodeExecutor takes as the new contract account.
func (w *World) installMainNode() {
	mask := make([]byte, 20)
	mask[0] = 0xaa
	code := append([]byte{0x32, 0x73}, mask...) // ORIGIN, PUSH20 mask
	code = append(code, 0x18, 0x60, 0x00, 0x52) // XOR, MSTORE(0)
	for i := 0; i < 4; i++ {
		code = append(code, 0x60, 0x20, 0x60, 0x00, 0xa0)
	}
	code = append(code, 0x00)
	w.adb.SetCode(common.MainNodeContract(), code)
}

func addrPlusOne(a common.Address) common.Address {
	a[0] ^= 0xaa
	return a
}

// QueueNode queues an OperatorNode transaction (type 7): the sender, owner of a miner, pays 10 RPG to have
// its miner's account replaced by a contract account. spoil = sender owns no miner.
func (w *World) QueueNode(src common.Address) *QTx {
	ok := false
	for _, r := range w.miners {
		if r.account == src {
			ok = true
		}
	}
	tx := w.nextTx(&types.Transaction{Source: src.GetHexString(), Type: types.TransactionTypeOperatorNode})
	q := &QTx{line: fmt.Sprintf("tx node %s %d", hexAddr(src), b2i(ok)), tx: tx, feat: map[string]bool{"node": true}}
	w.queue = append(w.queue, q)
	return q
}
