package main

// Miner transactions (apply / add stake / refund / OperatorNode) and the refund mover.
// The harness keeps only a directory of the miners it created (id bytes, last known account) so that
// generators can aim at them; whether a transaction succeeds is decided by the code and by the model.

import (
	"encoding/json"
	"fmt"
	"math/big"
	"strconv"
	"strings"

	"com.tuntun.rangers/node/src/common"
	"com.tuntun.rangers/node/src/middleware/types"
	"com.tuntun.rangers/node/src/service"
)

type minerRec struct {
	seq     uint64
	id      []byte
	account common.Address
	typ     byte
}

func minerID(seq uint64) []byte { return []byte(fmt.Sprintf("verif-c06-miner-%016d", seq)) }

func (w *World) findMiner(seq uint64) *minerRec {
	for i := range w.miners {
		if w.miners[i].seq == seq {
			return &w.miners[i]
		}
	}
	return nil
}

// QueueApply queues a MinerApply transaction (type 2): src pays `stake` whole tokens for a miner `seq`
// of type typ whose account is `account`.
func (w *World) QueueApply(src common.Address, seq uint64, typ byte, stake uint64, account common.Address, keysOk bool) *QTx {
	m := types.Miner{Id: minerID(seq), PublicKey: []byte{1, 2, 3}, VrfPublicKey: []byte{4, 5, 6}, Type: typ, Stake: stake, Account: account[:]}
	if !keysOk {
		m.PublicKey = nil
	}
	bs, _ := json.Marshal(m)
	tx := w.nextTx(&types.Transaction{Source: src.GetHexString(), Type: types.TransactionTypeMinerApply, Data: string(bs)})
	q := &QTx{line: fmt.Sprintf("tx apply %s %d %d %d %s %d", hexAddr(src), seq, typ, stake, hexAddr(account), b2i(keysOk)), tx: tx,
		feat: map[string]bool{"miner": true}}
	q.onSuccess = func() {
		if w.findMiner(seq) == nil {
			w.miners = append(w.miners, minerRec{seq: seq, id: minerID(seq), account: account, typ: typ})
		}
	}
	w.queue = append(w.queue, q)
	return q
}

// QueueAdd queues a MinerAdd transaction (type 5).
func (w *World) QueueAdd(src common.Address, seq uint64, delta uint64) *QTx {
	m := types.Miner{Id: minerID(seq), Stake: delta}
	bs, _ := json.Marshal(m)
	tx := w.nextTx(&types.Transaction{Source: src.GetHexString(), Type: types.TransactionTypeMinerAdd, Data: string(bs)})
	q := &QTx{line: fmt.Sprintf("tx add %s %d %d", hexAddr(src), seq, delta), tx: tx, feat: map[string]bool{"miner": true}}
	w.queue = append(w.queue, q)
	return q
}

// QueueRefund queues a MinerRefund transaction (type 3); amount is the raw string of the JSON field.
func (w *World) QueueRefund(src common.Address, seq uint64, amount string, signed bool) *QTx {
	d := map[string]string{"Amount": amount, "MinerId": common.ToHex(minerID(seq))}
	bs, _ := json.Marshal(d)
	tx := w.nextTx(&types.Transaction{Source: src.GetHexString(), Type: types.TransactionTypeMinerRefund, Data: string(bs)})
	if signed {
		tx.Sign = common.BytesToSign(make([]byte, 65))
	}
	q := &QTx{line: fmt.Sprintf("tx refund %s %d %s %d", hexAddr(src), seq, strHex(amount), b2i(signed)), tx: tx,
		feat: map[string]bool{"miner": true, "refund": true}}
	w.queue = append(w.queue, q)
	return q
}

// installMainNode puts a stand-in for the main-node contract at common.MainNodeContract(): it emits four
// logs whose data is the 32-byte word ORIGIN xor 0xaa00…00, which minerNodeExecutor takes as the new contract account.
func (w *World) installMainNode() {
	mask := make([]byte, 20)
	mask[0] = 0xaa
	code := append([]byte{0x32, 0x73}, mask...) // ORIGIN, PUSH20 mask
	code = append(code, 0x18, 0x60, 0x00, 0x52) // XOR, MSTORE(0)
	for i := 0; i < 4; i++ {
		code = append(code, 0x60, 0x20, 0x60, 0x00, 0xa0)
	}
	code = append(code, 0x00)
	w.adb.SetCode(common.MainNodeContract(), code)
}

func nodeAccount(a common.Address) common.Address {
	a[0] ^= 0xaa
	return a
}

// QueueChange queues a MinerChangeAccount transaction (type 6).
func (w *World) QueueChange(src common.Address, seq uint64, newAcct common.Address) *QTx {
	m := types.Miner{Id: minerID(seq), Account: newAcct[:]}
	bs, _ := json.Marshal(m)
	tx := w.nextTx(&types.Transaction{Source: src.GetHexString(), Type: types.TransactionTypeMinerChangeAccount, Data: string(bs)})
	q := &QTx{line: fmt.Sprintf("tx chacc %s %d %s", hexAddr(src), seq, hexAddr(newAcct)), tx: tx, feat: map[string]bool{"miner": true}}
	q.onSuccess = func() {
		if mr := w.findMiner(seq); mr != nil {
			mr.account = newAcct
		}
	}
	w.queue = append(w.queue, q)
	return q
}

// QueueNode queues an OperatorNode transaction (type 7).
func (w *World) QueueNode(src common.Address) *QTx {
	tx := w.nextTx(&types.Transaction{Source: src.GetHexString(), Type: types.TransactionTypeOperatorNode})
	q := &QTx{line: fmt.Sprintf("tx node %s %s 1", hexAddr(src), hexAddr(nodeAccount(src))), tx: tx, feat: map[string]bool{"miner": true, "node": true}}
	q.onSuccess = func() {
		for j := range w.miners {
			if w.miners[j].account == src {
				w.miners[j].account = nodeAccount(src)
			}
		}
	}
	w.queue = append(w.queue, q)
	return q
}

// stakedTokens: whole tokens recorded as stake for every miner this harness ever created.
func (w *World) stakedTokens() *big.Int {
	sum := new(big.Int)
	for seq := uint64(1); seq <= w.minerSeq; seq++ {
		if m := service.MinerManagerImpl.GetMiner(minerID(seq), w.adb); m != nil {
			sum.Add(sum, new(big.Int).SetUint64(m.Stake))
		}
	}
	return sum
}

// Refund pushes an escrow list through the real RefundManager (Add, then CheckAndMove at that height).
func (w *World) Refund(list [][2]interface{}) {
	w.refundSeq++
	h := 1000000000 + w.refundSeq
	var rl types.RefundInfoList
	parts := []string{}
	for _, e := range list {
		a := e[0].(common.Address)
		v := e[1].(*big.Int)
		rl.AddRefundInfo(a.Bytes(), new(big.Int).Set(v))
		parts = append(parts, hexAddr(a), v.String())
	}
	service.RefundManagerImpl.Add(map[uint64]types.RefundInfoList{h: rl}, w.adb)
	for _, ri := range rl.List {
		ri.Value.SetInt64(-424242) // retention: the escrow must not alias the caller's big.Int
	}
	service.RefundManagerImpl.CheckAndMove(h, w.adb)
	line := "refund " + strconv.Itoa(len(list))
	if len(parts) > 0 {
		line += " " + strings.Join(parts, " ")
	}
	w.out.Emit(line, w.stateLine())
}
