// c06: correspondence harness and searcher for property C06 (native-token conservation).
//
//	mode=corr   (default) corpus, amount table, random sessions of blocks; writes ops/obs
//	mode=search           one transaction per block, direct oracle on the sum of all balances;
//	                      prints FOUND {json} per violation class
//	mode=replay file=<ops file>   re-executes op lines against the implementation
package main

import (
	"bufio"
	"encoding/json"
	"fmt"
	"math/big"
	"os"
	"path/filepath"
	"sort"
	"strconv"
	"strings"
	"sync"

	"com.tuntun.rangers/node/src/common"
	"com.tuntun.rangers/node/src/core"
	"verif/harness/hx"
	"verif/harness/hxnode"
)

func boot() {
	hxnode.BootServices("dev")
	core.VerifC06Init()
	initReward()
	common.SetBlockHeight(100)
}

func main() {
	a := hx.Args()
	boot()
	opsPath = a["ops"]
	out, err := hx.NewOut(a["ops"], a["obs"])
	if err != nil {
		panic(err)
	}
	defer out.Close()
	r := hx.NewRng(hx.SeedFromEnv())
	w := NewWorld(out)
	g := &Gen{r: r, w: w}
	thorough := a["tier"] == "thorough"
	stats := map[string]interface{}{}
	switch a["mode"] {
	case "search":
		n := hx.ArgInt(a, "n", 400)
		g.search = true
		runSearch(g, n, stats)
	case "conc":
		runConcurrent(hx.ArgInt(a, "workers", 4), stats)
	case "replay":
		f, err := os.Open(a["file"])
		if err != nil {
			panic(err)
		}
		replayLines(w, f, true)
		f.Close()
	default:
		sessions := hx.ArgInt(a, "sessions", 30)
		if thorough {
			sessions *= 10
		}
		runCorpus(w)
		authFamily(g, nil, []forkPoint{forkPoints[0]})
		runAmounts(g, thorough)
		runConv(g, thorough)
		runSessions(g, sessions, stats)
		runIsolated(g)
		// process-local history: the corpus again, after everything else has run in this process
		runCorpus(w)
	}
	if len(harnessViolations) > 0 {
		stats["violations"] = harnessViolations
	}
	stats["ops"] = out.N
	stats["dist"] = dist
	stats["kinds"] = out.Kinds
	stats["results"] = out.Results
	bs, _ := json.Marshal(stats)
	fmt.Println("STATS " + string(bs))
}

// ---------------------------------------------------------------- corr

func runCorpus(w *World) {
	dir := os.Getenv("VERIF_CORPUS")
	if dir == "" {
		return
	}
	files, _ := filepath.Glob(filepath.Join(dir, "*.ops"))
	sort.Strings(files)
	for _, p := range files {
		f, err := os.Open(p)
		if err != nil {
			continue
		}
		replayLines(w, f, false)
		f.Close()
	}
}

func runAmounts(g *Gen, thorough bool) {
	for _, s := range oddAmounts {
		g.w.Amt(s)
	}
	for _, s := range outsideAmounts {
		g.w.Amt(s)
	}
	n := 300
	if thorough {
		n = 5000
	}
	for i := 0; i < n; i++ {
		bal := new(big.Int).Mul(new(big.Int).SetUint64(g.r.U64()), new(big.Int).SetUint64(g.r.U64()%1000000))
		g.w.Amt(g.amount(bal))
	}
	// structured: sign × integer part × fractional digits × exponent
	for i := 0; i < n; i++ {
		var sb strings.Builder
		sb.WriteString([]string{"", "", "-", "+"}[g.r.Intn(4)])
		ip := g.r.Intn(4)
		for j := 0; j < ip; j++ {
			sb.WriteByte(byte('0' + g.r.Intn(10)))
		}
		if g.r.Bool() {
			sb.WriteByte('.')
			fp := g.r.Pick(0, 1, 2, 17, 18, 19, 20, 25)
			for j := 0; j < fp; j++ {
				sb.WriteByte(byte('0' + g.r.Intn(10)))
			}
		}
		if g.r.Chance(1, 3) {
			sb.WriteString([]string{"e", "E"}[g.r.Intn(2)])
			sb.WriteString([]string{"", "-", "+"}[g.r.Intn(3)])
			sb.WriteString(strconv.Itoa(g.r.Pick(0, 1, 2, 17, 18, 19, 20, 40)))
		}
		g.w.Amt(sb.String())
	}
}

func runSessions(g *Gen, sessions int, stats map[string]interface{}) {
	w := g.w
	blocks, txs := 0, 0
	status := map[string]int{}
	forks := map[string]int{}
	for s := 0; s < sessions; s++ {
		w.univ = universe()
		w.fork = forkPoints[0]
		if s%2 == 1 {
			w.fork = forkPoints[1+(s/2+int(g.r.U64()%3))%(len(forkPoints)-1)]
		}
		w.Reset(true)
		forks[w.fork.label]++
		withContracts := s%4 != 0
		g.setup(withContracts)
		nb := 6 + g.r.Intn(10)
		for b := 0; b < nb; b++ {
			k := g.r.Pick(1, 1, 2, 2, 3, 4)
			w.refreshFlags(w.height+1, w.height) // generators see the flags of the block they fill
			for i := 0; i < k; i++ {
				switch {
				case g.r.Chance(1, 5):
					g.minerTx()
				case withContracts && g.r.Chance(3, 5):
					g.contractTx(i == 0)
				default:
					g.operatorTx()
				}
			}
			res := w.Exec()
			if g.r.Chance(1, 6) {
				g.refund()
			}
			if g.r.Chance(1, 5) {
				g.after()
			}
			blocks++
			txs += k
			for _, c := range res.Statuses {
				status[string(c)]++
			}
			if res.Panic != "" {
				status["panic"]++
			}
		}
	}
	stats["sessions"] = sessions
	stats["blocks"] = blocks
	stats["txs"] = txs
	stats["tx_status"] = status
	stats["forks"] = forks
}

// out-of-domain amount strings: one tiny session each, so an `unmodelled` answer cannot
// desynchronise anything that follows.
func runIsolated(g *Gen) {
	w := g.w
	for i, s := range outsideAmounts {
		w.univ = universe()
		w.fork = forkPoints[0]
		w.Reset(true)
		w.Set(eoas[0], rpg(1000))
		if i%2 == 0 {
			w.QueueOperator(eoas[0], []Target{{Key: eoas[1].GetHexString(), Amount: s}}, false)
		} else {
			t := eoas[1]
			w.QueueContract(CtSpec{Src: eoas[0], Target: &t, GasLimit: "100000000", Value: s})
		}
		w.Exec()
	}
	w.fork = forkPoints[0]
	w.Reset(true)
}

// ---------------------------------------------------------------- concurrency evidence

// corpusObs replays the corpus files that need no shared stub (no `after`, no refund manager list ops) on a private
// World and returns the answers to the block lines.
func corpusObs(tag string) []string {
	dir := os.Getenv("VERIF_CORPUS")
	files, _ := filepath.Glob(filepath.Join(dir, "*.ops"))
	sort.Strings(files)
	out, err := hx.NewOut("conc-"+tag+".ops", "conc-"+tag+".obs")
	if err != nil {
		panic(err)
	}
	w := NewWorld(out)
	for _, p := range files {
		bs, err := os.ReadFile(p)
		if err != nil || strings.Contains(string(bs), "\nafter ") || strings.Contains(string(bs), "\ncfg ") {
			continue
		}
		for _, line := range strings.Split(string(bs), "\n") {
			line = strings.TrimSpace(line)
			if line == "" || line[0] == '#' {
				continue
			}
			if line == "exec" {
				w.Exec()
			} else {
				replayOne(w, line)
			}
		}
	}
	out.Close()
	obs, _ := os.ReadFile("conc-" + tag + ".obs")
	ops, _ := os.ReadFile("conc-" + tag + ".ops")
	var res []string
	ol := strings.Split(string(ops), "\n")
	bl := strings.Split(string(obs), "\n")
	for i := range ol {
		if ol[i] == "exec" && i < len(bl) {
			res = append(res, bl[i])
		}
	}
	return res
}

// runConcurrent: N goroutines, each executing the same blocks on its own state, must answer what one goroutine
// answers alone (package-level scratch state, caches, shared big.Ints would show). Evidence, not proof.
func runConcurrent(workers int, stats map[string]interface{}) {
	seq := corpusObs("seq")
	results := make([][]string, workers)
	var wg sync.WaitGroup
	for i := 0; i < workers; i++ {
		wg.Add(1)
		go func(i int) {
			defer wg.Done()
			results[i] = corpusObs(fmt.Sprintf("w%d", i))
		}(i)
	}
	wg.Wait()
	bad := 0
	for i := range results {
		if strings.Join(results[i], "\n") != strings.Join(seq, "\n") {
			bad++
			for k := range seq {
				if k >= len(results[i]) || results[i][k] != seq[k] {
					got := "<missing>"
					if k < len(results[i]) {
						got = results[i][k]
					}
					reportViolation("concurrent-execution-differs", fmt.Sprintf("worker %d block %d: sequential %q, concurrent %q", i, k, seq[k], got), nil)
					break
				}
			}
		}
	}
	stats["conc_workers"] = workers
	stats["conc_blocks"] = len(seq)
	stats["conc_differing_workers"] = bad
	fmt.Printf("CONC workers=%d blocks=%d differing=%d\n", workers, len(seq), bad)
}

// ---------------------------------------------------------------- op-line interpreter (corpus, replay)

func parseAddr(s string) common.Address { return common.HexToAddress("0x" + s) }

func parseScript(s string) Script {
	if s == "-" {
		return nil
	}
	var out Script
	for _, tok := range strings.Split(s, ",") {
		p := strings.Split(tok, ":")
		a := Act{Kind: p[0]}
		switch p[0] {
		case "stk", "ustk":
			a.Val, _ = new(big.Int).SetString(p[1], 10)
		case "c", "cc", "ac":
			a.To = parseAddr(p[1])
			a.Val, _ = new(big.Int).SetString(p[2], 10)
		case "dc", "sc", "sd":
			a.To = parseAddr(p[1])
		case "cr", "cr2":
			a.Salt = p[0] == "cr2"
			a.Kind = "cr"
			a.Val, _ = new(big.Int).SetString(p[1], 10)
			a.Init, _ = strconv.Atoi(p[2])
		}
		out = append(out, a)
	}
	return out
}

func unhexStr(s string) string {
	b, _ := hx.UnHex(s)
	return string(b)
}

// replayLines drives the implementation from op lines. Lines starting with '#' are comments.
func replayLines(w *World, f *os.File, verbose bool) {
	sc := bufio.NewScanner(f)
	sc.Buffer(make([]byte, 1<<20), 1<<26)
	for sc.Scan() {
		line := strings.TrimSpace(sc.Text())
		if line == "" || line[0] == '#' {
			continue
		}
		if line == "exec" {
			res := w.Exec()
			if verbose {
				fmt.Printf("REPLAY exec statuses=%s total_before=%s total_after=%s panic=%q msgs=%q\n", res.Statuses, res.Before, res.After, res.Panic, res.Msgs)
			}
			continue
		}
		replayOne(w, line)
	}
}

// replayOne applies one non-exec op line to the implementation.
func replayOne(w *World, line string) {
	{
		t := strings.Fields(line)
		switch t[0] {
		case "cfg":
			// session header only; the cfg lines a session emits when it crosses a proposal height are
			// re-derived by the replay itself (refreshFlags)
			if fp := forkByLabel(t[len(t)-1]); strconv.FormatUint(fp.height, 10) == t[1] {
				w.SetFork(fp)
			}
		case "reset":
			w.fork = forkPoints[0]
			w.Reset(false)
			w.out.Emit("reset", "ok")
		case "univ":
			var as []common.Address
			for _, x := range t[1:] {
				as = append(as, parseAddr(x))
			}
			w.Univ(as)
		case "set":
			v, _ := new(big.Int).SetString(t[2], 10)
			w.Set(parseAddr(t[1]), v)
		case "init":
			id, _ := strconv.Atoi(t[1])
			w.Init(id, parseScript(t[2]))
		case "code":
			w.Code(parseAddr(t[1]), parseScript(t[2]))
		case "amt":
			w.Amt(unhexStr(t[1]))
		case "after":
			h, _ := strconv.ParseUint(t[1], 10, 64)
			w.After(h, []byte{0xca, 0x57})
		case "refund":
			var l [][2]interface{}
			for i := 2; i+1 < len(t); i += 2 {
				v, _ := new(big.Int).SetString(t[i+1], 10)
				l = append(l, [2]interface{}{parseAddr(t[i]), v})
			}
			w.Refund(l)
		case "tx":
			switch t[1] {
			case "chacc":
				seq, _ := strconv.ParseUint(t[3], 10, 64)
				w.QueueChange(parseAddr(t[2]), seq, parseAddr(t[4]))
			case "node":
				w.QueueNode(parseAddr(t[2]))
			case "apply":
				seq, _ := strconv.ParseUint(t[3], 10, 64)
				typ, _ := strconv.Atoi(t[4])
				stake, _ := strconv.ParseUint(t[5], 10, 64)
				if seq > w.minerSeq {
					w.minerSeq = seq
				}
				w.QueueApply(parseAddr(t[2]), seq, byte(typ), stake, parseAddr(t[6]), t[7] == "1")
			case "add":
				seq, _ := strconv.ParseUint(t[3], 10, 64)
				d, _ := strconv.ParseUint(t[4], 10, 64)
				w.QueueAdd(parseAddr(t[2]), seq, d)
			case "refund":
				seq, _ := strconv.ParseUint(t[3], 10, 64)
				w.QueueRefund(parseAddr(t[2]), seq, unhexStr(t[4]), t[5] == "1")
			case "op":
				src := parseAddr(t[2])
				if t[3] == "0" {
					w.QueueOperator(src, nil, true)
					break
				}
				var ts []Target
				for i := 5; i+1 < len(t); i += 2 {
					ts = append(ts, Target{Key: "0x" + t[i], Amount: unhexStr(t[i+1])})
				}
				w.QueueOperator(src, ts, false)
			case "ct":
				c := CtSpec{Eth: t[2] == "1", BadJSON: t[4] == "0", Src: parseAddr(t[5]), GasLimit: unhexStr(t[7]), Value: unhexStr(t[8])}
				if c.Eth && t[3] == "0" {
					c.NonceOff = 1
				}
				if t[6] != "-" {
					a := parseAddr(t[6])
					c.Target = &a
					nz, _ := strconv.Atoi(t[9])
					z, _ := strconv.Atoi(t[10])
					c.Input = append(bytesOf(1, nz), bytesOf(0, z)...)
				} else {
					c.InitId, _ = strconv.Atoi(t[11])
				}
				w.QueueContract(c)
			}
		}
	}
}

func bytesOf(b byte, n int) []byte {
	out := make([]byte, n)
	for i := range out {
		out[i] = b
	}
	return out
}

// ---------------------------------------------------------------- searcher

type Found struct {
	Key    string   `json:"key"`
	Desc   string   `json:"desc"`
	Replay []string `json:"replay"`
}

// runSearch executes one transaction per block and checks the property directly on the
// implementation: the sum of all balances must not grow, and may shrink only when the
// transaction locks stake or can reach a SELFDESTRUCT.
var opsPath string

// streamLines returns the op lines [from, to) this process has emitted so far (the ops file is flushed per line):
// the exact, replayable history of a session, including `set`, `cfg` and `refund` lines issued between transactions.
func streamLines(from, to int) []string {
	bs, err := os.ReadFile(opsPath)
	if err != nil {
		return nil
	}
	ls := strings.Split(strings.TrimRight(string(bs), "\n"), "\n")
	if to > len(ls) {
		to = len(ls)
	}
	if from > to {
		from = to
	}
	return append([]string{}, ls[from:to]...)
}

func annotate(w *World, qs []*QTx) {
	for _, q := range qs {
		if q.isCt {
			q.mayBurn = ctMayBurn(w, q)
			q.canUnstake = ctHas(w, q, "ustk")
			q.unstakeSum = ctSum(w, q, "ustk")
			q.canRevert = ctHas(w, q, "rv") || ctHas(w, q, "iv")
		}
	}
}

var attrSeq int

// attribute re-executes a multi-transaction block one transaction at a time on a private copy of the world
// (rebuilt from the session's own op lines) and classifies every transaction's own delta. ok = the per-transaction
// deltas add up to the block's delta, i.e. the transactions did not interact; only then are the per-transaction keys
// used instead of the block-level key.
func attribute(w *World, pre, block []string, blockDelta *big.Int) (keys []string, descs []string, ok bool) {
	attrSeq++
	out2, err := hx.NewOut(fmt.Sprintf("attr-%d.ops", attrSeq%4), fmt.Sprintf("attr-%d.obs", attrSeq%4))
	if err != nil {
		return nil, nil, false
	}
	defer func() {
		out2.Close()
		setCurWorld(w)
		common.SetBlockHeight(w.height)
	}()
	w2 := NewWorld(out2)
	sum := new(big.Int)
	failed := false
	run := func() {
		for _, line := range pre {
			if line == "exec" {
				if r := w2.Exec(); r.Panic != "" {
					failed = true
				}
			} else {
				replayOne(w2, line)
			}
		}
		for _, line := range block {
			switch {
			case line == "exec":
			case strings.HasPrefix(line, "tx "):
				replayOne(w2, line)
				qs := append([]*QTx{}, w2.queue...)
				annotate(w2, qs)
				r := w2.Exec()
				if r.Panic != "" || len(qs) != 1 {
					failed = true
					continue
				}
				d := new(big.Int).Sub(r.WAfter, r.WBefore)
				sum.Add(sum, d)
				if k := classify(qs, r); k != "" {
					keys = append(keys, k)
					descs = append(descs, fmt.Sprintf("balances+escrow+stake changed by %s wei over the transaction (%s): %s", d.String(), r.Statuses, line))
				}
			default:
				replayOne(w2, line)
			}
		}
	}
	if p := hx.Guard(func() string { run(); return "" }); p != "" {
		return nil, nil, false
	}
	return keys, descs, !failed && sum.Cmp(blockDelta) == 0
}

func runSearch(g *Gen, n int, stats map[string]interface{}) {
	w := g.w
	found := map[string]bool{}
	evals := 0
	sess := 0
	var history []string
	evals += searchCorpus(w, found)
	evals += searchUnstake(w, found)
	evals += searchFamilies(g, found)
	evals += authFamily(g, found, []forkPoint{forkPoints[0], forkByLabel("mainnet>=015"), forkByLabel("robin>=026")})
	for evals < n {
		w.univ = universe()
		w.fork = forkPoints[0]
		if sess%2 == 1 {
			w.fork = forkPoints[1+(sess/2)%(len(forkPoints)-1)]
		}
		sess++
		sessionStart := w.out.N
		w.Reset(true)
		history = history[:0]
		withContracts := g.r.Chance(3, 4)
		mark := w.out.N
		_ = mark
		g.setup(withContracts)
		setupLines := snapshotLines(w)
		nb := 10 + g.r.Intn(10)
		for b := 0; b < nb && evals < n; b++ {
			k := g.r.Pick(1, 2, 2, 3)
			w.refreshFlags(w.height+1, w.height)
			blockMark := w.out.N
			for i := 0; i < k; i++ {
				switch {
				case g.r.Chance(1, 6):
					g.minerTx()
				case withContracts && g.r.Chance(3, 5):
					g.contractTx(i == 0)
				default:
					g.operatorTx()
				}
			}
			qs := append([]*QTx{}, w.queue...)
			annotate(w, qs)
			res := w.Exec()
			blockEnd := w.out.N
			evals++
			var lines []string
			for i, q := range qs {
				line := q.line
				if q.isCt {
					gu := uint64(0)
					if i < len(res.GasUsed) {
						gu = res.GasUsed[i]
					}
					line += " " + strconv.FormatUint(gu, 10)
				}
				lines = append(lines, line)
			}
			history = append(history, lines...)
			history = append(history, "exec")
			if res.Panic != "" {
				continue
			}
			d := new(big.Int).Sub(res.WAfter, res.WBefore)
			key := classify(qs, res)
			if key == "" && g.r.Chance(1, 5) {
				// end-of-block path: the wealth must grow by exactly the reward the block escrows
				wb, wa, rw := g.after()
				evals++
				history = append(history, fmt.Sprintf("after %d 0", w.height))
				if new(big.Int).Sub(wa, wb).Cmp(rw) != 0 {
					key = "after-block-wealth-mismatch"
					d = new(big.Int).Sub(new(big.Int).Sub(wa, wb), rw)
				}
			}
			_ = setupLines
			if key != "" && len(qs) > 1 && key != "after-block-wealth-mismatch" {
				// attribute the block's delta to its transactions: a known-finding transaction next to harmless failing
				// ones must yield only the known key, a transaction that itself changes the total keeps its own key
				pk, pd, ok := attribute(w, streamLines(sessionStart, blockMark), streamLines(blockMark, blockEnd), d)
				if ok {
					for i := range pk {
						if !found[pk[i]] {
							found[pk[i]] = true
							f := Found{Key: pk[i], Desc: pd[i], Replay: streamLines(sessionStart, blockEnd)}
							bs, _ := json.Marshal(f)
							fmt.Println("FOUND " + string(bs))
						}
					}
					key = ""
				}
			}
			if key != "" && !found[key] {
				found[key] = true
				f := Found{Key: key, Desc: fmt.Sprintf("balances+escrow+stake changed by %s wei over one block (%s): %s", d.String(), res.Statuses, strings.Join(lines, " | ")),
					Replay: streamLines(sessionStart, w.out.N)}
				bs, _ := json.Marshal(f)
				fmt.Println("FOUND " + string(bs))
			}
		}
	}
	stats["search_evaluations"] = evals
}

// classify is the property oracle for one executed block: "" = fine, otherwise a violation class key.
// Wealth = all balances + escrow + registry stake. A block of transactions (no reward) must not raise it;
// it may lower it only through self-destruct burns (when a SELFDESTRUCT is reachable).
func classify(qs []*QTx, res BlockResult) string {
	d := new(big.Int).Sub(res.WAfter, res.WBefore)
	mayBurn, neg, anyCt, canUnstake, anyMiner, canRevert := false, false, false, false, false, false
	unstakeSum := new(big.Int)
	nodeFees := new(big.Int)
	for i, q := range qs {
		ok := i < len(res.Statuses) && res.Statuses[i] == 's'
		if q.isCt {
			anyCt = true
			if q.mayBurn {
				mayBurn = true
			}
			if q.canUnstake {
				canUnstake = true
				unstakeSum.Add(unstakeSum, q.unstakeSum)
			}
			if q.canRevert || !ok {
				canRevert = true
			}
		}
		if q.feat["negvalue"] && (ok || !res.P002) {
			// a rejected negative-value transaction moves nothing once reverts restore balances (Proposal002)
			neg = true
		}
		if q.feat["miner"] {
			anyMiner = true
		}
		if q.feat["node"] && ok {
			nodeFees.Add(nodeFees, rpg(10))
		}
	}
	failedNode := false
	for i, q := range qs {
		if q.feat["node"] && i < len(res.Statuses) && res.Statuses[i] == 'f' {
			failedNode = true
		}
	}
	switch {
	case d.Sign() > 0:
		switch {
		case !res.P002 && mayBurn && canRevert:
			// below Proposal002Block balance writes bypass the journal; only Suicide's recorded balance is written back
			return "pre002-reverted-selfdestruct-mint"
		case neg:
			return "mint-negative-transferValue"
		case canUnstake && d.Cmp(new(big.Int).Mul(unstakeSum, big.NewInt(4))) <= 0:
			// UNSTAKE escrows at most the requested amount beyond the stake it removes (a few visits per frame tree)
			return "mint-unstake-refund-exceeds-stake"
		case anyCt:
			return "mint-contract-tx"
		case anyMiner:
			return "mint-miner-tx"
		default:
			return "mint-operator-tx"
		}
	case d.Sign() < 0:
		drop := new(big.Int).Neg(d)
		if mayBurn {
			return ""
		}
		if neg {
			return "mint-negative-transferValue" // a negative transfer can also destroy value (|a+v|)
		}
		if nodeFees.Sign() > 0 && drop.Cmp(nodeFees) == 0 {
			return "burn-operator-node-fee"
		}
		if !res.P002 && failedNode && new(big.Int).Mod(drop, rpg(10)).Sign() == 0 {
			// a failed OperatorNode transaction keeps its 10 RPG debit: the revert does not restore balances
			return "pre002-failed-tx-keeps-debit"
		}
		return "burn-unexplained"
	}
	return ""
}

// searchFamilies: a deterministic small-scope family, run before the random search, at every fork point:
// a multi-target transfer whose later target is unaffordable, a value call that reverts, a self-destruct inside a
// reverted frame, a repeated self-destruct with value in between, a failing OperatorNode, a negative transferValue.
func searchFamilies(g *Gen, found map[string]bool) int {
	w := g.w
	n := 0
	for _, fp := range forkPoints {
		w.univ = universe()
		w.fork = fp
		w.Reset(true)
		a, b, k1, k5 := eoas[0], eoas[1], contracts[0], contracts[4]
		w.Set(a, rpg(1000))
		w.Set(k1, rpg(9))
		w.Set(k5, rpg(5))
		gl := "20000000"
		if w.flags.P026 {
			gl = "600000000"
		}
		steps := []func(){
			func() {
				w.QueueOperator(a, []Target{{Key: b.GetHexString(), Amount: "4"}, {Key: eoas[2].GetHexString(), Amount: "5000"}}, false)
			},
			func() {
				w.Code(k1, Script{{Kind: "c", To: b, Val: rpg(1)}, {Kind: "rv"}})
				t := k1
				w.QueueContract(CtSpec{Src: a, Target: &t, GasLimit: gl, Value: "2"})
			},
			func() {
				w.Code(k5, Script{{Kind: "sd", To: b}})
				w.Code(k1, Script{{Kind: "c", To: k5, Val: big.NewInt(0)}, {Kind: "iv"}})
				t := k1
				w.QueueContract(CtSpec{Src: a, Target: &t, GasLimit: gl, Value: "0"})
			},
			func() {
				w.Code(k5, Script{{Kind: "sd", To: k5}})
				w.Code(k1, Script{{Kind: "c", To: k5, Val: big.NewInt(0)}, {Kind: "c", To: k5, Val: rpg(1)}, {Kind: "c", To: k5, Val: big.NewInt(3)}})
				t := k1
				w.QueueContract(CtSpec{Src: a, Target: &t, GasLimit: gl, Value: "0"})
			},
			func() { w.QueueNode(a) },
			func() {
				t := b
				w.QueueContract(CtSpec{Src: a, Target: &t, GasLimit: gl, Value: "-1"})
			},
		}
		for _, st := range steps {
			w.refreshFlags(w.height+1, w.height)
			st()
			qs := append([]*QTx{}, w.queue...)
			for _, q := range qs {
				if q.isCt {
					q.mayBurn = ctMayBurn(w, q)
					q.canUnstake = ctHas(w, q, "ustk")
					q.unstakeSum = ctSum(w, q, "ustk")
					q.canRevert = ctHas(w, q, "rv") || ctHas(w, q, "iv")
				}
			}
			res := w.Exec()
			n++
			if res.Panic != "" {
				continue
			}
			if key := classify(qs, res); key != "" && !found[key] {
				found[key] = true
				d := new(big.Int).Sub(res.WAfter, res.WBefore)
				f := Found{Key: key, Desc: fmt.Sprintf("family at %s: balances+escrow+stake changed by %s wei over one block (%s): %s", fp.label, d.String(), res.Statuses, qs[0].line),
					Replay: snapshotLines(w)}
				js, _ := json.Marshal(f)
				fmt.Println("FOUND " + string(js))
			}
		}
	}
	return n
}

// authFamily: AUTHCALL with value where sponsor (tx origin), authority and invoker contract hold balances on each side
// of the value: sponsor ∈ {< value, = value, > value} × authority ∈ {< , =, >} × value ∈ {0, 1, mid, whole}.
// Emits ordinary op lines (the model follows) and checks the wealth oracle; used by correspondence and searcher.
func authFamily(g *Gen, found map[string]bool, fps []forkPoint) int {
	w := g.w
	n := 0
	for _, fp := range fps {
		for _, val := range []*big.Int{big.NewInt(0), big.NewInt(1), rpg(50), rpg(101)} {
			for si := 0; si < 3; si++ {
				for ai := 0; ai < 3; ai++ {
					w.univ = universe()
					w.fork = fp
					w.Reset(true)
					if !w.flags.P014 {
						continue
					}
					rel := func(i int) *big.Int {
						switch i {
						case 0:
							if val.Sign() == 0 {
								return big.NewInt(0)
							}
							return new(big.Int).Sub(val, big.NewInt(1))
						case 1:
							return new(big.Int).Set(val)
						}
						return new(big.Int).Add(val, rpg(7))
					}
					gl, cost := "20000000", big.NewInt(0)
					if w.flags.P015 {
						cost = new(big.Int).Mul(big.NewInt(20000000), gwei)
					}
					if w.flags.P026 {
						gl = "600000000"
						cost = new(big.Int).Mul(big.NewInt(600000000), gwei)
					}
					src, k, callee := eoas[0], contracts[0], eoas[1]
					// while the EVM runs the sponsor holds what it was given minus the transaction fee (the gas fee is charged
					// afterwards), and the pre-check wants at least gasLimit * price: so "below the value" needs value > gas cost
					sponsor := rel(si)
					if sponsor.Cmp(cost) < 0 {
						sponsor = new(big.Int).Set(cost)
					}
					sponsor.Add(sponsor, big.NewInt(1000000000000000))
					w.Set(src, sponsor)
					w.Set(authorityAddr(), rel(ai))
					w.Set(k, rel((si+ai)%3))
					w.Code(k, Script{{Kind: "ac", To: callee, Val: val}})
					w.refreshFlags(w.height+1, w.height)
					t := k
					w.QueueContract(CtSpec{Src: src, Target: &t, GasLimit: gl, Value: "0"})
					qs := append([]*QTx{}, w.queue...)
					res := w.Exec()
					n++
					if res.Panic != "" || found == nil {
						continue
					}
					if key := classify(qs, res); key != "" && !found[key] {
						found[key] = true
						d := new(big.Int).Sub(res.WAfter, res.WBefore)
						f := Found{Key: key, Desc: fmt.Sprintf("AUTHCALL family at %s: value %s, sponsor %s (after fee and gas), authority %s: balances+escrow+stake changed by %s wei (%s): %s",
							fp.label, val, rel(si), rel(ai), d.String(), res.Statuses, qs[0].line), Replay: snapshotLines(w)}
						js, _ := json.Marshal(f)
						fmt.Println("FOUND " + string(js))
					}
				}
			}
		}
	}
	return n
}

// searchCorpus replays every corpus file, checking the sum after every block.
func searchCorpus(w *World, found map[string]bool) int {
	dir := os.Getenv("VERIF_CORPUS")
	files, _ := filepath.Glob(filepath.Join(dir, "*.ops"))
	sort.Strings(files)
	n := 0
	for _, p := range files {
		bs, err := os.ReadFile(p)
		if err != nil {
			continue
		}
		var sofar []string
		var block []string
		for _, line := range strings.Split(string(bs), "\n") {
			line = strings.TrimSpace(line)
			if line == "" || line[0] == '#' {
				continue
			}
			sofar = append(sofar, line)
			if strings.HasPrefix(line, "tx ") {
				block = append(block, line)
			}
			if line != "exec" {
				replayOne(w, line)
				continue
			}
			qs := append([]*QTx{}, w.queue...)
			for _, q := range qs {
				if q.isCt {
					q.mayBurn = ctMayBurn(w, q)
					q.canUnstake = ctHas(w, q, "ustk")
					q.unstakeSum = ctSum(w, q, "ustk")
					q.canRevert = ctHas(w, q, "rv") || ctHas(w, q, "iv")
				}
			}
			res := w.Exec()
			n++
			if res.Panic != "" {
				block = nil
				continue
			}
			d := new(big.Int).Sub(res.WAfter, res.WBefore)
			key := classify(qs, res)
			if key != "" && !found[key] {
				found[key] = true
				f := Found{Key: key, Desc: fmt.Sprintf("corpus %s: balances+escrow+stake changed by %s wei over one block (%s): %s",
					filepath.Base(p), d.String(), res.Statuses, strings.Join(block, " | ")), Replay: append([]string{}, sofar...)}
				js, _ := json.Marshal(f)
				fmt.Println("FOUND " + string(js))
			}
			block = nil
		}
	}
	return n
}

// ctSum adds the values of the reachable actions of one kind (each script counted once).
func ctSum(w *World, q *QTx, kind string) *big.Int {
	t := strings.Fields(q.line)
	sum := new(big.Int)
	seen := map[string]bool{}
	var walk func(s Script)
	walk = func(s Script) {
		for _, a := range s {
			if a.Kind == kind && a.Val != nil {
				sum.Add(sum, a.Val)
			}
			switch a.Kind {
			case "c", "cc", "dc", "sc", "ac":
				if k := hexAddr(a.To); !seen[k] {
					seen[k] = true
					walk(w.codes[a.To])
				}
			case "cr":
				if k := fmt.Sprintf("init%d", a.Init); !seen[k] {
					seen[k] = true
					walk(w.inits[a.Init])
				}
			}
		}
	}
	if t[6] != "-" {
		walk(w.codes[parseAddr(t[6])])
	} else {
		id, _ := strconv.Atoi(t[11])
		walk(w.inits[id])
	}
	return sum
}

func ctHas(w *World, q *QTx, kind string) bool {
	t := strings.Fields(q.line)
	seen := map[string]bool{}
	if t[6] != "-" {
		return w.scriptHas(w.codes[parseAddr(t[6])], kind, seen)
	}
	id, _ := strconv.Atoi(t[11])
	return w.scriptHas(w.inits[id], kind, seen)
}

func ctMayBurn(w *World, q *QTx) bool {
	t := strings.Fields(q.line)
	seen := map[string]bool{}
	if t[6] != "-" {
		return w.scriptMayBurn(w.codes[parseAddr(t[6])], seen)
	}
	id, _ := strconv.Atoi(t[11])
	return w.scriptMayBurn(w.inits[id], seen)
}

// snapshotLines renders the current world as op lines (for a self-contained replay).
func snapshotLines(w *World) []string {
	var ls []string
	ls = append(ls, "reset")
	ls = append(ls, fmt.Sprintf("cfg %d %d %d %d %d %d %d %d %s", w.fork.height, b2i(w.flags.P002), b2i(w.flags.P015), b2i(w.flags.P017), b2i(w.flags.P018), b2i(w.flags.P026), b2i(w.flags.P027), b2i(w.flags.P014), w.fork.label))
	u := []string{"univ"}
	for _, a := range w.univ {
		u = append(u, hexAddr(a))
	}
	ls = append(ls, strings.Join(u, " "))
	for _, a := range w.univ {
		if b := w.adb.GetBalance(a); b.Sign() != 0 {
			ls = append(ls, fmt.Sprintf("set %s %s", hexAddr(a), b.String()))
		}
	}
	ids := make([]int, 0, len(w.inits))
	for id := range w.inits {
		ids = append(ids, id)
	}
	sort.Ints(ids)
	for _, id := range ids {
		ls = append(ls, fmt.Sprintf("init %d %s", id, w.inits[id].String()))
	}
	for i := len(contracts) - 1; i >= 0; i-- {
		if s, ok := w.codes[contracts[i]]; ok {
			ls = append(ls, fmt.Sprintf("code %s %s", hexAddr(contracts[i]), s.String()))
		}
	}
	return ls
}
