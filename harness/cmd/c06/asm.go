package main

// Frame-skeleton scripts and their compilation to EVM bytecode. The textual form
// (String) is what the Lean driver parses; Assemble is what the real EVM runs.

import (
	"encoding/binary"
	"fmt"
	"math/big"
	"strings"

	"com.tuntun.rangers/node/src/common"
)

type Act struct {
	Kind string // c cc dc sc cr sd ac rv iv st
	To   common.Address
	Val  *big.Int
	Init int  // init script id for cr
	Salt bool // use CREATE2 (same ledger behaviour)
}

type Script []Act

func hexAddr(a common.Address) string { return fmt.Sprintf("%x", a[:]) }

func (s Script) String() string {
	if len(s) == 0 {
		return "-"
	}
	parts := make([]string, 0, len(s))
	for _, a := range s {
		switch a.Kind {
		case "stk", "ustk":
			parts = append(parts, fmt.Sprintf("%s:%s", a.Kind, a.Val.String()))
		case "c", "cc", "ac":
			parts = append(parts, fmt.Sprintf("%s:%s:%s", a.Kind, hexAddr(a.To), a.Val.String()))
		case "dc", "sc", "sd":
			parts = append(parts, fmt.Sprintf("%s:%s", a.Kind, hexAddr(a.To)))
		case "cr":
			k := "cr"
			if a.Salt {
				k = "cr2"
			}
			parts = append(parts, fmt.Sprintf("%s:%s:%d", k, a.Val.String(), a.Init))
		default:
			parts = append(parts, a.Kind)
		}
	}
	return strings.Join(parts, ",")
}

// HasSelfDestructToSelf reports whether the script (run as self) or anything it can reach may burn value.
// Conservative: any SELFDESTRUCT anywhere in reach counts when exact=false.
func push32(v *big.Int) []byte {
	b := make([]byte, 33)
	b[0] = 0x7f
	vb := v.Bytes()
	copy(b[33-len(vb):], vb)
	return b
}

func push20(a common.Address) []byte { return append([]byte{0x73}, a[:]...) }

func push2(n int) []byte {
	b := []byte{0x61, 0, 0}
	binary.BigEndian.PutUint16(b[1:], uint16(n))
	return b
}

// Assemble compiles a script; inits resolves creation-code ids. The AUTHCALL prologue
// (authorisation blob in memory + AUTH) is emitted by the caller through authPrologue.
// Every CALL-family instruction forwards an explicit gas budget sized for the callee's worst case
// (budget), so that an INVALID in a callee burns only that budget and cannot starve its siblings:
// gas metering is outside the ledger model.
func Assemble(s Script, inits map[int]Script, auth *authInfo) []byte {
	return assemble(s, inits, auth, nil)
}

func push4(n uint64) []byte {
	return []byte{0x63, byte(n >> 24), byte(n >> 16), byte(n >> 8), byte(n)}
}

func assemble(s Script, inits map[int]Script, auth *authInfo, budget func(to common.Address) uint64) []byte {
	gasPush := func(to common.Address) []byte {
		if budget == nil {
			return []byte{0x5a}
		}
		return push4(budget(to))
	}
	type fix struct{ pos, blob int }
	var body []byte
	var blobs [][]byte
	var fixes []fix
	authDone := false
	for _, a := range s {
		switch a.Kind {
		case "c", "cc":
			body = append(body, 0x60, 0, 0x60, 0, 0x60, 0, 0x60, 0)
			body = append(body, push32(a.Val)...)
			body = append(body, push20(a.To)...)
			op := byte(0xf1)
			if a.Kind == "cc" {
				op = 0xf2
			}
			body = append(body, gasPush(a.To)...)
			body = append(body, op, 0x50)
		case "dc", "sc":
			body = append(body, 0x60, 0, 0x60, 0, 0x60, 0, 0x60, 0)
			body = append(body, push20(a.To)...)
			op := byte(0xf4)
			if a.Kind == "sc" {
				op = 0xfa
			}
			body = append(body, gasPush(a.To)...)
			body = append(body, op, 0x50)
		case "cr":
			blob := assemble(inits[a.Init], inits, auth, budget)
			if len(blob) == 0 {
				blob = []byte{0x00}
			}
			blobs = append(blobs, blob)
			bi := len(blobs) - 1
			// CODECOPY(dest=0, offset=<fix>, size)
			body = append(body, push2(len(blob))...)
			fixes = append(fixes, fix{len(body) + 1, bi})
			body = append(body, push2(0)...)
			body = append(body, 0x60, 0, 0x39)
			if a.Salt {
				// salt = ++storage[0] of the creating account: the same code run twice never reuses a salt
				body = append(body, 0x60, 0, 0x54, 0x60, 1, 0x01, 0x80, 0x60, 0, 0x55)
				body = append(body, push2(len(blob))...)
				body = append(body, 0x60, 0)
				body = append(body, push32(a.Val)...)
				body = append(body, 0xf5, 0x50)
			} else {
				body = append(body, push2(len(blob))...)
				body = append(body, 0x60, 0)
				body = append(body, push32(a.Val)...)
				body = append(body, 0xf0, 0x50)
			}
		case "sd":
			body = append(body, push20(a.To)...)
			body = append(body, 0xff)
		case "ac":
			if !authDone {
				// AUTH right before the first AUTHCALL (before Proposal014 both are invalid opcodes: the frame
				// fails exactly where the model's `.authcall` does)
				body = append(body, auth.prologue()...)
				authDone = true
			}
			body = append(body, auth.call(a.To, a.Val)...)
		case "stk", "ustk":
			// STAKE / UNSTAKE (pointer = ADDRESS, value)
			body = append(body, 0x30)
			body = append(body, push32(a.Val)...)
			op := byte(0xee)
			if a.Kind == "ustk" {
				op = 0xef
			}
			body = append(body, op, 0x50)
		case "usa":
			body = append(body, 0x30, 0xeb, 0x50)
		case "rv":
			body = append(body, 0x60, 0, 0x60, 0, 0xfd)
		case "iv":
			body = append(body, 0xfe)
		case "st":
			body = append(body, 0x00)
		default:
			panic("asm: unknown action " + a.Kind)
		}
	}
	body = append(body, 0x00)
	off := len(body)
	offs := make([]int, len(blobs))
	for i, b := range blobs {
		offs[i] = off
		off += len(b)
	}
	for _, f := range fixes {
		binary.BigEndian.PutUint16(body[f.pos:], uint16(offs[f.blob]))
	}
	for _, b := range blobs {
		body = append(body, b...)
	}
	if len(body) > 60000 {
		panic("asm: code too large")
	}
	return body
}

// authInfo carries what an AUTH/AUTHCALL sequence needs (filled in by auth.go).
type authInfo struct {
	prologue func() []byte
	call     func(to common.Address, v *big.Int) []byte
}
