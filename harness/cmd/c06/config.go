package main

// Fork configurations: the main-net and robin proposal schedules (src/common/version.go; tied by the
// T-gen constants) at heights on both sides of every proposal the ledger paths test, besides the dev schedule.

import (
	"encoding/json"
	"fmt"
	"math"
	"sync"

	"com.tuntun.rangers/node/src/common"
)

type schedule struct {
	name string
	p    [28]uint64 // p[n] = ProposalNNNBlock
}

var mainnetSchedule = schedule{"mainnet", [28]uint64{0, 894116, 3353000, 3830000, 5310000, 10293600, 16733000, 16082000, 16082000, 16733000,
	math.MaxUint64, 11750354, 22815000, 28998000, 48081000, 53015000, 54038500, 54038500, 55959500, math.MaxUint64, 61794000, 61202000,
	62606000, 63100000, 62575384, math.MaxUint64 /* 025 kept off: needs the block chain */, 64666400, 69329000}}

var robinSchedule = schedule{"robin", [28]uint64{0, 0, 2802000, 3380000, 5310000, 10003000, 12582000, 14261000, 16058000, 16740000,
	19632000, math.MaxUint64, 23120000, 29063000, 0, 61205000, 62320000, 62997000, 65795000, 66114000, 75248100, 74312000,
	76005000, 77826000, 0, math.MaxUint64 /* 025 kept off */, 79365500, 84150000}}

type forkPoint struct {
	sched  *schedule // nil = dev schedule as booted
	height uint64
	label  string
}

// heights on both sides of Proposal 002 (journaling of balance writes), 015 (gas fee), 017 (gas-limit default),
// 018 (eviction), 026 (fee amount, gas magnification), 027 (gas deduction of failed transactions).
var devSchedule = schedule{"dev", [28]uint64{0, 0, 0, 0, 0, 0, 0, 0, 0, 0, 0, 0, 0, 0, 0, 0, 0, 0, 0, 0, 10, 0, 0, 12, 0, 1000000000, 0, 0}}

var forkPoints = []forkPoint{
	{nil, 100, "dev"},
	{&mainnetSchedule, 3000000, "mainnet<002"},
	{&mainnetSchedule, 3500000, "mainnet>=002"},
	{&mainnetSchedule, 30000000, "mainnet<014"}, // 012 on (refund heights need no group chain), 014 off: no stake / auth opcodes
	{&mainnetSchedule, 48081000 - 2, "mainnet@014"},
	{&mainnetSchedule, 53500000, "mainnet>=015"},
	{&mainnetSchedule, 55000000, "mainnet>=017"},
	{&mainnetSchedule, 62000000, "mainnet>=021"},
	{&mainnetSchedule, 65000000, "mainnet>=026"},
	{&mainnetSchedule, 70000000, "mainnet>=027"},
	{&robinSchedule, 2700000, "robin<002"},
	{&robinSchedule, 3000000, "robin>=002"},
	{&robinSchedule, 61500000, "robin>=015"},
	{&robinSchedule, 63500000, "robin>=017"},
	{&robinSchedule, 75000000, "robin>=021"},
	{&robinSchedule, 80000000, "robin>=026"},
	{&robinSchedule, 85000000, "robin>=027"},
	// two blocks before the exact proposal heights: the session crosses the boundary block by block
	{&mainnetSchedule, 3353000 - 2, "mainnet@002"},
	{&mainnetSchedule, 53015000 - 2, "mainnet@015"},
	{&mainnetSchedule, 54038500 - 2, "mainnet@017"},
	{&mainnetSchedule, 64666400 - 2, "mainnet@026"},
	{&mainnetSchedule, 69329000 - 2, "mainnet@027"},
	{&robinSchedule, 2802000 - 2, "robin@002"},
	{&robinSchedule, 61205000 - 2, "robin@015"},
	{&robinSchedule, 79365500 - 2, "robin@026"},
	{&robinSchedule, 84150000 - 2, "robin@027"},
}

// independentFlags computes the flag vector from the harness's own copy of the schedule (not through
// common.IsProposalNNN): the code's answers are checked against it on every block.
func independentFlags(fp forkPoint, h uint64) Flags {
	sc := fp.sched
	if sc == nil {
		sc = &devSchedule
	}
	on := func(n int) bool { return h >= sc.p[n] }
	return Flags{on(2), on(12), on(14), on(15), on(17), on(18), on(21), on(26), on(27)}
}

// harnessViolations collects property-level failures the harness itself can see (reported in STATS and as FOUND lines).
var harnessViolations []Found

func reportViolation(key, desc string, replay []string) {
	forkMu.Lock()
	defer forkMu.Unlock()
	for _, v := range harnessViolations {
		if v.Key == key {
			return
		}
	}
	f := Found{Key: key, Desc: desc, Replay: replay}
	harnessViolations = append(harnessViolations, f)
	js, _ := json.Marshal(f)
	fmt.Println("FOUND " + string(js))
}

var devConfig common.ChainConfig
var devConfigSaved bool

type Flags struct {
	P002, P012, P014, P015, P017, P018, P021, P026, P027 bool
}

func (w *World) SetFork(fp forkPoint) {
	w.applyFork(fp)
	w.out.Emit(fmt.Sprintf("cfg %d %d %d %d %d %d %d %d %s", fp.height, b2i(w.flags.P002), b2i(w.flags.P015), b2i(w.flags.P017), b2i(w.flags.P018),
		b2i(w.flags.P026), b2i(w.flags.P027), b2i(w.flags.P014), fp.label), "ok")
}

var forkMu sync.Mutex
var appliedSched string

func (w *World) applyFork(fp forkPoint) {
	forkMu.Lock()
	defer forkMu.Unlock()
	if !devConfigSaved {
		devConfig = common.LocalChainConfig
		devConfigSaved = true
	}
	c := devConfig
	if fp.sched != nil {
		p := fp.sched.p
		c.Proposal001Block, c.Proposal002Block, c.Proposal003Block, c.Proposal004Block, c.Proposal005Block = p[1], p[2], p[3], p[4], p[5]
		c.Proposal006Block, c.Proposal007Block, c.Proposal008Block, c.Proposal009Block, c.Proposal010Block = p[6], p[7], p[8], p[9], p[10]
		c.Proposal011Block, c.Proposal012Block, c.Proposal013Block, c.Proposal014Block, c.Proposal015Block = p[11], p[12], p[13], p[14], p[15]
		c.Proposal016Block, c.Proposal017Block, c.Proposal018Block, c.Proposal019Block, c.Proposal020Block = p[16], p[17], p[18], p[19], p[20]
		c.Proposal021Block, c.Proposal022Block, c.Proposal023Block, c.Proposal024Block, c.Proposal025Block = p[21], p[22], p[23], p[24], p[25]
		c.Proposal026Block, c.Proposal027Block = p[26], p[27]
	}
	name := "dev"
	if fp.sched != nil {
		name = fp.sched.name
	}
	if appliedSched != name { // concurrent worlds on one schedule must not rewrite the global
		common.LocalChainConfig = c
		appliedSched = name
	}
	w.height = fp.height
	common.SetBlockHeight(fp.height)
	w.fork = fp
	// the flag vector is what the code itself answers at this height
	w.flags = Flags{common.IsProposal002(), common.IsProposal012(), fp.height >= c.Proposal014Block, common.IsProposal015(), common.IsProposal017(),
		common.IsProposal018(), common.IsProposal021(), common.IsProposal026(), common.IsProposal027()}
}

// silentFork re-applies the current fork point without emitting a line (replays emit their own `cfg`).
func (w *World) silentFork() {
	if w.fork.label == "" {
		w.fork = forkPoints[0]
	}
	n := w.out.N
	_ = n
	fp := w.fork
	if !devConfigSaved {
		devConfig = common.LocalChainConfig
		devConfigSaved = true
	}
	w.applyFork(fp)
}

func forkByLabel(l string) forkPoint {
	for _, fp := range forkPoints {
		if fp.label == l {
			return fp
		}
	}
	return forkPoints[0]
}

// intrinsic gas of a contract transaction under the current flags (what executor.IntrinsicGas computes)
func (w *World) intrinsic(input []byte, create bool) uint64 {
	g := uint64(21000)
	if create {
		g = 53000
	}
	for _, b := range input {
		if b != 0 {
			g += 16
		} else {
			g += 4
		}
	}
	if w.flags.P026 {
		g *= 30
	}
	return g
}

func (w *World) maxCost() int {
	if !w.flags.P015 {
		return 50 // the gas limit is a fixed 6M before Proposal015
	}
	return maxScriptCost
}

// refreshFlags re-reads the fork flags at the height about to be executed; when a session crosses a proposal
// height (the `after` blocks jump to reward heights) the model is told with a new `cfg` line.
// prev = the height the driver should hold before the next block (`exec` adds one, `after` sets its own).
func (w *World) refreshFlags(next uint64, prev uint64) {
	common.SetBlockHeight(next)
	c := common.LocalChainConfig
	nf := Flags{common.IsProposal002(), common.IsProposal012(), next >= c.Proposal014Block, common.IsProposal015(), common.IsProposal017(),
		common.IsProposal018(), common.IsProposal021(), common.IsProposal026(), common.IsProposal027()}
	if ind := independentFlags(w.fork, next); ind != nf {
		reportViolation("fork-flag-mismatch", fmt.Sprintf("%s height %d: common.IsProposalNNN() answers %+v, the schedule says %+v", w.fork.label, next, nf, ind), nil)
	}
	if nf != w.flags {
		w.flags = nf
		w.out.Emit(fmt.Sprintf("cfg %d %d %d %d %d %d %d %d %s", prev, b2i(nf.P002), b2i(nf.P015), b2i(nf.P017), b2i(nf.P018),
			b2i(nf.P026), b2i(nf.P027), b2i(nf.P014), w.fork.label), "ok")
	}
}
