package main

// Direct property probe for the stake opcodes (not part of the model): a contract that is the account of a
// miner executes UNSTAKE(self, amount). The stake recorded for the miner must drop by what is escrowed for
// refund ("stake refunds, each by exactly the amount involved"); the escrow is paid out by CheckAndMove at
// height + 36000 (Proposal012) and then shows up in the sum of all balances.

import (
	"encoding/json"
	"fmt"
	"math/big"

	"com.tuntun.rangers/node/src/common"
	"com.tuntun.rangers/node/src/middleware/types"
	"com.tuntun.rangers/node/src/service"
)

func unstakeCode(self common.Address, amount *big.Int) []byte {
	var b []byte
	b = append(b, push20(self)...)   // pointer address (popped second)
	b = append(b, push32(amount)...) // value (popped first)
	b = append(b, 0xef, 0x50, 0x00)  // UNSTAKE POP STOP
	return b
}

type unstakeCase struct {
	name   string
	amount *big.Int
}

func searchUnstake(w *World, found map[string]bool) int {
	half := new(big.Int).Div(oneRPG, big.NewInt(2))
	cases := []unstakeCase{
		{"1 RPG (exact)", rpg(1)},
		{"0.5 RPG", half},
		{"1.9 RPG", new(big.Int).Add(rpg(1), new(big.Int).Mul(big.NewInt(9), new(big.Int).Div(oneRPG, big.NewInt(10))))},
		{"3 RPG", rpg(3)},
	}
	n := 0
	for _, c := range cases {
		w.univ = universe()
		w.Reset(true)
		src, k := eoas[0], contracts[0]
		w.Set(src, rpg(5000))
		// miner whose account is the contract k, paid for by src
		m := types.Miner{Id: []byte("verif-c06-unstake-miner-000000001"), PublicKey: []byte{1}, VrfPublicKey: []byte{2},
			Type: common.MinerTypeProposer, Stake: 2500, Account: k[:]}
		bs, _ := json.Marshal(m)
		tx := w.nextTx(&types.Transaction{Source: src.GetHexString(), Type: types.TransactionTypeMinerApply, Data: string(bs)})
		w.queue = append(w.queue, &QTx{line: fmt.Sprintf("tx lock %s 2500 1", hexAddr(src)), tx: tx, feat: map[string]bool{"lock": true}, locked: rpg(2500)})
		r0 := w.Exec()
		if r0.Statuses != "s" {
			continue
		}
		w.adb.SetCode(k, unstakeCode(k, c.amount))
		stakeBefore := service.MinerManagerImpl.GetMiner(m.Id, w.adb).Stake
		t := k
		w.QueueContract(CtSpec{Src: src, Target: &t, GasLimit: "100000000", Value: "0"})
		q := w.queue[len(w.queue)-1]
		h := w.height + 1
		w.escrowHeights[h+36000] = true
		res := w.Exec()
		n++
		if res.Panic != "" || res.Statuses != "s" {
			continue
		}
		mi := service.MinerManagerImpl.GetMiner(m.Id, w.adb)
		stakeAfter := uint64(0)
		if mi != nil {
			stakeAfter = mi.Stake
		}
		stakeDrop := new(big.Int).Mul(new(big.Int).SetUint64(stakeBefore-stakeAfter), oneRPG)
		escrowed := w.escrowTotal()
		before := w.Total()
		w.After(h+36000, []byte{0xca, 0x57})
		paid := new(big.Int).Sub(w.Total(), before)
		if escrowed.Cmp(stakeDrop) > 0 {
			key := "mint-unstake-refund-exceeds-stake"
			if !found[key] {
				found[key] = true
				f := Found{Key: key, Desc: fmt.Sprintf("UNSTAKE(self, %s) by the contract account of a proposer with stake %d: recorded stake drops by %d RPG, but %s wei are escrowed for refund and %s wei are paid out at height+36000 (tx: %s)",
					c.name, stakeBefore, stakeBefore-stakeAfter, escrowed.String(), paid.String(), q.line),
					Replay: []string{"# go-only scenario: harness/cmd/c06/stakeop.go searchUnstake, amount " + c.amount.String()}}
				js, _ := json.Marshal(f)
				fmt.Println("FOUND " + string(js))
			}
		}
	}
	return n
}
