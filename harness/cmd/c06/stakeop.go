package main

// Direct property probe for UNSTAKE: a contract that is the account of a miner executes UNSTAKE(self, amount).
// The stake recorded for the miner must drop by what is escrowed for refund ("stake refunds, each by exactly the
// amount involved"); the escrow is paid out by CheckAndMove at height + 36000 (Proposal012).

import (
	"encoding/json"
	"fmt"
	"math/big"

	"com.tuntun.rangers/node/src/common"
	"com.tuntun.rangers/node/src/service"
)

func searchUnstake(w *World, found map[string]bool) int {
	half := new(big.Int).Div(oneRPG, big.NewInt(2))
	cases := []*big.Int{rpg(1), half, new(big.Int).Add(rpg(1), new(big.Int).Mul(big.NewInt(9), new(big.Int).Div(oneRPG, big.NewInt(10)))), rpg(3)}
	n := 0
	for _, amount := range cases {
		w.univ = universe()
		w.fork = forkPoints[0]
		w.Reset(true)
		src, k := eoas[0], contracts[0]
		w.Set(src, rpg(5000))
		w.Code(k, Script{{Kind: "ustk", Val: amount}})
		w.minerSeq++
		seq := w.minerSeq
		w.QueueApply(src, seq, common.MinerTypeProposer, 2500, k, true)
		if r0 := w.Exec(); r0.Statuses != "s" {
			continue
		}
		stakeBefore := service.MinerManagerImpl.GetMiner(minerID(seq), w.adb).Stake
		t := k
		w.QueueContract(CtSpec{Src: src, Target: &t, GasLimit: "100000000", Value: "0"})
		q := w.queue[len(w.queue)-1]
		eb := w.escrowTotal()
		res := w.Exec()
		n++
		if res.Panic != "" || res.Statuses != "s" {
			continue
		}
		stakeAfter := uint64(0)
		if mi := service.MinerManagerImpl.GetMiner(minerID(seq), w.adb); mi != nil {
			stakeAfter = mi.Stake
		}
		stakeDrop := new(big.Int).Mul(new(big.Int).SetUint64(stakeBefore-stakeAfter), oneRPG)
		escrowed := new(big.Int).Sub(w.escrowTotal(), eb)
		before := w.Total()
		w.After(w.height+36000, []byte{0xca, 0x57})
		paid := new(big.Int).Sub(w.Total(), before)
		if escrowed.Cmp(stakeDrop) > 0 {
			key := "mint-unstake-refund-exceeds-stake"
			if !found[key] {
				found[key] = true
				f := Found{Key: key, Desc: fmt.Sprintf("UNSTAKE(self, %s wei) by the contract account of a proposer with stake %d: recorded stake drops by %d RPG, but %s wei are escrowed for refund; %s wei are paid out at height+36000 (tx: %s)",
					amount.String(), stakeBefore, stakeBefore-stakeAfter, escrowed.String(), paid.String(), q.line),
					Replay: snapshotLines(w)}
				js, _ := json.Marshal(f)
				fmt.Println("FOUND " + string(js))
			}
		}
	}
	return n
}
