package main

// Generators: structured, boundary-biased, everything random from VERIF_SEED.

import (
	"fmt"
	"math/big"
	"strconv"
	"strings"

	"com.tuntun.rangers/node/src/common"
	"com.tuntun.rangers/node/src/service"
	"com.tuntun.rangers/node/src/utility"
	"verif/harness/hx"
)

var (
	eoas      []common.Address
	contracts []common.Address
	outsiders []common.Address
	oneRPG    = new(big.Int).Exp(big.NewInt(10), big.NewInt(18), nil)
	gwei      = big.NewInt(1000000000)
)

func init() {
	for i := 1; i <= 8; i++ {
		eoas = append(eoas, common.HexToAddress(fmt.Sprintf("0x%040x", 0xe0a0000+i)))
	}
	for i := 1; i <= 5; i++ {
		contracts = append(contracts, common.HexToAddress(fmt.Sprintf("0xc0de%036x", i)))
	}
	for i := 1; i <= 2; i++ {
		outsiders = append(outsiders, common.HexToAddress(fmt.Sprintf("0x0d%038x", i)))
	}
}

func universe() []common.Address {
	u := append([]common.Address{}, eoas...)
	u = append(u, contracts...)
	u = append(u, outsiders...)
	u = append(u, common.FeeAccount, rpgAddr, authorityAddr())
	return u
}

type Gen struct {
	r      *hx.Rng
	w      *World
	search bool // searcher mode: no model to agree with, order-dependent inputs are allowed
}

func rpg(n int64) *big.Int { return new(big.Int).Mul(big.NewInt(n), oneRPG) }

// startBalance: boundary-biased initial balances.
func (g *Gen) startBalance() *big.Int {
	switch g.r.Intn(10) {
	case 0:
		return big.NewInt(0)
	case 1:
		return big.NewInt(1)
	case 2:
		return new(big.Int).Set(big.NewInt(1000000000000000)) // exactly the tx fee
	case 3:
		return big.NewInt(999999999999999) // fee - 1
	case 4:
		return rpg(1)
	case 5:
		v, _ := utility.StrToBigInt([]string{"0.031", "0.0011", "0.0015", "0.002"}[g.r.Intn(4)])
		return v
	case 6:
		return rpg(int64(1 + g.r.Intn(50)))
	case 7:
		return new(big.Int).Add(rpg(int64(g.r.Intn(5))), new(big.Int).SetUint64(g.r.U64()%1000000000000000000))
	default:
		return rpg(int64(100 + g.r.Intn(2000)))
	}
}

func (g *Gen) pickAddr() common.Address {
	u := g.w.univ
	return u[g.r.Intn(len(u))]
}

func (g *Gen) pickEOA() common.Address { return eoas[g.r.Intn(len(eoas))] }

// pickSource: any address of the universe except the AUTH authority. The authority's account nonce is baked into the
// AUTHCALL code before every block (the model takes the authorisation as valid); a transaction sent by the authority
// itself would bump that nonce inside the block and make the AUTHCALL answer "nonce too low".
func (g *Gen) pickSource() common.Address {
	for {
		a := g.pickAddr()
		if a != authorityAddr() {
			return a
		}
	}
}

// mixCase renders an address key the way a user might: 0x prefix or not, mixed case.
func (g *Gen) addrKey(a common.Address) string {
	s := fmt.Sprintf("%x", a[:])
	switch g.r.Intn(4) {
	case 0:
		s = strings.ToUpper(s)
	case 1:
		bs := []byte(s)
		for i := range bs {
			if g.r.Bool() {
				bs[i] = strings.ToUpper(string(bs[i]))[0]
			}
		}
		s = string(bs)
	}
	return "0x" + s
}

// decStr renders wei as a decimal RPG string with up to 18 fractional digits, no trailing zeros.
func decStr(v *big.Int) string {
	s := utility.BigIntToStr(v)
	if strings.Contains(s, ".") {
		s = strings.TrimRight(s, "0")
		s = strings.TrimSuffix(s, ".")
	}
	return s
}

// amountNear returns an amount string relative to a balance (boundaries: equal, ±1 wei, half, double).
func (g *Gen) amountNear(bal *big.Int) string {
	one := big.NewInt(1)
	switch g.r.Intn(8) {
	case 0:
		return decStr(bal)
	case 1:
		return decStr(new(big.Int).Add(bal, one))
	case 2:
		if bal.Sign() > 0 {
			return decStr(new(big.Int).Sub(bal, one))
		}
		return "0"
	case 3:
		return decStr(new(big.Int).Div(bal, big.NewInt(2)))
	case 4:
		return decStr(new(big.Int).Mul(bal, big.NewInt(2)))
	case 5:
		return decStr(new(big.Int).Div(bal, big.NewInt(int64(3+g.r.Intn(5)))))
	case 6:
		return decStr(new(big.Int).Mod(new(big.Int).SetUint64(g.r.U64()), new(big.Int).Add(bal, one)))
	default:
		return fmt.Sprintf("%d", g.r.Intn(20))
	}
}

var oddAmounts = []string{
	"", "0", "0.0", "-0", "+0", "1", "+1", "-1", "-5", "-0.5", "-0.0000000000000000001", "0.0000000000000000019",
	"0.000000000000000001", "1.0000000000000000009", "0.1234567890123456789012345", ".5", "5.", "+.5", "-.5", "1e0", "1e1", "1E2",
	"1e-3", "25e-1", "1e-18", "1e-19", "9e-19", "1e18", "1e30", "1e40", "123456789012345678901234567890", "000012", "00.50",
	"Inf", "inf", "+Inf", "-Inf", "-inf", "+inf",
	// rejected by big.Float.Parse
	"abc", "1..2", " 1", "1 ", "0x10", "1_000", "1e", "e5", ".", "+", "-", "NaN", "Infinity", "1e+", "--1", "1,5", "１", "1e1.5", "+-1",
}

// binary exponent, long mantissa, large exponents: formerly outside the modelled domain
var outsideAmounts = []string{"1p3", "1P-2", "1e41", "1e-41", "1e400", "1e1000", "12345678901234567890123456789012345678901", "1e0001", "1e-1000", "0.5p1", "1e20000", "1e99999999999", "-1p-70", "123456789012345678901234567890123456789012345678901234567890123456789012345678901234567890e-80"}

func (g *Gen) amount(bal *big.Int) string {
	switch g.r.Intn(10) {
	case 0:
		return oddAmounts[g.r.Intn(len(oddAmounts))]
	case 1:
		if g.r.Chance(1, 3) {
			return outsideAmounts[g.r.Intn(len(outsideAmounts))]
		}
		return oddAmounts[g.r.Intn(len(oddAmounts))]
	case 2:
		// more than 18 decimals
		return fmt.Sprintf("%d.%018d%d", g.r.Intn(3), g.r.U64()%1000000000000000000, g.r.Intn(1000))
	default:
		return g.amountNear(bal)
	}
}

// inModelDomain: every string is evaluated by the model now (C18's exact big.Float semantics); kept as a
// hook for generators, always true.
func inModelDomain(s string) bool { return true }

// ---- scripts

func (g *Gen) smallValue(self common.Address) *big.Int {
	bal := g.w.adb.GetBalance(self)
	switch g.r.Intn(7) {
	case 0:
		return big.NewInt(0)
	case 1:
		return big.NewInt(1)
	case 2:
		return new(big.Int).Set(bal)
	case 3:
		return new(big.Int).Add(bal, big.NewInt(1))
	case 4:
		return new(big.Int).Div(bal, big.NewInt(2))
	case 5:
		return new(big.Int).Div(bal, big.NewInt(int64(3+g.r.Intn(4))))
	default:
		return rpg(int64(g.r.Intn(3)))
	}
}

// script for contract index ci (may reference only higher-indexed contracts: no recursion) or for
// an init script (ci = -1: may reference any contract). maxInit = ids below this may be created.
func (g *Gen) script(ci int, self common.Address, maxInit int, isInit bool) Script {
	n := g.r.Intn(5)
	var s Script
	callee := func() common.Address {
		if g.r.Chance(3, 5) && ci+1 < len(contracts) {
			return contracts[ci+1+g.r.Intn(len(contracts)-ci-1)]
		}
		switch g.r.Intn(6) {
		case 0:
			return outsiders[g.r.Intn(len(outsiders))]
		case 1:
			return common.FeeAccount
		default:
			return g.pickEOA()
		}
	}
	for i := 0; i < n; i++ {
		switch g.r.Intn(12) {
		case 0, 1, 2, 3:
			s = append(s, Act{Kind: "c", To: callee(), Val: g.smallValue(self)})
		case 4:
			s = append(s, Act{Kind: "cc", To: callee(), Val: g.smallValue(self)})
		case 5:
			s = append(s, Act{Kind: "dc", To: callee()})
		case 6:
			s = append(s, Act{Kind: "sc", To: callee()})
		case 7, 8:
			if maxInit > 0 {
				v := g.smallValue(self)
				if !g.w.flags.P002 {
					// Below Proposal002 balance writes are not journaled while nonces and the CREATE2 salt slot are:
					// a reverted creation leaves its endowment at an address the next creation derives again.
					// The model numbers created addresses freshly, so no generated creation carries value there
					// (design/C06.md, "Not covered"; found by VERIF_SEED=23 thorough).
					v = new(big.Int)
				}
				s = append(s, Act{Kind: "cr", Val: v, Init: g.r.Intn(maxInit), Salt: g.r.Bool()})
			}
		case 9:
			ben := callee()
			if g.r.Chance(1, 3) {
				ben = self
			}
			s = append(s, Act{Kind: "sd", To: ben})
			return s
		case 10:
			k := []string{"rv", "iv", "st"}[g.r.Intn(3)]
			if (isInit || strings.Contains(g.w.fork.label, "@026")) && k == "iv" {
				k = "rv" // CREATE forwards all gas: an INVALID in creation code would starve what follows
			}
			s = append(s, Act{Kind: k})
			return s
		default:
			s = append(s, Act{Kind: "c", To: callee(), Val: big.NewInt(0)})
		}
	}
	return g.repeatCalls(self, s)
}

// repeatCalls: with some probability call a callee of the script a second (third) time, with value on
// the later call, so that whatever the callee did the first time (SELFDESTRUCT in particular) is done again
// on a balance that arrived in between.
func (g *Gen) repeatCalls(self common.Address, s Script) Script {
	if !g.r.Chance(2, 5) {
		return s
	}
	var idx []int
	for i, a := range s {
		if a.Kind == "c" || a.Kind == "ac" {
			idx = append(idx, i)
		}
	}
	if len(idx) == 0 {
		return s
	}
	i := idx[g.r.Intn(len(idx))]
	times := g.r.Pick(1, 1, 2)
	out := append(Script{}, s[:i+1]...)
	for t := 0; t < times; t++ {
		v := []*big.Int{big.NewInt(1), rpg(1), new(big.Int).Div(g.w.adb.GetBalance(self), big.NewInt(3)), big.NewInt(0)}[g.r.Intn(4)]
		out = append(out, Act{Kind: "c", To: s[i].To, Val: v})
	}
	out = append(out, s[i+1:]...)
	return out
}

// bomb: a contract that (after at most one other action) self-destructs; beneficiary is another account,
// itself, a contract that calls it, or an unfunded address.
func (g *Gen) bomb(ci int, self common.Address) Script {
	var s Script
	if g.r.Chance(1, 3) {
		s = append(s, Act{Kind: "c", To: g.pickEOA(), Val: g.smallValue(self)})
	}
	var ben common.Address
	switch g.r.Intn(5) {
	case 0, 1:
		ben = self
	case 2:
		ben = contracts[g.r.Intn(ci+1)] // itself or a (potential) caller
	case 3:
		ben = outsiders[g.r.Intn(len(outsiders))]
	default:
		ben = g.pickEOA()
	}
	return append(s, Act{Kind: "sd", To: ben})
}

// scriptHas reports whether running the script can reach an action of the given kind.
func (w *World) scriptHas(s Script, kind string, seen map[string]bool) bool {
	for _, a := range s {
		if a.Kind == kind {
			return true
		}
		switch a.Kind {
		case "c", "cc", "dc", "sc", "ac":
			k := hexAddr(a.To)
			if !seen[k] {
				seen[k] = true
				if w.scriptHas(w.codes[a.To], kind, seen) {
					return true
				}
			}
		case "cr":
			k := fmt.Sprintf("init%d", a.Init)
			if !seen[k] {
				seen[k] = true
				if w.scriptHas(w.inits[a.Init], kind, seen) {
					return true
				}
			}
		}
	}
	return false
}

// selfDestructReach reports whether running code at `a` can reach a SELFDESTRUCT (conservatively).
func (w *World) scriptMayBurn(s Script, seen map[string]bool) bool {
	for _, a := range s {
		switch a.Kind {
		case "sd":
			return true
		case "c", "cc", "dc", "sc", "ac":
			k := hexAddr(a.To)
			if !seen[k] {
				seen[k] = true
				if w.scriptMayBurn(w.codes[a.To], seen) {
					return true
				}
			}
		case "cr":
			k := fmt.Sprintf("init%d", a.Init)
			if !seen[k] {
				seen[k] = true
				if w.scriptMayBurn(w.inits[a.Init], seen) {
					return true
				}
			}
		}
	}
	return false
}

// setup installs a fresh world: balances, init scripts, contracts.
func (g *Gen) setup(withContracts bool) {
	w := g.w
	for _, a := range eoas {
		w.Set(a, g.startBalance())
	}
	// make sure a few senders can pay for contract transactions
	for i := 0; i < 3; i++ {
		w.Set(eoas[g.r.Intn(len(eoas))], rpg(int64(50+g.r.Intn(500))))
	}
	if g.r.Chance(1, 3) {
		w.Set(common.FeeAccount, g.startBalance())
	}
	if g.r.Chance(2, 3) {
		// the AUTH authority is a party of every AUTHCALL: its balance varies independently of the sponsor's
		w.Set(authorityAddr(), g.startBalance())
	}
	if !withContracts {
		return
	}
	for _, c := range contracts {
		if g.r.Chance(2, 3) {
			w.Set(c, g.startBalance())
		}
	}
	nInit := 4
	// DAG: K3,K4 never create; creation code may call only K3,K4 (and plain addresses) and create
	// lower ids; K0..K2 may call higher-indexed contracts and create anything.
	install := func(i int, maxInit int) {
		sc := g.script(i, contracts[i], maxInit, false)
		if i == 2 && g.r.Chance(2, 3) && w.flags.P012 {
			// the staker: a contract that may become the account of a miner and uses the stake opcodes
			ops := g.stakeOps()
			pos := 0
			if len(sc) > 0 {
				pos = g.r.Intn(len(sc) + 1)
				if k := sc[len(sc)-1].Kind; pos == len(sc) && (k == "sd" || k == "rv" || k == "iv" || k == "st") {
					pos = len(sc) - 1
				}
			}
			sc = append(append(append(Script{}, sc[:pos]...), ops...), sc[pos:]...)
		}
		if i >= 3 && g.r.Chance(1, 2) {
			sc = g.bomb(i, contracts[i])
		}
		for w.scriptCost(sc, 0) > w.maxCost() {
			sc = sc[:len(sc)-1]
		}
		w.Code(contracts[i], sc)
	}
	install(4, 0)
	install(3, 0)
	for id := 0; id < nInit; id++ {
		// creation code runs as a fresh address whose balance is the endowment
		sc := g.script(2, outsiders[0], id, true)
		for w.scriptCost(sc, 0) > w.maxCost() {
			sc = sc[:len(sc)-1]
		}
		w.Init(id, sc)
	}
	for i := 2; i >= 1; i-- {
		install(i, nInit)
	}
	// K0 is never a callee of other code; it alone may use AUTH/AUTHCALL (the authority's nonce is
	// baked into its code before every block, so it runs at most once per block)
	sc := g.script(0, contracts[0], nInit, false)
	if g.r.Bool() {
		var to common.Address
		switch g.r.Intn(3) {
		case 0:
			to = g.pickEOA()
		case 1:
			to = contracts[1+g.r.Intn(4)]
		default:
			to = outsiders[0]
		}
		ac := Act{Kind: "ac", To: to, Val: g.smallValue(eoas[g.r.Intn(len(eoas))])}
		if g.r.Chance(1, 3) {
			// around the authority's balance: the guard must look at the sponsor (tx origin), not at the authority
			ac.Val = g.smallValue(authorityAddr())
		}
		if g.r.Bool() {
			ac.Val = new(big.Int).Add(rpg(int64(1+g.r.Intn(3))), big.NewInt(int64(g.r.Intn(1000))))
		}
		pos := 0
		if len(sc) > 0 {
			pos = g.r.Intn(len(sc))
		}
		sc = append(sc[:pos], append(Script{ac}, sc[pos:]...)...)
	}
	for w.scriptCost(sc, 0) > w.maxCost() {
		sc = sc[:len(sc)-1]
	}
	w.Code(contracts[0], sc)
}

func (g *Gen) gasLimitStr(codeless bool, intrinsic uint64) string {
	switch g.r.Intn(24) {
	case 0:
		return "1000" // below intrinsic gas
	case 1:
		return []string{"abc", "-1", "+5", "1e6", "18446744073709551616", "18446744073709551615", " 5", "0x10", "1_0"}[g.r.Intn(9)]
	case 2:
		return fmt.Sprintf("%d", intrinsic-1)
	case 3:
		return "900000000"
	case 4:
		return "900000001"
	case 5:
		return "1800000000"
	}
	if codeless {
		switch g.r.Intn(6) {
		case 0:
			return ""
		case 1:
			return "0"
		case 2:
			return "30000000"
		case 3:
			return fmt.Sprintf("%d", intrinsic) // exactly the intrinsic gas
		}
	}
	if !g.w.flags.P026 {
		// before the magnification a few million gas are plenty; the pre-check wants gasLimit * price
		return fmt.Sprintf("%d", 20000000+g.r.Intn(10000000))
	}
	return fmt.Sprintf("%d", 500000000+g.r.Intn(400000000))
}

// scriptCost is a static upper bound (in units of "expensive actions") of what running a script can
// execute, following calls and creations. Used to keep generated programs far below the gas limit.
func (w *World) scriptCost(s Script, depth int) int {
	if depth > 12 {
		return 1 << 20
	}
	c := 0
	for _, a := range s {
		c++
		switch a.Kind {
		case "c", "cc", "dc", "sc", "ac":
			c += w.scriptCost(w.codes[a.To], depth+1)
		case "cr":
			c += w.scriptCost(w.inits[a.Init], depth+1)
		}
		if c > 1<<20 {
			return c
		}
	}
	return c
}

const maxScriptCost = 120 // x ~2M gas per action stays below the 500M minimum limit

// accountTaken: a known miner has this account, or an apply for it is queued in the current block
// (the code resolves several miners on one account by trie-key order; the harness keeps accounts unique).
func (w *World) accountTaken(a common.Address) bool {
	for _, m := range w.miners {
		if m.account == a {
			return true
		}
	}
	for _, q := range w.queue {
		if strings.HasPrefix(q.line, "tx apply ") && strings.Fields(q.line)[6] == hexAddr(a) {
			return true
		}
		if strings.HasPrefix(q.line, "tx chacc ") && strings.Fields(q.line)[4] == hexAddr(a) {
			return true
		}
	}
	return false
}

func (g *Gen) richEOA() common.Address {
	var rich []common.Address
	for _, a := range eoas {
		if g.w.adb.GetBalance(a).Cmp(rpg(400)) >= 0 {
			rich = append(rich, a)
		}
	}
	if len(rich) > 0 && g.r.Chance(4, 5) {
		return rich[g.r.Intn(len(rich))]
	}
	return g.pickEOA()
}

func (g *Gen) stakeAmount(src common.Address) uint64 {
	bal := new(big.Int).Div(g.w.adb.GetBalance(src), oneRPG).Uint64()
	switch g.r.Intn(5) {
	case 0:
		return bal
	case 1:
		return bal + 1
	case 2:
		if bal > 0 {
			return bal - 1
		}
	}
	return uint64(g.r.Pick(0, 1, 399, 400, 400, 401, 500, 1999, 2000, 2000, 2001, 2500))
}

// minerTx: miner apply / add stake / refund / OperatorNode.
func (g *Gen) minerTx() {
	w := g.w
	known := func() uint64 {
		if len(w.miners) > 0 && g.r.Chance(5, 6) {
			return w.miners[g.r.Intn(len(w.miners))].seq
		}
		return w.minerSeq + 1000 // no such miner
	}
	kind := g.r.Intn(20)
	if kind >= 7 && kind <= 16 && g.r.Chance(3, 4) {
		// add / refund / change-account need a live miner: without one, apply for one instead
		// (the printed distribution showed "miner not existed" as the dominant refusal of these three)
		live := false
		for i := range w.miners {
			if m := service.MinerManagerImpl.GetMiner(w.miners[i].id, w.adb); m != nil {
				live = true
			}
		}
		if !live {
			kind = 0
		}
	}
	switch kind {
	case 0, 1, 2, 3, 4, 5, 6:
		src := g.richEOA()
		seq := known()
		if g.r.Chance(7, 8) || seq > w.minerSeq {
			w.minerSeq++
			seq = w.minerSeq
		}
		typ := byte(g.r.Pick(0, 0, 1, 1, 1, 7))
		stake := g.stakeAmount(src)
		if g.r.Chance(2, 3) {
			// a plausible application: enough stake for the type, if the payer can afford it
			bal := new(big.Int).Div(w.adb.GetBalance(src), oneRPG).Uint64()
			if bal < 401 && g.r.Chance(2, 3) {
				// a payer that cannot afford any stake: fund it (most applications were refused for that reason)
				w.Set(src, rpg(int64(g.r.Pick(402, 1000, 2002, 5000))))
				bal = new(big.Int).Div(w.adb.GetBalance(src), oneRPG).Uint64()
			}
			if bal >= 2001 && typ != 0 {
				typ, stake = 1, uint64(g.r.Pick(2000, 2001, 2500))
			} else if bal >= 401 {
				typ, stake = 0, uint64(g.r.Pick(400, 401, 800))
			}
		}
		var account common.Address
		switch g.r.Intn(6) {
		case 0, 1, 2:
			account = src
		case 3, 4:
			account = contracts[2]
		default:
			account = g.pickEOA()
		}
		if w.accountTaken(account) && g.r.Chance(3, 4) {
			// mostly avoid the "account already owns a miner" refusal, never create a second miner in one block
			for _, a := range eoas {
				if !w.accountTaken(a) {
					account = a
					break
				}
			}
		}
		for _, q := range w.queue {
			if strings.HasPrefix(q.line, "tx apply ") && strings.Fields(q.line)[6] == hexAddr(account) {
				g.operatorTx()
				return
			}
		}
		w.QueueApply(src, seq, typ, stake, account, g.r.Chance(7, 8))
	case 7, 8, 9:
		src := g.richEOA()
		w.QueueAdd(src, known(), uint64(g.r.Pick(0, 1, 5, 100, 1000, int(g.stakeAmount(src)%100000))))
	case 10, 11, 12, 13, 14:
		if !w.flags.P012 {
			g.operatorTx()
			return
		}
		for _, q := range w.queue {
			if q.feat["refund"] {
				g.operatorTx() // one refund transaction per block (the context list quirk is C20's subject)
				return
			}
		}
		seq := known()
		src := g.pickEOA()
		if m := w.findMiner(seq); m != nil && g.r.Chance(5, 6) {
			src = m.account
		}
		amt := []string{"1", "100", "400", "1600", "2000", "18446744073709551615", "0", "abc", "-1", "", "18446744073709551616", "3"}[g.r.Intn(12)]
		// Two times in three aim at the branches of GetRefundStake / RemoveMiner: a live miner, sent from its
		// account, amounts around its stake and around "what is left = the minimum stake of its type"
		// (the distribution printed into the evidence showed 7 successful refunds in 62).
		if g.r.Chance(2, 3) {
			var live []*minerRec
			for i := range w.miners {
				if m := service.MinerManagerImpl.GetMiner(w.miners[i].id, w.adb); m != nil && m.Stake > 0 {
					live = append(live, &w.miners[i])
				}
			}
			if len(live) > 0 {
				mr := live[g.r.Intn(len(live))]
				m := service.MinerManagerImpl.GetMiner(mr.id, w.adb)
				seq, src = mr.seq, common.BytesToAddress(m.Account)
				min := uint64(400)
				if m.Type == common.MinerTypeProposer {
					min = 2000
				}
				cands := []uint64{1, m.Stake, m.Stake + 1, m.Stake - 1, m.Stake / 2}
				if m.Stake > min {
					cands = append(cands, m.Stake-min, m.Stake-min+1, m.Stake-min-1)
				}
				c := cands[g.r.Intn(len(cands))]
				if c == 0 {
					c = 1
				}
				amt = strconv.FormatUint(c, 10)
				if g.r.Chance(1, 6) {
					amt = "18446744073709551615"
				}
			}
		}
		w.QueueRefund(src, seq, amt, g.r.Chance(7, 8))
	case 15, 16:
		// change account: mostly by the current account of a known miner, to a free / taken / same account
		seq := known()
		src := g.pickEOA()
		if m := w.findMiner(seq); m != nil && g.r.Chance(5, 6) {
			src = m.account
		}
		to := g.pickEOA()
		switch g.r.Intn(6) {
		case 0:
			to = src
		case 1:
			to = contracts[2]
		}
		if w.accountTaken(to) && to != src && g.r.Chance(2, 3) {
			for _, a := range eoas {
				if !w.accountTaken(a) {
					to = a
					break
				}
			}
		}
		for _, q := range w.queue {
			f := strings.Fields(q.line)
			if (f[1] == "apply" && f[6] == hexAddr(to)) || (f[1] == "chacc" && f[4] == hexAddr(to)) {
				g.operatorTx() // never two miners onto one account within a block (the account iterator would not see the first)
				return
			}
		}
		w.QueueChange(src, seq, to)
	default:
		src := g.pickEOA()
		if len(w.miners) > 0 && g.r.Chance(4, 5) {
			src = w.miners[g.r.Intn(len(w.miners))].account
		}
		w.QueueNode(src)
	}
}

// stakeOps: actions for a contract that may be the account of a miner.
func (g *Gen) stakeOps() Script {
	half := new(big.Int).Div(oneRPG, big.NewInt(2))
	vals := []*big.Int{half, rpg(1), new(big.Int).Add(rpg(1), new(big.Int).Mul(big.NewInt(9), new(big.Int).Div(oneRPG, big.NewInt(10)))),
		rpg(3), rpg(400), rpg(2000), big.NewInt(1), big.NewInt(0),
		new(big.Int).Mul(new(big.Int).Lsh(big.NewInt(1), 64), oneRPG),
		// around the uint64 boundary of the whole-token truncation: 2^64-1 tokens, one wei below 2^64 tokens
		new(big.Int).Mul(new(big.Int).Sub(new(big.Int).Lsh(big.NewInt(1), 64), big.NewInt(1)), oneRPG),
		new(big.Int).Sub(new(big.Int).Mul(new(big.Int).Lsh(big.NewInt(1), 64), oneRPG), big.NewInt(1)),
		new(big.Int).Sub(oneRPG, big.NewInt(1)), new(big.Int).Add(oneRPG, big.NewInt(1))}
	var s Script
	n := 1 + g.r.Intn(3)
	for i := 0; i < n; i++ {
		switch g.r.Intn(7) {
		case 0, 1, 2:
			s = append(s, Act{Kind: "ustk", Val: vals[g.r.Intn(len(vals))]})
		case 3, 4, 5:
			s = append(s, Act{Kind: "stk", Val: vals[g.r.Intn(len(vals))]})
		default:
			s = append(s, Act{Kind: "usa"})
		}
	}
	return s
}

// after: an empty block run through VMExecutor.after — mostly the next height, sometimes jumping to (just
// before / exactly) the next reward height, where everything escrowed so far is paid out.
func (g *Gen) after() (before, after, rewards *big.Int) {
	w := g.w
	rb := common.GetRewardBlocks()
	h := w.height + 1
	next := ((h + rb - 1) / rb) * rb
	switch g.r.Intn(4) {
	case 0:
		h = next
	case 1:
		if next > h+1 {
			h = next - 1
		}
	}
	castor := []byte{0xca, 0x57}
	if len(w.miners) > 0 && g.r.Bool() {
		castor = w.miners[g.r.Intn(len(w.miners))].id
	}
	return w.After(h, castor)
}

func (g *Gen) refund() {
	k := g.r.Intn(4)
	var l [][2]interface{}
	seen := map[common.Address]bool{}
	for i := 0; i < k; i++ {
		a := g.pickAddr()
		if seen[a] {
			continue
		}
		seen[a] = true
		v := rpg(int64(g.r.Intn(500)))
		if g.r.Chance(1, 3) {
			v = new(big.Int).SetUint64(g.r.U64() % 1000000000000000000)
		}
		l = append(l, [2]interface{}{a, v})
	}
	g.w.Refund(l)
}

func (g *Gen) operatorTx() {
	w := g.w
	src := g.pickEOA()
	if g.r.Chance(1, 12) {
		src = g.pickSource()
	}
	if g.r.Chance(1, 25) {
		w.QueueOperator(src, nil, true)
		return
	}
	bal := w.adb.GetBalance(src)
	k := g.r.Pick(0, 1, 1, 1, 2, 2, 3, 4)
	var ts []Target
	seenKey := map[string]bool{}
	for i := 0; i < k; i++ {
		t := g.pickAddr()
		key := g.addrKey(t)
		if seenKey[key] {
			continue
		}
		seenKey[key] = true
		amt := g.amount(bal)
		for !inModelDomain(amt) {
			amt = g.amountNear(bal)
		}
		ts = append(ts, Target{Key: key, Amount: amt})
	}
	ts = orderSafe(w, src, ts)
	if !w.flags.P002 && !g.search && len(ts) > 1 && !allAffordable(w, src, ts) {
		// before Proposal002 a failed multi-target transfer keeps the transfers made before the failing one,
		// i.e. the outcome depends on Go's map order (C01); the correspondence stream keeps to one target then
		ts = ts[:1]
	}
	w.QueueOperator(src, ts, false)
}

// allAffordable: every amount parses, is non-negative, and the sum fits the balance whatever the queue does
// (conservative: only when nothing else is queued for this block).
func allAffordable(w *World, src common.Address, ts []Target) bool {
	if len(w.queue) != 0 {
		return false
	}
	sum := new(big.Int)
	for _, t := range ts {
		v, err := utility.StrToBigInt(t.Amount)
		if err != nil || v.Sign() < 0 {
			return false
		}
		sum.Add(sum, v)
	}
	bal := new(big.Int).Sub(w.adb.GetBalance(src), big.NewInt(1000000000000000))
	return sum.Cmp(bal) <= 0
}

// orderSafe drops self-targets whose outcome would depend on Go's map iteration order
// (ChangeAssets ranges over a map; the model runs the list order; C01 owns order-dependence).
func orderSafe(w *World, src common.Address, ts []Target) []Target {
	if len(ts) < 2 {
		return ts
	}
	bal := w.adb.GetBalance(src)
	fee := big.NewInt(1000000000000000)
	if bal.Cmp(fee) < 0 {
		return ts // BeforeExecute fails
	}
	bal = new(big.Int).Sub(bal, fee)
	// pending queue may change balances; be conservative: only keep self targets when the queue is empty
	sum := new(big.Int)
	bad := false
	for _, t := range ts {
		v, err := utility.StrToBigInt(t.Amount)
		if err != nil || v.Sign() < 0 {
			bad = true
			break
		}
		if common.HexToAddress(t.Key) != src {
			sum.Add(sum, v)
		}
	}
	if bad {
		return ts // fails in every order
	}
	if sum.Cmp(bal) > 0 && len(w.queue) == 0 {
		return ts // fails in every order
	}
	left := new(big.Int).Sub(bal, sum)
	var out []Target
	for _, t := range ts {
		if common.HexToAddress(t.Key) == src {
			v, _ := utility.StrToBigInt(t.Amount)
			if len(w.queue) != 0 || v.Cmp(left) > 0 {
				continue
			}
		}
		out = append(out, t)
	}
	return out
}

func (g *Gen) contractTx(first bool) {
	w := g.w
	c := CtSpec{Src: g.pickEOA()}
	if g.r.Chance(3, 4) {
		// prefer a sender that can pay for gas
		var rich []common.Address
		for _, a := range eoas {
			if w.adb.GetBalance(a).Cmp(rpg(2)) >= 0 {
				rich = append(rich, a)
			}
		}
		if len(rich) > 0 {
			c.Src = rich[g.r.Intn(len(rich))]
		}
	} else if g.r.Chance(1, 4) {
		c.Src = g.pickSource()
	}
	bal := w.adb.GetBalance(c.Src)
	if first && g.r.Chance(1, 5) {
		c.Eth = true
		c.NonceOff = g.r.Pick(0, 0, 0, 1, -1)
	}
	if g.r.Chance(1, 30) {
		c.BadJSON = true
	}
	switch g.r.Intn(10) {
	case 0, 1, 2:
		c.Value = "0"
	case 3:
		c.Value = ""
	case 4:
		c.Value = oddAmounts[g.r.Intn(len(oddAmounts))]
	default:
		c.Value = g.amountNear(bal)
	}
	if !inModelDomain(c.Value) {
		c.Value = "0"
	}
	switch g.r.Intn(10) {
	case 0, 1:
		c.Target = nil
		c.InitId = g.r.Intn(4)
	case 2:
		t := g.pickAddr()
		c.Target = &t
	default:
		t := contracts[g.r.Intn(len(contracts))]
		c.Target = &t
	}
	if !first && g.r.Chance(2, 5) {
		// call again what an earlier transaction of this block called (it may have self-destructed: the
		// account keeps its code until the block is finalised), this time with value
		for i := len(w.queue) - 1; i >= 0; i-- {
			t := strings.Fields(w.queue[i].line)
			if w.queue[i].isCt && t[6] != "-" {
				a := parseAddr(t[6])
				c.Target = &a
				c.Eth = false
				c.BadJSON = false
				c.Value = []string{"1", "0.5", "0.000000000000000001", "2"}[g.r.Intn(4)]
				break
			}
		}
	}
	if c.Target != nil && w.authC != nil && *c.Target == *w.authC {
		if w.authUsed {
			t := contracts[1+g.r.Intn(4)]
			c.Target = &t
		} else {
			w.authUsed = true
		}
	}
	codeless := c.Target != nil && len(w.codes[*c.Target]) == 0
	if !first && g.r.Chance(1, 5) {
		// a transaction that fails before Execute assigns gasUsed: the executor then charges the stale
		// gasUsed of an earlier transaction of the block (deductGasFee must clamp to the balance)
		var poor []common.Address
		for _, a := range eoas {
			b := w.adb.GetBalance(a)
			if b.Cmp(big.NewInt(1000000000000000)) >= 0 && b.Cmp(big.NewInt(40000000000000000)) < 0 {
				poor = append(poor, a)
			}
		}
		if len(poor) > 0 {
			c.Src = poor[g.r.Intn(len(poor))]
			c.Eth = false
			c.Value = "0"
			c.GasLimit = "1000"
			w.QueueContract(c)
			return
		}
	}
	if c.Target != nil && w.authC != nil && *c.Target == *w.authC && g.r.Bool() && !c.Eth {
		// give the sender just enough for the pre-check so that the AUTHCALL (sponsor = origin) drains it
		for _, a := range w.codes[*w.authC] {
			if a.Kind == "ac" && a.Val.Cmp(rpg(1)) >= 0 {
				need := new(big.Int).Add(a.Val, big.NewInt(1000000000000000))
				need.Add(need, big.NewInt(int64(g.r.Pick(0, 1, 1000000000000))))
				w.Set(c.Src, need)
				c.Value = "0"
				c.GasLimit = fmt.Sprintf("%d", 500000000+g.r.Intn(400000000))
				if !w.flags.P026 {
					c.GasLimit = fmt.Sprintf("%d", 20000000+g.r.Intn(10000000))
				}
				w.QueueContract(c)
				return
			}
		}
	}
	if c.Target != nil && g.r.Bool() && !codeless {
		c.Input = g.r.Bytes(g.r.Intn(40))
	}
	{
		input := c.Input
		if c.Target == nil {
			input = assemble(w.inits[c.InitId], w.inits, nil, w.budget)
		}
		c.GasLimit = g.gasLimitStr(codeless, w.intrinsic(input, c.Target == nil))
	}
	if c.Target == nil && !w.flags.P002 {
		c.Value = "0" // see the `cr` action: no endowment below Proposal002
	}
	w.QueueContract(c)
}
