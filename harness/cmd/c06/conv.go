package main

// The `conv` stream: the conversions every native-token amount passes through on its way into a balance slot,
// run on the real code and on C18's exact Lean model of them, next to the exact primitives of Model/Ledger.lean.
//
//   ft add <slot> <n> | ft sub <slot> <n> | ft get <slot> | ft set <n>
//        AccountDB.AddFT / SubFT / GetFT / SetFT of SYSTEM-RPG on one raw storage slot of the token contract
//        (the slot is written and read with SetData / GetData, so that only the function under test converts)
//   stk <n>   utility.Float64ToBigInt(float64(n)) (the debit of AddStake / AddMiner), utility.Uint64ToBigInt(n)
//             (the refund of GetRefundStake), strconv.ParseUint(utility.BigIntToStrWithoutDot(refund))
//   sarg <m>  strconv.ParseUint(utility.BigIntToStrWithoutDot(m)) — the argument reader of STAKE / UNSTAKE
//
// Each answer ends in "=" when plain integer arithmetic (what Model/Ledger.lean's addBal/subBal/get/put/toWei
// compute) gives the same result and in "!" when the decimal-string / big.Float round trip changes it; the flag is
// computed here with math/big and by the Lean driver with the model primitives.

import (
	"fmt"
	"math/big"
	"strconv"

	"com.tuntun.rangers/node/src/common"
	"com.tuntun.rangers/node/src/executor"
	"com.tuntun.rangers/node/src/utility"
	"verif/harness/hx"
)

var convAddr = common.HexToAddress("0xf7f7000000000000000000000000000000c06c06")

func flagOf(b bool) string {
	if b {
		return "="
	}
	return "!"
}

func (w *World) rawSlot() (common.Address, []byte) {
	found, contract, position, _ := w.adb.GetERC20Binding(common.BLANCE_NAME)
	if !found {
		panic("no SYSTEM-RPG binding")
	}
	return contract, w.adb.GetERC20Key(convAddr, position)
}

func (w *World) setRaw(v *big.Int) {
	c, k := w.rawSlot()
	w.adb.SetData(c, k, v.Bytes())
}

func (w *World) getRaw() *big.Int {
	c, k := w.rawSlot()
	return new(big.Int).SetBytes(w.adb.GetData(c, k))
}

func (w *World) ConvFt(op string, slot, n *big.Int) {
	line := "ft " + op
	res := hx.Guard(func() string {
		switch op {
		case "add":
			line += " " + slot.String() + " " + n.String()
			w.setRaw(slot)
			arg := new(big.Int).Set(n)
			w.adb.AddFT(convAddr, common.BLANCE_NAME, arg)
			got := w.getRaw()
			exact := new(big.Int).Add(slot, n)
			exact.Abs(exact)
			return got.String() + " " + flagOf(got.Cmp(exact) == 0 && arg.Cmp(n) == 0)
		case "sub":
			line += " " + slot.String() + " " + n.String()
			w.setRaw(slot)
			arg := new(big.Int).Set(n)
			ret, ok := w.adb.SubFT(convAddr, common.BLANCE_NAME, arg)
			got := w.getRaw()
			exactOk := slot.Cmp(n) >= 0
			exactSlot := new(big.Int).Set(slot)
			exactRet := new(big.Int).Set(slot)
			if exactOk {
				exactSlot.Sub(slot, n)
				exactRet.Set(exactSlot)
				exactSlot.Abs(exactSlot)
			}
			rs := "nil"
			if ret != nil {
				rs = ret.String()
			}
			st := "refused"
			if ok {
				st = "ok"
			}
			return fmt.Sprintf("%s %s %s %s", st, got.String(), rs,
				flagOf(ok == exactOk && got.Cmp(exactSlot) == 0 && ret != nil && ret.Cmp(exactRet) == 0 && arg.Cmp(n) == 0))
		case "get":
			line += " " + slot.String()
			w.setRaw(slot)
			got := w.adb.GetFT(convAddr, common.BLANCE_NAME)
			return got.String() + " " + flagOf(got.Cmp(slot) == 0)
		case "set":
			line += " " + n.String()
			w.setRaw(big.NewInt(77))
			arg := new(big.Int).Set(n)
			w.adb.SetFT(convAddr, common.BLANCE_NAME, arg)
			got := w.getRaw()
			return got.String() + " " + flagOf(got.CmpAbs(n) == 0 && arg.Cmp(n) == 0)
		}
		return "bad-op"
	})
	if len(res) > 6 && res[:6] == "panic:" {
		res = "nil" // a nil *big.Int from a failed FormatDecimalForERC20 is dereferenced (the model's `none`)
	}
	w.setRaw(new(big.Int))
	w.out.Emit(line, res)
}

func (w *World) ConvStk(n uint64) {
	d := utility.Float64ToBigInt(float64(n))
	r := utility.Uint64ToBigInt(n)
	back := "none"
	if k, err := strconv.ParseUint(utility.BigIntToStrWithoutDot(r), 10, 0); err == nil {
		back = strconv.FormatUint(k, 10)
	}
	exact := new(big.Int).Mul(new(big.Int).SetUint64(n), oneRPG)
	w.out.Emit("stk "+strconv.FormatUint(n, 10), fmt.Sprintf("%s %s %s %s", d.String(), r.String(), back,
		flagOf(d.Cmp(exact) == 0 && r.Cmp(exact) == 0)))
}

func (w *World) ConvSarg(m *big.Int) {
	k, err := strconv.ParseUint(utility.BigIntToStrWithoutDot(new(big.Int).Set(m)), 10, 0)
	whole := new(big.Int).Quo(new(big.Int).Abs(m), oneRPG)
	fits := m.Sign() >= 0 && whole.IsUint64()
	if err != nil {
		w.out.Emit("sarg "+m.String(), "none "+flagOf(!fits))
		return
	}
	w.out.Emit("sarg "+m.String(), strconv.FormatUint(k, 10)+" "+flagOf(fits && whole.Uint64() == k))
}

// ConvIg: executor.IntrinsicGas on the bytes; the flag compares with the count formula of the model.
func (w *World) ConvIg(create bool, data []byte) {
	g, err := executor.IntrinsicGas(data, create)
	hexd := "-"
	if len(data) > 0 {
		hexd = fmt.Sprintf("%x", data)
	}
	line := fmt.Sprintf("ig %d %s", b2i(create), hexd)
	if err != nil {
		w.out.Emit(line, "overflow")
		return
	}
	nz := uint64(0)
	for _, b := range data {
		if b != 0 {
			nz++
		}
	}
	base := uint64(21000)
	if create {
		base = 53000
	}
	want := base + nz*16 + (uint64(len(data))-nz)*4
	if w.flags.P026 {
		want *= 30
	}
	w.out.Emit(line, fmt.Sprintf("%d %s", g, flagOf(g == want)))
}

func pow2(k uint) *big.Int { return new(big.Int).Lsh(big.NewInt(1), k) }

// convValues: boundary lattice around the sizes at which something changes (64-bit, the EVM word, the 512-bit
// mantissa of the float) plus random values of random bit length.
func convValues(g *Gen, n int) []*big.Int {
	vs := []*big.Int{big.NewInt(0), big.NewInt(1), big.NewInt(2), big.NewInt(999), new(big.Int).Set(oneRPG),
		new(big.Int).Sub(oneRPG, big.NewInt(1)), new(big.Int).Add(oneRPG, big.NewInt(1)), rpg(21000000)}
	for _, k := range []uint{53, 64, 128, 255, 256, 509, 510, 511, 512, 513, 514, 600} {
		p := pow2(k)
		vs = append(vs, new(big.Int).Sub(p, big.NewInt(1)), p, new(big.Int).Add(p, big.NewInt(1)))
	}
	for i := 0; i < n; i++ {
		bits := g.r.Pick(8, 60, 64, 90, 200, 256, 400, 505, 509, 510, 511, 512, 513, 520, 700)
		bs := g.r.Bytes((bits + 7) / 8)
		v := new(big.Int).SetBytes(bs)
		v.Rsh(v, uint(len(bs)*8-bits))
		if g.r.Chance(1, 3) {
			v.SetBit(v, 0, 1) // odd: the low bit is what a rounding loses
		}
		vs = append(vs, v)
	}
	return vs
}

func runConv(g *Gen, thorough bool) {
	w := g.w
	w.Reset(true)
	n := 40
	if thorough {
		n = 600
	}
	vs := convValues(g, n)
	pick := func() *big.Int { return new(big.Int).Set(vs[g.r.Intn(len(vs))]) }
	signed := func(v *big.Int) *big.Int {
		if g.r.Chance(1, 4) {
			return v.Neg(v)
		}
		return v
	}
	// the witnesses of Props/C06Real.lean first
	w.ConvFt("add", big.NewInt(0), new(big.Int).Add(pow2(513), big.NewInt(1)))
	w.ConvStk(9007199254740993)
	for _, v := range vs {
		w.ConvFt("get", v, nil)
		w.ConvFt("set", nil, signed(new(big.Int).Set(v)))
		w.ConvFt("add", pick(), signed(new(big.Int).Set(v)))
		w.ConvFt("sub", pick(), signed(new(big.Int).Set(v)))
		// around the refusal boundary: slot = amount, amount ± 1
		w.ConvFt("sub", new(big.Int).Set(v), new(big.Int).Set(v))
		w.ConvFt("sub", new(big.Int).Set(v), new(big.Int).Add(v, big.NewInt(1)))
		w.ConvSarg(signed(new(big.Int).Set(v)))
	}
	for _, k := range []uint64{0, 1, 399, 400, 2000, 1 << 52, 1<<53 - 1, 1 << 53, 1<<53 + 1, 1<<53 + 2, 1<<53 + 3, 1<<54 + 2, 1<<54 + 3,
		1<<63 - 1, 1 << 63, 1<<64 - 1025, 1<<64 - 1024, 1<<64 - 1} {
		w.ConvStk(k)
	}
	for i := 0; i < n; i++ {
		k := g.r.U64() >> uint(g.r.Pick(0, 1, 8, 10, 11, 12, 20, 40))
		w.ConvStk(k)
	}
	for i := 0; i < n; i++ {
		data := g.r.Bytes(g.r.Pick(0, 0, 1, 2, 4, 31, 32, 33, 68, 100, 300))
		for j := range data {
			if g.r.Chance(1, 2) {
				data[j] = 0
			}
		}
		w.ConvIg(g.r.Bool(), data)
	}
	w.Reset(true)
}
