package main

// End of block: the real VMExecutor.after (reward escrow through RewardCalculator + RefundManager.Add,
// then RefundManager.CheckAndMove) driven by an empty block executed with a non-"testing" situation.

import (
	"fmt"
	"math"
	"math/big"
	"sort"
	"strconv"
	"strings"
	"sync"
	"time"

	"com.tuntun.rangers/node/src/common"
	"com.tuntun.rangers/node/src/core"
	"com.tuntun.rangers/node/src/middleware/types"
	"com.tuntun.rangers/node/src/service"
	"verif/harness/hx"
)

// stubChain stands in for the group chain: the verify group of every block consists of the validators
// registered through this harness.
type stubChain struct{}

func (s stubChain) GetAvailableGroupsByMinerId(height uint64, minerId []byte) []*types.Group {
	return nil
}
func (s stubChain) GetGroupById(id []byte) *types.Group {
	g := &types.Group{Id: id}
	for _, m := range getCurWorld().miners {
		g.Members = append(g.Members, m.id)
	}
	return g
}
func (s stubChain) GetBlockHeader(height uint64) *types.BlockHeader { return nil }
func (s stubChain) QueryBlockHeaderByHeight(height interface{}, cache bool) *types.BlockHeader {
	return nil
}

var curWorldV *World
var curWorldMu sync.Mutex

func setCurWorld(w *World) {
	curWorldMu.Lock()
	curWorldV = w
	curWorldMu.Unlock()
}

func getCurWorld() *World {
	curWorldMu.Lock()
	defer curWorldMu.Unlock()
	return curWorldV
}

func initReward() {
	sc := stubChain{}
	service.InitRewardCalculator(sc, sc, sc)
}

func refundAddr(h uint64) common.Address {
	return common.BytesToAddress(common.Sha256([]byte("refund" + strconv.FormatUint(h, 10))))
}

// escrowTotal sums what is escrowed at every height this world has ever scheduled something for.
func (w *World) escrowTotal() *big.Int {
	sum := new(big.Int)
	for h := range w.escrowHeights {
		a := refundAddr(h)
		if !w.adb.Exist(a) {
			continue
		}
		// read-only walk of the committed storage (GetAllRefund would create and later delete an empty account)
		it := w.adb.DataIterator(a, nil)
		if it == nil {
			continue
		}
		for it.Next() {
			sum.Add(sum, new(big.Int).SetBytes(it.Value))
		}
	}
	return sum
}

// After executes an empty block at height h with situation "fullverify".
func (w *World) After(h uint64, castor []byte) (before, after, rewards *big.Int) {
	setCurWorld(w)
	w.refreshFlags(h, h-1)
	w.reopen()
	before = w.Wealth()
	rewards = new(big.Int)
	header := &types.BlockHeader{Height: h, CurTime: time.Unix(1700000000+int64(h), 0), Castor: castor, GroupId: []byte{0x67}}
	// oracle for the model: what RewardCalculator adds to the escrow for this block (same state, same call)
	data := service.RewardCalculatorImpl.CalculateReward(h, w.adb, header, "fullverify")
	type ent struct {
		h uint64
		a common.Address
		v *big.Int
	}
	var ents []ent
	for eh, l := range data {
		w.escrowHeights[eh] = true
		for _, ri := range l.List {
			ents = append(ents, ent{eh, common.BytesToAddress(ri.Id), new(big.Int).Set(ri.Value)})
			rewards.Add(rewards, ri.Value)
		}
	}
	sort.Slice(ents, func(i, j int) bool {
		if ents[i].h != ents[j].h {
			return ents[i].h < ents[j].h
		}
		return strings.Compare(hexAddr(ents[i].a), hexAddr(ents[j].a)) < 0
	})
	parts := []string{"after", strconv.FormatUint(h, 10), strconv.Itoa(len(ents))}
	for _, e := range ents {
		parts = append(parts, strconv.FormatUint(e.h, 10), hexAddr(e.a), e.v.String())
	}
	// independent reference for "the scheduled block reward": 7.35M RPG * 0.92^epoch * 0.08 per epoch of 15 552 000 blocks;
	// proposer + all-proposers + validators shares add up to 1, so one block never escrows more than that
	{
		total := 2100.0 * 10000 * 0.35 * math.Pow(0.92, float64(h/15552000)) * 0.08 / 15552000
		limit, _ := new(big.Float).Mul(big.NewFloat(total*1.000001), new(big.Float).SetInt(oneRPG)).Int(nil)
		if rewards.Cmp(limit) > 0 {
			reportViolation("reward-exceeds-schedule", fmt.Sprintf("height %d: CalculateReward escrows %s wei, the schedule allows %s", h, rewards.String(), limit.String()), snapshotLines(w))
		}
	}
	w.height = h
	common.SetBlockHeight(h)
	w.escrowHeights[h+36000] = true
	block := &types.Block{Header: header}
	p := hx.Guard(func() string {
		core.VerifC06Execute(w.adb, block, "fullverify")
		return ""
	})
	if p != "" {
		w.out.Emit(strings.Join(parts, " "), p)
		return before, before, new(big.Int)
	}
	w.reopen()
	w.out.Emit(strings.Join(parts, " "), w.stateLine())
	after = w.Wealth()
	return
}
