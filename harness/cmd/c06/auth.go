package main

// AUTH / AUTHCALL (EIP-3074 style) support: a fixed authority key signs the authorisation for
// one invoker contract; the bytecode stores (v, r, s, commit) in memory, executes AUTH and later
// AUTHCALL with the authority's current nonce.

import (
	"math/big"

	"com.tuntun.rangers/node/src/common"
	crypto "com.tuntun.rangers/node/src/eth_crypto"
)

var authKeyBytes = common.FromHex("0x4c0883a69102937d6231471b5dbb6204fe5129617082792ae468d01a3f362318")

func authorityAddr() common.Address {
	prv, err := crypto.ToECDSA(authKeyBytes)
	if err != nil {
		panic(err)
	}
	pub := crypto.FromECDSAPub(&prv.PublicKey)
	var a common.Address
	copy(a[:], crypto.Keccak256(pub[1:])[12:])
	return a
}

func pad32(b []byte) []byte {
	out := make([]byte, 32)
	copy(out[32-len(b):], b)
	return out
}

// newAuth builds the AUTH prologue and AUTHCALL sequences for the invoker contract `invoker`;
// nonce is the authority's account nonce at the time the code will run.
func newAuth(invoker common.Address, height uint64, nonce uint64, budget func(common.Address) uint64) *authInfo {
	prv, _ := crypto.ToECDSA(authKeyBytes)
	commit := make([]byte, 32)
	msg := []byte{0x03}
	msg = append(msg, pad32(common.GetChainId(height).Bytes())...)
	msg = append(msg, pad32(invoker[:])...)
	msg = append(msg, commit...)
	hash := crypto.Keccak256(msg)
	sig, err := crypto.Sign(hash, prv)
	if err != nil {
		panic(err)
	}
	authority := authorityAddr()
	used := uint64(0)
	return &authInfo{
		prologue: func() []byte {
			var b []byte
			b = append(b, push32(new(big.Int).SetUint64(uint64(sig[64])))...)
			b = append(b, 0x60, 0, 0x52)
			b = append(b, push32(new(big.Int).SetBytes(sig[0:32]))...)
			b = append(b, 0x60, 32, 0x52)
			b = append(b, push32(new(big.Int).SetBytes(sig[32:64]))...)
			b = append(b, 0x60, 64, 0x52)
			b = append(b, 0x60, 0, 0x60, 96, 0x52)
			b = append(b, 0x60, 128, 0x60, 0)
			b = append(b, push20(authority)...)
			b = append(b, 0xf6, 0x50)
			return b
		},
		call: func(to common.Address, v *big.Int) []byte {
			var b []byte
			b = append(b, 0x60, 0, 0x60, 0, 0x60, 0, 0x60, 0, 0x60, 0) // retLen retOff argsLen argsOff valueExt
			b = append(b, push32(v)...)
			b = append(b, push20(to)...)
			if budget != nil {
				b = append(b, push4(budget(to))...)
			} else {
				b = append(b, 0x5a)
			}
			b = append(b, push32(new(big.Int).SetUint64(nonce+used))...)
			used++
			b = append(b, 0xf7, 0x50)
			return b
		},
	}
}
