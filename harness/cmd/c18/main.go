// c18: correspondence harness and searcher for property C18 (decimal amount
// strings and 18-decimal integers convert without loss).
//
// Every op line is evaluated against the REAL go-rangers code in-process:
//
//	parse <hex-string> <d>   utility.strToBigInt(s, d)            (hook C18a; d=18 also via StrToBigInt)
//	pf <hex-string>          big.ParseFloat(s, 10, 512, AwayFromZero) (the math/big behaviour the model assumes)
//	fmt <int> <p>            utility.bigIntToStr(n, p)            (hook C18a)
//	tostr <int>              utility.BigIntToStr(n)
//	nodot <int>              utility.BigIntToStrWithoutDot(n)
//	erc20 <int> <d>          utility.FormatDecimalForERC20(n, d)
//	rocket <int> <d>         utility.FormatDecimalForRocket(n, d)
//	evmval <int>             rlp round trip -> eth_tx.ConvertTx -> executor.decodeContractData (hook C18b)
//	ft <d> <step>...         fresh account.AccountDB, token name bound (AddERC20Binding) to a contract with d
//	                         decimals; steps s<int>=SetFT a<int>=AddFT u<int>=SubFT g=GetFT (accountdb_tuntun.go)
//
//	xfer <int> <hex-string>  service.ChangeAssets(src, {dst: {Balance: s}}) with src holding <int> (game.go transfers)
//	stake <u64>              utility.Float64ToBigInt(float64(n))  (MinerManager.AddStake / AddMiner)
//	f64 <bits>               utility.Float64ToBigInt(math.Float64frombits(bits))
//	u64 <u64>                utility.Uint64ToBigInt(n)
//	stakearg <int>           strconv.ParseUint(utility.BigIntToStrWithoutDot(n), 10, 0)  (vm opStake/opUnstake)
//	basen <nat> <base>       utility.BigIntBase10toN(n, base)  (2 <= base <= 16, n >= 0: elsewhere the Go loop hangs)
//	calldata <nat>           common.GenerateCallDataBigInt(n)
//	size <hex-string> <d>    BitLen of strToBigInt(s, d) (result-size / DoS observation)
//
// mode=corr (default): corpus first, then generated ops; writes ops=/obs= files.
// mode=search: direct property oracle (no model): prints "VIOL <key> <op> :: <detail>" lines.
// mode=exec op=<line>: evaluate one op line and print the answer (replay).
package main

import (
	"bufio"
	"fmt"
	"math"
	"math/big"
	"math/rand"
	"os"
	"path/filepath"
	"sort"
	"strconv"
	"strings"
	"time"

	"com.tuntun.rangers/node/src/common"
	"com.tuntun.rangers/node/src/eth_tx"
	"com.tuntun.rangers/node/src/executor"
	"com.tuntun.rangers/node/src/middleware/db"
	"com.tuntun.rangers/node/src/middleware/types"
	"com.tuntun.rangers/node/src/service"
	"com.tuntun.rangers/node/src/storage/account"
	"com.tuntun.rangers/node/src/utility"
	"com.tuntun.rangers/node/src/storage/rlp"
	"verif/harness/hx"
	"verif/harness/hxnode"
)

// ---------------------------------------------------------------- evaluation

func showInt(v *big.Int, err error) string {
	if err != nil {
		return "err"
	}
	if v == nil {
		return "nil"
	}
	return "ok " + v.String()
}

func parseBig(s string) (*big.Int, bool) {
	return new(big.Int).SetString(s, 10)
}

func showFloat(f *big.Float) string {
	neg := "0"
	if f.Signbit() {
		neg = "1"
	}
	if f.IsInf() {
		return "inf " + neg
	}
	if f.Sign() == 0 {
		return "zero " + neg
	}
	mant := new(big.Float)
	exp := f.MantExp(mant) // f = mant * 2^exp, 0.5 <= |mant| < 1
	p := int(f.MinPrec())
	mant.SetMantExp(mant, p) // integer with exactly MinPrec bits => odd
	m, acc := mant.Int(nil)
	if acc != big.Exact {
		return "inexact-mantissa"
	}
	m.Abs(m)
	return "fin " + neg + " " + m.String() + " " + strconv.Itoa(exp-p)
}

func evmValue(v *big.Int) string {
	to := common.HexToAddress("0x1111111111111111111111111111111111111111")
	tx := eth_tx.NewTransaction(7, to, v, 21000, big.NewInt(1000000000), []byte{0xca, 0xfe})
	enc, err := rlp.EncodeToBytes(tx)
	if err != nil {
		return "rlp-encode-error"
	}
	dec := new(eth_tx.Transaction)
	if err := rlp.DecodeBytes(enc, dec); err != nil {
		return "rlp-decode-error"
	}
	sender := common.HexToAddress("0x2222222222222222222222222222222222222222")
	conv := eth_tx.ConvertTx(dec, sender, enc)
	_, tv, _, msg := executor.VerifC18DecodeContractData(conv.Data)
	if msg != "" || tv == nil {
		return "err"
	}
	return "ok " + tv.String()
}

const hugeExp = 150000
const sizeLimit = 40000000

// xferRun: service.ChangeAssets (game.go: transferBalance -> StrToBigInt, AddBalance, SubBalance,
// response BigIntToStr) on a fresh AccountDB whose source account holds srcBal.
func xferRun(srcBal *big.Int, amount string) string {
	mem, err := db.NewMemDatabase()
	if err != nil {
		return "memdb-error"
	}
	adb, err := account.NewAccountDB(common.Hash{}, account.NewDatabase(mem))
	if err != nil {
		return "accountdb-error"
	}
	src := common.HexToAddress("0x5555555555555555555555555555555555555555")
	dst := common.HexToAddress("0x6666666666666666666666666666666666666666")
	adb.SetBalance(src, srcBal)
	res, ok := service.ChangeAssets(src.String(), map[string]types.TransferData{dst.String(): {Balance: amount}}, adb)
	flag := "fail"
	if ok {
		flag = "ok"
	}
	return "xfer " + flag + " " + adb.GetBalance(src).String() + " " + adb.GetBalance(dst).String() + " " + strings.ReplaceAll(res, " ", "_")
}

// ftRun executes the steps of an `ft` op on a fresh AccountDB.
func ftRun(d uint64, steps []string) string {
	mem, err := db.NewMemDatabase()
	if err != nil {
		return "memdb-error"
	}
	adb, err := account.NewAccountDB(common.Hash{}, account.NewDatabase(mem))
	if err != nil {
		return "accountdb-error"
	}
	const name = "VERIFTOKEN"
	contract := common.HexToAddress("0x3333333333333333333333333333333333333333")
	user := common.HexToAddress("0x4444444444444444444444444444444444444444")
	if !adb.AddERC20Binding(name, contract, 3, d) {
		return "binding-error"
	}
	out := []string{"ft"}
	show := func(v *big.Int) string {
		if v == nil {
			return "nil"
		}
		return v.String()
	}
	for _, st := range steps {
		if st == "g" {
			out = append(out, "g:"+show(adb.GetFT(user, name)))
			continue
		}
		if len(st) < 2 {
			return "bad-op"
		}
		n, ok := parseBig(st[1:])
		if !ok {
			return "bad-op"
		}
		switch st[0] {
		case 's':
			adb.SetFT(user, name, n)
			out = append(out, "s")
		case 'a':
			adb.AddFT(user, name, n)
			out = append(out, "a")
		case 'u':
			left, ok := adb.SubFT(user, name, n)
			flag := "0"
			if ok {
				flag = "1"
			}
			out = append(out, "u:"+flag+":"+show(left))
		default:
			return "bad-op"
		}
	}
	return strings.Join(out, " ")
}

// exec evaluates one op line against the implementation.
func exec(op string) string {
	w := strings.Fields(op)
	if len(w) == 0 {
		return "bad-op"
	}
	if res, ok := execGrowth(w); ok {
		return res
	}
	switch {
	case w[0] == "cfg" && len(w) == 4:
		setCfg(w[1] == "1", w[2] == "1", w[3] == "1")
		return "cfg"
	case w[0] == "parse" && len(w) == 3:
		b, err := hx.UnHex(w[1])
		d, err2 := strconv.ParseInt(w[2], 10, 64)
		if err != nil || err2 != nil {
			return "bad-op"
		}
		// a finite amount with a binary exponent beyond hugeExp would make Go build an
		// integer of hundreds of megabytes (and print it): not evaluated; the driver answers
		// `unmodelled` by the same rule.
		if f, _, e := big.ParseFloat(string(b), 10, 512, big.AwayFromZero); e == nil && !f.IsInf() && f.Sign() != 0 && f.MantExp(nil) > hugeExp {
			// ... unless the multiplication by 10^d is certain to overflow to +-Inf (result 0, cheap)
			dd := d
			if dd < 0 {
				dd = 0
			}
			if int64(f.MantExp(nil))+int64(pow10(int(dd)).BitLen())-1 <= big.MaxExp {
				return "skipped-huge"
			}
		}
		v, e := utility.VerifC18StrToBigInt(string(b), d)
		res := showInt(v, e)
		retain(op, v)
		if d == 18 { // the exported entry point must agree with the hook
			v2, e2 := utility.StrToBigInt(string(b))
			if r2 := showInt(v2, e2); r2 != res {
				return "hook-disagrees " + res + " vs " + r2
			}
		}
		return res
	case w[0] == "pf" && len(w) == 2:
		b, err := hx.UnHex(w[1])
		if err != nil {
			return "bad-op"
		}
		f, _, e := big.ParseFloat(string(b), 10, 512, big.AwayFromZero)
		if e != nil {
			return "err"
		}
		return showFloat(f)
	case w[0] == "fmt" && len(w) == 3:
		n, ok := parseBig(w[1])
		p, err := strconv.Atoi(w[2])
		if !ok || err != nil {
			return "bad-op"
		}
		return unchanged(n, w[1], "s "+utility.VerifC18BigIntToStr(n, p))
	case w[0] == "tostr" && len(w) == 2:
		n, ok := parseBig(w[1])
		if !ok {
			return "bad-op"
		}
		return unchanged(n, w[1], "s "+utility.BigIntToStr(n))
	case w[0] == "nodot" && len(w) == 2:
		n, ok := parseBig(w[1])
		if !ok {
			return "bad-op"
		}
		return unchanged(n, w[1], "s "+utility.BigIntToStrWithoutDot(n))
	case w[0] == "erc20" && len(w) == 3:
		n, ok := parseBig(w[1])
		d, err := strconv.ParseInt(w[2], 10, 64)
		if !ok || err != nil {
			return "bad-op"
		}
		v := utility.FormatDecimalForERC20(n, d)
		retain(op, v)
		return unchanged(n, w[1], showInt(v, nil))
	case w[0] == "rocket" && len(w) == 3:
		n, ok := parseBig(w[1])
		d, err := strconv.ParseInt(w[2], 10, 64)
		if !ok || err != nil {
			return "bad-op"
		}
		v := utility.FormatDecimalForRocket(n, d)
		retain(op, v)
		return unchanged(n, w[1], showInt(v, nil))
	case w[0] == "ft" && len(w) >= 2:
		d, err := strconv.ParseUint(w[1], 10, 64)
		if err != nil {
			return "bad-op"
		}
		return ftRun(d, w[2:])
	case w[0] == "xfer" && len(w) == 3:
		n, ok := parseBig(w[1])
		b, err := hx.UnHex(w[2])
		if !ok || err != nil {
			return "bad-op"
		}
		if f, _, e := big.ParseFloat(string(b), 10, 512, big.AwayFromZero); e == nil && !f.IsInf() && f.Sign() != 0 && f.MantExp(nil) > hugeExp {
			return "skipped-huge"
		}
		return xferRun(n, string(b))
	case w[0] == "stake" && len(w) == 2:
		n, err := strconv.ParseUint(w[1], 10, 64)
		if err != nil {
			return "bad-op"
		}
		v := utility.Float64ToBigInt(float64(n))
		retain(op, v)
		return showInt(v, nil)
	case w[0] == "f64" && len(w) == 2:
		b, err := strconv.ParseUint(w[1], 10, 64)
		if err != nil {
			return "bad-op"
		}
		x := math.Float64frombits(b)
		if x != x {
			// big.Float.SetFloat64(NaN) panics with ErrNaN: confirm and report as its own class
			if r := hx.Guard(func() string { utility.Float64ToBigInt(x); return "nan-accepted" }); strings.HasPrefix(r, "PANIC") {
				return "nan-panic"
			}
			return "nan-accepted"
		}
		return showInt(utility.Float64ToBigInt(x), nil)
	case w[0] == "u64" && len(w) == 2:
		n, err := strconv.ParseUint(w[1], 10, 64)
		if err != nil {
			return "bad-op"
		}
		v := utility.Uint64ToBigInt(n)
		retain(op, v)
		return showInt(v, nil)
	case w[0] == "stakearg" && len(w) == 2:
		n, ok := parseBig(w[1])
		if !ok {
			return "bad-op"
		}
		v, err := strconv.ParseUint(utility.BigIntToStrWithoutDot(n), 10, 0)
		if err != nil {
			return "err"
		}
		return "ok " + strconv.FormatUint(v, 10)
	case w[0] == "basen" && len(w) == 3:
		n, ok := parseBig(w[1])
		b, err := strconv.Atoi(w[2])
		if !ok || err != nil || n.Sign() < 0 {
			return "bad-op"
		}
		if b < 2 || b > 16 {
			return "skipped-domain" // base 1 / negative n: the Go loop never terminates; base 0: division by zero; base > 16: index out of range
		}
		return "s " + utility.BigIntBase10toN(n, b)
	case w[0] == "calldata" && len(w) == 2:
		n, ok := parseBig(w[1])
		if !ok || n.Sign() < 0 {
			return "bad-op"
		}
		cd := common.GenerateCallDataBigInt(n)
		return "s " + cd + " arg-after=" + n.String() // BigIntBase10toN consumes its argument: the caller's big.Int is left at 0
	case w[0] == "size" && len(w) == 3:
		b, err := hx.UnHex(w[1])
		d, err2 := strconv.ParseInt(w[2], 10, 64)
		if err != nil || err2 != nil {
			return "bad-op"
		}
		if f, _, e := big.ParseFloat(string(b), 10, 512, big.AwayFromZero); e == nil && !f.IsInf() && f.Sign() != 0 && f.MantExp(nil) > sizeLimit {
			dd := d
			if dd < 0 {
				dd = 0
			}
			if int64(f.MantExp(nil))+int64(pow10(int(dd)).BitLen())-1 <= big.MaxExp {
				return "skipped-huge"
			}
		}
		v, e := utility.VerifC18StrToBigInt(string(b), d)
		if e != nil || v == nil {
			return "err"
		}
		return "bits " + strconv.Itoa(v.BitLen())
	case w[0] == "evmval" && len(w) == 2:
		n, ok := parseBig(w[1])
		if !ok {
			return "bad-op"
		}
		return evmValue(n)
	}
	return "bad-op"
}

// ---------------------------------------------------------------- generators

var ten = big.NewInt(10)

func pow10(k int) *big.Int { return new(big.Int).Exp(ten, big.NewInt(int64(k)), nil) }
func pow2(k int) *big.Int  { return new(big.Int).Lsh(big.NewInt(1), uint(k)) }

func randDigits(r *hx.Rng, n int) string {
	var sb strings.Builder
	mode := r.Intn(10)
	for i := 0; i < n; i++ {
		switch {
		case mode == 0:
			sb.WriteByte('9')
		case mode == 1:
			sb.WriteByte('0')
		case mode == 2 && i > 0:
			sb.WriteByte("09"[r.Intn(2)])
		default:
			sb.WriteByte(byte('0' + r.Intn(10)))
		}
	}
	return sb.String()
}

// genNat: boundary-biased non-negative integer. classes are counted in dist.
func genNat(r *hx.Rng, dist map[string]int) *big.Int {
	c := r.Intn(100)
	switch {
	case c < 4:
		dist["int:small"]++
		return big.NewInt(int64(r.Intn(12)))
	case c < 22: // 10^k + {-1,0,1}
		dist["int:10^k"]++
		k := r.Intn(100)
		if r.Chance(1, 6) {
			k = r.Intn(170)
		}
		v := pow10(k)
		v.Add(v, big.NewInt(int64(r.Intn(3)-1)))
		if v.Sign() < 0 {
			v.SetInt64(0)
		}
		return v
	case c < 44: // 2^k + {-1,0,1}, k up to 520 (crosses 2^256, 2^510, 2^512 on purpose)
		dist["int:2^k"]++
		k := r.Intn(521)
		if r.Chance(1, 3) {
			k = r.Pick(63, 64, 127, 128, 255, 256, 257, 318, 319, 320, 509, 510, 511, 512, 513, 520)
		}
		v := pow2(k)
		v.Add(v, big.NewInt(int64(r.Intn(3)-1)))
		return v
	case c < 50: // a * 10^k (trailing zeros), a small
		dist["int:a*10^k"]++
		v := pow10(r.Intn(80))
		return v.Mul(v, big.NewInt(int64(1+r.Intn(999))))
	case c < 58: // just below 2^256 / uint256 extremes
		dist["int:uint256-edge"]++
		v := pow2(256)
		v.Sub(v, big.NewInt(int64(1+r.Intn(1000))))
		return v
	case c < 92: // random 1..78 digits (the property's domain)
		dist["int:1-78digits"]++
		v, _ := parseBig("1" + randDigits(r, r.Intn(78)))
		if r.Bool() {
			v2, _ := parseBig(randDigits(r, 1+r.Intn(78)))
			return v2
		}
		return v
	default: // 79..170 digits: past the proven bound, the model must still agree
		dist["int:79-170digits"]++
		v, _ := parseBig("1" + randDigits(r, 78+r.Intn(92)))
		return v
	}
}

func genInt(r *hx.Rng, dist map[string]int) *big.Int {
	v := genNat(r, dist)
	if r.Chance(1, 4) {
		v.Neg(v)
	}
	return v
}

// genDecimals: token decimal count, mostly 0..18.
func genDecimals(r *hx.Rng) int64 {
	c := r.Intn(100)
	switch {
	case c < 80:
		return int64(r.Intn(19))
	case c < 88:
		return int64(r.Pick(0, 6, 8, 9, 18))
	case c < 96:
		return int64(19 + r.Intn(20)) // more than 18 decimals: outside the property, model must agree
	case c < 98:
		return int64(-1 - r.Intn(3))
	default:
		return int64(40 + r.Intn(300))
	}
}

// genPlain: plain decimal string (the property's domain when fd <= 18 and id <= 78).
func genPlain(r *hx.Rng, dist map[string]int) string {
	sign := ""
	switch r.Intn(8) {
	case 0:
		sign = "-"
	case 1:
		sign = "+"
	}
	id := r.Intn(79)
	if r.Chance(1, 5) {
		id = r.Pick(0, 1, 2, 59, 60, 77, 78)
	}
	fd := r.Intn(19)
	c := r.Intn(100)
	switch {
	case c < 8:
		fd = 19 + r.Intn(22) // 19..40 fractional digits: truncation, not exactness
		dist["plain:frac19-40"]++
	case c < 11:
		fd = 41 + r.Intn(300) // exp5 beyond the pow5 table (28..) and beyond exactness of pow5 (>248)
		dist["plain:frac41+"]++
	case c < 14:
		id = 79 + r.Intn(90)
		dist["plain:int79+"]++
	default:
		dist["plain:domain"]++
	}
	ip := randDigits(r, id)
	if id > 0 && r.Chance(1, 4) {
		ip = strings.Repeat("0", r.Intn(4)) + ip
	}
	fp := randDigits(r, fd)
	switch {
	case fd == 0 && id == 0:
		return sign + "0"
	case fd == 0 && r.Bool():
		return sign + ip // no radix point
	default:
		return sign + ip + "." + fp // includes "5." and ".5"
	}
}

// genExp: mantissa with e/E/p/P exponent (accepted by ParseFloat as an amount).
func genExp(r *hx.Rng, dist map[string]int) string {
	m := genPlain(r, map[string]int{})
	if len(m) > 50 && r.Chance(2, 3) {
		m = m[:1+r.Intn(50)]
		if m == "-" || m == "+" || m == "." || m == "-." || m == "+." {
			m += "7"
		}
	}
	ch := string("eEpP"[r.Intn(4)])
	sg := []string{"", "+", "-"}[r.Intn(3)]
	var e int
	c := r.Intn(100)
	switch {
	case c < 50:
		e = r.Intn(40)
	case c < 80:
		e = r.Intn(400)
	case c < 95:
		e = r.Intn(3000)
	default:
		e = r.Pick(27, 28, 248, 249, 250, 275, 276, 283, 284, 539, 540, 1000, 2999)
	}
	dist["exp:"+strings.ToLower(ch)+sg]++
	z := ""
	if r.Chance(1, 8) {
		z = "00"
	}
	return m + ch + sg + z + strconv.Itoa(e)
}

var malformedFixed = []string{
	"", "Inf", "inf", "+Inf", "-Inf", "+inf", "-inf", "INF", "Infinity", "NaN", "nan", "-", "+", ".", "-.", "+.",
	"e5", ".e5", "1e", "1e+", "1e-", "1p", "1E+", "--1", "++1", "+-1", "1..2", "1.2.3", "..1", "0x10", "0X1p3", "0b101", "0o17",
	"1_000", "_1", "1_", " 1", "1 ", "1\t", "\n1", "abc", "1a", "1f", "12,5", "1,000.00", "١٢٣", "1e５", "１", "1e1e1", "1p1p1", "1e1.5",
	"1e99999999999999999999", "1e-99999999999999999999", "1e9223372036854775807", "1e9223372036854775808", "1e-9223372036854775808",
	"1e-9223372036854775809", "0.1e-9223372036854775808", "1e2147483647", "1e2147483646", "1e-2147483648", "1e-2147483649",
	"1p2147483646", "1p2147483647", "1p2147483648", "1p-2147483648", "1p-2147483649", "1p-2147483650", "0.5p-2147483647",
	"1e1000000000", "1e-1000000000", "1e-600000000", "123456789e-1500000000", "7e2000000000", "0e99999", "0e999999999999999999999", "0p5", "0.000e-77",
	"-0", "+0", "-0.0", "-0e5", "00", "007", "0.", ".0", "-.0", "5.", ".5", "+.5e-3", "-5.e+2", "1e+00018", "1E-018", "1e-0",
	"0.0000000000000000001", "0.0000000000000000009", "0.9999999999999999999", "0.99999999999999999999999999999999999999",
	"1.0000000000000000000000000000000000000000000000000000000000000000000000000000000000000000000000001",
	"340282366920938463463374607431768211455", "115792089237316195423570985008687907853269984665640564039457584007913129639935",
	"115792089237316195423570985008687907853269984665640564039457584007913129639935.999999999999999999",
	"999999999999999999999999999999999999999999999999999999999999999999999999999999.999999999999999999",
	"\x00", "1\x00", "\xff\xfe", "1e\xff", "0.1\x80",
}

func genMalformed(r *hx.Rng, dist map[string]int) string {
	c := r.Intn(100)
	switch {
	case c < 55:
		dist["mal:fixed"]++
		return malformedFixed[r.Intn(len(malformedFixed))]
	case c < 75: // a valid string with one byte mutated / inserted / deleted
		dist["mal:mutated"]++
		s := []byte(genPlain(r, map[string]int{}))
		if r.Bool() {
			s = []byte(genExp(r, map[string]int{}))
		}
		if len(s) == 0 {
			return "."
		}
		i := r.Intn(len(s))
		alphabet := "0123456789.+-eEpP_xXinfIN ,"
		switch r.Intn(3) {
		case 0:
			s[i] = alphabet[r.Intn(len(alphabet))]
		case 1:
			s = append(s[:i], append([]byte{alphabet[r.Intn(len(alphabet))]}, s[i:]...)...)
		default:
			s = append(s[:i], s[i+1:]...)
		}
		return string(s)
	case c < 90: // random string over the grammar's alphabet
		dist["mal:alphabet"]++
		alphabet := "0123456789..+-eEpP"
		n := r.Intn(12)
		b := make([]byte, n)
		for i := range b {
			b[i] = alphabet[r.Intn(len(alphabet))]
		}
		return string(b)
	default:
		dist["mal:bytes"]++
		return string(r.Bytes(r.Intn(8)))
	}
}

func parseOp(s string, d int64) string { return "parse " + hx.Hex([]byte(s)) + " " + strconv.FormatInt(d, 10) }

// genFT: a short history of SetFT/AddFT/SubFT/GetFT on a token with d decimals.
func genFT(r *hx.Rng, dist map[string]int) string {
	d := genDecimals(r)
	if d < 0 {
		d = int64(r.Intn(19))
	}
	var sb strings.Builder
	sb.WriteString("ft " + strconv.FormatInt(d, 10))
	n := 1 + r.Intn(6)
	var last []*big.Int
	amt := func(forSub bool) string {
		if forSub && len(last) > 0 && r.Chance(3, 4) {
			v := new(big.Int).Set(last[r.Intn(len(last))])
			switch r.Intn(4) {
			case 0:
				v.Rsh(v, 1)
			case 1:
				v.Add(v, pow10(int(18-min64(d, 18))))
			case 2:
				v.Sub(v, big.NewInt(1))
			}
			if v.Sign() < 0 {
				v.SetInt64(0)
			}
			return v.String()
		}
		v := genNat(r, dist)
		if r.Chance(1, 12) {
			v.Neg(v)
		}
		last = append(last, new(big.Int).Abs(v))
		return v.String()
	}
	for i := 0; i < n; i++ {
		switch r.Intn(5) {
		case 0:
			sb.WriteString(" s" + amt(false))
		case 1:
			sb.WriteString(" a" + amt(false))
		case 2:
			sb.WriteString(" u" + amt(true))
		default:
			sb.WriteString(" g")
		}
		if r.Chance(1, 2) {
			sb.WriteString(" g")
		}
	}
	return sb.String()
}

func min64(a, b int64) int64 {
	if a < b {
		return a
	}
	return b
}

// mathRand: a math/rand source seeded from the run's PRNG (for big.Int.Rand)
func mathRand(r *hx.Rng) *rand.Rand { return rand.New(rand.NewSource(int64(r.U64() >> 1))) }

// genU64: boundary-biased uint64 (stakes): small, around 2^53 (float64 exactness limit), 2^63, max.
func genU64(r *hx.Rng, dist map[string]int) uint64 {
	switch r.Intn(8) {
	case 0:
		dist["u64:small"]++
		return uint64(r.Intn(100000))
	case 1:
		dist["u64:2^53"]++
		return (uint64(1) << 53) + uint64(r.Intn(41)) - 20
	case 2:
		dist["u64:2^k"]++
		return (uint64(1) << uint(r.Intn(64))) + uint64(r.Intn(5)) - 2
	case 3:
		dist["u64:top"]++
		return ^uint64(0) - uint64(r.Intn(3000))
	case 4:
		dist["u64:halfway"]++ // exactly between two float64s above 2^53: ties-to-even
		k := uint(54 + r.Intn(10))
		return (uint64(1) << k) + (uint64(2*r.Intn(1000)+1) << (k - 53))
	default:
		dist["u64:random"]++
		return r.U64() >> uint(r.Intn(64))
	}
}

// genF64bits: float64 bit patterns: amounts, specials, denormals, huge, random.
func genF64bits(r *hx.Rng, dist map[string]int) uint64 {
	switch r.Intn(8) {
	case 0:
		dist["f64:special"]++
		return []uint64{0, 1 << 63, 0x7ff0000000000000, 0xfff0000000000000, 0x7ff8000000000000, 0x7ff0000000000001, 1, 0x000fffffffffffff, 0x0010000000000000, 0x7fefffffffffffff, 0x3ff0000000000000}[r.Intn(11)]
	case 1:
		dist["f64:denormal"]++
		return r.U64() & 0x800fffffffffffff
	case 2, 3, 4:
		dist["f64:amount"]++ // a decimal amount as a reward calculation would produce it
		x := float64(r.Intn(1000000)) / float64(1+r.Intn(1000)) * []float64{1, 0.35, 0.1, 1e-9, 1e9, 1e-18}[r.Intn(6)]
		if r.Chance(1, 6) {
			x = -x
		}
		return math.Float64bits(x)
	case 5:
		dist["f64:integer"]++
		return math.Float64bits(float64(genU64(r, dist)))
	default:
		dist["f64:random"]++
		b := r.U64()
		if (b>>52)&0x7ff > 1023+700 { // keep the integer below ~2^760 so that printing stays cheap
			b &^= uint64(0x400) << 52
		}
		return b
	}
}

// genSizeStr: strings whose result size is driven by the exponent, not the length.
func genSizeStr(r *hx.Rng, dist map[string]int) string {
	dist["size"]++
	m := strconv.Itoa(1 + r.Intn(9999))
	switch r.Intn(4) {
	case 0:
		return m + "e" + strconv.Itoa(r.Intn(2000000))
	case 1:
		return m + "p" + strconv.Itoa(r.Intn(8000000))
	case 2:
		return genPlain(r, map[string]int{})
	default:
		return m + "." + randDigits(r, r.Intn(30)) + "e" + strconv.Itoa(r.Intn(3000))
	}
}

// genOp produces one op line.
func genOp(r *hx.Rng, dist map[string]int) string {
	c := r.Intn(146)
	switch {
	case c >= 128:
		return genGrowthOp(r, dist)
	case c >= 124:
		bal := genNat(r, dist)
		var amt string
		switch r.Intn(6) {
		case 0:
			amt = genMalformed(r, dist)
		case 1:
			amt = genExp(r, dist)
		case 2: // exactly the balance / one unit more
			v := new(big.Int).Set(bal)
			if r.Bool() {
				v.Add(v, big.NewInt(1))
			}
			amt = utility.BigIntToStr(v)
		default:
			amt = genPlain(r, dist)
		}
		return "xfer " + bal.String() + " " + hx.Hex([]byte(amt))
	case c >= 120:
		return "size " + hx.Hex([]byte(genSizeStr(r, dist))) + " " + strconv.FormatInt(int64(r.Pick(18, 18, 0, 6)), 10)
	case c >= 117:
		if r.Bool() {
			return "calldata " + genNat(r, dist).String()
		}
		return "basen " + genNat(r, dist).String() + " " + strconv.Itoa(2+r.Intn(15))
	case c >= 114:
		if r.Chance(2, 3) { // an 18-decimal amount whose whole-coin part fits (or just misses) 64 bits
			v := new(big.Int).Mul(new(big.Int).SetUint64(genU64(r, dist)), pow10(18))
			v.Add(v, new(big.Int).Rand(mathRand(r), pow10(18)))
			if r.Chance(1, 10) {
				v.Add(v, new(big.Int).Mul(pow2(64), pow10(18)))
			}
			return "stakearg " + v.String()
		}
		return "stakearg " + genInt(r, dist).String()
	case c >= 112:
		return "u64 " + strconv.FormatUint(genU64(r, dist), 10)
	case c >= 108:
		return "f64 " + strconv.FormatUint(genF64bits(r, dist), 10)
	case c >= 102:
		return "stake " + strconv.FormatUint(genU64(r, dist), 10)
	case c >= 100:
		return genFT(r, dist)
	case c < 26:
		s := genPlain(r, dist)
		d := int64(18)
		if r.Chance(1, 4) {
			d = genDecimals(r)
		}
		return parseOp(s, d)
	case c < 34:
		return "pf " + hx.Hex([]byte(genPlain(r, dist)))
	case c < 42:
		s := genExp(r, dist)
		if r.Bool() {
			return "pf " + hx.Hex([]byte(s))
		}
		return parseOp(s, 18)
	case c < 52:
		s := genMalformed(r, dist)
		if r.Chance(1, 3) {
			return "pf " + hx.Hex([]byte(s))
		}
		d := int64(18)
		if r.Chance(1, 6) {
			d = genDecimals(r)
		}
		return parseOp(s, d)
	case c < 62:
		return "fmt " + genInt(r, dist).String() + " " + strconv.FormatInt(genDecimals(r), 10)
	case c < 68:
		if r.Bool() {
			return "tostr " + genInt(r, dist).String()
		}
		return "nodot " + genInt(r, dist).String()
	case c < 79:
		return "erc20 " + genInt(r, dist).String() + " " + strconv.FormatInt(genDecimals(r), 10)
	case c < 90:
		return "rocket " + genInt(r, dist).String() + " " + strconv.FormatInt(genDecimals(r), 10)
	default:
		return "evmval " + genNat(r, dist).String()
	}
}

// ---------------------------------------------------------------- searcher (direct property oracle)

type viol struct{ key, op, detail string }

// exactPlain computes, with integer arithmetic only, the integer a plain
// decimal string denotes at 18 decimals: sign * N * 10^(18-f) (f <= 18).
func exactPlain(s string) (*big.Int, bool) {
	neg := false
	t := s
	if strings.HasPrefix(t, "-") {
		neg, t = true, t[1:]
	} else if strings.HasPrefix(t, "+") {
		t = t[1:]
	}
	ip, fp := t, ""
	if i := strings.IndexByte(t, '.'); i >= 0 {
		ip, fp = t[:i], t[i+1:]
	}
	if len(ip)+len(fp) == 0 || len(fp) > 18 {
		return nil, false
	}
	for _, c := range ip + fp {
		if c < '0' || c > '9' {
			return nil, false
		}
	}
	n, _ := parseBig("0" + ip + fp)
	n.Mul(n, pow10(18-len(fp)))
	if neg {
		n.Neg(n)
	}
	return n, true
}

func search(r *hx.Rng, n int, dist map[string]int) (evals int, distinct int, vs []viol, samples []string) {
	seen := map[string]bool{}
	lim := pow2(256)
	add := func(key, op, detail string) {
		if len(vs) < 200 {
			vs = append(vs, viol{key, op, detail})
			fmt.Println("VIOL " + key + " " + op + " :: " + detail) // printed when found, not at the end of the run
		}
	}
	inDomain := func(v *big.Int) bool { return new(big.Int).Abs(v).Cmp(lim) < 0 }
	evals += smallScope(add) // deterministic families before anything random
	seen["small-scope"] = true
	defer func() {
		evals += historyPhase(r.Fork(), 600+n/40, add)
		evals += concurrencyPhase(r.Fork(), 400+n/60, 8, add)
	}()
	for i := 0; i < n; i++ {
		evals++
		if i%16 == 0 {
			setCfg(true, true, true) // back to the dev schedule (the ft case switches flags)
		}
		switch r.Intn(9) {
		case 8: // stake / refund helpers: exact below 2^53 whole coins, and agreeing with each other
			n := genU64(r, dist)
			if n >= 1<<53 {
				n >>= 11
			}
			op := "stake " + strconv.FormatUint(n, 10)
			seen[op] = true
			want := new(big.Int).Mul(new(big.Int).SetUint64(n), pow10(18))
			if got := utility.Float64ToBigInt(float64(n)); got == nil || got.Cmp(want) != 0 {
				add("stake-exact", op, "Float64ToBigInt(float64(n)) = "+showInt(got, nil)+" want "+want.String())
			}
			if got := utility.Uint64ToBigInt(n); got == nil || got.Cmp(want) != 0 {
				add("uint64-exact", "u64 "+strconv.FormatUint(n, 10), "Uint64ToBigInt(n) = "+showInt(got, nil)+" want "+want.String())
			}
			if v, err := strconv.ParseUint(utility.BigIntToStrWithoutDot(want), 10, 0); err != nil || v != n {
				add("stakearg", "stakearg "+want.String(), "ParseUint(BigIntToStrWithoutDot(n*10^18)) = "+strconv.FormatUint(v, 10))
			}
		case 7: // a game transfer of an in-domain decimal amount moves exactly that amount (game.go)
			bal := genNat(r, dist)
			if !inDomain(bal) {
				continue
			}
			str := strings.TrimLeft(genPlain(r, dist), "+-")
			amt, ok := exactPlain(str)
			if !ok || amt.BitLen() > 256 {
				continue
			}
			op := "xfer " + bal.String() + " " + hx.Hex([]byte(str))
			seen[op] = true
			got := hx.Guard(func() string { return exec(op) })
			var want string
			if amt.Cmp(bal) <= 0 {
				left := new(big.Int).Sub(bal, amt)
				want = "xfer ok " + left.String() + " " + amt.String() + " {\"balance\":\"" + refBigIntToStr(left) + "\"}"
			} else {
				want = "xfer fail " + bal.String() + " 0 Transfer_Balance_Failed"
			}
			if got != want {
				add("game-transfer", op, "ChangeAssets = "+got+" want "+want)
			}
		case 6: // a balance written to an 18-decimal bound token and read back / moved is unchanged
			v := genNat(r, dist)
			if !inDomain(v) {
				continue
			}
			// on both sides of the fork flags the balance paths read (Proposal 002: setData vs SetData)
			setCfg(r.Bool(), r.Bool(), r.Bool())
			op := "ft 18 s" + v.String() + " g a" + v.String() + " g u" + v.String() + " g"
			seen[op] = true
			twice := new(big.Int).Add(v, v).String()
			want := "ft s g:" + v.String() + " a g:" + twice + " u:1:" + v.String() + " g:" + v.String()
			if got := hx.Guard(func() string { return exec(op) }); got != want {
				add("ft-18", op, "SetFT/GetFT/AddFT/SubFT at 18 decimals = "+got+" want "+want)
			}
			// d in 0..18: written and read back = rounded down to the token granularity 10^(18-d)
			d := r.Intn(19)
			k := pow10(18 - d)
			fl := new(big.Int).Quo(v, k)
			fl.Mul(fl, k)
			op2 := "ft " + strconv.Itoa(d) + " s" + v.String() + " g"
			seen[op2] = true
			if got := hx.Guard(func() string { return exec(op2) }); got != "ft s g:"+fl.String() {
				add("ft-granularity", op2, "SetFT then GetFT = "+got+" want ft s g:"+fl.String())
			}
		case 0: // format -> parse round trip over the balance / EVM word range, both signs
			v := genInt(r, dist)
			if !inDomain(v) {
				continue
			}
			op := "roundtrip " + v.String()
			seen[op] = true
			s := utility.BigIntToStr(v)
			if s != refBigIntToStr(v) { // independent reference, not the code under test
				add("format-reference", "tostr "+v.String(), "BigIntToStr = "+s+" want "+refBigIntToStr(v))
			}
			got, err := utility.StrToBigInt(s)
			if err != nil || got == nil || got.Cmp(v) != 0 {
				add("roundtrip-18", op, "StrToBigInt(BigIntToStr(n)) = "+showInt(got, err)+" via "+s)
			}
			if got, err := utility.StrToBigInt(refBigIntToStr(v)); err != nil || got == nil || got.Cmp(v) != 0 {
				add("roundtrip-18", op, "StrToBigInt(reference string) = "+showInt(got, err)+" via "+refBigIntToStr(v))
			}
			s2 := utility.VerifC18BigIntToStr(v, 18)
			got2, err2 := utility.StrToBigInt(s2)
			if err2 != nil || got2 == nil || got2.Cmp(v) != 0 {
				add("roundtrip-18", op, "StrToBigInt(bigIntToStr(n,18)) = "+showInt(got2, err2)+" via "+s2)
			}
		case 1: // a plain decimal string with <= 18 fractional and <= 78 integer digits is parsed exactly
			s := genPlain(r, dist)
			want, ok := exactPlain(s)
			if !ok {
				continue
			}
			if ip := strings.TrimLeft(strings.TrimLeft(s, "+-"), "0"); strings.IndexByte(ip+".", '.') > 78 {
				continue
			}
			op := "exact " + hx.Hex([]byte(s))
			seen[op] = true
			got, err := utility.StrToBigInt(s)
			if err != nil || got == nil || got.Cmp(want) != 0 {
				add("parse-exact", op, "StrToBigInt("+strconv.Quote(s)+") = "+showInt(got, err)+" want "+want.String())
			}
		case 2: // re-scaling at 18 decimals is the identity
			v := genInt(r, dist)
			if !inDomain(v) {
				continue
			}
			op := "rescale18 " + v.String()
			seen[op] = true
			if got := utility.FormatDecimalForERC20(v, 18); got == nil || got.Cmp(v) != 0 {
				add("erc20-18", op, "FormatDecimalForERC20(n,18) = "+showInt(got, nil))
			}
			if got := utility.FormatDecimalForRocket(v, 18); got == nil || got.Cmp(v) != 0 {
				add("rocket-18", op, "FormatDecimalForRocket(n,18) = "+showInt(got, nil))
			}
		case 3: // token decimals 0..18: ledger -> token floors, token -> ledger scales exactly
			v := genInt(r, dist)
			if !inDomain(v) {
				continue
			}
			d := int64(r.Intn(19))
			op := "rescale " + v.String() + " " + strconv.FormatInt(d, 10)
			seen[op] = true
			sc := pow10(int(18 - d))
			wantE := new(big.Int).Quo(v, sc) // truncated division
			if got := utility.FormatDecimalForERC20(v, d); got == nil || got.Cmp(wantE) != 0 {
				add("erc20-floor", op, "FormatDecimalForERC20 = "+showInt(got, nil)+" want "+wantE.String())
			}
			wantR := new(big.Int).Mul(v, sc)
			if got := utility.FormatDecimalForRocket(v, d); got == nil || got.Cmp(wantR) != 0 {
				add("rocket-scale", op, "FormatDecimalForRocket = "+showInt(got, nil)+" want "+wantR.String())
			}
		case 4: // a value carried in a wrapped Ethereum transaction reaches the executor unchanged
			v := genNat(r, dist)
			if !inDomain(v) {
				continue
			}
			op := "evmval " + v.String()
			seen[op] = true
			if got := hx.Guard(func() string { return evmValue(v) }); got != "ok "+v.String() {
				add("evm-value", op, "ConvertTx->decodeContractData = "+got)
			}
		default: // exhaustive-ish small scope: every integer of a short window around a boundary
			base := genNat(r, dist)
			if !inDomain(base) {
				continue
			}
			for k := int64(-2); k <= 2; k++ {
				v := new(big.Int).Add(base, big.NewInt(k))
				if !inDomain(v) {
					continue
				}
				evals++
				got, err := utility.StrToBigInt(utility.BigIntToStr(v))
				if err != nil || got.Cmp(v) != 0 {
					add("roundtrip-18", "roundtrip "+v.String(), "StrToBigInt(BigIntToStr(n)) = "+showInt(got, err))
				}
			}
			seen["window "+base.String()] = true
		}
		if len(samples) < 4 && i%97 == 0 {
			for k := range seen {
				samples = append(samples, k)
				break
			}
		}
	}
	return evals, len(seen), vs, samples
}

// leads of DESIGN 6 (C18): not violations of C18 as stated (it speaks of decimal strings);
// observed and reported so that C06 can pick them up.
func leadNotes() []string {
	var out []string
	for _, s := range []string{"Inf", "-inf", "1e30", "1p3", "0x10", "1e-30", "1e1000000000"} {
		v, err := utility.StrToBigInt(s)
		out = append(out, strconv.Quote(s)+" -> "+showInt(v, err))
	}
	// resource observation (outside C18): result size is driven by the exponent, not the length.
	// Replayed with exponents that stay cheap; "9e272681876" (11 chars) would need ~10^9 bits.
	for _, s := range []string{"1e20000", "9e272681", "9e2726818"} {
		t0 := time.Now()
		v, err := utility.StrToBigInt(s)
		el := time.Since(t0)
		if err == nil && v != nil {
			out = append(out, fmt.Sprintf("size: %q (%d chars) -> %d bits, StrToBigInt took %dms", s, len(s), v.BitLen(), el.Milliseconds()))
		}
	}
	return out
}

// ---------------------------------------------------------------- main

func jsonMap(m map[string]int) string {
	ks := make([]string, 0, len(m))
	for k := range m {
		ks = append(ks, k)
	}
	sort.Strings(ks)
	var sb strings.Builder
	sb.WriteByte('{')
	for i, k := range ks {
		if i > 0 {
			sb.WriteByte(',')
		}
		sb.WriteString(strconv.Quote(k) + ":" + strconv.Itoa(m[k]))
	}
	sb.WriteByte('}')
	return sb.String()
}

func corpusOps() []string {
	dir := os.Getenv("VERIF_CORPUS")
	if dir == "" {
		return nil
	}
	files, _ := filepath.Glob(filepath.Join(dir, "*.ops"))
	sort.Strings(files)
	var out []string
	for _, f := range files {
		fh, err := os.Open(f)
		if err != nil {
			continue
		}
		sc := bufio.NewScanner(fh)
		sc.Buffer(make([]byte, 1<<20), 1<<24)
		for sc.Scan() {
			l := strings.TrimSpace(sc.Text())
			if l == "" || strings.HasPrefix(l, "#") {
				continue
			}
			out = append(out, l)
		}
		fh.Close()
	}
	return out
}

func main() {
	a := hx.Args()
	hxnode.BootServices("dev") // config, loggers, middleware, service (package loggers), vm, executors
	r := hx.NewRng(hx.SeedFromEnv())
	dist := map[string]int{}
	mode := a["mode"]
	if mode == "" {
		mode = "corr"
	}
	n := hx.ArgInt(a, "n", 20000)

	switch mode {
	case "exec":
		fmt.Println("ANSWER " + hx.Guard(func() string { return exec(a["op"]) }))
		return
	case "conc": // concurrency phase only (the -race build of the thorough tier runs this)
		nv := 0
		ev := concurrencyPhase(r, n, 12, func(key, op, detail string) {
			nv++
			if nv <= 50 {
				fmt.Println("VIOL " + key + " " + op + " :: " + detail)
			}
		})
		fmt.Printf("STATS {\"evaluations\":%d,\"distinct\":%d,\"violations\":%d,\"dist\":{}}\n", ev, n, nv)
		return
	case "search":
		ev, distinct, vs, samples := search(r, n, dist)
		for _, s := range samples {
			fmt.Println("SAMPLE " + s)
		}
		for _, s := range leadNotes() {
			fmt.Println("LEAD " + s)
		}
		fmt.Printf("STATS {\"evaluations\":%d,\"distinct\":%d,\"violations\":%d,\"dist\":%s}\n", ev, distinct, len(vs), jsonMap(dist))
		return
	}

	out, err := hx.NewOut(a["ops"], a["obs"])
	if err != nil {
		panic(err)
	}
	defer out.Close()
	nc := 0
	corpus := corpusOps()
	for _, op := range corpus {
		op := op
		out.Do(op, func() string { return execTracked(op) })
		nc++
	}
	// small-scope exhaustive part: every integer 0..1100 and its negation through all integer ops at all d in 0..18 (sampled d for speed)
	for v := int64(-1100); v <= 1100; v++ {
		d := (v%19 + 19) % 19
		for _, op := range []string{
			"tostr " + strconv.FormatInt(v, 10),
			"fmt " + strconv.FormatInt(v, 10) + " " + strconv.FormatInt(d, 10),
			"erc20 " + strconv.FormatInt(v*1000000007*1000003, 10) + " " + strconv.FormatInt(d, 10),
			"rocket " + strconv.FormatInt(v, 10) + " " + strconv.FormatInt(d, 10),
		} {
			op := op
			out.Do(op, func() string { return execTracked(op) })
		}
	}
	cfgR := r.Fork()
	kindRes := map[string]int{}  // op kind : result class
	branches := map[string]int{} // which branch of the real code an input steers into (by input shape)
	tally := func(op, res string) {
		c := res
		if i := strings.IndexByte(res, ' '); i >= 0 {
			c = res[:i]
		}
		kindRes[opKind(op)+":"+c]++
		for _, b := range branchTags(op, res) {
			branches[b]++
		}
	}
	for i := 0; i < n; i++ {
		if i%300 == 150 { // switch the fork flags the conversion paths read (Proposal 002 / 005 / 017)
			op := "cfg " + strconv.Itoa(cfgR.Intn(2)) + " " + strconv.Itoa(cfgR.Intn(2)) + " " + strconv.Itoa(cfgR.Intn(2))
			out.Do(op, func() string { return exec(op) })
		}
		op := genOp(r, dist)
		tally(op, out.Do(op, func() string { return execTracked(op) }))
	}
	// process-local history: the corpus once more, in a process that has by now executed every kind of
	// conversion at every decimal count under several fork configurations; the model is history-free, so any
	// dependence on earlier work shows as a mismatch. First under all-off flags, then back on the dev schedule.
	for _, c := range []string{"cfg 0 0 0", "cfg 1 1 1"} {
		c := c
		out.Do(c, func() string { return exec(c) })
		for _, op := range corpus {
			op := op
			out.Do(op, func() string { return execTracked(op) })
		}
	}
	fmt.Printf("STATS {\"ops\":%d,\"corpus_ops\":%d,\"kinds\":%s,\"results\":%s,\"dist\":%s,\"kind_result\":%s,\"branches\":%s}\n",
		out.N, nc, jsonMap(out.Kinds), jsonMap(out.Results), jsonMap(dist), jsonMap(kindRes), jsonMap(branches))
}
