// Model-growth round: ops that run more of the anchored code than the value path —
// decodeContractData with all outputs, ConvertTx's whole ContractData, the token layer of
// AccountDB (binding dispatch, bound and unbound paths, several tokens/accounts), the byte helpers,
// GetRawBalance.
package main

import (
	"encoding/json"
	"math/big"
	"strconv"
	"strings"

	"com.tuntun.rangers/node/src/common"
	"com.tuntun.rangers/node/src/eth_tx"
	"com.tuntun.rangers/node/src/executor"
	"com.tuntun.rangers/node/src/middleware/db"
	"com.tuntun.rangers/node/src/middleware/types"
	"com.tuntun.rangers/node/src/service"
	"com.tuntun.rangers/node/src/storage/account"
	"com.tuntun.rangers/node/src/storage/rlp"
	"com.tuntun.rangers/node/src/utility"
	"verif/harness/hx"
)

func decodeRun(p005, p017 bool, gl, tv, abi string) string {
	if f, _, e := big.ParseFloat(tv, 10, 512, big.AwayFromZero); e == nil && !f.IsInf() && f.Sign() != 0 && f.MantExp(nil) > hugeExp {
		return "skipped-huge"
	}
	setCfg(true, p005, p017)
	defer setCfg(true, true, true)
	b, err := json.Marshal(types.ContractData{GasLimit: gl, TransferValue: tv, AbiData: abi})
	if err != nil {
		return "json-error"
	}
	gas, v, input, msg := executor.VerifC18DecodeContractData(string(b))
	if msg != "" || v == nil {
		return "err"
	}
	return "ok " + strconv.FormatUint(gas, 10) + " " + v.String() + " " + hx.Hex(input)
}

func convertRun(v, gp *big.Int, gas uint64, payload []byte) string {
	to := common.HexToAddress("0x1111111111111111111111111111111111111111")
	tx := eth_tx.NewTransaction(9, to, v, gas, gp, payload)
	enc, err := rlp.EncodeToBytes(tx)
	if err != nil {
		return "rlp-encode-error"
	}
	dec := new(eth_tx.Transaction)
	if err := rlp.DecodeBytes(enc, dec); err != nil {
		return "rlp-decode-error"
	}
	conv := eth_tx.ConvertTx(dec, common.HexToAddress("0x2222222222222222222222222222222222222222"), enc)
	var cd types.ContractData
	if err := json.Unmarshal([]byte(conv.Data), &cd); err != nil {
		return "json-error"
	}
	h := func(s string) string { return hx.Hex([]byte(s)) }
	return "cd " + h(cd.GasPrice) + " " + h(cd.GasLimit) + " " + h(cd.TransferValue) + " " + h(cd.AbiData)
}

func tokName(t uint64) string { return "VTOK" + strconv.FormatUint(t, 10) }
func acctAddr(a uint64) common.Address {
	return common.BigToAddress(new(big.Int).Add(big.NewInt(0x7000), new(big.Int).SetUint64(a)))
}

func worldRun(steps []string) string {
	mem, err := db.NewMemDatabase()
	if err != nil {
		return "memdb-error"
	}
	adb, err := account.NewAccountDB(common.Hash{}, account.NewDatabase(mem))
	if err != nil {
		return "accountdb-error"
	}
	out := []string{"world"}
	show := func(v *big.Int) string {
		if v == nil {
			return "nil"
		}
		return v.String()
	}
	for _, st := range steps {
		if len(st) < 2 {
			return "bad-op"
		}
		f := strings.Split(st[1:], ":")
		u := func(i int) (uint64, bool) {
			if i >= len(f) {
				return 0, false
			}
			x, err := strconv.ParseUint(f[i], 10, 64)
			return x, err == nil
		}
		t, ok1 := u(0)
		x, ok2 := u(1)
		if !ok1 || !ok2 {
			return "bad-op"
		}
		switch st[0] {
		case 'b':
			if len(f) != 2 {
				return "bad-op"
			}
			// every token gets its own contract address, slot position 3
			contract := common.BigToAddress(new(big.Int).Add(big.NewInt(0x9000), new(big.Int).SetUint64(t)))
			if adb.AddERC20Binding(tokName(t), contract, 3, x) {
				out = append(out, "b1")
			} else {
				out = append(out, "b0")
			}
		case 'g':
			if len(f) != 2 {
				return "bad-op"
			}
			out = append(out, "g:"+show(adb.GetFT(acctAddr(x), tokName(t))))
		case 's', 'a', 'u':
			if len(f) != 3 {
				return "bad-op"
			}
			n, ok := parseBig(f[2])
			if !ok {
				return "bad-op"
			}
			switch st[0] {
			case 's':
				adb.SetFT(acctAddr(x), tokName(t), n)
				out = append(out, "s")
			case 'a':
				adb.AddFT(acctAddr(x), tokName(t), n)
				out = append(out, "a")
			default:
				left, ok := adb.SubFT(acctAddr(x), tokName(t), n)
				flag := "0"
				if ok {
					flag = "1"
				}
				out = append(out, "u:"+flag+":"+show(left))
			}
		default:
			return "bad-op"
		}
	}
	return strings.Join(out, " ")
}

func rawbalRun(n *big.Int) string {
	mem, err := db.NewMemDatabase()
	if err != nil {
		return "memdb-error"
	}
	adb, err := account.NewAccountDB(common.Hash{}, account.NewDatabase(mem))
	if err != nil {
		return "accountdb-error"
	}
	a := common.HexToAddress("0x5555555555555555555555555555555555555555")
	adb.SetBalance(a, n)
	return "s " + service.GetRawBalance(a, adb)
}

// execGrowth handles the ops of this file; ok=false if the op is not one of them.
func execGrowth(w []string) (string, bool) {
	switch {
	case w[0] == "decode" && len(w) == 6:
		gl, e1 := hx.UnHex(w[3])
		tv, e2 := hx.UnHex(w[4])
		abi, e3 := hx.UnHex(w[5])
		if e1 != nil || e2 != nil || e3 != nil || (w[1] != "0" && w[1] != "1") || (w[2] != "0" && w[2] != "1") {
			return "bad-op", true
		}
		return decodeRun(w[1] == "1", w[2] == "1", string(gl), string(tv), string(abi)), true
	case w[0] == "convert" && len(w) == 5:
		v, ok1 := parseBig(w[1])
		gp, ok2 := parseBig(w[2])
		g, err := strconv.ParseUint(w[3], 10, 64)
		pl, err2 := hx.UnHex(w[4])
		if !ok1 || !ok2 || err != nil || err2 != nil || v.Sign() < 0 || gp.Sign() < 0 {
			return "bad-op", true
		}
		return convertRun(v, gp, g, pl), true
	case w[0] == "world":
		return worldRun(w[1:]), true
	case w[0] == "u64b" && len(w) == 2:
		n, err := strconv.ParseUint(w[1], 10, 64)
		if err != nil {
			return "bad-op", true
		}
		return "h " + hx.Hex(utility.UInt64ToByte(n)), true
	case w[0] == "b2u64" && len(w) == 2:
		b, err := hx.UnHex(w[1])
		if err != nil {
			return "bad-op", true
		}
		return "n " + strconv.FormatUint(utility.ByteToUInt64(b), 10), true
	case w[0] == "bbstr" && len(w) == 2:
		b, err := hx.UnHex(w[1])
		if err != nil {
			return "bad-op", true
		}
		return "s " + utility.BigIntBytesToStr(b), true
	case w[0] == "rawbal" && len(w) == 2:
		n, ok := parseBig(w[1])
		if !ok {
			return "bad-op", true
		}
		return rawbalRun(n), true
	}
	return "", false
}

// ---- generators

func asciiOnly(s string) string {
	b := []byte(s)
	for i, c := range b {
		if c >= 0x80 || c < 0x20 {
			b[i] = '?'
		}
	}
	return string(b)
}

func genHexStr(r *hx.Rng, dist map[string]int) string {
	switch r.Intn(10) {
	case 0:
		dist["abi:empty"]++
		return ""
	case 1:
		dist["abi:0x0"]++
		return "0x0"
	case 2:
		dist["abi:short"]++
		return []string{"0", "0x", "0X", "x", "f", "0xf", "0Xf", "00", "0x00", "zz"}[r.Intn(10)]
	case 3:
		dist["abi:odd"]++
		return "0x" + strings.Repeat("a", 1+2*r.Intn(5)) + "1"[:r.Intn(2)]
	case 4:
		dist["abi:invalid-char"]++ // an invalid character silently ends the data
		h := hx.Hex(r.Bytes(1 + r.Intn(8)))
		i := r.Intn(len(h))
		return "0x" + h[:i] + string("gG xX-_"[r.Intn(7)]) + h[i:]
	case 5:
		dist["abi:upper/noprefix"]++
		h := strings.ToUpper(hx.Hex(r.Bytes(1 + r.Intn(8))))
		if r.Bool() {
			return "0X" + h
		}
		return h
	default:
		dist["abi:wellformed"]++
		return "0x" + hex0(r.Bytes(r.Intn(40)))
	}
}

func hex0(b []byte) string {
	if len(b) == 0 {
		return ""
	}
	return hx.Hex(b)
}

func genGasStr(r *hx.Rng, dist map[string]int) string {
	switch r.Intn(9) {
	case 0:
		dist["gas:empty"]++
		return ""
	case 1:
		dist["gas:0"]++
		return "0"
	case 2:
		dist["gas:zeros"]++
		return []string{"00", "000", "0000021000", "+5", "-5", " 5", "5 ", "0x10", "1e3", "1_000", "21000.0"}[r.Intn(11)]
	case 3:
		dist["gas:2^64-edge"]++
		return []string{"18446744073709551615", "18446744073709551616", "18446744073709551614", "99999999999999999999", "9223372036854775808"}[r.Intn(5)]
	default:
		dist["gas:number"]++
		return strconv.FormatUint(genU64(r, dist), 10)
	}
}

func genWorld(r *hx.Rng, dist map[string]int) string {
	dist["world"]++
	var sb strings.Builder
	sb.WriteString("world")
	tok := func() string { return strconv.Itoa(r.Intn(4)) }
	acc := func() string { return strconv.Itoa(r.Intn(3)) }
	var last []*big.Int // amounts written so far: subtractions are chosen around them so that both outcomes occur
	written := map[string]*big.Int{}
	var wkeys []string
	amt := func(forSub bool) string {
		if r.Chance(1, 7) {
			return "0"
		}
		if forSub && len(last) > 0 && r.Chance(3, 4) {
			v := new(big.Int).Set(last[r.Intn(len(last))])
			switch r.Intn(4) {
			case 0:
				v.Rsh(v, 1)
			case 1:
				v.Add(v, big.NewInt(1))
			case 2:
				v.Sub(v, big.NewInt(1))
			}
			if v.Sign() < 0 {
				v.SetInt64(0)
			}
			return v.String()
		}
		v := genNat(r, dist)
		if r.Chance(1, 14) {
			v.Neg(v)
		}
		last = append(last, new(big.Int).Abs(v))
		return v.String()
	}
	bindStep := func() {
		d := int64(r.Pick(0, 0, 18, 18, 6, 8, 1, 17, 19, 27))
		if r.Chance(1, 5) {
			d = genDecimals(r)
			if d < 0 {
				d = 0
			}
		}
		sb.WriteString(" b" + tok() + ":" + strconv.FormatInt(d, 10))
	}
	// about half of the tokens are bound up front, so that bound and unbound paths get a similar share
	for i := r.Intn(3); i > 0; i-- {
		bindStep()
	}
	n := 2 + r.Intn(9)
	for i := 0; i < n; i++ {
		switch r.Intn(9) {
		case 0:
			bindStep()
		case 1, 2, 3:
			k, a := tok()+":"+acc(), amt(false)
			sb.WriteString(" s" + k + ":" + a)
			if v, ok := parseBig(a); ok {
				if _, seen := written[k]; !seen {
					wkeys = append(wkeys, k)
				}
				written[k] = v.Abs(v)
			}
		case 4:
			sb.WriteString(" a" + tok() + ":" + acc() + ":" + amt(false))
		case 5, 6:
			if len(wkeys) > 0 && r.Chance(3, 4) { // subtract from a pair that holds something, around what it holds
				k := wkeys[r.Intn(len(wkeys))]
				v := new(big.Int).Set(written[k])
				switch r.Intn(4) {
				case 0:
					v.Rsh(v, 1)
				case 1:
					v.Add(v, pow10(18))
				case 2:
					v.Rsh(v, 3)
				}
				sb.WriteString(" u" + k + ":" + v.String())
				break
			}
			sb.WriteString(" u" + tok() + ":" + acc() + ":" + amt(true))
		default:
			sb.WriteString(" g" + tok() + ":" + acc())
		}
		if r.Chance(2, 5) {
			sb.WriteString(" g" + tok() + ":" + acc())
		}
	}
	return sb.String()
}

func genGrowthOp(r *hx.Rng, dist map[string]int) string {
	switch r.Intn(10) {
	case 0, 1, 2:
		var tv string
		switch r.Intn(6) {
		case 0:
			tv = asciiOnly(genMalformed(r, dist))
		case 1:
			tv = genExp(r, dist)
		case 2:
			tv = utility.BigIntToStr(genNat(r, dist))
		default:
			tv = genPlain(r, dist)
		}
		return "decode " + strconv.Itoa(r.Intn(2)) + " " + strconv.Itoa(r.Intn(2)) + " " + hx.Hex([]byte(genGasStr(r, dist))) + " " +
			hx.Hex([]byte(tv)) + " " + hx.Hex([]byte(genHexStr(r, dist)))
	case 3, 4:
		pl := r.Bytes(r.Intn(6) * r.Intn(8))
		gas := genU64(r, dist)
		if r.Chance(1, 6) {
			gas = 0
		}
		return "convert " + genNat(r, dist).String() + " " + genNat(r, dist).String() + " " + strconv.FormatUint(gas, 10) + " " + hx.Hex(pl)
	case 5, 6, 7:
		return genWorld(r, dist)
	case 8:
		switch r.Intn(3) {
		case 0:
			return "u64b " + strconv.FormatUint(genU64(r, dist), 10)
		case 1:
			return "b2u64 " + hx.Hex(r.Bytes(r.Pick(0, 1, 7, 8, 8, 8, 9, 16)))
		default:
			return "bbstr " + hx.Hex(r.Bytes(r.Pick(0, 1, 8, 9, 31, 32, 33)))
		}
	default:
		return "rawbal " + genInt(r, dist).String()
	}
}

// branchTags names the branches of the real code an op steers into, judged from the input's shape (and the
// answer class): printed into the evidence so that a branch the stream never reaches is visible.
func branchTags(op, res string) []string {
	w := strings.Fields(op)
	var out []string
	amount := func(prefix, s string) {
		t := strings.TrimLeft(s, "+-")
		switch {
		case s == "":
			out = append(out, prefix+"empty-string")
		case strings.EqualFold(t, "inf") && len(s) <= 4:
			out = append(out, prefix+"inf")
		case strings.ContainsAny(t, "pP"):
			out = append(out, prefix+"p-exponent")
		case strings.ContainsAny(t, "eE"):
			i := strings.IndexAny(t, "eE")
			m, e := t[:i], t[i+1:]
			f := 0
			if j := strings.IndexByte(m, '.'); j >= 0 {
				f = len(m) - j - 1
			}
			k, err := strconv.Atoi(e)
			switch {
			case err != nil:
				out = append(out, prefix+"e-exponent:unparsable")
			case k-f == 0:
				out = append(out, prefix+"exp5=0")
			case k-f < 0 && f-k <= 27:
				out = append(out, prefix+"exp5<0:table")
			case k-f < 0 && f-k <= 248:
				out = append(out, prefix+"exp5<0:loop-exact")
			case k-f < 0:
				out = append(out, prefix+"exp5<0:loop-rounded")
			case k-f <= 27:
				out = append(out, prefix+"exp5>0:table")
			case k-f <= 248:
				out = append(out, prefix+"exp5>0:loop-exact")
			default:
				out = append(out, prefix+"exp5>0:loop-rounded")
			}
		default:
			f := 0
			if j := strings.IndexByte(t, '.'); j >= 0 {
				f = len(t) - j - 1
			}
			switch {
			case f == 0:
				out = append(out, prefix+"plain:f=0")
			case f <= 18:
				out = append(out, prefix+"plain:f=1-18")
			case f <= 27:
				out = append(out, prefix+"plain:f=19-27")
			case f <= 248:
				out = append(out, prefix+"plain:f=28-248")
			default:
				out = append(out, prefix+"plain:f>248")
			}
		}
	}
	if len(w) == 0 {
		return nil
	}
	switch w[0] {
	case "parse", "pf", "size":
		if b, err := hx.UnHex(w[1]); err == nil {
			amount(w[0]+"/", string(b))
			if strings.HasPrefix(res, "err") {
				out = append(out, w[0]+"/answer:err")
			}
		}
	case "decode":
		if len(w) == 6 {
			gl, _ := hx.UnHex(w[3])
			abi, _ := hx.UnHex(w[5])
			switch {
			case string(gl) == "" || string(gl) == "0":
				out = append(out, "decode/gas:default-p017="+w[2])
			default:
				if _, err := strconv.ParseUint(string(gl), 10, 64); err != nil {
					out = append(out, "decode/gas:parse-error")
				} else {
					out = append(out, "decode/gas:number")
				}
			}
			if string(abi) == "" || string(abi) == "0x0" {
				out = append(out, "decode/abi:empty-p005="+w[1])
			} else {
				out = append(out, "decode/abi:fromhex")
			}
			out = append(out, "decode/answer:"+strings.Fields(res + " x")[0])
		}
	case "world":
		bound := map[string]bool{}
		for _, st := range w[1:] {
			f := strings.Split(st[1:], ":")
			if st[0] == 'b' {
				if bound[f[0]] {
					out = append(out, "world/bind:refused")
				} else {
					out = append(out, "world/bind:new")
				}
				bound[f[0]] = true
				continue
			}
			path := "unbound"
			if bound[f[0]] {
				path = "bound"
			}
			out = append(out, "world/"+string(st[0])+":"+path)
		}
		for _, t := range strings.Fields(res) {
			if strings.HasPrefix(t, "u:0") {
				out = append(out, "world/sub:refused")
			} else if strings.HasPrefix(t, "u:1") {
				out = append(out, "world/sub:done")
			}
		}
	case "xfer":
		out = append(out, "xfer/"+strings.Join(strings.Fields(res + " x x")[1:2], ""))
	case "ft":
		for _, t := range strings.Fields(res) {
			if strings.HasPrefix(t, "u:0") {
				out = append(out, "ft/sub:refused")
			} else if strings.HasPrefix(t, "u:1") {
				out = append(out, "ft/sub:done")
			}
		}
	case "stake":
		if n, err := strconv.ParseUint(w[1], 10, 64); err == nil {
			if n < 1<<53 {
				out = append(out, "stake/exact-domain")
			} else {
				out = append(out, "stake/rounded-domain")
			}
		}
	}
	return out
}
