// Hardening additions (see design/C18.md, "Hardening audit"): independent reference
// formatter, retention / input-mutation tracking, fork-configuration switch, deterministic
// small-scope families, history and concurrency phases.
package main

import (
	"fmt"
	"math"
	"math/big"
	"strconv"
	"strings"
	"sync"

	"com.tuntun.rangers/node/src/common"
	"com.tuntun.rangers/node/src/utility"
	"verif/harness/hx"
)

// ---- independent reference (integer arithmetic + fmt only; shares no code with data_convert.go)

// refFormat is what bigIntToStr(n, p) must print: [-]<integer part>[.<p fraction digits>].
func refFormat(n *big.Int, p int) string {
	if p < 0 {
		return "0"
	}
	a := new(big.Int).Abs(n)
	q, r := new(big.Int).QuoRem(a, pow10(p), new(big.Int))
	s := q.String()
	if p > 0 {
		s += "." + fmt.Sprintf("%0*s", p, r.String())
	}
	if n.Sign() < 0 {
		s = "-" + s
	}
	return s
}

// refBigIntToStr is what BigIntToStr(n) must print.
func refBigIntToStr(n *big.Int) string {
	if n.Sign() == 0 {
		return "0"
	}
	return refFormat(n, 18)
}

// ---- retention: results handed out earlier must not change when later conversions run

type retainedRes struct {
	v  *big.Int
	s  string
	op string
}

var retained []retainedRes

// noRetention is set (before the goroutines start) while the concurrency phase runs: the retention ring is
// harness state and must not be shared between goroutines.
var noRetention bool

func retain(op string, v *big.Int) {
	if v == nil || noRetention {
		return
	}
	if len(retained) >= 48 {
		retained = retained[1:]
	}
	retained = append(retained, retainedRes{v, v.String(), op})
}

func retainedChanged() string {
	for _, x := range retained {
		if x.v.String() != x.s {
			return "retained-result-changed result of [" + x.op + "] was " + x.s + " now " + x.v.String()
		}
	}
	return ""
}

// execTracked = exec + the check that no earlier result was altered by this call.
func execTracked(op string) string {
	res := exec(op)
	if c := retainedChanged(); c != "" {
		retained = nil
		return c + " after [" + op + "]"
	}
	return res
}

// unchanged reports an input-mutation as the op's answer.
func unchanged(n *big.Int, tok string, res string) string {
	if n.String() != tok {
		return "input-mutated " + tok + " -> " + n.String()
	}
	return res
}

// ---- fork configuration: Proposal 002 / 005 / 017 on or off (the flags read on the conversion paths)

var devCfg common.ChainConfig
var devCfgSaved bool

func setCfg(p002, p005, p017 bool) {
	if !devCfgSaved {
		devCfg, devCfgSaved = common.LocalChainConfig, true
	}
	c := devCfg
	h := func(on bool) uint64 {
		if on {
			return 0
		}
		return math.MaxUint64
	}
	c.Proposal002Block, c.Proposal005Block, c.Proposal017Block = h(p002), h(p005), h(p017)
	common.LocalChainConfig = c
	common.SetBlockHeight(1000)
}

// ---- deterministic small-scope families (run before anything random)

func smallScope(add func(key, op, detail string)) (evals int) {
	chk := func(cond bool, key, op, detail string) {
		evals++
		if !cond {
			add(key, op, detail)
		}
	}
	eq := func(a *big.Int, b *big.Int) bool { return a != nil && a.Cmp(b) == 0 }
	// (i) every integer of a window around 0, and around 10^18: strings against the reference, round trips, re-scalings
	var ns []*big.Int
	for i := int64(-260); i <= 260; i++ {
		ns = append(ns, big.NewInt(i))
		ns = append(ns, new(big.Int).Add(pow10(18), big.NewInt(i)))
		ns = append(ns, new(big.Int).Neg(new(big.Int).Add(pow10(18), big.NewInt(i))))
	}
	for _, k := range []int{1, 17, 18, 19, 36, 59, 60, 76, 77} {
		for _, dl := range []int64{-1, 0, 1} {
			v := new(big.Int).Add(pow10(k), big.NewInt(dl))
			ns = append(ns, v, new(big.Int).Neg(v))
		}
	}
	for _, k := range []int{63, 64, 127, 128, 255, 256} {
		for _, dl := range []int64{-2, -1, 0} {
			v := new(big.Int).Add(pow2(k), big.NewInt(dl))
			if v.BitLen() <= 256 {
				ns = append(ns, v, new(big.Int).Neg(v))
			}
		}
	}
	for _, v := range ns {
		op := "roundtrip " + v.String()
		s := utility.BigIntToStr(v)
		chk(s == refBigIntToStr(v), "format-reference", "tostr "+v.String(), "BigIntToStr = "+s+" want "+refBigIntToStr(v))
		got, err := utility.StrToBigInt(refBigIntToStr(v))
		chk(err == nil && eq(got, v), "roundtrip-18", op, "StrToBigInt("+refBigIntToStr(v)+") = "+showInt(got, err))
		got, err = utility.StrToBigInt(s)
		chk(err == nil && eq(got, v), "roundtrip-18", op, "StrToBigInt(BigIntToStr(n)) = "+showInt(got, err)+" via "+s)
		for d := 0; d <= 18; d++ {
			sc := pow10(18 - d)
			opd := "rescale " + v.String() + " " + strconv.Itoa(d)
			g1 := utility.FormatDecimalForERC20(v, int64(d))
			chk(eq(g1, new(big.Int).Quo(v, sc)), "erc20-floor", opd, "FormatDecimalForERC20 = "+showInt(g1, nil))
			g2 := utility.FormatDecimalForRocket(v, int64(d))
			chk(eq(g2, new(big.Int).Mul(v, sc)), "rocket-scale", opd, "FormatDecimalForRocket = "+showInt(g2, nil))
			fs := utility.VerifC18BigIntToStr(v, d)
			chk(fs == refFormat(v, d), "format-reference", "fmt "+v.String()+" "+strconv.Itoa(d), "bigIntToStr = "+fs+" want "+refFormat(v, d))
		}
	}
	// (ii) digit-count boundaries of bigIntToStr: numbers with precision-1, precision, precision+1 digits
	for p := 0; p <= 21; p++ {
		for _, k := range []int{p - 1, p, p + 1} {
			if k < 0 {
				continue
			}
			for _, dl := range []int64{-1, 0, 1} {
				for _, sg := range []int64{1, -1} {
					v := new(big.Int).Add(pow10(k), big.NewInt(dl))
					v.Mul(v, big.NewInt(sg))
					fs := utility.VerifC18BigIntToStr(v, p)
					chk(fs == refFormat(v, p), "format-reference", "fmt "+v.String()+" "+strconv.Itoa(p), "bigIntToStr = "+fs+" want "+refFormat(v, p))
				}
			}
		}
	}
	// (iii) plain decimal strings: every sign, integer part from a small set, 0..19 fraction digits of a few shapes
	ips := []string{"", "0", "00", "1", "9", "10", "007", "123456789", strings.Repeat("9", 78), "1" + strings.Repeat("0", 77)}
	for _, sign := range []string{"", "-", "+"} {
		for _, ip := range ips {
			for f := 0; f <= 19; f++ {
				for _, fp := range []string{strings.Repeat("0", f), strings.Repeat("9", f), strings.Repeat("0", max0(f-1)) + "1"[:min1(f)], "5" [:min1(f)] + strings.Repeat("0", max0(f-1))} {
					if len(fp) != f || ip+fp == "" {
						continue
					}
					forms := []string{sign + ip + "." + fp}
					if f == 0 && ip != "" {
						forms = append(forms, sign+ip)
					}
					for _, s := range forms {
						want, ok := exactPlain(s)
						if !ok {
							continue // 19 fraction digits: outside the exactness claim (compared with the model in corr mode)
						}
						got, err := utility.StrToBigInt(s)
						chk(err == nil && eq(got, want), "parse-exact", "exact "+hx.Hex([]byte(s)), "StrToBigInt("+strconv.Quote(s)+") = "+showInt(got, err)+" want "+want.String())
					}
				}
			}
		}
	}
	return evals
}

func max0(x int) int {
	if x < 0 {
		return 0
	}
	return x
}
func min1(x int) int {
	if x > 1 {
		return 1
	}
	return max0(x)
}

// ---- history and concurrency phases

var pureKinds = map[string]bool{"parse": true, "pf": true, "fmt": true, "tostr": true, "nodot": true, "erc20": true, "rocket": true,
	"stake": true, "f64": true, "u64": true, "stakearg": true, "basen": true, "calldata": true}

func opKind(op string) string {
	if i := strings.IndexByte(op, ' '); i > 0 {
		return op[:i]
	}
	return op
}

// historyPhase: the same ops in generation order, reversed, and shuffled must answer alike
// (conversions at different decimal counts are interleaved on purpose); every third op is preceded by a
// conversion at another decimal count of an unrelated value.
func historyPhase(r *hx.Rng, n int, add func(key, op, detail string)) (evals int) {
	dist := map[string]int{}
	ops := make([]string, 0, n)
	for len(ops) < n {
		op := genOp(r, dist)
		if k := opKind(op); k == "size" || k == "cfg" {
			continue
		}
		ops = append(ops, op)
	}
	first := make([]string, len(ops))
	for i, op := range ops {
		first[i] = hx.Guard(func() string { return execTracked(op) })
		evals++
	}
	recheck := func(order []int, label string) {
		for j, i := range order {
			if j%3 == 0 { // perturb: an unrelated conversion at a different decimal count in between
				utility.VerifC18StrToBigInt("7."+strconv.Itoa(j), int64(j%37))
				utility.FormatDecimalForRocket(big.NewInt(int64(j)+1), int64(j%19))
			}
			got := hx.Guard(func() string { return execTracked(ops[i]) })
			evals++
			if got != first[i] {
				add("history-dependence", ops[i], label+": first answer "+first[i]+" later answer "+got)
			}
		}
	}
	rev := make([]int, len(ops))
	for i := range rev {
		rev[i] = len(ops) - 1 - i
	}
	recheck(rev, "reversed order")
	sh := make([]int, len(ops))
	for i := range sh {
		sh[i] = i
	}
	for i := len(sh) - 1; i > 0; i-- {
		j := r.Intn(i + 1)
		sh[i], sh[j] = sh[j], sh[i]
	}
	recheck(sh, "shuffled order")
	return evals
}

// concurrencyPhase: G goroutines evaluate the same pure conversion ops at once (each in its own rotation);
// every answer must equal the sequential one. Evidence, not proof.
func concurrencyPhase(r *hx.Rng, n, G int, add func(key, op, detail string)) (evals int) {
	dist := map[string]int{}
	ops := make([]string, 0, n)
	for len(ops) < n {
		op := genOp(r, dist)
		if pureKinds[opKind(op)] {
			ops = append(ops, op)
		}
	}
	seq := make([]string, len(ops))
	for i, op := range ops {
		seq[i] = hx.Guard(func() string { return exec(op) })
	}
	var mu sync.Mutex
	var wg sync.WaitGroup
	noRetention = true
	defer func() { noRetention = false }()
	for g := 0; g < G; g++ {
		wg.Add(1)
		go func(g int) {
			defer wg.Done()
			for k := range ops {
				i := (k*(2*g+1) + g*len(ops)/G) % len(ops)
				got := hx.Guard(func() string { return exec(ops[i]) })
				if got != seq[i] {
					mu.Lock()
					add("concurrency", ops[i], fmt.Sprintf("goroutine %d answered %s, sequential answer %s", g, got, seq[i]))
					mu.Unlock()
				}
			}
		}(g)
	}
	wg.Wait()
	return len(ops) * (G + 1)
}
