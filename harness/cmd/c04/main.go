// c04: correspondence harness and searcher for property C04 (snapshot/revert of AccountDB).
//
//	mode=corr   (default) corpus + generated op scripts + malformed stream -> ops=/obs= files
//	mode=search direct property oracle on the implementation, prints VIOL {json} lines
//	mode=script file=<ops file> : run the lines of a file, print "op => answer"
package main

import (
	"encoding/json"
	"fmt"
	"io/ioutil"
	"os"
	"path/filepath"
	"sort"
	"strings"

	"com.tuntun.rangers/node/src/common"
	"com.tuntun.rangers/node/src/storage/account"
	"verif/harness/hx"
	"verif/harness/hxnode"
)

func bindToken(hexaddr string) {
	// make the process-wide token contract non-zero the way a node does: an ERC20 binding
	// for BLANCE_NAME in some state, then the first balance lookup caches it.
	b, err := hx.UnHex(hexaddr)
	if err != nil || len(b) != 20 {
		panic("bad bind address")
	}
	w := NewWorld()
	rip := common.StringToAddress("0000000000000000000000000000000000000003")
	zero := common.Address{}
	w.Exec(fmt.Sprintf("new %s %s 1", hx.Hex(zero[:]), hx.Hex(rip[:])))
	w.adb.AddERC20Binding(common.BLANCE_NAME, common.BytesToAddress(b), 3, 18)
	w.adb.GetBalance(zero)
	if account.VerifTokenContract() != common.BytesToAddress(b) {
		panic("token contract binding did not take")
	}
}

func main() {
	hxnode.BootLight("dev")
	a := hx.Args()
	if v, ok := a["bind"]; ok && v != "0" && v != "" {
		bindToken(v)
	}
	switch a["mode"] {
	case "search":
		search(a)
	case "conc":
		conc(a)
	case "script":
		runScript(a["file"])
	case "keys":
		// print the balkey lines for a comma separated list of addresses (for hand-written corpus files)
		adb := dummyWorld()
		pos := uint64(3)
		if common.IsSub() {
			pos = 4
		}
		for _, h := range strings.Split(a["addrs"], ",") {
			if x, ok := addrOf(h); ok {
				fmt.Printf("balkey %s %s\n", h, hx.Hex(adb.GetERC20Key(x, pos)))
			}
		}
	default:
		corr(a)
	}
}

func runScript(file string) {
	data, err := ioutil.ReadFile(file)
	if err != nil {
		panic(err)
	}
	w := NewWorld()
	for _, l := range strings.Split(string(data), "\n") {
		l = strings.TrimSpace(l)
		if l == "" || strings.HasPrefix(l, "#") {
			continue
		}
		fmt.Printf("%s => %s\n", l, hx.Guard(func() string { return w.Exec(l) }))
	}
}

var boundaryKinds = map[string]bool{"root": true, "finalise": true, "commit": true, "reset": true, "clean": true, "reopen": true, "new": true}

func corr(a map[string]string) {
	out, err := hx.NewOut(a["ops"], a["obs"])
	if err != nil {
		panic(err)
	}
	defer out.Close()
	r := hx.NewRng(hx.SeedFromEnv())
	n := hx.ArgInt(a, "n", 40)
	w := NewWorld()
	genBadOps := 0
	inMalformed := false
	do := func(line string) string {
		r := out.Do(line, func() string { return w.Exec(line) })
		if r == "bad-op" && !inMalformed {
			genBadOps++ // a well-formed generated line refused by the executor: a broken tie, not agreement
		}
		return r
	}

	out.Do("const emptycodehash", func() string { return w.Exec("const emptycodehash") })

	// 1. corpus first
	corpusFiles := 0
	bound := a["bind"] != "" && a["bind"] != "0"
	zeroHex := strings.Repeat("00", 20)
	tokHex := func() string { t := account.VerifTokenContract(); return hx.Hex(t[:]) }()
	if dir := os.Getenv("VERIF_CORPUS"); dir != "" {
		files, _ := filepath.Glob(filepath.Join(dir, "*.ops"))
		sort.Strings(files)
		for _, f := range files {
			data, err := ioutil.ReadFile(f)
			if err != nil {
				continue
			}
			corpusFiles++
			for _, l := range strings.Split(string(data), "\n") {
				l = strings.TrimSpace(l)
				if l == "" || strings.HasPrefix(l, "#") {
					continue
				}
				// corpus files are written for the unbound configuration (token contract = zero address);
				// with a bound token contract the same history is replayed with that contract instead
				if bound {
					l = strings.ReplaceAll(l, zeroHex, tokHex)
					if f := strings.Fields(l); len(f) == 3 && f[0] == "balkey" {
						if x, ok := addrOf(f[1]); ok && w.adb != nil {
							pos := uint64(3)
							if common.IsSub() {
								pos = 4
							}
							l = "balkey " + f[1] + " " + hx.Hex(w.adb.GetERC20Key(x, pos)) // pure function of (addr, pos)
						}
					}
				}
				do(l)
			}
		}
	}

	// 2. generated scripts
	depthHist := map[int]int{}
	lens := map[string]int{}
	panics := 0
	for i := 0; i < n; i++ {
		u := NewUniv(r.Fork())
		g := &G{r: r.Fork(), u: u}
		p002 := i%8 != 7
		for _, l := range u.Header(p002) {
			do(l)
		}
		var stack []string // valid snapshot ids
		crashed := false
		step := func(line string) bool {
			res := do(line)
			if strings.HasPrefix(res, "PANIC") {
				panics++
				crashed = true
				return false
			}
			k := kind(line)
			if boundaryKinds[k] {
				stack = stack[:0]
			}
			if k == "snapshot" {
				stack = append(stack, res)
			}
			if k == "revert" {
				id := strings.Fields(line)[1]
				for j, s := range stack {
					if s == id {
						stack = stack[:j]
						break
					}
				}
			}
			return true
		}
		// phase A: build a committed state
		if !g.r.Chance(1, 5) {
			na := g.r.Intn(25)
			for j := 0; j < na && !crashed; j++ {
				step(g.Mutator())
				if g.r.Chance(1, 4) && !crashed {
					step(g.Query())
				}
			}
			if !crashed && g.r.Chance(3, 4) {
				d := "1"
				if g.r.Chance(1, 3) {
					d = "0"
				}
				step("commit " + d)
				if !crashed && g.r.Chance(3, 4) {
					step("reopen")
				}
			}
		}
		// phase B
		nb := 40 + g.r.Intn(161)
		if a["tier"] == "thorough" {
			nb += g.r.Intn(200)
		}
		done := 0
		lastMut := ""
		for done < nb && !crashed {
			done++
			x := g.r.Intn(100)
			switch {
			case x < 52:
				lastMut = g.Mutator()
				step(lastMut)
				if !crashed && strings.HasPrefix(lastMut, "addrefund ") && g.r.Chance(1, 3) {
					step("subrefund 1") // the success path of SubRefund needs a non-zero counter
				}
			case x < 63:
				if len(stack) < 6 && g.r.Chance(1, 2) {
					// the same kind of mutator on the same target right before and right after the snapshot,
					// nothing journaled in between
					setup, before, after := g.BoundaryPair()
					for _, l := range setup {
						if !crashed {
							step(l)
						}
					}
					if !crashed && step(before) && step("snapshot") && step(after) && g.r.Chance(1, 2) && len(stack) > 0 {
						step("revert " + stack[len(stack)-1])
						step("internals")
					}
				} else if len(stack) < 6 {
					step("snapshot")
				} else {
					step(g.Mutator())
				}
			case x < 72:
				if len(stack) > 0 {
					id := stack[g.r.Intn(len(stack))]
					if g.r.Chance(1, 60) {
						id = "99"
					}
					depthHist[len(stack)]++
					step("revert " + id)
				} else if g.r.Chance(1, 30) {
					step("revert 0")
				} else {
					step(g.Query())
				}
			case x < 92:
				step(g.Query())
			default:
				d := "1"
				if g.r.Chance(1, 3) {
					d = "0"
				}
				switch g.r.Intn(9) {
				case 0, 1:
					if len(stack) == 0 || g.r.Chance(1, 6) {
						step(fmt.Sprintf("prepare %s %s %d", g.pick(u.hashes), g.pick(u.hashes), g.r.Intn(5)))
					}
				case 2, 3:
					step("root " + d)
				case 4:
					step("finalise " + d)
				case 5, 6:
					if step("commit "+d) && g.r.Chance(1, 2) {
						step("reopen")
					}
				case 7:
					step("reset")
				default:
					// Clean() after an un-committed Finalise drops the only copy of the flushed storage
					// tries (the leaves keep their roots): only exercised right after a Commit.
					if step("commit " + d) {
						step("clean")
					}
				}
			}
			if !crashed && g.r.Chance(1, 2) {
				q := g.Query()
				if lastMut != "" && g.r.Chance(2, 3) {
					q = g.QueryFor(lastMut)
				}
				step(q)
				if !crashed && g.r.Chance(1, 4) {
					step(q) // history: the same read again must answer the same
				}
			}
			if !crashed && g.r.Chance(1, 5) {
				step("internals")
			}
		}
		if !crashed {
			step("internals")
			step("root 1")
		}
		lens[fmt.Sprintf("%d", (done/50)*50)]++
	}

	// 3. malformed stream: both sides must answer bad-op
	inMalformed = true
	u := NewUniv(r.Fork())
	for _, l := range u.Header(true) {
		do(l)
	}
	a0 := hx.Hex(u.addrs[2][:])
	for _, l := range []string{
		"", "frobnicate", "setnonce", "setnonce " + a0, "setnonce " + a0 + " x", "setnonce " + a0 + " 18446744073709551616",
		"setnonce zz 1", "setnonce " + a0[:38] + " 1", "setdata " + a0 + " 6b", "setdata " + a0 + " 6b 0g",
		"setstate " + a0 + " 6b 01", "getstate " + a0 + " 6b", "committed " + a0 + " 6b", "setcode " + a0 + " - -",
		"addbal " + a0 + " -1", "addbal " + a0 + " 1.5", "bal " + hx.Hex(make([]byte, 19)), "bal 0101010101010101010101010101010101010101",
		"addft " + a0 + " 6b 1", "addft " + a0 + " 663a53595354454d2d525047 1", "addlog " + a0 + " 01 -", "alslot " + a0 + " 01",
		"tset " + a0 + " 01 02", "tget " + a0 + " 01", "revert", "revert x", "snapshot 1", "root", "root 2", "commit x", "finalise",
		"prepare 01 02 3", "addrefund -1", "addrefund 18446744073709551616", "subrefund", "logs 01", "inalslot " + a0 + " 01",
		"new 00 00 1", "balkey " + a0, "transfer " + a0 + " " + a0, "cantransfer " + a0 + " z", "SETNONCE " + a0 + " 1",
	} {
		do(l)
	}

	st := map[string]interface{}{}
	_ = json.Unmarshal([]byte(out.StatsJSON()), &st)
	st["scripts"] = n
	st["corpus_files"] = corpusFiles
	st["panics"] = panics
	st["revert_depth_hist"] = depthHist
	st["script_len_hist"] = lens
	st["root_clashes"] = w.RootClash
	st["generated_bad_ops"] = genBadOps
	st["retained_slices_checked"] = w.Retained
	st["alias_violations"] = w.Alias
	st["reference_clashes"] = w.RefClash
	st["token_contract"] = hx.Hex(u.tok[:])
	b, _ := json.Marshal(st)
	fmt.Println("STATS " + string(b))
	if len(w.RootClash) > 0 {
		fmt.Println("ROOTCLASH " + w.RootClash[0])
	}
}
