package main

// Executor: interprets one op line of the C04 line protocol by calling the real
// account.AccountDB. The same lines are fed to the Lean driver drv_c04.

import (
	"bytes"
	"crypto/sha256"
	"fmt"
	"math/big"
	"sort"
	"strconv"
	"strings"

	"com.tuntun.rangers/node/src/common"
	"com.tuntun.rangers/node/src/middleware/db"
	"com.tuntun.rangers/node/src/middleware/types"
	"com.tuntun.rangers/node/src/storage/account"
	"com.tuntun.rangers/node/src/utility"
	"golang.org/x/crypto/sha3"
	"verif/harness/hx"
)

type World struct {
	adb      *account.AccountDB
	tdb      account.AccountDatabase
	lastRoot common.Hash
	keys     map[common.Address][]byte
	// content <-> root bookkeeping (the root must be a function of the content and vice versa)
	rootOf    map[string]string
	contentOf map[string]string
	RootClash []string
	LastRoot  string
	// retention: byte slices the API returned, with a private copy taken at return time; they are
	// re-checked after later calls (a returned slice must not alias a buffer the package reuses)
	kept     []keptSlice
	Retained int
	Alias    []string
	// independent reference values disagreeing with the code under test
	RefClash []string
	// when set, `new` opens its AccountDB over this shared database instead of a private one
	sharedTdb account.AccountDatabase
}

type keptSlice struct {
	what string
	live []byte
	copy []byte
}

func (w *World) keep(what string, b []byte) []byte {
	if len(b) > 0 {
		if len(w.kept) >= 64 {
			w.kept = w.kept[1:]
		}
		w.kept = append(w.kept, keptSlice{what, b, append([]byte{}, b...)})
	}
	return b
}

func (w *World) checkKept() {
	for _, k := range w.kept {
		w.Retained++
		if !bytes.Equal(k.live, k.copy) {
			w.Alias = append(w.Alias, k.what+": returned slice changed from "+hx.Hex(k.copy)+" to "+hx.Hex(k.live))
		}
	}
}

// refERC20Key: keccak256(pad32(addr) || pad32(position)) computed with x/crypto directly (independent of
// AccountDB.GetERC20Key, which goes through utility.UInt64ToByte and common.KeccakState).
func refERC20Key(a common.Address, pos uint64) []byte {
	var data [64]byte
	copy(data[12:32], a[:])
	for i := 0; i < 8; i++ {
		data[63-i] = byte(pos >> (8 * uint(i)))
	}
	h := sha3.NewLegacyKeccak256()
	h.Write(data[:])
	return h.Sum(nil)
}

// refKeccak: code hash reference via x/crypto (SetCode uses eth_crypto.Keccak256Hash).
func refKeccak(b []byte) []byte {
	h := sha3.NewLegacyKeccak256()
	h.Write(b)
	return h.Sum(nil)
}

func NewWorld() *World {
	return &World{keys: map[common.Address][]byte{}, rootOf: map[string]string{}, contentOf: map[string]string{}}
}

func addrOf(tok string) (common.Address, bool) {
	b, err := hx.UnHex(tok)
	if err != nil || len(b) != common.AddressLength {
		return common.Address{}, false
	}
	return common.BytesToAddress(b), true
}

func hashOf(tok string) (common.Hash, bool) {
	b, err := hx.UnHex(tok)
	if err != nil || len(b) != common.HashLength {
		return common.Hash{}, false
	}
	return common.BytesToHash(b), true
}

func bytesOf(tok string) ([]byte, bool) {
	b, err := hx.UnHex(tok)
	return b, err == nil
}

func natOf(tok string) (*big.Int, bool) {
	n, ok := new(big.Int).SetString(tok, 10)
	if !ok || n.Sign() < 0 {
		return nil, false
	}
	return n, true
}

func u64Of(tok string) (uint64, bool) {
	n, err := strconv.ParseUint(tok, 10, 64)
	return n, err == nil
}

func b2s(b bool) string {
	if b {
		return "true"
	}
	return "false"
}

func ftName(key []byte) (string, bool) {
	s := string(key)
	if !strings.HasPrefix(s, common.FTPrefix) {
		return "", false
	}
	return s[len(common.FTPrefix):], true
}

func setP002(on bool) {
	if on {
		common.LocalChainConfig.Proposal002Block = 0
	} else {
		common.LocalChainConfig.Proposal002Block = ^uint64(0)
	}
}

func (w *World) noteRoot(root common.Hash) string {
	content := account.VerifDumpContent(w.adb)
	r := root.Hex()
	w.LastRoot = r
	if c, ok := w.contentOf[r]; ok && c != content {
		w.RootClash = append(w.RootClash, "same root "+r+" for contents "+c+" / "+content)
	}
	if r0, ok := w.rootOf[content]; ok && r0 != r {
		w.RootClash = append(w.RootClash, "roots "+r0+" / "+r+" for one content "+content)
	}
	w.contentOf[r] = content
	w.rootOf[content] = r
	return content
}

// Exec runs one op line against the implementation and returns its answer.
func (w *World) Exec(line string) string {
	w.checkKept()
	f := strings.Fields(line)
	if len(f) == 0 {
		return "bad-op"
	}
	bad := "bad-op"
	if f[0] == "new" {
		if len(f) != 4 {
			return bad
		}
		tok, ok1 := addrOf(f[1])
		rip, ok2 := addrOf(f[2])
		if !ok1 || !ok2 || (f[3] != "0" && f[3] != "1") {
			return bad
		}
		if tok != account.VerifTokenContract() || rip != common.StringToAddress("0000000000000000000000000000000000000003") {
			return "bad-op" // the line must describe this process's configuration
		}
		if w.sharedTdb == nil { // concurrent worlds (mode=conc) all run with the flag already on
			setP002(f[3] == "1")
		}
		if w.sharedTdb != nil {
			w.tdb = w.sharedTdb
		} else {
			m, _ := db.NewMemDatabase()
			w.tdb = account.NewDatabase(m)
		}
		adb, err := account.NewAccountDB(common.Hash{}, w.tdb)
		if err != nil {
			return "ERR"
		}
		w.adb = adb
		w.lastRoot = common.Hash{}
		w.keys = map[common.Address][]byte{}
		return "ok"
	}
	if f[0] == "const" && len(f) == 2 && f[1] == "emptycodehash" {
		m, _ := db.NewMemDatabase()
		t := account.NewDatabase(m)
		adb, _ := account.NewAccountDB(common.Hash{}, t)
		adb.CreateAccount(common.Address{1})
		return hx.Hex(adb.GetCodeHash(common.Address{1}).Bytes())
	}
	if w.adb == nil {
		return bad
	}
	s := w.adb
	switch f[0] {
	case "balkey":
		if len(f) != 3 {
			return bad
		}
		a, ok := addrOf(f[1])
		k, ok2 := bytesOf(f[2])
		if !ok || !ok2 {
			return bad
		}
		pos := uint64(3)
		if common.IsSub() {
			pos = 4
		}
		if hx.Hex(s.GetERC20Key(a, pos)) != hx.Hex(k) {
			return bad
		}
		if ref := refERC20Key(a, pos); hx.Hex(ref) != hx.Hex(k) {
			w.RefClash = append(w.RefClash, "GetERC20Key("+f[1]+") = "+hx.Hex(k)+", reference keccak = "+hx.Hex(ref))
		}
		w.keys[a] = k
		return "ok"
	case "reopen":
		adb, err := account.NewAccountDB(w.lastRoot, w.tdb)
		if err != nil {
			return "ERR"
		}
		w.adb = adb
		return "ok"
	case "reset":
		if err := s.Reset(w.lastRoot); err != nil {
			return "ERR"
		}
		return "ok"
	case "clean":
		s.Clean()
		return "ok"
	case "prepare":
		if len(f) != 4 {
			return bad
		}
		th, ok1 := hashOf(f[1])
		bh, ok2 := hashOf(f[2])
		ti, ok3 := u64Of(f[3])
		if !ok1 || !ok2 || !ok3 {
			return bad
		}
		s.Prepare(th, bh, int(ti))
		return "ok"
	case "finalise", "root", "commit":
		if len(f) != 2 || (f[1] != "0" && f[1] != "1") {
			return bad
		}
		d := f[1] == "1"
		switch f[0] {
		case "finalise":
			s.Finalise(d)
			return "ok"
		case "root":
			r := s.IntermediateRoot(d)
			return w.noteRoot(r)
		default:
			r, err := s.Commit(d)
			if err != nil {
				return "ERR"
			}
			w.lastRoot = r
			return w.noteRoot(r)
		}
	case "internals":
		return account.VerifInternals(s)
	case "refund":
		return strconv.FormatUint(s.GetRefund(), 10)
	case "logs":
		if len(f) != 2 {
			return bad
		}
		th, ok := hashOf(f[1])
		if !ok {
			return bad
		}
		ls := s.GetLogs(th)
		if len(ls) == 0 {
			return "-"
		}
		parts := []string{}
		for _, l := range ls {
			var tp []byte
			for _, t := range l.Topics {
				tp = append(tp, t.Bytes()...)
			}
			parts = append(parts, strings.Join([]string{hx.Hex(l.Address.Bytes()), hx.Hex(tp), hx.Hex(l.Data), hx.Hex(l.TxHash.Bytes()),
				hx.Hex(l.BlockHash.Bytes()), strconv.FormatUint(uint64(l.TxIndex), 10), strconv.FormatUint(uint64(l.Index), 10)}, "|"))
		}
		return strings.Join(parts, ",")
	case "snapshot":
		if len(f) != 1 {
			return bad
		}
		return strconv.Itoa(s.Snapshot())
	case "revert":
		if len(f) != 2 {
			return bad
		}
		id, ok := u64Of(f[1])
		if !ok {
			return bad
		}
		s.RevertToSnapshot(int(id))
		return "ok"
	case "addrefund", "subrefund":
		if len(f) != 2 {
			return bad
		}
		g, ok := u64Of(f[1])
		if !ok {
			return bad
		}
		if f[0] == "addrefund" {
			s.AddRefund(g)
		} else {
			s.SubRefund(g)
		}
		return "ok"
	}
	if f[0] == "addbinding" {
		if len(f) != 6 {
			return bad
		}
		nameB, ok0 := bytesOf(f[1])
		bind, ok1 := addrOf(f[2])
		ct, ok2 := addrOf(f[3])
		pos, ok3 := u64Of(f[4])
		dec, ok4 := u64Of(f[5])
		if !ok0 || !ok1 || !ok2 || !ok3 || !ok4 || !strings.HasPrefix(string(nameB), "bind") {
			return bad // names outside "bind*" could re-route FT ops of the script (or the process-wide balance token)
		}
		name := string(nameB)
		sum := sha256.Sum256([]byte("erc20-" + name)) // independent of common.GenerateERC20Binding
		if common.GenerateERC20Binding(name) != bind || common.BytesToAddress(sum[:]) != bind {
			return bad
		}
		return b2s(s.AddERC20Binding(name, ct, pos, dec))
	}
	// everything below starts with an address
	if len(f) < 2 {
		return bad
	}
	a, ok := addrOf(f[1])
	if !ok {
		return bad
	}
	needKey := func(x common.Address) bool { _, ok := w.keys[x]; return ok }
	switch f[0] {
	case "setnonce":
		if len(f) != 3 {
			return bad
		}
		n, ok := u64Of(f[2])
		if !ok {
			return bad
		}
		s.SetNonce(a, n)
		return "ok"
	case "incnonce":
		if len(f) != 2 {
			return bad
		}
		return strconv.FormatUint(s.IncreaseNonce(a), 10)
	case "setdata", "setstate":
		if len(f) != 4 {
			return bad
		}
		k, ok1 := bytesOf(f[2])
		v, ok2 := bytesOf(f[3])
		if !ok1 || !ok2 {
			return bad
		}
		if f[0] == "setstate" {
			if len(k) != 32 || len(v) != 32 {
				return bad
			}
			s.SetState(a, common.BytesToHash(k), common.BytesToHash(v))
		} else if len(v) == 0 {
			s.RemoveData(a, k)
		} else {
			s.SetData(a, k, v)
		}
		return "ok"
	case "create":
		if len(f) != 2 {
			return bad
		}
		s.CreateAccount(a)
		return "ok"
	case "setcode":
		if len(f) != 4 {
			return bad
		}
		c, ok1 := bytesOf(f[2])
		h, ok2 := bytesOf(f[3])
		if !ok1 || !ok2 || len(c) == 0 {
			return bad
		}
		if hx.Hex(refKeccak(c)) != hx.Hex(h) {
			return bad
		}
		s.SetCode(a, c)
		return "ok"
	case "suicide":
		if len(f) != 2 || !needKey(a) {
			return bad
		}
		return b2s(s.Suicide(a))
	case "addbal", "subbal", "setbal", "cantransfer":
		if len(f) != 3 || !needKey(a) {
			return bad
		}
		n, ok := natOf(f[2])
		if !ok {
			return bad
		}
		switch f[0] {
		case "addbal":
			if n.Bit(0) == 0 {
				s.AddBalance(a, n)
			} else {
				s.AddFT(a, common.BLANCE_NAME, n)
			}
			return "ok"
		case "subbal":
			if n.Sign() == 0 { // the SubBalance wrapper itself (a zero debit always succeeds)
				return s.SubBalance(a, n).String() + " true"
			}
			left, ok := s.SubFT(a, common.BLANCE_NAME, n)
			return left.String() + " " + b2s(ok)
		case "setbal":
			s.SetBalance(a, n)
			return "ok"
		default:
			return b2s(s.CanTransfer(a, n))
		}
	case "transfer":
		if len(f) != 4 {
			return bad
		}
		b, ok1 := addrOf(f[2])
		n, ok2 := natOf(f[3])
		if !ok1 || !ok2 || !needKey(a) || !needKey(b) {
			return bad
		}
		s.Transfer(a, b, n)
		return "ok"
	case "addft", "subft", "setft":
		if len(f) != 4 {
			return bad
		}
		k, ok1 := bytesOf(f[2])
		n, ok2 := natOf(f[3])
		if !ok1 || !ok2 {
			return bad
		}
		name, ok3 := ftName(k)
		if !ok3 || name == common.BLANCE_NAME {
			return bad
		}
		switch f[0] {
		case "addft":
			return b2s(s.AddFT(a, name, n))
		case "subft":
			left, ok := s.SubFT(a, name, n)
			if left == nil {
				return "nil " + b2s(ok)
			}
			return left.String() + " " + b2s(ok)
		default:
			s.SetFT(a, name, n)
			return "ok"
		}
	case "allrefund":
		if len(f) != 2 {
			return bad
		}
		m := s.GetAllRefund(a)
		if len(m) == 0 {
			return "-"
		}
		var ks []string
		for k := range m {
			ks = append(ks, string(k[:]))
		}
		sort.Strings(ks)
		var parts []string
		for _, k := range ks {
			parts = append(parts, hx.Hex([]byte(k))+"="+m[common.BytesToAddress([]byte(k))].String())
		}
		return strings.Join(parts, ",")
	case "setstorage":
		if len(f)%2 != 0 {
			return bad
		}
		st := map[common.Hash]common.Hash{}
		for i := 2; i < len(f); i += 2 {
			k, ok1 := hashOf(f[i])
			v, ok2 := hashOf(f[i+1])
			if !ok1 || !ok2 {
				return bad
			}
			if _, dup := st[k]; dup {
				return bad
			}
			st[k] = v
		}
		s.SetStorage(a, st)
		return "ok"
	case "getft":
		if len(f) != 3 {
			return bad
		}
		k, ok1 := bytesOf(f[2])
		if !ok1 {
			return bad
		}
		name, ok3 := ftName(k)
		if !ok3 || name == common.BLANCE_NAME {
			return bad
		}
		return s.GetFT(a, name).String()
	case "addlog":
		if len(f) != 4 {
			return bad
		}
		tp, ok1 := bytesOf(f[2])
		d, ok2 := bytesOf(f[3])
		if !ok1 || !ok2 || len(tp)%32 != 0 {
			return bad
		}
		var topics []common.Hash
		for i := 0; i < len(tp); i += 32 {
			topics = append(topics, common.BytesToHash(tp[i:i+32]))
		}
		s.AddLog(&types.Log{Address: a, Topics: topics, Data: d})
		return "ok"
	case "aladdr":
		if len(f) != 2 {
			return bad
		}
		s.AddAddressToAccessList(a)
		return "ok"
	case "alslot", "inalslot":
		if len(f) != 3 {
			return bad
		}
		sl, ok := hashOf(f[2])
		if !ok {
			return bad
		}
		if f[0] == "alslot" {
			s.AddSlotToAccessList(a, sl)
			return "ok"
		}
		x, y := s.SlotInAccessList(a, sl)
		return b2s(x) + " " + b2s(y)
	case "inal":
		if len(f) != 2 {
			return bad
		}
		return b2s(s.AddressInAccessList(a))
	case "tset":
		if len(f) != 4 {
			return bad
		}
		k, ok1 := hashOf(f[2])
		v, ok2 := hashOf(f[3])
		if !ok1 || !ok2 {
			return bad
		}
		s.SetTransientState(a, k, v)
		return "ok"
	case "tget":
		if len(f) != 3 {
			return bad
		}
		k, ok1 := hashOf(f[2])
		if !ok1 {
			return bad
		}
		return hx.Hex(s.GetTransientState(a, k).Bytes())
	case "exist":
		return b2s(s.Exist(a))
	case "empty":
		return b2s(s.Empty(a))
	case "bal":
		if !needKey(a) {
			return bad
		}
		return s.GetBalance(a).String()
	case "nonce":
		return strconv.FormatUint(s.GetNonce(a), 10)
	case "getdata", "getstate", "committed":
		if len(f) != 3 {
			return bad
		}
		k, ok1 := bytesOf(f[2])
		if !ok1 {
			return bad
		}
		switch f[0] {
		case "getdata":
			return hx.Hex(w.keep("GetData "+f[1]+" "+f[2], s.GetData(a, k)))
		case "getstate":
			if len(k) != 32 {
				return bad
			}
			return hx.Hex(s.GetState(a, common.BytesToHash(k)).Bytes())
		default:
			if len(k) != 32 {
				return bad
			}
			return hx.Hex(s.GetCommittedState(a, common.BytesToHash(k)).Bytes())
		}
	case "suicided":
		return b2s(s.HasSuicided(a))
	case "code":
		return hx.Hex(w.keep("GetCode "+f[1], s.GetCode(a)))
	case "codesize":
		return strconv.Itoa(s.GetCodeSize(a))
	case "codehash":
		return hx.Hex(s.GetCodeHash(a).Bytes())
	case "iscontract":
		return b2s(s.IsContract(a))
	}
	return bad
}

// amountOK: the 18-decimal conversions applied to balances are the identity on this amount
// (they are property C18's subject; the C04 model treats them as the identity).
func amountOK(n *big.Int) bool {
	return utility.FormatDecimalForERC20(n, 18).Cmp(n) == 0 && utility.FormatDecimalForRocket(n, 18).Cmp(n) == 0
}

var _ = fmt.Sprint
