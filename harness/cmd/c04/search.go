package main

// Searcher: direct oracle for property C04 on the implementation, no model involved.
//
//   run A:  prefix ; snapshot ; region ; revert ; [all queries] ; suffix ; IntermediateRoot(true)
//   run B:  prefix ;                              [all queries] ; suffix ; IntermediateRoot(true)
//
// on two fresh databases. Every accessor named in the property must answer the same in A and B,
// and the two roots must be equal. A difference is classified into a stable class key.

import (
	"com.tuntun.rangers/node/src/common"
	"encoding/json"
	"fmt"
	"strings"

	"verif/harness/hx"
)

type viol struct {
	Key    string   `json:"key"`
	Desc   string   `json:"desc"`
	Prefix []string `json:"prefix"`
	Region []string `json:"region"`
	Suffix []string `json:"suffix"`
	Query  bool     `json:"queries"`
	A      string   `json:"observed_with_reverted_region"`
	B      string   `json:"observed_without_region"`
}

type runRes struct {
	answers       []string
	qs            []string
	content       string
	root          string
	panic         string
	panicAtRevert bool
	panicAfter    bool // panic in the query round / suffix / root, i.e. after the final revert
	tok           string
	rip           string
	logSize       string
	dirty         map[string]bool   // dirty set right before the final root
	empty         map[string]string // Empty(addr) right before the final root
	exist         map[string]string
}

func runOnce(header, prefix, region, suffix []string, withRegion, withQueries bool, qs []string, addrs []string) runRes {
	w := NewWorld()
	var res runRes
	after := false
	ex := func(l string) string {
		r := hx.Guard(func() string { return w.Exec(l) })
		if strings.HasPrefix(r, "PANIC") && res.panic == "" {
			res.panic = l + " => " + r
			res.panicAtRevert = strings.HasPrefix(l, "revert ")
			res.panicAfter = after
		}
		return r
	}
	for _, l := range header {
		ex(l)
	}
	for _, l := range prefix {
		ex(l)
		if res.panic != "" {
			return res
		}
	}
	if withRegion {
		id := ex("snapshot")
		// nested snapshot ids inside the region are written as @k (k-th snapshot of the region)
		var ids []string
		for _, l := range region {
			if l == "snapshot" {
				ids = append(ids, ex(l))
			} else if strings.HasPrefix(l, "revert @") {
				var k int
				fmt.Sscanf(l, "revert @%d", &k)
				if k < len(ids) {
					ex("revert " + ids[k])
				}
			} else {
				ex(l)
			}
			if res.panic != "" {
				return res
			}
		}
		ex("revert " + id)
		if res.panic != "" {
			return res
		}
	}
	after = true
	if withQueries {
		for _, q := range qs {
			res.answers = append(res.answers, ex(q))
			res.qs = append(res.qs, q)
		}
	}
	for _, l := range suffix {
		ex(l)
	}
	res.dirty, res.empty, res.exist = map[string]bool{}, map[string]string{}, map[string]string{}
	if f := strings.Fields(header[0]); len(f) > 2 {
		res.tok, res.rip = f[1], f[2]
	}
	for _, a := range addrs {
		res.exist[a] = ex("exist " + a)
		res.empty[a] = ex("empty " + a)
	}
	in := ex("internals")
	if i := strings.Index(in, " L"); i >= 0 {
		res.logSize = strings.Fields(in[i+2:])[0]
	}
	if i := strings.Index(in, " D["); i >= 0 {
		rest := in[i+3:]
		if j := strings.IndexByte(rest, ']'); j >= 0 && j > 0 {
			for _, a := range strings.Split(rest[:j], ",") {
				res.dirty[a] = true
			}
		}
	}
	res.content = ex("root 1")
	res.root = w.LastRoot
	return res
}

func parseContent(c string) map[string]string {
	m := map[string]string{}
	if c == "empty" {
		return m
	}
	for _, l := range strings.Split(c, ";") {
		if i := strings.IndexByte(l, ':'); i > 0 {
			m[l[:i]] = l[i+1:]
		}
	}
	return m
}

const emptyLeafSuffix = ":a7ffc6f8bf1ed76651c14756a061d662f580ff4de43b49fa82d80a4b80f8434a:"

func mentions(lines []string, kindPrefix, addr string) bool {
	for _, l := range lines {
		if strings.HasPrefix(l, kindPrefix) && strings.Contains(l, addr) {
			return true
		}
	}
	return false
}

// sameModuloLeadingZeros: two leaf descriptions whose storage values only differ by leading zero bytes
func sameModuloLeadingZeros(la, lb string) bool {
	norm := func(l string) string {
		i := strings.LastIndexByte(l, ':')
		if i < 0 {
			return l
		}
		var out []string
		for _, kv := range strings.Split(l[i+1:], ",") {
			if j := strings.IndexByte(kv, '='); j >= 0 {
				kv = kv[:j+1] + strings.TrimLeft(kv[j+1:], "0")
			}
			out = append(out, kv)
		}
		return l[:i+1] + strings.Join(out, ",")
	}
	return norm(la) == norm(lb)
}

func balKeyHex(a common.Address) string {
	pos := uint64(3)
	if common.IsSub() {
		pos = 4
	}
	return hx.Hex(dummyWorld().GetERC20Key(a, pos))
}

// storageOf parses "nonce:codehash:k=v,k=v" into its key/value map.
func storageOf(leaf string) map[string]string {
	m := map[string]string{}
	i := strings.LastIndexByte(leaf, ':')
	if i < 0 || i+1 >= len(leaf) {
		return m
	}
	for _, kv := range strings.Split(leaf[i+1:], ",") {
		if j := strings.IndexByte(kv, '='); j >= 0 {
			m[kv[:j]] = kv[j+1:]
		}
	}
	return m
}

// diffKeys lists the storage keys on which two leaves differ; headDiff reports a nonce / code hash difference.
func diffKeys(la, lb string) (keys []string, headDiff bool) {
	ia, ib := strings.LastIndexByte(la, ':'), strings.LastIndexByte(lb, ':')
	if ia < 0 || ib < 0 || la[:ia] != lb[:ib] {
		headDiff = true
	}
	sa, sb := storageOf(la), storageOf(lb)
	for k, v := range sa {
		if sb[k] != v {
			keys = append(keys, k)
		}
	}
	for k := range sb {
		if _, ok := sa[k]; !ok {
			keys = append(keys, k)
		}
	}
	return
}

// allKeysMentioned: every key was the target of a `<kind> <addr> <key>` line
func allKeysMentioned(lines [][]string, kind, addr string, keys []string) bool {
	if len(keys) == 0 {
		return false
	}
	for _, k := range keys {
		found := false
		for _, ls := range lines {
			for _, l := range ls {
				f := strings.Fields(l)
				if len(f) >= 3 && f[0] == kind && f[1] == addr && f[2] == k {
					found = true
				}
			}
		}
		if !found {
			return false
		}
	}
	return true
}

// SlotLifecycle generates a history about slots that exist in the committed (or only finalised)
// storage trie and are deleted / overwritten / read before the snapshot, rewritten inside the
// reverted region and possibly again afterwards.
func (g *G) SlotLifecycle() (prefix, region, suffix []string) {
	r, u := g.r, g.u
	type slot struct{ a, k string }
	var slots []slot
	na := 1 + r.Intn(2)
	for i := 0; i < na; i++ {
		a := u.addrs[2+r.Intn(len(u.addrs)-2)]
		if r.Chance(1, 6) {
			a = u.addrs[r.Intn(2)]
		}
		ah := hx.Hex(a[:])
		nk := 1 + r.Intn(3)
		for j := 0; j < nk; j++ {
			slots = append(slots, slot{ah, hx.Hex(u.keys[1+r.Intn(len(u.keys)-1)])})
		}
		if r.Chance(2, 3) {
			prefix = append(prefix, fmt.Sprintf("setnonce %s %d", ah, 1+r.Intn(3)))
		}
	}
	nonEmpty := func() string { return hx.Hex(u.vals[1+r.Intn(len(u.vals)-1)]) }
	anyVal := func() string {
		if r.Chance(1, 3) {
			return "-"
		}
		return nonEmpty()
	}
	for _, s := range slots {
		prefix = append(prefix, fmt.Sprintf("setdata %s %s %s", s.a, s.k, nonEmpty()))
	}
	switch x := r.Intn(10); {
	case x < 7:
		prefix = append(prefix, "commit 1", "reopen")
	case x < 8:
		prefix = append(prefix, "root 1")
	case x < 9:
		prefix = append(prefix, "root 0")
	}
	for _, s := range slots {
		switch x := r.Intn(20); {
		case x < 7:
			prefix = append(prefix, fmt.Sprintf("setdata %s %s -", s.a, s.k))
		case x < 11:
			prefix = append(prefix, fmt.Sprintf("setdata %s %s %s", s.a, s.k, nonEmpty()))
		case x < 14:
			prefix = append(prefix, fmt.Sprintf("getdata %s %s", s.a, s.k))
		case x < 15 && len(s.k) == 64:
			prefix = append(prefix, fmt.Sprintf("committed %s %s", s.a, s.k))
		}
	}
	onSlot := func() string {
		s := slots[r.Intn(len(slots))]
		if r.Chance(1, 8) {
			return fmt.Sprintf("getdata %s %s", s.a, s.k)
		}
		return fmt.Sprintf("setdata %s %s %s", s.a, s.k, anyVal())
	}
	nr := 1 + r.Intn(5)
	nsnap := 0
	var valid []int
	for j := 0; j < nr; j++ {
		switch x := r.Intn(12); {
		case x == 0:
			region = append(region, "snapshot")
			valid = append(valid, nsnap)
			nsnap++
		case x == 1 && len(valid) > 0:
			k := r.Intn(len(valid))
			region = append(region, fmt.Sprintf("revert @%d", valid[k]))
			valid = valid[:k]
		case x < 10:
			m := onSlot()
			region = append(region, m)
			if dr := g.DerivedReads(m); len(dr) > 0 && r.Chance(1, 2) {
				region = append(region, dr[r.Intn(len(dr))])
			}
		default:
			m := g.Mutator()
			region = append(region, m)
			if dr := g.DerivedReads(m); len(dr) > 0 && r.Chance(3, 4) {
				region = append(region, dr[r.Intn(len(dr))])
			}
		}
	}
	ns := r.Intn(3)
	for j := 0; j < ns; j++ {
		if r.Bool() {
			suffix = append(suffix, onSlot())
		} else {
			suffix = append(suffix, g.Mutator())
		}
	}
	return
}

// writesTo: the region contains an op whose undo re-runs a setter on `addr` (setNonce / setData /
// setNFTSetDefinition / setBalance on the token contract) and thereby leaves it in the dirty set. A region
// that only touches the account (zero-amount AddFT) or only reads it does not: touchChange.undo takes the
// account out of the dirty set again when it was not dirty before.
func writesTo(region []string, addr, tok string) bool {
	for _, l := range region {
		f := strings.Fields(l)
		if len(f) < 2 {
			continue
		}
		switch f[0] {
		case "setnonce", "incnonce", "setdata", "setstate", "setcode", "suicide", "setft":
			if f[1] == addr {
				return true
			}
		case "addft", "subft":
			if f[1] == addr && len(f) == 4 && f[3] != "0" {
				return true
			}
		}
		switch f[0] {
		case "addbal", "subbal", "setbal", "transfer", "suicide":
			if addr == tok {
				return true
			}
		}
	}
	return false
}

func zeroTouch(region []string, addr string) bool {
	for _, l := range region {
		f := strings.Fields(l)
		if len(f) == 4 && f[0] == "addft" && f[1] == addr && f[3] == "0" {
			return true
		}
	}
	return false
}

func classifyRoot(A, B runRes, prefix, region []string) (string, string) {
	ma, mb := parseContent(A.content), parseContent(B.content)
	for addr, la := range ma {
		lb, ok := mb[addr]
		if !ok {
			if zeroTouch(region, addr) && !A.dirty[addr] && B.dirty[addr] {
				return "touch-undo-disarms-ondirty", "account " + addr + ": touchChange.undo removed the dirty mark but onDirty stays nil, so a later touch/write never marks it dirty again and IntermediateRoot(true) ignores it: kept as " + la
			}
			if B.dirty[addr] && A.exist[addr] == "true" && B.exist[addr] == "true" && A.empty[addr] == "false" && B.empty[addr] == "true" {
				return "empty-looks-at-storage-cache", "account " + addr + " is empty() without the region but not after the reverted region (storageChange.undo and reads leave keys in cachedStorage, which empty() counts): kept as " + la + " instead of being deleted by IntermediateRoot(true)"
			}
			return "extra-account-after-revert", "account " + addr + " = " + la + " only exists after the reverted region"
		}
		if la != lb {
			if zeroTouch(region, addr) && !A.dirty[addr] && B.dirty[addr] {
				return "touch-undo-disarms-ondirty", "account " + addr + ": touchChange.undo removed the dirty mark but onDirty stays nil, a later write is never flushed: " + la + " vs " + lb
			}
			dk, headDiff := diffKeys(la, lb)
			if A.dirty[addr] && B.dirty[addr] && !headDiff && allKeysMentioned([][]string{prefix, region}, "committed", addr, dk) {
				return "committed-read-clobbers-cache", "account " + addr + ": GetCommittedState overwrote a cached dirty slot; the journal then records the stale value: " + la + " vs " + lb
			}
			if mentions(region, "suicide ", "") && !headDiff && sameModuloLeadingZeros(la, lb) {
				return "suicide-undo-rewrites-balance-slot", "account " + addr + ": suicideChange.undo rewrote a balance slot with minimal big-endian bytes: " + la + " vs " + lb
			}
			return "leaf-differs-after-revert", "account " + addr + ": " + la + " vs " + lb
		}
	}
	for addr, lb := range mb {
		if _, ok := ma[addr]; !ok {
			if A.dirty[addr] && !B.dirty[addr] && A.empty[addr] == "true" && A.exist[addr] == "true" && writesTo(region, addr, A.tok) {
				return "revert-leaves-dirty-mark", "account " + addr + " = " + lb + " (nonce 0, no code, only storage: empty() by this code's definition) stays in the dirty set after the reverted region and is deleted by IntermediateRoot(true)"
			}
			if addr == A.rip && zeroTouch(region, addr) && A.dirty[addr] && !B.dirty[addr] && A.empty[addr] == "true" {
				return "ripemd-touch-not-undone", "touchChange.undo skips the address `ripemd` (inherited EIP-161 exception): after a reverted zero-amount AddFT it stays touched and dirty, and being empty() it is deleted: " + lb
			}
			return "missing-account-after-revert", "account " + addr + " = " + lb + " is missing after the reverted region"
		}
	}
	return "root-differs", "contents differ: " + A.content + " vs " + B.content
}

func search(args map[string]string) {
	r := hx.NewRng(hx.SeedFromEnv() ^ 0xc04c04)
	n := hx.ArgInt(args, "n", 300)
	evals := 0
	regionPanics := 0
	distinct := map[string]bool{}
	found := map[string]int{}
	kinds := map[string]int{}
	var samples []string
	emit := func(v viol) {
		found[v.Key]++
		if found[v.Key] > 2 {
			return
		}
		b, _ := json.Marshal(v)
		fmt.Println("VIOL " + string(b))
	}
	type witness struct {
		prefix, region, suffix []string
		q                      bool
		both                   bool // evaluate with and without the query round
		p002off                bool
	}
	var directed []witness
	{
		u0 := NewUniv(hx.NewRng(7))
		a1 := hx.Hex(u0.addrs[2][:])
		k32 := "0000000000000000000000000000000000000000000000000000000000000001"
		v := func(b byte) string { return strings.Repeat("00", 31) + fmt.Sprintf("%02x", b) }
		directed = []witness{
			{[]string{"create " + a1}, []string{"setdata " + a1 + " 6b 01"}, nil, false, false, false},
			{[]string{"create " + a1}, []string{"setdata " + a1 + " 6b 01"}, nil, true, false, false},
			{[]string{"setdata " + a1 + " 6b 07", "commit 1", "reopen"}, []string{"setnonce " + a1 + " 5"}, nil, false, false, false},
			{[]string{"setdata " + a1 + " 6b 07", "commit 1", "reopen"}, []string{"addft " + a1 + " 663a78 0"}, []string{"setnonce " + a1 + " 5"}, false, false, false},
			{[]string{"setstate " + a1 + " " + k32 + " " + v(1), "commit 1", "reopen", "setstate " + a1 + " " + k32 + " " + v(2), "committed " + a1 + " " + k32},
				[]string{"setstate " + a1 + " " + k32 + " " + v(3)}, nil, false, false, false},
			{[]string{"setstate " + a1 + " " + k32 + " " + v(1), "commit 1", "reopen", "setstate " + a1 + " " + k32 + " " + v(2)},
				[]string{"committed " + a1 + " " + k32}, nil, true, false, false},
			// no finding: a committed storage-only account only TOUCHED inside the region; touchChange.undo takes it
			// out of the dirty set again (seeded regression C04-e recorded prevDirty wrongly)
			{[]string{"setdata " + a1 + " 6b 07", "addft " + a1 + " 663a78 5", "commit 1", "reopen"}, []string{"addft " + a1 + " 663a78 0"}, nil, false, false, false},
			{[]string{"setdata " + a1 + " 6b 07", "addft " + a1 + " 663a78 5", "commit 1", "reopen"}, []string{"snapshot", "addft " + a1 + " 663a7979 0", "revert @0", "addft " + a1 + " 663a78 0"}, nil, true, false, false},
			// no finding: pending deletion of a committed slot, rewritten in the region (seeded regression C04-a)
			{[]string{"setnonce " + a1 + " 1", "setdata " + a1 + " 6b6b a045", "commit 1", "reopen", "setdata " + a1 + " 6b6b -"},
				[]string{"setdata " + a1 + " 6b6b 09"}, nil, true, false, false},
			{[]string{"setnonce " + a1 + " 1", "setdata " + a1 + " 6b6b a045", "commit 1", "reopen", "setdata " + a1 + " 6b6b -"},
				[]string{"setdata " + a1 + " 6b6b 09"}, nil, false, false, false},
			{[]string{"setstate " + hx.Hex(u0.tok[:]) + " " + balKeyHex(u0.addrs[2]) + " " + v(5), "setnonce " + a1 + " 1"},
				[]string{"suicide " + a1}, nil, true, false, false},
			{[]string{"setstate " + hx.Hex(u0.tok[:]) + " " + balKeyHex(u0.addrs[2]) + " " + v(5), "setnonce " + a1 + " 1"},
				[]string{"suicide " + a1}, nil, false, false, false},
		}
	}
	{
		// deterministic small-scope family, run before anything random: every ordered pair (op1, op2) of a
		// 20-op alphabet on one account as `prefix; op1; snapshot; op2; revert`, from an empty and from a
		// committed-and-reopened state
		u0 := NewUniv(hx.NewRng(7))
		a1 := hx.Hex(u0.addrs[2][:])
		h1 := strings.Repeat("00", 31) + "01"
		alphabet := []string{
			"setnonce " + a1 + " 1", "incnonce " + a1, "setdata " + a1 + " 6b 09", "setdata " + a1 + " 6b -", "create " + a1,
			"setcode " + a1 + " 60 " + hx.Hex(refKeccak([]byte{0x60})), "suicide " + a1, "addbal " + a1 + " 5", "subbal " + a1 + " 1",
			"addft " + a1 + " 663a78 0", "addft " + a1 + " 663a78 2", "addrefund 3", "subrefund 1", "addlog " + a1 + " - 01",
			"aladdr " + a1, "alslot " + a1 + " " + h1, "tset " + a1 + " " + h1 + " " + h1, "bal " + a1, "getdata " + a1 + " 6b",
			"setstate " + a1 + " " + h1 + " " + h1,
		}
		bases := [][]string{{}, {"setnonce " + a1 + " 1", "setdata " + a1 + " 6b 07", "addrefund 9", "commit 1", "reopen", "addrefund 9"},
			// a committed storage-only account (nonce 0, no code), reopened and not read: empty() by this code's definition
			{"setdata " + a1 + " 6b 07", "addft " + a1 + " 663a78 5", "commit 1", "reopen"},
			// an account that already self-destructed in this (uncommitted) state: with op1 = addbal and
			// op2 = suicide the second suicide entry has prev = true and must still restore the balance
			// (seeded regression C04-k skipped the balance when prev was set)
			{"setnonce " + a1 + " 1", "addbal " + a1 + " 9", "suicide " + a1}}
		for _, base := range bases {
			for _, op1 := range alphabet {
				for _, op2 := range alphabet {
					pre := append(append([]string{}, base...), op1)
					g0 := &G{r: hx.NewRng(7), u: u0}
					reg := append([]string{op2}, g0.DerivedReads(op2)...) // every derived accessor asked while op2 is in place
					directed = append(directed, witness{prefix: pre, region: reg, both: true})
				}
			}
		}
		// the same alphabet as `snapshot; op2; revert; op3`: residue of a reverted op that only a later op exposes
		for _, op2 := range alphabet {
			for _, op3 := range alphabet {
				directed = append(directed, witness{region: []string{op2}, suffix: []string{op3}, both: true})
			}
		}
		// historical configuration: Proposal002 not yet active (balance writes of AddFT/SubFT are not journaled)
		directed = append(directed,
			witness{prefix: []string{"setbal " + a1 + " 7"}, region: []string{"addbal " + a1 + " 2"}, q: true, p002off: true},
			witness{prefix: []string{"setbal " + a1 + " 7"}, region: []string{"subbal " + a1 + " 2"}, q: false, p002off: true})
	}
	for i := -len(directed); i < n; i++ {
		var u *Univ
		if i < 0 {
			u = NewUniv(hx.NewRng(7))
		} else {
			u = NewUniv(r.Fork())
		}
		g := &G{r: r.Fork(), u: u}
		p002 := true
		both := false
		var prefix, region, suffix []string
		withQ := g.r.Bool()
		if i < 0 {
			w := directed[i+len(directed)]
			prefix, region, suffix, withQ = w.prefix, w.region, w.suffix, w.q
			p002, both = !w.p002off, w.both
		}
		if i >= 0 && g.r.Chance(1, 10) {
			p002 = false // a share of the random trials runs under the pre-Proposal002 schedule
		}
		header := u.Header(p002)
		if i < 0 {
		} else if g.r.Chance(2, 5) {
			prefix, region, suffix = g.SlotLifecycle()
		} else {
			if !g.r.Chance(1, 4) {
				np := g.r.Intn(14)
				for j := 0; j < np; j++ {
					prefix = append(prefix, g.Mutator())
				}
				if g.r.Chance(1, 4) {
					prefix = append(prefix, g.Query())
				}
				if g.r.Chance(2, 3) {
					prefix = append(prefix, "commit 1", "reopen")
				} else if g.r.Chance(1, 3) {
					prefix = append(prefix, "root 1")
				}
				np = g.r.Intn(4)
				for j := 0; j < np; j++ {
					if g.r.Chance(1, 3) {
						prefix = append(prefix, g.Query())
					} else {
						prefix = append(prefix, g.Mutator())
					}
				}
			}
			nr := 1 + g.r.Intn(10)
			if g.r.Chance(1, 3) {
				nr = 1 + g.r.Intn(2) // small regions give minimal witnesses
			}
			nsnap := 0
			var valid []int // region snapshots that can still be reverted to
			if g.r.Chance(2, 5) {
				// same mutator, same target: last journaled op before the snapshot and first one after it
				setup, before, after := g.BoundaryPair()
				prefix = append(prefix, setup...)
				prefix = append(prefix, before)
				region = append(region, after)
				if g.r.Chance(1, 2) {
					nr = g.r.Intn(3)
				}
				if g.r.Chance(1, 3) {
					// and once more around a nested snapshot inside the region
					_, b2, a2 := g.BoundaryPair()
					region = append(region, b2, "snapshot", a2, fmt.Sprintf("revert @%d", nsnap))
					nsnap++
				}
			}
			for j := 0; j < nr; j++ {
				x := g.r.Intn(10)
				switch {
				case x == 0:
					region = append(region, "snapshot")
					valid = append(valid, nsnap)
					nsnap++
				case x == 1 && len(valid) > 0:
					k := g.r.Intn(len(valid))
					region = append(region, fmt.Sprintf("revert @%d", valid[k]))
					valid = valid[:k]
				case x == 2:
					region = append(region, g.Query())
				default:
					m := g.Mutator()
					region = append(region, m)
					if g.r.Chance(3, 4) {
						dr := g.DerivedReads(m)
						for k := 0; k < 2 && len(dr) > 0; k++ {
							region = append(region, dr[g.r.Intn(len(dr))])
						}
					}
				}
			}
			ns := g.r.Intn(3)
			for j := 0; j < ns; j++ {
				suffix = append(suffix, g.Mutator())
			}
		}
		qs := g.AllQueries()
		var addrs []string
		for _, a := range u.addrs {
			addrs = append(addrs, hx.Hex(a[:]))
		}
		modes := []bool{true, false}
		if i < 0 && !both {
			modes = []bool{withQ}
		}
		balanceOp := mentions(region, "addbal ", "") || mentions(region, "subbal ", "") || mentions(region, "transfer ", "")
		distinct[strings.Join(prefix, ";")+"|"+strings.Join(region, ";")+"|"+strings.Join(suffix, ";")] = true
		for _, l := range region {
			kinds[kind(l)]++
		}
		if len(samples) < 3 {
			samples = append(samples, strings.Join(region, "; "))
		}
		for _, withQ := range modes {
			A := runOnce(header, prefix, region, suffix, true, withQ, qs, addrs)
			B := runOnce(header, prefix, region, suffix, false, withQ, qs, addrs)
			evals++
			base := viol{Prefix: prefix, Region: region, Suffix: suffix, Query: withQ}
			if B.panic != "" {
				break // the reference run itself panics (e.g. deleted token contract): not a revert question
			}
			if A.panic != "" && A.panicAfter {
				base.Key, base.Desc, base.A, base.B = "panic-after-revert", "a query / later op / IntermediateRoot panics after the reverted region, the run without the region does not", A.panic, "no panic"
				emit(base)
				break
			}
			if A.panic != "" && !A.panicAtRevert {
				regionPanics++
				break // a region op itself panicked (e.g. SubRefund below zero): no revert was attempted
			}
			if A.panic != "" {
				base.Key, base.Desc, base.A, base.B = "panic-in-reverted-run", "the run with the reverted region panics, the run without does not", A.panic, "no panic"
				emit(base)
				break
			}
			bad := false
			seenKey := map[string]bool{}
			for j := range A.answers {
				if A.answers[j] == B.answers[j] {
					continue
				}
				q := kind(A.qs[j])
				f := strings.Fields(A.qs[j])
				v := base
				switch {
				case !p002 && balanceOp && (q == "bal" || q == "cantransfer" || q == "getdata" || q == "getstate"):
					v.Key = "pre-proposal002-balance-not-journaled"
					v.Desc = "Proposal002 not active: AddFT/SubFT wrote the balance slot without a journal entry, the revert does not restore it: " + A.qs[j]
				case q == "empty":
					v.Key = "empty-query-after-revert"
					v.Desc = "Empty(addr) answers differently after a reverted region: " + A.qs[j]
				case (q == "getdata" || q == "getstate") && len(f) == 3 && allKeysMentioned([][]string{prefix, region}, "committed", f[1], []string{f[2]}):
					v.Key = "committed-read-clobbers-cache"
					v.Desc = "GetCommittedState overwrote a cached dirty slot, so GetData answers differently after the revert: " + A.qs[j]
				case q == "getdata" && len(f) == 3 && mentions(region, "suicide ", "") && len(A.answers[j]) < len(B.answers[j]) && strings.TrimLeft(B.answers[j], "0") == strings.TrimLeft(A.answers[j], "0"):
					v.Key = "suicide-undo-rewrites-balance-slot"
					v.Desc = "suicideChange.undo rewrites the balance slot with minimal big-endian bytes (leading zeros lost): " + A.qs[j]
				default:
					v.Key = "query-" + q + "-not-restored"
					v.Desc = "accessor answers differently after the revert: " + A.qs[j]
					bad = true
				}
				if seenKey[v.Key] {
					continue
				}
				seenKey[v.Key] = true
				v.A, v.B = A.answers[j], B.answers[j]
				emit(v)
			}
			if bad {
				continue
			}
			if A.logSize != B.logSize {
				v := base
				v.Key, v.Desc = "query-logsize-not-restored", "the log counter (Index of the next emitted log) differs after the revert"
				v.A, v.B = A.logSize, B.logSize
				emit(v)
				continue
			}
			if (A.content == B.content) != (A.root == B.root) {
				v := base
				v.Key, v.Desc = "root-content-clash", "root hash and trie content disagree about equality"
				v.A, v.B = A.root+" "+A.content, B.root+" "+B.content
				emit(v)
			} else if A.content != B.content {
				v := base
				v.Key, v.Desc = classifyRoot(A, B, prefix, region)
				if !p002 && balanceOp && (v.Key == "leaf-differs-after-revert" || v.Key == "extra-account-after-revert") && strings.Contains(v.Desc, hx.Hex(u.tok[:])) {
					v.Key = "pre-proposal002-balance-not-journaled"
					v.Desc = "Proposal002 not active: un-journaled balance write survives the revert: " + v.Desc
				}
				v.A, v.B = A.content, B.content
				emit(v)
			}
		}
	}
	st := map[string]interface{}{"evaluations": evals, "distinct": len(distinct), "found": found, "region_kinds": kinds, "region_panics": regionPanics, "samples": samples}
	b, _ := json.Marshal(st)
	fmt.Println("STATS " + string(b))
}
