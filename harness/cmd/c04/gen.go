package main

// Generators for C04 op scripts. Everything random comes from one hx.Rng.

import (
	"fmt"
	"math/big"
	"strings"

	"com.tuntun.rangers/node/src/common"
	crypto "com.tuntun.rangers/node/src/eth_crypto"
	"com.tuntun.rangers/node/src/storage/account"
	"verif/harness/hx"
)

// code hashes on op lines come from x/crypto directly, not from the package under test's helper
func keccak(b []byte) []byte { return refKeccak(b) }

var _ = crypto.Keccak256

type Univ struct {
	tok, rip common.Address
	addrs    []common.Address
	keys     [][]byte // storage keys (arbitrary length)
	keys32   [][]byte
	vals     [][]byte
	vals32   [][]byte
	ftkeys   [][]byte
	amounts  []*big.Int
	nonces   []uint64
	refunds  []uint64
	hashes   [][]byte
	codes    [][]byte
}

func pow(b, e int64) *big.Int { return new(big.Int).Exp(big.NewInt(b), big.NewInt(e), nil) }

func NewUniv(r *hx.Rng) *Univ {
	u := &Univ{}
	u.tok = account.VerifTokenContract()
	u.rip = common.StringToAddress("0000000000000000000000000000000000000003")
	u.addrs = []common.Address{u.tok, u.rip}
	for i := 0; i < 4; i++ {
		var a common.Address
		copy(a[:], r.Bytes(20))
		a[0] = 0xa0 + byte(i)
		u.addrs = append(u.addrs, a)
	}
	// boundary addresses: leading zero bytes (0x00..01), and one whose balance-slot key (a Keccak image)
	// starts with a zero byte: found by rejection sampling with the seed (about 256 tries)
	switch r.Intn(3) {
	case 0:
		var a common.Address
		a[19] = 1
		u.addrs[2] = a
	case 1:
		for tries := 0; tries < 4096; tries++ {
			var a common.Address
			copy(a[:], r.Bytes(20))
			a[0] = 0xa9
			if refERC20Key(a, 3)[0] == 0 && refERC20Key(a, 4)[0] != 0 || refERC20Key(a, 3)[0] == 0 {
				u.addrs[3] = a
				break
			}
		}
	}
	k32a := make([]byte, 32)
	k32a[31] = 1
	k32b := r.Bytes(32)
	u.keys32 = [][]byte{k32a, k32b}
	u.keys = [][]byte{{}, []byte("k"), []byte("kk"), k32a, k32b}
	switch r.Intn(3) { // size boundaries around the 32-byte word, and a key with leading zero bytes
	case 0:
		u.keys[2] = r.Bytes(31)
	case 1:
		u.keys[2] = r.Bytes(33)
	default:
		u.keys[2] = []byte{0, 0, 7}
	}
	z32 := make([]byte, 32)
	v32 := r.Bytes(32)
	one32 := make([]byte, 32)
	one32[31] = 1
	u.vals32 = [][]byte{z32, one32, v32}
	u.vals = [][]byte{{}, {1}, {0}, r.Bytes(5), z32, v32}
	switch r.Intn(4) { // leading-zero and 31/33-byte values (a balance slot may be written this way)
	case 0:
		u.vals[3] = append([]byte{0, 0}, r.Bytes(2)...)
	case 1:
		u.vals[3] = r.Bytes(31)
	case 2:
		u.vals[3] = r.Bytes(33)
	}
	u.ftkeys = [][]byte{[]byte(common.GenerateFTKey("x")), []byte(common.GenerateFTKey("yy"))}
	cands := []*big.Int{big.NewInt(0), big.NewInt(1), big.NewInt(2), big.NewInt(255), big.NewInt(256), pow(10, 18),
		pow(2, 64), new(big.Int).Sub(pow(2, 64), big.NewInt(1)), pow(2, 255), new(big.Int).SetBytes(r.Bytes(9))}
	for _, c := range cands {
		if amountOK(c) {
			u.amounts = append(u.amounts, c)
		}
	}
	u.nonces = []uint64{0, 1, 2, ^uint64(0), ^uint64(0) - 1, r.U64() % 1000}
	u.refunds = []uint64{0, 1, 5, ^uint64(0), r.U64() % 100000}
	u.hashes = [][]byte{z32, one32, r.Bytes(32)}
	u.codes = [][]byte{{0x60}, r.Bytes(3), r.Bytes(8)}
	return u
}

func (u *Univ) Header(p002 bool) []string {
	b := "0"
	if p002 {
		b = "1"
	}
	ls := []string{fmt.Sprintf("new %s %s %s", hx.Hex(u.tok[:]), hx.Hex(u.rip[:]), b)}
	m := dummyWorld()
	pos := uint64(3)
	if common.IsSub() {
		pos = 4
	}
	for _, a := range u.addrs {
		ls = append(ls, fmt.Sprintf("balkey %s %s", hx.Hex(a[:]), hx.Hex(m.GetERC20Key(a, pos))))
	}
	return ls
}

type G struct {
	r *hx.Rng
	u *Univ
}

func (g *G) addr() string {
	// bias: token contract and ripemd matter
	switch g.r.Intn(10) {
	case 0:
		return hx.Hex(g.u.tok[:])
	case 1:
		return hx.Hex(g.u.rip[:])
	}
	a := g.u.addrs[g.r.Intn(len(g.u.addrs))]
	return hx.Hex(a[:])
}
func (g *G) pick(xs [][]byte) string { return hx.Hex(xs[g.r.Intn(len(xs))]) }
func (g *G) amount() string          { return g.u.amounts[g.r.Intn(len(g.u.amounts))].String() }
func (g *G) smallAmount() string {
	if g.r.Chance(1, 3) {
		return "0"
	}
	return g.u.amounts[g.r.Intn(4)].String()
}

// Mutator returns one journaled mutator line (never a snapshot / revert / boundary op).
func (g *G) Mutator() string {
	r := g.r
	switch r.Intn(25) {
	case 22: // SetStorage with 0..2 distinct slots
		l := "setstorage " + g.addr()
		n := r.Intn(3)
		for i := 0; i < n && i < len(g.u.keys32); i++ {
			l += " " + hx.Hex(g.u.keys32[i]) + " " + g.pick(g.u.vals32)
		}
		return l
	case 23: // AddERC20Binding of a name no FT op of the scripts uses
		name := []string{"bind1", "bind2"}[r.Intn(2)]
		bind := common.GenerateERC20Binding(name)
		pos := []uint64{0, 3, ^uint64(0)}[r.Intn(3)]
		return fmt.Sprintf("addbinding %s %s %s %d %d", hx.Hex([]byte(name)), hx.Hex(bind[:]), g.addr(), pos, 18)
	case 24:
		return fmt.Sprintf("setdata %s %s %s", g.addr(), g.pick(g.u.keys), g.pick(g.u.vals))
	case 0:
		return fmt.Sprintf("setnonce %s %d", g.addr(), g.u.nonces[r.Intn(len(g.u.nonces))])
	case 1:
		return "incnonce " + g.addr()
	case 2, 3:
		return fmt.Sprintf("setdata %s %s %s", g.addr(), g.pick(g.u.keys), g.pick(g.u.vals))
	case 4:
		return fmt.Sprintf("setstate %s %s %s", g.addr(), g.pick(g.u.keys32), g.pick(g.u.vals32))
	case 5:
		return "create " + g.addr()
	case 6:
		c := g.u.codes[r.Intn(len(g.u.codes))]
		return fmt.Sprintf("setcode %s %s %s", g.addr(), hx.Hex(c), hx.Hex(keccak(c)))
	case 7:
		return "suicide " + g.addr()
	case 8, 9:
		return fmt.Sprintf("addbal %s %s", g.addr(), g.amount())
	case 10:
		return fmt.Sprintf("subbal %s %s", g.addr(), g.smallAmount())
	case 11:
		return fmt.Sprintf("setbal %s %s", g.addr(), g.amount())
	case 12:
		return fmt.Sprintf("transfer %s %s %s", g.addr(), g.addr(), g.smallAmount())
	case 13, 14:
		return fmt.Sprintf("addft %s %s %s", g.addr(), g.pick(g.u.ftkeys), g.smallAmount())
	case 15:
		return fmt.Sprintf("subft %s %s %s", g.addr(), g.pick(g.u.ftkeys), g.smallAmount())
	case 16:
		return fmt.Sprintf("setft %s %s %s", g.addr(), g.pick(g.u.ftkeys), g.amount())
	case 17:
		if r.Chance(1, 6) {
			return fmt.Sprintf("subrefund %d", g.u.refunds[r.Intn(3)])
		}
		if r.Chance(1, 5) {
			return "subrefund 0"
		}
		return fmt.Sprintf("addrefund %d", g.u.refunds[r.Intn(len(g.u.refunds))])
	case 18:
		n := r.Intn(3)
		var tp []byte
		for i := 0; i < n; i++ {
			tp = append(tp, g.u.hashes[r.Intn(len(g.u.hashes))]...)
		}
		return fmt.Sprintf("addlog %s %s %s", g.addr(), hx.Hex(tp), hx.Hex(r.Bytes(r.Intn(4))))
	case 19:
		return "aladdr " + g.addr()
	case 20:
		return fmt.Sprintf("alslot %s %s", g.addr(), g.pick(g.u.hashes))
	default:
		return fmt.Sprintf("tset %s %s %s", g.addr(), g.pick(g.u.hashes), g.pick(g.u.hashes))
	}
}

// BoundaryPair returns (setup, before, after): `before` and `after` are the SAME kind of mutator on
// the SAME target, meant to be the last journaled op before a Snapshot() and the first one after it,
// with nothing journaled in between (journal-coalescing and "undo assumes a constant" mistakes only
// show there). Half of the pairs are idempotent-looking repeats (Suicide twice, CreateAccount twice,
// AddAddressToAccessList twice, SetCode with the same code, the same slot value ...). `setup` makes the
// target exist where the op needs it.
func (g *G) BoundaryPair() (setup []string, before, after string) {
	r := g.r
	a := g.addr()
	same := r.Bool()
	pickTwo := func(f func() string) (string, string) {
		x := f()
		if same {
			return x, x
		}
		return x, f()
	}
	switch r.Intn(12) {
	case 0: // refund
		op := func() string {
			if r.Chance(1, 4) {
				return "subrefund 1"
			}
			return fmt.Sprintf("addrefund %d", 1+r.Intn(9))
		}
		before, after = pickTwo(op)
		setup = []string{"addrefund 20"}
	case 1: // suicide twice
		setup = []string{fmt.Sprintf("setnonce %s 1", a)}
		before, after = "suicide "+a, "suicide "+a
	case 2: // nonce
		op := func() string {
			if r.Bool() {
				return "incnonce " + a
			}
			return fmt.Sprintf("setnonce %s %d", a, g.u.nonces[r.Intn(len(g.u.nonces))])
		}
		before, after = pickTwo(op)
	case 3: // code
		op := func() string {
			c := g.u.codes[r.Intn(len(g.u.codes))]
			return fmt.Sprintf("setcode %s %s %s", a, hx.Hex(c), hx.Hex(keccak(c)))
		}
		before, after = pickTwo(op)
	case 4, 5: // storage slot
		k := g.pick(g.u.keys)
		op := func() string { return fmt.Sprintf("setdata %s %s %s", a, k, g.pick(g.u.vals)) }
		before, after = pickTwo(op)
	case 6: // access list address
		before, after = "aladdr "+a, "aladdr "+a
	case 7: // access list slot
		op := func() string { return fmt.Sprintf("alslot %s %s", a, g.pick(g.u.hashes)) }
		before, after = pickTwo(op)
	case 8: // transient
		k := g.pick(g.u.hashes)
		op := func() string { return fmt.Sprintf("tset %s %s %s", a, k, g.pick(g.u.hashes)) }
		before, after = pickTwo(op)
	case 9: // log
		op := func() string { return fmt.Sprintf("addlog %s - %s", a, hx.Hex(r.Bytes(1+r.Intn(2)))) }
		before, after = pickTwo(op)
	case 10: // create twice
		before, after = "create "+a, "create "+a
	default: // balance of the same address
		op := func() string {
			switch r.Intn(3) {
			case 0:
				return fmt.Sprintf("addbal %s %s", a, g.amount())
			case 1:
				return fmt.Sprintf("setbal %s %s", a, g.amount())
			default:
				return fmt.Sprintf("addft %s %s %s", a, g.pick(g.u.ftkeys), g.smallAmount())
			}
		}
		before, after = pickTwo(op)
	}
	return
}

// QueryFor returns a reader aimed at what the mutator line `m` just wrote (same address / slot / key): random
// queries over the universe rarely hit the one thing that changed, so the "true" / non-zero branches of the
// readers were hardly reached.
func (g *G) QueryFor(m string) string {
	f := strings.Fields(m)
	if len(f) < 2 {
		return g.Query()
	}
	a := f[1]
	pick := func(xs ...string) string { return xs[g.r.Intn(len(xs))] }
	switch f[0] {
	case "setnonce", "incnonce":
		return pick("nonce "+a, "empty "+a, "exist "+a)
	case "setdata", "setstate", "setstorage":
		if len(f) < 3 {
			return "exist " + a
		}
		if len(f[2]) == 64 {
			return pick("getdata "+a+" "+f[2], "getstate "+a+" "+f[2], "committed "+a+" "+f[2], "allrefund "+a)
		}
		return pick("getdata "+a+" "+f[2], "empty "+a, "allrefund "+a)
	case "setcode":
		return pick("code "+a, "codesize "+a, "codehash "+a, "iscontract "+a)
	case "suicide":
		return pick("suicided "+a, "suicided "+a, "exist "+a, "bal "+a)
	case "addbal", "subbal", "setbal":
		return pick("bal "+a, "cantransfer "+a+" 1", "cantransfer "+a+" "+g.smallAmount())
	case "transfer":
		if len(f) > 2 {
			return pick("bal "+a, "bal "+f[2])
		}
	case "addft", "subft", "setft":
		if len(f) > 2 {
			return pick("getft "+a+" "+f[2], "allrefund "+a, "empty "+a)
		}
	case "aladdr":
		return "inal " + a
	case "alslot":
		if len(f) > 2 {
			return pick("inalslot "+a+" "+f[2], "inal "+a)
		}
	case "tset":
		if len(f) > 2 {
			return "tget " + a + " " + f[2]
		}
	case "create":
		return pick("exist "+a, "empty "+a)
	case "addrefund", "subrefund":
		return "refund"
	case "addbinding":
		if len(f) > 2 {
			return pick("exist "+f[2], "allrefund "+f[2], "getdata "+f[2]+" 70")
		}
	}
	return g.Query()
}

// DerivedReads lists EVERY read accessor whose answer depends on what the mutator line `m` writes (derived ones
// included: size / hash / is-contract of code, existence / emptiness of the account, committed view of a slot …).
// A memo an accessor fills while the mutation is in place is only visible if that accessor is asked inside the
// reverted region and again after the revert.
func (g *G) DerivedReads(m string) []string {
	f := strings.Fields(m)
	if len(f) < 2 {
		return nil
	}
	a := f[1]
	acct := []string{"exist " + a, "empty " + a}
	switch f[0] {
	case "setnonce", "incnonce":
		return append([]string{"nonce " + a}, acct...)
	case "setdata", "setstate", "setstorage":
		if len(f) < 3 {
			return acct
		}
		rs := []string{"getdata " + a + " " + f[2], "allrefund " + a}
		if len(f[2]) == 64 {
			rs = append(rs, "getstate "+a+" "+f[2], "committed "+a+" "+f[2])
		}
		return append(rs, acct...)
	case "setcode":
		return append([]string{"code " + a, "codesize " + a, "codehash " + a, "iscontract " + a}, acct...)
	case "suicide":
		return append([]string{"suicided " + a, "bal " + a}, acct...)
	case "create":
		return append([]string{"nonce " + a, "codehash " + a, "codesize " + a}, acct...)
	case "addbal", "subbal", "setbal":
		return []string{"bal " + a, "cantransfer " + a + " 1"}
	case "transfer":
		if len(f) > 2 {
			return []string{"bal " + a, "bal " + f[2], "cantransfer " + f[2] + " 1"}
		}
	case "addft", "subft", "setft":
		if len(f) > 2 {
			return append([]string{"getft " + a + " " + f[2], "getdata " + a + " " + f[2], "allrefund " + a}, acct...)
		}
	case "aladdr":
		return []string{"inal " + a}
	case "alslot":
		if len(f) > 2 {
			return []string{"inalslot " + a + " " + f[2], "inal " + a}
		}
	case "tset":
		if len(f) > 2 {
			return []string{"tget " + a + " " + f[2]}
		}
	case "addrefund", "subrefund":
		return []string{"refund"}
	case "addlog":
		return []string{"logs " + strings.Repeat("00", 32)}
	}
	return nil
}

// Query returns one reader line.
func (g *G) Query() string {
	r := g.r
	switch r.Intn(21) {
	case 20:
		return "allrefund " + g.addr()
	case 0:
		return "exist " + g.addr()
	case 1:
		return "empty " + g.addr()
	case 2, 3:
		return "bal " + g.addr()
	case 4:
		return "nonce " + g.addr()
	case 5, 6:
		return fmt.Sprintf("getdata %s %s", g.addr(), g.pick(g.u.keys))
	case 7:
		return fmt.Sprintf("getstate %s %s", g.addr(), g.pick(g.u.keys32))
	case 8:
		return fmt.Sprintf("committed %s %s", g.addr(), g.pick(g.u.keys32))
	case 9:
		return "suicided " + g.addr()
	case 10:
		return "code " + g.addr()
	case 11:
		return "codesize " + g.addr()
	case 12:
		return "codehash " + g.addr()
	case 13:
		return "iscontract " + g.addr()
	case 14:
		return fmt.Sprintf("getft %s %s", g.addr(), g.pick(g.u.ftkeys))
	case 15:
		return "refund"
	case 16:
		return "logs " + g.pick(g.u.hashes)
	case 17:
		if r.Bool() {
			return "inal " + g.addr()
		}
		return fmt.Sprintf("inalslot %s %s", g.addr(), g.pick(g.u.hashes))
	case 18:
		return fmt.Sprintf("tget %s %s", g.addr(), g.pick(g.u.hashes))
	default:
		return fmt.Sprintf("cantransfer %s %s", g.addr(), g.smallAmount())
	}
}

// AllQueries lists every accessor named by the property over the whole universe
// (used by the searcher; `empty` is reported separately).
func (g *G) AllQueries() []string {
	var qs []string
	u := g.u
	for _, a := range u.addrs {
		h := hx.Hex(a[:])
		qs = append(qs, "exist "+h, "nonce "+h, "suicided "+h, "code "+h, "codesize "+h, "codehash "+h, "iscontract "+h, "bal "+h,
			"cantransfer "+h+" 1", "inal "+h, "empty "+h)
		for _, k := range u.keys32 {
			qs = append(qs, "getstate "+h+" "+hx.Hex(k))
		}
		for _, k := range u.ftkeys {
			qs = append(qs, "getft "+h+" "+hx.Hex(k))
		}
		for _, k := range u.keys {
			qs = append(qs, "getdata "+h+" "+hx.Hex(k))
		}
		for _, k := range u.ftkeys {
			qs = append(qs, "getdata "+h+" "+hx.Hex(k))
		}
		for _, x := range u.hashes {
			qs = append(qs, "inalslot "+h+" "+hx.Hex(x), "tget "+h+" "+hx.Hex(x))
		}
	}
	for _, x := range u.hashes {
		qs = append(qs, "logs "+hx.Hex(x))
	}
	qs = append(qs, "refund")
	return qs
}

func dummyWorld() *account.AccountDB {
	w := NewWorld()
	u := account.VerifTokenContract()
	rip := common.StringToAddress("0000000000000000000000000000000000000003")
	w.Exec(fmt.Sprintf("new %s %s 1", hx.Hex(u[:]), hx.Hex(rip[:])))
	return w.adb
}

func kind(line string) string {
	if i := strings.IndexByte(line, ' '); i >= 0 {
		return line[:i]
	}
	return line
}
