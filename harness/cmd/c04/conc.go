package main

// Concurrency evidence (not proof; the property is sequential): N goroutines replay N different op
// scripts, each on its own AccountDB, all over ONE shared AccountDatabase (trie node database, code
// caches) and the package-level state; every answer must equal the one recorded when the same script
// ran alone. Built with -race in the thorough tier.

import (
	"encoding/json"
	"fmt"
	"strings"
	"sync"

	"com.tuntun.rangers/node/src/middleware/db"
	"com.tuntun.rangers/node/src/storage/account"
	"verif/harness/hx"
)

func genPlainScript(g *G, u *Univ, exec func(string) string, n int) (lines, answers []string) {
	do := func(l string) string {
		a := hx.Guard(func() string { return exec(l) })
		lines = append(lines, l)
		answers = append(answers, a)
		return a
	}
	for _, l := range u.Header(true) {
		do(l)
	}
	var stack []string
	for i := 0; i < n; i++ {
		var a string
		switch x := g.r.Intn(100); {
		case x < 50:
			a = do(g.Mutator())
		case x < 60:
			a = do("snapshot")
			stack = append(stack, a)
		case x < 68 && len(stack) > 0:
			k := g.r.Intn(len(stack))
			a = do("revert " + stack[k])
			stack = stack[:k]
		case x < 90:
			a = do(g.Query())
		case x < 95:
			a = do("root 1")
			stack = stack[:0]
		default:
			a = do("commit 1")
			stack = stack[:0]
			if !strings.HasPrefix(a, "PANIC") {
				a = do("reopen")
			}
		}
		if strings.HasPrefix(a, "PANIC") {
			break
		}
	}
	return
}

func conc(args map[string]string) {
	r := hx.NewRng(hx.SeedFromEnv() ^ 0xc0c04)
	k := hx.ArgInt(args, "k", 8)
	rounds := hx.ArgInt(args, "rounds", 4)
	ops := hx.ArgInt(args, "n", 120)
	total, mism := 0, []string{}
	for round := 0; round < rounds; round++ {
		scripts := make([][]string, k)
		want := make([][]string, k)
		for i := 0; i < k; i++ {
			u := NewUniv(r.Fork())
			g := &G{r: r.Fork(), u: u}
			w := NewWorld()
			scripts[i], want[i] = genPlainScript(g, u, w.Exec, ops)
		}
		setP002(true)
		m, _ := db.NewMemDatabase()
		shared := account.NewDatabase(m)
		got := make([][]string, k)
		var wg sync.WaitGroup
		for i := 0; i < k; i++ {
			wg.Add(1)
			go func(i int) {
				defer wg.Done()
				w := NewWorld()
				w.sharedTdb = shared
				for _, l := range scripts[i] {
					got[i] = append(got[i], hx.Guard(func() string { return w.Exec(l) }))
				}
			}(i)
		}
		wg.Wait()
		for i := 0; i < k; i++ {
			for j := range scripts[i] {
				total++
				g, w := got[i][j], want[i][j]
				if strings.HasPrefix(g, "PANIC") && strings.HasPrefix(w, "PANIC") {
					continue
				}
				if g != w && len(mism) < 5 {
					mism = append(mism, fmt.Sprintf("script %d op %q: alone %q, concurrent %q", i, scripts[i][j], w, g))
				}
			}
		}
	}
	b, _ := json.Marshal(map[string]interface{}{"goroutines": k, "rounds": rounds, "answers_compared": total, "mismatches": mism})
	fmt.Println("STATS " + string(b))
}
