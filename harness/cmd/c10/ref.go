package main

// An independent reference of the computational EVM opcodes written from the Yellow
// Paper (Appendix H) and EIP-145/3855/5656 with math/big.  It knows nothing of
// go-rangers and nothing of the Lean model; it has no gas: programs get ample gas, memory
// up to 2^17 bytes is always affordable, beyond 2^27 never, in between the case is skipped.  Used by mode=search only.

import (
	"bytes"
	"fmt"
	"io/ioutil"
	"math/big"
	"os"
	"path/filepath"
	"sort"
	"strconv"
	"strings"

	"com.tuntun.rangers/node/src/vm"
	"github.com/holiman/uint256"
	"golang.org/x/crypto/sha3"
	"verif/harness/hx"
)

type refResult struct {
	kind string // ok | revert | err | skip
	ret  []byte
	why  string
}

var (
	one      = big.NewInt(1)
	maxMem   = big.NewInt(1 << 17) // up to here ample gas certainly pays for the memory
	sureFail = big.NewInt(1 << 27) // beyond this no gas limit used here can pay for it
)

func u(x *big.Int) *big.Int { return new(big.Int).Mod(x, mod256) }

func signed(x *big.Int) *big.Int {
	if x.Bit(255) == 1 {
		return new(big.Int).Sub(x, mod256)
	}
	return new(big.Int).Set(x)
}

func boolW(b bool) *big.Int {
	if b {
		return big.NewInt(1)
	}
	return big.NewInt(0)
}

func refJumpdests(code []byte) map[int]bool {
	v := map[int]bool{}
	for i := 0; i < len(code); {
		o := code[i]
		if o >= 0x60 && o <= 0x7f {
			i += int(o) - 0x5f + 1
			continue
		}
		if o == 0x5b {
			v[i] = true
		}
		i++
	}
	return v
}

func refRun(code, input []byte, p022 bool) refResult {
	return refRunNested(code, input, p022, nil, nil)
}

// aliasQuirk switches the reference from the specification to the one recorded deviation of
// go-rangers (known finding returndata-alias-identity-overlap): after a call to the identity
// precompile 0x04 the return-data buffer holds what the INPUT WINDOW of caller memory contains
// after the write-back to the output window (they alias), instead of the bytes that were sent.
// It is used only to decide whether a difference is exactly that recorded deviation.
var aliasQuirk = false

// refRunNested: as refRun; additionally STATICCALL (0xfa) to `calleeAddr` runs `calleeCode` in a
// fresh frame (own stack and memory, call data = the input window) and gives the caller the
// success flag, the return data and the write-back of min(retSize, len(ret)) bytes.
func refRunNested(code, input []byte, p022 bool, calleeAddr, calleeCode []byte) refResult {
	var (
		st   []*big.Int
		mem  []byte
		rd   []byte
		pc   = 0
		dest = refJumpdests(code)
	)
	undetermined := false
	fail := func(why string) refResult {
		if undetermined {
			return refResult{kind: "skip", why: why}
		}
		return refResult{kind: "err", why: why}
	}
	pop := func() *big.Int { x := st[len(st)-1]; st = st[:len(st)-1]; return x }
	push := func(x *big.Int) { st = append(st, x) }
	// touch expands memory for [off, off+size); false = cannot be paid for
	touch := func(off, size *big.Int) bool {
		if size.Sign() == 0 {
			return true
		}
		end := new(big.Int).Add(off, size)
		if end.Cmp(maxMem) > 0 {
			if end.Cmp(sureFail) <= 0 {
				undetermined = true // whether the gas suffices is not the reference's business
			}
			return false
		}
		n := int((end.Int64() + 31) / 32 * 32)
		if n > len(mem) {
			mem = append(mem, make([]byte, n-len(mem))...)
		}
		return true
	}
	// slice of data from a byte string, zero padded
	padded := func(data []byte, off, size *big.Int) []byte {
		out := make([]byte, size.Int64())
		if off.IsInt64() && off.Int64() < int64(len(data)) {
			copy(out, data[off.Int64():])
		}
		return out
	}
	for steps := 0; steps < 200000; steps++ {
		if pc >= len(code) {
			return refResult{kind: "ok"}
		}
		op := code[pc]
		need, adds := 0, 0
		switch {
		case op == 0x00 || op == 0x5b:
		case op >= 0x01 && op <= 0x07, op == 0x0a, op == 0x0b, op >= 0x10 && op <= 0x14, op >= 0x16 && op <= 0x18, op >= 0x1a && op <= 0x1d, op == 0x20:
			need, adds = 2, 1
		case op == 0x08 || op == 0x09:
			need, adds = 3, 1
		case op == 0x15 || op == 0x19 || op == 0x35 || op == 0x51:
			need, adds = 1, 1
		case op == 0x36 || op == 0x38 || op == 0x3d || op == 0x58 || op == 0x59:
			adds = 1
		case op == 0x37 || op == 0x39 || op == 0x3e:
			need = 3
		case op == 0x50 || op == 0x56:
			need = 1
		case op == 0x52 || op == 0x53 || op == 0x57 || op == 0xf3 || op == 0xfd:
			need = 2
		case op == 0x5e && p022:
			need = 3
		case op == 0x5f && p022:
			adds = 1
		case op >= 0x60 && op <= 0x7f:
			adds = 1
		case op >= 0x80 && op <= 0x8f:
			need, adds = int(op)-0x7f, int(op)-0x7f+1
		case op >= 0x90 && op <= 0x9f:
			need, adds = int(op)-0x8f+1, int(op)-0x8f+1
		case (op == 0xfa || op == 0xf4) && calleeAddr != nil:
			need, adds = 6, 1
		case (op == 0xf1 || op == 0xf2) && calleeAddr != nil:
			need, adds = 7, 1
		case op == 0x5a:
			return refResult{kind: "skip"}
		case op >= 0x0c && op <= 0x0f, op == 0x1e, op == 0x1f, op >= 0x21 && op <= 0x2f, op >= 0xa5 && op <= 0xe9, op == 0xfe:
			return fail(fmt.Sprintf("undefined opcode %02x", op))
		default:
			// defined in Ethereum or a go-rangers extension, but outside the computational set
			return refResult{kind: "skip", why: fmt.Sprintf("opcode %02x outside the computational set", op)}
		}
		if len(st) < need {
			return fail("stack underflow")
		}
		if len(st)-need+adds > 1024 {
			return fail("stack overflow")
		}
		next := pc + 1
		switch {
		case op == 0x00:
			return refResult{kind: "ok"}
		case op == 0x01:
			a, b := pop(), pop()
			push(u(new(big.Int).Add(a, b)))
		case op == 0x02:
			a, b := pop(), pop()
			push(u(new(big.Int).Mul(a, b)))
		case op == 0x03:
			a, b := pop(), pop()
			push(u(new(big.Int).Sub(a, b)))
		case op == 0x04:
			a, b := pop(), pop()
			if b.Sign() == 0 {
				push(big.NewInt(0))
			} else {
				push(new(big.Int).Div(a, b))
			}
		case op == 0x05:
			a, b := signed(pop()), signed(pop())
			if b.Sign() == 0 {
				push(big.NewInt(0))
			} else {
				push(u(new(big.Int).Quo(a, b))) // truncated toward zero
			}
		case op == 0x06:
			a, b := pop(), pop()
			if b.Sign() == 0 {
				push(big.NewInt(0))
			} else {
				push(new(big.Int).Mod(a, b))
			}
		case op == 0x07:
			a, b := signed(pop()), signed(pop())
			if b.Sign() == 0 {
				push(big.NewInt(0))
			} else {
				push(u(new(big.Int).Rem(a, b))) // sign of the dividend
			}
		case op == 0x08:
			a, b, n := pop(), pop(), pop()
			if n.Sign() == 0 {
				push(big.NewInt(0))
			} else {
				push(new(big.Int).Mod(new(big.Int).Add(a, b), n))
			}
		case op == 0x09:
			a, b, n := pop(), pop(), pop()
			if n.Sign() == 0 {
				push(big.NewInt(0))
			} else {
				push(new(big.Int).Mod(new(big.Int).Mul(a, b), n))
			}
		case op == 0x0a:
			a, b := pop(), pop()
			push(new(big.Int).Exp(a, b, mod256))
		case op == 0x0b:
			b, x := pop(), pop()
			if b.Cmp(big.NewInt(31)) < 0 {
				t := uint(b.Int64()*8 + 7)
				low := new(big.Int).And(x, new(big.Int).Sub(twoTo(t+1), one))
				if x.Bit(int(t)) == 1 {
					low.Or(low, new(big.Int).Sub(mod256, twoTo(t+1)))
				}
				push(low)
			} else {
				push(x)
			}
		case op == 0x10:
			a, b := pop(), pop()
			push(boolW(a.Cmp(b) < 0))
		case op == 0x11:
			a, b := pop(), pop()
			push(boolW(a.Cmp(b) > 0))
		case op == 0x12:
			a, b := signed(pop()), signed(pop())
			push(boolW(a.Cmp(b) < 0))
		case op == 0x13:
			a, b := signed(pop()), signed(pop())
			push(boolW(a.Cmp(b) > 0))
		case op == 0x14:
			a, b := pop(), pop()
			push(boolW(a.Cmp(b) == 0))
		case op == 0x15:
			push(boolW(pop().Sign() == 0))
		case op == 0x16:
			a, b := pop(), pop()
			push(new(big.Int).And(a, b))
		case op == 0x17:
			a, b := pop(), pop()
			push(new(big.Int).Or(a, b))
		case op == 0x18:
			a, b := pop(), pop()
			push(new(big.Int).Xor(a, b))
		case op == 0x19:
			push(new(big.Int).Sub(new(big.Int).Sub(mod256, one), pop()))
		case op == 0x1a:
			i, x := pop(), pop()
			if i.Cmp(big.NewInt(32)) < 0 {
				sh := uint(8 * (31 - i.Int64()))
				push(new(big.Int).And(new(big.Int).Rsh(x, sh), big.NewInt(0xff)))
			} else {
				push(big.NewInt(0))
			}
		case op == 0x1b:
			s, v := pop(), pop()
			if s.Cmp(big.NewInt(256)) >= 0 {
				push(big.NewInt(0))
			} else {
				push(u(new(big.Int).Lsh(v, uint(s.Int64()))))
			}
		case op == 0x1c:
			s, v := pop(), pop()
			if s.Cmp(big.NewInt(256)) >= 0 {
				push(big.NewInt(0))
			} else {
				push(new(big.Int).Rsh(v, uint(s.Int64())))
			}
		case op == 0x1d:
			s, v := pop(), signed(pop())
			if s.Cmp(big.NewInt(256)) >= 0 {
				if v.Sign() < 0 {
					push(new(big.Int).Sub(mod256, one))
				} else {
					push(big.NewInt(0))
				}
			} else {
				push(u(new(big.Int).Rsh(v, uint(s.Int64())))) // big.Int Rsh is arithmetic (floor)
			}
		case op == 0x20:
			off, size := pop(), pop()
			if !touch(off, size) {
				return fail("memory")
			}
			h := sha3.NewLegacyKeccak256()
			if size.Sign() > 0 {
				h.Write(mem[off.Int64() : off.Int64()+size.Int64()])
			}
			push(new(big.Int).SetBytes(h.Sum(nil)))
		case op == 0x35:
			i := pop()
			push(new(big.Int).SetBytes(padded(input, i, big.NewInt(32))))
		case op == 0x36:
			push(big.NewInt(int64(len(input))))
		case op == 0x38:
			push(big.NewInt(int64(len(code))))
		case op == 0x3d:
			push(big.NewInt(int64(len(rd))))
		case op == 0xfa || op == 0xf1 || op == 0xf2 || op == 0xf4:
			// CALLCODE (value 0) and DELEGATECALL run the callee's CODE in a fresh frame (own stack, memory,
			// pc and jump-destination set) exactly like CALL as far as the computational opcodes can tell
			// (storage, ADDRESS, CALLER are outside the computational set and make the reference skip)
			_, addr := pop(), pop()
			if op == 0xf1 || op == 0xf2 {
				if v := pop(); v.Sign() != 0 {
					return refResult{kind: "skip", why: "value transfer"}
				}
			}
			inOff, inSize, retOff, retSize := pop(), pop(), pop(), pop()
			isIdentity := addr.Cmp(big.NewInt(4)) == 0
			if isIdentity && (op == 0xf2 || op == 0xf4) {
				return refResult{kind: "skip", why: "precompile through CALLCODE/DELEGATECALL"}
			}
			if !isIdentity && (!bytes.Equal(leftPad32(addr.Bytes())[12:], calleeAddr) || addr.BitLen() > 160) {
				return refResult{kind: "skip", why: "call to another address"}
			}
			if !touch(inOff, inSize) || !touch(retOff, retSize) {
				return fail("memory")
			}
			var in []byte
			if inSize.Sign() > 0 {
				in = append([]byte{}, mem[inOff.Int64():inOff.Int64()+inSize.Int64()]...)
			}
			var sub refResult
			if isIdentity {
				// precompile 0x04 (Yellow Paper Appendix E, "ID"): output = input
				sub = refResult{kind: "ok", ret: in}
			} else {
				sub = refRunNested(calleeCode, in, p022, nil, nil)
			}
			switch sub.kind {
			case "skip":
				return sub
			case "ok":
				push(big.NewInt(1))
				rd = sub.ret
			case "revert":
				push(big.NewInt(0))
				rd = sub.ret
			default:
				push(big.NewInt(0))
				rd = nil
			}
			wroteBack := false
			if isIdentity && aliasQuirk && inSize.Sign() > 0 {
				if retSize.Sign() > 0 {
					copy(mem[retOff.Int64():retOff.Int64()+retSize.Int64()], rd)
				}
				wroteBack = true
				rd = append([]byte{}, mem[inOff.Int64():inOff.Int64()+inSize.Int64()]...)
			}
			if !wroteBack && sub.kind != "err" && retSize.Sign() > 0 {
				copy(mem[retOff.Int64():retOff.Int64()+retSize.Int64()], rd)
			}
		case op == 0x37 || op == 0x39:
			mo, do, l := pop(), pop(), pop()
			if !touch(mo, l) {
				return fail("memory")
			}
			src := input
			if op == 0x39 {
				src = code
			}
			if l.Sign() > 0 {
				copy(mem[mo.Int64():mo.Int64()+l.Int64()], padded(src, do, l))
			}
		case op == 0x3e:
			mo, do, l := pop(), pop(), pop()
			if new(big.Int).Add(do, l).Cmp(big.NewInt(int64(len(rd)))) > 0 {
				return fail("return data out of bounds")
			}
			if !touch(mo, l) {
				return fail("memory")
			}
			if l.Sign() > 0 {
				copy(mem[mo.Int64():mo.Int64()+l.Int64()], rd[do.Int64():do.Int64()+l.Int64()])
			}
		case op == 0x50:
			pop()
		case op == 0x51:
			off := pop()
			if !touch(off, big.NewInt(32)) {
				return fail("memory")
			}
			push(new(big.Int).SetBytes(mem[off.Int64() : off.Int64()+32]))
		case op == 0x52:
			off, v := pop(), pop()
			if !touch(off, big.NewInt(32)) {
				return fail("memory")
			}
			b := v.Bytes()
			o := off.Int64()
			for i := int64(0); i < 32; i++ {
				mem[o+i] = 0
			}
			copy(mem[o+32-int64(len(b)):o+32], b)
		case op == 0x53:
			off, v := pop(), pop()
			if !touch(off, one) {
				return fail("memory")
			}
			mem[off.Int64()] = byte(new(big.Int).And(v, big.NewInt(0xff)).Int64())
		case op == 0x56:
			d := pop()
			if !d.IsInt64() || !dest[int(d.Int64())] {
				return fail("bad jump")
			}
			next = int(d.Int64())
		case op == 0x57:
			d, c := pop(), pop()
			if c.Sign() != 0 {
				if !d.IsInt64() || !dest[int(d.Int64())] {
					return fail("bad jump")
				}
				next = int(d.Int64())
			}
		case op == 0x58:
			push(big.NewInt(int64(pc)))
		case op == 0x59:
			push(big.NewInt(int64(len(mem))))
		case op == 0x5b:
		case op == 0x5e:
			d, s, l := pop(), pop(), pop()
			m := d
			if s.Cmp(d) > 0 {
				m = s
			}
			if !touch(m, l) {
				return fail("memory")
			}
			if l.Sign() > 0 {
				tmp := append([]byte{}, mem[s.Int64():s.Int64()+l.Int64()]...)
				copy(mem[d.Int64():d.Int64()+l.Int64()], tmp)
			}
		case op == 0x5f:
			push(big.NewInt(0))
		case op >= 0x60 && op <= 0x7f:
			n := int(op) - 0x5f
			data := make([]byte, n)
			if pc+1 < len(code) {
				copy(data, code[pc+1:])
			}
			push(new(big.Int).SetBytes(data))
			next = pc + 1 + n
		case op >= 0x80 && op <= 0x8f:
			n := int(op) - 0x7f
			push(st[len(st)-n])
		case op >= 0x90 && op <= 0x9f:
			n := int(op) - 0x8f
			st[len(st)-1], st[len(st)-1-n] = st[len(st)-1-n], st[len(st)-1]
		case op == 0xf3 || op == 0xfd:
			off, size := pop(), pop()
			if !touch(off, size) {
				return fail("memory")
			}
			var ret []byte
			if size.Sign() > 0 {
				ret = append([]byte{}, mem[off.Int64():off.Int64()+size.Int64()]...)
			}
			if op == 0xf3 {
				return refResult{kind: "ok", ret: ret}
			}
			return refResult{kind: "revert", ret: ret}
		}
		pc = next
	}
	return refResult{kind: "skip", why: "step limit"}
}

// ---------------------------------------------------------------- searcher

func search(a map[string]string) {
	thorough := a["tier"] == "thorough"
	g := newGen(hx.NewRng(hx.SeedFromEnv()^0x5ea7c4), thorough)
	g.noGas = true
	budget := hx.ArgInt(a, "n", 20000)
	evals, skipped, found := 0, 0, 0
	classes := map[string]int{}
	report := func(key, line, impl, ref string) {
		found++
		if found <= 40 {
			fmt.Printf("FOUND key=%s impl=%s ref=%s line=%s\n", key, strings.ReplaceAll(impl, " ", "_"), strings.ReplaceAll(ref, " ", "_"), line)
		}
	}
	check := func(stream, line string) {
		w := strings.Fields(line)
		switch w[0] {
		case "run":
			cfg, _ := strconv.Atoi(w[1])
			gas, _ := strconv.ParseUint(w[2], 10, 64)
			code, _ := hx.UnHex(w[3])
			input, _ := hx.UnHex(w[4])
			r := refRun(code, input, cfg&2 != 0)
			if r.kind == "skip" {
				skipped++
				return
			}
			var kind string
			var ret []byte
			res := hx.Guard(func() string {
				k, _, rt := runImpl(cfg, gas, code, input)
				kind, ret = k, rt
				return k
			})
			if strings.HasPrefix(res, "PANIC") {
				kind = res
			}
			evals++
			ik := kind
			if strings.HasPrefix(kind, "err") {
				ik = "err"
			}
			classes[stream+":"+ik]++
			if ik != r.kind || (ik != "err" && !bytes.Equal(ret, r.ret)) {
				key := "spec-program-" + stream
				if stream == "lattice" {
					key = "spec-" + opOfLattice(code)
				}
				report(key, line, kind+" "+hx.Hex(ret), r.kind+" "+hx.Hex(r.ret)+" "+r.why)
			}
		case "run2":
			cfg, _ := strconv.Atoi(w[1])
			gas, _ := strconv.ParseUint(w[2], 10, 64)
			code, _ := hx.UnHex(w[3])
			callee, _ := hx.UnHex(w[4])
			input, _ := hx.UnHex(w[5])
			r := refRunNested(code, input, cfg&2 != 0, calleeAddr.Bytes(), callee)
			if r.kind == "skip" {
				skipped++
				return
			}
			var kind string
			var ret []byte
			res := hx.Guard(func() string {
				k, _, rt := runImpl2(cfg, gas, code, callee, input)
				kind, ret = k, rt
				return k
			})
			if strings.HasPrefix(res, "PANIC") {
				kind = res
			}
			evals++
			ik := kind
			if strings.HasPrefix(kind, "err") {
				ik = "err"
			}
			classes[stream+":"+ik]++
			if ik != r.kind || (ik != "err" && !bytes.Equal(ret, r.ret)) {
				key := "spec-program-" + stream
				// is it exactly the recorded deviation (and nothing else)?
				aliasQuirk = true
				q := refRunNested(code, input, cfg&2 != 0, calleeAddr.Bytes(), callee)
				aliasQuirk = false
				if q.kind == ik && (ik == "err" || bytes.Equal(ret, q.ret)) {
					key = "returndata-alias-identity-overlap"
				}
				report(key, line, kind+" "+hx.Hex(ret), r.kind+" "+hx.Hex(r.ret)+" "+r.why)
			}
		case "valid":
			code, _ := hx.UnHex(w[1])
			d, _ := hx.UnHex(w[2])
			dv := new(big.Int).SetBytes(d)
			want := dv.IsInt64() && refJumpdests(code)[int(dv.Int64())]
			got := vm.VerifValidJumpdest(code, new(uint256.Int).SetBytes(d))
			evals++
			classes["valid:"+strconv.FormatBool(got)]++
			if got != want {
				report("jumpdest-analysis", line, strconv.FormatBool(got), strconv.FormatBool(want))
			}
		}
	}
	// the repository's own vectors against their recorded expectation
	for _, v := range vectorLines(a["repo"]) {
		var kind string
		var ret []byte
		if res := hx.Guard(func() string {
			k, _, rt := runImpl(0, 1000000, mustCode(v.line), nil)
			kind, ret = k, rt
			return k
		}); strings.HasPrefix(res, "PANIC") {
			kind = res
		}
		evals++
		// memory returned: [msize=0 word][top word]
		ok := kind == "ok" && len(ret) == 64 && bytes.Equal(ret[32:], leftPad32(v.expect))
		classes["vectors:"+kind]++
		if !ok {
			report("vector-"+v.name, v.line, kind+" "+hx.Hex(ret), "expected "+hx.Hex(v.expect))
		}
		check("lattice", v.line)
	}
	// hand-written searcher corpus (lines the Lean driver does not model, e.g. run2)
	for _, l := range searchCorpus() {
		check("nested", l)
	}
	// class 3: nested frames (pooled stacks/memory handed from frame to frame, return data,
	// identity precompile whose output aliases caller memory)
	for i := 0; i < 2500; i++ {
		check("nested", g.nested())
	}
	done := false
	g.all(func(stream, line string) {
		if done {
			return
		}
		check(stream, line)
		if evals >= budget {
			done = true
		}
	})
	var sb strings.Builder
	sb.WriteString(fmt.Sprintf("{\"evaluations\":%d,\"skipped\":%d,\"found\":%d,\"classes\":{", evals, skipped, found))
	first := true
	for _, k := range sortedKeys(classes) {
		if !first {
			sb.WriteByte(',')
		}
		first = false
		sb.WriteString(strconv.Quote(k) + ":" + strconv.Itoa(classes[k]))
	}
	sb.WriteString("}}")
	fmt.Println("STATS " + sb.String())
}

func sortedKeys(m map[string]int) []string {
	ks := make([]string, 0, len(m))
	for k := range m {
		ks = append(ks, k)
	}
	for i := 1; i < len(ks); i++ {
		for j := i; j > 0 && ks[j] < ks[j-1]; j-- {
			ks[j], ks[j-1] = ks[j-1], ks[j]
		}
	}
	return ks
}

func mustCode(line string) []byte {
	w := strings.Fields(line)
	c, _ := hx.UnHex(w[3])
	return c
}

func leftPad32(b []byte) []byte {
	out := make([]byte, 32)
	copy(out[32-len(b):], b)
	return out
}

// opOfLattice: the single non-push opcode before the dump epilogue of a lattice program
func opOfLattice(code []byte) string {
	for pc := 0; pc < len(code); pc++ {
		o := code[pc]
		if o >= 0x60 && o <= 0x7f {
			pc += int(o) - 0x5f
			continue
		}
		if n, ok := mnemonic[o]; ok {
			return n
		}
		return fmt.Sprintf("%02x", o)
	}
	return "?"
}

// ---------------------------------------------------------------- concurrency (class 4)

// concurrent: the same programs sequentially and then from N goroutines, each goroutine with
// its own account DB and EVMs (as RPC calls and block execution do in the node); every answer
// must equal the sequential one.  Fork flags are process-global, so one configuration per phase.
func concurrent(a map[string]string) {
	g := newGen(hx.NewRng(hx.SeedFromEnv()^0xc0c0), false)
	n := hx.ArgInt(a, "n", 3000)
	workers := hx.ArgInt(a, "workers", 8)
	type job struct {
		line        string
		gas         uint64
		code, input []byte
		want        string
	}
	var lines []string
	g.all(func(stream, line string) {
		if strings.HasPrefix(line, "run ") && len(lines) < n && (stream == "straight" || stream == "memory" || stream == "branch" || stream == "lattice" || stream == "arity") {
			lines = append(lines, line)
		}
	})
	found, evals := 0, 0
	for _, cfg := range []int{7, 0} {
		setCfg(cfg)
		jobs := make([]job, 0, len(lines))
		for _, l := range lines {
			w := strings.Fields(l)
			gas, _ := strconv.ParseUint(w[2], 10, 64)
			code, _ := hx.UnHex(w[3])
			input, _ := hx.UnHex(w[4])
			j := job{line: l, gas: gas, code: code, input: input}
			j.want = hx.Guard(func() string {
				k, left, ret := runOn(state, gas, code, input)
				return fmt.Sprintf("%s %d %s", k, left, hx.Hex(ret))
			})
			jobs = append(jobs, j)
		}
		res := make([]string, len(jobs))
		done := make(chan bool, workers)
		for w := 0; w < workers; w++ {
			go func(w int) {
				st := newState()
				for i := w; i < len(jobs); i += workers {
					j := jobs[i]
					res[i] = hx.Guard(func() string {
						k, left, ret := runOn(st, j.gas, j.code, j.input)
						return fmt.Sprintf("%s %d %s", k, left, hx.Hex(ret))
					})
				}
				done <- true
			}(w)
		}
		for w := 0; w < workers; w++ {
			<-done
		}
		for i, j := range jobs {
			evals++
			if res[i] != j.want {
				found++
				if found <= 10 {
					fmt.Printf("FOUND key=concurrent-divergence impl=%s ref=%s line=run %d %d %s %s\n",
						strings.ReplaceAll(res[i], " ", "_"), strings.ReplaceAll("sequential:"+j.want, " ", "_"), cfg, j.gas, hx.Hex(j.code), hx.Hex(j.input))
				}
			}
		}
	}
	fmt.Printf("STATS {\"evaluations\":%d,\"found\":%d,\"workers\":%d}\n", evals, found, workers)
}

func searchCorpus() []string {
	dir := os.Getenv("VERIF_CORPUS")
	if dir == "" {
		return nil
	}
	files, _ := filepath.Glob(filepath.Join(dir, "*.srch"))
	sort.Strings(files)
	var out []string
	for _, f := range files {
		b, err := ioutil.ReadFile(f)
		if err != nil {
			continue
		}
		for _, l := range strings.Split(string(b), "\n") {
			l = strings.TrimSpace(l)
			if l != "" && !strings.HasPrefix(l, "#") {
				out = append(out, l)
			}
		}
	}
	return out
}
