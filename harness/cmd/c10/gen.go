package main

import (
	"fmt"
	"math/big"
	"sort"
	"strings"

	"verif/harness/hx"
)

// Opcode bytes are written as literals from the Yellow Paper / EIPs on purpose: they are
// the specification side, not go-rangers' opcodes.go.
const (
	STOP, ADD, MUL, SUB, DIV, SDIV, MOD, SMOD, ADDMOD, MULMOD, EXP, SIGNEXTEND = 0x00, 0x01, 0x02, 0x03, 0x04, 0x05, 0x06, 0x07, 0x08, 0x09, 0x0a, 0x0b
	LT, GT, SLT, SGT, EQ, ISZERO, AND, OR, XOR, NOT, BYTE, SHL, SHR, SAR       = 0x10, 0x11, 0x12, 0x13, 0x14, 0x15, 0x16, 0x17, 0x18, 0x19, 0x1a, 0x1b, 0x1c, 0x1d
	SHA3                                                                       = 0x20
	CALLDATALOAD, CALLDATASIZE, CALLDATACOPY, CODESIZE, CODECOPY               = 0x35, 0x36, 0x37, 0x38, 0x39
	RETURNDATASIZE, RETURNDATACOPY                                             = 0x3d, 0x3e
	POP, MLOAD, MSTORE, MSTORE8, JUMP, JUMPI, PC, MSIZE, GAS, JUMPDEST         = 0x50, 0x51, 0x52, 0x53, 0x56, 0x57, 0x58, 0x59, 0x5a, 0x5b
	MCOPY, PUSH0, PUSH1, PUSH2, PUSH32, DUP1, SWAP1                            = 0x5e, 0x5f, 0x60, 0x61, 0x7f, 0x80, 0x90
	RETURN, REVERT, INVALID                                                    = 0xf3, 0xfd, 0xfe
)

var (
	binOps   = []byte{ADD, MUL, SUB, DIV, SDIV, MOD, SMOD, EXP, SIGNEXTEND, LT, GT, SLT, SGT, EQ, AND, OR, XOR, BYTE, SHL, SHR, SAR}
	unOps    = []byte{ISZERO, NOT}
	terOps   = []byte{ADDMOD, MULMOD}
	twoTo    = func(k uint) *big.Int { return new(big.Int).Lsh(big.NewInt(1), k) }
	mod256   = twoTo(256)
	mnemonic = map[byte]string{ADD: "ADD", MUL: "MUL", SUB: "SUB", DIV: "DIV", SDIV: "SDIV", MOD: "MOD", SMOD: "SMOD",
		ADDMOD: "ADDMOD", MULMOD: "MULMOD", EXP: "EXP", SIGNEXTEND: "SIGNEXTEND", LT: "LT", GT: "GT", SLT: "SLT", SGT: "SGT",
		EQ: "EQ", ISZERO: "ISZERO", AND: "AND", OR: "OR", XOR: "XOR", NOT: "NOT", BYTE: "BYTE", SHL: "SHL", SHR: "SHR", SAR: "SAR",
		SHA3: "SHA3", MLOAD: "MLOAD", MSTORE: "MSTORE", MSTORE8: "MSTORE8", MCOPY: "MCOPY", MSIZE: "MSIZE", JUMP: "JUMP", JUMPI: "JUMPI"}
)

// ---------------------------------------------------------------- assembler

type prog struct {
	b      []byte
	fixups []fixup // PUSH2 label references
	labels map[int]int
}

type fixup struct{ at, label, delta int }

func (p *prog) op(o ...byte) { p.b = append(p.b, o...) }

// push emits the shortest PUSHn for v (PUSH1 0 for zero).
func (p *prog) push(v *big.Int) {
	bs := v.Bytes()
	if len(bs) == 0 {
		bs = []byte{0}
	}
	if len(bs) > 32 {
		bs = bs[len(bs)-32:]
	}
	p.b = append(p.b, byte(0x5f+len(bs)))
	p.b = append(p.b, bs...)
}

func (p *prog) pushU(v uint64) { p.push(new(big.Int).SetUint64(v)) }

// push32 emits PUSH32 with the bytes left-padded.
func (p *prog) push32(bs []byte) {
	p.b = append(p.b, PUSH32)
	pad := make([]byte, 32)
	copy(pad[32-len(bs):], bs)
	p.b = append(p.b, pad...)
}

func (p *prog) label(id int) {
	if p.labels == nil {
		p.labels = map[int]int{}
	}
	p.labels[id] = len(p.b)
	p.b = append(p.b, JUMPDEST)
}

// pushLabel emits PUSH2 <address of label + delta>, resolved by link().
func (p *prog) pushLabel(id, delta int) {
	p.b = append(p.b, PUSH2, 0, 0)
	p.fixups = append(p.fixups, fixup{len(p.b) - 2, id, delta})
}

func (p *prog) link() {
	for _, f := range p.fixups {
		a := p.labels[f.label] + f.delta
		p.b[f.at] = byte(a >> 8)
		p.b[f.at+1] = byte(a)
	}
}

// dump is the observation epilogue: append MSIZE and the top k stack words to the end of
// memory (each `MSIZE MSTORE` stores the current top at offset MSIZE), then return either
// the whole memory or, for tail=true, its last 32*(k+1)+64 bytes.
func (p *prog) dump(k int, tail bool) {
	p.op(MSIZE)
	for i := 0; i <= k; i++ {
		p.op(MSIZE, MSTORE)
	}
	if tail {
		l := uint64(32*(k+1) + 64)
		p.pushU(l)
		p.op(DUP1, MSIZE, SUB, RETURN)
	} else {
		p.op(MSIZE)
		p.pushU(0)
		p.op(RETURN)
	}
}

// ---------------------------------------------------------------- operand lattices

func lattice() []*big.Int {
	var l []*big.Int
	add := func(v *big.Int) {
		v = new(big.Int).Mod(v, mod256)
		for _, x := range l {
			if x.Cmp(v) == 0 {
				return
			}
		}
		l = append(l, v)
	}
	add(big.NewInt(0))
	add(big.NewInt(1))
	add(big.NewInt(2))
	for _, k := range []uint{7, 8, 15, 16, 31, 32, 63, 64, 127, 128, 255} {
		add(new(big.Int).Sub(twoTo(k), big.NewInt(1)))
		add(twoTo(k))
		add(new(big.Int).Add(twoTo(k), big.NewInt(1)))
	}
	for i := int64(1); i <= 3; i++ {
		add(new(big.Int).Sub(mod256, big.NewInt(i)))
	}
	add(new(big.Int).Sub(mod256, twoTo(128))) // -2^128
	add(new(big.Int).Sub(mod256, twoTo(64)))
	add(new(big.Int).Add(twoTo(255), twoTo(254)))
	return l
}

func shiftLattice() []*big.Int {
	var l []*big.Int
	for _, v := range []int64{0, 1, 7, 8, 30, 31, 32, 33, 63, 64, 65, 127, 128, 129, 248, 255, 256, 257, 1000} {
		l = append(l, big.NewInt(v))
	}
	l = append(l, new(big.Int).Sub(twoTo(64), big.NewInt(1)), twoTo(64), new(big.Int).Add(twoTo(64), big.NewInt(1)),
		new(big.Int).Add(twoTo(64), big.NewInt(31)), new(big.Int).Add(twoTo(128), big.NewInt(8)), twoTo(255),
		new(big.Int).Sub(mod256, big.NewInt(1)))
	return l
}

// memory offsets: small ones the programs can afford, and huge ones that must fail
// (uint64 overflow / beyond the 0x1FFFFFFFE0 guard); nothing in between.
func memOffsets() (small []*big.Int, huge []*big.Int) {
	for _, v := range []int64{0, 1, 2, 31, 32, 33, 63, 64, 65, 95, 96, 100, 255, 256, 1000, 1023, 1024, 4095} {
		small = append(small, big.NewInt(v))
	}
	huge = append(huge, new(big.Int).Sub(twoTo(64), big.NewInt(1)), new(big.Int).Sub(twoTo(64), big.NewInt(32)), twoTo(64),
		new(big.Int).Add(twoTo(64), big.NewInt(5)), twoTo(255), new(big.Int).Sub(mod256, big.NewInt(1)),
		big.NewInt(0x1FFFFFFFE1), twoTo(63), twoTo(40), new(big.Int).Sub(twoTo(64), big.NewInt(31)),
		big.NewInt(0x1FFFFFFFE0), big.NewInt(0x1FFFFFFFE0-31), big.NewInt(0x1FFFFFFFE0-32), twoTo(61), twoTo(62),
		new(big.Int).Sub(twoTo(64), big.NewInt(33)), twoTo(32), new(big.Int).Sub(twoTo(32), big.NewInt(1)), twoTo(31))
	return
}

// ---------------------------------------------------------------- generator

type gen struct {
	r        *hx.Rng
	thorough bool
	lat      []*big.Int
	sh       []*big.Int
	small    []*big.Int
	huge     []*big.Int
	lowPush  bool // jumpyBytes with fewer PUSH opcodes (more reachable JUMPDESTs)
	noGas    bool // search mode: the reference has no gas, so no GAS opcode and ample gas
	hist     map[byte]int
}

func newGen(r *hx.Rng, thorough bool) *gen {
	g := &gen{r: r, thorough: thorough, lat: lattice(), sh: shiftLattice(), hist: map[byte]int{}}
	g.small, g.huge = memOffsets()
	return g
}

func (g *gen) opcodeHistogram() string {
	ks := make([]int, 0, len(g.hist))
	for k := range g.hist {
		ks = append(ks, int(k))
	}
	sort.Ints(ks)
	var sb strings.Builder
	sb.WriteByte('{')
	for i, k := range ks {
		if i > 0 {
			sb.WriteByte(',')
		}
		sb.WriteString(fmt.Sprintf("\"%02x\":%d", k, g.hist[byte(k)]))
	}
	sb.WriteByte('}')
	return sb.String()
}

func (g *gen) count(code []byte) {
	for pc := 0; pc < len(code); pc++ {
		o := code[pc]
		g.hist[o]++
		if o >= 0x60 && o <= 0x7f {
			pc += int(o) - 0x5f
		}
	}
}

func (g *gen) randWord() *big.Int {
	switch g.r.Intn(4) {
	case 0:
		return new(big.Int).SetBytes(g.r.Bytes(32))
	case 1:
		return new(big.Int).SetBytes(g.r.Bytes(1 + g.r.Intn(31)))
	case 2: // sparse bits
		v := new(big.Int)
		for i := 0; i < 1+g.r.Intn(4); i++ {
			v.SetBit(v, g.r.Intn(256), 1)
		}
		return v
	default: // negative small
		return new(big.Int).Sub(mod256, big.NewInt(int64(1+g.r.Intn(1000))))
	}
}

func (g *gen) operand() *big.Int {
	if g.r.Chance(3, 4) {
		return g.lat[g.r.Intn(len(g.lat))]
	}
	return g.randWord()
}

// topOperand: for the operand popped first, shift counts / byte indexes are interesting.
func (g *gen) topOperand(op byte) *big.Int {
	switch op {
	case SHL, SHR, SAR, BYTE, SIGNEXTEND:
		if g.r.Chance(3, 4) {
			return g.sh[g.r.Intn(len(g.sh))]
		}
	}
	return g.operand()
}

func (g *gen) cfg() int {
	if g.r.Chance(1, 2) {
		return 7
	}
	return g.r.Intn(8)
}

func (g *gen) gas() uint64 {
	if g.noGas {
		return 300000000
	}
	if g.r.Chance(1, 12) {
		return uint64(g.r.Intn(4000))
	}
	if g.r.Chance(1, 12) {
		return uint64(g.r.Intn(200000))
	}
	return 3000000
}

func (g *gen) line(p *prog, input []byte) string {
	p.link()
	g.count(p.b)
	cfg := g.cfg()
	// programs using PUSH0/MCOPY mostly run where those exist (else they only test "invalid opcode")
	if cfg&2 == 0 && g.r.Chance(3, 4) {
		for pc := 0; pc < len(p.b); pc++ {
			o := p.b[pc]
			if o == MCOPY || o == PUSH0 {
				cfg |= 2
				break
			}
			if o >= 0x60 && o <= 0x7f {
				pc += int(o) - 0x5f
			}
		}
	}
	return runLine(cfg, g.gas(), p.b, input)
}

// fullGas: enough for every deterministic family under every fork configuration
func (g *gen) fullGas() uint64 {
	if g.noGas {
		return 300000000
	}
	return 30000000
}

// lineCfg: a program under a chosen fork configuration with ample gas
func (g *gen) lineCfg(cfg int, p *prog) string {
	p.link()
	g.count(p.b)
	return runLine(cfg, g.fullGas(), p.b, nil)
}

var smallVals = []int64{0, 1, 2, 31, 32, 33}

// families: deterministic small-scope programs that run BEFORE everything random.
//   - arity: every computational opcode with exactly delta and with delta-1 stack items
//     (DUPn/SWAPn also with one more), operands small so that memory stays affordable;
//   - stacklimit: every pushing opcode at depth 1022/1023/1024 (the 1024 limit);
//   - all 8 fork configurations in turn.
func (g *gen) families(emit func(stream, line string)) {
	type od struct {
		op    byte
		delta int
	}
	var ops []od
	for _, o := range binOps {
		ops = append(ops, od{o, 2})
	}
	for _, o := range unOps {
		ops = append(ops, od{o, 1})
	}
	for _, o := range terOps {
		ops = append(ops, od{o, 3})
	}
	ops = append(ops, od{POP, 1}, od{MLOAD, 1}, od{MSTORE, 2}, od{MSTORE8, 2}, od{SHA3, 2}, od{CALLDATALOAD, 1},
		od{CALLDATACOPY, 3}, od{CODECOPY, 3}, od{RETURNDATACOPY, 3}, od{MCOPY, 3}, od{JUMP, 1}, od{JUMPI, 2},
		od{RETURN, 2}, od{REVERT, 2}, od{PC, 0}, od{MSIZE, 0}, od{PUSH0, 0}, od{JUMPDEST, 0}, od{CALLDATASIZE, 0},
		od{CODESIZE, 0}, od{RETURNDATASIZE, 0}, od{STOP, 0})
	n := 0
	for _, o := range ops {
		for depth := o.delta - 1; depth <= o.delta; depth++ {
			if depth < 0 {
				continue
			}
			p := &prog{}
			for i := 0; i < depth; i++ {
				p.pushU(uint64(smallVals[(n+i)%len(smallVals)]))
			}
			p.op(o.op)
			k := 0
			if depth == o.delta {
				switch o.op {
				case POP, MSTORE, MSTORE8, CALLDATACOPY, CODECOPY, RETURNDATACOPY, MCOPY, JUMP, JUMPI, RETURN, REVERT, JUMPDEST, STOP:
				default:
					k = 1 // the opcode leaves one result on an otherwise empty stack
				}
			}
			p.dump(k, false)
			stream := "arity"
			switch o.op {
			case JUMP, JUMPI, RETURNDATACOPY, MCOPY, PUSH0, REVERT:
			default:
				if depth == o.delta {
					stream = "arity-ok" // must be accepted under every fork configuration
				}
			}
			emit(stream, g.lineCfg(n%8, p))
			n++
		}
	}
	for k := 1; k <= 16; k++ {
		for _, base := range []byte{DUP1, SWAP1} {
			need := k
			if base == SWAP1 {
				need = k + 1
			}
			for depth := need - 1; depth <= need+1; depth++ {
				p := &prog{}
				for i := 0; i < depth; i++ {
					p.pushU(uint64(0xd0 + i))
				}
				p.op(base + byte(k-1))
				p.dump(min(depth+1, 18), false)
				emit("arity", g.lineCfg(n%8, p))
				n++
			}
		}
	}
	pushers := [][]byte{{PUSH0}, {PUSH1, 1}, {PUSH2, 1, 2}, {DUP1}, {0x8f}, {PC}, {MSIZE}, {CALLDATASIZE}, {CODESIZE},
		{RETURNDATASIZE}, {SWAP1}, {0x9f}, {ADD}, {POP}, {JUMPDEST}, {MLOAD}, {ISZERO}}
	for _, depth := range []int{1022, 1023, 1024} {
		for _, ins := range pushers {
			p := &prog{}
			for i := 0; i < depth; i++ {
				p.op(PC)
			}
			p.op(ins...)
			p.dump(2, false)
			emit("stacklimit", g.lineCfg(n%8, p))
			n++
		}
	}
}

// single-opcode program: operands pushed so that `a` is on top.
func (g *gen) opProgram(op byte, args ...*big.Int) *prog {
	p := &prog{}
	for i := len(args) - 1; i >= 0; i-- {
		if g.r.Chance(1, 3) {
			p.push32(args[i].Bytes())
		} else {
			p.push(args[i])
		}
	}
	p.op(op)
	p.dump(1, false)
	return p
}

func (g *gen) all(emit func(stream, line string)) {
	scale := 1
	if g.thorough {
		scale = 10
	}
	// 0. deterministic small-scope families first
	g.families(emit)
	// 1. operand lattice
	for _, op := range binOps {
		if g.thorough {
			tops := g.lat
			switch op {
			case SHL, SHR, SAR, BYTE, SIGNEXTEND:
				tops = append(append([]*big.Int{}, g.lat...), g.sh...)
			}
			for _, a := range tops {
				for _, b := range g.lat {
					emit("lattice", g.line(g.opProgram(op, a, b), nil))
				}
			}
		}
		for i := 0; i < 260; i++ {
			emit("lattice", g.line(g.opProgram(op, g.topOperand(op), g.operand()), nil))
		}
	}
	for _, op := range unOps {
		for _, a := range g.lat {
			emit("lattice", g.line(g.opProgram(op, a), nil))
		}
		for i := 0; i < 20; i++ {
			emit("lattice", g.line(g.opProgram(op, g.randWord()), nil))
		}
	}
	for _, op := range terOps {
		for i := 0; i < 500*scale; i++ {
			m := g.operand()
			if g.r.Chance(1, 8) {
				m = big.NewInt(0)
			}
			emit("lattice", g.line(g.opProgram(op, g.operand(), g.operand(), m), nil))
		}
	}
	// 2. straight-line programs
	for i := 0; i < 2500*scale; i++ {
		p, in := g.straight()
		emit("straight", g.line(p, in))
	}
	// 3. memory-centred programs
	for i := 0; i < 2000*scale; i++ {
		p, in := g.memory()
		emit("memory", g.line(p, in))
	}
	// 4. branching programs
	for i := 0; i < 2500*scale; i++ {
		emit("branch", g.line(g.branching(), nil))
	}
	// 5. PUSHn, truncated at the end of the code
	for n := 0; n <= 32; n++ {
		for have := 0; have <= n; have++ {
			if !g.thorough && have != 0 && have != n && !g.r.Chance(1, 4) {
				continue
			}
			// a truncated PUSH is the last instruction; what it pushed cannot be observed
			// by the program (execution stops behind it), the run must simply end well
			q := &prog{}
			q.push(g.operand())
			q.op(byte(0x5f + n))
			q.op(g.r.Bytes(have)...)
			emit("pushtrunc", g.line(q, nil))
		}
	}
	// 6. malformed / random byte code
	for i := 0; i < 2500*scale; i++ {
		emit("random", g.randomCode())
	}
	// 6b. every memorySize function of the live table, called directly (hook VerifC11MemSize):
	// offsets/lengths from the small, huge and uint64-edge lattices, exact stack depth
	memOps := []struct {
		op    byte
		depth int
	}{{SHA3, 2}, {CALLDATACOPY, 3}, {CODECOPY, 3}, {0x3c, 4}, {RETURNDATACOPY, 3}, {MLOAD, 1}, {MSTORE, 2}, {MSTORE8, 2},
		{MCOPY, 3}, {0xa0, 2}, {0xa2, 4}, {0xf0, 3}, {0xf1, 7}, {0xf2, 7}, {RETURN, 2}, {0xf4, 6}, {0xf5, 4}, {0xf7, 9}, {0xfa, 6}, {REVERT, 2}, {ADD, 2}}
	for i := 0; i < 60*scale; i++ {
		for _, mo := range memOps {
			var sb strings.Builder
			sb.WriteString(fmt.Sprintf("memsize %d %d", g.r.Intn(8), mo.op))
			for k := 0; k < mo.depth; k++ {
				var v *big.Int
				switch g.r.Intn(6) {
				case 0:
					v = g.huge[g.r.Intn(len(g.huge))]
				case 1:
					v = big.NewInt(0)
				case 2:
					v = g.operand()
				default:
					v = g.small[g.r.Intn(len(g.small))]
				}
				sb.WriteString(" " + hx.Hex(v.Bytes()))
			}
			emit("memsize", sb.String())
		}
	}
	// 6c. STATICCALL to the identity precompile: memory and return data after the call
	win := []int{0, 0, 1, 15, 16, 17, 31, 32, 33, 48, 64, 65, 96, 100, 128, 200}
	for i := 0; i < 600*scale; i++ {
		mem := g.r.Bytes(g.r.Pick(0, 1, 31, 32, 33, 64, 96, 100, 160, 200))
		emit("idcall", fmt.Sprintf("idcall %s %d %d %d %d", hx.Hex(mem), win[g.r.Intn(len(win))], win[g.r.Intn(len(win))],
			win[g.r.Intn(len(win))], win[g.r.Intn(len(win))]))
	}
	// 7. the analysis alone
	for i := 0; i < 400*scale; i++ {
		code := g.jumpyBytes()
		emit("bitmap", "bitmap "+hx.Hex(code))
		for k := 0; k < 4; k++ {
			var d *big.Int
			var fives []int
			for i, c := range code {
				if c == JUMPDEST {
					fives = append(fives, i)
				}
			}
			switch g.r.Intn(8) {
			case 0:
				d = new(big.Int).Add(twoTo(64), big.NewInt(int64(g.r.Intn(len(code)+1))))
			case 1:
				d = big.NewInt(int64(len(code) + g.r.Intn(3)))
			case 2:
				d = big.NewInt(int64(g.r.Intn(len(code) + 1)))
			default:
				if len(fives) > 0 {
					d = big.NewInt(int64(fives[g.r.Intn(len(fives))]))
				} else {
					d = big.NewInt(int64(g.r.Intn(len(code) + 1)))
				}
			}
			emit("valid", "valid "+hx.Hex(code)+" "+hx.Hex(d.Bytes()))
		}
	}
	if g.thorough {
		// every destination of some codes
		for i := 0; i < 200; i++ {
			code := g.jumpyBytes()
			for d := 0; d <= len(code); d++ {
				emit("valid", "valid "+hx.Hex(code)+" "+hx.Hex(big.NewInt(int64(d)).Bytes()))
			}
		}
	}
}

// code made mostly of PUSHn / JUMPDEST bytes, to stress the bitmap
func (g *gen) jumpyBytes() []byte {
	n := g.r.Intn(70)
	if g.r.Chance(1, 10) {
		n = g.r.Intn(300)
	}
	b := make([]byte, n)
	for i := range b {
		k := g.r.Intn(5)
		if g.lowPush && (k == 1 || k == 2) && g.r.Chance(3, 4) {
			k = g.r.Pick(0, 3)
		}
		switch k {
		case 0:
			b[i] = JUMPDEST
		case 1:
			b[i] = byte(0x60 + g.r.Intn(32))
		case 2:
			b[i] = byte(g.r.Pick(0x7f, 0x7e, 0x67, 0x68, 0x6f, 0x70, 0x60))
		default:
			b[i] = byte(g.r.U64())
		}
	}
	return b
}

type sim struct{ depth int }

// emitOperands pushes what `need` stack items require beyond what is there.
func (g *gen) ensure(p *prog, s *sim, need int) {
	for s.depth < need {
		p.push(g.operand())
		s.depth++
	}
}

func (g *gen) input() []byte {
	switch g.r.Intn(4) {
	case 0:
		return nil
	case 1:
		return g.r.Bytes(1 + g.r.Intn(40))
	default:
		return g.r.Bytes(32 * (1 + g.r.Intn(3)))
	}
}

func (g *gen) memOff(allowHuge bool) *big.Int {
	if allowHuge && g.r.Chance(1, 40) {
		return g.huge[g.r.Intn(len(g.huge))]
	}
	if g.r.Chance(1, 3) {
		return big.NewInt(int64(g.r.Intn(200)))
	}
	return g.small[g.r.Intn(len(g.small))]
}

func (g *gen) memLen(allowHuge bool) *big.Int {
	if allowHuge && g.r.Chance(1, 45) {
		return g.huge[g.r.Intn(len(g.huge))]
	}
	if g.r.Chance(1, 5) {
		return big.NewInt(0)
	}
	return big.NewInt(int64(g.r.Pick(1, 2, 31, 32, 33, 64, 65, 100, 136, 137, 200, 272)))
}

// one random computational instruction (with the pushes it needs); returns false when it
// ended the program.
func (g *gen) instr(p *prog, s *sim, memHeavy bool) {
	k := g.r.Intn(100)
	if memHeavy {
		k = 55 + g.r.Intn(45)
	}
	switch {
	case k < 30:
		op := binOps[g.r.Intn(len(binOps))]
		if g.r.Chance(1, 2) {
			g.ensure(p, s, 1)
			p.push(g.topOperand(op))
			s.depth++
		}
		g.ensure(p, s, 2)
		p.op(op)
		s.depth--
	case k < 35:
		g.ensure(p, s, 1)
		p.op(unOps[g.r.Intn(2)])
	case k < 40:
		g.ensure(p, s, 3)
		p.op(terOps[g.r.Intn(2)])
		s.depth -= 2
	case k < 46:
		g.ensure(p, s, 1)
		n := 1 + g.r.Intn(min(16, s.depth))
		p.op(byte(DUP1 + n - 1))
		s.depth++
	case k < 52:
		g.ensure(p, s, 2)
		n := 1 + g.r.Intn(min(16, s.depth-1))
		p.op(byte(SWAP1 + n - 1))
	case k < 55:
		g.ensure(p, s, 1)
		p.op(POP)
		s.depth--
	case k < 58:
		p.op(g.pick(PC, MSIZE, CALLDATASIZE, CODESIZE, RETURNDATASIZE, PUSH0))
		s.depth++
	case k < 60:
		if g.noGas {
			p.op(PC)
		} else {
			p.op(GAS)
		}
		s.depth++
	case k < 68: // MSTORE
		g.ensure(p, s, 1)
		p.push(g.memOff(true))
		p.op(MSTORE)
		s.depth--
	case k < 72: // MSTORE8
		g.ensure(p, s, 1)
		p.push(g.memOff(true))
		p.op(MSTORE8)
		s.depth--
	case k < 78: // MLOAD
		p.push(g.memOff(true))
		p.op(MLOAD)
		s.depth++
	case k < 82: // SHA3
		p.push(g.memLen(true))
		p.push(g.memOff(true))
		p.op(SHA3)
		s.depth++
	case k < 86: // MCOPY dst src len
		p.push(g.memLen(true))
		p.push(g.memOff(true))
		p.push(g.memOff(true))
		p.op(MCOPY)
	case k < 89: // CALLDATALOAD
		if g.r.Chance(1, 5) {
			p.push(g.huge[g.r.Intn(len(g.huge))])
		} else {
			p.pushU(uint64(g.r.Intn(100)))
		}
		p.op(CALLDATALOAD)
		s.depth++
	case k < 93: // CALLDATACOPY / CODECOPY  mem data len
		p.push(g.memLen(true))
		if g.r.Chance(1, 6) {
			p.push(g.huge[g.r.Intn(len(g.huge))])
		} else {
			p.pushU(uint64(g.r.Intn(120)))
		}
		p.push(g.memOff(true))
		p.op(g.pick(CALLDATACOPY, CODECOPY))
	case k < 95: // RETURNDATACOPY (return data is always empty here)
		if g.r.Chance(3, 4) {
			p.pushU(0)
			p.pushU(0)
		} else {
			p.push(g.memLen(true))
			p.pushU(uint64(g.r.Intn(3)))
		}
		p.push(g.memOff(false))
		p.op(RETURNDATACOPY)
	case k < 97: // a computed value used as a memory offset, masked into range
		g.ensure(p, s, 2)
		p.pushU(0x3ff)
		p.op(AND, MSTORE)
		s.depth -= 2
	default:
		p.push(g.operand())
		s.depth++
	}
}

func (g *gen) pick(xs ...byte) byte { return xs[g.r.Intn(len(xs))] }

func min(a, b int) int {
	if a < b {
		return a
	}
	return b
}

func (g *gen) finish(p *prog, s *sim) {
	switch g.r.Intn(12) {
	case 0: // REVERT with a window
		p.push(g.memLen(false))
		p.push(g.memOff(false))
		p.op(REVERT)
	case 1:
		p.op(STOP)
	case 2: // run off the end
	case 3: // RETURN a window without dump
		p.push(g.memLen(true))
		p.push(g.memOff(true))
		p.op(RETURN)
	case 4: // dump more than the stack holds -> underflow
		p.dump(s.depth+1+g.r.Intn(2), false)
	case 5:
		p.dump(min(s.depth, 6), true)
	default:
		p.dump(min(s.depth, 6), false)
	}
}

func (g *gen) straight() (*prog, []byte) {
	p := &prog{}
	s := &sim{}
	for i := 0; i < 2+g.r.Intn(3); i++ {
		p.push(g.operand())
		s.depth++
	}
	n := 3 + g.r.Intn(30)
	for i := 0; i < n; i++ {
		g.instr(p, s, false)
	}
	g.finish(p, s)
	return p, g.input()
}

func (g *gen) memory() (*prog, []byte) {
	p := &prog{}
	s := &sim{}
	n := 2 + g.r.Intn(14)
	for i := 0; i < n; i++ {
		g.instr(p, s, true)
	}
	g.finish(p, s)
	return p, g.input()
}

// branching: numbered blocks, each starting with a JUMPDEST and leaving a marker on the
// stack; terminators jump forward, conditionally, into bad destinations, or loop a bounded
// number of times.
func (g *gen) branching() *prog {
	p := &prog{}
	nb := 2 + g.r.Intn(6)
	p.push(g.operand())
	p.push(g.operand())
	p.push(g.operand())
	depth := 3
	end := 1000
	for b := 0; b < nb; b++ {
		p.label(b)
		p.pushU(uint64(0xa0 + b))
		depth++
		if g.r.Chance(1, 3) {
			// a 0x5b inside push data, and a JUMPDEST right after a PUSH1 0x5b
			p.op(PUSH2, JUMPDEST, JUMPDEST, POP)
		}
		if g.r.Chance(1, 3) {
			s := &sim{depth: depth}
			g.instr(p, s, false)
			depth = s.depth
		}
		target := b + 1 + g.r.Intn(nb-b)
		if target >= nb {
			target = end
		}
		switch g.r.Intn(13) {
		case 0, 1, 2: // forward JUMP
			p.pushLabel(target, 0)
			p.op(JUMP)
		case 3, 4, 5, 6: // JUMPI on a lattice condition
			c := g.operand()
			if g.r.Chance(1, 3) {
				c = big.NewInt(0)
			}
			p.push(c)
			p.pushLabel(target, 0)
			p.op(JUMPI)
		case 7: // bad destination: off by one / into push data / beyond the code / >= 2^64
			switch g.r.Intn(5) {
			case 0:
				p.pushLabel(target, 1)
			case 1:
				p.pushLabel(b, 3) // lands in this block's PUSH1 data
			case 2:
				p.pushU(uint64(5000 + g.r.Intn(100)))
			case 3:
				v := new(big.Int).Add(twoTo(64), big.NewInt(0))
				p.push(v.Add(v, big.NewInt(int64(g.r.Intn(40)))))
			default:
				p.push(g.operand())
			}
			if g.r.Chance(1, 2) {
				p.op(JUMP)
			} else {
				p.push(g.operand())
				p.op(SWAP1, JUMPI)
			}
		case 8: // bounded loop: counter on the stack
			p.pushU(uint64(1 + g.r.Intn(4)))
			p.label(100 + b)
			p.pushU(1)
			p.op(SWAP1, SUB, DUP1)
			p.pushLabel(100+b, 0)
			p.op(JUMPI, POP)
		case 9: // PC-relative jump computed on the stack
			p.op(PC)
			p.pushU(5)
			p.op(ADD, JUMP, JUMPDEST)
		default: // fall through
		}
	}
	p.label(end)
	// blocks that were jumped over pushed nothing: dump only what is surely there
	p.dump(min(depth, 2+g.r.Intn(2)), false)
	// trailing junk after the epilogue, sometimes a truncated PUSH holding a 0x5b
	if g.r.Chance(1, 3) {
		p.op(byte(0x60+g.r.Intn(32)), JUMPDEST)
	}
	return p
}

// random byte code: uniform, or weighted to defined computational opcodes
func (g *gen) randomCode() string {
	n := g.r.Intn(60)
	code := make([]byte, 0, n+40)
	weighted := g.r.Chance(3, 4)
	if weighted || g.r.Chance(1, 2) {
		for i := 0; i < 3+g.r.Intn(7); i++ {
			q := &prog{}
			q.push(g.operand())
			code = append(code, q.b...)
		}
	}
	pool := []byte{ADD, MUL, SUB, DIV, SDIV, MOD, SMOD, ADDMOD, MULMOD, EXP, SIGNEXTEND, LT, GT, SLT, SGT, EQ, ISZERO, AND, OR, XOR,
		NOT, BYTE, SHL, SHR, SAR, SHA3, CALLDATALOAD, CALLDATASIZE, CALLDATACOPY, CODESIZE, CODECOPY, RETURNDATASIZE, POP, MLOAD,
		MSTORE, MSTORE8, JUMP, JUMPI, PC, MSIZE, GAS, JUMPDEST, MCOPY, PUSH0, PUSH1, PUSH1, PUSH2, 0x63, 0x7f, DUP1, 0x81, 0x82, SWAP1, 0x91,
		RETURN, REVERT, STOP, INVALID, 0x0c, 0x1e, 0x21}
	for i := 0; i < n; i++ {
		if weighted {
			code = append(code, pool[g.r.Intn(len(pool))])
		} else {
			code = append(code, byte(g.r.U64()))
		}
	}
	if g.r.Chance(1, 2) {
		q := &prog{}
		q.dump(g.r.Intn(3), false)
		code = append(code, q.b...)
	}
	g.count(code)
	return runLine(g.cfg(), g.gas(), code, g.input())
}

// nested: an outer program that computes, STATICCALLs a second account holding a computational
// program, then looks at the flag, the return data and its own memory (search mode only).
func (g *gen) nested() string {
	p := &prog{}
	s := &sim{}
	for i := 0; i < 1+g.r.Intn(6); i++ {
		g.instr(p, s, g.r.Chance(1, 2))
	}
	identity := g.r.Chance(1, 2)
	inOff := g.small[g.r.Intn(len(g.small)-4)]
	inSize := big.NewInt(int64(g.r.Pick(0, 1, 32, 33, 64, 96)))
	retOff := g.small[g.r.Intn(len(g.small)-4)]
	retSize := big.NewInt(int64(g.r.Pick(0, 1, 31, 32, 33, 64, 100)))
	if identity {
		// make sure the input window holds something recognisable
		p.push(g.operand())
		p.push(inOff)
		p.op(MSTORE)
		if g.r.Chance(2, 3) {
			// output window away from the input window (the overlapping case is a recorded deviation)
			retOff = new(big.Int).Add(inOff, big.NewInt(int64(128+32*g.r.Intn(4))))
		}
	}
	// retSize retOff inSize inOff [value] addr gas
	p.push(retSize)
	p.push(retOff)
	p.push(inSize)
	p.push(inOff)
	call := byte(0xfa)
	if g.r.Chance(1, 3) {
		call = 0xf1
		p.pushU(0)
	} else if !identity && g.r.Chance(1, 3) {
		// CALLCODE (value 0) / DELEGATECALL: the callee's code in a frame of its own
		if g.r.Chance(1, 2) {
			call = 0xf2
			p.pushU(0)
		} else {
			call = 0xf4
		}
	}
	if identity {
		p.pushU(4)
	} else {
		p.op(0x73)
		p.op(calleeAddr.Bytes()...)
	}
	p.op(0x63, 0x0f, 0xff, 0xff, 0xff, call)
	s.depth++
	p.op(RETURNDATASIZE)
	s.depth++
	// other opcodes run between the call and the look at its return data: random ones and
	// writes aimed at the input / output windows
	for i := 0; i < g.r.Intn(5); i++ {
		switch g.r.Intn(4) {
		case 0:
			p.push(g.operand())
			p.push(inOff)
			p.op(MSTORE)
		case 1:
			p.push(g.operand())
			p.push(new(big.Int).Add(inOff, big.NewInt(int64(g.r.Intn(40)))))
			p.op(MSTORE8)
		case 2:
			p.pushU(uint64(g.r.Pick(1, 32, 40)))
			p.pushU(uint64(g.r.Intn(8)))
			p.push(inOff)
			p.op(g.pick(CALLDATACOPY, CODECOPY))
		default:
			g.instr(p, s, true)
		}
	}
	if g.r.Chance(4, 5) {
		p.pushU(uint64(g.r.Pick(0, 1, 32, 33, 64)))
		p.pushU(uint64(g.r.Pick(0, 0, 1, 32)))
		p.pushU(uint64(g.r.Pick(0, 64, 256, 300)))
		p.op(RETURNDATACOPY)
	}
	p.op(RETURNDATASIZE)
	s.depth++
	for i := 0; i < g.r.Intn(3); i++ {
		g.instr(p, s, true)
	}
	p.dump(min(s.depth, 4), false)
	p.link()
	var q *prog
	var in []byte
	if g.r.Chance(1, 2) {
		q, in = g.straight()
	} else {
		q, in = g.memory()
	}
	q.link()
	return fmt.Sprintf("run2 %d %d %s %s %s", g.cfg(), g.gas(), hx.Hex(p.b), hx.Hex(q.b), hx.Hex(in))
}
