// c10: correspondence harness + searcher for property C10 (EVM computational opcodes).
//
// mode=corr (default): writes op lines (ops=) and what the REAL go-rangers EVM answered
// (obs=); the Lean driver drv_c10 answers the same lines and bin/check diffs them.
// mode=search: no model involved; the same programs are run on the real EVM and on an
// independent math/big reference written from the Yellow Paper (ref.go); a difference is
// printed as `FOUND key=<class> ...`.
// mode=line line="<op line>": run one op line on the implementation and print the answer.
package main

import (
	"bufio"
	"bytes"
	"fmt"
	"io/ioutil"
	"math"
	"math/big"
	"os"
	"path/filepath"
	"sort"
	"strconv"
	"strings"

	"com.tuntun.rangers/node/src/common"
	"com.tuntun.rangers/node/src/middleware/db"
	"com.tuntun.rangers/node/src/storage/account"
	"com.tuntun.rangers/node/src/vm"
	"github.com/holiman/uint256"
	"verif/harness/hx"
	"verif/harness/hxnode"
)

var (
	state    *account.AccountDB
	contract = common.BytesToAddress([]byte("c10-contract"))
	origin   = common.BytesToAddress([]byte("c10-origin"))
	big0     = new(big.Int)
)

func boot() {
	stdout := os.Stdout
	devnull, _ := os.OpenFile(os.DevNull, os.O_WRONLY, 0)
	os.Stdout = devnull
	hxnode.BootLight("dev")
	vm.InitVM()
	os.Stdout = stdout
	mem, err := db.NewMemDatabase()
	if err != nil {
		panic(err)
	}
	state, err = account.NewAccountDB(common.Hash{}, account.NewDatabase(mem))
	if err != nil {
		panic(err)
	}
	state.CreateAccount(contract)
}

func setCfg(cfg int) {
	on := func(bit uint) uint64 {
		if cfg&(1<<bit) != 0 {
			return 0
		}
		return math.MaxUint64
	}
	common.LocalChainConfig.Proposal014Block = on(0)
	common.LocalChainConfig.Proposal022Block = on(1)
	common.LocalChainConfig.Proposal026Block = on(2)
	common.SetBlockHeight(1)
}

func errName(err error) string {
	switch err {
	case vm.ErrOutOfGas:
		return "out-of-gas"
	case vm.ErrGasUintOverflow:
		return "gas-uint-overflow"
	case vm.ErrInvalidJump:
		return "invalid-jump"
	case vm.ErrReturnDataOutOfBounds:
		return "returndata-oob"
	case vm.ErrWriteProtection:
		return "write-protection"
	}
	switch err.(type) {
	case *vm.ErrInvalidOpCode:
		return "invalid-opcode"
	case *vm.ErrStackUnderflow:
		return "stack-underflow"
	case *vm.ErrStackOverflow:
		return "stack-overflow"
	}
	return "other:" + strings.ReplaceAll(err.Error(), " ", "_")
}

// runImpl executes code through the real evm.Call on a deployed account.
func runImpl(cfg int, gas uint64, code, input []byte) (kind string, left uint64, ret []byte) {
	setCfg(cfg)
	return runOn(state, gas, code, input)
}

var calleeAddr = common.BytesToAddress([]byte("c10-callee-account-"))

// runImpl2: `code` at the contract account, `callee` at a second account it may STATICCALL
func runImpl2(cfg int, gas uint64, code, callee, input []byte) (kind string, left uint64, ret []byte) {
	setCfg(cfg)
	if !state.Exist(calleeAddr) {
		state.CreateAccount(calleeAddr)
	}
	state.SetCode(calleeAddr, callee)
	return runOn(state, gas, code, input)
}

// newState: a private account DB (for the concurrent phase each goroutine owns one)
func newState() *account.AccountDB {
	mem, err := db.NewMemDatabase()
	if err != nil {
		panic(err)
	}
	st, err := account.NewAccountDB(common.Hash{}, account.NewDatabase(mem))
	if err != nil {
		panic(err)
	}
	st.CreateAccount(contract)
	return st
}

// runOn: like runImpl on a given state, fork flags as currently set
func runOn(state *account.AccountDB, gas uint64, code, input []byte) (kind string, left uint64, ret []byte) {
	state.SetCode(contract, code)
	ctx := vm.Context{
		CanTransfer: vm.CanTransfer,
		Transfer:    vm.Transfer,
		GetHash:     func(n uint64) common.Hash { return common.Hash{} },
		Origin:      origin,
		BlockNumber: big.NewInt(1),
		Time:        big.NewInt(1),
		Difficulty:  big.NewInt(0),
		GasLimit:    gas,
		GasPrice:    big.NewInt(0),
	}
	evm := vm.NewEVMWithNFT(ctx, state, state)
	r, l, _, err := evm.Call(vm.AccountRef(origin), contract, input, gas, big0)
	switch {
	case err == nil:
		return "ok", l, r
	case err == vm.ErrExecutionReverted:
		return "revert", l, r
	default:
		return "err " + errName(err), 0, nil
	}
}

// execLine answers one op line with the implementation.
func execLine(line string) string {
	w := strings.Fields(line)
	if len(w) == 0 {
		return "bad-op"
	}
	switch w[0] {
	case "run":
		if len(w) != 5 {
			return "bad-op"
		}
		cfg, e1 := strconv.Atoi(w[1])
		gas, e2 := strconv.ParseUint(w[2], 10, 64)
		code, e3 := hx.UnHex(w[3])
		input, e4 := hx.UnHex(w[4])
		if e1 != nil || e2 != nil || e3 != nil || e4 != nil || cfg < 0 || cfg > 7 {
			return "bad-op"
		}
		kind, left, ret := runImpl(cfg, gas, code, input)
		lastRet = ret
		if strings.HasPrefix(kind, "err") {
			return kind
		}
		return fmt.Sprintf("%s %d %s", kind, left, hx.Hex(ret))
	case "run2":
		if len(w) != 6 {
			return "bad-op"
		}
		cfg, e1 := strconv.Atoi(w[1])
		gas, e2 := strconv.ParseUint(w[2], 10, 64)
		code, e3 := hx.UnHex(w[3])
		callee, e5 := hx.UnHex(w[4])
		input, e4 := hx.UnHex(w[5])
		if e1 != nil || e2 != nil || e3 != nil || e4 != nil || e5 != nil || cfg < 0 || cfg > 7 {
			return "bad-op"
		}
		kind, left, ret := runImpl2(cfg, gas, code, callee, input)
		if strings.HasPrefix(kind, "err") {
			return kind
		}
		return fmt.Sprintf("%s %d %s", kind, left, hx.Hex(ret))
	case "idcall":
		// memory := call data; STATICCALL 0x04 with the given windows; answer: memory right after
		// the call and the return data (observed through RETURNDATACOPY/RETURNDATASIZE)
		if len(w) != 6 {
			return "bad-op"
		}
		mem, e0 := hx.UnHex(w[1])
		var v [4]uint64
		ok := e0 == nil
		for i := 0; i < 4; i++ {
			x, err := strconv.ParseUint(w[2+i], 10, 32)
			v[i] = x
			ok = ok && err == nil
		}
		if !ok {
			return "bad-op"
		}
		p := &prog{}
		p.op(CALLDATASIZE)
		p.pushU(0)
		p.pushU(0)
		p.op(CALLDATACOPY)
		p.pushU(v[3])
		p.pushU(v[2])
		p.pushU(v[1])
		p.pushU(v[0])
		p.pushU(4)
		p.op(0x63, 0x0f, 0xff, 0xff, 0xff, 0xfa, POP)
		p.op(MSIZE, RETURNDATASIZE)
		p.pushU(0)
		p.op(0x82, RETURNDATACOPY)
		p.op(RETURNDATASIZE, 0x81, RETURNDATASIZE, ADD, MSTORE)
		p.op(RETURNDATASIZE, ADD)
		p.pushU(32)
		p.op(ADD)
		p.pushU(0)
		p.op(RETURN)
		kind, _, ret := runImpl(0, 100000000, p.b, mem)
		if kind != "ok" || len(ret) < 32 {
			return kind
		}
		rds := int(new(big.Int).SetBytes(ret[len(ret)-32:]).Int64())
		if rds > len(ret)-32 {
			return "bad-observation"
		}
		return fmt.Sprintf("ok %s %s", hx.Hex(ret[:len(ret)-32-rds]), hx.Hex(ret[len(ret)-32-rds:len(ret)-32]))
	case "memsize":
		if len(w) < 3 {
			return "bad-op"
		}
		cfg, e1 := strconv.Atoi(w[1])
		op, e2 := strconv.Atoi(w[2])
		if e1 != nil || e2 != nil || cfg < 0 || cfg > 7 || op < 0 || op > 255 {
			return "bad-op"
		}
		var st []uint256.Int
		for _, h := range w[3:] {
			b, err := hx.UnHex(h)
			if err != nil || len(b) > 32 {
				return "bad-op"
			}
			st = append(st, *new(uint256.Int).SetBytes(b))
		}
		setCfg(cfg)
		size, overflow, defined := vm.VerifC11MemSize(1, byte(op), st)
		if !defined {
			return "undefined"
		}
		return fmt.Sprintf("%d %v", size, overflow)
	case "bitmap":
		if len(w) != 2 {
			return "bad-op"
		}
		code, err := hx.UnHex(w[1])
		if err != nil {
			return "bad-op"
		}
		return hx.Hex(vm.VerifCodeBitmap(code))
	case "valid":
		if len(w) != 3 {
			return "bad-op"
		}
		code, e1 := hx.UnHex(w[1])
		dest, e2 := hx.UnHex(w[2])
		if e1 != nil || e2 != nil || len(dest) > 32 {
			return "bad-op"
		}
		return strconv.FormatBool(vm.VerifValidJumpdest(code, new(uint256.Int).SetBytes(dest)))
	}
	return "bad-op"
}

func runLine(cfg int, gas uint64, code, input []byte) string {
	return fmt.Sprintf("run %d %d %s %s", cfg, gas, hx.Hex(code), hx.Hex(input))
}

func corpusLines() []string {
	dir := os.Getenv("VERIF_CORPUS")
	if dir == "" {
		return nil
	}
	files, _ := filepath.Glob(filepath.Join(dir, "*.ops"))
	sort.Strings(files)
	var out []string
	for _, f := range files {
		fh, err := os.Open(f)
		if err != nil {
			continue
		}
		sc := bufio.NewScanner(fh)
		sc.Buffer(make([]byte, 1<<20), 1<<24)
		for sc.Scan() {
			l := strings.TrimSpace(sc.Text())
			if l == "" || strings.HasPrefix(l, "#") {
				continue
			}
			out = append(out, l)
		}
		fh.Close()
	}
	return out
}

func main() {
	a := hx.Args()
	boot()
	switch a["mode"] {
	case "line":
		fmt.Println(hx.Guard(func() string { return execLine(a["line"]) }))
		return
	case "search":
		search(a)
		return
	case "concurrent":
		concurrent(a)
		return
	}
	out, err := hx.NewOut(a["ops"], a["obs"])
	if err != nil {
		panic(err)
	}
	defer out.Close()
	thorough := a["tier"] == "thorough"
	g := newGen(hx.NewRng(hx.SeedFromEnv()), thorough)
	dist := map[string]int{}
	// retention phase (class 3): the byte slices evm.Call handed out are kept and must still
	// hold the same bytes after later, unrelated executions in this process
	type kept struct {
		line      string
		live, cpy []byte
	}
	var ring []kept
	var aliasing, rejected []string
	var runLines []string
	emit := func(stream, line string) {
		dist[stream]++
		lastRet = nil
		res := out.Do(line, func() string { return execLine(line) })
		for _, k := range ring {
			if !bytes.Equal(k.live, k.cpy) && len(aliasing) < 5 {
				aliasing = append(aliasing, k.line+" || clobbered while running: "+line)
			}
		}
		if len(lastRet) > 0 {
			ring = append(ring, kept{line, lastRet, append([]byte{}, lastRet...)})
			if len(ring) > 48 {
				ring = ring[1:]
			}
		}
		if strings.HasPrefix(line, "run ") && stream != "rerun" {
			runLines = append(runLines, line)
		}
		// class 1: a well-formed single-opcode program with ample gas must be accepted
		if (stream == "vectors" || stream == "arity-ok") && !strings.HasPrefix(res, "ok") && len(rejected) < 5 {
			rejected = append(rejected, line+" => "+res)
		}
		c := res
		if i := strings.IndexByte(c, ' '); i >= 0 && !strings.HasPrefix(c, "err") {
			c = c[:i]
		}
		if strings.HasPrefix(line, "bitmap") && !strings.HasPrefix(c, "PANIC") {
			c = "bitmap-bytes"
		}
		if len(c) > 30 {
			c = c[:30]
		}
		dist["result:"+c]++
		dist["bystream:"+stream+"|"+c]++
	}
	for _, l := range corpusLines() {
		emit("corpus", l)
	}
	for _, l := range vectorLines(a["repo"]) {
		emit("vectors", l.line)
	}
	g.all(func(stream, line string) { emit(stream, line) })
	// history phase (classes 3b/6): the same programs again, in reverse order, after everything
	// else has run in this process; the model (a pure function) answers them again
	step := 9
	if thorough {
		step = 23
	}
	for i := len(runLines) - 1; i >= 0; i -= step {
		emit("rerun", runLines[i])
	}
	keys := make([]string, 0, len(dist))
	for k := range dist {
		keys = append(keys, k)
	}
	sort.Strings(keys)
	var sb strings.Builder
	sb.WriteString("{\"ops\":" + strconv.Itoa(out.N) + ",\"streams\":{")
	first := true
	for _, k := range keys {
		if strings.HasPrefix(k, "result:") || strings.HasPrefix(k, "bystream:") {
			continue
		}
		if !first {
			sb.WriteByte(',')
		}
		first = false
		sb.WriteString(strconv.Quote(k) + ":" + strconv.Itoa(dist[k]))
	}
	sb.WriteString("},\"results\":{")
	first = true
	for _, k := range keys {
		if !strings.HasPrefix(k, "result:") {
			continue
		}
		if !first {
			sb.WriteByte(',')
		}
		first = false
		sb.WriteString(strconv.Quote(k[7:]) + ":" + strconv.Itoa(dist[k]))
	}
	sb.WriteString("},\"by_stream\":{")
	first = true
	for _, k := range keys {
		if !strings.HasPrefix(k, "bystream:") {
			continue
		}
		if !first {
			sb.WriteByte(',')
		}
		first = false
		sb.WriteString(strconv.Quote(k[9:]) + ":" + strconv.Itoa(dist[k]))
	}
	sb.WriteString("},\"opcodes\":" + g.opcodeHistogram())
	sb.WriteString(",\"aliasing\":" + jsonList(aliasing) + ",\"rejected\":" + jsonList(rejected) + "}")
	fmt.Println("STATS " + sb.String())
}

func jsonList(xs []string) string {
	var sb strings.Builder
	sb.WriteByte('[')
	for i, x := range xs {
		if i > 0 {
			sb.WriteByte(',')
		}
		sb.WriteString(strconv.Quote(x))
	}
	sb.WriteByte(']')
	return sb.String()
}

// lastRet: the slice the last evm.Call returned (not a copy)
var lastRet []byte

type vecLine struct {
	name, line   string
	x, y, expect []byte
	opcode       byte
}

var vecOps = map[string]byte{"add": 0x01, "mul": 0x02, "sub": 0x03, "div": 0x04, "sdiv": 0x05, "mod": 0x06,
	"smod": 0x07, "exp": 0x0a, "signext": 0x0b, "lt": 0x10, "gt": 0x11, "slt": 0x12, "sgt": 0x13, "eq": 0x14,
	"and": 0x16, "or": 0x17, "xor": 0x18, "byte": 0x1a, "shl": 0x1b, "shr": 0x1c, "sar": 0x1d}

// vectorLines turns the repository's own testdata/testcases_*.json (x pushed first, y on
// top, then the opcode) into programs.
func vectorLines(repo string) []vecLine {
	if repo == "" {
		return nil
	}
	files, _ := filepath.Glob(filepath.Join(repo, "src/vm/testdata/testcases_*.json"))
	sort.Strings(files)
	var out []vecLine
	for _, f := range files {
		name := strings.TrimSuffix(strings.TrimPrefix(filepath.Base(f), "testcases_"), ".json")
		opc, ok := vecOps[name]
		if !ok {
			continue
		}
		data, err := ioutil.ReadFile(f)
		if err != nil {
			continue
		}
		// tiny parser: the files are arrays of {"X":"..","Y":"..","Expected":".."}
		s := string(data)
		for {
			i := strings.Index(s, "\"X\":\"")
			if i < 0 {
				break
			}
			s = s[i+5:]
			x := s[:strings.IndexByte(s, '"')]
			j := strings.Index(s, "\"Y\":\"")
			s = s[j+5:]
			y := s[:strings.IndexByte(s, '"')]
			k := strings.Index(s, "\"Expected\":\"")
			s = s[k+12:]
			e := s[:strings.IndexByte(s, '"')]
			xb, _ := hx.UnHex(x)
			yb, _ := hx.UnHex(y)
			eb, _ := hx.UnHex(e)
			p := &prog{}
			p.push32(xb)
			p.push32(yb)
			p.op(opc)
			p.dump(1, false)
			out = append(out, vecLine{name: name, line: runLine(0, 1000000, p.b, nil), x: xb, y: yb, expect: eb, opcode: opc})
		}
	}
	return out
}
