//go:build c01hooks
// +build c01hooks

// Parts of the C01 searcher that need the verif hooks H10 of go-rangers
// (utility.VerifC01AdvanceClock, core.VerifC01ExecuteOpts): the plugin adds the build tag
// c01hooks when the repository under test has them.
package main

import (
	"encoding/hex"
	"fmt"
	"strconv"
	"time"

	"com.tuntun.rangers/node/src/common"
	"com.tuntun.rangers/node/src/core"
	"com.tuntun.rangers/node/src/middleware/types"
	"com.tuntun.rangers/node/src/storage/account"
	"com.tuntun.rangers/node/src/utility"
	"verif/harness/hx"
)

// chainStub is a node's own block index as the EVM's BLOCKHASH sees it
type chainStub struct{ hashes map[uint64]common.Hash }

func (c *chainStub) GetBlockHash(h uint64) common.Hash { return c.hashes[h] }

// localChains: two replicas about to execute block N on the same parent.  Both know the canonical
// blocks below N; the second one also stores local / competing blocks at N, N+1, N+2 (it met this
// block on the fork path, or re-executes it after having added it).
func localChains(n uint64) (*chainStub, *chainStub) {
	a, b := &chainStub{map[uint64]common.Hash{}}, &chainStub{map[uint64]common.Hash{}}
	lo := uint64(0)
	if n > 300 {
		lo = n - 300
	}
	for h := lo; h < n; h++ {
		x := common.BytesToHash(common.Sha256([]byte("canonical" + strconv.FormatUint(h, 10))))
		a.hashes[h], b.hashes[h] = x, x
	}
	for h := n; h < n+3; h++ {
		b.hashes[h] = common.BytesToHash(common.Sha256([]byte("local" + strconv.FormatUint(h, 10))))
	}
	return a, b
}

func execWithChain(sc *Scenario, root common.Hash, t account.AccountDatabase, chain core.VerifC01Chain, onTx func(int)) outcome {
	st, err := account.NewAccountDB(root, t)
	if err != nil {
		panic(err)
	}
	blk := mkBlock(sc)
	r, ev, txs, rc := core.VerifC01ExecuteOpts(st, blk, situationOf(sc), chain, onTx)
	return outcome{r, ev, rc, st, txs}
}

func init() {
	haveChainStub = true
	coreExecute = func(st *account.AccountDB, blk *types.Block, situation string) (common.Hash, []common.Hash, []*types.Transaction, []*types.Receipt) {
		a, _ := localChains(blk.Header.Height)
		return core.VerifC01ExecuteOpts(st, blk, situation, a, nil)
	}
	execVariant = func(sc *Scenario, root common.Hash, t account.AccountDatabase, i int) outcome {
		a, b := localChains(sc.Height)
		if i%2 == 1 {
			return execWithChain(sc, root, t, b, nil)
		}
		return execWithChain(sc, root, t, a, nil)
	}
	extraFamilies = append(extraFamilies, castingFamily)
	replayHooked = func(sc *Scenario) map[string]int { return castOnce(sc, sc.CastCut) }
}

// castOnce: the proposer casts the (already ordered) list; the deadline strikes when the loop
// reaches its cut-th executed transaction (the clock jumps 4 s while transaction cut-1 is being
// executed).  A verifier then executes the packed list on the same parent.  Both must agree on
// root, receipts and evicted list.
func castOnce(sc *Scenario, cut int) map[string]int {
	applyFlags(sc, sc.Height-1, false)
	root, t := buildParent(sc)
	chain, _ := localChains(sc.Height)
	cast := *sc
	cast.Situation = "casting"
	var packed []string
	prop := hx.Guard(func() string {
		o := execWithChain(&cast, root, t, chain, func(i int) {
			if i == cut-1 || (cut == 1 && i == 1) {
				utility.VerifC01AdvanceClock(4 * time.Second)
			}
		})
		for _, tx := range o.txs {
			packed = append(packed, hex.EncodeToString(tx.Hash.Bytes()))
		}
		return o.fingerprint()
	})
	byHash := map[string]TxS{}
	for _, x := range sc.Txs {
		byHash[x.Hash] = x
	}
	ver := *sc
	ver.Situation = "fullverify"
	ver.Txs = nil
	for _, h := range packed {
		ver.Txs = append(ver.Txs, byHash[h])
	}
	want := hx.Guard(func() string { return execWithChain(&ver, root, t, chain, nil).fingerprint() })
	if prop == want {
		return map[string]int{prop: 2}
	}
	return map[string]int{"PROPOSER " + prop: 1, "VERIFIER-OF-PACKED-LIST " + want: 1}
}

// castingFamily: blocks of transfers / miner / contract transactions, put into the order a
// verifier executes them in (the order PackForCast hands over), cast with the deadline forced at
// every transaction boundary.
func castingFamily(r *hx.Rng, report func(sc *Scenario, res map[string]int)) int {
	evals := 0
	for n := 0; n < 14; n++ {
		var sc *Scenario
		if n%3 == 2 {
			sc = genEvmScenario(r, 7000+n)
		} else {
			sc = genScenario(r, 7000+n, true)
			widen(r, sc)
		}
		sc.Name = fmt.Sprintf("cast-%d", n)
		sc.Config, sc.P010, sc.P019, sc.P025 = "", false, false, 0
		if len(sc.Accounts) > 0 {
			sc.Accounts[0].Bal = e18(100000).String()
		}
		// the pool hands the proposer transactions with canonical sources (it keys and orders them by
		// sender), so only lists on which Less is a strict total order are pool-producible: canonical
		// spelling first, and the order is checked with the real Less below
		for i := range sc.Txs {
			if sc.Txs[i].Source != "" {
				sc.Txs[i].Source = "0x" + a20(common.HexToAddress(sc.Txs[i].Source))
			}
		}
		uniqHashes(sc)
		// executed order of a verifier = the proposer's input order
		applyFlags(sc, sc.Height-1, false)
		root, t := buildParent(sc)
		chain, _ := localChains(sc.Height)
		var order []string
		hx.Guard(func() string {
			for _, tx := range execWithChain(sc, root, t, chain, nil).txs {
				order = append(order, hex.EncodeToString(tx.Hash.Bytes()))
			}
			return ""
		})
		if len(order) < 2 {
			continue
		}
		byHash := map[string]TxS{}
		for _, x := range sc.Txs {
			byHash[x.Hash] = x
		}
		sc.Txs = nil
		for _, h := range order {
			sc.Txs = append(sc.Txs, byHash[h])
		}
		// strictly sorted under the real Less (every earlier entry Less than every later one and not vice
		// versa)?  Otherwise a prefix of the list may sort differently on the verifier — the documented
		// quirk of cast_unsorted_counterexample, outside the property — and the block is not used.
		{
			blk := mkBlock(sc)
			txs := types.Transactions(blk.Transactions)
			total := true
			hx.Guard(func() string {
				for i := 0; i < len(txs) && total; i++ {
					for j := i + 1; j < len(txs); j++ {
						if !txs.Less(i, j) || txs.Less(j, i) {
							total = false
							break
						}
					}
				}
				return ""
			})
			if !total {
				evmStats["cast-skipped-less-not-total"]++
				continue
			}
			evmStats["cast-blocks"]++
		}
		// documented quirk (Props/C01E.cast_unsorted_counterexample): the proposer does not sort; handed the
		// list in another order than the verifier's it may disagree with the verifier of its own block
		if len(order) >= 2 {
			rev := *sc
			rev.Txs = nil
			for i := len(sc.Txs) - 1; i >= 0; i-- {
				rev.Txs = append(rev.Txs, sc.Txs[i])
			}
			evmStats["cast-unsorted-runs"]++
			if len(castOnce(&rev, len(order)+5)) > 1 {
				evmStats["cast-unsorted-disagree"]++
			}
			evals += 2
		}
		for cut := 2; cut <= len(order) && cut <= 8; cut++ {
			c := *sc
			c.CastCut = cut
			res := castOnce(&c, cut)
			evals += 2
			report(&c, res)
		}
	}
	return evals
}
