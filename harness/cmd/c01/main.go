// c01: correspondence harness and searcher for property C01 (block execution is
// replica-deterministic).  Everything runs the real go-rangers code in-process:
// core.VMExecutor.Execute (through the verif hook core.VerifC01Execute),
// service.ChangeAssets, RefundManager.Add / CheckAndMove, RewardCalculator.
//
//	mode=corr   (default) scenario stream -> op lines + the implementation's answers
//	mode=search N-fold re-execution of the same (parent state, header, tx list) in fresh
//	            AccountDBs / contexts, comparing root, receipts (JSON + Msg) and evicted list
//	mode=replay file=<scenario.json> n=<N>  re-execute one recorded scenario
package main

import (
	"encoding/hex"
	"encoding/json"
	"fmt"
	"io/ioutil"
	"math"
	"math/big"
	"os"
	"os/exec"
	"path/filepath"
	"regexp"
	"runtime"
	"sort"
	"strconv"
	"strings"
	"sync"
	"time"

	"com.tuntun.rangers/node/src/common"
	"com.tuntun.rangers/node/src/core"
	"com.tuntun.rangers/node/src/executor"
	"com.tuntun.rangers/node/src/middleware/db"
	"com.tuntun.rangers/node/src/middleware/types"
	"com.tuntun.rangers/node/src/service"
	"com.tuntun.rangers/node/src/storage/account"
	"com.tuntun.rangers/node/src/utility"
	"verif/harness/hx"
	"verif/harness/hxnode"
)

// ---------------------------------------------------------------- scenario

type Acct struct {
	Addr  string `json:"addr"`
	Bal   string `json:"bal"` // wei, decimal
	Nonce uint64 `json:"nonce"`
}
type Esc struct {
	H  uint64 `json:"h"`
	Id string `json:"id"` // 20-byte hex
	V  string `json:"v"`
}
type MinerS struct {
	Id          string `json:"id"` // hex
	Type        byte   `json:"type"`
	Stake       uint64 `json:"stake"`
	Account     string `json:"account"` // hex bytes
	ApplyHeight uint64 `json:"applyHeight"`
	Status      byte   `json:"status"`
	applied     bool   // not part of the parent state: registered by a miner-apply transaction of the block
}
type CodeS struct {
	Addr string `json:"addr"`
	Code string `json:"code"` // hex
}
// HistPoint: the scenario's block executed (and discarded) under another configuration / height
type HistPoint struct {
	Config string `json:"config"`
	Height uint64 `json:"height"`
}

type TxS struct {
	Source string `json:"source"`
	Target string `json:"target,omitempty"`
	Type   int32  `json:"type"`
	Nonce  uint64 `json:"nonce"`
	Req    uint64 `json:"req"`
	Hash   string `json:"hash"` // 32-byte hex
	Extra  string `json:"extra,omitempty"`
	Data   string `json:"data,omitempty"`
}
type Scenario struct {
	Name      string   `json:"name"`
	Height    uint64   `json:"height"`
	Flags     string   `json:"flags"` // p006 p007 p016 p018 p021 p023
	P026      bool     `json:"p026"`
	P004      bool     `json:"p004"`
	P010      bool     `json:"p010,omitempty"` // Proposal010Block == height (removeUnusedValidator)
	P019      bool     `json:"p019,omitempty"` // Proposal019Block == height (removeUnusedValidator1)
	P025      uint64   `json:"p025,omitempty"` // Proposal025Block (0 = far away): calcDifficulty
	DiffCount uint64   `json:"diffCount,omitempty"`
	Working   uint64   `json:"working,omitempty"`
	Accounts  []Acct   `json:"accounts"`
	Escrow    []Esc    `json:"escrow,omitempty"`
	Miners    []MinerS `json:"miners,omitempty"`
	Contracts []CodeS  `json:"contracts,omitempty"` // runtime code already deployed in the parent state
	Group     []string `json:"group,omitempty"` // member ids (hex); empty = header without GroupId
	Castor    string   `json:"castor,omitempty"`
	Txs       []TxS    `json:"txs"`
	Situation string   `json:"situation,omitempty"`
	SiteAdd   []Esc       `json:"siteAdd,omitempty"` // site-level scenario: one RefundManager.Add call with these (height, id, value) entries, then CheckAndMove
	History   []HistPoint `json:"history,omitempty"` // fresh-process comparison: what the process executed before this block
	CastCut   int      `json:"castCut,omitempty"` // casting-mode scenario: the deadline strikes when the loop reaches its CastCut-th executed transaction
	Config    string   `json:"config,omitempty"` // "" = dev table with the flag vector; "mainnet" / "robin" = the real schedule at this height
	// searcher only: run the N executions under these chain heights (common.GetBlockHeight)
	// with the dev fork table instead of the flag string
	GlobalHeights []uint64 `json:"globalHeights,omitempty"`
}

// ---------------------------------------------------------------- stubs

type world struct {
	mu     sync.Mutex
	groups map[string]*types.Group
}

var theWorld = &world{groups: map[string]*types.Group{}}

func (w *world) get(id []byte) *types.Group {
	w.mu.Lock()
	defer w.mu.Unlock()
	return w.groups[string(id)]
}

type stubG struct{}

func (stubG) GetAvailableGroupsByMinerId(height uint64, minerId []byte) []*types.Group { return nil }
func (stubG) GetGroupById(id []byte) *types.Group                                   { return theWorld.get(id) }

type stubF struct{ stubG }

func (stubF) GetBlockHeader(height uint64) *types.BlockHeader { return nil }

type stubB struct{}

func (stubB) QueryBlockHeaderByHeight(height interface{}, cache bool) *types.BlockHeader { return nil }

const maxU = math.MaxUint64

func pick(b byte) uint64 {
	if b == '1' {
		return 0
	}
	return maxU
}

var devConfig common.ChainConfig

var histConfigs = map[string]common.ChainConfig{}

func boolBit(b bool) byte {
	if b {
		return '1'
	}
	return '0'
}

func applyFlags(sc *Scenario, global uint64, useDev bool) {
	if cfg, ok := histConfigs[sc.Config]; ok && !useDev {
		// the real activation schedule; the flag vector handed to the model is what the real
		// IsProposalNNN() answer at this process height
		common.LocalChainConfig = cfg
		common.SetBlockHeight(global)
		sc.Flags = string([]byte{boolBit(common.IsProposal006()), boolBit(common.IsProposal007()), boolBit(common.IsProposal016()),
			boolBit(common.IsProposal018()), boolBit(common.IsProposal021()), boolBit(common.IsProposal023())})
		sc.P026 = common.IsProposal026()
		sc.P004 = cfg.Proposal004Block == sc.Height
		sc.P010 = cfg.Proposal010Block == sc.Height
		sc.P019 = cfg.Proposal019Block == sc.Height
		sc.P025 = 0
		if sc.Height >= cfg.Proposal025Block {
			sc.P025 = cfg.Proposal025Block
		}
		return
	}
	if useDev {
		common.LocalChainConfig = devConfig
		common.SetBlockHeight(global)
		return
	}
	c := devConfig
	f := sc.Flags
	c.Proposal006Block, c.Proposal007Block, c.Proposal016Block = pick(f[0]), pick(f[1]), pick(f[2])
	c.Proposal018Block, c.Proposal021Block, c.Proposal023Block = pick(f[3]), pick(f[4]), pick(f[5])
	c.Proposal020Block = 0
	c.Proposal025Block = maxU
	c.Proposal010Block, c.Proposal019Block, c.Proposal011Block = maxU, maxU, maxU
	c.Proposal004Block = 1
	if sc.P004 {
		c.Proposal004Block = sc.Height
	}
	if sc.P010 {
		c.Proposal010Block = sc.Height
	}
	if sc.P019 {
		c.Proposal019Block = sc.Height
	}
	if sc.P025 != 0 {
		c.Proposal025Block = sc.P025
	}
	if sc.P026 {
		c.Proposal026Block = 0
	} else {
		c.Proposal026Block = maxU
	}
	common.LocalChainConfig = c
	common.SetBlockHeight(global)
}

func feeOf(sc *Scenario) *big.Int {
	if sc.P026 {
		v, _ := utility.StrToBigInt("0.001")
		return v
	}
	v, _ := utility.StrToBigInt("0.0001")
	return v
}

func escrowAddr(h uint64) common.Address {
	return common.BytesToAddress(common.Sha256(utility.StrToBytes("refund" + strconv.FormatUint(h, 10))))
}

func unhex(s string) []byte {
	b, err := hex.DecodeString(strings.TrimPrefix(s, "0x"))
	if err != nil {
		panic("bad hex in scenario: " + s)
	}
	return b
}

func bigOf(s string) *big.Int {
	v, ok := new(big.Int).SetString(s, 10)
	if !ok {
		panic("bad int in scenario: " + s)
	}
	return v
}

// buildParent writes the scenario's parent state and returns its committed root.
func buildParent(sc *Scenario) (common.Hash, account.AccountDatabase) {
	m, _ := db.NewMemDatabase()
	t := account.NewDatabase(m)
	s, err := account.NewAccountDB(common.Hash{}, t)
	if err != nil {
		panic(err)
	}
	for _, a := range sc.Accounts {
		ad := common.BytesToAddress(unhex(a.Addr))
		s.SetBalance(ad, bigOf(a.Bal))
		if a.Nonce != 0 {
			s.SetNonce(ad, a.Nonce)
		}
	}
	for _, e := range sc.Escrow {
		s.SetData(escrowAddr(e.H), unhex(e.Id), bigOf(e.V).Bytes())
	}
	if sc.DiffCount != 0 {
		s.SetData(common.DifficultyAddress, castorBytes(sc), utility.UInt64ToByte(sc.DiffCount))
	}
	if sc.Working != 0 {
		s.SetData(common.DifficultyAddress, common.TotalWorkingMiners, utility.UInt64ToByte(sc.Working))
	}
	for _, c := range sc.Contracts {
		s.SetCode(common.BytesToAddress(unhex(c.Addr)), unhex(c.Code))
	}
	for _, mi := range sc.Miners {
		mm := &types.Miner{Id: unhex(mi.Id), PublicKey: []byte{1}, VrfPublicKey: []byte{1}, ApplyHeight: mi.ApplyHeight,
			Status: mi.Status, Type: mi.Type, Stake: mi.Stake, Account: unhex(mi.Account)}
		service.MinerManagerImpl.InsertMiner(mm, s)
	}
	return commit(s, t), t
}

func castorBytes(sc *Scenario) []byte {
	if sc.Castor == "" {
		return nil
	}
	return unhex(sc.Castor)
}

func commit(s *account.AccountDB, t account.AccountDatabase) common.Hash {
	root, err := s.Commit(true)
	if err != nil {
		panic(err)
	}
	if err := t.TrieDB().Commit(root, false); err != nil {
		panic(err)
	}
	return root
}

func mkBlock(sc *Scenario) *types.Block {
	h := &types.BlockHeader{Height: sc.Height, CurTime: time.Unix(1700000000, 0), PreTime: time.Unix(1699999990, 0)}
	if sc.Castor != "" {
		h.Castor = unhex(sc.Castor)
	}
	if len(sc.Group) > 0 {
		h.GroupId = common.Sha256([]byte("group" + sc.Name))[:6]
		g := &types.Group{Id: h.GroupId, Header: &types.GroupHeader{}}
		for _, id := range sc.Group {
			g.Members = append(g.Members, unhex(id))
		}
		theWorld.mu.Lock()
		theWorld.groups[string(h.GroupId)] = g
		theWorld.mu.Unlock()
	}
	h.Hash = common.BytesToHash(common.Sha256([]byte(sc.Name + strconv.FormatUint(sc.Height, 10))))
	b := &types.Block{Header: h}
	for _, x := range sc.Txs {
		tx := &types.Transaction{Source: x.Source, Target: x.Target, Type: x.Type, Nonce: x.Nonce, RequestId: x.Req,
			ExtraData: x.Extra, Data: x.Data, Hash: common.BytesToHash(unhex(x.Hash))}
		if x.Type == types.TransactionTypeMinerRefund {
			tx.Sign = common.BytesToSign(make([]byte, 65)) // the executor only tests Sign != nil
		}
		b.Transactions = append(b.Transactions, tx)
	}
	return b
}

type outcome struct {
	root     common.Hash
	evicted  []common.Hash
	receipts []*types.Receipt
	st       *account.AccountDB
	txs      []*types.Transaction
}

func situationOf(sc *Scenario) string {
	if sc.Situation == "" {
		return "fullverify"
	}
	return sc.Situation
}

// execVariant: how the i-th plain repetition of an N-fold run executes the block.  The hooked
// build (tag c01hooks) replaces it by an execution whose EVM sees an injected local chain index
// that alternates between replicas (same below the executing height, different at and above it).
var execVariant = func(sc *Scenario, root common.Hash, t account.AccountDatabase, i int) outcome {
	return execOnce(sc, root, t)
}

// coreExecute: every execution of the harness goes through here; the hooked build injects the
// canonical local chain index (so BLOCKHASH has something to read instead of the nil chain)
var coreExecute = func(st *account.AccountDB, blk *types.Block, situation string) (common.Hash, []common.Hash, []*types.Transaction, []*types.Receipt) {
	return core.VerifC01Execute(st, blk, situation)
}

// extraFamilies: searcher families only the hooked build has (casting mode with a forced deadline)
var extraFamilies []func(r *hx.Rng, report func(sc *Scenario, res map[string]int)) int

// haveChainStub: BLOCKHASH can be executed (context["chain"] is an injected index, not the nil chain)
var haveChainStub bool

// replayHooked: replay of a scenario that needs the hooked build (casting cut)
var replayHooked func(sc *Scenario) map[string]int

// execOnce = what checkStates does: fresh AccountDB at the parent root, fresh executor.
func execOnce(sc *Scenario, root common.Hash, t account.AccountDatabase) outcome {
	st, err := account.NewAccountDB(root, t)
	if err != nil {
		panic(err)
	}
	blk := mkBlock(sc)
	r, ev, txs, rc := coreExecute(st, blk, situationOf(sc))
	return outcome{r, ev, rc, st, txs}
}

// execOnState: the block executed on a state handle that was opened earlier
func execOnState(sc *Scenario, st *account.AccountDB) outcome {
	blk := mkBlock(sc)
	r, ev, txs, rc := coreExecute(st, blk, situationOf(sc))
	return outcome{r, ev, rc, st, txs}
}

// overlapped: several state handles are opened on the same parent root FIRST and the block is
// executed on them afterwards — two one after the other, two at the same time (a cast running in a
// goroutine while a competing block on the same parent is verified; two sibling verifications).
// Handles on one root must not share anything mutable: every result must be the one a handle
// opened right before its execution gives.
func overlapped(sc *Scenario, root common.Hash, t account.AccountDatabase) []string {
	var sts []*account.AccountDB
	for k := 0; k < 4; k++ {
		st, err := account.NewAccountDB(root, t)
		if err != nil {
			panic(err)
		}
		sts = append(sts, st)
	}
	fps := make([]string, 4)
	fps[0] = hx.Guard(func() string { return execOnState(sc, sts[0]).fingerprint() })
	fps[1] = hx.Guard(func() string { return execOnState(sc, sts[1]).fingerprint() })
	var wg sync.WaitGroup
	for k := 2; k < 4; k++ {
		wg.Add(1)
		go func(k int) {
			defer wg.Done()
			fps[k] = hx.Guard(func() string { return execOnState(sc, sts[k]).fingerprint() })
		}(k)
	}
	wg.Wait()
	return fps
}

// fingerprint: everything the property names — root, receipts (consensus JSON and Msg), evicted list.
func (o outcome) fingerprint() string {
	var sb strings.Builder
	sb.WriteString("root=" + o.root.Hex() + " ev=")
	for _, h := range o.evicted {
		sb.WriteString(h.Hex() + ",")
	}
	sb.WriteString(" rc=")
	for _, r := range o.receipts {
		j, _ := json.Marshal(r)
		sb.Write(j)
		sb.WriteString("|" + strconv.Quote(r.Msg) + ";")
	}
	return sb.String()
}


// ---------------------------------------------------------------- independent references for the leaf conversions
//
// The op lines carry leaf values computed by go-rangers (HexToAddress, HexStringToAddress, FromHex,
// StrToBigInt, getTotalReward).  A regression in one of them would make model and implementation
// agree on garbage, so each is cross-checked against a reference written here with the standard
// library only; a disagreement turns the block's answer into ORACLE-DIFF (a broken tie).

var oracleDiffs []string

func refFromHex(s string) []byte {
	if len(s) > 1 {
		if s[0:2] == "0x" || s[0:2] == "0X" {
			s = s[2:]
		}
		if len(s)%2 == 1 {
			s = "0" + s
		}
		b, _ := hex.DecodeString(s) // bytes decoded before the first bad digit, like the repo's Hex2Bytes
		return b
	}
	return nil
}

func refAddr(b []byte) (a common.Address) {
	if len(b) > 20 {
		b = b[len(b)-20:]
	}
	copy(a[:], b)
	return
}

func refFeeAddr(s string) (a common.Address) {
	if len(s) < 2 || s[:2] != "0x" {
		return
	}
	b, _ := hex.DecodeString(s[2:])
	if len(b) == 20 {
		copy(a[:], b)
	}
	return
}

var decimalRe = regexp.MustCompile(`^[+-]?([0-9]+\.?[0-9]*|\.[0-9]+)([eE][+-]?[0-9]{1,2})?$`)

// refAmount: "" -> 0; plain decimals (optional exponent) -> floor(value * 10^18), negative -> x;
// ok=false when the reference makes no claim about this spelling
func refAmount(s string) (string, bool) {
	if s == "" {
		return "0", true
	}
	if len(s) > 30 || !decimalRe.MatchString(s) {
		return "", false
	}
	r, ok := new(big.Rat).SetString(s)
	if !ok {
		return "", false
	}
	if r.Sign() < 0 {
		return "x", true
	}
	r.Mul(r, new(big.Rat).SetInt(new(big.Int).Exp(big.NewInt(10), big.NewInt(18), nil)))
	return new(big.Int).Quo(r.Num(), r.Denom()).String(), true
}

func refTotalReward(height uint64) float64 {
	ep := height / common.GetBlocksPerEpoch()
	return common.TotalRPGSupply * math.Pow(1-common.ReleaseRate, float64(ep)) * common.ReleaseRate / float64(common.GetBlocksPerEpoch())
}

func oracleCheck(what, impl, ref string) {
	if impl != ref && len(oracleDiffs) < 5 {
		oracleDiffs = append(oracleDiffs, fmt.Sprintf("%s:impl=%s,ref=%s", what, impl, ref))
	}
}

// ---------------------------------------------------------------- op emission (corr)

type tgt struct {
	key  string
	addr common.Address
	amt  string
}

// decodeExtra mirrors operatorExecutor.transfer's decoding with the real json / StrToBigInt /
// HexToAddress (leaf conversions are the implementation's; the model owns the control flow).
func decodeExtra(extra string) (kind string, ts []tgt) {
	if len(extra) == 0 {
		return "e", nil
	}
	mm := make(map[string]types.TransferData, 0)
	if err := json.Unmarshal([]byte(extra), &mm); err != nil {
		return "j", nil
	}
	for k, td := range mm {
		a := "x"
		v, err := utility.StrToBigInt(td.Balance)
		if err == nil && v.Sign() >= 0 {
			a = v.String()
		}
		if ra, ok := refAmount(td.Balance); ok {
			oracleCheck("StrToBigInt("+strconv.Quote(td.Balance)+")", a, ra)
		}
		oracleCheck("HexToAddress("+strconv.Quote(k)+")", a20(common.HexToAddress(k)), a20(refAddr(refFromHex(k))))
		ts = append(ts, tgt{k, common.HexToAddress(k), a})
	}
	sort.Slice(ts, func(i, j int) bool { return ts[i].key < ts[j].key })
	return "t", ts
}

func a20(a common.Address) string { return hex.EncodeToString(a[:]) }

// observedBody: hash -> " o <ok> <evicted> <msghex> <k> (<addr> <bal> <nonce>)*" for the EVM transactions of the
// block being emitted (filled by observeOpaque from prefix executions of the real executor)
var observedBody = map[string]string{}

func isEvmType(t int32) bool { return t == 200 || t == 188 }

// observeOpaque runs the real executor on every prefix of the executed order that ends in an EVM
// transaction (situation "testing": no after()) and records status, message and the watched
// balances / nonces right after that transaction.
func observeOpaque(sc *Scenario, wl []common.Address) {
	observedBody = map[string]string{}
	// a block on which the real Less panics (equal hashes) is answered PANIC by the guarded block op
	// and `unmodelled` by the driver; nothing to observe then
	defer func() {
		if e := recover(); e != nil {
			observedBody = map[string]string{}
		}
	}()
	has := false
	for _, x := range sc.Txs {
		if isEvmType(x.Type) {
			has = true
		}
	}
	if !has {
		return
	}
	root, t := buildParent(sc)
	full := execOnce(sc, root, t)
	byHash := map[string]TxS{}
	for _, x := range sc.Txs {
		byHash[x.Hash] = x
	}
	for k, tx := range full.txs {
		if !isEvmType(tx.Type) {
			continue
		}
		pre := *sc
		pre.Situation = "testing"
		pre.Txs = nil
		for _, e := range full.txs[:k+1] {
			pre.Txs = append(pre.Txs, byHash[hex.EncodeToString(e.Hash.Bytes())])
		}
		o := execOnce(&pre, root, t)
		if len(o.receipts) == 0 {
			continue
		}
		// the prefix must have been executed in the order it has inside the full block (with a Less
		// that is no strict weak order, sorting a sub-list can come out differently): otherwise
		// there is no observation and the driver answers `unmodelled`
		same := len(o.txs) == k+1
		for j := 0; same && j <= k; j++ {
			same = o.txs[j].Hash == full.txs[j].Hash
		}
		if !same {
			observedBody = map[string]string{}
			return
		}
		rc := o.receipts[len(o.receipts)-1]
		ev := 0
		for _, h := range o.evicted {
			if h == tx.Hash {
				ev = 1
			}
		}
		// read the ledger from a fresh AccountDB: objects deleted by Finalise read as nil in the old one
		fresh, _ := account.NewAccountDB(commit(o.st, t), t)
		var sb strings.Builder
		fmt.Fprintf(&sb, " o %d %d %s %d", rc.Status, ev, hx.Hex([]byte(rc.Msg)), len(wl))
		for _, w := range wl {
			fmt.Fprintf(&sb, " %s %s %d", a20(w), fresh.GetBalance(w).String(), fresh.GetNonce(w))
		}
		observedBody[hex.EncodeToString(tx.Hash.Bytes())] = sb.String()
	}
}

func txTokens(r *hx.Rng, x TxS, watch map[common.Address]bool) string {
	src := common.HexToAddress(x.Source)
	fa := common.HexStringToAddress(x.Source)
	watch[src], watch[fa] = true, true
	sn := new(big.Int).SetBytes(common.FromHex(x.Source))
	oracleCheck("HexToAddress(source "+strconv.Quote(x.Source)+")", a20(src), a20(refAddr(refFromHex(x.Source))))
	oracleCheck("HexStringToAddress("+strconv.Quote(x.Source)+")", a20(fa), a20(refFeeAddr(x.Source)))
	oracleCheck("FromHex("+strconv.Quote(x.Source)+")", sn.String(), new(big.Int).SetBytes(refFromHex(x.Source)).String())
	var sb strings.Builder
	fmt.Fprintf(&sb, " %s %d %d %d %s %s %s %s", x.Hash, x.Req, x.Nonce, x.Type, hx.Hex([]byte(x.Source)), a20(src), a20(fa), hx.Hex(sn.Bytes()))
	if x.Type == types.TransactionTypeMinerRefund {
		var d struct{ Amount, MinerId string }
		if err := json.Unmarshal(utility.StrToBytes(x.Data), &d); err != nil {
			return sb.String() + " j " + hx.Hex([]byte(x.Data))
		}
		amt := "x"
		if v, err := strconv.ParseUint(d.Amount, 10, 64); err == nil {
			amt = strconv.FormatUint(v, 10)
		}
		return sb.String() + " r " + amt + " " + hx.Hex(common.FromHex(d.MinerId))
	}
	if x.Type == types.TransactionTypeMinerApply || x.Type == types.TransactionTypeMinerChangeAccount {
		var m types.Miner
		if err := json.Unmarshal([]byte(x.Data), &m); err != nil {
			return sb.String() + " j " + hx.Hex([]byte(x.Data))
		}
		acct := "-"
		if len(m.Account) > 0 {
			acct = a20(common.BytesToAddress(m.Account))
			watch[common.BytesToAddress(m.Account)] = true
		}
		if x.Type == types.TransactionTypeMinerChangeAccount {
			return sb.String() + " c " + hx.Hex(m.Id) + " " + acct
		}
		b := func(v []byte) int {
			if utility.IsEmptyByteSlice(v) {
				return 0
			}
			return 1
		}
		return sb.String() + fmt.Sprintf(" p %s %d %d %d %d %s", hx.Hex(m.Id), m.Type, m.Stake, b(m.PublicKey), b(m.VrfPublicKey), acct)
	}
	if x.Type == types.TransactionTypeMinerAdd {
		var m types.Miner
		if err := json.Unmarshal([]byte(x.Data), &m); err != nil {
			return sb.String() + " j " + hx.Hex([]byte(x.Data))
		}
		return sb.String() + " a " + hx.Hex(m.Id) + " " + strconv.FormatUint(m.Stake, 10)
	}
	if ob, ok := observedBody[x.Hash]; ok {
		return sb.String() + ob
	}
	kind, ts := decodeExtra(x.Extra)
	switch kind {
	case "e":
		sb.WriteString(" e")
	case "j":
		sb.WriteString(" j " + hx.Hex([]byte(x.Extra)))
	default:
		// hand the map entries to the model in a shuffled order: the model must sort them itself
		for i := len(ts) - 1; i > 0; i-- {
			j := r.Intn(i + 1)
			ts[i], ts[j] = ts[j], ts[i]
		}
		fmt.Fprintf(&sb, " t %d", len(ts))
		for _, t := range ts {
			watch[t.addr] = true
			fmt.Fprintf(&sb, " %s %s %s", hx.Hex([]byte(t.key)), a20(t.addr), t.amt)
		}
	}
	return sb.String()
}

func sortedAddrs(m map[common.Address]bool) []common.Address {
	l := make([]common.Address, 0, len(m))
	for a := range m {
		l = append(l, a)
	}
	sort.Slice(l, func(i, j int) bool { return a20(l[i]) < a20(l[j]) })
	return l
}

type escKey struct {
	h  uint64
	id common.Address
}

func sortedEsc(m map[escKey]bool) []escKey {
	l := make([]escKey, 0, len(m))
	for k := range m {
		l = append(l, k)
	}
	sort.Slice(l, func(i, j int) bool {
		if l[i].h != l[j].h {
			return l[i].h < l[j].h
		}
		return a20(l[i].id) < a20(l[j].id)
	})
	return l
}

// appliedMiners: the (id, type) pairs the block's miner-apply transactions try to register
func appliedMiners(sc *Scenario) []MinerS {
	var res []MinerS
	seen := map[string]bool{}
	for _, m := range sc.Miners {
		seen[m.Id+string(rune(m.Type))] = true
	}
	for _, x := range sc.Txs {
		if x.Type != types.TransactionTypeMinerApply {
			continue
		}
		var m types.Miner
		if json.Unmarshal([]byte(x.Data), &m) != nil || len(m.Id) == 0 || m.Type > 1 {
			continue
		}
		k := hex.EncodeToString(m.Id) + string(rune(m.Type))
		if !seen[k] {
			seen[k] = true
			res = append(res, MinerS{Id: hex.EncodeToString(m.Id), Type: m.Type, applied: true})
		}
	}
	return res
}

func minerDB(t byte) common.Address {
	if t == common.MinerTypeProposer {
		return common.ProposerDBAddress
	}
	return common.ValidatorDBAddress
}

func dump(st *account.AccountDB, watch []common.Address, wesc []escKey, miners []MinerS) string {
	var a, e, m []string
	for _, w := range watch {
		a = append(a, fmt.Sprintf("%s:%s:%d", a20(w), st.GetBalance(w).String(), st.GetNonce(w)))
	}
	for _, k := range wesc {
		v := new(big.Int).SetBytes(st.GetData(escrowAddr(k.h), k.id.Bytes()))
		e = append(e, fmt.Sprintf("%d:%s:%s", k.h, a20(k.id), v.String()))
	}
	// registry as stored: id key (alive), stake key, account key, status key (else the JSON status)
	sorted := append([]MinerS{}, miners...)
	sort.SliceStable(sorted, func(i, j int) bool {
		a, b := new(big.Int).SetBytes(unhex(sorted[i].Id)), new(big.Int).SetBytes(unhex(sorted[j].Id))
		if c := a.Cmp(b); c != 0 {
			return c < 0
		}
		return sorted[i].Type < sorted[j].Type
	})
	for _, mi := range sorted {
		db, id := minerDB(mi.Type), unhex(mi.Id)
		k1 := common.Sha256(id)
		k2 := common.Sha256(k1)
		k3 := common.Sha256(k2)
		alive := 0
		if len(st.GetData(db, id)) > 0 {
			alive = 1
		}
		stake := utility.ByteToUInt64(st.GetData(db, k1))
		acct := "-"
		if b := st.GetData(db, k2); len(b) > 0 {
			acct = a20(common.BytesToAddress(b))
		}
		status := mi.Status
		if b := st.GetData(db, k3); len(b) == 1 {
			status = b[0]
		}
		if mi.applied && alive == 0 {
			continue // a miner this block tried to register: nothing stored (or stored and removed again)
		}
		m = append(m, fmt.Sprintf("%s:%d:%d:%s:%d:%d", new(big.Int).SetBytes(id).String(), mi.Type, stake, acct, status, alive))
	}
	return "st=" + strings.Join(a, ",") + " esc=" + strings.Join(e, ",") + " mi=" + strings.Join(m, ",")
}

// rewardTokens: what the model needs besides its own registry: getTotalReward(height) as a float64
// bit pattern (math.Pow is the one float function the model does not compute), GetRewardBlocks,
// castor id, group members.  All shares are computed by the model (Model/RewardFloat.lean).
func rewardTokens(sc *Scenario, watch map[common.Address]bool, wesc map[escKey]bool) string {
	nh := service.RewardCalculatorImpl.NextRewardHeight(sc.Height)
	for _, m := range sc.Miners {
		ac := common.BytesToAddress(unhex(m.Account))
		watch[ac] = true
		wesc[escKey{nh, ac}] = true
	}
	wesc[escKey{nh, common.Address{}}] = true
	// where a miner refund of this block is scheduled (now + 36000) and, to catch a moved
	// schedule, the neighbouring candidates
	for _, m := range sc.Miners {
		ac := common.BytesToAddress(unhex(m.Account))
		for _, d := range []uint64{36000, 18000, 36000 - 50, 5000} {
			wesc[escKey{sc.Height + d, ac}] = true
		}
	}
	castor := "-"
	if sc.Castor != "" {
		castor = sc.Castor
	}
	oracleCheck("getTotalReward", strconv.FormatUint(math.Float64bits(service.GetTotalReward(sc.Height)), 16), strconv.FormatUint(math.Float64bits(refTotalReward(sc.Height)), 16))
	s := fmt.Sprintf(" F %d %d %s", math.Float64bits(service.GetTotalReward(sc.Height)), common.GetRewardBlocks(), castor)
	if len(sc.Group) == 0 {
		return s + " x"
	}
	s += fmt.Sprintf(" %d", len(sc.Group))
	for _, id := range sc.Group {
		s += " " + id
	}
	return s
}

// emitScenario: reset, parent state, watch lists, one block op answered by the real executor.
var rcStats = map[string]int{}

func msgClass(m string) string {
	switch {
	case m == "":
		return "empty"
	case strings.HasPrefix(m, "{\"balance\""):
		return "balance-json"
	case m == "{}":
		return "empty-json"
	case strings.HasPrefix(m, "not enough max"):
		return "fee-short"
	case strings.HasPrefix(m, "bad extraData"):
		return "bad-extra"
	case strings.HasPrefix(m, "nonce too"):
		return strings.ReplaceAll(m, " ", "-")
	case m == "Transfer Balance Failed":
		return "transfer-failed"
	}
	return "other"
}

func emitScenario(out *hx.Out, r *hx.Rng, sc *Scenario) {
	oracleDiffs = nil
	watch := map[common.Address]bool{common.FeeAccount: true, common.Address{}: true}
	wesc := map[escKey]bool{}
	out.Emit("reset", "ok")
	for _, a := range sc.Accounts {
		ad := common.BytesToAddress(unhex(a.Addr))
		watch[ad] = true
		out.Emit(fmt.Sprintf("acct %s %s %d", a20(ad), a.Bal, a.Nonce), "ok")
	}
	for _, e := range sc.Escrow {
		id := common.BytesToAddress(unhex(e.Id))
		wesc[escKey{e.H, id}] = true
		watch[id] = true
		out.Emit(fmt.Sprintf("esc %d %s %s", e.H, a20(id), e.V), "ok")
	}
	for _, mi := range sc.Miners {
		ac := common.BytesToAddress(unhex(mi.Account))
		watch[ac] = true
		out.Emit(fmt.Sprintf("miner %s %d %d %s 1 %d %d", mi.Id, mi.Type, mi.Stake, a20(ac), mi.Status, mi.ApplyHeight), "ok")
	}
	applyFlags(sc, sc.Height-1, false)
	// first pass over the interpreted transactions fixes the watch list, then the EVM
	// transactions are observed on it
	observedBody = map[string]string{}
	for _, x := range sc.Txs {
		if !isEvmType(x.Type) {
			txTokens(hx.NewRng(1), x, watch)
		} else {
			watch[common.HexToAddress(x.Source)] = true
			watch[common.HexStringToAddress(x.Source)] = true
			if x.Target != "" {
				watch[common.HexToAddress(x.Target)] = true
			}
		}
	}
	rw := rewardTokens(sc, watch, wesc)
	observeOpaque(sc, sortedAddrs(watch))
	var txs strings.Builder
	for _, x := range sc.Txs {
		txs.WriteString(txTokens(r, x, watch))
	}
	// every watched address may become a miner account inside the block (apply / change-account) and
	// then receive a reward or a refund: watch its escrow slots at the pay-out heights as well
	{
		nh := service.RewardCalculatorImpl.NextRewardHeight(sc.Height)
		for a := range watch {
			wesc[escKey{nh, a}] = true
			wesc[escKey{sc.Height, a}] = true
			wesc[escKey{sc.Height + 36000, a}] = true
		}
	}
	wl, el := sortedAddrs(watch), sortedEsc(wesc)
	ws := "watch"
	for _, w := range wl {
		ws += " " + a20(w)
	}
	out.Emit(ws, "ok")
	es := "watchesc"
	for _, k := range el {
		es += fmt.Sprintf(" %d %s", k.h, a20(k.id))
	}
	out.Emit(es, "ok")
	p4 := uint64(1)
	if sc.P004 {
		p4 = sc.Height
	}
	b2i := func(b bool) int {
		if b {
			return 1
		}
		return 0
	}
	castor, p25 := "-", "x"
	if sc.Castor != "" {
		castor = sc.Castor
	}
	if sc.P025 != 0 {
		p25 = strconv.FormatUint(sc.P025, 10)
	}
	if sc.DiffCount != 0 || sc.Working != 0 {
		out.Emit(fmt.Sprintf("diff %s %d %d", castor, sc.DiffCount, sc.Working), "ok")
	}
	op := fmt.Sprintf("block %d %d %s %s %s S %d %d %s %s%s %d%s", sc.Height, p4, sc.Flags, feeOf(sc).String(), a20(common.FeeAccount),
		b2i(sc.P010), b2i(sc.P019), p25, castor, rw, len(sc.Txs), txs.String())
	root, t := buildParent(sc)
	typeOf := map[common.Hash]int32{}
	for _, x := range sc.Txs {
		typeOf[common.BytesToHash(unhex(x.Hash))] = x.Type
	}
	out.Do(op, func() string {
		if len(oracleDiffs) > 0 {
			return "ORACLE-DIFF " + strings.ReplaceAll(strings.Join(oracleDiffs, ";"), " ", "_")
		}
		o := execOnce(sc, root, t)
		var ev, rc []string
		for _, h := range o.evicted {
			ev = append(ev, hex.EncodeToString(h.Bytes()))
		}
		for _, x := range o.receipts {
			msg := hx.Hex([]byte(x.Msg))
			if t := typeOf[x.TxHash]; t == types.TransactionTypeMinerRefund || t == types.TransactionTypeMinerAdd ||
				t == types.TransactionTypeMinerApply || t == types.TransactionTypeMinerChangeAccount {
				msg = "-" // message text of miner transactions is not modelled
			}
			rc = append(rc, fmt.Sprintf("%s:%d:%s", hex.EncodeToString(x.TxHash.Bytes()), x.Status, msg))
			rcStats[fmt.Sprintf("receipt status=%d %s", x.Status, msgClass(x.Msg))]++
		}
		nr := commit(o.st, t)
		if nr != o.root {
			return "COMMIT-ROOT-DIFFERS"
		}
		fresh, _ := account.NewAccountDB(nr, t)
		df := fmt.Sprintf(" df=%d:%d", utility.ByteToUInt64(fresh.GetData(common.DifficultyAddress, castorBytes(sc))),
			utility.ByteToUInt64(fresh.GetData(common.DifficultyAddress, common.TotalWorkingMiners)))
		// the receipts root as the node computes it (blocks without EVM / node transactions: their receipts
		// carry logs, gas and contract addresses the model does not render)
		rr := " rr=-"
		plainRc := true
		for _, x := range sc.Txs {
			if x.Type == 200 || x.Type == 188 || x.Type == 7 {
				plainRc = false
			}
		}
		if plainRc {
			rr = " rr=" + hx.Hex(core.VerifC01ReceiptsRoot(o.receipts).Bytes())
		}
		return "ev=" + strings.Join(ev, ",") + " rc=" + strings.Join(rc, ",") + " " + dump(fresh, wl, el, append(append([]MinerS{}, sc.Miners...), appliedMiners(sc)...)) + df + rr
	})
}

// ---------------------------------------------------------------- generators

var poolAddrs = []string{
	"00000000000000000000000000000000000000aa",
	"00000000000000000000000000000000000000bb",
	"00000000000000000000000000000000000000cc",
	"1111111111111111111111111111111111111111",
	"abcdefabcdefabcdefabcdefabcdefabcdefabcd",
	"ffffffffffffffffffffffffffffffffffffff01",
}

func e18(n int64) *big.Int { return new(big.Int).Mul(big.NewInt(n), big.NewInt(1e18)) }

// spell renders an address the ways users do: 0x lower, 0X / mixed case, no prefix, short.
func spell(r *hx.Rng, a string) string {
	switch r.Intn(12) {
	case 0:
		return "0x" + strings.ToUpper(a)
	case 1:
		return a // no prefix
	case 2:
		return "0X" + a
	case 3:
		b := []byte(a)
		for i := range b {
			if r.Bool() && b[i] >= 'a' && b[i] <= 'f' {
				b[i] -= 32
			}
		}
		return "0x" + string(b)
	case 4:
		return "0x" + strings.TrimLeft(a, "0")
	default:
		return "0x" + a
	}
}

func amountStr(r *hx.Rng, balWei *big.Int, fee *big.Int) string {
	avail := new(big.Int).Sub(balWei, fee)
	if avail.Sign() < 0 {
		avail = big.NewInt(0)
	}
	wei := func(v *big.Int) string {
		if v.Sign() < 0 {
			return "-" + utility.BigIntToStr(new(big.Int).Neg(v))
		}
		return utility.BigIntToStr(v)
	}
	switch r.Intn(22) {
	case 0:
		return ""
	case 1:
		return "0"
	case 2:
		return wei(avail) // exactly everything
	case 3:
		return wei(new(big.Int).Add(avail, big.NewInt(1))) // one wei too much
	case 4:
		return wei(new(big.Int).Div(avail, big.NewInt(2)))
	case 5:
		return wei(new(big.Int).Add(new(big.Int).Div(avail, big.NewInt(2)), big.NewInt(1)))
	case 6:
		return "-1"
	case 7:
		return "abc"
	case 8:
		return "1e-18"
	case 9:
		return wei(balWei)
	case 10:
		return "0.5"
	case 11:
		return wei(new(big.Int).Div(avail, big.NewInt(3)))
	case 12:
		return strconv.Itoa(r.Intn(12))
	default:
		return []string{"0.1", "0.25", "1", "2", "0.000000000000000001", "1.5", "3"}[r.Intn(7)]
	}
}

func randHash(r *hx.Rng) string {
	b := r.Bytes(32)
	switch r.Intn(24) { // boundary encodings random bytes (almost) never produce
	case 0:
		b[0] = 0 // leading zero byte
	case 1:
		b[0], b[1], b[2] = 0, 0, 0
	case 2:
		for i := range b {
			b[i] = 0xff
		}
		b[31] = byte(r.Intn(256))
	case 3:
		for i := range b {
			b[i] = 0
		}
		b[31] = byte(r.Intn(4))
	}
	if r.Chance(1, 6) {
		for i := 0; i < 31; i++ {
			b[i] = 0x11 // shared prefix: order decided by the last byte
		}
	}
	return hex.EncodeToString(b)
}

func genFlags(r *hx.Rng) string {
	if r.Chance(1, 3) {
		return "111111"
	}
	b := make([]byte, 6)
	for i := range b {
		b[i] = '0'
		if r.Chance(2, 3) {
			b[i] = '1'
		}
	}
	return string(b)
}

// genScenario: a few accounts with balances around the fee boundary, 0..8 transactions biased to
// multi-target transfers that contain the sender, alias spellings, duplicates, insufficient
// balance in the middle; sometimes escrow entries due at this height and a reward group.
func genScenario(r *hx.Rng, i int, allowOpaque bool) *Scenario {
	sc := &Scenario{Name: fmt.Sprintf("gen-%d", i), Height: uint64(20 + r.Intn(1000)), Flags: genFlags(r), P026: r.Bool(), P004: r.Chance(1, 10)}
	if r.Chance(1, 8) { // reward-period and epoch boundaries (NextRewardHeight = ceil(h/n)*n)
		sc.Height = common.GetRewardBlocks()*uint64(1+r.Intn(3)) + uint64(r.Intn(3)) - 1
	}
	fee := feeOf(sc)
	na := 1 + r.Intn(4)
	bals := map[string]*big.Int{}
	nonces := map[string]uint64{}
	perm := []int{0, 1, 2, 3, 4, 5}
	for k := 5; k > 0; k-- {
		j := r.Intn(k + 1)
		perm[k], perm[j] = perm[j], perm[k]
	}
	for k := 0; k < na; k++ {
		a := poolAddrs[perm[k]]
		var b *big.Int
		switch r.Intn(12) {
		case 0:
			b = big.NewInt(0)
		case 1:
			b = new(big.Int).Sub(fee, big.NewInt(1))
		case 2:
			b = new(big.Int).Set(fee)
		case 3:
			b = new(big.Int).Add(fee, big.NewInt(1))
		default:
			b = new(big.Int).Add(e18(int64(1+r.Intn(20))), new(big.Int).Mul(fee, big.NewInt(int64(r.Intn(6)))))
		}
		n := uint64(r.Pick(0, 0, 0, 1, 5))
		bals[a], nonces[a] = b, n
		sc.Accounts = append(sc.Accounts, Acct{a, b.String(), n})
	}
	ntx := r.Pick(0, 1, 1, 2, 2, 3, 4, 6, 8, 12)
	if r.Chance(1, 12) {
		ntx = 13 + r.Intn(28) // beyond the insertion-sort range: modelled when Less is total on the block
	}
	// large blocks: mostly "clean" ones on which Less is a strict total order (p023: source number,
	// nonce, hash; canonical spellings; requestIds 0 or unique), so that the model can answer them
	clean := ntx > 12 && r.Chance(3, 4)
	if clean {
		sc.Flags = sc.Flags[:5] + "1"
	}
	next := map[string]uint64{}
	for k := 0; k < ntx; k++ {
		a := poolAddrs[perm[r.Intn(na)]]
		if r.Chance(2, 3) {
			// prefer a sender that can pay the fee (the fee-short branch used to dominate the stream)
			for try := 0; try < 4; try++ {
				if b := bals[a]; b != nil && b.Cmp(new(big.Int).Mul(fee, big.NewInt(4))) > 0 {
					break
				}
				a = poolAddrs[perm[r.Intn(na)]]
			}
		}
		if r.Chance(1, 12) {
			a = poolAddrs[r.Intn(len(poolAddrs))] // maybe an unfunded sender
		}
		if _, ok := next[a]; !ok {
			next[a] = nonces[a]
		}
		x := TxS{Source: "0x" + a, Type: 100, Hash: randHash(r)}
		switch r.Intn(14) {
		case 0:
			x.Source = spell(r, a)
		case 1:
			x.Source = ""
		}
		switch r.Intn(20) {
		case 0:
			x.Type = 0
		case 1:
			x.Type = 99
		case 2:
			x.Type = 3
		case 3:
			if allowOpaque {
				x.Type = 200
				x.Data = "{"
				if r.Chance(2, 3) { // a real creation / call (self-destructing, storage writing, failing …)
					x.Data = contractData(r, initLib(r), valueStr(r))
					if r.Chance(1, 3) {
						x.Target = "0x" + poolAddrs[r.Intn(len(poolAddrs))]
						x.Data = contractData(r, "", valueStr(r))
					}
				}
			}
		}
		switch r.Intn(6) {
		case 0:
			x.Nonce = next[a] + 1
		case 1:
			if next[a] > 0 {
				x.Nonce = next[a] - 1
			}
		default:
			x.Nonce = next[a]
			next[a]++
		}
		switch r.Intn(5) {
		case 0:
			x.Req = uint64(1 + r.Intn(4))
		case 1:
			x.Req = uint64(100 + k)
		}
		if clean {
			x.Source = "0x" + a
			if x.Type == 200 {
				x.Type = 100
			}
			if x.Req != 0 {
				x.Req = uint64(100 + k)
			}
		}
		// extra data
		switch r.Intn(12) {
		case 0:
			x.Extra = ""
		case 1:
			x.Extra = "{not json"
		case 2:
			x.Extra = "[]"
		case 3:
			x.Extra = "{}"
		default:
			nt := r.Pick(1, 1, 2, 2, 3, 4, 6)
			var parts []string
			bal := bals[a]
			if bal == nil {
				bal = big.NewInt(0)
			}
			for q := 0; q < nt; q++ {
				var key string
				switch r.Intn(10) {
				case 0, 1, 2:
					key = spell(r, a) // the sender itself (maybe under another spelling)
				case 3:
					key = "0x" + a
				case 4:
					key = "0x" + a20(common.FeeAccount)
				case 5:
					key = "zz"
				default:
					key = spell(r, poolAddrs[r.Intn(len(poolAddrs))])
				}
				kj, _ := json.Marshal(key)
				vj, _ := json.Marshal(amountStr(r, bal, fee))
				if r.Chance(1, 15) {
					parts = append(parts, string(kj)+":{}")
				} else {
					parts = append(parts, string(kj)+":{\"balance\":"+string(vj)+"}")
				}
			}
			x.Extra = "{" + strings.Join(parts, ",") + "}"
		}
		sc.Txs = append(sc.Txs, x)
	}
	// escrow entries, some due now
	ne := r.Pick(0, 0, 1, 2, 4, 6)
	for k := 0; k < ne; k++ {
		h := sc.Height
		if r.Chance(1, 3) {
			h = sc.Height + uint64(1+r.Intn(3))
		}
		if sc.P004 && r.Chance(1, 2) {
			h = 0
		}
		id := poolAddrs[r.Intn(len(poolAddrs))]
		dup := false
		for _, e := range sc.Escrow {
			if e.H == h && e.Id == id {
				dup = true
			}
		}
		if !dup {
			sc.Escrow = append(sc.Escrow, Esc{h, id, e18(int64(1 + r.Intn(5))).String()})
		}
	}
	// miners + group → reward loops
	if r.Chance(1, 2) {
		np := r.Pick(0, 1, 2, 3, 5)
		for k := 0; k < np; k++ {
			acct := poolAddrs[r.Intn(len(poolAddrs))]
			stake := uint64(2000 * (1 + r.Intn(5)))
			switch r.Intn(10) { // float64(uint64) rounding boundaries, thirds
			case 0:
				stake = 9007199254740993 // 2^53 + 1: not representable, rounds to even
			case 1:
				stake = 9007199254740995
			case 2:
				stake = 1152921504606846977 // 2^60 + 1
			case 3:
				stake = 2001
			case 4:
				stake = 1999 // below the minimum: add-stake may bring it to exactly 2000 / 2001
			case 5:
				stake = 1500
			}
			m := MinerS{Id: fmt.Sprintf("a%03d", k) + "00", Type: 1, Stake: stake, Account: acct,
				ApplyHeight: uint64(r.Pick(0, 0, 0, int(sc.Height), int(sc.Height)+1)), Status: byte(r.Pick(0, 0, 0, 0, 2))}
			sc.Miners = append(sc.Miners, m)
		}
		nv := r.Pick(0, 1, 2, 3, 4)
		for k := 0; k < nv; k++ {
			acct := poolAddrs[r.Intn(len(poolAddrs))]
			m := MinerS{Id: fmt.Sprintf("b%03d", k) + "00", Type: 0, Stake: uint64(r.Pick(400, 800, 1200, 2000, 399, 200)), Account: acct,
				Status: byte(r.Pick(0, 0, 0, 1, 2))}
			sc.Miners = append(sc.Miners, m)
			if r.Chance(4, 5) {
				sc.Group = append(sc.Group, m.Id)
			}
		}
		if r.Chance(1, 4) {
			sc.Group = append(sc.Group, "cc0000") // a member without miner entry
		}
		if np > 0 && r.Chance(3, 4) {
			sc.Castor = sc.Miners[r.Intn(np)].Id
		} else if r.Bool() {
			sc.Castor = "dd0000"
		}
		// special heights: the hard-coded validator clean-ups and the difficulty counters
		if r.Chance(1, 8) {
			sc.P010 = true
			for k, id := range []string{"01820ed1304f0484e252ddac1ab5a1e6e16e5ebf89f022c092e8decd69e088e6", "18b97514b118dda8d8a30f16fc6de49ebeac849359e6ffd17b5299a82112eedd", "008825f3184b9f6f0935830c7738d1da3f9dc2a055f99c8c06176f36f5951686"} {
				if r.Chance(2, 3) {
					m := MinerS{Id: id, Type: byte(r.Pick(0, 0, 0, 1)), Stake: uint64(400 * (1 + r.Intn(3))), Account: poolAddrs[(k+r.Intn(3))%len(poolAddrs)]}
					if m.Type == 1 {
						m.Stake = 2000
					}
					sc.Miners = append(sc.Miners, m)
					if r.Bool() {
						sc.Group = append(sc.Group, id)
					}
				}
			}
		}
		if r.Chance(1, 8) {
			sc.P019 = true
			for k, id := range []string{"5437f9dd7171db9d04a8347dca5bf2b7789081631d79d2d7882c1774d2f4d123", "2a17671c5a32175335fa098951ba50a9b4730aea7ecee86df6536297900f5b77"} {
				if r.Chance(2, 3) {
					sc.Miners = append(sc.Miners, MinerS{Id: id, Type: 0, Stake: 400, Account: poolAddrs[(k+2)%len(poolAddrs)], Status: byte(r.Pick(0, 0, 2))})
					sc.Group = append(sc.Group, id)
				}
			}
		}
		if r.Chance(1, 3) {
			sc.P025 = sc.Height - uint64(r.Intn(3))
			if r.Bool() {
				sc.DiffCount = uint64(1 + r.Intn(5))
				sc.Working = uint64(1 + r.Intn(4))
			} else if r.Bool() {
				sc.Working = uint64(r.Intn(4))
			}
		}
		_ = 0
		// miner refund transactions: partial / full / too much / unparsable amounts, foreign senders,
		// unknown ids, several refunds falling on the same height (same and different accounts)
		funded := map[string]bool{}
		for _, a := range sc.Accounts {
			funded[a.Addr] = true
		}
		for k := r.Pick(0, 0, 1, 2, 3, 4); k > 0 && len(sc.Miners) > 0 && len(sc.Txs) < 12; k-- {
			m := sc.Miners[r.Intn(len(sc.Miners))]
			src := m.Account
			if r.Chance(1, 6) {
				src = poolAddrs[r.Intn(len(poolAddrs))]
			}
			if !funded[src] && r.Chance(5, 6) {
				funded[src] = true
				sc.Accounts = append(sc.Accounts, Acct{src, e18(int64(1 + r.Intn(3))).String(), 0})
			}
			amt := ""
			switch r.Intn(9) {
			case 0:
				amt = "18446744073709551615"
			case 1:
				amt = strconv.FormatUint(m.Stake, 10)
			case 2:
				amt = strconv.FormatUint(m.Stake+1, 10)
			case 3:
				amt = "abc"
			case 4:
				amt = "0"
			case 5:
				amt = strconv.FormatUint(m.Stake-399, 10)
			default:
				amt = strconv.Itoa(1 + r.Intn(500))
			}
			id := "0x" + m.Id
			if r.Chance(1, 8) {
				id = "0xdead00"
			}
			d, _ := json.Marshal(map[string]string{"Amount": amt, "MinerId": id})
			// fully random hash: a miner receipt is recognised by its hash (its message is not compared),
			// so it must not collide with the shared-prefix hashes of the other transactions
			x := TxS{Source: "0x" + src, Type: 4, Hash: hex.EncodeToString(r.Bytes(32)), Data: string(d)}
			if r.Chance(1, 10) {
				x.Data = "{bad"
			}
			if r.Chance(1, 4) {
				x.Req = uint64(200 + k)
			}
			sc.Txs = append(sc.Txs, x)
		}
	}
	// miner add-stake transactions: zero, small, threshold-crossing and unaffordable amounts,
	// unknown ids, broken payloads (the id is always present: without it the executor needs a signature)
	for k := r.Pick(0, 0, 1, 2, 3); k > 0 && len(sc.Miners) > 0 && len(sc.Txs) < 12; k-- {
		m := sc.Miners[r.Intn(len(sc.Miners))]
		src := sc.Accounts[r.Intn(len(sc.Accounts))].Addr
		delta := uint64(r.Pick(0, 1, 1, 2, 5, 100, 9007199254740993))
		min := uint64(400)
		if m.Type == 1 {
			min = 2000
		}
		if r.Chance(1, 2) && m.Stake <= min {
			delta = min - m.Stake + uint64(r.Intn(2)) // exactly at, or one above, the minimum
		}
		id := unhex(m.Id)
		if r.Chance(1, 8) {
			id = []byte{0xde, 0xad}
		}
		d, _ := json.Marshal(types.Miner{Id: id, Stake: delta})
		x := TxS{Source: "0x" + src, Type: 5, Hash: hex.EncodeToString(r.Bytes(32)), Data: string(d)}
		if r.Chance(1, 12) {
			x.Data = "[1"
		}
		sc.Txs = append(sc.Txs, x)
	}
	// miner apply (fresh ids, optional fields absent at random, stakes around the minimum) and
	// change-account transactions (own / foreign sender, free / occupied / absent target account)
	for k := r.Pick(0, 0, 1, 1, 2, 3); k > 0 && len(sc.Accounts) > 0 && len(sc.Txs) < 12; k-- {
		ai := r.Intn(len(sc.Accounts))
		src := sc.Accounts[ai].Addr
		if r.Chance(3, 4) { // a stake costs 400 / 2000 RPG: mostly a sender who can afford it (sometimes exactly)
			sc.Accounts[ai].Bal = e18(int64(r.Pick(400, 2000, 2001, 10000, 10000))).String()
			if r.Bool() {
				sc.Accounts[ai].Bal = new(big.Int).Add(bigOf(sc.Accounts[ai].Bal), feeOf(sc)).String()
			}
		}
		typ := byte(r.Pick(0, 0, 1, 1, 2))
		min := uint64(400)
		if typ == 1 {
			min = 2000
		}
		m := types.Miner{Id: freshMinerId(r), Type: typ, Stake: min + uint64(r.Pick(0, 0, 1, 100)) - uint64(r.Pick(0, 0, 0, 1))}
		if r.Chance(4, 5) {
			m.PublicKey = []byte{1, byte(r.Intn(256))}
		}
		if r.Chance(4, 5) {
			m.VrfPublicKey = []byte{2, byte(1 + r.Intn(255))}
		}
		if r.Chance(1, 2) {
			m.Account = unhex(poolAddrs[r.Intn(len(poolAddrs))])
		}
		d, _ := json.Marshal(m)
		x := TxS{Source: "0x" + src, Type: 2, Hash: hex.EncodeToString(r.Bytes(32)), Data: string(d)}
		if r.Chance(1, 15) {
			x.Data = "{\"id\":"
		}
		sc.Txs = append(sc.Txs, x)
	}
	for k := r.Pick(0, 0, 1, 2); k > 0 && len(sc.Miners) > 0 && len(sc.Txs) < 12; k-- {
		mi := sc.Miners[r.Intn(len(sc.Miners))]
		src := mi.Account
		if r.Chance(1, 5) {
			src = poolAddrs[r.Intn(len(poolAddrs))]
		}
		m := types.Miner{Id: unhex(mi.Id)}
		switch r.Intn(6) {
		case 0:
			m.Account = unhex(mi.Account) // no change
		case 1: // absent
		case 2:
			m.Account = unhex(sc.Miners[r.Intn(len(sc.Miners))].Account) // probably occupied
		default:
			m.Account = unhex(evmPool[6+r.Intn(8)]) // a free one
		}
		if r.Chance(1, 10) {
			m.Id = []byte{0xde, 0xad}
		}
		d, _ := json.Marshal(m)
		funded := false
		for _, a := range sc.Accounts {
			if a.Addr == src {
				funded = true
			}
		}
		if !funded {
			sc.Accounts = append(sc.Accounts, Acct{src, e18(2).String(), 0})
		}
		sc.Txs = append(sc.Txs, TxS{Source: "0x" + src, Type: 6, Hash: hex.EncodeToString(r.Bytes(32)), Data: string(d)})
	}
	// receipts and observed EVM steps are matched to transactions by hash: keep hashes unique
	seenHash := map[string]bool{}
	for i := range sc.Txs {
		for seenHash[sc.Txs[i].Hash] {
			sc.Txs[i].Hash = hex.EncodeToString(r.Bytes(32))
		}
		seenHash[sc.Txs[i].Hash] = true
	}
	return sc
}


// ---------------------------------------------------------------- EVM-heavy scenarios (searcher only)

var evmStats = map[string]int{}

var evmPool = []string{
	"00000000000000000000000000000000000000aa", "00000000000000000000000000000000000000bb",
	"00000000000000000000000000000000000000cc", "1111111111111111111111111111111111111111",
	"abcdefabcdefabcdefabcdefabcdefabcdefabcd", "ffffffffffffffffffffffffffffffffffffff01",
	"2222222222222222222222222222222222222222", "3333333333333333333333333333333333333333",
	"4444444444444444444444444444444444444444", "5555555555555555555555555555555555555555",
	"6666666666666666666666666666666666666666", "7777777777777777777777777777777777777777",
	"8888888888888888888888888888888888888888", "9999999999999999999999999999999999999999",
	"00000000000000000000000000000000000d0001", "00000000000000000000000000000000000d0002",
}

// wrapRuntime = init code that returns `runtime` (CODECOPY wrapper, 12-byte prefix), optionally
// preceded by constructor work.
func wrapRuntime(ctor, runtime string) string {
	n := len(runtime) / 2
	off := len(ctor)/2 + 12
	return ctor + fmt.Sprintf("60%02x60%02x60003960%02x6000f3", n, off, n) + runtime
}

// payTo = CALL(gas, addr, value, 0,0,0,0) POP
func payTo(addr string, value byte) string {
	return "6000600060006000" + fmt.Sprintf("60%02x", value) + "73" + addr + "5af150"
}

// runtimeLib: small runtimes a contract can have. beneficiary/addresses are drawn from the pool.
// blockhashProbe: slots 0x10.. = BLOCKHASH(NUMBER - d) for d = 0, 1, 256, 257, 2
func blockhashProbe() string {
	code := ""
	for i, d := range []int{0, 1, 256, 257, 2} {
		code += fmt.Sprintf("61%04x430340", d) + fmt.Sprintf("60%02x55", 0x10+i) // PUSH2 d NUMBER SUB BLOCKHASH PUSH1 slot SSTORE
	}
	return code + "00"
}

func runtimeLib(r *hx.Rng) string {
	other := evmPool[r.Intn(len(evmPool))]
	if haveChainStub && r.Chance(1, 4) {
		return blockhashProbe()
	}
	switch r.Intn(9) {
	case 0:
		return "33ff" // SELFDESTRUCT(CALLER)
	case 1:
		return "73" + other + "ff" // SELFDESTRUCT(fixed address)
	case 2:
		return "30ff" // SELFDESTRUCT(ADDRESS): to itself
	case 3:
		return "6001600054016000554360015500" // slot0++, slot1 = NUMBER
	case 4:
		return "3460005534600155" + "33600255" + "00" // slots = CALLVALUE, CALLER
	case 5: // pay three accounts out of the contract's balance, then write storage
		return payTo(evmPool[r.Intn(len(evmPool))], 1) + payTo(evmPool[r.Intn(len(evmPool))], 2) + payTo(other, 3) + "6001600055" + "00"
	case 6: // write storage, then self-destruct to a fixed address
		return "602a600755" + "73" + other + "ff"
	case 7: // log, then clear a slot
		return "60006000a0" + "6000600055" + "00"
	default: // pay one account then self-destruct to caller
		return payTo(other, 1) + "33ff"
	}
}

func initLib(r *hx.Rng) string {
	other := evmPool[r.Intn(len(evmPool))]
	if haveChainStub && r.Chance(1, 6) {
		return strings.TrimSuffix(blockhashProbe(), "00") + wrapRuntime("", blockhashProbe()) // constructor and runtime both probe
	}
	switch r.Intn(10) {
	case 0:
		return "33ff" // self-destructs while being created, to the creator
	case 1:
		return "73" + other + "ff" // … to another address
	case 2:
		return "30ff" // … to itself
	case 3:
		return "602a600755" + "33ff" // constructor writes storage, then self-destructs
	case 4:
		return testContractData
	case 5:
		return wrapRuntime("602a600755", runtimeLib(r)) // constructor storage + runtime
	case 6:
		return payTo(other, 1) + "33ff" // pays out of the endowment, self-destructs
	case 7:
		return "fe" // invalid opcode: creation fails
	default:
		return wrapRuntime("", runtimeLib(r))
	}
}

func contractData(r *hx.Rng, abi string, value string) string {
	gl := []string{"3000000", "3000000", "3000000", "100000", "", "60000"}[r.Intn(6)]
	d, _ := json.Marshal(types.ContractData{GasLimit: gl, TransferValue: value, AbiData: "0x" + abi})
	return string(d)
}

func valueStr(r *hx.Rng) string {
	return []string{"0", "0", "1", "0.5", "0.000000000000000003", "7", ""}[r.Intn(7)]
}

// manyTargets: a transfer that dirties several accounts, biased to the addresses of interest
func manyTargets(r *hx.Rng, interest []string, n int) string {
	var parts []string
	seen := map[string]bool{}
	for q := 0; q < n; q++ {
		a := evmPool[r.Intn(len(evmPool))]
		if len(interest) > 0 && r.Chance(1, 2) {
			a = interest[r.Intn(len(interest))]
		}
		if seen[a] {
			continue
		}
		seen[a] = true
		amt := []string{"5", "1", "0.25", "0", "2", "0.000000000000000001"}[r.Intn(6)]
		parts = append(parts, `"0x`+a+`":{"balance":"`+amt+`"}`)
	}
	return "{" + strings.Join(parts, ",") + "}"
}

// genEvmScenario: contract creations (some self-destructing during creation), calls into
// pre-deployed and freshly created contracts (self-destructing, storage writing, paying out),
// followed in the same block by transfers / value calls to the created, destroyed and otherwise
// touched addresses, with many dirty accounts per block.  The addresses created in the block are
// learnt from one probe execution of the first half, then the follow-ups are appended.
func genEvmScenario(r *hx.Rng, i int) *Scenario {
	sc := &Scenario{Name: fmt.Sprintf("evm-%d", i), Height: uint64(100 + r.Intn(500)), Flags: "111111", P026: true}
	senders := []string{evmPool[6], evmPool[7], evmPool[8]}[:1+r.Intn(3)]
	for _, a := range senders {
		sc.Accounts = append(sc.Accounts, Acct{a, e18(1000).String(), 0})
	}
	for k := r.Intn(4); k > 0; k-- { // a few more funded bystanders
		sc.Accounts = append(sc.Accounts, Acct{evmPool[r.Intn(6)], e18(int64(1 + r.Intn(9))).String(), 0})
	}
	var interest []string
	npre := r.Intn(4)
	for k := 0; k < npre; k++ {
		addr := fmt.Sprintf("00000000000000000000000000000000c0de%04x", k)
		sc.Contracts = append(sc.Contracts, CodeS{addr, runtimeLib(r)})
		interest = append(interest, addr)
		if r.Bool() {
			sc.Accounts = append(sc.Accounts, Acct{addr, e18(int64(1 + r.Intn(5))).String(), 0})
		}
	}
	req := uint64(0)
	ordered := r.Chance(3, 4)
	nextReq := func() uint64 {
		if !ordered {
			return 0
		}
		req++
		return req
	}
	mk := func(x TxS) {
		x.Hash = randHash(r)
		for dup := true; dup; {
			dup = false
			for _, y := range sc.Txs {
				if y.Hash == x.Hash {
					dup = true
					x.Hash = hex.EncodeToString(r.Bytes(32))
				}
			}
		}
		x.Req = nextReq()
		sc.Txs = append(sc.Txs, x)
	}
	nbase := 1 + r.Intn(4)
	for k := 0; k < nbase; k++ {
		src := "0x" + senders[r.Intn(len(senders))]
		switch r.Intn(5) {
		case 0, 1, 2: // creation
			mk(TxS{Source: src, Type: 200, Data: contractData(r, initLib(r), valueStr(r))})
		case 3: // call into a pre-deployed contract (or a plain address)
			tgt := evmPool[r.Intn(len(evmPool))]
			if len(interest) > 0 {
				tgt = interest[r.Intn(len(interest))]
			}
			mk(TxS{Source: src, Type: 200, Target: "0x" + tgt, Data: contractData(r, "", valueStr(r))})
		default:
			mk(TxS{Source: src, Type: 100, Extra: manyTargets(r, interest, 1+r.Intn(5))})
		}
	}
	// probe: which addresses did the block create / which beneficiaries exist
	applyFlags(sc, sc.Height-1, false)
	root, t := buildParent(sc)
	var probe []*types.Receipt
	hx.Guard(func() string { probe = execOnce(sc, root, t).receipts; return "" })
	for _, rc := range probe {
		if rc.ContractAddress != (common.Address{}) {
			interest = append(interest, a20(rc.ContractAddress))
			evmStats["created-addresses"]++
		}
	}
	interest = append(interest, senders...)
	nfollow := 1 + r.Intn(5)
	for k := 0; k < nfollow; k++ {
		src := "0x" + senders[r.Intn(len(senders))]
		switch r.Intn(6) {
		case 0, 1, 2: // pay the created / destroyed / touched addresses, many dirty accounts
			mk(TxS{Source: src, Type: 100, Extra: manyTargets(r, interest, 1+r.Intn(8))})
		case 3, 4: // value call into something of interest
			mk(TxS{Source: src, Type: 200, Target: "0x" + interest[r.Intn(len(interest))], Data: contractData(r, "", valueStr(r))})
		default:
			mk(TxS{Source: src, Type: 200, Data: contractData(r, initLib(r), valueStr(r))})
		}
	}
	for _, x := range sc.Txs {
		evmStats[fmt.Sprintf("tx type=%d", x.Type)]++
	}
	root, t = buildParent(sc)
	probe = nil
	hx.Guard(func() string { probe = execOnce(sc, root, t).receipts; return "" })
	for _, rc := range probe {
		evmStats[fmt.Sprintf("receipt status=%d", rc.Status)]++
		if rc.GasUsed > 0 {
			evmStats["receipts with gas"]++
		}
	}
	return sc
}


// genHistorical: the same kind of block under the REAL mainnet / robin activation schedule at a
// height right below, at and above one of the proposal activations (process height = height-1,
// as on the normal path).  interpretedOnly = only transaction kinds the model interprets under
// every flag vector (transfers, unknown types) and no reward group.
func genHistorical(r *hx.Rng, i int, interpretedOnly bool) *Scenario {
	env := []string{"mainnet", "robin"}[r.Intn(2)]
	c := histConfigs[env]
	acts := []uint64{c.Proposal002Block, c.Proposal003Block, c.Proposal004Block, c.Proposal005Block, c.Proposal006Block, c.Proposal007Block,
		c.Proposal008Block, c.Proposal009Block, c.Proposal010Block, c.Proposal011Block, c.Proposal012Block, c.Proposal013Block, c.Proposal015Block,
		c.Proposal016Block, c.Proposal017Block, c.Proposal018Block, c.Proposal019Block, c.Proposal020Block, c.Proposal021Block, c.Proposal023Block,
		c.Proposal025Block, c.Proposal026Block, c.Proposal027Block}
	var h uint64
	for tries := 0; tries < 50; tries++ {
		a := acts[r.Intn(len(acts))]
		if a < 10 || a == maxU {
			continue
		}
		h = a + uint64(r.Intn(4)) - 1 // a-1 .. a+2: process height a-2 .. a+1
		if interpretedOnly && h <= c.Proposal002Block+1 {
			continue // before Proposal002 balance writes are not journaled: revert semantics differ from the model
		}
		break
	}
	if h == 0 {
		h = c.Proposal023Block + 1
	}
	sc := genScenario(r, i, !interpretedOnly)
	sc.Name = fmt.Sprintf("hist-%s-%d-%d", env, h, i)
	sc.Config, sc.Height = env, h
	sc.Escrow, sc.DiffCount, sc.Working = nil, 0, 0
	if interpretedOnly {
		sc.Miners, sc.Group, sc.Castor = nil, nil, ""
		var keep []TxS
		for _, x := range sc.Txs {
			if x.Type != 2 && x.Type != 4 && x.Type != 5 && x.Type != 6 && x.Type != 200 {
				keep = append(keep, x)
			}
		}
		sc.Txs = keep
	}
	return sc
}


// boundaryFamilyCorr: deterministic small-scope family for the correspondence, emitted before
// anything random: one miner transaction per scenario with stake / amount exactly at, one below and
// one above the minimum stake, for both miner types and every status.
func boundaryFamilyCorr() []*Scenario {
	src := poolAddrs[0]
	var res []*Scenario
	n := 0
	for _, typ := range []byte{0, 1} {
		min := uint64(400)
		if typ == 1 {
			min = 2000
		}
		for _, status := range []byte{0, 1, 2} {
			for _, stake := range []uint64{min - 1, min, min + 1} {
				for _, delta := range []uint64{0, 1, 2} {
					n++
					d, _ := json.Marshal(types.Miner{Id: []byte{0xa1, byte(n)}, Stake: delta})
					res = append(res, &Scenario{Name: fmt.Sprintf("addstake-boundary-%d", n), Height: 100, Flags: "111111", P026: true,
						Accounts: []Acct{{src, e18(50).String(), 0}},
						Miners:   []MinerS{{Id: hex.EncodeToString([]byte{0xa1, byte(n)}), Type: typ, Stake: stake, Account: src, Status: status}},
						Txs:      []TxS{{Source: "0x" + src, Type: 5, Hash: hex.EncodeToString(common.Sha256([]byte{1, byte(n)})), Data: string(d)}}})
				}
			}
		}
		for _, stake := range []uint64{min, min + 1, 2 * min} {
			for _, left := range []uint64{0, min - 1, min, min + 1} {
				if left > stake {
					continue
				}
				n++
				d, _ := json.Marshal(map[string]string{"Amount": strconv.FormatUint(stake-left, 10), "MinerId": "0x" + hex.EncodeToString([]byte{0xa2, byte(n)})})
				res = append(res, &Scenario{Name: fmt.Sprintf("refund-boundary-%d", n), Height: 100, Flags: "111111", P026: true,
					Accounts: []Acct{{src, e18(50).String(), 0}},
					Miners:   []MinerS{{Id: hex.EncodeToString([]byte{0xa2, byte(n)}), Type: typ, Stake: stake, Account: src}},
					Txs:      []TxS{{Source: "0x" + src, Type: 4, Hash: hex.EncodeToString(common.Sha256([]byte{2, byte(n)})), Data: string(d)}}})
			}
		}
	}
	return res
}

// ---------------------------------------------------------------- direct site ops

func emitSiteOps(out *hx.Out, r *hx.Rng, i int) {
	out.Emit("reset", "ok")
	sc := &Scenario{Name: "site", Height: 100, Flags: "111111"}
	applyFlags(sc, 99, false)
	watch := map[common.Address]bool{}
	wesc := map[escKey]bool{}
	addrs := make([]common.Address, 0)
	for _, a := range poolAddrs {
		ad := common.BytesToAddress(unhex(a))
		addrs = append(addrs, ad)
		watch[ad] = true
		b := e18(int64(r.Intn(12)))
		sc.Accounts = append(sc.Accounts, Acct{a, b.String(), 0})
		out.Emit(fmt.Sprintf("acct %s %s 0", a, b.String()), "ok")
	}
	heights := []uint64{100, 101, 36100, 0}
	for _, h := range heights {
		for _, a := range addrs {
			wesc[escKey{h, a}] = true
		}
	}
	wl, el := sortedAddrs(watch), sortedEsc(wesc)
	ws, es := "watch", "watchesc"
	for _, w := range wl {
		ws += " " + a20(w)
	}
	for _, k := range el {
		es += fmt.Sprintf(" %d %s", k.h, a20(k.id))
	}
	out.Emit(ws, "ok")
	out.Emit(es, "ok")
	root, t := buildParent(sc)
	steps := 4 + r.Intn(8)
	for s := 0; s < steps; s++ {
		st, _ := account.NewAccountDB(root, t)
		switch r.Intn(4) {
		case 0, 1: // RefundManager.Add with a multi-height map
			nh := 1 + r.Intn(3)
			data := map[uint64]types.RefundInfoList{}
			op := ""
			cnt := 0
			hp := r.Intn(len(heights))
			for q := 0; q < nh; q++ {
				h := heights[(hp+q)%len(heights)]
				if _, ok := data[h]; ok {
					continue
				}
				k := r.Intn(4)
				l := types.RefundInfoList{}
				var pairs []string
				for z := 0; z < k; z++ {
					id := addrs[r.Intn(len(addrs))]
					v := e18(int64(r.Intn(4)))
					l.AddRefundInfo(id.Bytes(), v)
				}
				for _, ri := range l.List {
					pairs = append(pairs, a20(common.BytesToAddress(ri.Id))+" "+ri.Value.String())
				}
				data[h] = l
				cnt++
				op += fmt.Sprintf(" %d %d", h, len(l.List))
				if len(pairs) > 0 {
					op += " " + strings.Join(pairs, " ")
				}
			}
			out.Do(fmt.Sprintf("radd %d%s", cnt, op), func() string {
				service.RefundManagerImpl.Add(data, st)
				root = commit(st, t)
				f, _ := account.NewAccountDB(root, t)
				return dump(f, wl, el, nil)
			})
		case 2: // CheckAndMove
			h := heights[r.Intn(len(heights))]
			out.Do(fmt.Sprintf("cmove %d", h), func() string {
				service.RefundManagerImpl.CheckAndMove(h, st)
				root = commit(st, t)
				f, _ := account.NewAccountDB(root, t)
				return dump(f, wl, el, nil)
			})
		default: // ChangeAssets directly (inside a snapshot, as the executor does)
			src := poolAddrs[r.Intn(len(poolAddrs))]
			bal := st.GetBalance(common.BytesToAddress(unhex(src)))
			nt := 1 + r.Intn(4)
			mm := map[string]types.TransferData{}
			for q := 0; q < nt; q++ {
				key := spell(r, poolAddrs[r.Intn(len(poolAddrs))])
				if r.Chance(1, 3) {
					key = spell(r, src)
				}
				mm[key] = types.TransferData{Balance: amountStr(r, bal, big.NewInt(0))}
			}
			ej, _ := json.Marshal(mm)
			_, ts := decodeExtra(string(ej))
			for k := len(ts) - 1; k > 0; k-- {
				j := r.Intn(k + 1)
				ts[k], ts[j] = ts[j], ts[k]
			}
			op := fmt.Sprintf("ca %s %d", src, len(ts))
			for _, x := range ts {
				op += fmt.Sprintf(" %s %s %s", hx.Hex([]byte(x.key)), a20(x.addr), x.amt)
			}
			out.Do(op, func() string {
				snap := st.Snapshot()
				msg, ok := service.ChangeAssets("0x"+src, mm, st)
				o := "1 "
				if !ok {
					st.RevertToSnapshot(snap)
					o = "0 "
				}
				root = commit(st, t)
				f, _ := account.NewAccountDB(root, t)
				return o + hx.Hex([]byte(msg)) + " " + dump(f, wl, el, nil)
			})
		}
	}
}


// emitContractPreOps: the pure pre-execution functions of the contract executor against the model:
// executor.IntrinsicGas and the gas limit decodeContractData takes from the payload.
func emitContractPreOps(out *hx.Out, r *hx.Rng) {
	sc := &Scenario{Height: 50, Flags: "111111", P026: r.Bool()}
	applyFlags(sc, 49, false)
	for k := 0; k < 4; k++ {
		n := r.Pick(0, 1, 2, 31, 32, 33, 64, 200, 1000)
		data := r.Bytes(n)
		switch r.Intn(5) {
		case 0:
			for i := range data {
				data[i] = 0
			}
		case 1:
			for i := range data {
				if r.Chance(2, 3) {
					data[i] = 0
				}
			}
		case 2:
			for i := range data {
				if data[i] == 0 {
					data[i] = 1
				}
			}
		}
		cr := r.Bool()
		p26 := 0
		if sc.P026 {
			p26 = 1
		}
		c := 0
		if cr {
			c = 1
		}
		out.Do(fmt.Sprintf("igas %s %d %d", hx.Hex(data), c, p26), func() string {
			g, err := executor.IntrinsicGas(data, cr)
			if err != nil {
				return "overflow"
			}
			return strconv.FormatUint(g, 10)
		})
	}
	fields := []string{"", "0", "1", "6000000", "30000001", "18446744073709551615", "18446744073709551616", "007", "-1", "+1", "1e3", "abc", " 1", "1 ", "00",
		"99999999999999999999999999", "0x10", "1_000", strconv.Itoa(r.Intn(1 << 30))}
	for k := 0; k < 3; k++ {
		f := fields[r.Intn(len(fields))]
		d, _ := json.Marshal(types.ContractData{GasLimit: f, TransferValue: "0", AbiData: "0x"})
		p17 := 0
		if common.IsProposal017() {
			p17 = 1
		}
		out.Do(fmt.Sprintf("dcd %s %d", hx.Hex([]byte(f)), p17), func() string {
			g, _, _, msg := executor.VerifC18DecodeContractData(string(d))
			if msg != "" {
				return "err"
			}
			return strconv.FormatUint(g, 10)
		})
	}
}

func emitSortOp(out *hx.Out, r *hx.Rng) {
	sc := &Scenario{Height: 50, Flags: genFlags(r)}
	applyFlags(sc, 49, false)
	n := r.Pick(0, 1, 2, 3, 5, 8, 12, 12)
	if r.Chance(1, 4) {
		n = 13 + r.Intn(50)
	}
	clean := n > 12 && r.Chance(3, 4)
	if clean {
		sc.Flags = sc.Flags[:5] + "1"
		applyFlags(sc, 49, false)
	}
	var txs []*types.Transaction
	op := fmt.Sprintf("sort %s %d", sc.Flags, n)
	for i := 0; i < n; i++ {
		a := poolAddrs[r.Intn(3)]
		src := "0x" + a
		if r.Chance(1, 4) && !clean {
			src = spell(r, a)
		}
		tx := &types.Transaction{Source: src, Nonce: uint64(r.Intn(3)), Hash: common.BytesToHash(unhex(randHash(r)))}
		if r.Chance(1, 4) {
			tx.RequestId = uint64(1 + r.Intn(3))
			if clean {
				tx.RequestId = uint64(100 + i)
			}
		}
		txs = append(txs, tx)
		sn := new(big.Int).SetBytes(common.FromHex(src))
		op += fmt.Sprintf(" %s %d %d %s %s", hex.EncodeToString(tx.Hash.Bytes()), tx.RequestId, tx.Nonce, hx.Hex([]byte(src)), hx.Hex(sn.Bytes()))
	}
	out.Do(op, func() string {
		sort.Sort(types.Transactions(txs))
		var hs []string
		for _, t := range txs {
			hs = append(hs, hex.EncodeToString(t.Hash.Bytes()))
		}
		return strings.Join(hs, ",")
	})
}

// malformed stream: lines the driver must reject as bad-op (the harness answers bad-op itself:
// there is nothing to run on the implementation).
func emitMalformed(out *hx.Out, r *hx.Rng) {
	bad := []string{"block", "block 1 1 11111 5 00 x 0", "acct zz 1 1", "ca 00 1", "radd 2 5 1", "cmove x", "sort 111111 2 00",
		"reward 5", "block 10 1 111111 100 " + poolAddrs[0] + " x 1 00 0 0 100 - " + poolAddrs[0] + " " + poolAddrs[0] + " - t 1 00",
		"frobnicate", "watch 0011", "esc 1 2 3"}
	out.Emit(bad[r.Intn(len(bad))], "bad-op")
}

// ---------------------------------------------------------------- searcher

type violation struct {
	Key      string    `json:"key"`
	Desc     string    `json:"desc"`
	Scenario *Scenario `json:"scenario"`
	Outcomes []string  `json:"outcomes"`
}

func hasSelfTarget(sc *Scenario) bool {
	for _, x := range sc.Txs {
		if x.Type != 100 {
			continue
		}
		_, ts := decodeExtra(x.Extra)
		src := common.HexToAddress(x.Source)
		for _, t := range ts {
			if t.addr == src && len(ts) > 1 {
				return true
			}
		}
	}
	return false
}

// nfold executes the scenario n times, each in a fresh AccountDB and a fresh executor context,
// with GOMAXPROCS varied; returns the distinct fingerprints.
// outcomes seen before / after the poisoning of the process in the last nfold
var lastBefore, lastAfter map[string]bool
var perHeight map[uint64]map[string]bool // GlobalHeights scenarios: outcomes per process height
var poisonRng *hx.Rng
var variantOut [2]map[string]bool // hooked build: outcomes of the runs on the canonical (0) / longer (1) local chain index

func markHeight(sc *Scenario, i int, fp string) {
	if len(sc.GlobalHeights) == 0 {
		return
	}
	g := sc.GlobalHeights[i%len(sc.GlobalHeights)]
	if perHeight[g] == nil {
		perHeight[g] = map[string]bool{}
	}
	perHeight[g][fp] = true
}

func mark(i, n int, fp string) {
	if i < n/2 {
		lastBefore[fp] = true
	} else {
		lastAfter[fp] = true
	}
}

// uniqHashes: outcomes, receipts and observations are matched to transactions by hash
func uniqHashes(sc *Scenario) {
	seen := map[string]bool{}
	for i := range sc.Txs {
		for k := 0; seen[sc.Txs[i].Hash]; k++ {
			h := common.Sha256([]byte(sc.Txs[i].Hash + strconv.Itoa(k)))
			sc.Txs[i].Hash = hex.EncodeToString(h)
		}
		seen[sc.Txs[i].Hash] = true
	}
}

func nfold(sc *Scenario, n int) map[string]int {
	uniqHashes(sc)
	// the parent state is written under the scenario's own configuration (InsertMiner consults flags)
	if len(sc.GlobalHeights) > 0 {
		applyFlags(sc, sc.GlobalHeights[0], true)
	} else {
		applyFlags(sc, sc.Height-1, false)
	}
	root, t := buildParent(sc)
	hasContract := false
	for _, x := range sc.Txs {
		if x.Type == 200 || x.Type == 188 {
			hasContract = true
		}
	}
	orig := sc.Situation
	defer func() { sc.Situation = orig }()
	res := map[string]int{}
	lastBefore, lastAfter = map[string]bool{}, map[string]bool{}
	perHeight = map[uint64]map[string]bool{}
	variantOut = [2]map[string]bool{{}, {}}
	// retention: the block object and the outcome of one early run are kept; the same block object
	// (already sorted in place, same transaction objects) is executed again later, and the kept
	// receipts / evicted list are re-read after all later executions — they must not have changed
	var keptBlock *types.Block
	var keptOut *outcome
	keptFp := ""
	procs := []int{1, 2, 4, runtime.NumCPU()}
	for i := 0; i < n; i++ {
		if i == n/2 && len(sc.GlobalHeights) == 0 && poisonRng != nil {
			// poisoned process: execute competing blocks on the same parent and throw them away
			for k := 0; k < 2; k++ {
				ps := poisonOf(poisonRng, sc)
				applyFlags(ps, ps.Height-1, false)
				hx.Guard(func() string { execOnce(ps, root, t); return "" })
			}
		}
		runtime.GOMAXPROCS(procs[i%len(procs)])
		if len(sc.GlobalHeights) > 0 {
			applyFlags(sc, sc.GlobalHeights[i%len(sc.GlobalHeights)], true)
		} else {
			applyFlags(sc, sc.Height-1, false)
		}
		// a replica that meets the block on the fork path instead of the normal one
		sc.Situation = orig
		if orig == "" && !hasContract && i%4 == 3 {
			sc.Situation = "fork"
		}
		if i%8 == 7 {
			// a replica that re-built the same parent state from scratch (other insertion history)
			root2, t2 := buildParent(sc)
			if root2 != root {
				res["PARENT-ROOT-DIFFERS "+root2.Hex()]++
			}
			fp := hx.Guard(func() string { return execOnce(sc, root2, t2).fingerprint() })
			res[fp]++
			mark(i, n, fp)
			markHeight(sc, i, fp)
			continue
		}
		if i == 1 && len(sc.GlobalHeights) == 0 {
			fp := hx.Guard(func() string {
				st, _ := account.NewAccountDB(root, t)
				keptBlock = mkBlock(sc)
				r0, ev, txs, rc := coreExecute(st, keptBlock, situationOf(sc))
				keptOut = &outcome{r0, ev, rc, st, txs}
				return keptOut.fingerprint()
			})
			keptFp = fp
			res[fp]++
			mark(i, n, fp)
			continue
		}
		if i == 3 && len(sc.GlobalHeights) == 0 {
			ref := ""
			for k := range res {
				if !strings.HasPrefix(k, "PARENT-ROOT-DIFFERS") {
					ref = k
				}
			}
			// on a parent state that was just committed and has not been opened by anybody yet (what a
			// node has right after adding the parent block)
			rootO, tO := buildParent(sc)
			agreed := len(res) == 1
			for _, fp := range overlapped(sc, rootO, tO) {
				if fp != ref && agreed {
					fp = "OVERLAPPED-HANDLES " + fp
				}
				res[fp]++
			}
			continue
		}
		if i%8 == 5 && keptBlock != nil && sc.Situation == orig {
			// reference: fresh objects carrying the same transactions in the order the kept block has
			// NOW (sort.Sort worked in place; with a Less that is no strict weak order, sorting a second
			// time may legitimately give another order — that is another input list, not aliasing)
			ordered := *sc
			ordered.Txs = nil
			byHash := map[string]TxS{}
			for _, x := range sc.Txs {
				byHash[x.Hash] = x
			}
			for _, tx := range keptBlock.Transactions {
				ordered.Txs = append(ordered.Txs, byHash[hex.EncodeToString(tx.Hash.Bytes())])
			}
			want := hx.Guard(func() string { return execOnce(&ordered, root, t).fingerprint() })
			fp := hx.Guard(func() string {
				st, _ := account.NewAccountDB(root, t)
				r0, ev, txs, rc := coreExecute(st, keptBlock, situationOf(sc))
				return outcome{r0, ev, rc, st, txs}.fingerprint()
			})
			if fp != want && !strings.HasPrefix(want, "PANIC") {
				res["REUSED-BLOCK-OBJECT "+fp]++
			}
			continue
		}
		fp := hx.Guard(func() string { return execVariant(sc, root, t, i).fingerprint() })
		res[fp]++
		mark(i, n, fp)
		markHeight(sc, i, fp)
		if haveChainStub {
			variantOut[i%2][fp] = true
		}
	}
	if keptOut != nil && !strings.HasPrefix(keptFp, "PANIC") {
		// inputs mutated after the fact must not reach results handed out earlier
		for _, tx := range keptBlock.Transactions {
			tx.ExtraData, tx.Data, tx.Source = "mutated", "mutated", "0xmutated"
		}
		// a shadow of the block (same transactions under other hashes) is executed in between: a
		// result that aliases a buffer reused by the next execution now reads the shadow's values
		shadow := *sc
		shadow.Txs = nil
		for _, x := range sc.Txs {
			y := x
			y.Hash = hex.EncodeToString(common.Sha256([]byte("shadow" + x.Hash)))
			shadow.Txs = append(shadow.Txs, y)
		}
		hx.Guard(func() string { execOnce(&shadow, root, t); return "" })
		if now := keptOut.fingerprint(); now != keptFp {
			res["RETAINED-RESULT-CHANGED "+now]++
		}
	}
	runtime.GOMAXPROCS(runtime.NumCPU())
	return res
}

// classify names the *class* of a violation from the scenario and from what differs between the
// outcomes (fingerprint = "root=… ev=… rc=…").
func classify(sc *Scenario, res map[string]int) (string, string) {
	for k := range res {
		if strings.HasPrefix(k, "FRESH-PROCESS ") {
			return "process-history-dependence", "the block gives one result in a fresh operating-system process and another one in a process that has executed blocks at other heights / under other chain configurations before (package-level table, cache or side store carried over)"
		}
		if strings.HasPrefix(k, "fresh-process-error") {
			return "fresh-process-error", "the harness could not obtain the fresh-process result"
		}
	}
	for k := range res {
		if strings.HasPrefix(k, "PROPOSER ") {
			return "cast-deadline-inconsistent", "casting mode with the deadline striking inside the block: what the proposer computed for the list it packed differs from what a verifier computes for that list"
		}
	}
	plain := 0
	for k := range res {
		if !strings.HasPrefix(k, "CONCURRENT ") && !strings.HasPrefix(k, "SEQUENTIAL ") && !strings.HasPrefix(k, "REUSED-BLOCK-OBJECT") && !strings.HasPrefix(k, "OVERLAPPED-HANDLES") &&
			!strings.HasPrefix(k, "RETAINED-RESULT-CHANGED") && !strings.HasPrefix(k, "PARENT-ROOT-DIFFERS") {
			plain++
		}
	}
	// the special phases only name the class when the ordinary repetitions agree among themselves
	if plain <= 1 {
		for k := range res {
			if strings.HasPrefix(k, "OVERLAPPED-HANDLES ") {
				return "overlapping-state-handles", "state handles opened on the same parent root before any of them was executed influence each other: a block executed on a handle that was opened while another handle on that root was still unexecuted gives another result than on a freshly opened one (shared mutable trie / objects behind NewAccountDB)"
			}
		}
		for k := range res {
			if strings.HasPrefix(k, "CONCURRENT ") {
				return "concurrent-execution-differs", "a block executed while other blocks are being executed by other goroutines gave another result than alone"
			}
		}
		for k := range res {
			if strings.HasPrefix(k, "REUSED-BLOCK-OBJECT") || strings.HasPrefix(k, "RETAINED-RESULT-CHANGED") {
				return "aliasing-across-executions", "executing the same block object again, or mutating the inputs afterwards, changed a result (shared mutable state across executions)"
			}
		}
	}
	if len(sc.GlobalHeights) > 0 {
		// the recorded finding only explains a difference BETWEEN process heights; runs at one and the
		// same process height that disagree are something else and must not hide behind its key
		single := true
		for _, m := range perHeight {
			if len(m) > 1 {
				single = false
			}
		}
		if single {
			return "flags-from-process-chain-height", "proposal flags are read from common.GetBlockHeight() (the node's own chain top), not from the header being executed"
		}
		return "nondeterministic-execution", "runs at the same process height gave different results"
	}
	if haveChainStub && len(variantOut[0]) == 1 && len(variantOut[1]) == 1 {
		differ := false
		for k := range variantOut[0] {
			if !variantOut[1][k] {
				differ = true
			}
		}
		if differ {
			return "local-chain-index-dependence", "replicas that know the same blocks below the executing height but differ in what they store at and above it (a local / competing block) compute different results: the EVM read the node's own chain index outside the ancestors"
		}
	}
	if len(lastBefore) == 1 && len(lastAfter) == 1 {
		same := true
		for k := range lastBefore {
			if !lastAfter[k] {
				same = false
			}
		}
		if !same {
			return "process-history-dependence", "the block gives one result in a clean process and another one after competing blocks were executed and discarded in the same process (process-local side store / cache read on the execution path)"
		}
	}
	rest := map[string]bool{}
	for k := range res {
		if strings.HasPrefix(k, "PARENT-ROOT-DIFFERS") {
			continue
		}
		for _, pre := range []string{"CONCURRENT ", "SEQUENTIAL ", "REUSED-BLOCK-OBJECT ", "RETAINED-RESULT-CHANGED ", "OVERLAPPED-HANDLES "} {
			k = strings.TrimPrefix(k, pre)
		}
		if i := strings.Index(k, " ev="); i >= 0 {
			rest[k[i:]] = true
		} else {
			rest[k] = true
		}
	}
	if len(rest) == 1 {
		return "state-root-differs-receipts-equal", "same parent state, header and transaction list: receipts and evicted list agree but the post-state root does not (order of end-of-block state finalisation / trie writes)"
	}
	if hasSelfTarget(sc) {
		return "changeassets-self-target-map-order", "receipts differ and a transfer has its source among the targets: the balance check outcome depends on the order the targets are walked in"
	}
	return "nondeterministic-execution", "same parent state, header and transaction list gave different receipts / evicted lists"
}

const testContractData = "608060405234801561001057600080fd5b50610113806100206000396000f3fe6080604052348015600f57600080fd5b506004361060325760003560e01c80631003e2d21460375780631f7b6d32146048575b600080fd5b6046604236600460c5565b605d565b005b60005460405190815260200160405180910390f35b600080546001810182559080527f290decd9548b62a8d60345a988386fc84ba6bc95484008f6362f93160ef3e563018190556040518181527fe7031cd6956b2659170d686871156b5a86ec38e9071dfc7e6863f24e5debc10f9060200160405180910390a150565b60006020828403121560d657600080fd5b503591905056fea2646970667358221220e817b443aba8374c91a43c77972eff026499557eb6382c7d874b09bc17ee81a864736f6c634300080c0033"


// freshMinerId: an id no earlier scenario of this process has used, so the process-local side
// stores (pkCache …) hold nothing for it until this scenario's own executions put it there
var minerIdCounter uint32

func freshMinerId(r *hx.Rng) []byte {
	minerIdCounter++
	return []byte{0xee, byte(minerIdCounter >> 16), byte(minerIdCounter >> 8), byte(minerIdCounter), byte(1 + r.Intn(255))}
}

// minerApplyData: a miner-apply payload with optional fields absent (publicKey, vrfPublicKey,
// account, stake): absent fields are where an implementation fills in defaults from somewhere
func minerApplyData(r *hx.Rng) string {
	m := types.Miner{Id: freshMinerId(r), Type: byte(r.Intn(2)), Stake: uint64(r.Pick(400, 2000, 5000, 5000, 1))}
	if r.Chance(1, 2) {
		m.PublicKey = []byte{1, byte(r.Intn(256))}
	}
	if r.Chance(3, 4) {
		m.VrfPublicKey = []byte{2, byte(r.Intn(256))}
	}
	if r.Chance(1, 3) {
		m.Account = unhex(poolAddrs[r.Intn(len(poolAddrs))])
	}
	if r.Chance(1, 8) {
		m.Stake = 0
	}
	d, _ := json.Marshal(m)
	return string(d)
}

// poisonOf derives a competing block from the scenario: the same senders and miner ids, but every
// miner payload completed (all optional fields present, sufficient stake) and the transfers
// perturbed.  It is executed on the same parent state and DISCARDED in the middle of the N-fold
// run — what a losing fork block, an abandoned cast or a verified-but-never-added block leaves
// behind in a process is exactly what may not influence the later executions.
func poisonOf(r *hx.Rng, sc *Scenario) *Scenario {
	p := *sc
	p.Name = sc.Name + "-poison"
	p.GlobalHeights = nil
	p.Txs = nil
	for _, x := range sc.Txs {
		y := x
		y.Hash = hex.EncodeToString(r.Bytes(32))
		switch x.Type {
		case 2, 5, 6:
			var m types.Miner
			if json.Unmarshal([]byte(x.Data), &m) == nil {
				if len(m.PublicKey) == 0 {
					m.PublicKey = []byte{9, 9, byte(r.Intn(256))}
				}
				if len(m.VrfPublicKey) == 0 {
					m.VrfPublicKey = []byte{8, byte(r.Intn(256))}
				}
				if x.Type == 2 {
					min := uint64(400)
					if m.Type == common.MinerTypeProposer {
						min = 2000
					}
					if m.Stake < min {
						m.Stake = min
					}
				}
				d, _ := json.Marshal(m)
				y.Data = string(d)
			}
		case 100:
			if r.Bool() {
				y.Extra = manyTargets(r, nil, 1+r.Intn(3))
			}
		}
		p.Txs = append(p.Txs, y)
	}
	return &p
}

// widen adds transaction kinds the model does not interpret (miner ops, contracts): the searcher
// needs no model.
func widen(r *hx.Rng, sc *Scenario) {
	if len(sc.Accounts) == 0 {
		return
	}
	rich := sc.Accounts[0].Addr
	sc.Accounts[0].Bal = e18(100000).String()
	k := r.Intn(4)
	for i := 0; i < k; i++ {
		x := TxS{Source: "0x" + rich, Hash: randHash(r), Nonce: uint64(i)}
		switch r.Intn(6) {
		case 0: // contract creation
			d, _ := json.Marshal(types.ContractData{AbiData: testContractData})
			x.Type, x.Data = 200, string(d)
		case 1: // contract call to whatever is (not) there
			d, _ := json.Marshal(types.ContractData{AbiData: "0x1003e2d20000000000000000000000000000000000000000000000000000000000000462", TransferValue: "1"})
			x.Type, x.Data, x.Target = 200, string(d), "0x"+poolAddrs[r.Intn(len(poolAddrs))]
		case 2: // miner apply
			x.Type, x.Data = 2, minerApplyData(r)
		case 3: // miner add stake
			id := []byte{0xee, byte(i)}
			if len(sc.Miners) > 0 {
				id = unhex(sc.Miners[r.Intn(len(sc.Miners))].Id)
			}
			m := types.Miner{Id: id, Stake: uint64(r.Pick(0, 1, 100, 3000))}
			d, _ := json.Marshal(m)
			x.Type, x.Data = 5, string(d)
		case 4: // change account
			if len(sc.Miners) > 0 {
				mi := sc.Miners[r.Intn(len(sc.Miners))]
				m := types.Miner{Id: unhex(mi.Id), Account: unhex(poolAddrs[r.Intn(len(poolAddrs))])}
				d, _ := json.Marshal(m)
				x.Type, x.Data = 6, string(d)
				x.Source = "0x" + mi.Account
			}
		default: // miner refund (Sign == nil -> executor returns true, "")
			d, _ := json.Marshal(map[string]string{"Amount": "100", "MinerId": "0xee00"})
			x.Type, x.Data = 4, string(d)
		}
		if x.Type != 0 {
			sc.Txs = append(sc.Txs, x)
		}
	}
}

// forceMinerTxs: 1–3 miner-apply transactions (absent optional fields) from the rich sender
func forceMinerTxs(r *hx.Rng, sc *Scenario) {
	if len(sc.Accounts) == 0 {
		return
	}
	rich := sc.Accounts[0].Addr
	sc.Accounts[0].Bal = e18(100000).String()
	for k := 1 + r.Intn(3); k > 0; k-- {
		sc.Txs = append(sc.Txs, TxS{Source: "0x" + rich, Type: 2, Hash: hex.EncodeToString(r.Bytes(32)), Data: minerApplyData(r), Req: uint64(r.Pick(0, 0, 500+k))})
	}
}



// ---------------------------------------------------------------- fresh process versus a process with history
//
// The oracle is the same code in a NEW operating-system process: the harness starts itself
// (mode=one) in an empty scratch directory, where no package-level table, cache or side store has
// seen any other height or chain configuration, and lets it execute the block once.  The main
// process first executes the block's transactions under other configurations and at heights on the
// other side of the activations (and has executed everything the searcher did so far), then
// executes the block.  Root, receipts and evicted list must be the same.

func freshProcessFingerprint(sc *Scenario) (string, error) {
	dir, err := ioutil.TempDir("", "c01fresh")
	if err != nil {
		return "", err
	}
	defer os.RemoveAll(dir)
	one := *sc
	one.History = nil
	j, _ := json.Marshal(&one)
	f := filepath.Join(dir, "scenario.json")
	if err := ioutil.WriteFile(f, j, 0644); err != nil {
		return "", err
	}
	self, err := os.Executable()
	if err != nil {
		return "", err
	}
	cmd := exec.Command(self, "mode=one", "file="+f)
	cmd.Dir = dir
	out, err := cmd.Output()
	for _, l := range strings.Split(string(out), "\n") {
		if strings.HasPrefix(l, "ONE ") {
			return l[4:], nil
		}
	}
	return "", fmt.Errorf("fresh process gave no result: %v %s", err, string(out))
}

// withHistory: execute the block at every history point (discarded), then the block itself
func withHistory(sc *Scenario) string {
	for _, h := range sc.History {
		v := *sc
		v.Config, v.Height, v.History = h.Config, h.Height, nil
		v.Name = sc.Name + "-history"
		if v.Height >= histConfigs[h.Config].Proposal025Block && histConfigs[h.Config].Proposal025Block != 0 {
			v.Situation = "testing" // beyond Proposal025 after() needs the block chain (calcDifficulty)
		}
		applyFlags(&v, v.Height-1, false)
		root, t := buildParent(&v)
		hx.Guard(func() string { execOnce(&v, root, t); return "" })
	}
	one := *sc
	one.History = nil
	applyFlags(&one, one.Height-1, false)
	root, t := buildParent(&one)
	return hx.Guard(func() string { return execOnce(&one, root, t).fingerprint() })
}

func compareWithFreshProcess(sc *Scenario) map[string]int {
	fresh, err := freshProcessFingerprint(sc)
	if err != nil {
		return map[string]int{"fresh-process-error " + err.Error(): 1}
	}
	hist := withHistory(sc)
	if hist == fresh {
		return map[string]int{fresh: 2}
	}
	var hs []string
	for _, h := range sc.History {
		hs = append(hs, fmt.Sprintf("%s@%d", h.Config, h.Height))
	}
	return map[string]int{"FRESH-PROCESS " + fresh: 1, "AFTER-HISTORY[" + strings.Join(hs, ",") + "] " + hist: 1}
}

// activations of a table that change how a block is executed
func activationsOf(c common.ChainConfig) []uint64 {
	all := []uint64{c.Proposal002Block, c.Proposal005Block, c.Proposal006Block, c.Proposal007Block, c.Proposal012Block, c.Proposal013Block,
		c.Proposal014Block, c.Proposal015Block, c.Proposal016Block, c.Proposal017Block, c.Proposal018Block, c.Proposal021Block,
		c.Proposal022Block, c.Proposal023Block, c.Proposal026Block, c.Proposal027Block}
	var res []uint64
	for _, a := range all {
		if a > 300 && a != maxU {
			res = append(res, a)
		}
	}
	return res
}

// historyFamily: EVM-heavy blocks under the mainnet / robin / shifted tables at a height right
// below or above an activation; the history consists of the same transactions executed on the other
// side of that activation, around the gas-table activations (014, 022, 026) of the same table, under
// the other tables and under dev.
func historyFamily(r *hx.Rng, count int, report func(sc *Scenario, res map[string]int)) int {
	evals := 0
	envs := []string{"shifted", "mainnet", "robin"}
	for n := 0; n < count; n++ {
		env := envs[n%len(envs)]
		c := histConfigs[env]
		acts := activationsOf(c)
		a := acts[r.Intn(len(acts))]
		if n%2 == 0 { // half of them around the instruction-set activations
			a = []uint64{c.Proposal014Block, c.Proposal022Block, c.Proposal026Block}[r.Intn(3)]
			if a <= 300 || a == maxU {
				a = c.Proposal026Block
			}
		}
		below := r.Bool()
		sc := genEvmScenario(r, 8000+n)
		sc.Name = fmt.Sprintf("history-%d", n)
		sc.Config, sc.P010, sc.P019, sc.P025 = env, false, false, 0
		sc.Height = a + 1 + uint64(r.Intn(2))
		if below {
			sc.Height = a - 1 - uint64(r.Intn(2))
		}
		if sc.Height >= c.Proposal025Block {
			sc.Situation = "testing"
		}
		other := a + 2
		if !below {
			other = a - 2
		}
		sc.History = []HistPoint{{env, other}}
		for _, g := range []uint64{c.Proposal014Block, c.Proposal022Block, c.Proposal026Block} {
			if g > 300 && g != maxU {
				sc.History = append(sc.History, HistPoint{env, g + 1})
			}
		}
		for _, e2 := range envs {
			if e2 != env {
				sc.History = append(sc.History, HistPoint{e2, histConfigs[e2].Proposal026Block + 1})
			}
		}
		uniqHashes(sc)
		res := compareWithFreshProcess(sc)
		evals += 2 + len(sc.History)
		report(sc, res)
	}
	return evals
}


// siteFold: the map-range sites called directly, N times on fresh AccountDBs opened at the same
// root: one RefundManager.Add with a multi-height map (zero values, repeated ids, several heights —
// what pre-Proposal012 refunds and rewards produce) followed by CheckAndMove of every height.
func siteFold(sc *Scenario, n int) map[string]int {
	applyFlags(sc, sc.Height-1, false)
	root, t := buildParent(sc)
	res := map[string]int{}
	for i := 0; i < n; i++ {
		fp := hx.Guard(func() string {
			st, err := account.NewAccountDB(root, t)
			if err != nil {
				panic(err)
			}
			data := map[uint64]types.RefundInfoList{}
			hs := map[uint64]bool{}
			for _, e := range sc.SiteAdd {
				l := data[e.H]
				l.AddRefundInfo(unhex(e.Id), bigOf(e.V))
				data[e.H] = l
				hs[e.H] = true
			}
			service.RefundManagerImpl.Add(data, st)
			mid := st.IntermediateRoot(true)
			for h := range hs {
				service.RefundManagerImpl.CheckAndMove(h, st)
			}
			return "root=" + mid.Hex() + " after-move=" + st.IntermediateRoot(true).Hex() + " ev= rc="
		})
		res[fp]++
	}
	return res
}

func siteFamily(r *hx.Rng, count, n int, report func(sc *Scenario, res map[string]int)) int {
	for k := 0; k < count; k++ {
		sc := &Scenario{Name: fmt.Sprintf("site-add-%d", k), Height: 100, Flags: "111111", P026: true,
			Accounts: []Acct{{poolAddrs[0], e18(5).String(), 0}}}
		nh := 2 + r.Intn(3)
		for h := 0; h < nh; h++ {
			for e := r.Pick(1, 1, 2, 3); e > 0; e-- {
				sc.SiteAdd = append(sc.SiteAdd, Esc{uint64(100 + 50*h), poolAddrs[r.Intn(len(poolAddrs))], e18(int64(r.Pick(0, 0, 1, 2, 3))).String()})
			}
		}
		if r.Bool() { // something already booked at one of the heights
			sc.Escrow = []Esc{{100, poolAddrs[r.Intn(len(poolAddrs))], e18(1).String()}}
		}
		report(sc, siteFold(sc, n))
	}
	return count * n
}

// concurrentBatch (evidence, not proof): K different blocks are executed by K goroutines at the same
// time — as a node does when it casts in a goroutine while verifying incoming blocks — and every
// result must equal the one the same block gives when executed alone.
func concurrentBatch(r *hx.Rng, k, rounds int, report func(sc *Scenario, res map[string]int)) int {
	var scs []*Scenario
	for i := 0; i < k; i++ {
		var sc *Scenario
		if i%2 == 0 {
			sc = genEvmScenario(r, 9000+i)
		} else {
			sc = genScenario(r, 9000+i, true)
			widen(r, sc)
		}
		sc.Name = fmt.Sprintf("conc-%d-%s", i, sc.Name)
		sc.Flags, sc.P026, sc.P004, sc.P010, sc.P019, sc.P025, sc.Config = "111111", true, false, false, false, 0, ""
		scs = append(scs, sc)
	}
	applyFlags(scs[0], 1000, false)
	type prep struct {
		root common.Hash
		t    account.AccountDatabase
		seq  string
	}
	ps := make([]prep, k)
	for i, sc := range scs {
		root, t := buildParent(sc)
		ps[i] = prep{root, t, hx.Guard(func() string { return execOnce(sc, root, t).fingerprint() })}
		if again := hx.Guard(func() string { return execOnce(sc, root, t).fingerprint() }); again != ps[i].seq {
			report(sc, map[string]int{ps[i].seq: 1, again: 1}) // not even sequentially repeatable
			ps[i].seq = ""
		}
	}
	evals := 2 * k
	for round := 0; round < rounds; round++ {
		got := make([]string, k)
		var wg sync.WaitGroup
		for i := range scs {
			wg.Add(1)
			go func(i int) {
				defer wg.Done()
				got[i] = hx.Guard(func() string { return execOnce(scs[i], ps[i].root, ps[i].t).fingerprint() })
			}(i)
		}
		wg.Wait()
		evals += k
		for i := range scs {
			if ps[i].seq != "" && got[i] != ps[i].seq {
				concDiff = true
				report(scs[i], map[string]int{"SEQUENTIAL " + ps[i].seq: 1, "CONCURRENT " + got[i]: 1})
			}
		}
	}
	return evals
}

var concDiff bool


// smallScopeFamily: deterministic, runs before anything random.  One funded sender, every pair of
// target keys out of {self, SELF in another spelling, other, other without prefix} with every pair
// of amounts out of {0, 5, 8, everything, everything + 1 wei}.
func smallScopeFamily() []*Scenario {
	aa, bb := poolAddrs[0], poolAddrs[1]
	bal := new(big.Int).Add(e18(10), big.NewInt(1e15)) // 10 RPG + the fee
	keys := []string{"0x" + aa, "0X" + strings.ToUpper(aa), "0x" + bb, bb}
	amts := []string{"0", "5", "8", "10", "10.000000000000000001"}
	var res []*Scenario
	n := 0
	for i := 0; i < len(keys); i++ {
		for j := i + 1; j < len(keys); j++ {
			for _, x := range amts {
				for _, y := range amts {
					n++
					extra := fmt.Sprintf(`{"%s":{"balance":"%s"},"%s":{"balance":"%s"}}`, keys[i], x, keys[j], y)
					h := common.Sha256([]byte(extra))
					res = append(res, &Scenario{Name: fmt.Sprintf("small-%d", n), Height: 100, Flags: "111111", P026: true,
						Accounts: []Acct{{aa, bal.String(), 0}},
						Txs:      []TxS{{Source: "0x" + aa, Type: 100, Hash: hex.EncodeToString(h), Extra: extra}}})
				}
			}
		}
	}
	return res
}

func search(a map[string]string, r *hx.Rng) {
	n := hx.ArgInt(a, "n", 64)
	cases := hx.ArgInt(a, "cases", 150)
	evals, distinct := 0, map[string]bool{}
	var viols []violation
	seenKey := map[string]bool{}
	report := func(sc *Scenario, res map[string]int) {
		if len(res) <= 1 {
			return
		}
		key, desc := classify(sc, res)
		if seenKey[key] {
			return
		}
		seenKey[key] = true
		var outs []string
		for k, v := range res {
			if len(k) > 600 {
				k = k[:600] + "…"
			}
			outs = append(outs, fmt.Sprintf("%dx %s", v, k))
		}
		sort.Strings(outs)
		v := violation{key, desc, sc, outs}
		viols = append(viols, v)
		// printed and flushed when found: a time-boxed or crashing run still delivers it
		if j, err := json.Marshal(v); err == nil {
			fmt.Println("VIOL " + string(j))
			os.Stdout.Sync()
		}
	}
	// 1. hand-written leads first (DESIGN 6/C01)
	for _, sc := range leadScenarios() {
		res := nfold(sc, n)
		evals += n
		distinct[sc.Name] = true
		report(sc, res)
	}
	evals += siteFamily(r.Fork(), 24, n, report)
	evals += historyFamily(r.Fork(), hx.ArgInt(a, "hist", 9), report)
	for _, fam := range extraFamilies {
		evals += fam(r.Fork(), report)
	}
	// 1b. the deterministic small-scope family (fewer repetitions each: 150 scenarios)
	nSmall := n
	if nSmall > 16 {
		nSmall = 16
	}
	for _, sc := range smallScopeFamily() {
		res := nfold(sc, nSmall)
		evals += nSmall
		distinct[sc.Name] = true
		report(sc, res)
	}
	// 2. corpus scenarios
	for _, sc := range corpusScenarios() {
		res := nfold(sc, n)
		evals += n
		distinct[sc.Name] = true
		report(sc, res)
	}
	// 3. generated
	// concurrent executions against sequential ones
	evals += concurrentBatch(r.Fork(), hx.ArgInt(a, "conc", 8), hx.ArgInt(a, "rounds", 6), report)
	kinds := map[string]int{}
	poisonRng = r.Fork()
	for i := 0; i < cases; i++ {
		var sc *Scenario
		if i%8 == 6 {
			sc = genHistorical(r, i, false)
			if r.Bool() {
				widen(r, sc)
			}
			kinds["historical-"+sc.Config]++
		} else if i%4 == 2 {
			sc = genScenario(r, i, true)
			widen(r, sc)
			forceMinerTxs(r, sc)
			kinds["miner-biased"]++
		} else if i%2 == 1 {
			sc = genEvmScenario(r, i)
			kinds["evm"]++
		} else {
			sc = genScenario(r, i, true)
			kinds["ledger"]++
			if r.Chance(1, 2) {
				widen(r, sc)
				kinds["ledger+miner/contract"]++
			}
		}
		res := nfold(sc, n)
		evals += n
		j, _ := json.Marshal(sc.Txs)
		distinct[string(j)] = true
		report(sc, res)
	}
	out := map[string]interface{}{"evaluations": evals, "distinct": len(distinct), "violations": viols, "n": n, "cases": cases, "kinds": kinds, "evm": evmStats}
	j, _ := json.Marshal(out)
	fmt.Println("SEARCH " + string(j))
}

func leadScenarios() []*Scenario {
	aa, bb := poolAddrs[0], poolAddrs[1]
	bal := new(big.Int).Add(e18(10), big.NewInt(1e15)).String()
	h := func(b byte) string { return strings.Repeat(fmt.Sprintf("%02x", b), 32) }
	return []*Scenario{
		{Name: "lead-self-target", Height: 100, Flags: "111111", P026: true, Accounts: []Acct{{aa, bal, 0}},
			Txs: []TxS{{Source: "0x" + aa, Type: 100, Hash: h(1), Extra: `{"0x` + aa + `":{"balance":"8"},"0x` + bb + `":{"balance":"5"}}`}}},
		{Name: "lead-self-target-alias", Height: 100, Flags: "111111", P026: true, Accounts: []Acct{{aa, bal, 0}},
			Txs: []TxS{{Source: "0x" + aa, Type: 100, Hash: h(2), Extra: `{"0X` + strings.ToUpper(aa) + `":{"balance":"8"},"` + bb + `":{"balance":"5"}}`}}},
		{Name: "lead-mixed-case-sources", Height: 100, Flags: "111111", P026: true, Accounts: []Acct{{poolAddrs[4], bal, 0}},
			Txs: []TxS{
				{Source: "0x" + poolAddrs[4], Type: 100, Hash: h(3), Nonce: 1, Extra: `{"0x` + bb + `":{"balance":"1"}}`},
				{Source: "0x" + strings.ToUpper(poolAddrs[4]), Type: 100, Hash: h(4), Nonce: 0, Extra: `{"0x` + bb + `":{"balance":"2"}}`},
				{Source: "0x" + poolAddrs[4], Type: 100, Hash: h(5), Nonce: 0, Extra: `{"0x` + bb + `":{"balance":"3"}}`}}},
		// process-local chain height straddling dev's Proposal023Block = 12 (sort rule) for one and the same block
		{Name: "lead-global-height-flags", Height: 12, Flags: "111111", P026: true, Accounts: []Acct{{aa, bal, 0}, {bb, bal, 0}},
			GlobalHeights: []uint64{11, 15},
			Txs: []TxS{
				{Source: "0x" + aa, Type: 100, Hash: h(0x10), Nonce: 0, Extra: `{"0x` + bb + `":{"balance":"7"}}`},
				{Source: "0x" + aa, Type: 100, Hash: h(0x20), Nonce: 0, Extra: `{"0x` + bb + `":{"balance":"6"}}`}}},
	}
}

func corpusScenarios() []*Scenario {
	dir := os.Getenv("VERIF_CORPUS")
	var res []*Scenario
	files, _ := filepath.Glob(filepath.Join(dir, "*.json"))
	sort.Strings(files)
	for _, f := range files {
		b, err := ioutil.ReadFile(f)
		if err != nil {
			continue
		}
		var sc Scenario
		if json.Unmarshal(b, &sc) == nil && len(sc.Flags) == 6 && sc.Height > 0 {
			if sc.Name == "" {
				sc.Name = filepath.Base(f)
			}
			res = append(res, &sc)
		}
	}
	return res
}

// ---------------------------------------------------------------- main

func main() {
	a := hx.Args()
	for _, env := range []string{"mainnet", "robin"} {
		common.Init(0, "verif.ini", env)
		histConfigs[env] = common.LocalChainConfig
	}
	hxnode.BootServices("dev")
	{
		// "shifted": the dev table with the three instruction-set activations (and the sort / nonce
		// rules) moved to small positive heights, Proposal025 far away: after() runs completely
		c := common.LocalChainConfig
		c.Proposal014Block, c.Proposal022Block, c.Proposal026Block = 500, 600, 700
		c.Proposal015Block, c.Proposal017Block, c.Proposal027Block = 400, 450, 800
		c.Proposal025Block = maxU
		c.Proposal010Block, c.Proposal019Block, c.Proposal011Block, c.Proposal004Block = maxU, maxU, maxU, 1
		histConfigs["shifted"] = c
	}
	core.VerifC01InitLoggers()
	service.InitRewardCalculator(stubB{}, stubG{}, stubF{})
	service.InitRefundManager(stubG{}, stubF{})
	devConfig = common.LocalChainConfig
	r := hx.NewRng(hx.SeedFromEnv())

	switch a["mode"] {
	case "one":
		// one execution in this (fresh) process; used as the oracle of the history family
		b, err := ioutil.ReadFile(a["file"])
		if err != nil {
			panic(err)
		}
		var sc Scenario
		if err := json.Unmarshal(b, &sc); err != nil {
			panic(err)
		}
		applyFlags(&sc, sc.Height-1, false)
		root, t := buildParent(&sc)
		fmt.Println("ONE " + hx.Guard(func() string { return execOnce(&sc, root, t).fingerprint() }))
		return
	case "search":
		search(a, r)
		return
	case "replay":
		b, err := ioutil.ReadFile(a["file"])
		if err != nil {
			panic(err)
		}
		var sc Scenario
		if err := json.Unmarshal(b, &sc); err != nil {
			panic(err)
		}
		poisonRng = r.Fork() // the replay, too, poisons the process half-way through
		var res map[string]int
		if len(sc.SiteAdd) > 0 {
			res = siteFold(&sc, hx.ArgInt(a, "n", 64))
		} else if len(sc.History) > 0 {
			res = compareWithFreshProcess(&sc)
		} else if sc.CastCut > 0 && replayHooked != nil {
			res = replayHooked(&sc)
		} else {
			res = nfold(&sc, hx.ArgInt(a, "n", 64))
		}
		for k, v := range res {
			fmt.Printf("%dx %s\n", v, k)
		}
		fmt.Printf("REPLAY distinct=%d\n", len(res))
		return
	}

	out, err := hx.NewOut(a["ops"], a["obs"])
	if err != nil {
		panic(err)
	}
	defer out.Close()
	n := hx.ArgInt(a, "n", 300)
	sizes := map[string]int{}
	for _, sc := range corpusScenarios() {
		if len(sc.GlobalHeights) == 0 {
			emitScenario(out, r, sc)
		}
	}
	for _, sc := range leadScenarios() {
		if len(sc.GlobalHeights) == 0 {
			emitScenario(out, r, sc)
		}
	}
	for _, sc := range boundaryFamilyCorr() {
		emitScenario(out, r, sc)
	}
	for i := 0; i < n; i++ {
		switch {
		case i%10 == 7:
			emitSiteOps(out, r, i)
		case i%10 == 8:
			emitSortOp(out, r)
			emitSortOp(out, r)
			emitContractPreOps(out, r)
		case i%10 == 9:
			emitMalformed(out, r)
		case i%10 == 3:
			sc := genHistorical(r, i, true)
			applyFlags(sc, sc.Height-1, false)
			sizes["historical-"+sc.Config]++
			sizes["historical flags="+sc.Flags]++
			emitScenario(out, r, sc)
		default:
			sc := genScenario(r, i, true)
			sizes[fmt.Sprintf("txs=%d", len(sc.Txs))]++
			sizes[fmt.Sprintf("flags=%s", sc.Flags)]++
			if len(sc.Group) > 0 {
				sizes["with-reward-group"]++
			}
			if hasSelfTarget(sc) {
				sizes["with-self-target"]++
			}
			emitScenario(out, r, sc)
		}
	}
	for k, v := range rcStats {
		sizes[k] = v
	}
	sj, _ := json.Marshal(sizes)
	st := out.StatsJSON()
	fmt.Println("STATS " + st[:len(st)-1] + ",\"scenario\":" + string(sj) + "}")
}
