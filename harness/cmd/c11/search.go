package main

import "fmt"

func searchMain(a map[string]string) {
	fmt.Println("SEARCH {\"evaluations\":0,\"findings\":[]}")
}
