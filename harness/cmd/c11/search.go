package main

// Searcher for C11: a direct oracle for the PROPERTY on the implementation, no model.
//
//  (a) run generated programs through evm.Call / evm.Create: no panic, gasLeft <= gasIn,
//      a failed call (other than revert / pre-checks) leaves no gas, wall clock bounded;
//  (b) every precompile's RequiredGas and Run on fuzzed / truncated / oversized input: no panic;
//  (c) every state-independent dynamic-gas function against an exact big.Int reference:
//      when the exact cost does not fit uint64 the function must fail, otherwise it must
//      return exactly that cost - in particular it charges the full quadratic memory fee
//      (times the Proposal026 magnification) for every byte the operation grows memory by.
//
// Output: FINDING {json} lines (key = class of violation), SAMPLE lines, one SEARCH {json}.

import (
	"encoding/json"
	"fmt"
	"math/big"
	"os"
	"regexp"
	"strings"
	"syscall"
	"time"

	"com.tuntun.rangers/node/src/common"
	"com.tuntun.rangers/node/src/executor"
	"com.tuntun.rangers/node/src/middleware/types"
	"com.tuntun.rangers/node/src/vm"
	"github.com/holiman/uint256"
	"verif/harness/hx"
)

type finding struct {
	Key    string      `json:"key"`
	Desc   string      `json:"desc"`
	Replay interface{} `json:"replay"`
}

var findings = map[string]int{}

func report(key, desc string, replay interface{}) {
	findings[key]++
	if findings[key] > 3 {
		return
	}
	b, _ := json.Marshal(finding{key, desc, replay})
	fmt.Println("FINDING " + string(b))
}

func limitAddressSpace() {
	// a wrongly priced memory expansion must kill this process, not the machine
	lim := syscall.Rlimit{Cur: 24 << 30, Max: 24 << 30}
	_ = syscall.Setrlimit(syscall.RLIMIT_AS, &lim)
}

func panicKey(msg string) string {
	switch {
	case strings.Contains(msg, "index_out_of_range_[31]_with_length_0"):
		return "blobhash-setbytes32-panic"
	case strings.Contains(msg, "slice_bounds_out_of_range"):
		return "slice-bounds-panic"
	}
	k := strings.ToLower(msg)
	k = strings.Map(func(r rune) rune { // one class per panic site, whatever the indices
		if r >= '0' && r <= '9' {
			return '#'
		}
		return r
	}, k)
	for strings.Contains(k, "##") {
		k = strings.ReplaceAll(k, "##", "#")
	}
	if len(k) > 46 {
		k = k[:46]
	}
	return "panic-" + strings.Map(func(r rune) rune {
		if (r >= 'a' && r <= 'z') || (r >= '0' && r <= '9') || r == '#' {
			return r
		}
		return '-'
	}, strings.TrimPrefix(k, "panic "))
}

// exact reference for the state-independent dynamic gas functions (unbounded arithmetic)
var maxU64 = new(big.Int).SetUint64(^uint64(0))

func bigWords(n *big.Int) *big.Int {
	return new(big.Int).Div(new(big.Int).Add(n, big.NewInt(31)), big.NewInt(32))
}

func cmemBig(w *big.Int) *big.Int {
	q := new(big.Int).Div(new(big.Int).Mul(w, w), big.NewInt(512))
	return q.Add(q, new(big.Int).Mul(w, big.NewInt(3)))
}

// memory fee for growing a memory of memLen bytes (word aligned) to cover `size` bytes
func memFeeBig(memLen uint64, size *big.Int, mag int64) *big.Int {
	if size.Sign() == 0 {
		return big.NewInt(0)
	}
	w := bigWords(size)
	newBytes := new(big.Int).Mul(w, big.NewInt(32))
	if newBytes.Cmp(new(big.Int).SetUint64(memLen)) <= 0 {
		return big.NewInt(0)
	}
	old := cmemBig(new(big.Int).SetUint64(memLen / 32))
	fee := new(big.Int).Sub(cmemBig(w), old)
	return fee.Mul(fee, big.NewInt(mag))
}

type refOp struct {
	op       byte
	sizeOff  int // stack index of the offset operand, -1 none
	sizeLen  int // stack index of the length operand, -1 => fixed
	fixedLen int64
	perWord  int64 // per-word fee on the length operand at lenPos
	lenPos   int
	logN     int64 // LOGn: 375 + n*375 + 8*len
	isLog    bool
}

var refOps = []refOp{
	{op: 0x20, sizeOff: 0, sizeLen: 1, perWord: 6, lenPos: 1},
	{op: 0x37, sizeOff: 0, sizeLen: 2, perWord: 3, lenPos: 2},
	{op: 0x39, sizeOff: 0, sizeLen: 2, perWord: 3, lenPos: 2},
	{op: 0x3e, sizeOff: 0, sizeLen: 2, perWord: 3, lenPos: 2},
	{op: 0x3c, sizeOff: 1, sizeLen: 3, perWord: 3, lenPos: 3},
	{op: 0x51, sizeOff: 0, sizeLen: -1, fixedLen: 32},
	{op: 0x52, sizeOff: 0, sizeLen: -1, fixedLen: 32},
	{op: 0x53, sizeOff: 0, sizeLen: -1, fixedLen: 1},
	{op: 0xf3, sizeOff: 0, sizeLen: 1},
	{op: 0xfd, sizeOff: 0, sizeLen: 1},
	{op: 0xf0, sizeOff: 1, sizeLen: 2},
	{op: 0xf5, sizeOff: 1, sizeLen: 2, perWord: 6, lenPos: 2},
	{op: 0xa0, sizeOff: 0, sizeLen: 1, isLog: true, logN: 0},
	{op: 0xa1, sizeOff: 0, sizeLen: 1, isLog: true, logN: 1},
	{op: 0xa2, sizeOff: 0, sizeLen: 1, isLog: true, logN: 2},
	{op: 0xa3, sizeOff: 0, sizeLen: 1, isLog: true, logN: 3},
	{op: 0xa4, sizeOff: 0, sizeLen: 1, isLog: true, logN: 4},
}

// exact cost; ok=false when the operands do not describe a payable request at all
// (offset+length or the word count exceeds uint64, or the size exceeds the 0x1FFFFFFFE0 guard):
// then the implementation must fail.
func refCost(o refOp, st []*big.Int, memLen uint64, p26 bool) (cost *big.Int, mustFail bool) {
	mag := int64(1)
	if p26 {
		mag = 30
	}
	off := st[o.sizeOff]
	var ln *big.Int
	if o.sizeLen >= 0 {
		ln = st[o.sizeLen]
	} else {
		ln = big.NewInt(o.fixedLen)
	}
	size := big.NewInt(0)
	if ln.Sign() != 0 {
		size = new(big.Int).Add(off, ln)
	}
	if size.Cmp(maxU64) > 0 || ln.Cmp(maxU64) > 0 {
		return nil, true
	}
	if size.Cmp(new(big.Int).SetUint64(0x1FFFFFFFE0)) > 0 {
		return nil, true
	}
	total := memFeeBig(memLen, size, mag)
	if o.perWord > 0 {
		total.Add(total, new(big.Int).Mul(bigWords(st[o.lenPos]), big.NewInt(o.perWord)))
		total.Mul(total, big.NewInt(mag))
	}
	if o.isLog {
		total.Add(total, big.NewInt(375+375*o.logN))
		total.Add(total, new(big.Int).Mul(ln, big.NewInt(8)))
		total.Mul(total, big.NewInt(mag))
	}
	if total.Cmp(maxU64) > 0 {
		return total, true
	}
	return total, false
}

func searchDynGas(r *hx.Rng, n int) (evals int) {
	for i := 0; i < n; i++ {
		cfg := pickCfg(r)
		setConfig(cfg)
		o := refOps[r.Intn(len(refOps))]
		t := vm.VerifC11Table(blockNumber)
		if !t[o.op].Defined {
			continue
		}
		k := t[o.op].MinStack
		st := make([]*big.Int, k)
		us := make([]uint256.Int, k)
		for j := 0; j < k; j++ {
			switch r.Intn(6) {
			case 0:
				st[j] = new(big.Int).SetUint64(uint64(0x1FFFFFFFE0) - uint64(r.Intn(1<<22))*32)
			case 1: // around the point where fee*900 crosses 2^64
				st[j] = new(big.Int).SetUint64(uint64(103662925824) + uint64(r.Intn(4096)) - 2048)
			case 2:
				st[j] = big.NewInt(int64(r.Intn(100)))
			default:
				st[j] = memArg(r)
			}
			us[j] = u256(st[j])
			st[j] = us[j].ToBig()
		}
		memLen := uint64(32 * r.Pick(0, 0, 0, 1, 2, 33, 1024, 12097))
		w := memLen / 32
		last := 3*w + w*w/512
		status, gas, memSize := vm.VerifC11DynGas(blockNumber, o.op, us, memLen, last, ^uint64(0))
		evals++
		ref, mustFail := refCost(o, st, memLen, cfg&16 != 0)
		strs := make([]string, k)
		for j := range st {
			strs[j] = st[j].Text(16)
		}
		replay := map[string]interface{}{"call": "vm.VerifC11DynGas", "cfg": cfg, "op": o.op, "stack_top_first_hex": strs, "memLen": memLen, "lastGasCost": last,
			"observed": fmt.Sprintf("%s gas=%d memSize=%d", status, gas, memSize)}
		if mustFail {
			if status == "ok" {
				exact := "n/a"
				if ref != nil {
					exact = ref.String()
				}
				replay["exact_cost"] = exact
				key := "dyngas-accepts-unpayable-request"
				if ref != nil {
					key = "magnification-overflow-underprices-memory"
				}
				report(key, fmt.Sprintf("op 0x%02x priced at %d gas for growing memory to %d bytes; exact cost %s does not fit uint64", o.op, gas, memSize, exact), replay)
			}
			continue
		}
		if status != "ok" {
			replay["exact_cost"] = ref.String()
			report("dyngas-rejects-payable-request", fmt.Sprintf("op 0x%02x fails (%s) although the exact cost %s fits", o.op, status, ref), replay)
			continue
		}
		if new(big.Int).SetUint64(gas).Cmp(ref) != 0 {
			replay["exact_cost"] = ref.String()
			key := "dyngas-differs-from-exact-fee"
			if new(big.Int).SetUint64(gas).Cmp(ref) < 0 {
				key = "memory-growth-underpriced"
			}
			report(key, fmt.Sprintf("op 0x%02x charged %d, exact fee %s", o.op, gas, ref), replay)
		}
	}
	return
}

func searchPrecompiles(g *gen, n int) (evals int) {
	for i := 0; i < n; i++ {
		addr := 1 + g.r.Intn(18)
		if g.r.Chance(1, 4) {
			addr = 5
		}
		in := g.precompileInput(addr)
		p := rawPrecompiles[precompileAddr(addr)]
		t0 := time.Now()
		res := hx.Guard(func() string {
			gas := p.RequiredGas(in)
			if gas > 3000000 { // what a 9e8-gas transaction can pay for; avoids hour-long modexp
				return "skip"
			}
			_, err := p.Run(in)
			if err != nil {
				return "err"
			}
			return "ok"
		})
		evals++
		if strings.HasPrefix(res, "PANIC") {
			report("precompile-"+fmt.Sprint(addr)+"-"+panicKey(res), "precompile "+fmt.Sprint(addr)+" panicked: "+res, map[string]interface{}{"precompile": addr, "input": hexTok(in)})
		}
		if d := time.Since(t0); d > 30*time.Second {
			report("precompile-slow", fmt.Sprintf("precompile %d took %s", addr, d), map[string]interface{}{"precompile": addr, "input": hexTok(in)})
		}
	}
	return
}

func checkRun(kind string, s spec, res string, dur time.Duration) {
	replay := map[string]interface{}{"kind": s.kind, "cfg": s.cfg, "gas": s.gas, "value": s.value.Text(16), "code": hexTok(s.code), "input": hexTok(s.input), "aux": hexTok(s.aux), "aux2": hexTok(s.aux2), "observed": res,
		"corpus_line": fmt.Sprintf("C %d %d %s %s %s %s %s", s.cfg, s.gas, hexTok(s.value.Bytes()), hexTok(s.code), hexTok(s.input), hexTok(s.aux), hexTok(s.aux2))}
	if strings.HasPrefix(res, "PANIC") {
		report(panicKey(res), "running "+kind+" program panicked: "+res, replay)
		return
	}
	if obs != nil {
		replay["steps"] = obs.steps
		for _, v := range obs.viol {
			kv := strings.SplitN(v, "|", 2)
			report(kv[0], "per-step oracle on the real interpreter loop: "+kv[1], replay)
		}
	}
	f := strings.Fields(res)
	if len(f) < 2 {
		report("unparsable-result", res, replay)
		return
	}
	var left uint64
	fmt.Sscan(f[1], &left)
	if left > s.gas {
		report("gas-left-exceeds-gas-in", fmt.Sprintf("gas left %d > gas supplied %d (%s)", left, s.gas, f[0]), replay)
	}
	switch f[0] {
	case "ok", "revert", "depth", "insufficient-balance", "code-store-oog":
	default:
		if strings.HasPrefix(f[0], "err:") {
			report("unexpected-error-kind", "call failed with an error outside the EVM error set: "+f[0], replay)
		}
		if left != 0 {
			report("failed-call-keeps-gas", fmt.Sprintf("call failed with %s but %d gas is left", f[0], left), replay)
		}
	}
	// generous: 5 s + 1 µs per unit of gas
	if dur > 5*time.Second+time.Duration(s.gas/1000)*time.Millisecond {
		report("execution-too-slow", fmt.Sprintf("%s for %d gas", dur, s.gas), replay)
	}
}

func searchMain(a map[string]string) {
	limitAddressSpace()
	r := hx.NewRng(hx.SeedFromEnv() ^ 0x5ea7c4)
	g := &gen{r: r, ops: definedOps()}
	setConfig(63)
	g.table = vm.VerifC11Table(blockNumber)
	n := hx.ArgInt(a, "n", 4000)
	out, _ := hx.NewOut(os.DevNull, os.DevNull)
	stats := map[string]int{}
	evals := 0
	distinct := map[string]bool{}
	sampled := 0

	runSpec := func(kind string, s spec) {
		t0 := time.Now()
		res := doSpec(out, s, stats)
		evals++
		distinct[kind+hexTok(s.code)+hexTok(s.input)+fmt.Sprint(s.gas, s.cfg)] = true
		checkRun(kind, s, res, time.Since(t0))
		if sampled < 4 && r.Chance(1, 50) {
			sampled++
			fmt.Printf("SAMPLE %s cfg=%d gas=%d code=%s -> %s\n", kind, s.cfg, s.gas, hexTok(s.code), res)
		}
	}
	specs, _ := loadCorpus(os.Getenv("VERIF_CORPUS"))
	for _, s := range specs {
		runSpec("corpus", s)
	}
	// deterministic small-scope families first, random programs afterwards (hardening class 8)
	arityFamily(hx.ArgInt(a, "arity", 1) > 1, hx.SeedFromEnv(), func(ctx string, s spec) {
		runSpec("arity-"+ctx, s)
	})
	jumpFamilies(hx.ArgInt(a, "arity", 1) > 1, hx.SeedFromEnv(), func(name string, s spec) {
		runSpec(name, s)
	})
	// the two hard limits, tested directly
	for _, cfg := range []int{32, 1 | 2 | 8 | 32, 63} {
		for _, k := range []int{1024, 1025} {
			a := &asm{}
			for i := 0; i < k; i++ {
				a.pushU(1)
			}
			a.op(0x00)
			sp := spec{kind: "C", cfg: cfg, gas: 10000000, value: big.NewInt(0), code: a.bytes(), to: target}
			res := doSpec(out, sp, stats)
			evals++
			if k == 1025 && strings.HasPrefix(res, "ok") {
				report("stack-exceeds-1024", "a program that pushes 1025 words ran to completion", map[string]interface{}{"cfg": cfg, "code": "6001 x1025 00", "observed": res})
			}
			if k == 1024 && !strings.HasPrefix(res, "ok") {
				report("stack-limit-below-1024", "a program that pushes 1024 words failed", map[string]interface{}{"cfg": cfg, "code": "6001 x1024 00", "observed": res})
			}
		}
		code, _, _ := g.progDeep()
		sp := spec{kind: "C", cfg: cfg, gas: uint64(1) << 62, value: big.NewInt(0), code: code, to: target}
		doSpec(out, sp, stats)
		evals++
		frames := 0
		for _, e := range cur.tape {
			if strings.HasPrefix(e, "gh:") { // one per frame that gets to run code
				frames++
			}
		}
		if frames > 1025 {
			report("depth-exceeds-1024", fmt.Sprintf("self-recursive CALL ran %d nested frames (EVM depth 0..1024 allows 1025)", frames), map[string]interface{}{"cfg": cfg, "code": hexTok(code), "gas": "2^62"})
		}
		if frames < 1025 {
			report("depth-limit-below-1024", fmt.Sprintf("self-recursive CALL with 2^62 gas ran only %d nested frames", frames), map[string]interface{}{"cfg": cfg, "code": hexTok(code), "gas": "2^62"})
		}
	}
	// directed boundary probe: MODEXP whose exponent length is 2^62 is priced at 8*(2^62-32)/20 = 1.8e18 gas;
	// with 2^63 gas supplied it is payable and Run asks Go for a 2^62-byte buffer
	{
		in := make([]byte, 96)
		in[31], in[95] = 1, 1
		in[56] = 0x40 // expLen = 2^62
		sp := spec{kind: "C", cfg: 63, gas: uint64(1) << 63, value: big.NewInt(0), input: in, to: precompileAddr(5)}
		res := doSpec(out, sp, stats)
		evals++
		if strings.HasPrefix(res, "PANIC") {
			report("modexp-operand-alloc-panics-above-1e18-gas", "top-level call to 0x05 with 2^63 gas and header (baseLen 1, expLen 2^62, modLen 1): "+res,
				map[string]interface{}{"to": "0x05", "gas": "2^63", "input": hexTok(in), "observed": res})
		}
	}
	for i := 0; i < n; i++ {
		cfg := pickCfg(r)
		gas := pickGas(r)
		if r.Chance(1, 20) {
			gas = uint64(1) << uint(20+r.Intn(6))
		}
		value := big.NewInt(0)
		if r.Chance(1, 8) {
			value = big.NewInt(int64(r.Intn(1000)))
		}
		var code, input, aux, aux2 []byte
		kind := ""
		switch k := r.Intn(23); {
		case k >= 20:
			kind = "nested-static"
			code, input, aux, aux2 = g.progNestedStatic()
			if gas < 300000 {
				gas = 3000000
			}
			if r.Chance(1, 2) {
				cfg |= 2
			}
		case k < 5:
			kind = "one-op"
			code, input, aux = g.progOneOp()
		case k < 8:
			kind = "sequence"
			code, input, aux = g.progSequence()
		case k < 12:
			kind = "random-bytes"
			code, input, aux = g.progRandomBytes()
		case k < 13:
			kind = "loop"
			code, input, aux = g.progLoop()
		case k < 14:
			kind = "stack-edge"
			code, input, aux = g.progStackEdge()
		case k < 16:
			kind = "calls"
			code, input, aux = g.progCalls()
		case k < 18:
			kind = "create"
			code, input, aux = g.progCreate()
		default:
			kind = "custom"
			code, input, aux = g.progCustom()
			cfg |= 1 | 2
		}
		if r.Chance(1, 10) {
			runSpec("top-create", spec{kind: "K", cfg: cfg, gas: gas, value: value, code: code, aux: aux})
		} else {
			runSpec(kind, spec{kind: "C", cfg: cfg, gas: gas, value: value, code: code, input: input, aux: aux, aux2: aux2, to: target})
		}
	}
	// directed probe of the caller of the EVM: does the contract executor's gas cap hold when the
	// intrinsic gas of a (huge) call-data exceeds the cap?
	evals += probeExecutorGasCap()
	evals += searchPrecompiles(g, n/2)
	evals += searchDynGas(r, n*3)
	keys := []string{}
	for k, v := range findings {
		keys = append(keys, fmt.Sprintf("%q:%d", k, v))
	}
	fmt.Printf("SEARCH {\"evaluations\":%d,\"distinct\":%d,\"finding_classes\":{%s}}\n", evals, len(distinct)+n/2+n*3, strings.Join(keys, ","))
}

type chainStub struct{}

func (chainStub) GetBlockHash(h uint64) common.Hash { return common.Hash{} }

// contractExecutor.Execute with a transaction whose call data is so large that IntrinsicGas (magnified
// by 30 under Proposal026) exceeds the 9e8 cap: the check `GasLimit < intrinsicGas` uses the uncapped
// limit, then `vmCtx.GasLimit = gasLimit - intrinsicGas` is computed on the capped one.
func probeExecutorGasCap() int {
	setConfig(63)
	c := &common.LocalChainConfig
	c.Proposal017Block = 0
	ex := executor.GetTxExecutor(types.TransactionTypeContract)
	if ex == nil {
		return 0
	}
	// callee: return the gas it sees (GAS PUSH1 0 MSTORE PUSH1 32 PUSH1 0 RETURN)
	code := []byte{0x5a, 0x60, 0x00, 0x52, 0x60, 0x20, 0x60, 0x00, 0xf3}
	w := newWorld(code, nil)
	data := make([]byte, 1900000)
	for i := range data {
		data[i] = 1
	}
	intrinsic, _ := executor.IntrinsicGas(data, false)
	raw := &executor.ContractRawData{GasLimit: intrinsic + 1000, TransferValue: big.NewInt(0), AbiData: data}
	tx := &types.Transaction{Source: "0x" + ha(origin), Target: "0x" + ha(target), Type: types.TransactionTypeContract}
	header := &types.BlockHeader{Height: 3000, CurTime: time.Unix(1700000000, 0), Castor: coinbase.Bytes()}
	ctx := map[string]interface{}{"contractData": raw, "chain": chainStub{}}
	res := hx.Guard(func() string {
		ok, msg := ex.Execute(tx, header, w.adb, ctx)
		if len(msg) > 200 {
			msg = msg[:200]
		}
		return fmt.Sprintf("%v %s gasUsed=%v", ok, msg, ctx["gasUsed"])
	})
	m := regexp.MustCompile(`"result":"0x([0-9a-f]{64})"`).FindStringSubmatch(res)
	if m != nil {
		seen, _ := new(big.Int).SetString(m[1], 16)
		if seen.Cmp(big.NewInt(900000000)) > 0 {
			report("executor-gas-cap-underflow", fmt.Sprintf("contractExecutor.Execute with %d bytes of call data (intrinsic gas %d > cap 900000000) and gas limit %d ran the callee with %s gas", len(data), intrinsic, raw.GasLimit, seen.String()),
				map[string]interface{}{"call": "executor.GetTxExecutor(200).Execute", "abiData": "1900000 x 0x01", "gasLimit": raw.GasLimit, "callee_code": "5a60005260206000f3", "observed": res})
		}
	}
	return 1
}
