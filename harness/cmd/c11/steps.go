package main

// Per-iteration observer of the REAL interpreter loop (hook H7-c11, vm.VerifC11StepHook):
// the trace-level oracle of the searcher and the step statistics of the correspondence run.
//   * gas never increases from one iteration of a frame to the next (also across a nested call);
//   * the gas paid between two iterations covers the exact quadratic fee of the memory grown;
//   * stack height <= 1024, memory a multiple of 32 and never shrinking, evm.depth <= 1025.

import (
	"fmt"

	"com.tuntun.rangers/node/src/common"
	"com.tuntun.rangers/node/src/vm"
)

type frameRec struct {
	code    []byte // the code this frame runs, when the harness knows it (nil = unknown)
	static  bool // entered through STATICCALL, or a descendant of such a frame (from the call structure)
	lastGas uint64
	lastMem int
	lastOp  byte
	lastPc  uint64
}

type stepObs struct {
	frames   []frameRec // index = depth-1
	steps    int
	maxStack int
	maxDepth int
	viol     []string // "key|description"
	topCode     []byte // code of the outermost frame
	pendingCode []byte // last answer of StateDB.GetCode
	staticWriteFaults int // write opcodes met at an iteration head inside a static frame
	authcallFrames    int // frames started by AUTHCALL
}

var obs *stepObs

func cmemU(w uint64) uint64 { return 3*w + w*w/512 }

func (o *stepObs) add(key, desc string) {
	if len(o.viol) < 8 {
		o.viol = append(o.viol, key+"|"+desc)
	}
}

func (o *stepObs) step(depth int, pc uint64, op byte, gas uint64, stackLen int, memLen int) {
	o.steps++
	if stackLen > o.maxStack {
		o.maxStack = stackLen
	}
	if depth > o.maxDepth {
		o.maxDepth = depth
	}
	if depth > 1025 {
		o.add("depth-exceeds-1024", fmt.Sprintf("a frame runs at evm.depth %d", depth))
	}
	if stackLen > 1024 {
		o.add("stack-exceeds-1024", fmt.Sprintf("stack height %d before op 0x%02x at pc %d", stackLen, op, pc))
	}
	if memLen%32 != 0 {
		o.add("memory-unaligned", fmt.Sprintf("memory length %d", memLen))
	}
	if depth <= 0 {
		return
	}
	if depth <= len(o.frames) && o.frames[depth-1].static && isWriteOp(op) {
		o.staticWriteFaults++
	}
	if depth > len(o.frames) {
		// a new frame (possibly several levels if empty-code frames were skipped: not possible, Run observes every level)
		for len(o.frames) < depth {
			st := false
			if n := len(o.frames); n > 0 {
				st = o.frames[n-1].static || o.frames[n-1].lastOp == 0xfa
				if o.frames[n-1].lastOp == 0xf7 {
					o.authcallFrames++
				}
			}
			var code []byte
			if n := len(o.frames); n == 0 {
				code = o.topCode
			} else if lo := o.frames[n-1].lastOp; lo == 0xf1 || lo == 0xf2 || lo == 0xf4 || lo == 0xfa || lo == 0xf7 {
				code = o.pendingCode // what StateDB.GetCode answered for the callee
			}
			// attribution check: the byte at pc must be the opcode being executed
			if code != nil && !(int(pc) < len(code) && code[pc] == op || int(pc) >= len(code) && op == 0) {
				code = nil
			}
			o.frames = append(o.frames, frameRec{code: code, static: st, lastGas: gas, lastMem: memLen, lastOp: op, lastPc: pc})
		}
		return
	}
	if depth < len(o.frames) {
		o.frames = o.frames[:depth]
	}
	f := &o.frames[depth-1]
	if f.code != nil {
		if !(int(pc) < len(f.code) && f.code[pc] == op || int(pc) >= len(f.code) && op == 0) {
			f.code = nil // lost track of this frame's code: no jump oracle for it
		} else if f.lastOp == 0x56 || (f.lastOp == 0x57 && pc != f.lastPc+1) {
			// a taken JUMP / JUMPI: the landing pc must be a JUMPDEST outside PUSH data, by the harness's own scan
			if !refValidJumpdest(f.code, pc) {
				o.add("jump-lands-on-invalid-destination", fmt.Sprintf("depth %d: op 0x%02x at pc %d jumped to pc %d, which is not a JUMPDEST of this %d-byte code (own analysis)", depth, f.lastOp, f.lastPc, pc, len(f.code)))
			}
		}
	}
	if f.static && isWriteOp(f.lastOp) {
		o.add("write-op-survives-static", fmt.Sprintf("depth %d: op 0x%02x at pc %d ran inside a STATICCALL context and the frame went on", depth, f.lastOp, f.lastPc))
	}
	if gas > f.lastGas {
		o.add("gas-increases-within-frame", fmt.Sprintf("depth %d: gas %d before op 0x%02x at pc %d, %d one iteration later", depth, f.lastGas, f.lastOp, f.lastPc, gas))
	}
	if memLen < f.lastMem {
		o.add("memory-shrinks", fmt.Sprintf("memory %d -> %d", f.lastMem, memLen))
	} else if memLen > f.lastMem && memLen%32 == 0 && f.lastMem%32 == 0 && memLen <= 1<<34 {
		mag := uint64(1)
		if common.IsProposal026() {
			mag = 30
		}
		fee := (cmemU(uint64(memLen)/32) - cmemU(uint64(f.lastMem)/32)) * mag
		if gas > f.lastGas || f.lastGas-gas < fee {
			o.add("memory-growth-underpaid", fmt.Sprintf("depth %d op 0x%02x at pc %d grew memory %d -> %d (exact fee %d) for %d gas", depth, f.lastOp, f.lastPc, f.lastMem, memLen, fee, int64(f.lastGas)-int64(gas)))
		}
	}
	f.lastGas, f.lastMem, f.lastOp, f.lastPc = gas, memLen, op, pc
}

func installStepHook() {
	vm.VerifC11StepHook = func(depth int, pc uint64, op byte, gas uint64, stackLen int, memLen int) {
		if obs != nil {
			obs.step(depth, pc, op, gas, stackLen, memLen)
		}
	}
}

// SSTORE, LOG0-4, CREATE, CREATE2, SELFDESTRUCT, TSTORE (a value-bearing CALL is seen through the StateDB)
func isWriteOp(op byte) bool {
	return op == 0x55 || (op >= 0xa0 && op <= 0xa4) || op == 0xf0 || op == 0xf5 || op == 0xff || op == 0x5d
}

// is the frame that is executing now inside a STATICCALL, judged from the call structure only
func (o *stepObs) insideStatic() bool {
	n := len(o.frames)
	if n == 0 {
		return false
	}
	return o.frames[n-1].static
}

// independent reference: is pos the position of a JUMPDEST opcode (not PUSH data) in code
func refValidJumpdest(code []byte, pos uint64) bool {
	if pos >= uint64(len(code)) || code[pos] != 0x5b {
		return false
	}
	for i := uint64(0); i < uint64(len(code)); {
		if i == pos {
			return true
		}
		if b := code[i]; b >= 0x60 && b <= 0x7f {
			i += uint64(b-0x5f) + 1
		} else {
			i++
		}
		if i > pos {
			return false
		}
	}
	return false
}
