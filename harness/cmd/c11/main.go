// c11: correspondence harness and searcher for property C11
// (EVM execution is total and resource-bounded).
//
// mode=corr (default)  writes op lines (ops=) and the implementation's answers (obs=)
//                      for the Lean driver drv_c11 to replay;
// mode=search          direct property oracle on the implementation (no model):
//                      no panic, gasLeft <= gasIn, wall clock, memory fee >= the exact
//                      quadratic fee of the bytes grown; prints FINDING lines.
// All randomness derives from VERIF_SEED.
package main

import (
	"bufio"
	"encoding/hex"
	"fmt"
	"io/ioutil"
	"math/big"
	"os"
	"path/filepath"
	"sort"
	"strconv"
	"strings"
	"time"

	"com.tuntun.rangers/node/src/common"
	crypto "com.tuntun.rangers/node/src/eth_crypto"
	"com.tuntun.rangers/node/src/executor"
	"com.tuntun.rangers/node/src/vm"
	"github.com/holiman/uint256"
	"verif/harness/hx"
	"verif/harness/hxnode"
)

// ---- tiny assembler

type asm struct{ b []byte }

func (a *asm) op(ops ...byte) *asm { a.b = append(a.b, ops...); return a }
func (a *asm) push(v *big.Int) *asm {
	bs := v.Bytes()
	if len(bs) == 0 {
		bs = []byte{0}
	}
	if len(bs) > 32 {
		bs = bs[len(bs)-32:]
	}
	a.b = append(a.b, byte(0x5f+len(bs)))
	a.b = append(a.b, bs...)
	return a
}
func (a *asm) pushU(v uint64) *asm  { return a.push(new(big.Int).SetUint64(v)) }
func (a *asm) pushB(b []byte) *asm  { return a.push(new(big.Int).SetBytes(b)) }
func (a *asm) bytes() []byte        { return a.b }
func (a *asm) storeTopAndReturn() { // MSTORE top at 0, RETURN 32 bytes
	a.pushU(0).op(0x52).pushU(32).pushU(0).op(0xf3)
}

var two = big.NewInt(2)

func pow2(k uint) *big.Int { return new(big.Int).Lsh(big.NewInt(1), k) }

// boundary lattice for operands
func lattice(r *hx.Rng) *big.Int {
	ks := []uint{7, 8, 15, 16, 31, 32, 63, 64, 127, 128, 160, 255}
	switch r.Intn(12) {
	case 0:
		return big.NewInt(0)
	case 1:
		return big.NewInt(1)
	case 2:
		return big.NewInt(int64(r.Intn(300)))
	case 3:
		return new(big.Int).Sub(pow2(256), big.NewInt(int64(1+r.Intn(3))))
	case 4, 5:
		k := ks[r.Intn(len(ks))]
		return new(big.Int).Add(pow2(k), big.NewInt(int64(r.Intn(3)-1)))
	case 6:
		return pow2(255)
	case 7:
		return new(big.Int).SetBytes(r.Bytes(32))
	case 8:
		return new(big.Int).SetBytes(r.Bytes(1 + r.Intn(8)))
	case 9:
		return big.NewInt(int64(32 * r.Intn(40)))
	default:
		return big.NewInt(int64(r.Intn(100000)))
	}
}

// sizes/offsets that are affordable most of the time, boundary-biased
func memArg(r *hx.Rng) *big.Int {
	switch r.Intn(14) {
	case 0:
		return big.NewInt(0)
	case 1:
		return big.NewInt(1)
	case 2:
		return big.NewInt(31)
	case 3:
		return big.NewInt(32)
	case 4:
		return big.NewInt(33)
	case 5:
		return big.NewInt(int64(r.Intn(4096)))
	case 6:
		return big.NewInt(int64(r.Intn(1 << 17)))
	case 7:
		return new(big.Int).SetUint64(0x1FFFFFFFE0 + uint64(r.Intn(3)) - 1)
	case 8:
		return new(big.Int).SetUint64(^uint64(0) - uint64(r.Intn(40)))
	case 9:
		return pow2(64)
	case 10:
		return new(big.Int).Sub(pow2(256), big.NewInt(1))
	case 11:
		return new(big.Int).SetUint64(uint64(1)<<32 - uint64(r.Intn(3)))
	default:
		return big.NewInt(int64(r.Intn(256)))
	}
}

var gasChoices = []uint64{0, 1, 2, 3, 20, 100, 699, 700, 2300, 9000, 21000, 32000, 53000, 100000, 1000000, 10000000}

func pickGas(r *hx.Rng) uint64 {
	switch r.Intn(10) {
	case 0, 1, 2:
		return gasChoices[r.Intn(len(gasChoices))]
	case 3:
		return uint64(r.Intn(5000))
	case 4:
		return uint64(r.Intn(200000))
	default:
		return []uint64{100000, 1000000, 3000000}[r.Intn(3)]
	}
}

// consistent fork configurations (what a chain height can produce) most of the time,
// any of the 64 combinations otherwise
func pickCfg(r *hx.Rng) int {
	if r.Chance(3, 4) {
		// prefixes by height: 014 < 015 < 022 < 026 ; nonce bump is on after 007
		return []int{0 | 32, 1 | 32, 1 | 8 | 32, 1 | 2 | 8 | 32, 1 | 2 | 4 | 8 | 16 | 32, 1 | 2 | 4 | 8 | 16 | 32, 1 | 2 | 8}[r.Intn(7)]
	}
	return r.Intn(64)
}

// opcodes defined in some configuration
func definedOps() []byte {
	var ops []byte
	setConfig(1 | 2 | 4 | 8 | 16 | 32)
	t := vm.VerifC11Table(blockNumber)
	for i := 0; i < 256; i++ {
		if t[i].Defined {
			ops = append(ops, byte(i))
		}
	}
	return ops
}

type gen struct {
	r     *hx.Rng
	ops   []byte
	table [256]vm.VerifC11Op
}

// --- program generators (each returns code for `target`, call data, aux code)

// one opcode with boundary operands, result stored and returned
func (g *gen) progOneOp() ([]byte, []byte, []byte) {
	r := g.r
	op := g.ops[r.Intn(len(g.ops))]
	info := g.table[op]
	a := &asm{}
	// some memory / return data to work with
	if r.Chance(1, 2) {
		a.push(lattice(r)).pushU(uint64(32 * r.Intn(3))).op(0x52)
	}
	n := info.MinStack
	if r.Chance(1, 12) && n > 0 {
		n-- // underflow
	}
	isMemOp := info.MemorySize != ""
	for i := 0; i < n; i++ {
		if isMemOp || op >= 0xf0 {
			if r.Chance(2, 3) {
				a.push(memArg(r))
			} else {
				a.push(lattice(r))
			}
		} else if op == 0x56 || op == 0x57 {
			a.pushU(uint64(r.Intn(40)))
		} else {
			a.push(lattice(r))
		}
	}
	a.op(op)
	if op >= 0x60 && op <= 0x7f { // push data (maybe truncated)
		k := int(op) - 0x5f
		if r.Chance(1, 3) {
			k = r.Intn(k + 1)
			a.op(r.Bytes(k)...)
			return a.bytes(), r.Bytes(r.Intn(40)), g.auxProg()
		}
		a.op(r.Bytes(k)...)
	}
	if r.Chance(1, 6) {
		a.op(0x5b)
	}
	a.op(0x5a) // GAS
	a.storeTopAndReturn()
	return a.bytes(), r.Bytes(r.Intn(70)), g.auxProg()
}

func (g *gen) auxProg() []byte {
	r := g.r
	a := &asm{}
	switch r.Intn(9) {
	case 0:
		return nil
	case 1: // return 64 bytes of data
		a.push(lattice(r)).pushU(0).op(0x52).pushU(uint64(r.Intn(70))).pushU(0).op(0xf3)
	case 2: // revert with data
		a.push(lattice(r)).pushU(0).op(0x52).pushU(uint64(r.Intn(40))).pushU(0).op(0xfd)
	case 3: // burn gas forever
		a.op(0x5b).pushU(0).op(0x56)
	case 4: // store and log
		a.pushU(7).pushU(1).op(0x55).pushU(1).op(0x54).pushU(0).op(0x52).pushU(9).pushU(3).pushU(32).pushU(0).op(0xa2).op(0x00)
	case 5: // invalid
		a.op(0xfe)
	case 6: // selfdestruct to origin
		a.pushB(origin.Bytes()).op(0xff)
	case 7: // call back into target with all gas
		a.pushU(0).pushU(0).pushU(0).pushU(0).pushU(0).pushB(target.Bytes()).op(0x5a).op(0xf1).op(0x00)
	default: // echo call data
		a.op(0x36).pushU(0).pushU(0).op(0x37).op(0x36).pushU(0).op(0xf3)
	}
	return a.bytes()
}

// random straight-line / branching sequences over all defined opcodes, stack aware
func (g *gen) progSequence() ([]byte, []byte, []byte) {
	r := g.r
	a := &asm{}
	depth := 0
	n := 3 + r.Intn(40)
	for i := 0; i < n; i++ {
		op := g.ops[r.Intn(len(g.ops))]
		info := g.table[op]
		if info.Halts || info.Reverts || op == 0x56 || op == 0x57 {
			if !r.Chance(1, 10) {
				continue
			}
		}
		for depth < info.MinStack {
			if info.MemorySize != "" || op >= 0xf0 {
				a.pushU(uint64(r.Intn(200)))
			} else {
				a.push(lattice(r))
			}
			depth++
		}
		a.op(op)
		if op >= 0x60 && op <= 0x7f {
			a.op(r.Bytes(int(op) - 0x5f)...)
		}
		depth = depth - info.MinStack + (1024 + info.MinStack - info.MaxStack)
		if depth < 0 {
			depth = 0
		}
	}
	if depth > 0 {
		if r.Chance(1, 5) { // end by REVERT with the top of the stack as data
			a.pushU(0).op(0x52).pushU(uint64(r.Intn(40))).pushU(0).op(0xfd)
		} else {
			a.storeTopAndReturn()
		}
	}
	return a.bytes(), r.Bytes(r.Intn(40)), g.auxProg()
}

func (g *gen) progRandomBytes() ([]byte, []byte, []byte) {
	r := g.r
	n := r.Intn(80)
	if r.Chance(1, 10) {
		n = 200 + r.Intn(2000)
	}
	code := r.Bytes(n)
	if r.Chance(1, 2) { // opcode-weighted: replace most bytes by defined opcodes
		for i := range code {
			if r.Chance(3, 4) {
				code[i] = g.ops[r.Intn(len(g.ops))]
			}
		}
	}
	return code, r.Bytes(r.Intn(40)), g.auxProg()
}

// straight-line programs over operations that touch neither memory (beyond word 0) nor other
// frames: safe to run with astronomically large gas (2^63, 2^64-1), where a loop or a priced
// 100 GiB expansion would never finish
func (g *gen) progPureSeq() ([]byte, []byte, []byte) {
	r := g.r
	a := &asm{}
	depth := 0
	n := 3 + r.Intn(30)
	for i := 0; i < n; i++ {
		op := g.ops[r.Intn(len(g.ops))]
		info := g.table[op]
		if info.MemorySize != "" || op >= 0xf0 || info.Halts || info.Reverts || op == 0x56 || op == 0x57 || op == 0x20 || op == 0x0a {
			continue
		}
		for depth < info.MinStack {
			a.push(lattice(r))
			depth++
		}
		a.op(op)
		if op >= 0x60 && op <= 0x7f {
			a.op(r.Bytes(int(op) - 0x5f)...)
		}
		depth = depth - info.MinStack + (1024 + info.MinStack - info.MaxStack)
	}
	a.op(0x5a)
	a.storeTopAndReturn()
	return a.bytes(), r.Bytes(r.Intn(40)), nil
}

// loops that end by running out of gas or by a counter
func (g *gen) progLoop() ([]byte, []byte, []byte) {
	r := g.r
	a := &asm{}
	switch r.Intn(5) {
	case 0: // JUMPDEST PUSH 0 JUMP
		a.op(0x5b).pushU(0).op(0x56)
	case 1: // counter loop with memory growth
		// i = N; loop: i-- ; mstore(i*32, i); if i jump
		a.pushU(uint64(1 + r.Intn(300)))
		loop := len(a.b)
		a.op(0x5b).pushU(1).op(0x90, 0x03) // SWAP1 SUB  -> i-1
		a.op(0x80, 0x80).pushU(32).op(0x02, 0x52) // DUP1 DUP1 32 MUL MSTORE
		a.op(0x80).pushU(uint64(loop)).op(0x57)
		a.op(0x59) // MSIZE
		a.storeTopAndReturn()
	case 2: // stack overflow: JUMPDEST PUSH1 0 ... loop pushing
		a.op(0x5b).pushU(1).pushU(0).op(0x56)
	case 3: // dup growth until 1024 then stop via overflow
		a.pushU(5).op(0x5b, 0x80, 0x80, 0x80).pushU(2).op(0x56)
	default: // free SSTORE run (pre-015) then stop
		k := 1 + r.Intn(50)
		for i := 0; i < k; i++ {
			a.pushU(uint64(i)).pushU(uint64(i % 3)).op(0x55)
		}
	}
	return a.bytes(), nil, g.auxProg()
}

// fill the stack to exactly n words (n around the 1024 limit), run one more opcode, stop:
// the only way to see WHERE the overflow check sits (a failing frame reports no gas)
func (g *gen) progStackEdge() ([]byte, []byte, []byte) {
	r := g.r
	a := &asm{}
	n := 1021 + r.Intn(6)
	if r.Chance(1, 2) {
		a.pushU(1)
		for i := 1; i < n; i++ {
			a.op(0x80) // DUP1
		}
	} else {
		for i := 0; i < n; i++ {
			a.pushU(uint64(i & 0xff))
		}
	}
	if r.Chance(2, 3) {
		op := []byte{0x80, 0x60, 0x90, 0x01, 0x50, 0x5b, 0x51, 0x58, 0x8f, 0x9f, 0x5f, 0x30, 0x19}[r.Intn(13)]
		a.op(op)
		if op == 0x60 {
			a.op(0x07)
		}
	}
	a.op(0x00)
	return a.bytes(), nil, nil
}

// one state-writing opcode with its operands
func (g *gen) writeOp(a *asm) string {
	r := g.r
	switch r.Intn(9) {
	case 0:
		a.pushU(uint64(1 + r.Intn(5))).pushU(uint64(r.Intn(3))).op(0x55)
		return "sstore"
	case 1:
		n := r.Intn(3)
		for i := 0; i < n; i++ {
			a.pushU(uint64(7 + i))
		}
		a.pushU(uint64(r.Intn(40))).pushU(0).op(byte(0xa0 + n))
		return "log"
	case 2:
		a.pushU(0).pushU(0).pushU(0).op(0xf0)
		return "create"
	case 3:
		a.pushU(uint64(r.Intn(9))).pushU(0).pushU(0).pushU(0).op(0xf5)
		return "create2"
	case 4:
		a.pushB(origin.Bytes()).op(0xff)
		return "selfdestruct"
	case 5:
		a.pushU(1).pushU(0).op(0x5d)
		return "tstore"
	case 6: // CALL with value
		a.pushU(0).pushU(0).pushU(0).pushU(0).pushU(uint64(1 + r.Intn(3))).pushB(emptyAcc.Bytes()).op(0x5a).op(0xf1)
		return "call-value"
	case 7: // CALLCODE with value (allowed in static context by the loop's test: no transfer happens to another account)
		a.pushU(0).pushU(0).pushU(0).pushU(0).pushU(1).pushB(emptyAcc.Bytes()).op(0x5a).op(0xf2)
		return "callcode-value"
	default: // CALL without value: not a write
		a.pushU(0).pushU(0).pushU(0).pushU(0).pushU(0).pushB(emptyAcc.Bytes()).op(0x5a).op(0xf1)
		return "call-novalue"
	}
}

// an inner call whose callee returns / stops / reverts (or has no code / does not exist / is a precompile)
func (g *gen) innerCall(a *asm, calleeHasCode bool) {
	r := g.r
	kind := []byte{0xfa, 0xfa, 0xf1, 0xf4, 0xf2}[r.Intn(5)]
	var to []byte
	switch r.Intn(6) {
	case 0:
		to = emptyAcc.Bytes()
	case 1:
		to = r.Bytes(20)
	case 2:
		to = precompileAddr(4).Bytes()
	default:
		if calleeHasCode {
			to = aux2Addr.Bytes()
		} else {
			to = emptyAcc.Bytes()
		}
	}
	a.pushU(uint64(r.Intn(40))).pushU(0).pushU(uint64(r.Intn(40))).pushU(0)
	if kind == 0xf1 || kind == 0xf2 {
		a.pushU(0)
	}
	a.pushB(to)
	if r.Chance(3, 4) {
		a.op(0x5a)
	} else {
		a.pushU(uint64(r.Intn(50000)))
	}
	a.op(kind).op(0x50) // POP the success flag
}

func (g *gen) leafProg() []byte {
	r := g.r
	a := &asm{}
	switch r.Intn(5) {
	case 0:
		a.op(0x00)
	case 1:
		a.pushU(0xabcd).pushU(0).op(0x52).pushU(uint64(r.Intn(40))).pushU(0).op(0xf3)
	case 2:
		a.pushU(uint64(r.Intn(33))).pushU(0).op(0xfd)
	case 3: // the leaf itself: inner static call to a code-less account, then a write
		a.pushU(0).pushU(0).pushU(0).pushU(0).pushB(emptyAcc.Bytes()).op(0x5a).op(0xfa).op(0x50)
		g.writeOp(a)
		a.op(0x00)
	default:
		a.op(0xfe)
	}
	return a.bytes()
}

// nested call structure with the write placed AFTER an inner call returned:
// target --(STATICCALL mostly)--> aux --(inner call)--> aux2/empty/fresh/precompile ; then aux writes.
// Whether a write must fail depends only on the call structure (any enclosing STATICCALL).
func (g *gen) progNestedStatic() (code, input, aux, aux2 []byte) {
	r := g.r
	// aux: k inner calls, then the write, then a visible continuation
	b := &asm{}
	if r.Chance(1, 4) {
		g.writeOp(b) // a write BEFORE any inner call too
	}
	k := 1 + r.Intn(2)
	for i := 0; i < k; i++ {
		g.innerCall(b, true)
	}
	nw := 1 + r.Intn(2)
	for i := 0; i < nw; i++ {
		g.writeOp(b)
	}
	b.pushU(0x600d).pushU(0).op(0x52).pushU(32).pushU(0).op(0xf3)
	aux = b.bytes()
	aux2 = g.leafProg()
	if r.Chance(1, 8) {
		// AUTH + AUTHCALL executed by the statically called contract
		aux, _, aux2 = g.progAuthLiveFor(auxAddr)
	}
	// target
	a := &asm{}
	if r.Chance(1, 3) {
		g.innerCall(a, true)
	}
	outer := []byte{0xfa, 0xfa, 0xfa, 0xf1, 0xf4}[r.Intn(5)]
	a.pushU(32).pushU(0).pushU(0).pushU(0)
	if outer == 0xf1 {
		a.pushU(0)
	}
	a.pushB(auxAddr.Bytes()).op(0x5a).op(outer)
	// after the outer static call returned, the non-static target may write again
	if r.Chance(1, 2) {
		g.writeOp(a)
	}
	a.op(0x5a)
	a.storeTopAndReturn()
	return a.bytes(), r.Bytes(r.Intn(10)), aux, aux2
}

// call-family and create programs
func (g *gen) progCalls() ([]byte, []byte, []byte) {
	r := g.r
	a := &asm{}
	// put some bytes in memory as call input
	a.push(lattice(r)).pushU(0).op(0x52)
	a.push(lattice(r)).pushU(32).op(0x52)
	if r.Chance(1, 6) {
		// a MODEXP header with boundary length words, then a call to 0x05 with all the gas
		for w := 0; w < 3; w++ {
			a.push(lenWord(r)).pushU(uint64(32 * w)).op(0x52)
		}
		a.pushU(uint64(r.Intn(70))).pushU(uint64(r.Intn(100))).pushU(uint64(96 + r.Intn(70))).pushU(0)
		kind := []byte{0xf1, 0xf2, 0xf4, 0xfa}[r.Intn(4)]
		if kind == 0xf1 || kind == 0xf2 {
			a.pushU(0)
		}
		a.pushU(5).op(0x5a).op(kind)
	}
	nCalls := 1 + r.Intn(3)
	for c := 0; c < nCalls; c++ {
		kind := []byte{0xf1, 0xf2, 0xf4, 0xfa}[r.Intn(4)]
		var to *big.Int
		switch r.Intn(7) {
		case 0:
			to = new(big.Int).SetBytes(target.Bytes()) // self recursion
		case 1, 2:
			to = new(big.Int).SetBytes(auxAddr.Bytes())
		case 3, 4:
			to = big.NewInt(int64(1 + r.Intn(18))) // precompile
		case 5:
			to = new(big.Int).SetBytes(emptyAcc.Bytes())
		default:
			to = new(big.Int).SetBytes(r.Bytes(20)) // non-existent
		}
		retSize := uint64(r.Intn(70))
		retOff := uint64(r.Intn(100))
		inSize := uint64(r.Intn(70))
		if r.Chance(1, 5) {
			inSize = uint64(r.Pick(128, 192, 213, 160, 288, 384, 96))
		}
		inOff := uint64(r.Intn(40))
		if r.Chance(1, 4) {
			inOff = 0
		}
		a.pushU(retSize).pushU(retOff).pushU(inSize).pushU(inOff)
		if kind == 0xf1 || kind == 0xf2 {
			if r.Chance(1, 3) {
				a.pushU(uint64(r.Intn(3000)))
			} else {
				a.pushU(0)
			}
		}
		a.push(to)
		switch r.Intn(5) {
		case 0:
			a.op(0x5a) // all gas
		case 1:
			a.pushU(uint64(r.Intn(5000)))
		case 2:
			a.push(lattice(r))
		case 3:
			a.pushU(0)
		default:
			a.pushU(uint64(r.Intn(200000)))
		}
		a.op(kind)
		// return data handling
		if r.Chance(1, 2) {
			a.op(0x3d).pushU(0).pushU(uint64(64 + r.Intn(32))).op(0x3e) // RETURNDATACOPY(size, 0, 64+)
		}
	}
	a.op(0x5a)
	a.storeTopAndReturn()
	return a.bytes(), r.Bytes(r.Intn(40)), g.auxProg()
}

func (g *gen) initCode() []byte {
	r := g.r
	a := &asm{}
	switch r.Intn(7) {
	case 0: // return k bytes of runtime code
		k := r.Intn(80)
		a.push(lattice(r)).pushU(0).op(0x52).pushU(uint64(k)).pushU(0).op(0xf3)
	case 1: // revert
		a.pushU(uint64(r.Intn(40))).pushU(0).op(0xfd)
	case 2: // random bytes
		return r.Bytes(r.Intn(50))
	case 3: // oversize code
		a.pushU(uint64(245760 + r.Intn(3) - 1)).pushU(0).op(0xf3)
	case 4: // nested create
		a.pushU(0).pushU(0).pushU(0).op(0xf0).op(0x00)
	case 5: // big but payable code
		a.pushU(uint64(r.Intn(3000))).pushU(0).op(0xf3)
	default: // sstore then return
		a.pushU(1).pushU(1).op(0x55).pushU(uint64(r.Intn(5))).pushU(0).op(0xf3)
	}
	return a.bytes()
}

func (g *gen) progCreate() ([]byte, []byte, []byte) {
	r := g.r
	a := &asm{}
	init := g.initCode()
	// copy init code from call data into memory: CALLDATACOPY(0,0,len)
	a.pushU(uint64(len(init))).pushU(0).pushU(0).op(0x37)
	times := 1 + r.Intn(2)
	for i := 0; i < times; i++ {
		if r.Chance(1, 2) {
			a.push(lattice(r)) // salt
			a.pushU(uint64(len(init))).pushU(0)
			if r.Chance(1, 4) {
				a.pushU(uint64(r.Intn(2000000)))
			} else {
				a.pushU(0)
			}
			a.op(0xf5)
		} else {
			a.pushU(uint64(len(init))).pushU(0)
			if r.Chance(1, 4) {
				a.pushU(uint64(r.Intn(2000000)))
			} else {
				a.pushU(0)
			}
			a.op(0xf0)
		}
		if r.Chance(1, 2) { // call what was created
			a.op(0x80) // DUP1 addr
			a.pushU(0).pushU(0).pushU(0).pushU(0).pushU(0).op(0x85).op(0x5a).op(0xf1).op(0x50)
		}
	}
	a.storeTopAndReturn()
	return a.bytes(), init, g.auxProg()
}

// deep self recursion: CALL self with all gas until the depth limit or the gas is gone
func (g *gen) progDeep() ([]byte, []byte, []byte) {
	a := &asm{}
	a.pushU(0).pushU(0).pushU(0).pushU(0).pushU(0).pushB(target.Bytes()).op(0x5a).op(0xf1)
	a.storeTopAndReturn()
	return a.bytes(), nil, nil
}

// AUTH with a real signature (EIP-3074 style), then AUTHCALL on behalf of the signer
func (g *gen) progAuthLive() ([]byte, []byte, []byte) {
	return g.progAuthLiveFor(target)
}

func (g *gen) progAuthLiveFor(invoker common.Address) ([]byte, []byte, []byte) {
	r := g.r
	a := &asm{}
	var key []byte
	wantZeroAddr := r.Chance(1, 5) // authority address with a leading zero byte (popAddress pads it)
	for tries := 0; ; tries++ {
		key = r.Bytes(32)
		k, err := crypto.ToECDSA(key)
		if err != nil {
			continue
		}
		if !wantZeroAddr || tries > 3000 || crypto.PubkeyToAddress(k.PublicKey)[0] == 0 {
			break
		}
	}
	prv, _ := crypto.ToECDSA(key)
	authority := crypto.PubkeyToAddress(prv.PublicKey)
	commit := r.Bytes(32)
	if r.Chance(1, 4) {
		commit = make([]byte, 32)
	}
	wantZeroSig := r.Chance(1, 4) // r or s with a leading zero byte (1/128 per signature)
	msg := make([]byte, 97)
	msg[0] = 0x03
	cid := common.GetChainId(blockNumber).Bytes()
	copy(msg[33-len(cid):33], cid)
	copy(msg[45:65], invoker.Bytes())
	copy(msg[65:], commit)
	hash := crypto.Keccak256(msg)
	signed := hash
	if r.Chance(1, 2) {
		signed = crypto.Keccak256([]byte("\x19Ethereum Signed Message:\n32"), hash)
	}
	sig, err := crypto.Sign(signed, prv)
	if err != nil {
		panic(err)
	}
	for tries := 0; wantZeroSig && tries < 3000 && sig[0] != 0 && sig[32] != 0; tries++ {
		commit = r.Bytes(32)
		copy(msg[65:], commit)
		hash = crypto.Keccak256(msg)
		signed = hash
		sig, _ = crypto.Sign(signed, prv)
	}
	if sig[0] == 0 || sig[32] == 0 {
		leadingZeroSigs++
	}
	if authority[0] == 0 {
		leadingZeroAddrs++
	}
	v := uint64(sig[64])
	if r.Chance(1, 2) {
		v += 27
	}
	auth := new(big.Int).SetBytes(authority.Bytes())
	switch r.Intn(9) {
	case 0: // wrong authority
		auth = new(big.Int).SetBytes(r.Bytes(20))
	case 1: // signature over something else
		sig[5] ^= 0x40
	case 2: // other recovery id
		v ^= 1
	}
	a.pushU(v).pushU(0).op(0x52)
	a.pushB(sig[0:32]).pushU(32).op(0x52)
	a.pushB(sig[32:64]).pushU(64).op(0x52)
	a.pushB(commit).pushU(96).op(0x52)
	a.pushU(128).pushU(0).push(auth).op(0xf6)
	n := 1 + r.Intn(2)
	for i := 0; i < n; i++ {
		// AUTHCALL: nonce, gas, addr, value, valueExt, argsOffset, argsLength, retOffset, retLength
		var to *big.Int
		switch r.Intn(5) {
		case 0:
			to = new(big.Int).SetBytes(auxAddr.Bytes())
		case 1:
			to = big.NewInt(int64(1 + r.Intn(18)))
		case 2:
			to = new(big.Int).SetBytes(r.Bytes(20))
		case 3:
			to = new(big.Int).SetBytes(target.Bytes())
		default:
			to = new(big.Int).SetBytes(emptyAcc.Bytes())
		}
		a.pushU(uint64(r.Intn(70))).pushU(uint64(128 + r.Intn(64))).pushU(uint64(r.Intn(70))).pushU(uint64(r.Intn(64)))
		if r.Chance(1, 8) {
			a.pushU(1) // valueExt != 0
		} else {
			a.pushU(0)
		}
		if r.Chance(1, 3) {
			a.pushU(uint64(r.Intn(2000)))
		} else {
			a.pushU(0)
		}
		a.push(to)
		if r.Chance(1, 2) {
			a.op(0x5a)
		} else {
			a.pushU(uint64(r.Intn(100000)))
		}
		nonce := uint64(i)
		if r.Chance(1, 5) {
			nonce = uint64(r.Intn(3))
		}
		a.pushU(nonce).op(0xf7)
		a.op(0x3d) // RETURNDATASIZE
		a.op(0x01)
	}
	a.op(0x5a)
	a.storeTopAndReturn()
	return a.bytes(), r.Bytes(r.Intn(20)), g.auxProg()
}

// AUTH / AUTHCALL and the staking opcodes
func (g *gen) progCustom() ([]byte, []byte, []byte) {
	r := g.r
	if r.Chance(1, 2) {
		return g.progAuthLive()
	}
	a := &asm{}
	switch r.Intn(6) {
	case 0: // AUTH on expanded memory with junk signature
		for i := 0; i < 4; i++ {
			a.push(lattice(r)).pushU(uint64(32 * i)).op(0x52)
		}
		a.pushU(uint64(128 + r.Intn(3) - 1)).pushU(uint64(r.Intn(2))).push(lattice(r)).op(0xf6)
	case 1: // AUTH short length
		a.pushU(uint64(r.Intn(128))).push(memArg(r)).push(lattice(r)).op(0xf6)
	case 2: // AUTH far beyond memory (offset >= len): reads nil
		a.pushU(128).pushU(uint64(1000 + r.Intn(100000))).push(lattice(r)).op(0xf6)
	case 3: // AUTHCALL without authorization
		for i := 0; i < 9; i++ {
			a.pushU(uint64(r.Intn(3)))
		}
		a.op(0xf7)
	case 4:
		op := []byte{0xee, 0xef, 0xec, 0xeb, 0xea, 0xed}[r.Intn(6)]
		a.push(lattice(r)).push(lattice(r)).op(op)
	default:
		a.pushU(0).op(0x5c).pushU(5).pushU(0).op(0x5d).pushU(0).op(0x5c)
	}
	a.op(0x5a)
	a.storeTopAndReturn()
	return a.bytes(), r.Bytes(r.Intn(20)), nil
}

// ---- direct probes of the dynamic-gas functions (state independent ones)

var probeOps = []byte{0x20, 0x37, 0x39, 0x3c, 0x3e, 0x51, 0x52, 0x53, 0x5e, 0x0a, 0x55, 0xa0, 0xa1, 0xa2, 0xa3, 0xa4, 0xf0, 0xf5, 0xf2, 0xf4, 0xfa, 0xf3, 0xfd, 0xf6}

func u256(b *big.Int) uint256.Int {
	var z uint256.Int
	z.SetFromBig(b)
	return z
}

func (g *gen) probeLine(cfg int, huge bool) (string, string) {
	r := g.r
	setConfig(cfg)
	op := probeOps[r.Intn(len(probeOps))]
	t := vm.VerifC11Table(blockNumber)
	if !t[op].Defined {
		return "", ""
	}
	n := t[op].MinStack
	st := make([]uint256.Int, n)
	strs := make([]string, n)
	for i := 0; i < n; i++ {
		var v *big.Int
		if huge {
			// sizes around the region where fee * 30 * 30 passes 2^64
			switch r.Intn(4) {
			case 0:
				v = new(big.Int).SetUint64(uint64(0x1FFFFFFFE0) - uint64(r.Intn(1<<20))*32)
			case 1:
				v = new(big.Int).SetUint64(uint64(3<<35) + uint64(r.Intn(1<<30)))
			case 2:
				v = big.NewInt(int64(r.Intn(64)))
			default:
				v = memArg(r)
			}
		} else if r.Chance(2, 3) {
			v = memArg(r)
		} else {
			v = lattice(r)
		}
		st[i] = u256(v)
		strs[i] = hex.EncodeToString(st[i].Bytes())
		if strs[i] == "" {
			strs[i] = "00"
		}
	}
	memLen := uint64(32 * r.Pick(0, 0, 1, 2, 31, 32, 33, 1024))
	w := memLen / 32
	last := 3*w + w*w/512
	if r.Chance(1, 8) {
		last = uint64(r.Intn(1000))
	}
	cgas := pickGas(r)
	if r.Chance(1, 4) {
		cgas = r.U64()
	}
	stack := "-"
	if n > 0 {
		stack = strings.Join(strs, ",")
	}
	opLine := fmt.Sprintf("gas %d %d %d %d %d %s", cfg, op, memLen, last, cgas, stack)
	status, gas, memSize := vm.VerifC11DynGas(blockNumber, op, st, memLen, last, cgas)
	if status == "ok" {
		return opLine, fmt.Sprintf("ok %d %d", gas, memSize)
	}
	return opLine, status
}

// a dynamic-gas probe given literally (corpus): "cfg op memLen last cgas w0,w1,…"
func rawProbe(line string) (string, string) {
	w := strings.Fields(line)
	cfg, _ := strconv.Atoi(w[0])
	op, _ := strconv.Atoi(w[1])
	memLen, _ := strconv.ParseUint(w[2], 10, 64)
	last, _ := strconv.ParseUint(w[3], 10, 64)
	cgas, _ := strconv.ParseUint(w[4], 10, 64)
	var st []uint256.Int
	if w[5] != "-" {
		for _, h := range strings.Split(w[5], ",") {
			v, _ := new(big.Int).SetString(h, 16)
			st = append(st, u256(v))
		}
	}
	setConfig(cfg)
	status, gas, memSize := vm.VerifC11DynGas(blockNumber, byte(op), st, memLen, last, cgas)
	opLine := "gas " + line
	if status == "ok" {
		return opLine, fmt.Sprintf("ok %d %d", gas, memSize)
	}
	return opLine, status
}

// inputs for the precompiles whose Run body is modelled (0x01, 0x04, 0x05, 0x09)
func (g *gen) prunInput(addr int) []byte {
	r := g.r
	switch addr {
	case 1:
		in := make([]byte, 128)
		copy(in[0:32], r.Bytes(32))
		in[63] = byte(27 + r.Intn(2))
		copy(in[64:96], r.Bytes(32))
		copy(in[96:128], r.Bytes(32))
		switch r.Intn(12) {
		case 0:
			in[63] = byte(r.Intn(256)) // v out of range / wrapping
		case 1:
			in[32+r.Intn(31)] = 1 // non-zero padding of v
		case 2:
			for i := 64; i < 96; i++ { // r = 0
				in[i] = 0
			}
		case 3:
			for i := 96; i < 128; i++ { // s >= N
				in[i] = 0xff
			}
		case 4:
			in = in[:r.Intn(128)] // truncated (right-padded by Run)
		case 5:
			in = append(in, r.Bytes(1+r.Intn(40))...) // trailing bytes ignored
		case 6:
			in[64] = 0 // leading zero byte in r
		case 7: // a real signature
			key := r.Bytes(32)
			if prv, err := crypto.ToECDSA(key); err == nil {
				if sig, err := crypto.Sign(in[0:32], prv); err == nil {
					copy(in[64:128], sig[0:64])
					in[63] = 27 + sig[64]
				}
			}
		}
		return in
	case 4:
		return r.Bytes(r.Intn(100))
	case 5:
		b, e, m := r.Intn(40), r.Intn(40), r.Intn(40)
		if r.Chance(1, 6) {
			b, e, m = r.Pick(0, 1, 32, 33, 64, 65, 200), r.Pick(0, 1, 31, 32, 33, 100), r.Pick(0, 1, 32, 64, 65, 300)
		}
		in := make([]byte, 96)
		in[31], in[63], in[95] = byte(b), byte(e), byte(m)
		in[30], in[62], in[94] = byte(b>>8), byte(e>>8), byte(m>>8)
		payload := r.Bytes(r.Intn(b + e + m + 8))
		if r.Chance(1, 8) { // modulus zero
			payload = make([]byte, b+e+m)
			copy(payload, r.Bytes(b+e))
		}
		if r.Chance(1, 10) {
			in[r.Intn(24)] = byte(r.Intn(3)) // garbage in the high bytes of a length word
		}
		return append(in, payload...)
	default: // 9
		in := r.Bytes(213)
		in[0], in[1] = 0, 0
		in[2] = byte(r.Intn(4))
		in[212] = byte(r.Intn(2))
		switch r.Intn(10) {
		case 0:
			in[212] = byte(2 + r.Intn(250))
		case 1:
			in = in[:212]
		case 2:
			in = append(in, 0)
		case 3:
			in[2], in[3] = 0, byte(r.Intn(13))
		}
		return in
	}
}

// length words for the modexp header
func lenWord(r *hx.Rng) *big.Int {
	switch r.Intn(16) {
	case 0, 1, 2, 3, 4:
		return big.NewInt(int64(r.Intn(40)))
	case 5:
		return big.NewInt(int64(r.Pick(31, 32, 33, 64, 65, 1024, 1025)))
	case 6:
		return new(big.Int).Add(pow2(61), big.NewInt(int64(r.Intn(70))))
	case 7:
		return new(big.Int).Add(pow2(uint(r.Pick(32, 60, 61, 62, 63))), big.NewInt(int64(r.Intn(40))))
	case 8:
		return new(big.Int).Sub(pow2(64), big.NewInt(int64(1+r.Intn(40))))
	case 9:
		return new(big.Int).Add(pow2(64), big.NewInt(int64(r.Intn(70))))
	case 10:
		return new(big.Int).Add(pow2(uint(r.Pick(65, 128, 255))), big.NewInt(int64(r.Intn(40))))
	case 11:
		return new(big.Int).Sub(pow2(256), big.NewInt(1))
	case 12:
		return new(big.Int).SetUint64(r.U64())
	default:
		return big.NewInt(int64(r.Intn(3)))
	}
}

func (g *gen) precompileInput(addr int) []byte {
	r := g.r
	var n int
	switch r.Intn(6) {
	case 0:
		n = 0
	case 1:
		n = r.Intn(40)
	case 2:
		n = r.Pick(64, 96, 128, 160, 192, 213, 256, 288, 384, 416)
	case 3:
		n = r.Pick(64, 96, 128, 160, 192, 213, 256, 288, 384) + r.Intn(3) - 1
	case 4:
		n = r.Intn(700)
	default:
		n = r.Pick(160, 288, 384, 192) * (1 + r.Intn(4))
	}
	if n < 0 {
		n = 0
	}
	in := r.Bytes(n)
	if r.Chance(1, 2) { // mostly-zero input: small lengths for modexp, valid-looking points at infinity
		for i := range in {
			if r.Chance(9, 10) {
				in[i] = 0
			}
		}
	}
	if addr == 5 {
		// modexp header: three 32-byte length words from a boundary lattice that reaches the
		// uint64 edges (2^61+32 is where 8*(expLen-32) passes 2^64), then a short payload
		if n < 96 || r.Chance(1, 2) {
			n = 96 + r.Intn(70)
			in = r.Bytes(n)
			if r.Chance(1, 2) {
				for i := 96; i < n; i++ {
					in[i] = 0
				}
			}
		}
		// one word from the boundary lattice at a time (two with probability 1/4): three at once
		// nearly always saturate the price at MaxUint64 and hide the arithmetic in between
		special := r.Intn(3)
		both := r.Chance(1, 4)
		for w := 0; w < 3; w++ {
			v := big.NewInt(int64(r.Intn(40)))
			if w == special || (both && w == (special+1)%3) {
				v = lenWord(r)
			}
			bs := v.Bytes()
			for i := 0; i < 32; i++ {
				in[w*32+i] = 0
			}
			copy(in[w*32+32-len(bs):], bs)
		}
	}
	if addr == 9 && n == 213 {
		in[0], in[1] = 0, 0
		if r.Chance(1, 2) {
			in[212] = byte(r.Intn(2))
		}
	}
	return in
}

// ---- the deterministic arity family: every opcode byte x every stack height 0..minStack x every execution context

var arityContexts = []string{"top", "static-entry", "staticcall-1", "staticcall-2", "delegatecall", "callcode", "create-top", "create-op"}

// the tiny program: h pushes of 1, the opcode byte, and (for PUSHn) its data
func arityProg(op byte, h int) []byte {
	a := &asm{}
	for i := 0; i < h; i++ {
		a.pushU(1)
	}
	a.op(op)
	if op >= 0x60 && op <= 0x7f {
		for i := 0; i < int(op)-0x5f; i++ {
			a.op(byte(i + 1))
		}
	}
	return a.bytes()
}

// wrap the tiny program into the requested execution context
func aritySpec(ctx string, cfg int, tiny []byte) spec {
	call := func(kind byte, to common.Address) []byte {
		a := &asm{}
		a.pushU(0).pushU(0).pushU(0).pushU(0)
		if kind == 0xf1 || kind == 0xf2 {
			a.pushU(0)
		}
		a.pushB(to.Bytes()).op(0x5a).op(kind).op(0x5a)
		a.storeTopAndReturn()
		return a.bytes()
	}
	zero := big.NewInt(0)
	switch ctx {
	case "top":
		return spec{kind: "C", cfg: cfg, gas: 3000000, value: zero, code: tiny, to: target}
	case "static-entry":
		return spec{kind: "S", cfg: cfg, gas: 3000000, value: zero, code: tiny, to: target}
	case "staticcall-1":
		return spec{kind: "C", cfg: cfg, gas: 3000000, value: zero, code: call(0xfa, auxAddr), aux: tiny, to: target}
	case "staticcall-2": // target -STATICCALL-> aux -CALL-> aux2 (static inherited)
		return spec{kind: "C", cfg: cfg, gas: 3000000, value: zero, code: call(0xfa, auxAddr), aux: call(0xf1, aux2Addr), aux2: tiny, to: target}
	case "delegatecall":
		return spec{kind: "C", cfg: cfg, gas: 3000000, value: zero, code: call(0xf4, auxAddr), aux: tiny, to: target}
	case "callcode":
		return spec{kind: "C", cfg: cfg, gas: 3000000, value: zero, code: call(0xf2, auxAddr), aux: tiny, to: target}
	case "create-top":
		return spec{kind: "K", cfg: cfg, gas: 3000000, value: zero, code: tiny}
	default: // create-op: CREATE with the tiny program (passed as call data) as init code
		a := &asm{}
		a.op(0x36).pushU(0).pushU(0).op(0x37) // CALLDATACOPY(0,0,size)
		a.op(0x36).pushU(0).pushU(0).op(0xf0).op(0x5a)
		a.storeTopAndReturn()
		return spec{kind: "C", cfg: cfg, gas: 3000000, value: zero, code: a.bytes(), input: tiny, to: target}
	}
}

// ---- deterministic jump families

// code of exactly n bytes: PUSH2 dest, JUMP (or PUSH1 1, PUSH2 dest, JUMPI), padding of JUMPDEST-free bytes,
// last byte JUMPDEST: destinations n-1 (valid), n (one past the end), n+1, and far ones
func jumpEdgeProg(n int, dest *big.Int, jumpi bool) []byte {
	a := &asm{}
	if jumpi {
		a.pushU(1)
	}
	bs := dest.Bytes()
	if len(bs) < 2 {
		bs = append(make([]byte, 2-len(bs)), bs...)
	}
	if len(bs) > 32 {
		bs = bs[len(bs)-32:]
	}
	a.op(byte(0x5f + len(bs))).op(bs...)
	if jumpi {
		a.op(0x57)
	} else {
		a.op(0x56)
	}
	for len(a.b) < n-1 {
		a.op(0x01)
	}
	a.op(0x5b)
	return a.bytes()
}

// pairs (A, B) of different programs that both jump, for the JUMPDEST-analysis cache shared across frames:
// A jumps (its analysis gets cached), then starts B through `kind`, then jumps again.
func jumpCacheA(kind byte, to common.Address, variant int) []byte {
	a := &asm{}
	a.pushU(4).op(0x56).op(0xfe).op(0x5b) // 0: PUSH1 4 JUMP INVALID JUMPDEST(4)
	if kind == 0xf0 {
		// CREATE with B (call data) as init code
		a.op(0x36).pushU(0).pushU(0).op(0x37).op(0x36).pushU(0).pushU(0).op(0xf0).op(0x50)
	} else {
		a.pushU(0).pushU(0).pushU(0).pushU(0)
		if kind == 0xf1 || kind == 0xf2 {
			a.pushU(0)
		}
		a.pushB(to.Bytes()).op(0x5a).op(kind).op(0x50)
	}
	// second jump of A over a PUSH whose data byte is 0x5b
	here := len(a.b)
	a.pushU(uint64(here + 6)).op(0x56) // PUSH1 x JUMP  (3 bytes)
	a.op(0x60, 0x5b)                   // PUSH1 0x5b    (data byte is a JUMPDEST byte)
	a.op(0xfe)
	a.op(0x5b) // here+6
	if variant == 1 {
		a.pushU(uint64(here + 4)).op(0x56) // jump INTO the push data: must fail
	}
	a.op(0x5a)
	a.storeTopAndReturn()
	return a.bytes()
}

func jumpCacheB(variant int) []byte {
	a := &asm{}
	switch variant {
	case 0: // longer than A, valid jump to its far end (beyond A's bitmap)
		a.pushU(200).op(0x56)
		for len(a.b) < 200 {
			a.op(0x60, 0x5b)
		}
		a.op(0x5b).op(0x00)
	case 1: // jump into PUSH data at a position that is a real JUMPDEST in A (position 4)
		a.pushU(4).op(0x56).op(0x60, 0x5b).op(0x00) // 0:PUSH1 4, 2:JUMP, 3:PUSH1, 4:0x5b(data)
	case 2: // valid JUMPDEST at a position that is PUSH data in a same-length other program
		a.pushU(3).op(0x56).op(0x5b).op(0x60, 0x5b).op(0x00)
	default: // very short: valid jump at 3
		a.pushU(3).op(0x56).op(0x5b)
	}
	return a.bytes()
}

// code of exactly n bytes that takes a real jump (so the lazy JUMPDEST analysis runs), stops, and ends in a
// PUSHk opcode with only t of its k data bytes present: PUSH1 3, JUMP, JUMPDEST, JUMPDEST*, STOP, PUSHk, data[t]
func pushTailProg(n, k, t int) []byte {
	if t > k {
		t = k
	}
	f := n - 6 - t
	if f < 0 {
		return nil
	}
	a := &asm{}
	a.op(0x60, 0x03, 0x56, 0x5b)
	for i := 0; i < f; i++ {
		a.op(0x5b)
	}
	a.op(0x00)
	a.op(byte(0x5f + k))
	for i := 0; i < t; i++ {
		a.op(0x5b) // data bytes that look like JUMPDESTs
	}
	return a.bytes()
}

// code length x trailing truncated PUSHk: every residue mod 8 around 8, 16, 24, 32, 40, 64, 72 and 256
func pushTailFamily(all bool, seed uint64, visit func(name string, s spec)) {
	ctxs := []string{"top", "create-top", "callcode", "delegatecall", "staticcall-1", "create-op"}
	cnt := 0
	for _, base := range []int{8, 16, 24, 32, 40, 64, 72, 256} {
		for d := -1; d <= 6; d++ {
			n := base + d
			for k := 1; k <= 32; k++ {
				for _, t := range []int{0, 1, k - 1, k} {
					if t < 0 || (t == 1 && k == 1) || (t == k-1 && (k <= 2)) {
						continue
					}
					tiny := pushTailProg(n, k, t)
					if tiny == nil {
						continue
					}
					cnt++
					if all {
						for _, ctx := range ctxs {
							visit("push-tail", aritySpec(ctx, arityCfg((cnt+int(seed))%8), tiny))
						}
					} else {
						// quick: the full product of lengths and pushes, one context each (rotating); PUSH32/PUSH31 and the empty tail in two
						ctx := ctxs[(cnt+int(seed))%len(ctxs)]
						visit("push-tail", aritySpec(ctx, arityCfg((cnt+int(seed))%8), tiny))
						if k >= 31 && t == 0 {
							visit("push-tail", aritySpec(ctxs[(cnt+1+int(seed))%len(ctxs)], arityCfg((cnt+3)%8), tiny))
						}
					}
				}
			}
		}
	}
}

func jumpFamilies(all bool, seed uint64, visit func(name string, s spec)) {
	pushTailFamily(all, seed, visit)
	zero := big.NewInt(0)
	cfgs := []int{arityCfg(int(seed % 8))}
	if all {
		cfgs = []int{arityCfg(0), arityCfg(1), arityCfg(3), arityCfg(7)}
	}
	for _, cfg := range cfgs {
		// boundary destinations in every context
		for _, n := range []int{6, 33, 34, 70} {
			dests := []*big.Int{big.NewInt(int64(n - 1)), big.NewInt(int64(n)), big.NewInt(int64(n + 1)), big.NewInt(int64(n - 2)), big.NewInt(0),
				new(big.Int).SetUint64(1 << 32), new(big.Int).SetUint64(1<<63 - 1), new(big.Int).SetUint64(1 << 63), new(big.Int).SetUint64(^uint64(0)),
				pow2(64), new(big.Int).Add(pow2(64), big.NewInt(int64(n-1))), pow2(255), new(big.Int).Sub(pow2(256), big.NewInt(1))}
			for _, d := range dests {
				for _, ji := range []bool{false, true} {
					tiny := jumpEdgeProg(n, d, ji)
					for _, ctx := range []string{"top", "static-entry", "staticcall-2", "delegatecall", "callcode", "create-top", "create-op"} {
						visit("jump-edge", aritySpec(ctx, cfg, tiny))
					}
				}
			}
		}
		// the analysis cache across frames
		for _, kind := range []byte{0xf1, 0xf2, 0xf4, 0xfa, 0xf0} {
			for va := 0; va < 2; va++ {
				for vb := 0; vb < 4; vb++ {
					b := jumpCacheB(vb)
					sp := spec{kind: "C", cfg: cfg, gas: 3000000, value: zero, code: jumpCacheA(kind, auxAddr, va), aux: b, to: target}
					if kind == 0xf0 {
						sp.aux = nil
						sp.input = b
					}
					visit("jump-cache", sp)
					// and the other way round: B's frame first (outermost), calling A
					if kind != 0xf0 {
						sp2 := spec{kind: "C", cfg: cfg, gas: 3000000, value: zero, code: jumpCacheA(kind, aux2Addr, va), aux: nil, aux2: b, to: target}
						visit("jump-cache", sp2)
					}
				}
			}
		}
	}
}

// consistent flag vectors for the 8 table configurations (table bits + the chain flags a height would give)
func arityCfg(t int) int {
	cfg := t & 7
	if t&4 != 0 {
		cfg |= 16
	}
	if t&1 != 0 {
		cfg |= 8
	}
	return cfg | 32
}

// all = every table configuration for every program (thorough); otherwise one configuration per
// program, rotating with the seed so that five seeds cover most of the product
func arityFamily(all bool, seed uint64, visit func(ctx string, s spec)) {
	setConfig(63)
	full := vm.VerifC11Table(blockNumber)
	for op := 0; op < 256; op++ {
		delta := 0
		if full[op].Defined {
			delta = full[op].MinStack
		}
		for h := 0; h <= delta; h++ {
			tiny := arityProg(byte(op), h)
			for ci, ctx := range arityContexts {
				if all {
					for t := 0; t < 8; t++ {
						visit(ctx, aritySpec(ctx, arityCfg(t), tiny))
					}
				} else {
					t := (op + 3*h + 5*ci + int(seed%8)) % 8
					visit(ctx, aritySpec(ctx, arityCfg(t), tiny))
				}
			}
		}
	}
}

// ---- corpus

type spec struct {
	kind              string // C (call), K (create)
	cfg               int
	gas               uint64
	value             *big.Int
	code, input, aux  []byte
	aux2              []byte
	nonce             uint64
	to                common.Address
}

func unhexTok(s string) []byte {
	if s == "-" {
		return nil
	}
	b, err := hex.DecodeString(s)
	if err != nil {
		panic("corpus hex: " + s)
	}
	return b
}

func loadCorpus(dir string) (specs []spec, raw [][2]string) {
	files, _ := filepath.Glob(filepath.Join(dir, "*.txt"))
	sort.Strings(files)
	for _, f := range files {
		fh, err := os.Open(f)
		if err != nil {
			continue
		}
		sc := bufio.NewScanner(fh)
		sc.Buffer(make([]byte, 1<<20), 1<<26)
		for sc.Scan() {
			line := strings.TrimSpace(sc.Text())
			if line == "" || strings.HasPrefix(line, "#") {
				continue
			}
			w := strings.Fields(line)
			switch w[0] {
			case "C": // C cfg gas valueHex codeHex inputHex auxHex
				cfg, _ := strconv.Atoi(w[1])
				gas, _ := strconv.ParseUint(w[2], 10, 64)
				specs = append(specs, spec{kind: "C", cfg: cfg, gas: gas, value: new(big.Int).SetBytes(unhexTok(w[3])),
					code: unhexTok(w[4]), input: unhexTok(w[5]), aux: unhexTok(w[6]), to: target})
				if len(w) > 7 {
					specs[len(specs)-1].aux2 = unhexTok(w[7])
				}
			case "G": // G cfg op memLen lastGasCost contractGas stackTopFirst(hex,comma separated)
				raw = append(raw, [2]string{"G", strings.Join(w[1:], " ")})
			case "K": // K cfg gas valueHex initHex
				cfg, _ := strconv.Atoi(w[1])
				gas, _ := strconv.ParseUint(w[2], 10, 64)
				specs = append(specs, spec{kind: "K", cfg: cfg, gas: gas, value: new(big.Int).SetBytes(unhexTok(w[3])), code: unhexTok(w[4])})
			}
		}
		fh.Close()
	}
	return
}

// ---- main

var curFile string
var leadingZeroSigs, leadingZeroAddrs int

func hxGuard(f func() string) string { return hx.Guard(f) }

func emitRun(out *hx.Out, head string, run func() string, stats map[string]int) string {
	if curFile != "" {
		_ = ioutil.WriteFile(curFile, []byte(head+"\n"), 0644)
	}
	t0 := time.Now()
	res := hx.Guard(run)
	if d := time.Since(t0); d > 20*time.Second {
		res = "SLOW " + res
	}
	tape := cur.tape
	out.Emit(head+tapeTok(tape), res)
	stats["tape_entries"] += len(tape)
	if obs != nil {
		if obs.maxDepth >= 1025 {
			stats["depth1025"]++
		}
		if obs.maxStack >= 1024 {
			stats["stack1024"]++
		}
		stats["static_write_faults"] += obs.staticWriteFaults
		stats["live_authcalls"] += obs.authcallFrames
	}
	return res
}

func doSpec(out *hx.Out, s spec, stats map[string]int) string {
	worldAux2 = s.aux2
	worldNonce = s.nonce
	if s.kind == "K" {
		head, run := runCreate(s.cfg, s.gas, s.value, s.code, s.aux)
		return emitRun(out, head, run, stats)
	}
	if s.kind == "S" {
		head, run := runStatic(s.cfg, s.gas, s.to, s.code, s.input, s.aux)
		return emitRun(out, head, run, stats)
	}
	head, run := runCall(s.cfg, s.gas, s.value, s.to, s.code, s.input, s.aux)
	return emitRun(out, head, run, stats)
}

func main() {
	a := hx.Args()
	if a["mode"] == "search" {
		hxnode.BootServices("dev")
		installPrecompileWrappers()
		installStepHook()
		searchMain(a)
		return
	}
	out, err := hx.NewOut(a["ops"], a["obs"])
	if err != nil {
		panic(err)
	}
	defer out.Close()
	curFile = a["ops"] + ".cur"
	limitAddressSpace()
	hxnode.BootServices("dev")
	installPrecompileWrappers()
	installStepHook()
	r := hx.NewRng(hx.SeedFromEnv())
	g := &gen{r: r, ops: definedOps()}
	setConfig(63)
	g.table = vm.VerifC11Table(blockNumber)
	stats := map[string]int{}
	genKinds := map[string]int{}

	// corpus first
	specs, raws := loadCorpus(os.Getenv("VERIF_CORPUS"))
	for _, s := range specs {
		doSpec(out, s, stats)
		genKinds["corpus"]++
	}
	for _, rw := range raws {
		opl, res := rawProbe(rw[1])
		out.Emit(opl, res)
		genKinds["corpus"]++
	}

	// deterministic small-scope family before anything random
	if hx.ArgInt(a, "arity", 1) > 0 {
		arityFamily(hx.ArgInt(a, "arity", 1) > 1, hx.SeedFromEnv(), func(ctx string, s spec) {
			doSpec(out, s, stats)
			genKinds["arity-"+ctx]++
		})
		jumpFamilies(hx.ArgInt(a, "arity", 1) > 1, hx.SeedFromEnv(), func(name string, s spec) {
			doSpec(out, s, stats)
			genKinds[name]++
		})
	}
	n := hx.ArgInt(a, "n", 1500)
	var kept []spec
	for i := 0; i < n; i++ {
		cfg := pickCfg(r)
		gas := pickGas(r)
		value := big.NewInt(0)
		if r.Chance(1, 8) {
			value = big.NewInt(int64(r.Intn(1000)))
		}
		if r.Chance(1, 60) { // more than the origin owns: ErrInsufficientBalance before anything runs
			value = new(big.Int).Exp(big.NewInt(10), big.NewInt(21), nil)
		}
		var code, input, aux, aux2 []byte
		kind := ""
		var nonce uint64
		switch k := r.Intn(23); {
		case k == 22:
			kind = "pure-huge-gas"
			code, input, aux = g.progPureSeq()
			gas = []uint64{1 << 63, ^uint64(0), 1<<63 - 1, 1 << 32}[r.Intn(4)]
		case k >= 20:
			kind = "nested-static"
			code, input, aux, aux2 = g.progNestedStatic()
			if gas < 300000 {
				gas = 3000000
			}
			if r.Chance(1, 2) {
				cfg |= 2
			}
		case k < 6:
			kind = "one-op"
			code, input, aux = g.progOneOp()
		case k < 9:
			kind = "sequence"
			code, input, aux = g.progSequence()
		case k < 12:
			kind = "random-bytes"
			code, input, aux = g.progRandomBytes()
		case k < 13:
			kind = "loop"
			code, input, aux = g.progLoop()
		case k < 14:
			kind = "stack-edge"
			code, input, aux = g.progStackEdge()
			if gas < 100000 {
				gas = 1000000
			}
		case k < 17:
			kind = "calls"
			code, input, aux = g.progCalls()
		case k < 18:
			kind = "create"
			code, input, aux = g.progCreate()
			if r.Chance(1, 2) {
				nonce = []uint64{1, 127, 128, 255, 256, 65535, 65536, 1 << 32, 1<<64 - 2}[r.Intn(9)]
			}
		default:
			kind = "custom"
			code, input, aux = g.progCustom()
			cfg |= 1 | 2
			if gas < 200000 && r.Chance(2, 3) {
				gas = 1000000
			}
		}
		genKinds[kind]++
		if r.Chance(1, 12) {
			// the program as init code of a top-level create
			genKinds["top-create"]++
			if gas > 1<<40 {
				gas = 3000000
			}
			if r.Chance(1, 3) {
				nonce = []uint64{1, 127, 128, 255, 256, 65535, 1<<64 - 2}[r.Intn(7)]
			}
			sp := spec{kind: "K", cfg: cfg, gas: gas, value: value, code: code, aux: aux, nonce: nonce}
			doSpec(out, sp, stats)
			if len(kept) < 60 && kind != "pure-huge-gas" {
				kept = append(kept, sp)
			}
			continue
		}
		to := target
		if r.Chance(1, 25) {
			// top-level call straight to a precompile / an account without code
			genKinds["top-precompile"]++
			to = precompileAddr(1 + r.Intn(18))
			input = g.precompileInput(int(to[19]))
			if gas > 10000000 {
				// hypothesis "gas limit < 2^44": a correctly priced MODEXP at 2^63 gas may ask Go for 2^62 bytes
				// (known finding modexp-operand-alloc-panics-above-1e18-gas, probed once by the searcher)
				gas = 10000000
			}
		}
		sp := spec{kind: "C", cfg: cfg, gas: gas, value: value, code: code, input: input, aux: aux, aux2: aux2, to: to, nonce: nonce}
		doSpec(out, sp, stats)
		if (len(kept) < 60 || r.Chance(1, 40)) && kind != "pure-huge-gas" && gas <= 10000000 {
			kept = append(kept, sp)
		}
	}
	// history phase (hardening class 3b/6): the same programs again, after everything else ran in
	// this process (pools, caches, code-hash keyed analysis): the pure Lean model answers as before
	for _, sp := range kept {
		doSpec(out, sp, stats)
		genKinds["repeat"]++
	}
	concMismatch := concurrencyPhase(kept, hx.ArgInt(a, "conc", 8))
	// deep recursion to the depth limit (needs ~2^62 gas because of the 63/64 rule)
	deep := hx.ArgInt(a, "deep", 1)
	for i := 0; i < deep; i++ {
		code, _, _ := g.progDeep()
		cfg := []int{1 | 2 | 8 | 32, 63}[i%2]
		doSpec(out, spec{kind: "C", cfg: cfg, gas: uint64(1) << 62, value: big.NewInt(0), code: code, to: target}, stats)
		genKinds["deep"]++
	}
	// direct probes of the dynamic-gas functions
	np := hx.ArgInt(a, "probes", 3000)
	for i := 0; i < np; i++ {
		opl, res := g.probeLine(pickCfg(r), r.Chance(1, 5))
		if opl == "" {
			continue
		}
		out.Emit(opl, res)
	}
	// precompile pricing
	npc := hx.ArgInt(a, "pgas", 1500)
	for i := 0; i < npc; i++ {
		addr := 1 + r.Intn(18)
		if r.Chance(1, 4) {
			addr = 5
		}
		in := g.precompileInput(addr)
		p := rawPrecompiles[precompileAddr(addr)]
		op := fmt.Sprintf("pgas %d %s", addr, hexTok(in))
		out.Do(op, func() string {
			gas := p.RequiredGas(in)
			cls := "skip"
			if gas <= 3000000 {
				// cheap enough to execute: did Run's input-length gate let it through?
				_, err := p.Run(in)
				cls = "run"
				if err != nil && (err.Error() == "invalid input length" || err.Error() == "bad elliptic curve pairing size") {
					cls = "lenerr"
				}
			}
			return strconv.FormatUint(gas, 10) + " " + cls
		})
	}
	// bodies of the modelled precompiles: the real Run against the Lean definition
	nrun := hx.ArgInt(a, "prun", 800)
	for i := 0; i < nrun; i++ {
		addr := []int{1, 1, 4, 5, 5, 9, 9}[r.Intn(7)]
		in := g.prunInput(addr)
		p := rawPrecompiles[precompileAddr(addr)]
		op := fmt.Sprintf("prun %d %s", addr, hexTok(in))
		out.Do(op, func() string {
			if p.RequiredGas(in) > 3000000 {
				return "unmodelled"
			}
			o, err := p.Run(in)
			if err != nil {
				return "err"
			}
			return "ok " + hexTok(o)
		})
	}
	// executor.IntrinsicGas against the model
	nig := hx.ArgInt(a, "igas", 300)
	for i := 0; i < nig; i++ {
		p26 := r.Bool()
		if p26 {
			setConfig(63)
		} else {
			setConfig(1 | 2 | 8 | 32)
		}
		creation := r.Bool()
		data := r.Bytes(r.Pick(0, 1, 2, 31, 32, 33, 100, 1000) + r.Intn(3))
		for j := range data {
			if r.Chance(1, 2) {
				data[j] = 0
			}
		}
		op := fmt.Sprintf("igas %s %s %s", b01(p26), b01(creation), hexTok(data))
		out.Do(op, func() string {
			g, err := executor.IntrinsicGas(data, creation)
			if err != nil {
				return "overflow"
			}
			return "ok " + strconv.FormatUint(g, 10)
		})
	}
	kinds := []string{}
	for k, v := range genKinds {
		kinds = append(kinds, fmt.Sprintf("%q:%d", k, v))
	}
	sort.Strings(kinds)
	js := out.StatsJSON()
	var rv []string
	for _, v := range retentionViol {
		if len(v) > 300 {
			v = v[:300]
		}
		rv = append(rv, strconv.Quote(v))
	}
	var cm []string
	for _, v := range concMismatch {
		cm = append(cm, strconv.Quote(v))
	}
	js = js[:len(js)-1] + fmt.Sprintf(",\"generators\":{%s},\"tape_entries\":%d,\"coverage\":{\"live_authcalls\":%d,\"static_write_faults\":%d,\"frames_at_depth_1025\":%d,\"stack_1024_reached\":%d,\"leading_zero_sigs\":%d,\"leading_zero_authorities\":%d,\"concurrent_runs\":%d},\"retention_violations\":[%s],\"concurrency_mismatches\":[%s]}",
		strings.Join(kinds, ","), stats["tape_entries"], stats["live_authcalls"], stats["static_write_faults"], stats["depth1025"], stats["stack1024"], leadingZeroSigs, leadingZeroAddrs, concRuns, strings.Join(rv, ","), strings.Join(cm, ","))
	fmt.Println("STATS " + js)
}

var concRuns int

// concurrency phase (hardening class 4; evidence, not proof): the kept programs are first run one after
// the other, then by `workers` goroutines at the same time (own world and EVM each; the vm package's
// stack pools, jump tables and precompile table are shared); every result must equal the sequential one.
func concurrencyPhase(kept []spec, workers int) []string {
	var bad []string
	if workers <= 1 || len(kept) == 0 {
		return bad
	}
	saveCur, saveObs := cur, obs
	cur, obs = nil, nil
	defer func() { cur, obs = saveCur, saveObs }()
	for _, cfg := range []int{1 | 2 | 8 | 32, 63} {
		setConfig(cfg)
		seq := make([]string, len(kept))
		for i, sp := range kept {
			seq[i] = runPlain(sp)
		}
		par := make([]string, len(kept))
		done := make(chan bool, workers)
		for w := 0; w < workers; w++ {
			go func(w int) {
				for i := w; i < len(kept); i += workers {
					par[i] = runPlain(kept[i])
				}
				done <- true
			}(w)
		}
		for w := 0; w < workers; w++ {
			<-done
		}
		for i := range kept {
			concRuns++
			if seq[i] != par[i] && len(bad) < 5 {
				bad = append(bad, fmt.Sprintf("cfg %d code %s: sequential %q, concurrent %q", cfg, hexTok(kept[i].code), seq[i], par[i]))
			}
		}
	}
	return bad
}
