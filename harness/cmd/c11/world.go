package main

// The part of the C11 harness that touches go-rangers: a recording proxy around the
// real account.AccountDB (every vm.StateDB call, in order, with its answer = the
// "tape" the Lean model replays), recording wrappers around the precompiles'
// Run, fork-flag set-up, and the two entry points the node's contract executor
// uses (evm.Call, evm.Create) on vm.NewEVMWithNFT.

import (
	"encoding/hex"
	"fmt"
	"math"
	"math/big"
	"strconv"
	"strings"

	"com.tuntun.rangers/node/src/common"
	"com.tuntun.rangers/node/src/middleware/db"
	"com.tuntun.rangers/node/src/middleware/types"
	"com.tuntun.rangers/node/src/storage/account"
	"com.tuntun.rangers/node/src/vm"
)

const blockNumber = 1000

var (
	origin   = common.BytesToAddress([]byte{0xa1, 0xa1, 0xa1, 0xa1})
	coinbase = common.BytesToAddress([]byte{0xcb})
	target   = common.BytesToAddress([]byte{0xc0, 0xde})
	auxAddr  = common.BytesToAddress([]byte{0x0b, 0x0b})
	aux2Addr = common.BytesToAddress([]byte{0x0d, 0x0d})
	emptyAcc = common.BytesToAddress([]byte{0xee})
	gasPrice = big.NewInt(1000000000)
	timeNow  = big.NewInt(1700000000)
	diff     = big.NewInt(123)
)

// ---- tape recorder

type recorder struct {
	inner *account.AccountDB
	tape  []string
	size  int
}

var cur *recorder // the recorder of the run in progress (precompile wrappers write to it)

// a state mutation: must not happen while the call structure says we are inside a STATICCALL
func (r *recorder) mut(what string) {
	if obs != nil && obs.insideStatic() {
		key := "state-write-inside-static"
		if n := len(obs.frames); n > 0 && obs.frames[n-1].lastOp == 0xf7 {
			// evm.AuthCall: nonce bump of the authorised account / value transfer from the sponsor
			key = "authcall-writes-inside-static"
		}
		obs.add(key, "StateDB."+what+" executed inside a frame entered (transitively) through STATICCALL")
	}
}

func (r *recorder) add(s string) {
	r.tape = append(r.tape, s)
	r.size += len(s)
}

func ha(a common.Address) string { return hex.EncodeToString(a.Bytes()) }
func hh(h common.Hash) string    { return hex.EncodeToString(h.Bytes()) }
func hb(b []byte) string         { return hex.EncodeToString(b) }
func hbig(x *big.Int) string {
	if x == nil {
		return ""
	}
	return hex.EncodeToString(x.Bytes())
}
func b01(b bool) string {
	if b {
		return "1"
	}
	return "0"
}

func (r *recorder) CreateAccount(a common.Address) { r.add("ca:" + ha(a)); r.inner.CreateAccount(a) }
func (r *recorder) SubBalance(a common.Address, x *big.Int) *big.Int {
	r.add("sb:" + ha(a) + ":" + hbig(x))
	if x != nil && x.Sign() != 0 {
		r.mut("SubBalance(" + ha(a) + ", " + x.String() + ")")
	}
	return r.inner.SubBalance(a, x)
}
func (r *recorder) AddBalance(a common.Address, x *big.Int) {
	r.add("ab:" + ha(a) + ":" + hbig(x))
	r.inner.AddBalance(a, x)
}
func (r *recorder) GetBalance(a common.Address) *big.Int {
	v := r.inner.GetBalance(a)
	r.add("gb:" + ha(a) + "=" + hbig(v))
	return v
}
func (r *recorder) GetNonce(a common.Address) uint64 {
	v := r.inner.GetNonce(a)
	r.add("gn:" + ha(a) + "=" + strconv.FormatUint(v, 10))
	return v
}
func (r *recorder) SetNonce(a common.Address, n uint64) {
	r.add("sn:" + ha(a) + ":" + strconv.FormatUint(n, 10))
	r.mut("SetNonce(" + ha(a) + ")")
	r.inner.SetNonce(a, n)
}
func (r *recorder) GetCodeHash(a common.Address) common.Hash {
	v := r.inner.GetCodeHash(a)
	r.add("gh:" + ha(a) + "=" + hh(v))
	return v
}
func (r *recorder) GetCode(a common.Address) []byte {
	v := r.inner.GetCode(a)
	r.add("gc:" + ha(a) + "=" + hb(v))
	if obs != nil {
		obs.pendingCode = v
	}
	return v
}
func (r *recorder) SetCode(a common.Address, c []byte) {
	r.add("sc:" + ha(a) + ":" + hb(c))
	r.mut("SetCode(" + ha(a) + ")")
	r.inner.SetCode(a, c)
}
func (r *recorder) GetCodeSize(a common.Address) int {
	v := r.inner.GetCodeSize(a)
	r.add("gs:" + ha(a) + "=" + strconv.Itoa(v))
	return v
}
func (r *recorder) AddRefund(g uint64) { r.add("ar:" + strconv.FormatUint(g, 10)); r.inner.AddRefund(g) }
func (r *recorder) SubRefund(g uint64) { r.add("sr:" + strconv.FormatUint(g, 10)); r.inner.SubRefund(g) }
func (r *recorder) GetRefund() uint64 {
	v := r.inner.GetRefund()
	r.add("gr=" + strconv.FormatUint(v, 10))
	return v
}
func (r *recorder) GetCommittedState(a common.Address, k common.Hash) common.Hash {
	v := r.inner.GetCommittedState(a, k)
	r.add("gcs:" + ha(a) + ":" + hh(k) + "=" + hh(v))
	return v
}
func (r *recorder) GetState(a common.Address, k common.Hash) common.Hash {
	v := r.inner.GetState(a, k)
	r.add("gst:" + ha(a) + ":" + hh(k) + "=" + hh(v))
	return v
}
func (r *recorder) SetState(a common.Address, k, v common.Hash) {
	r.add("sst:" + ha(a) + ":" + hh(k) + ":" + hh(v))
	r.mut("SetState(" + ha(a) + ")")
	r.inner.SetState(a, k, v)
}
func (r *recorder) GetTransientState(a common.Address, k common.Hash) common.Hash {
	v := r.inner.GetTransientState(a, k)
	r.add("gts:" + ha(a) + ":" + hh(k) + "=" + hh(v))
	return v
}
func (r *recorder) SetTransientState(a common.Address, k, v common.Hash) {
	r.add("sts:" + ha(a) + ":" + hh(k) + ":" + hh(v))
	r.mut("SetTransientState(" + ha(a) + ")")
	r.inner.SetTransientState(a, k, v)
}
func (r *recorder) Suicide(a common.Address) bool {
	r.mut("Suicide(" + ha(a) + ")")
	v := r.inner.Suicide(a)
	r.add("su:" + ha(a) + "=" + b01(v))
	return v
}
func (r *recorder) HasSuicided(a common.Address) bool {
	v := r.inner.HasSuicided(a)
	r.add("hs:" + ha(a) + "=" + b01(v))
	return v
}
func (r *recorder) Exist(a common.Address) bool {
	v := r.inner.Exist(a)
	r.add("ex:" + ha(a) + "=" + b01(v))
	return v
}
func (r *recorder) Empty(a common.Address) bool {
	v := r.inner.Empty(a)
	r.add("em:" + ha(a) + "=" + b01(v))
	return v
}
func (r *recorder) AddressInAccessList(a common.Address) bool {
	v := r.inner.AddressInAccessList(a)
	r.add("ial:" + ha(a) + "=" + b01(v))
	return v
}
func (r *recorder) SlotInAccessList(a common.Address, s common.Hash) (bool, bool) {
	x, y := r.inner.SlotInAccessList(a, s)
	r.add("sal:" + ha(a) + ":" + hh(s) + "=" + b01(x) + b01(y))
	return x, y
}
func (r *recorder) AddAddressToAccessList(a common.Address) {
	r.add("aal:" + ha(a))
	r.inner.AddAddressToAccessList(a)
}
func (r *recorder) AddSlotToAccessList(a common.Address, s common.Hash) {
	r.add("asl:" + ha(a) + ":" + hh(s))
	r.inner.AddSlotToAccessList(a, s)
}
func (r *recorder) RevertToSnapshot(id int) { r.add("rv:" + strconv.Itoa(id)); r.inner.RevertToSnapshot(id) }
func (r *recorder) Snapshot() int {
	v := r.inner.Snapshot()
	r.add("sp=" + strconv.Itoa(v))
	return v
}
func (r *recorder) AddLog(l *types.Log) {
	ts := make([]string, len(l.Topics))
	for i, t := range l.Topics {
		ts[i] = hh(t)
	}
	r.add("lg:" + ha(l.Address) + ":" + strings.Join(ts, ".") + ":" + hb(l.Data))
	r.mut("AddLog(" + ha(l.Address) + ")")
	r.inner.AddLog(l)
}

// ---- precompile wrappers

type pcWrap struct {
	addr  common.Address
	inner vm.PrecompiledContract
}

func (p *pcWrap) RequiredGas(in []byte) uint64 { return p.inner.RequiredGas(in) }
func (p *pcWrap) Run(in []byte) ([]byte, error) {
	out, err := p.inner.Run(in)
	if cur != nil {
		if err != nil {
			cur.add("pc:" + ha(p.addr) + ":" + hb(in) + "=err:")
		} else {
			cur.add("pc:" + ha(p.addr) + ":" + hb(in) + "=ok:" + hb(out))
		}
	}
	return out, err
}

var rawPrecompiles = map[common.Address]vm.PrecompiledContract{}

func installPrecompileWrappers() {
	for a, p := range vm.PrecompiledContracts {
		rawPrecompiles[a] = p
		vm.PrecompiledContracts[a] = &pcWrap{addr: a, inner: p}
	}
}

// common.BytesToAddress left-aligns short input, so spell out all 20 bytes
func precompileAddr(n int) common.Address {
	var a common.Address
	a[19] = byte(n)
	return a
}

// ---- fork flags

// cfg bits: 1 table014, 2 table022, 4 table026, 8 IsProposal015, 16 IsProposal026, 32 create bumps the creator nonce
func setConfig(cfg int) {
	on := func(b bool) uint64 {
		if b {
			return 0
		}
		return math.MaxUint64
	}
	c := &common.LocalChainConfig
	c.Proposal014Block = on(cfg&1 != 0)
	c.Proposal022Block = on(cfg&2 != 0)
	// table026 compares evm.BlockNumber (=1000), IsProposal026 the chain height: one threshold, two heights
	if cfg&4 != 0 {
		c.Proposal026Block = 500
	} else {
		c.Proposal026Block = 2000
	}
	height := uint64(100)
	if cfg&16 != 0 {
		height = 3000
	}
	c.Proposal015Block = on(cfg&8 != 0)
	if cfg&32 != 0 {
		c.Proposal006Block = math.MaxUint64 // !IsProposal006 -> bump
		c.Proposal007Block = math.MaxUint64
	} else {
		c.Proposal006Block = 0
		c.Proposal007Block = math.MaxUint64
	}
	common.SetBlockHeight(height)
}

// ---- world and runs

type world struct {
	adb *account.AccountDB
	rec *recorder
}

var worldAux2 []byte // code of the third contract for the next world (nil = none)
var worldNonce uint64 // nonce of the creating account (target, and origin for top-level creates) in the next world

// retention (hardening class 3): results handed out by earlier runs are kept and re-checked after later runs
type retained struct {
	live []byte // the slice evm.Call returned
	copy []byte // its content at that time
	op   string
}

var retainedRets []retained
var retentionViol []string

func retain(ret []byte, op string) {
	if len(ret) == 0 {
		return
	}
	c := make([]byte, len(ret))
	copy(c, ret)
	retainedRets = append(retainedRets, retained{ret, c, op})
	if len(retainedRets) > 64 {
		retainedRets = retainedRets[1:]
	}
}

func checkRetained() {
	for _, r := range retainedRets {
		if string(r.live) != string(r.copy) {
			if len(retentionViol) < 4 {
				retentionViol = append(retentionViol, r.op)
			}
			copy(r.copy, r.live)
		}
	}
}

func newWorld(code, aux []byte) *world {
	mem, _ := db.NewMemDatabase()
	adb, err := account.NewAccountDB(common.Hash{}, account.NewDatabase(mem))
	if err != nil {
		panic(err)
	}
	adb.AddBalance(origin, new(big.Int).Exp(big.NewInt(10), big.NewInt(20), nil))
	if code != nil {
		adb.SetCode(target, code)
		adb.AddBalance(target, big.NewInt(1000000))
	}
	if aux != nil {
		adb.SetCode(auxAddr, aux)
		adb.AddBalance(auxAddr, big.NewInt(5000))
	}
	if worldAux2 != nil {
		adb.SetCode(aux2Addr, worldAux2)
		adb.AddBalance(aux2Addr, big.NewInt(5000))
	}
	adb.CreateAccount(emptyAcc)
	if worldNonce != 0 {
		adb.SetNonce(target, worldNonce)
		adb.SetNonce(origin, worldNonce)
	}
	return &world{adb: adb, rec: &recorder{inner: adb}}
}

func (w *world) evm(gasLimit uint64) *vm.EVM {
	ctx := vm.Context{
		CanTransfer: vm.CanTransfer,
		Transfer:    vm.Transfer,
		GetHash: func(n uint64) common.Hash {
			h := common.BytesToHash([]byte{0xbb, byte(n >> 8), byte(n)})
			w.rec.add("bh:" + strconv.FormatUint(n, 10) + "=" + hh(h))
			return h
		},
		Origin:      origin,
		GasPrice:    gasPrice,
		Coinbase:    coinbase,
		GasLimit:    gasLimit,
		BlockNumber: big.NewInt(blockNumber),
		Time:        timeNow,
		Difficulty:  diff,
	}
	return vm.NewEVMWithNFT(ctx, w.rec, w.adb)
}

func ctxToken(gasLimit uint64) string {
	return fmt.Sprintf("%s:%s:%s:%d:%d:%s:%s:%s", ha(origin), gasPrice.String(), ha(coinbase), gasLimit, blockNumber,
		timeNow.String(), diff.String(), common.GetChainId(blockNumber).String())
}

func statusOf(err error, toPrecompile bool) string {
	switch err {
	case nil:
		return "ok"
	case vm.ErrOutOfGas:
		return "oog"
	case vm.ErrCodeStoreOutOfGas:
		return "code-store-oog"
	case vm.ErrDepth:
		return "depth"
	case vm.ErrInsufficientBalance:
		return "insufficient-balance"
	case vm.ErrContractAddressCollision:
		return "collision"
	case vm.ErrExecutionReverted:
		return "revert"
	case vm.ErrMaxCodeSizeExceeded:
		return "max-code-size"
	case vm.ErrInvalidJump:
		return "bad-jump"
	case vm.ErrWriteProtection:
		return "write-protect"
	case vm.ErrReturnDataOutOfBounds:
		return "rd-oob"
	case vm.ErrGasUintOverflow:
		return "gas-overflow"
	}
	switch err.(type) {
	case *vm.ErrStackUnderflow:
		return "stack-underflow"
	case *vm.ErrStackOverflow:
		return "stack-overflow"
	case *vm.ErrInvalidOpCode:
		return "invalid-op"
	}
	if toPrecompile {
		return "precompile-err"
	}
	if strings.HasPrefix(err.Error(), "no such miner") {
		return "custom-err"
	}
	return "err:" + strings.ReplaceAll(err.Error(), " ", "_")
}

func hexTok(b []byte) string {
	if len(b) == 0 {
		return "-"
	}
	return hex.EncodeToString(b)
}

func tapeTok(t []string) string {
	if len(t) == 0 {
		return "-"
	}
	return strings.Join(t, ",")
}

type runResult struct {
	op, obs    string
	gasIn      uint64
	gasLeft    uint64
	status     string
	tapeLen    int
	panicked   bool
}

// runCall: deploy code at `target` (aux at auxAddr), call it from origin.
func runCall(cfg int, gas uint64, value *big.Int, to common.Address, code, input, aux []byte) (opLine string, answer func() string) {
	setConfig(cfg)
	w := newWorld(code, aux)
	cur = w.rec
	obs = &stepObs{}
	if to == target {
		obs.topCode = code
	}
	e := w.evm(gas)
	head := fmt.Sprintf("call %d %d %s %s %s %s ", cfg, gas, hexTok(value.Bytes()), ha(to), hexTok(input), ctxToken(gas))
	_, isPre := vm.PrecompiledContracts[to]
	var res string
	run := func() string {
		ret, left, _, err := e.Call(vm.AccountRef(origin), to, input, gas, value)
		checkRetained()
		retain(ret, head)
		res = fmt.Sprintf("%s %d %s %d s=%d h=%d d=%d", statusOf(err, isPre), left, hexTok(ret), len(w.rec.tape), obs.steps, obs.maxStack, obs.maxDepth)
		return res
	}
	return head, run
}

// runStatic: like runCall but through the exported read-only entry point evm.StaticCall
func runStatic(cfg int, gas uint64, to common.Address, code, input, aux []byte) (string, func() string) {
	setConfig(cfg)
	w := newWorld(code, aux)
	cur = w.rec
	obs = &stepObs{}
	if to == target {
		obs.topCode = code
	}
	e := w.evm(gas)
	head := fmt.Sprintf("scall %d %d %s %s %s ", cfg, gas, ha(to), hexTok(input), ctxToken(gas))
	_, isPre := vm.PrecompiledContracts[to]
	run := func() string {
		ret, left, _, err := e.StaticCall(vm.AccountRef(origin), to, input, gas)
		checkRetained()
		retain(ret, head)
		return fmt.Sprintf("%s %d %s %d s=%d h=%d d=%d", statusOf(err, isPre), left, hexTok(ret), len(w.rec.tape), obs.steps, obs.maxStack, obs.maxDepth)
	}
	return head, run
}

func runCreate(cfg int, gas uint64, value *big.Int, init []byte, aux []byte) (string, func() string) {
	setConfig(cfg)
	w := newWorld(nil, aux)
	cur = w.rec
	obs = &stepObs{topCode: init}
	e := w.evm(gas)
	head := fmt.Sprintf("create %d %d %s %s %s ", cfg, gas, hexTok(value.Bytes()), hexTok(init), ctxToken(gas))
	run := func() string {
		ret, addr, left, _, err := e.Create(vm.AccountRef(origin), init, gas, value)
		checkRetained()
		retain(ret, head)
		return fmt.Sprintf("%s %d %s %s %d s=%d h=%d d=%d", statusOf(err, false), left, hexTok(ret), ha(addr), len(w.rec.tape), obs.steps, obs.maxStack, obs.maxDepth)
	}
	return head, run
}

// runPlain executes a spec on its own world without touching the harness globals (tape of the
// precompiles, step observer): what concurrent goroutines run. The fork flags are process-wide
// and must have been set by the caller.
func runPlain(s spec) string {
	mem, _ := db.NewMemDatabase()
	adb, err := account.NewAccountDB(common.Hash{}, account.NewDatabase(mem))
	if err != nil {
		return "world-error"
	}
	adb.AddBalance(origin, new(big.Int).Exp(big.NewInt(10), big.NewInt(20), nil))
	if s.code != nil && s.kind == "C" {
		adb.SetCode(target, s.code)
		adb.AddBalance(target, big.NewInt(1000000))
	}
	if s.aux != nil {
		adb.SetCode(auxAddr, s.aux)
		adb.AddBalance(auxAddr, big.NewInt(5000))
	}
	if s.aux2 != nil {
		adb.SetCode(aux2Addr, s.aux2)
		adb.AddBalance(aux2Addr, big.NewInt(5000))
	}
	adb.CreateAccount(emptyAcc)
	ctx := vm.Context{CanTransfer: vm.CanTransfer, Transfer: vm.Transfer,
		GetHash:  func(n uint64) common.Hash { return common.BytesToHash([]byte{0xbb, byte(n >> 8), byte(n)}) },
		Origin:   origin, GasPrice: gasPrice, Coinbase: coinbase, GasLimit: s.gas, BlockNumber: big.NewInt(blockNumber), Time: timeNow, Difficulty: diff}
	e := vm.NewEVMWithNFT(ctx, adb, adb)
	return hxGuard(func() string {
		if s.kind == "K" {
			ret, addr, left, _, err := e.Create(vm.AccountRef(origin), s.code, s.gas, s.value)
			return fmt.Sprintf("%s %d %s %s", statusOf(err, false), left, hexTok(ret), ha(addr))
		}
		_, isPre := vm.PrecompiledContracts[s.to]
		ret, left, _, err := e.Call(vm.AccountRef(origin), s.to, s.input, s.gas, s.value)
		return fmt.Sprintf("%s %d %s", statusOf(err, isPre), left, hexTok(ret))
	})
}
