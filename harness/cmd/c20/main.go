// c20: correspondence harness + searcher for property C20 (miner registry and
// stake accounting). Calls the real executors/service code in-process.
//
//	c20 ops=<f> obs=<f> tier=quick|thorough      generate + run (T-corr)
//	c20 script=<f>                               run an op script, print "op => answer"
//	c20 mode=search ops=<f> obs=<f> tier=...     property oracle on the implementation
package main

import (
	"bufio"
	"encoding/json"
	"fmt"
	"os"
	"path/filepath"
	"sort"
	"strings"

	"verif/harness/hx"
	"verif/harness/hxnode"
	"com.tuntun.rangers/node/src/service"
)

func boot() {
	hxnode.BootServices("dev")
	service.InitRefundManager(groupStub, groupStub)
	service.InitRewardCalculator(nil, groupStub, groupStub)
}

func readLines(p string) []string {
	f, err := os.Open(p)
	if err != nil {
		return nil
	}
	defer f.Close()
	res := []string{}
	sc := bufio.NewScanner(f)
	sc.Buffer(make([]byte, 1<<20), 1<<24)
	for sc.Scan() {
		l := strings.TrimSpace(sc.Text())
		if l == "" || strings.HasPrefix(l, "#") {
			continue
		}
		res = append(res, l)
	}
	return res
}

func main() {
	a := hx.Args()
	boot()
	if s, ok := a["script"]; ok {
		ip := &interp{}
		for _, l := range readLines(s) {
			fmt.Println(l + " => " + hx.Guard(func() string { return ip.exec(l) }))
		}
		return
	}
	out, err := hx.NewOut(a["ops"], a["obs"])
	if err != nil {
		panic(err)
	}
	defer out.Close()
	r := hx.NewRng(hx.SeedFromEnv())
	thorough := a["tier"] == "thorough"
	if a["mode"] == "search" {
		runSearch(out, r, thorough)
		return
	}
	if a["mode"] == "conc" {
		runConcurrent(out, r, thorough)
		return
	}
	ip := &interp{}
	run := func(l string) { out.Do(l, func() string { return ip.exec(l) }) }
	byKind := map[string]map[string]int{} // op kind -> answer class -> count (the branch / error kind the real code took)
	runS := func(l string) string {
		res := out.Do(l, func() string { return ip.exec(l) })
		k := strings.Fields(l)[0]
		if k != "dump" && k != "bal" && k != "uni" && k != "reset" && k != "config" && k != "rheight" {
			if byKind[k] == nil {
				byKind[k] = map[string]int{}
			}
			c := res
			if len(c) > 20 {
				c = c[:20]
			}
			byKind[k][c]++
		}
		return res
	}
	// corpus first
	if dir := os.Getenv("VERIF_CORPUS"); dir != "" {
		fs, _ := filepath.Glob(filepath.Join(dir, "*.ops"))
		sort.Strings(fs)
		for _, f := range fs {
			for _, l := range readLines(f) {
				run(l)
			}
		}
	}
	// deterministic 64-bit boundary lattice (refund / add-stake / UNSTAKE amounts) before anything random
	latticeFamily(runS, true)
	st := newGenStats()
	runS("config dev")
	runS("reset 100")
	nrh := 400
	if thorough {
		nrh = 4000
	}
	refundHeightStream(r.Fork(), runS, nrh, st)
	episodes := 60
	if thorough {
		episodes = 600
	}
	episodes = hx.ArgInt(a, "episodes", episodes)
	for e := 0; e < episodes; e++ {
		genEpisode(r.Fork(), ip, runS, 10+r.Intn(25), st)
	}
	bk, _ := json.Marshal(byKind)
	fmt.Println("STATS " + strings.TrimSuffix(out.StatsJSON(), "}") + "," + st.json() + ",\"answers_by_op\":" + string(bk) + "}")
}
