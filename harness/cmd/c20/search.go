package main

// Searcher: a direct oracle for the six clauses of C20 on the implementation
// (no model involved). It drives the same real executors with the generator
// (plus fixed witness scripts), keeps a shadow ledger of what the successful
// transactions should have done, and checks after every op:
//
//	O1 lookup_agree     by-id, by-account and iterator views give the same record
//	O2 stake_accounting record stake = applied + added - refunded
//	O3 totals_agree     proposer total/count = sum/number over active records
//	O4 one_per_account  no two records share an account
//	O5 lock_conservation liquid + 1e18*staked + escrow + pending is constant
//	O6 rejected_only_fee a failed/skipped transaction changes nothing but the fee
//
// Violations are classified into stable class keys (known-findings.txt).

import (
	"bytes"
	"encoding/json"
	"fmt"
	"math/big"
	"os"
	"path/filepath"
	"sort"
	"strings"

	"com.tuntun.rangers/node/src/common"
	"com.tuntun.rangers/node/src/middleware/types"
	"com.tuntun.rangers/node/src/service"
	"verif/harness/hx"
)

type rec struct {
	pubkey  []byte
	id      []byte
	typ     byte
	stake   uint64
	status  byte
	applyH  uint64
	account []byte
}

type obsv struct {
	byID    map[string]*rec // hex id -> record (GetMiner)
	iterP   []rec
	iterV   []rec
	byAcct  map[string][]byte
	cached  map[string][]byte // hex id -> GetPubkey(id) (absent when not cached)
	total   uint64
	count   int
	bal     map[string]*big.Int
	escrow  *big.Int
	pending *big.Int
	pendKey map[uint64][]string // height -> accounts
	rest    string              // everything but balances, as text (for O6)
}

func (w *world) observe() *obsv {
	mm := service.MinerManagerImpl
	o := &obsv{byID: map[string]*rec{}, byAcct: map[string][]byte{}, bal: map[string]*big.Int{}, escrow: new(big.Int), pending: new(big.Int), pendKey: map[uint64][]string{}}
	for _, id := range w.ids {
		if m := mm.GetMiner(id, w.adb); m != nil {
			o.byID[hx.Hex(id)] = &rec{m.PublicKey, m.Id, m.Type, m.Stake, m.Status, m.ApplyHeight, m.Account}
		}
	}
	conv := func(kind byte) []rec {
		rs := []rec{}
		for _, e := range mm.VerifC20Iterate(kind, w.adb) {
			if e.Miner != nil {
				m := e.Miner
				rs = append(rs, rec{m.PublicKey, m.Id, m.Type, m.Stake, m.Status, m.ApplyHeight, m.Account})
			}
		}
		return rs
	}
	o.iterP, o.iterV = conv(common.MinerTypeProposer), conv(common.MinerTypeValidator)
	for _, a := range w.accts {
		o.byAcct[hx.Hex(a)] = mm.GetMinerIdByAccount(a, w.adb)
	}
	o.cached = map[string][]byte{}
	for _, id := range w.ids {
		if v, err := mm.GetPubkey(id); err == nil {
			o.cached[hx.Hex(id)] = v
		}
	}
	t, d := mm.GetProposerTotalStakeWithDetail(w.height+1000000, w.adb)
	o.total, o.count = t, len(d)
	for _, a := range append(append([]common.Address{}, w.addrs...), common.FeeAccount) {
		o.bal[hx.Hex(a[:])] = w.adb.GetBalance(a)
	}
	seen := map[uint64]bool{}
	for _, h := range w.heights {
		eh := h + refundDelay
		if seen[eh] {
			continue
		}
		seen[eh] = true
		for _, ac := range w.accts {
			o.escrow.Add(o.escrow, new(big.Int).SetBytes(w.adb.GetData(escrowAddr(eh), ac)))
		}
	}
	for h, l := range types.GetRefundInfo(w.ctx) {
		for _, it := range l.List {
			o.pending.Add(o.pending, it.Value)
			o.pendKey[h] = append(o.pendKey[h], hx.Hex(it.Id))
		}
	}
	d0 := w.dump()
	i, j := strings.Index(d0, " B="), strings.Index(d0, " E=")
	o.rest = d0[:i] + d0[j:]
	return o
}

var e18big = new(big.Int).Exp(big.NewInt(10), big.NewInt(18), nil)

func (o *obsv) wealth() *big.Int {
	t := new(big.Int)
	for _, b := range o.bal {
		t.Add(t, b)
	}
	for _, r := range o.byID {
		t.Add(t, new(big.Int).Mul(new(big.Int).SetUint64(r.stake), e18big))
	}
	t.Add(t, o.escrow)
	t.Add(t, o.pending)
	return t
}

type monSnap struct {
	ledger  map[string]*big.Int
	acctSet map[string]int
	lastOp  map[string]string
	quirk   map[string]bool
}

func (m *monitor) takeSnap() {
	sn := &monSnap{ledger: map[string]*big.Int{}, acctSet: map[string]int{}, lastOp: map[string]string{}, quirk: map[string]bool{}}
	for k, v := range m.ledger {
		sn.ledger[k] = new(big.Int).Set(v)
	}
	for k, v := range m.acctSet {
		sn.acctSet[k] = v
	}
	for k, v := range m.lastOp {
		sn.lastOp[k] = v
	}
	for k, v := range m.quirk {
		sn.quirk[k] = v
	}
	m.snap = sn
}

type retainedRec struct {
	live *types.Miner
	copy rec
	at   string
}

type viol struct {
	sev    int
	Key    string   `json:"key"`
	Desc   string   `json:"desc"`
	Script []string `json:"script"`
}

type monitor struct {
	ip       *interp
	script   []string
	ledger   map[string]*big.Int // hex id -> applied+added-refunded
	dirty    bool                // a successful tx since the last flush (iterator may be stale)
	crafted  bool                // universe contains id' = Sha256^k(id)
	blockNo  int                 // number of block ends so far in this episode
	acctSet  map[string]int      // hex id -> block in which its account was last set (apply/chacc accepted)
	touched  map[string]bool     // ids whose record was created / deleted / re-accounted / re-staked by an accepted op of the CURRENT block
	accepted map[string]bool     // ids with an accepted application in this episode
	snap     *monSnap            // ledger-side bookkeeping as of the last block end (restored by `rewind`)
	pkStale  map[string]bool     // ids whose cached key was written by a block that was then discarded
	blockReg map[string]bool     // ids with an accepted application in the current block
	quirk    map[string]bool     // ids sitting aborted exactly on the minimum since an accepted add-stake put them there
	lastOp   map[string]string   // last accepted op kind per id
	pkShadow map[string][]byte   // public key of the last accepted application per id (independent of the code's answers)
	retained []retainedRec       // records handed out earlier, with deep copies taken at that time
	everReg  map[string]bool     // ids with an accepted application in this PROCESS (the key cache outlives resets)
	unreal   bool                // episode leaves the documented hypotheses: a balance >= 2^53 tokens or an account that is not 20 bytes
	notes    map[string]*viol
	prev     *obsv
	found    map[string]*viol
	evals    int
	checksBy map[string]int
}

func newMonitor(ip *interp) *monitor {
	return &monitor{ip: ip, found: map[string]*viol{}, notes: map[string]*viol{}, checksBy: map[string]int{}, everReg: map[string]bool{},
		pkShadow: map[string][]byte{}, touched: map[string]bool{}, accepted: map[string]bool{}, lastOp: map[string]string{}, quirk: map[string]bool{}}
}

// report keeps, per class key, the most telling witness: clause severity first
// (money / stake / uniqueness before view disagreement), then the shortest history.
func (m *monitor) report(key, desc string) {
	sev := 1
	if strings.Contains(desc, "controls miners") || strings.Contains(desc, "applied+added-refunded") || strings.Contains(desc, "liquid+staked") || strings.Contains(desc, "beyond the fee") || strings.Contains(desc, "a fresh application") || strings.Contains(desc, "GetPubkey") {
		sev = 2
	}
	if m.unreal {
		// outside the stated hypotheses (stake/balance < 2^53 tokens, 20-byte accounts): recorded, not a finding
		k := "outside-hypothesis:" + key
		if _, ok := m.notes[k]; !ok {
			m.notes[k] = &viol{Key: k, Desc: desc, Script: append([]string{}, m.script...)}
		}
		return
	}
	v, ok := m.found[key]
	if ok && (v.sev > sev || (v.sev == sev && len(v.Script) <= len(m.script))) {
		return
	}
	m.found[key] = &viol{sev: sev, Key: key, Desc: desc, Script: append([]string{}, m.script...)}
	// printed when found (a time-boxed or crashing run keeps what it had); the plugin takes the last line per key
	b, _ := json.Marshal(m.found[key])
	fmt.Println("VIOL " + string(b))
}

func craftedUniverse(ids [][]byte) bool {
	for _, a := range ids {
		c := a
		for k := 0; k < 3; k++ {
			c = common.Sha256(c)
			for _, b := range ids {
				if bytes.Equal(b, c) {
					return true
				}
			}
		}
	}
	return false
}

// classify a violation of clause `clause` by the circumstances that produce it.
// collided: the key-family collision has materialised for `id` (hex) — `id` and an id related to it by
// Sha256^k (either direction) have BOTH had an accepted application in this episode. id == "" asks whether any
// such pair exists (for clauses that are not about one miner: conservation, totals).
func (m *monitor) collided(id string) bool {
	if !m.crafted {
		return false
	}
	ids := m.ip.w.ids
	for _, a := range ids {
		c := a
		for k := 0; k < 3; k++ {
			c = common.Sha256(c)
			for _, b := range ids {
				if bytes.Equal(b, c) && m.accepted[hx.Hex(a)] && m.accepted[hx.Hex(b)] {
					if id == "" || id == hx.Hex(a) || id == hx.Hex(b) {
						return true
					}
				}
			}
		}
	}
	return false
}

// classify a violation of clause `clause` about miner `id` ("" = not about one miner) by the circumstances that
// produce it. Each recorded class is kept narrow: a collision must have materialised for that miner, the stale
// iterator only explains disagreements about miners the current block itself touched.
func (m *monitor) classifyID(clause, id string, lostRefund bool, allowStale bool) string {
	switch {
	case m.collided(id):
		return "id-hash-collision"
	case lostRefund:
		return "refund-lost-second-account"
	case allowStale && m.dirty && (id == "" && len(m.touched) > 0 || m.touched[id]):
		return "stale-iterator-in-block"
	}
	return clause
}

func (m *monitor) classify(clause string, lostRefund bool, allowStale bool) string {
	return m.classifyID(clause, "", lostRefund, allowStale)
}

// dupFromStale: two records share an account (can only arise through the stale in-block lookup when
// the searcher does not use genesis inserts).
func (m *monitor) dupFromStale() bool {
	seen := map[string]bool{}
	for _, r := range m.prev.byID {
		k := hx.Hex(r.account)
		if seen[k] {
			return true
		}
		seen[k] = true
	}
	return false
}

func (m *monitor) run(line string) string {
	t := strings.Fields(line)
	w := m.ip.w
	var before *obsv
	isTx := false
	switch t[0] {
	case "apply", "add", "refund", "chacc", "bad", "node":
		isTx = true
		before = m.prev
	}
	lost := false
	if isTx && t[0] == "refund" && before != nil {
		if r := before.byID[t[2]]; r != nil {
			// will this refund hit an existing per-height list that lacks the account?
			if l, ok := before.pendKey[w.height+refundDelay]; ok {
				has := false
				for _, a := range l {
					if a == hx.Hex(r.account) {
						has = true
					}
				}
				lost = !has
			}
		}
	}
	isVM := strings.HasPrefix(t[0], "vm")
	res := hx.Guard(func() string { return m.ip.exec(line) })
	m.script = append(m.script, line)
	w = m.ip.w
	switch t[0] {
	case "reset":
		m.script = []string{line}
		m.ledger = map[string]*big.Int{}
		m.acctSet = map[string]int{}
		m.touched = map[string]bool{}
		m.accepted = map[string]bool{}
		m.lastOp = map[string]string{}
		m.quirk = map[string]bool{}
		m.pkStale = map[string]bool{}
		m.blockReg = map[string]bool{}
		m.takeSnap()
		m.retained = nil
		m.blockNo = 0
		m.dirty = false
		m.prev = nil
		m.unreal = false
		return res
	case "uni":
		m.crafted = craftedUniverse(w.ids)
		for _, a := range w.accts {
			if len(a) != 20 {
				m.unreal = true
			}
		}
		m.prev = w.observe()
		return res
	case "bal", "code":
		if t[0] == "bal" {
			v, _ := new(big.Int).SetString(t[2], 10)
			if v.Cmp(new(big.Int).Mul(new(big.Int).Lsh(big.NewInt(1), 53), e18big)) >= 0 {
				m.unreal = true
			}
		}
		m.prev = w.observe()
		return res
	case "dump", "config", "nodecode":
		return res
	case "rewind":
		// the ledger goes back to the block start; the key cache does not
		sn := m.snap
		m.ledger, m.acctSet, m.lastOp, m.quirk = sn.ledger, sn.acctSet, sn.lastOp, sn.quirk
		m.takeSnap()
		for k := range m.blockReg {
			m.pkStale[k] = true
		}
		m.blockReg = map[string]bool{}
		m.touched = map[string]bool{}
		m.dirty = false
		m.prev = w.observe()
		return res
	}
	if strings.HasPrefix(res, "PANIC") {
		m.report("panic", line+" => "+res)
	}
	o := w.observe()
	m.evals++
	led := func(id string) *big.Int {
		if m.ledger[id] == nil {
			m.ledger[id] = new(big.Int)
		}
		return m.ledger[id]
	}
	u := func(s string) *big.Int { v, _ := new(big.Int).SetString(s, 10); return v }
	if isTx && res == "ok" && t[0] == "node" {
		m.dirty = true
		for k := range o.byID {
			m.touched[k] = true // its target is found by account, not named: the block touched the registry
		}
	} else if isTx && res == "ok" {
		m.dirty = true
		if t[0] == "apply" || t[0] == "chacc" {
			m.acctSet[t[2]] = m.blockNo
		}
		if t[0] == "apply" {
			m.everReg[t[2]] = true
			m.accepted[t[2]] = true
			m.blockReg[t[2]] = true
			pkb, _ := hx.UnHex(t[6])
			m.pkShadow[t[2]] = pkb
		}
		if t[0] != "bad" {
			m.touched[t[2]] = true
			if t[0] != "chacc" {
				m.lastOp[t[2]] = t[0] // last accepted stake-changing op
			}
		}
		switch t[0] {
		case "apply":
			led(t[2]).Add(led(t[2]), u(t[4]))
		case "add":
			led(t[2]).Add(led(t[2]), u(t[3]))
		case "refund":
			amt := u(t[3])
			if amt.Cmp(u(maxU64)) == 0 {
				amt = new(big.Int).Set(led(t[2])) // "everything" = what the ledger says is there, not what the code reports
			}
			led(t[2]).Sub(led(t[2]), amt)
		}
	}
	if t[0] == "endblock" {
		m.dirty = false
		m.blockNo++
		m.touched = map[string]bool{}
		for k := range m.blockReg {
			delete(m.pkStale, k) // the application is on the chain now: the cached key is the registry's
		}
		m.blockReg = map[string]bool{}
		m.takeSnap()
	}
	if isVM {
		// the opcodes change stakes outside the transaction ledger: take the observed stakes as the new
		// ledger (O2 is not the oracle for them), conservation (O5) is.
		m.dirty = true
		for _, id := range w.ids {
			k := hx.Hex(id)
			var stk uint64
			if r := o.byID[k]; r != nil {
				stk = r.stake
			}
			m.ledger[k] = new(big.Int).SetUint64(stk)
		}
	}
	if m.prev == nil {
		m.prev = o
		return res
	}
	prev := m.prev
	m.prev = o
	// O6
	if isTx && res != "ok" {
		m.checksBy["O6"]++
		ok := o.rest == prev.rest
		srcTok := t[1]
		if t[0] == "bad" {
			srcTok = t[2]
		}
		srcB, _ := hx.UnHex(srcTok)
		payer := common.HexStringToAddress(srcString(srcB))
		for a, b := range o.bal {
			want := new(big.Int).Set(prev.bal[a])
			if strings.HasPrefix(res, "fail") {
				if a == hx.Hex(payer[:]) {
					want.Sub(want, big.NewInt(1000000000000000))
				}
				if a == hx.Hex(common.FeeAccount[:]) {
					want.Add(want, big.NewInt(1000000000000000))
				}
			}
			if want.Cmp(b) != 0 {
				ok = false
			}
		}
		if !ok {
			m.report(m.classify("rejected-changes-more-than-fee", false, false), fmt.Sprintf("%s => %s changed state beyond the fee", line, res))
		}
	}
	// O5
	m.checksBy["O5"]++
	// UNSTAKE escrows the REQUESTED wei amount for tx.origin whatever the stake actually dropped by: the recorded class is
	// exactly "wealth grew, by no more than the requested amount, in a vmunstake whose amount is not what was released"
	// (fractional tokens, or MaxUint64 whole tokens = "everything")
	growth := new(big.Int).Sub(o.wealth(), prev.wealth())
	if t[0] == "node" && res == "ok" && growth.Cmp(new(big.Int).Neg(new(big.Int).Mul(big.NewInt(10), e18big))) == 0 {
		// the accepted operator-node transaction debits 10 tokens and credits nobody
		m.report("operator-node-burns-10-rpg", fmt.Sprintf("%s => %s: liquid+staked+escrow+pending %s -> %s", line, res, prev.wealth(), o.wealth()))
		growth = new(big.Int)
		prev = o
	}
	if t[0] == "vmunstake" && growth.Sign() > 0 && growth.Cmp(u(t[3])) <= 0 && !m.collided("") {
		m.report("unstake-opcode-escrows-untruncated-amount", fmt.Sprintf("%s => %s: liquid+staked+escrow+pending %s -> %s", line, res, prev.wealth(), o.wealth()))
	} else if prev.wealth().Cmp(o.wealth()) != 0 {
		m.report(m.classify("conservation", lost && res == "ok", false), fmt.Sprintf("%s => %s: liquid+staked+escrow+pending %s -> %s", line, res, prev.wealth(), o.wealth()))
	}
	// O2
	m.checksBy["O2"]++
	for _, id := range w.ids {
		k := hx.Hex(id)
		var st uint64
		if r := o.byID[k]; r != nil {
			st = r.stake
		}
		if led(k).Cmp(new(big.Int).SetUint64(st)) != 0 {
			m.report(m.classifyID("stake-accounting", k, false, false), fmt.Sprintf("after %s: miner %s stake %d, applied+added-refunded %s", line, k, st, led(k)))
		}
	}
	// O4
	m.checksBy["O4"]++
	seen := map[string]string{}
	for k, r := range o.byID {
		a := hx.Hex(r.account)
		if other, dup := seen[a]; dup {
			// known defect only when both got the account inside ONE block (the check could not see the first)
			key := "two-miners-one-account"
			if b1, ok1 := m.acctSet[other]; ok1 {
				if b2, ok2 := m.acctSet[k]; ok2 && b1 == b2 {
					key = "stale-iterator-in-block"
				}
			}
			if m.collided(k) || m.collided(other) {
				key = "id-hash-collision"
			}
			m.report(key, fmt.Sprintf("after %s: account %s controls miners %s and %s", line, a, other, k))
		}
		seen[a] = k
	}
	// O1 + O3
	m.checksBy["O1"]++
	m.checksBy["O3"]++
	iterBy := map[string]rec{}
	for _, r := range append(append([]rec{}, o.iterP...), o.iterV...) {
		iterBy[hx.Hex(r.id)] = r
	}
	var sum uint64
	cnt := 0
	for k, r := range o.byID {
		ir, ok := iterBy[k]
		if !ok || ir.stake != r.stake || ir.status != r.status || !bytes.Equal(ir.account, r.account) || ir.typ != r.typ || ir.applyH != r.applyH {
			m.report(m.classifyID("lookup-disagree", k, false, true), fmt.Sprintf("after %s: miner %s by id %+v, by iterator present=%v %+v", line, k, *r, ok, ir))
		}
		got, asked := o.byAcct[hx.Hex(r.account)]
		if !asked { // an account outside the declared universe (e.g. produced by the operator-node contract): ask now
			got = service.MinerManagerImpl.GetMinerIdByAccount(r.account, w.adb)
		}
		if got == nil {
			m.report(m.classifyID("lookup-disagree", k, false, true), fmt.Sprintf("after %s: miner %s has account %s but GetMinerIdByAccount finds none", line, k, hx.Hex(r.account)))
		} else if gr := o.byID[hx.Hex(got)]; gr == nil || !bytes.Equal(gr.account, r.account) {
			m.report(m.classifyID("lookup-disagree", hx.Hex(got), false, true), fmt.Sprintf("after %s: GetMinerIdByAccount(%s) = %s whose record does not carry that account", line, hx.Hex(r.account), hx.Hex(got)))
		}
		if r.typ == common.MinerTypeProposer && r.status == common.MinerStatusNormal {
			sum += r.stake
			cnt++
		}
	}
	for k := range iterBy {
		if o.byID[k] == nil && inUniverse(w.ids, k) {
			m.report(m.classifyID("lookup-disagree", k, false, true), fmt.Sprintf("after %s: iterator yields miner %s that GetMiner does not find", line, k))
		}
	}
	// O10 (retention) records handed out earlier are not modified by later calls; reads are idempotent
	m.checksBy["O10"]++
	for _, rr := range m.retained {
		now := rec{rr.live.PublicKey, rr.live.Id, rr.live.Type, rr.live.Stake, rr.live.Status, rr.live.ApplyHeight, rr.live.Account}
		if !bytes.Equal(now.id, rr.copy.id) || !bytes.Equal(now.account, rr.copy.account) || !bytes.Equal(now.pubkey, rr.copy.pubkey) ||
			now.stake != rr.copy.stake || now.status != rr.copy.status || now.typ != rr.copy.typ || now.applyH != rr.copy.applyH {
			m.report("returned-record-mutated-later", fmt.Sprintf("after %s: the record returned by GetMiner at `%s` changed from %+v to %+v", line, rr.at, rr.copy, now))
		}
	}
	if len(m.retained) > 24 {
		m.retained = m.retained[len(m.retained)-24:]
	}
	for _, id := range w.ids {
		if mr := service.MinerManagerImpl.GetMiner(id, w.adb); mr != nil {
			cp := rec{append([]byte{}, mr.PublicKey...), append([]byte{}, mr.Id...), mr.Type, mr.Stake, mr.Status, mr.ApplyHeight, append([]byte{}, mr.Account...)}
			m.retained = append(m.retained, retainedRec{live: mr, copy: cp, at: line})
		}
	}
	if d1, d2 := w.dump(), w.dump(); d1 != d2 {
		m.report("reads-not-idempotent", fmt.Sprintf("after %s: two consecutive full observations differ", line))
	}
	// O11 the consensus readers (consensus/access) answer on every committed state
	m.checksBy["O11"]++
	if x := hx.Guard(func() string { return w.readerStr() }); strings.HasPrefix(x, "PANIC") {
		key := "reader-panic"
		// the readers look at the last COMMITTED state: any id of this episode with an accepted application may be in it
		for k := range m.accepted {
			raw, _ := hx.UnHex(k)
			if len(bytes.TrimLeft(raw, "\x00")) > 32 {
				key = "reader-panics-on-long-id"
			}
		}
		m.report(key, fmt.Sprintf("after %s: MinerPoolReader.GetCandidateMiners panics: %s", line, x))
	} else if t[0] == "endblock" {
		// right after a block end the committed state is the live one: the candidates the consensus layer is given must
		// be exactly the registered validators that are not aborted and were applied before this height
		want := []string{}
		for _, r := range o.byID {
			if r.typ == common.MinerTypeValidator && r.status != common.MinerStatusAbort && r.applyH < w.height {
				want = append(want, fmt.Sprintf("%d/%d/%d", r.stake, r.applyH, r.typ))
			}
		}
		sort.Strings(want)
		if got := strings.SplitN(x, "|", 2)[0]; got != strings.Join(want, ",") {
			m.report(m.classify("reader-candidates-disagree", false, false), fmt.Sprintf("after %s: GetCandidateMiners(%d) = [%s], registered eligible validators [%s]", line, w.height, got, strings.Join(want, ",")))
		}
	}
	// O7 status is a function of the stake: what a fresh application of the same stake would give
	m.checksBy["O7"]++
	var sumByStake uint64
	cntByStake := 0
	for k, r := range o.byID {
		min := uint64(common.ValidatorStake)
		if r.typ == common.MinerTypeProposer {
			min = common.ProposerStake
		}
		want := byte(common.MinerStatusAbort)
		if r.stake >= min {
			want = common.MinerStatusNormal
		}
		if r.typ == common.MinerTypeProposer && r.stake >= min {
			sumByStake += r.stake
			cntByStake++
		}
		if r.stake != min || r.status != common.MinerStatusAbort {
			delete(m.quirk, k)
		}
		if r.status != want {
			key := "status-not-function-of-stake"
			// AddStake re-activates with `>`, AddMiner accepts `>=`: the recorded class is exactly "an accepted add-stake
			// landed on the minimum and the miner has stayed there, aborted, since"
			if r.stake == min && r.status == common.MinerStatusAbort && (m.lastOp[k] == "add" || m.quirk[k]) {
				m.quirk[k] = true
				key = "reactivation-needs-more-than-minimum"
			}
			if m.collided(k) {
				key = "id-hash-collision"
			}
			m.report(key, fmt.Sprintf("after %s: miner %s type %d has stake %d (minimum %d) and status %d; a fresh application with that stake has status %d; election total/count %d/%d, by stake %d/%d",
				line, k, r.typ, r.stake, min, r.status, want, o.total, o.count, sumByStake, cntByStake))
		}
	}
	// O8/O9 the public-key side store agrees with the registry
	m.checksBy["O8"]++
	for k, r := range o.byID {
		want, known := m.pkShadow[k]
		if c, ok := o.cached[k]; !ok || !bytes.Equal(c, r.pubkey) || (known && !m.collided(k) && !bytes.Equal(c, want)) {
			key := "pubkey-cache-disagrees"
			if m.pkStale[k] {
				key = "pkcache-keeps-discarded-block"
			}
			if m.collided(k) {
				key = "id-hash-collision"
			}
			m.report(key, fmt.Sprintf("after %s: GetPubkey(%s) = %s (cached=%v) but the registry record has public key %s", line, k, hx.Hex(c), ok, hx.Hex(r.pubkey)))
		}
	}
	for k, c := range o.cached {
		if !m.everReg[k] {
			m.report("pubkey-cached-for-unregistered-id", fmt.Sprintf("after %s: GetPubkey(%s) = %s but no application of that id was ever accepted", line, k, hx.Hex(c)))
		}
	}
	if sum != o.total || cnt != o.count {
		m.report(m.classify("totals-disagree", false, true), fmt.Sprintf("after %s: total/count %d/%d, over active records %d/%d", line, o.total, o.count, sum, cnt))
	}
	return res
}

func inUniverse(ids [][]byte, k string) bool {
	for _, id := range ids {
		if hx.Hex(id) == k {
			return true
		}
	}
	return false
}

func a20(b byte) string { return strings.Repeat(fmt.Sprintf("%02x", b), 20) }

// witnesses: minimal histories for the recorded defect classes, replayed on every run.
func witnesses() map[string][]string {
	a1, a2 := a20(0xa1), a20(0xa2)
	hid := hx.Hex(common.Sha256([]byte{0x11}))
	pre := func(ids string) []string {
		return []string{"config dev", "reset 100", "uni " + ids + " " + a1 + "," + a2 + " " + a1 + "," + a2,
			"bal " + a1 + " 100000" + e18, "bal " + a2 + " 100000" + e18}
	}
	return map[string][]string{
		"stale-iterator-in-block": append(pre("11,22"),
			"apply "+a1+" 11 0 400 - 01 01", "apply "+a1+" 22 0 400 - 01 01", "endblock 101"),
		"id-hash-collision": append(pre("11,"+hid),
			"apply "+a1+" 11 1 2000 - 01 01", "endblock 101", "apply "+a2+" "+hid+" 1 2000 - 01 01", "endblock 102"),
		"unstake-opcode-escrows-untruncated-amount": append(pre("11"),
			"apply "+a1+" 11 1 2500 "+a2+" 01 01", "endblock 101",
			"vmunstake "+a1+" "+a2+" 1500000000000000000", "vmunstake "+a1+" "+a2+" 900000000000000000", "endblock 102"),
		"reactivation-needs-more-than-minimum": append(pre("11"),
			"apply "+a1+" 11 1 2000 - 01 01", "endblock 101", "refund "+a1+" 11 1", "endblock 102", "add "+a1+" 11 1", "endblock 103"),
		"pkcache-keeps-discarded-block": append(pre("11"),
			"apply "+a1+" 11 0 800 - 07 01", "endblock 101",
			"refund "+a1+" 11 "+maxU64, "apply "+a1+" 11 0 800 - 09 01", "rewind", "endblock 102"),
		"reader-panics-on-long-id": append(pre(strings.Repeat("33", 33)),
			"apply "+a1+" "+strings.Repeat("33", 33)+" 0 400 - 01 01", "endblock 101"),
		"operator-node-burns-10-rpg": append(pre("11"),
			"nodecode", "apply "+a1+" 11 0 800 - 01 01", "endblock 101", "node "+a1, "endblock 102"),
		"refund-lost-second-account": append(pre("11,22"),
			"apply "+a1+" 11 0 800 - 01 01", "apply "+a2+" 22 0 800 - 01 01", "endblock 101",
			"refund "+a1+" 11 100", "refund "+a2+" 22 100", "endblock 102"),
	}
}

func runSearch(out *hx.Out, r *hx.Rng, thorough bool) {
	ip := &interp{}
	m := newMonitor(ip)
	runS := func(l string) string {
		res := m.run(l)
		out.Emit(l, res)
		return res
	}
	// fixed witnesses + corpus first
	ws := witnesses()
	names := make([]string, 0)
	for k := range ws {
		names = append(names, k)
	}
	sort.Strings(names)
	for _, k := range names {
		for _, l := range ws[k] {
			runS(l)
		}
	}
	if dir := os.Getenv("VERIF_CORPUS"); dir != "" {
		fs, _ := filepath.Glob(filepath.Join(dir, "*.ops"))
		sort.Strings(fs)
		for _, f := range fs {
			for _, l := range readLines(f) {
				if strings.HasPrefix(l, "genesis") {
					break // the oracle's ledger starts from an empty registry
				}
				runS(l)
			}
		}
	}
	// deterministic 64-bit boundary lattice first (real-size balances: a huge add-stake is rejected for balance)
	latticeFamily(runS, false)
	// deterministic small-scope family before the random episodes: every sequence of `depth` operations over a
	// small alphabet (two ids, two accounts, boundary amounts), each followed by a block end
	{
		a1, a2 := a20(0xa1), a20(0xa2)
		alphabet := []string{
			"apply " + a1 + " 11 0 400 - 07 01", "apply " + a2 + " 22 1 2000 - 08 01", "apply " + a2 + " 11 1 2000 " + a1 + " 09 01",
			"add " + a1 + " 11 1", "add " + a2 + " 11 400", "refund " + a1 + " 11 1", "refund " + a1 + " 11 " + maxU64,
			"refund " + a2 + " 22 1", "chacc " + a1 + " 11 " + a2, "endblock +1",
		}
		depth := 3
		if thorough {
			depth = 4
		}
		idx := make([]int, depth)
		for {
			runS("config dev")
			runS("reset 100")
			runS("uni 11,22 " + a1 + "," + a2 + " " + a1 + "," + a2)
			runS("bal " + a1 + " 100000" + e18)
			runS("bal " + a2 + " 100000" + e18)
			for _, i := range idx {
				l := alphabet[i]
				if l == "endblock +1" {
					l = fmt.Sprintf("endblock %d", ip.w.height+1)
				}
				runS(l)
			}
			runS(fmt.Sprintf("endblock %d", ip.w.height+1))
			k := depth - 1
			for k >= 0 {
				idx[k]++
				if idx[k] < len(alphabet) {
					break
				}
				idx[k] = 0
				k--
			}
			if k < 0 {
				break
			}
		}
	}
	episodes := 120
	if thorough {
		episodes = 1500
	}
	st := newGenStats()
	st.m["searcher"] = 1
	for e := 0; e < episodes; e++ {
		genEpisode(r.Fork(), ip, runS, 10+r.Intn(25), st)
	}
	nks := make([]string, 0)
	for k := range m.notes {
		nks = append(nks, k)
	}
	sort.Strings(nks)
	for _, k := range nks {
		b, _ := json.Marshal(m.notes[k])
		fmt.Println("NOTE " + string(b))
	}
	cb, _ := json.Marshal(m.checksBy)
	fmt.Printf("SEARCH {\"evaluations\":%d,\"checks\":%s}\n", m.evals, cb)
	fmt.Println("STATS " + strings.TrimSuffix(out.StatsJSON(), "}") + "," + st.json() + "}")
}
