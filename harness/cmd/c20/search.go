package main

import (
	"verif/harness/hx"
)

func runSearch(out *hx.Out, r *hx.Rng, thorough bool) {}
