package main

// Concurrent readers (evidence, not proof): the consensus layer reads the registry of a committed state from several
// goroutines, each through its own AccountDB over the shared trie database (AccountDBManager.GetAccountDBByHash does
// exactly that). After every block end of generated histories, N goroutines each open the committed root and take the
// registry observation (both iterators, by-id, by-account, election totals, key cache — not the balance reads, which
// go through account-storage code outside this property's anchors); every one must equal
// the sequential observation. Built with -race in the thorough tier.

import (
	"fmt"
	"strings"
	"sync"

	"verif/harness/hx"
)

func runConcurrent(out *hx.Out, r *hx.Rng, thorough bool) {
	ip := &interp{}
	st := newGenStats()
	st.m["searcher"] = 1 // well-formed universes
	episodes, readers := 12, 8
	if thorough {
		episodes, readers = 60, 16
	}
	checks, differ := 0, 0
	runS := func(l string) string {
		res := hx.Guard(func() string { return ip.exec(l) })
		if strings.HasPrefix(l, "endblock") && ip.w != nil {
			w := ip.w
			want := w.dumpParts(false)
			got := make([]string, readers)
			var wg sync.WaitGroup
			for i := 0; i < readers; i++ {
				wg.Add(1)
				go func(i int) {
					defer wg.Done()
					got[i] = hx.Guard(func() string {
						adb, err := w.open(w.root)
						if err != nil {
							return "reopen-error"
						}
						w2 := *w
						w2.adb = adb
						w2.newCtx()
						return w2.dumpParts(false)
					})
				}(i)
			}
			wg.Wait()
			checks++
			ans := "same"
			for i := range got {
				if got[i] != want {
					ans = fmt.Sprintf("differ reader=%d got=%s want=%s", i, got[i], want)
					differ++
					break
				}
			}
			out.Emit(fmt.Sprintf("conc %d after %s", readers, l), ans)
		}
		return res
	}
	for e := 0; e < episodes; e++ {
		genEpisode(r.Fork(), ip, runS, 10+r.Intn(20), st)
	}
	fmt.Printf("CONC {\"checks\":%d,\"differ\":%d,\"readers\":%d}\n", checks, differ, readers)
	fmt.Println("STATS " + out.StatsJSON())
}
