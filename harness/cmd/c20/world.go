// C20 harness, part 1: the "world" — a real AccountDB driven through the real
// miner executors exactly as core.VMExecutor.Execute/after sequences them.
package main

import (
	"encoding/json"
	"fmt"
	"math/big"
	"sort"
	"strconv"
	"strings"

	"com.tuntun.rangers/node/src/common"
	"com.tuntun.rangers/node/src/consensus/access"
	"com.tuntun.rangers/node/src/executor"
	"com.tuntun.rangers/node/src/middleware"
		"com.tuntun.rangers/node/src/middleware/types"
	"com.tuntun.rangers/node/src/service"
	"com.tuntun.rangers/node/src/storage/account"
	"com.tuntun.rangers/node/src/utility"
	"com.tuntun.rangers/node/src/vm"
	"verif/harness/hx"
)

const refundDelay = 36000 // service.refundHeight (unexported); checked by the tie: escrow dump uses it

type world struct {
	adb     *account.AccountDB
	height  uint64
	heights []uint64 // block heights of this episode (escrow heights dumped = h+refundDelay)
	ctx     map[string]interface{}
	txIndex int
	ids     [][]byte
	accts   [][]byte
	addrs   []common.Address
	txSeq   uint64
	root    common.Hash // last committed state root (what a discarded block execution falls back to)
}

func newWorld(height uint64) *world {
	// every AccountDB of the harness comes from the node's AccountDBManager, so that the consensus readers
	// (consensus/access.MinerPoolReader resolves a state root through the same manager) can open the committed roots
	w := &world{}
	adb, err := w.open(common.Hash{})
	if err != nil {
		panic(err)
	}
	w.adb = adb
	w.height = height
	w.heights = []uint64{height}
	w.newCtx()
	common.SetBlockHeight(height)
	return w
}

func (w *world) open(root common.Hash) (*account.AccountDB, error) {
	return middleware.AccountDBManagerInstance.GetAccountDBByHash(root)
}

var poolReader *access.MinerPoolReader

// readerStr: what the consensus layer sees of the last COMMITTED state through consensus/access/miner_access.go:
// GetCandidateMiners (validators that may join a group at height h), GetProposeMiner per id, GetTotalStake.
func (w *world) readerStr() string {
	if poolReader == nil {
		poolReader = access.NewMinerPoolReader()
	}
	h := w.height
	cs := make([]string, 0)
	for _, c := range poolReader.GetCandidateMiners(h, w.root) {
		cs = append(cs, fmt.Sprintf("%d/%d/%d", c.Stake, c.ApplyHeight, c.MinerType))
	}
	sort.Strings(cs)
	ps := make([]string, 0)
	for _, id := range w.ids {
		acc, _ := middleware.AccountDBManagerInstance.GetAccountDBByHash(w.root)
		pm := service.MinerManagerImpl.GetMinerById(id, common.MinerTypeProposer, acc)
		if pm == nil {
			ps = append(ps, "nil")
		} else {
			ps = append(ps, fmt.Sprintf("%d/%d/%d", pm.Stake, pm.ApplyHeight, pm.Type))
		}
	}
	return fmt.Sprintf("%s|%s|%d", strings.Join(cs, ","), strings.Join(ps, ","), poolReader.GetTotalStake(h, w.root))
}

func (w *world) newCtx() {
	w.ctx = make(map[string]interface{})
	w.ctx["situation"] = "verify"
	w.ctx["refund"] = make(map[uint64]types.RefundInfoList) // VMExecutor.prepare
	w.txIndex = 0
}

func (w *world) header() *types.BlockHeader {
	return &types.BlockHeader{Height: w.height}
}

func srcString(b []byte) string {
	if len(b) == 0 {
		return "0x"
	}
	return "0x" + hx.Hex(b)
}

var zeroSign = common.BytesToSign(make([]byte, 65))

// runTx mirrors the per-transaction part of core.VMExecutor.Execute for the
// dev chain config with all proposals up to 027 active (025 excepted).
func (w *world) runTx(txType int32, src []byte, data string) string {
	w.txSeq++
	tx := &types.Transaction{Type: txType, Source: srcString(src), Data: data, Sign: zeroSign}
	tx.Hash = common.BytesToHash(common.Sha256([]byte(fmt.Sprintf("c20-%d", w.txSeq))))
	hdr := w.header()
	if common.IsProposal013() {
		w.adb.Prepare(tx.Hash, common.Hash{}, w.txIndex)
	}
	if common.IsProposal006() && !common.IsProposal007() {
		w.adb.IncreaseNonce(common.HexToAddress(tx.Source))
	}
	ex := executor.GetTxExecutor(txType)
	if ex == nil {
		return "noexec"
	}
	res := ""
	success, addAble, msg := ex.BeforeExecute(tx, hdr, w.adb, w.ctx)
	if common.IsProposal018() && !addAble {
		return "evict"
	}
	if success {
		snapshot := w.adb.Snapshot()
		success, msg = ex.Execute(tx, hdr, w.adb, w.ctx)
		if !success {
			w.adb.RevertToSnapshot(snapshot)
			res = "fail:" + classify(txType, msg)
		} else {
			if tx.Source != "" && !common.IsProposal006() {
				w.adb.IncreaseNonce(common.HexToAddress(tx.Source))
			}
			res = "ok"
		}
	} else {
		res = "skip:" + classify(txType, msg)
	}
	if common.IsProposal007() {
		if !(types.IsContractTx(tx.Type) && success) {
			nonce := w.adb.GetNonce(common.HexToAddress(tx.Source))
			w.adb.SetNonce(common.HexToAddress(tx.Source), nonce+1)
		}
	}
	w.txIndex++
	return res
}

// classify maps the executors' free-text messages to a small enum (shared with the Lean driver).
func classify(txType int32, msg string) string {
	has := func(s string) bool { return strings.Contains(msg, s) }
	switch {
	case has("not enough max, addr") && has("stake:"):
		return "balance"
	case has("not enough max"):
		return "nofee"
	case has("json Unmarshal error"), has("fail to refund") && has(",err:"):
		return "json"
	case has("mainnet not support"):
		return "mainnet"
	case has("recoverPubkey failed"):
		return "recover"
	case has("not enough rpg"):
		return "rpg"
	case has("fail to call create2"):
		return "create2"
	case has("miner type error"):
		return "type"
	case has("not enough stake, minerId"):
		return "minstake"
	case has("VrfPublicKey or PublicKey is empty"):
		return "keys"
	case has("not enough balance"):
		return "balance"
	case has("miner is existed"):
		return "idexists"
	case has("miner account is existed"):
		return "acctexists"
	case has("miner is not existed"), has("miner not existed"):
		return "nominer"
	case has("auth error"):
		return "auth"
	case has("not enough stake"):
		return "stake"
	case has("fail to refund") && has("err:"):
		return "other"
	case has("fail to refund"):
		return "amount"
	case has("fail to getMiner"):
		return "nominer"
	case has("no need to change"):
		return "noneed"
	case has("fail to auth"):
		return "auth"
	case has("cannot use account"):
		return "occupied"
	case has("overflow"):
		return "overflow"
	}
	return "other"
}

// stake opcodes: the contract at `contract` (which must be the account of a miner for anything to happen)
// executes STAKE / UNSTAKE / UNSTAKEALL on itself, called by `origin` through the real EVM.
func stakeOpCode(op byte, self common.Address, amount *big.Int) []byte {
	var b []byte
	b = append(b, 0x73)
	b = append(b, self[:]...) // PUSH20 pointer address (popped second)
	if op != 0xeb {
		v := make([]byte, 32)
		ab := amount.Bytes()
		copy(v[32-len(ab):], ab)
		b = append(b, 0x7f)
		b = append(b, v...) // PUSH32 value (popped first)
	}
	return append(b, op, 0x50, 0x00) // op POP STOP
}

func (w *world) runStakeOp(op byte, origin []byte, contract []byte, amount *big.Int) string {
	k := common.BytesToAddress(contract)
	w.adb.SetCode(k, stakeOpCode(op, k, amount))
	ctx := vm.Context{CanTransfer: vm.CanTransfer, Transfer: vm.Transfer, Origin: common.BytesToAddress(origin),
		Coinbase: common.Address{}, BlockNumber: new(big.Int).SetUint64(w.height), Time: big.NewInt(1700000000),
		Difficulty: big.NewInt(123), GasPrice: big.NewInt(1000000000), GasLimit: 900000000}
	evm := vm.NewEVMWithNFT(ctx, w.adb, w.adb)
	_, _, _, err := evm.Call(vm.AccountRef(ctx.Origin), k, nil, ctx.GasLimit, big.NewInt(0))
	if err != nil {
		return "err"
	}
	return "ok"
}

func escrowAddr(height uint64) common.Address {
	return common.BytesToAddress(common.Sha256([]byte("refund" + strconv.FormatUint(height, 10))))
}

// endBlock mirrors VMExecutor.after (miner-relevant part) + IntermediateRoot + Commit + reopen.
func (w *world) endBlock(next uint64) string {
	service.RefundManagerImpl.Add(types.GetRefundInfo(w.ctx), w.adb)
	service.RefundManagerImpl.CheckAndMove(w.height, w.adb)
	if common.LocalChainConfig.Proposal004Block == w.height {
		service.RefundManagerImpl.CheckAndMove(0, w.adb)
	}
	w.adb.IntermediateRoot(true)
	root, err := w.adb.Commit(true)
	if err != nil {
		return "commit-error"
	}
	adb, err := w.open(root)
	if err != nil {
		return "reopen-error"
	}
	w.adb = adb
	w.root = root
	w.height = next
	w.heights = append(w.heights, next)
	common.SetBlockHeight(next)
	w.newCtx()
	return "ok"
}

// rewind discards the block being executed (as when a cast block is not adopted or a fork is abandoned): a fresh
// AccountDB over the last committed root, a fresh context. Whatever lives outside the account state stays.
func (w *world) rewind() string {
	adb, err := w.open(w.root)
	if err != nil {
		return "reopen-error"
	}
	w.adb = adb
	w.newCtx()
	return "ok"
}

func (w *world) pkStr() string {
	kk := make([]string, 0)
	for _, id := range w.ids {
		v, err := service.MinerManagerImpl.GetPubkey(id)
		if err != nil {
			kk = append(kk, "nil")
		} else {
			kk = append(kk, hx.Hex(v))
		}
	}
	return strings.Join(kk, ",")
}

func minerStr(m *types.Miner) string {
	return fmt.Sprintf("%s/%d/%d/%d/%d/%s", hx.Hex(m.Id), m.Type, m.Stake, m.Status, m.ApplyHeight, hx.Hex(m.Account))
}

func (w *world) iterStr(kind byte) string {
	es := service.MinerManagerImpl.VerifC20Iterate(kind, w.adb)
	parts := make([]string, 0, len(es))
	for _, e := range es {
		if e.Miner == nil {
			continue // non-record trie entries (stake/account/status slots)
		}
		f := "n"
		if e.Flagged {
			f = "a"
		}
		parts = append(parts, minerStr(e.Miner)+"/"+f)
	}
	return strings.Join(parts, ",")
}

func (w *world) dump() string { return w.dumpParts(true) }

// dumpParts(false) leaves out balances and escrow (account-storage reads outside the registry readers).
func (w *world) dumpParts(all bool) string {
	mm := service.MinerManagerImpl
	var sb strings.Builder
	sb.WriteString("P=" + w.iterStr(common.MinerTypeProposer))
	sb.WriteString(" V=" + w.iterStr(common.MinerTypeValidator))
	g := make([]string, 0)
	for _, id := range w.ids {
		m := mm.GetMiner(id, w.adb)
		if m == nil {
			g = append(g, "nil")
		} else {
			g = append(g, minerStr(m))
		}
	}
	sb.WriteString(" G=" + strings.Join(g, ","))
	a := make([]string, 0)
	for _, ac := range w.accts {
		id := mm.GetMinerIdByAccount(ac, w.adb)
		if id == nil {
			a = append(a, "nil")
		} else {
			a = append(a, hx.Hex(id))
		}
	}
	sb.WriteString(" A=" + strings.Join(a, ","))
	for _, h := range []uint64{w.height, w.height + common.HeightAfterStake} {
		total, detail := mm.GetProposerTotalStakeWithDetail(h, w.adb)
		ds := make([]string, 0)
		for k, v := range detail {
			ds = append(ds, strings.TrimPrefix(k, "0x")+":"+strconv.FormatUint(v, 10))
		}
		sort.Strings(ds)
		ps, vs := mm.GetAllMinerIdAndAccount(h, w.adb)
		pl, vl := make([]string, 0), make([]string, 0)
		for k, v := range ps {
			pl = append(pl, strings.TrimPrefix(k, "0x")+":"+hx.Hex(v.Bytes()))
		}
		for k, v := range vs {
			vl = append(vl, strings.TrimPrefix(k, "0x")+":"+hx.Hex(v.Bytes()))
		}
		sort.Strings(pl)
		sort.Strings(vl)
		sb.WriteString(fmt.Sprintf(" T=%d/%d/%s/%s/%s", total, len(detail), strings.Join(ds, ","), strings.Join(pl, ","), strings.Join(vl, ",")))
	}
	b := make([]string, 0)
	if !all {
		return sb.String() + " K=" + w.pkStr()
	}
	for _, ad := range append(append([]common.Address{}, w.addrs...), common.FeeAccount) {
		b = append(b, w.adb.GetBalance(ad).String())
	}
	sb.WriteString(" B=" + strings.Join(b, ","))
	e := make([]string, 0)
	seen := map[uint64]bool{}
	for _, h := range w.heights {
		eh := h + refundDelay
		if seen[eh] {
			continue
		}
		seen[eh] = true
		ea := escrowAddr(eh)
		for _, ac := range w.accts {
			v := w.adb.GetData(ea, ac)
			if len(v) != 0 {
				e = append(e, fmt.Sprintf("%d:%s=%s", eh, hx.Hex(ac), new(big.Int).SetBytes(v).String()))
			}
		}
	}
	sb.WriteString(" E=" + strings.Join(e, ","))
	r := make([]string, 0)
	ri := types.GetRefundInfo(w.ctx)
	hs := make([]uint64, 0)
	for h := range ri {
		hs = append(hs, h)
	}
	sort.Slice(hs, func(i, j int) bool { return hs[i] < hs[j] })
	for _, h := range hs {
		for _, it := range ri[h].List {
			r = append(r, fmt.Sprintf("%d:%s=%s", h, hx.Hex(it.Id), it.Value.String()))
		}
	}
	sb.WriteString(" R=" + strings.Join(r, ","))
	vt, vd := mm.GetValidatorsStake(w.ids, w.adb)
	vs := make([]string, 0)
	for a, v := range vd {
		vs = append(vs, hx.Hex(a[:])+":"+strconv.FormatUint(v, 10))
	}
	sort.Strings(vs)
	sb.WriteString(fmt.Sprintf(" S=%d/%s", vt, strings.Join(vs, ",")))
	sb.WriteString(" K=" + w.pkStr())
	x := hx.Guard(func() string { return w.readerStr() })
	if strings.HasPrefix(x, "PANIC") {
		x = "PANIC"
	}
	sb.WriteString(" X=" + x)
	return sb.String()
}

// ---- op interpreter (one protocol line -> answer) ----

func csvBytes(s string) ([][]byte, error) {
	res := make([][]byte, 0)
	if s == "" || s == "." {
		return res, nil
	}
	for _, p := range strings.Split(s, ",") {
		b, err := hx.UnHex(p)
		if err != nil {
			return nil, err
		}
		res = append(res, b)
	}
	return res, nil
}

func minerJSON(id []byte, typ uint64, stake uint64, acct, pk, vrf []byte) string {
	// Built from the repo's own struct so that field names/encodings follow the code.
	if typ <= 255 {
		m := types.Miner{Id: id, Type: byte(typ), Stake: stake, Account: acct, PublicKey: pk, VrfPublicKey: vrf}
		b, _ := json.Marshal(m)
		return string(b)
	}
	return "{"
}

var badData = map[string][]string{
	"apply-json":    {"", "{", "[]", `{"stake":-1}`, `{"stake":1.5}`, `{"type":256}`, `{"stake":18446744073709551616}`, `"x"`, `{"id":1}`},
	"add-json":      {"", "{", "[1]", `{"stake":-5}`, `{"stake":"7"}`},
	"chacc-json":    {"", "nul", `{"account":5}`},
	"refund-json":   {"", "{", `{"Amount":5}`, `[]`},
	"refund-amount": {`{"Amount":"-1","MinerId":"0x01"}`, `{"Amount":"1.5","MinerId":"0x01"}`, `{"Amount":"","MinerId":"0x01"}`, `{"Amount":"18446744073709551616","MinerId":"0x01"}`, `{}`, `null`,
		`{"Amount":"+5","MinerId":"0x01"}`, `{"Amount":" 5","MinerId":"0x01"}`, `{"Amount":"0x10","MinerId":"0x01"}`, `{"Amount":"1e3","MinerId":"0x01"}`},
}
var badType = map[string]int32{"apply-json": types.TransactionTypeMinerApply, "add-json": types.TransactionTypeMinerAdd,
	"chacc-json": types.TransactionTypeMinerChangeAccount, "refund-json": types.TransactionTypeMinerRefund, "refund-amount": types.TransactionTypeMinerRefund}

type interp struct {
	w *world
}

// nodeContractCode: a stand-in for the main-node contract (function 0x412a5a6d): three empty logs and a fourth whose
// 32-byte data word is ORIGIN xor 0x5a…5a, which is what minerNodeExecutor.generateContractAddress reads the new
// controlling address from.
func nodeContractCode() []byte {
	b := []byte{0x32, 0x73} // ORIGIN PUSH20
	for i := 0; i < 20; i++ {
		b = append(b, 0x5a)
	}
	b = append(b, 0x18, 0x60, 0x00, 0x52) // XOR PUSH1 0 MSTORE
	for i := 0; i < 3; i++ {
		b = append(b, 0x60, 0x00, 0x60, 0x00, 0xa0) // LOG0(0,0)
	}
	return append(b, 0x60, 0x20, 0x60, 0x00, 0xa0, 0x00) // LOG0(0,32) STOP
}

// stubGroups: types.GroupChainHelper / types.ForkHelper whose available groups have the given dismiss heights.
type stubGroups struct{ dismiss []uint64 }

func (g *stubGroups) GetAvailableGroupsByMinerId(height uint64, minerId []byte) []*types.Group {
	res := make([]*types.Group, 0)
	for _, d := range g.dismiss {
		res = append(res, &types.Group{Header: &types.GroupHeader{DismissHeight: d}})
	}
	return res
}
func (g *stubGroups) GetGroupById(id []byte) *types.Group          { return nil }
func (g *stubGroups) GetBlockHeader(height uint64) *types.BlockHeader { return nil }

var groupStub = &stubGroups{}

// refundHeight runs the real RefundManager.getRefundHeight under the given fork flags (Proposal012 / Proposal004 active,
// Proposal011Block == now) with the given groups, then restores the session's configuration.
func refundHeight(p012, p004, p011now bool, now, left uint64, typ byte, dismiss []uint64, fork bool) uint64 {
	saved := common.LocalChainConfig
	savedH := common.GetBlockHeight()
	defer func() { common.LocalChainConfig = saved; common.SetBlockHeight(savedH) }()
	c := saved
	const never = ^uint64(0)
	c.Proposal012Block, c.Proposal004Block, c.Proposal011Block = never, never, never
	if p012 {
		c.Proposal012Block = 0
	}
	if p004 {
		c.Proposal004Block = 0
	}
	if p011now {
		c.Proposal011Block = now
	}
	common.LocalChainConfig = c
	common.SetBlockHeight(now)
	groupStub.dismiss = dismiss
	sit := "verify"
	if fork {
		sit = "fork"
	}
	// getRefundHeight is unexported: it is reached through the exported GetRefundStake (first result) on a scratch
	// account state holding one miner of the given type whose whole stake `left` stays locked (refund of 0)
	adb, err := middleware.AccountDBManagerInstance.GetAccountDBByHash(common.Hash{})
	if err != nil {
		panic(err)
	}
	id, acct := []byte{0xc2, 0x0e}, []byte{0xac}
	service.MinerManagerImpl.InsertMiner(&types.Miner{Id: id, Type: typ, Stake: left, Account: acct, PublicKey: []byte{1}, VrfPublicKey: []byte{1}}, adb)
	h, _, _, rerr := service.RefundManagerImpl.GetRefundStake(now, id, acct, 0, adb, sit)
	if rerr != nil {
		panic(rerr)
	}
	return h
}

var devConfig *common.ChainConfig

// setConfig switches the fork schedule to one of the three networks' (values copied from common/version.go;
// the T-gen fact `forkFlagsOnPath` pins which flags the miner path reads). Sessions under mainnet/robin run at
// heights beyond every proposal of that network, where all flags on the path have the values the model fixes.
func setConfig(name string) bool {
	if devConfig == nil {
		c := common.LocalChainConfig
		devConfig = &c
	}
	c := *devConfig
	set := func(chain string, v []uint64) {
		c.ChainId, c.NetworkId = chain, chain
		c.Proposal001Block, c.Proposal002Block, c.Proposal003Block, c.Proposal004Block, c.Proposal005Block = v[0], v[1], v[2], v[3], v[4]
		c.Proposal006Block, c.Proposal007Block, c.Proposal008Block, c.Proposal009Block, c.Proposal010Block = v[5], v[6], v[7], v[8], v[9]
		c.Proposal011Block, c.Proposal012Block, c.Proposal013Block, c.Proposal014Block, c.Proposal015Block = v[10], v[11], v[12], v[13], v[14]
		c.Proposal016Block, c.Proposal017Block, c.Proposal018Block, c.Proposal019Block, c.Proposal020Block = v[15], v[16], v[17], v[18], v[19]
		c.Proposal021Block, c.Proposal022Block, c.Proposal023Block, c.Proposal024Block, c.Proposal025Block = v[20], v[21], v[22], v[23], v[24]
		c.Proposal026Block, c.Proposal027Block = v[25], v[26]
	}
	const never = ^uint64(0)
	switch name {
	case "dev":
	case "mainnet":
		set("2025", []uint64{894116, 3353000, 3830000, 5310000, 10293600, 16733000, 16082000, 16082000, 16733000, never, 11750354, 22815000,
			28998000, 48081000, 53015000, 54038500, 54038500, 55959500, never, 61794000, 61202000, 62606000, 63100000, 62575384, 63311000, 64666400, 69329000})
	case "robin":
		set("9527", []uint64{0, 2802000, 3380000, 5310000, 10003000, 12582000, 14261000, 16058000, 16740000, 19632000, never, 23120000,
			29063000, 0, 61205000, 62320000, 62997000, 65795000, 66114000, 75248100, 74312000, 76005000, 77826000, 0, 77920000, 79365500, 84150000})
	default:
		return false
	}
	common.LocalChainConfig = c
	return true
}

func (ip *interp) exec(line string) string {
	t := strings.Fields(line)
	if len(t) == 0 {
		return "bad-op"
	}
	u64 := func(s string) uint64 { v, _ := strconv.ParseUint(s, 10, 64); return v }
	bs := func(s string) []byte { b, _ := hx.UnHex(s); return b }
	if t[0] == "config" {
		if len(t) == 2 && setConfig(t[1]) {
			return "ok"
		}
		return "bad-op"
	}
	if t[0] != "reset" && ip.w == nil {
		return "bad-op"
	}
	w := ip.w
	switch t[0] {
	case "reset":
		ip.w = newWorld(u64(t[1]))
		return "ok"
	case "uni":
		w.ids, _ = csvBytes(t[1])
		w.accts, _ = csvBytes(t[2])
		ad, _ := csvBytes(t[3])
		w.addrs = nil
		for _, a := range ad {
			w.addrs = append(w.addrs, common.BytesToAddress(a))
		}
		return "ok"
	case "bal":
		v, _ := new(big.Int).SetString(t[2], 10)
		w.adb.SetBalance(common.BytesToAddress(bs(t[1])), v)
		return "ok"
	case "code":
		w.adb.SetCode(common.BytesToAddress(bs(t[1])), []byte{0x60, 0x00})
		return "ok"
	case "genesis":
		m := &types.Miner{Type: byte(u64(t[1])), Id: bs(t[2]), Account: bs(t[3]), Stake: u64(t[4]), ApplyHeight: u64(t[5]), Status: byte(u64(t[6])),
			PublicKey: []byte{1}, VrfPublicKey: []byte{1}}
		return strconv.Itoa(service.MinerManagerImpl.InsertMiner(m, w.adb))
	case "apply":
		return w.runTx(types.TransactionTypeMinerApply, bs(t[1]), minerJSON(bs(t[2]), u64(t[3]), u64(t[4]), bs(t[5]), bs(t[6]), bs(t[7])))
	case "add":
		return w.runTx(types.TransactionTypeMinerAdd, bs(t[1]), minerJSON(bs(t[2]), 0, u64(t[3]), nil, nil, nil))
	case "refund":
		d, _ := json.Marshal(executor.MinerRefundData{Amount: t[3], MinerId: srcString(bs(t[2]))})
		return w.runTx(types.TransactionTypeMinerRefund, bs(t[1]), string(d))
	case "chacc":
		return w.runTx(types.TransactionTypeMinerChangeAccount, bs(t[1]), minerJSON(bs(t[2]), 0, 0, bs(t[3]), nil, nil))
	case "bad":
		ds := badData[t[1]]
		return w.runTx(badType[t[1]], bs(t[2]), ds[int(u64(t[3]))%len(ds)])
	case "vmstake", "vmunstake", "vmunstakeall":
		amt := new(big.Int)
		if len(t) > 3 {
			amt, _ = new(big.Int).SetString(t[3], 10)
		}
		op := map[string]byte{"vmstake": 0xee, "vmunstake": 0xef, "vmunstakeall": 0xeb}[t[0]]
		return w.runStakeOp(op, bs(t[1]), bs(t[2]), amt)
	case "nodecode":
		w.adb.SetCode(common.MainNodeContract(), nodeContractCode())
		return "ok"
	case "node":
		return w.runTx(types.TransactionTypeOperatorNode, bs(t[1]), "")
	case "purge":
		ids, _ := csvBytes(t[1])
		wl := map[string]byte{}
		for _, id := range ids {
			wl[common.ToHex(id)] = 0
		}
		service.MinerManagerImpl.RemoveUnusedValidator(w.adb, wl)
		return "ok"
	case "rheight":
		// rheight <p012> <p004> <p011now> <fork> <now> <left> <type> <dismiss csv|.>
		ds := []uint64{}
		if t[8] != "." {
			for _, x := range strings.Split(t[8], ",") {
				ds = append(ds, u64(x))
			}
		}
		return strconv.FormatUint(refundHeight(t[1] == "1", t[2] == "1", t[3] == "1", u64(t[5]), u64(t[6]), byte(u64(t[7])), ds, t[4] == "1"), 10)
	case "rewind":
		return w.rewind()
	case "endblock":
		return w.endBlock(u64(t[1]))
	case "dump":
		return w.dump()
	}
	return "bad-op"
}

var _ = utility.UInt64ToByte
