package main

import (
	"verif/harness/hx"
)

type genStats struct{ m map[string]int }

func newGenStats() *genStats { return &genStats{m: map[string]int{}} }
func (g *genStats) json() string { return "\"gen\":{}" }

func genEpisode(r *hx.Rng, e int, st *genStats) []string { return nil }

func runSearch(out *hx.Out, r *hx.Rng, thorough bool) {}
