package main

import (
	"fmt"
	"sort"
	"strconv"
	"strings"

	"com.tuntun.rangers/node/src/common"
	"com.tuntun.rangers/node/src/service"
	"verif/harness/hx"
)

// genStats: input distribution beyond op kinds / result classes (hx.Out has those).
type genStats struct{ m map[string]int }

func newGenStats() *genStats { return &genStats{m: map[string]int{}} }
func (g *genStats) inc(k string) { g.m[k]++ }
func (g *genStats) json() string {
	ks := make([]string, 0, len(g.m))
	for k := range g.m {
		ks = append(ks, k)
	}
	sort.Strings(ks)
	ps := make([]string, 0)
	for _, k := range ks {
		ps = append(ps, strconv.Quote(k)+":"+strconv.Itoa(g.m[k]))
	}
	return "\"gen\":{" + strings.Join(ps, ",") + "}"
}

const (
	e18    = "000000000000000000"
	maxU64 = "18446744073709551615"
)

var stakePool = []uint64{0, 1, 399, 400, 401, 799, 800, 1200, 1999, 2000, 2001, 4000, 5000,
	1<<53 - 1, 1 << 53, 1<<53 + 1, 1<<53 + 3, 1 << 63, 1<<64 - 1}

// lattice64: the 64-bit boundary lattice for a uint64 quantity on the path, relative to a current stake:
// small values, stake±1, the 2^31 / 2^32 / 2^53 / 2^63 (sign) / 2^64 (wrap) boundaries and their stake-shifted neighbours.
func lattice64(stake uint64) []uint64 {
	vs := []uint64{0, 1, stake - 1, stake, stake + 1, 1<<31 - 1, 1 << 31, 1<<31 + 1, 1<<32 - 1, 1 << 32, 1<<32 + 1,
		1<<53 - 1, 1 << 53, 1<<53 + 1, 1<<63 - 1, 1 << 63, 1<<63 + 1, 1<<63 + stake - 1, 1<<63 + stake, 1<<63 + stake + 1,
		1<<63 + 10000, 0 - stake - 1, 0 - stake, 0 - stake + 1, 1<<64 - 2, 1<<64 - 1}
	seen := map[uint64]bool{}
	out := []uint64{}
	for _, v := range vs {
		if !seen[v] {
			seen[v] = true
			out = append(out, v)
		}
	}
	return out
}

// refundHeightStream: the release height of a refund under every fork configuration (RefundManager.getRefundHeight
// against `refundHeightOf`): all 16 flag/situation combinations, both miner types and a non-miner type, group counts 0..5
// around the number of groups the remaining stake pays for, dismiss heights incl. duplicates, MaxUint64 ("never") and
// MaxUint64-1 (wraps), heights around the reward period and around 50 (the Proposal011 subtraction wraps below it).
func refundHeightStream(r *hx.Rng, run func(string) string, n int, st *genStats) {
	nows := []uint64{0, 1, 49, 50, 51, 35999, 36000, 36001, 71999, 72000, 5000000, 1<<40 + 7}
	for i := 0; i < n; i++ {
		now := nows[r.Intn(len(nows))]
		if r.Chance(1, 3) {
			now = uint64(r.Intn(200000))
		}
		typ := r.Pick(0, 0, 0, 1, 1)
		k := r.Intn(6)
		ds := make([]string, 0)
		for j := 0; j < k; j++ {
			var d uint64
			switch r.Intn(8) {
			case 0:
				d = ^uint64(0)
			case 1:
				d = ^uint64(0) - 1
			case 2:
				d = ^uint64(0) - 50
			case 3:
				d = now
			case 4:
				d = 0
			default:
				d = now + uint64(r.Intn(100000))
			}
			ds = append(ds, strconv.FormatUint(d, 10))
		}
		dcsv := "."
		if k > 0 {
			dcsv = strings.Join(ds, ",")
		}
		left := uint64(r.Pick(0, 1, 399, 400, 401, 799, 800, 1200, 1999, 2000)) + uint64(r.Intn(2))*uint64(r.Intn(3))*400
		b := func() int { return r.Intn(2) }
		p012 := 0
		if r.Chance(1, 5) {
			p012 = 1
		}
		run(fmt.Sprintf("rheight %d %d %d %d %d %d %d %s", p012, b(), r.Pick(0, 0, 1), b(), now, left, typ, dcsv))
		st.inc(fmt.Sprintf("rheight-type%d-groups%d", typ, k))
	}
}

// latticeFamily: deterministic scenarios that run before anything random — a miner of each type with a small and a
// larger stake, then ONE operation with a lattice amount: refund (transaction), add-stake, UNSTAKE opcode.
// `rich` gives the payer 2^120 wei so that huge add-stake amounts are payable (correspondence only).
func latticeFamily(run func(string) string, rich bool) {
	a1, a2 := strings.Repeat("a1", 20), strings.Repeat("a2", 20)
	balance := "100000" + e18
	if rich {
		balance = "1329227995784915872903807060280344576"
	}
	for _, typ := range []int{0, 1} {
		for _, stake := range []uint64{uint64(400 + 1600*typ), 6000} {
			for _, kind := range []string{"refund", "add", "vmunstake"} {
				for _, v := range lattice64(stake) {
					run("config dev")
					run("reset 100")
					run("uni 11 " + a1 + "," + a2 + " " + a1 + "," + a2)
					run("bal " + a1 + " " + balance)
					run("bal " + a2 + " " + balance)
					acct := a1
					if kind == "vmunstake" {
						acct = a2 // the contract that executes the opcode is the miner's account
					}
					run(fmt.Sprintf("apply %s 11 %d %d %s 01 01", a1, typ, stake, acct))
					run("endblock 101")
					run("dump")
					switch kind {
					case "refund":
						run(fmt.Sprintf("refund %s 11 %d", a1, v))
					case "add":
						run(fmt.Sprintf("add %s 11 %d", a1, v))
					case "vmunstake":
						run(fmt.Sprintf("vmunstake %s %s %d%s", a1, a2, v, e18))
					}
					run("dump")
					run("endblock 102")
					run("dump")
				}
			}
		}
	}
}

func pickStake(r *hx.Rng, typ int) uint64 {
	switch r.Intn(10) {
	case 0, 1, 2:
		if typ == 1 {
			return uint64(r.Pick(1999, 2000, 2001, 2400, 4000))
		}
		return uint64(r.Pick(399, 400, 401, 800, 1200))
	case 3:
		return stakePool[r.Intn(len(stakePool))]
	case 4:
		return uint64(r.Intn(6000))
	}
	if typ == 1 {
		return uint64(2000 + r.Intn(3)*400)
	}
	return uint64(400 + r.Intn(4)*400)
}

type episode struct {
	r       *hx.Rng
	ip      *interp
	run     func(string) string
	st      *genStats
	ids     [][]byte
	accts   [][]byte // account byte strings (20 bytes, short, long, empty)
	srcs    [][]byte // transaction sources
	crafted bool
}

func h(b []byte) string { return hx.Hex(b) }

func (e *episode) id() []byte {
	if e.r.Chance(1, 25) {
		return [][]byte{{}, {0}, {0, 0}}[e.r.Intn(3)]
	}
	return e.ids[e.r.Intn(len(e.ids))]
}
func (e *episode) acct() []byte { return e.accts[e.r.Intn(len(e.accts))] }
func (e *episode) src() []byte  { return e.srcs[e.r.Intn(len(e.srcs))] }

// knownMiner returns an id that currently exists (by GetMiner) and its record, if any.
func (e *episode) knownMiner() ([]byte, uint64, []byte, byte, bool) {
	perm := e.r.Intn(len(e.ids))
	for i := range e.ids {
		id := e.ids[(i+perm)%len(e.ids)]
		m := service.MinerManagerImpl.GetMiner(id, e.ip.w.adb)
		if m != nil {
			return id, m.Stake, m.Account, m.Type, true
		}
	}
	return nil, 0, nil, 0, false
}

func genEpisode(r *hx.Rng, ip *interp, run func(string) string, n int, st *genStats) {
	e := &episode{r: r, ip: ip, run: run, st: st}
	h0 := uint64(r.Pick(12, 100, 100, 1000, 35999, 36000, 5000000))
	// fork schedule of the session: mostly dev; a share under the mainnet / robin schedules beyond their last proposal
	switch r.Intn(7) {
	case 0:
		run("config mainnet")
		h0 = 69329000 + uint64(r.Intn(1000000))
		st.inc("config-mainnet")
	case 1:
		run("config robin")
		h0 = 84150000 + uint64(r.Intn(1000000))
		st.inc("config-robin")
	default:
		run("config dev")
	}
	run(fmt.Sprintf("reset %d", h0))
	// universe
	nid := 3 + r.Intn(3)
	for i := 0; i < nid; i++ {
		l := r.Pick(1, 2, 8, 20, 31, 32, 32, 33)
		b := r.Bytes(l)
		b[0] |= 1 // not all-zero
		if l > 1 && r.Chance(1, 5) {
			b[0] = 0 // leading zero byte (big-endian encodings, groupsig.ID normalisation): still a distinct key
			b[l-1] |= 1
			st.inc("id-leading-zero")
		}
		if l > 1 && r.Chance(1, 8) {
			b[l-1] = 0 // trailing zero byte
			st.inc("id-trailing-zero")
		}
		e.ids = append(e.ids, b)
	}
	search := st.m["searcher"] > 0 // searcher: empty initial registry, real-size balances, well-formed accounts
	if r.Chance(1, 3) && !(search && r.Chance(1, 2)) { // crafted ids: key-family collisions Sha256^k(id0)
		e.crafted = true
		k := 1 + r.Intn(3)
		c := e.ids[0]
		for i := 0; i < k; i++ {
			c = common.Sha256(c)
		}
		e.ids = append(e.ids, c)
		st.inc(fmt.Sprintf("crafted-id-sha256^%d", k))
	}
	na := 3 + r.Intn(2)
	for i := 0; i < na; i++ {
		b := r.Bytes(20)
		b[0] |= 0x80 // never looks like JSON, never collides with short accounts' addresses
		if r.Chance(1, 6) {
			b[0] = 0 // address with a leading zero byte
			b[1] |= 0x80
			st.inc("account-leading-zero")
		}
		if r.Chance(1, 8) {
			b[19] = 0 // trailing zero byte (left-aligned BytesToAddress padding looks the same)
			st.inc("account-trailing-zero")
		}
		e.accts = append(e.accts, b)
	}
	e.srcs = append(e.srcs, e.accts...)
	if !search && r.Chance(1, 4) {
		s := r.Bytes(1 + r.Intn(3))
		s[0] = 0x40 | s[0]&0x3f
		e.accts = append(e.accts, s)
		e.srcs = append(e.srcs, s)
		st.inc("short-account")
	}
	if !search && r.Chance(1, 6) {
		l := r.Bytes(21 + r.Intn(4))
		l[len(l)-20] = 0x20 | l[len(l)-20]&0x1f
		e.accts = append(e.accts, l)
		e.srcs = append(e.srcs, l)
		st.inc("long-account")
	}
	if !search && r.Chance(1, 8) {
		e.accts = append(e.accts, []byte{})
		e.srcs = append(e.srcs, []byte{})
		st.inc("empty-account")
	}
	addrs := make([]string, 0)
	seenA := map[string]bool{}
	for _, s := range append(append([][]byte{}, e.srcs...), make([]byte, 20)) {
		a := common.BytesToAddress(s)
		if !seenA[h(a[:])] {
			seenA[h(a[:])] = true
			addrs = append(addrs, h(a[:]))
		}
	}
	csv := func(bs [][]byte) string {
		ps := make([]string, len(bs))
		for i, b := range bs {
			ps[i] = h(b)
		}
		return strings.Join(ps, ",")
	}
	run("uni " + csv(e.ids) + " " + csv(e.accts) + " " + strings.Join(addrs, ","))
	for _, a := range addrs {
		var v string
		c := r.Intn(16)
		if c < 5 && r.Chance(3, 4) {
			c = 7 // keep fee-less / stake-less payers, but do not let `skip:nofee` dominate the stream
		}
		if search && c == 5 {
			c = 6
		}
		switch c {
		case 0:
			v = "0"
		case 1:
			v = "999999999999999" // fee-1
		case 2:
			v = "1000000000000000" // fee
		case 3:
			v = "400" + e18 // one validator stake, nothing for the fee
		case 4:
			v = "400001" + "000000000000000" // 400 stake + fee exactly
		case 5:
			v = "1329227995784915872903807060280344576" // 2^120: stakes above 2^53 become payable
		case 6:
			v = "2000001" + "000000000000000"
		default:
			v = "100000" + e18
		}
		run("bal " + a + " " + v)
	}
	if !search && r.Chance(1, 3) {
		run("nodecode") // stand-in main-node contract: operator-node transactions (type 7) can succeed
		st.inc("node-contract-deployed")
	}
	if r.Chance(1, 5) {
		run("code " + addrs[r.Intn(len(addrs))])
		st.inc("contract-account")
	}
	if !search && r.Chance(1, 3) { // any registry state: genesis-style inserts (no uniqueness checks in InsertMiner)
		k := 1 + r.Intn(3)
		for i := 0; i < k; i++ {
			typ := r.Intn(2)
			stake := pickStake(r, typ)
			if stake >= 1<<53 {
				stake = 400
			}
			run(fmt.Sprintf("genesis %d %s %s %d %d %d", typ, h(e.ids[r.Intn(len(e.ids))]), h(e.acct()), stake, r.Pick(0, 1, int(h0), int(h0)+1), r.Pick(0, 0, 0, 1)))
		}
		st.inc("genesis-registry")
		if r.Bool() {
			run(fmt.Sprintf("endblock %d", h0+1))
		}
	}
	run("dump")
	first := ip.w.heights[0]
	for i := 0; i < n; i++ {
		switch k := r.Intn(100); {
		case k < 25:
			typ := r.Pick(0, 0, 0, 1, 1, 1, 2, 255, 256)
			t := typ
			if t > 1 {
				t = 0
			}
			ac := e.acct()
			if r.Chance(1, 3) {
				ac = nil
			}
			if _, _, kac, _, ok := e.knownMiner(); ok && len(kac) > 0 && r.Chance(1, 6) {
				ac = kac // an account that already controls a miner (rejected unless the registration is of this very block)
				st.inc("apply-with-occupied-account")
			}
			pk, vrf := "01", "01"
			if r.Chance(1, 2) {
				pk = h(r.Bytes(1 + r.Intn(3))) + "01" // distinct public keys: the key cache must follow the registry, not the last applicant
			}
			if r.Chance(1, 20) {
				pk = []string{"-", "00"}[r.Intn(2)]
			}
			if r.Chance(1, 20) {
				vrf = []string{"-", "0000"}[r.Intn(2)]
			}
			id := e.id()
			if kid, _, _, ktyp, ok := e.knownMiner(); ok && r.Chance(1, 5) {
				// re-apply a registered id in the OTHER registry (the duplicate-id check must look at both)
				id = kid
				typ = 1 - int(ktyp)
				t = typ
				st.inc("apply-existing-id-other-type")
			}
			run(fmt.Sprintf("apply %s %s %d %d %s %s %s", h(e.src()), h(id), typ, pickStake(r, t), h(ac), pk, vrf))
		case k < 37:
			id, _, _, _, ok := e.knownMiner()
			if !ok || r.Chance(1, 5) {
				id = e.id()
			}
			d := uint64(r.Pick(0, 1, 1, 2, 100, 400, 1600))
			if r.Chance(1, 10) {
				d = stakePool[r.Intn(len(stakePool))]
			}
			if r.Chance(1, 8) {
				l := lattice64(400 + uint64(r.Intn(3))*1600)
				d = l[r.Intn(len(l))]
				st.inc("add-lattice64")
			}
			if m := service.MinerManagerImpl.GetMiner(id, e.ip.w.adb); m != nil && r.Chance(1, 2) {
				// boundary of re-activation: land exactly on / just above / just below the minimum
				min := uint64(400)
				if m.Type == 1 {
					min = 2000
				}
				if m.Stake <= min {
					d = min - m.Stake + uint64(r.Intn(3))
					if d > 0 && r.Chance(1, 3) {
						d--
					}
					st.inc("add-at-reactivation-boundary")
				}
			}
			run(fmt.Sprintf("add %s %s %d", h(e.src()), h(id), d))
		case k < 57:
			id, stake, ac, typ, ok := e.knownMiner()
			src := ac
			if !ok || r.Chance(1, 6) {
				id = e.id()
			}
			if !ok || r.Chance(1, 8) {
				src = e.src()
			}
			min := uint64(400)
			if typ == 1 {
				min = 2000
			}
			var am string
			switch r.Intn(9) {
			case 0:
				am = "0"
			case 1:
				am = "1"
			case 2:
				am = maxU64
			case 3:
				am = strconv.FormatUint(stake, 10)
			case 4:
				am = strconv.FormatUint(stake+1, 10)
			case 5:
				if stake >= min {
					am = strconv.FormatUint(stake-min, 10) // leaves exactly the minimum
				} else {
					am = "1"
				}
			case 6:
				if stake >= min {
					am = strconv.FormatUint(stake-min+1, 10) // one below the minimum
				} else {
					am = strconv.FormatUint(stake/2, 10)
				}
			default:
				am = strconv.FormatUint(uint64(r.Intn(int(stake%100000)+2)), 10)
			}
			if r.Chance(1, 6) {
				l := lattice64(stake)
				am = strconv.FormatUint(l[r.Intn(len(l))], 10)
				st.inc("refund-lattice64")
			}
			if r.Chance(1, 12) {
				am = "000" + am // ParseUint accepts leading zeros
				st.inc("refund-amount-leading-zeros")
			}
			run(fmt.Sprintf("refund %s %s %s", h(src), h(id), am))
		case k < 67:
			id, _, ac, _, ok := e.knownMiner()
			src := ac
			if !ok || r.Chance(1, 6) {
				id = e.id()
			}
			if !ok || r.Chance(1, 8) {
				src = e.src()
			}
			na := e.acct()
			if _, _, kac, _, ok2 := e.knownMiner(); ok2 && len(kac) > 0 && r.Chance(1, 5) {
				na = kac // target account already controls a miner
			}
			run(fmt.Sprintf("chacc %s %s %s", h(src), h(id), h(na)))
		case k < 71:
			kinds := []string{"apply-json", "add-json", "chacc-json", "refund-json", "refund-amount"}
			run(fmt.Sprintf("bad %s %s %d", kinds[r.Intn(len(kinds))], h(e.src()), r.Intn(16)))
		case k < 74:
			// apply -> partial refund below the minimum (record kept, aborted) -> top up to just below / at / above it
			id, stake, ac, typ, ok := e.knownMiner()
			if !ok || len(ac) == 0 {
				break
			}
			min := uint64(400)
			if typ == 1 {
				min = 2000
			}
			if stake >= min && stake < 1<<40 {
				cut := stake - min + 1 + uint64(r.Intn(3))
				if cut < stake {
					run(fmt.Sprintf("refund %s %s %d", h(ac), h(id), cut))
					run("dump")
					if r.Bool() {
						run(fmt.Sprintf("endblock %d", ip.w.height+1))
						run("dump")
					}
					left := stake - cut
					run(fmt.Sprintf("add %s %s %d", h(e.src()), h(id), min-left+uint64(r.Intn(3))-uint64(r.Intn(2))))
					st.inc("abort-then-topup")
				}
			}
		case k < 76 && !search:
			// house-keeping of the robin fork heights: remove every normal validator that is not whitelisted
			wl := []string{}
			for _, id := range e.ids {
				if r.Bool() {
					wl = append(wl, h(id))
				}
			}
			ws := "."
			if len(wl) > 0 {
				ws = strings.Join(wl, ",")
			}
			run("purge " + ws)
			st.inc("remove-unused-validators")
		case k < 80 && !search:
			// operator-node transaction (type 7): mostly by an account that controls a miner
			_, _, ac, _, ok := e.knownMiner()
			src := ac
			if !ok || r.Chance(1, 4) {
				src = e.src()
			}
			run("node " + h(src))
			st.inc("operator-node")
		case k < 83:
			run("rewind") // discarded block execution (process-local history): only the key cache may remember it
			st.inc("rewind")
		case k < 88 && !search:
			// stake opcodes executed by a contract that is (or is not) some miner's account
			_, stake, ac, typ, ok := e.knownMiner()
			kc := ac
			if !ok || len(ac) != 20 || r.Chance(1, 6) {
				kc = e.accts[0]
			}
			min := uint64(400)
			if typ == 1 {
				min = 2000
			}
			var amt string
			switch r.Intn(9) {
			case 0:
				amt = "0"
			case 1:
				amt = "900000000000000000" // 0.9
			case 2:
				amt = "1" + e18
			case 3:
				amt = "1500000000000000000"
			case 4:
				amt = strconv.FormatUint(stake, 10) + e18
			case 5:
				if stake >= min {
					amt = strconv.FormatUint(stake-min, 10) + e18
				} else {
					amt = "3" + e18
				}
			case 6:
				if stake >= min {
					amt = strconv.FormatUint(stake-min+1, 10) + "000000000000000001"
				} else {
					amt = "2" + e18
				}
			case 7:
				amt = "18446744073709551616" + e18 // whole tokens overflow uint64
				if r.Bool() {
					l := lattice64(stake)
					amt = strconv.FormatUint(l[r.Intn(len(l))], 10) + e18
				}
			default:
				amt = strconv.Itoa(r.Intn(5000)) + "5" + e18[1:]
			}
			switch r.Intn(5) {
			case 0, 1:
				run(fmt.Sprintf("vmstake %s %s %s", h(e.accts[0]), h(kc), amt))
			case 2, 3:
				run(fmt.Sprintf("vmunstake %s %s %s", h(e.accts[0]), h(kc), amt))
			default:
				run(fmt.Sprintf("vmunstakeall %s %s", h(e.accts[0]), h(kc)))
			}
			st.inc("stake-opcode")
		default:
			next := ip.w.height + 1
			if r.Chance(1, 4) {
				// jump to a height at which an escrow of this episode is released
				hs := ip.w.heights
				t := hs[r.Intn(len(hs))] + refundDelay
				if t > ip.w.height {
					next = t
					st.inc("jump-to-release")
				}
			} else if r.Chance(1, 10) {
				next = ip.w.height + uint64(1+r.Intn(400))
			} else if id, _, _, _, ok := e.knownMiner(); ok && r.Chance(1, 4) {
				// boundary of eligibility: land one before / on / one after a miner's apply height
				if mr := service.MinerManagerImpl.GetMiner(id, ip.w.adb); mr != nil {
					t := mr.ApplyHeight + uint64(r.Intn(3))
					if t > 0 {
						t--
					}
					if t > ip.w.height && t < 1<<40 {
						next = t
						st.inc("jump-to-apply-height")
					}
				}
			}
			run(fmt.Sprintf("endblock %d", next))
		}
		run("dump")
	}
	_ = first
	run(fmt.Sprintf("endblock %d", ip.w.height+1))
	run("dump")
}
