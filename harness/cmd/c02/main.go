// c02: correspondence harness and searcher for property C02 (trie root is the
// canonical Merkle-Patricia commitment of its content).
//
//	mode=corr   (default) runs the real go-rangers trie in-process and writes one op
//	            per line (ops=) with the implementation's answer (obs=); the Lean
//	            driver drv_c02 replays the op lines on the model.
//	mode=search direct property oracle on the implementation, no model involved:
//	            prints "SEARCH {json}".
//	mode=replay replays one op file (file=) against the implementation and prints the answers.
//
// Everything random derives from VERIF_SEED.
package main

import (
	"bufio"
	"fmt"
	"io/ioutil"
	"os"
	"path/filepath"
	"sort"
	"strconv"
	"strings"

	"com.tuntun.rangers/node/src/common"
	"com.tuntun.rangers/node/src/common/sha3"
	"com.tuntun.rangers/node/src/middleware/db"
	"com.tuntun.rangers/node/src/storage/rlp"
	"com.tuntun.rangers/node/src/storage/trie"
	"com.tuntun.rangers/node/src/utility"
	"verif/harness/hx"
)

// impl is the implementation under test: one trie on one NodeDatabase over a MemDatabase.
type impl struct {
	disk   *db.MemDatabase
	triedb *trie.NodeDatabase
	t      *trie.Trie
	limit  uint16
	snaps  []*trie.Trie // retained trie objects (op snap): must keep reading their own content
	lastRoot string     // last root hash the implementation reported (for updroot / noderoot)
}

func newImpl() *impl {
	disk, _ := db.NewMemDatabase()
	triedb := trie.NewDatabase(disk)
	t, err := trie.NewTrie(common.Hash{}, triedb)
	if err != nil {
		panic(err)
	}
	return &impl{disk: disk, triedb: triedb, t: t}
}

func errClass(err error) string {
	if err == nil {
		return "ok"
	}
	if _, ok := err.(*trie.MissingNodeError); ok {
		return "err-missing-node"
	}
	return "err-other"
}

func (m *impl) reopen(root common.Hash) string {
	t2, err := trie.NewTrie(root, m.triedb)
	if err != nil {
		return errClass(err)
	}
	t2.SetCacheLimit(m.limit)
	m.t = t2
	return hx.Hex(root[:])
}

func xorDigest(keys [][]byte) string {
	acc := []byte{}
	for _, k := range keys {
		for len(acc) < len(k) {
			acc = append(acc, 0)
		}
		for i := range k {
			acc[i] ^= k[i]
		}
	}
	return strconv.Itoa(len(keys)) + ":" + hx.Hex(acc)
}

// exec runs one op line against the implementation and returns the protocol answer.
func (m *impl) exec(line string) string {
	res := m.exec1(line)
	if len(res) == 64 && !strings.ContainsAny(res, " =:") {
		w0 := strings.Fields(line)[0]
		if w0 == "hash" || w0 == "commit" || w0 == "reopen" || w0 == "dbcommit" || w0 == "snap" || w0 == "commitref" {
			m.lastRoot = res
		}
	}
	return res
}

func (m *impl) exec1(line string) string {
	w := strings.Fields(line)
	if len(w) == 0 {
		return "bad-op"
	}
	arg := func(i int) ([]byte, bool) {
		if i >= len(w) {
			return nil, false
		}
		b, err := hx.UnHex(w[i])
		return b, err == nil
	}
	switch {
	case w[0] == "new" && len(w) == 1:
		*m = *newImpl()
		return "ok"
	case w[0] == "upd" && len(w) == 3:
		k, ok1 := arg(1)
		v, ok2 := arg(2)
		if !ok1 || !ok2 {
			return "bad-op"
		}
		return errClass(m.t.TryUpdate(k, v))
	case w[0] == "del" && len(w) == 2:
		k, ok := arg(1)
		if !ok {
			return "bad-op"
		}
		return errClass(m.t.TryDelete(k))
	case w[0] == "get" && len(w) == 2:
		k, ok := arg(1)
		if !ok {
			return "bad-op"
		}
		v, err := m.t.TryGet(k)
		if err != nil {
			return errClass(err)
		}
		if v == nil {
			return "absent"
		}
		return "v=" + hx.Hex(v)
	case w[0] == "hash" && len(w) == 1:
		h := m.t.Hash()
		return hx.Hex(h[:])
	case w[0] == "commit" && len(w) == 1:
		h, err := m.t.Commit(nil)
		if err != nil {
			return errClass(err)
		}
		return hx.Hex(h[:])
	case w[0] == "reopen" && len(w) == 1:
		h, err := m.t.Commit(nil)
		if err != nil {
			return errClass(err)
		}
		return m.reopen(h)
	case w[0] == "dbcommit" && len(w) == 1:
		h, err := m.t.Commit(nil)
		if err != nil {
			return errClass(err)
		}
		if err := m.triedb.Commit(h, false); err != nil {
			return "err-other"
		}
		return m.reopen(h)
	case w[0] == "cachelimit" && len(w) == 2:
		n, err := strconv.Atoi(w[1])
		if err != nil || n < 0 || n >= 65536 || strconv.Itoa(n) != w[1] {
			return "bad-op"
		}
		m.limit = uint16(n)
		m.t.SetCacheLimit(m.limit)
		return "ok"
	case w[0] == "iter" && len(w) == 2:
		s, ok := arg(1)
		if !ok {
			return "bad-op"
		}
		it := trie.NewIterator(m.t.NodeIterator(s))
		var sb strings.Builder
		n := 0
		for it.Next() {
			sb.WriteString(" " + hx.Hex(it.Key) + ":" + hx.Hex(it.Value))
			n++
		}
		if it.Err != nil {
			return errClass(it.Err)
		}
		return "n=" + strconv.Itoa(n) + sb.String()
	case w[0] == "shape" && len(w) == 1:
		return shapeOf(m.t)
	case w[0] == "rlpstr" && len(w) == 2:
		// storage/rlp encoder on a byte string, and Split of the result followed by junk
		x, ok := arg(1)
		if !ok {
			return "bad-op"
		}
		b, err := rlp.EncodeToBytes(x)
		if err != nil {
			return "err-other"
		}
		return hx.Hex(b)
	case w[0] == "rlplist" && len(w) >= 1:
		var items [][]byte
		for i := 1; i < len(w); i++ {
			x, ok := arg(i)
			if !ok {
				return "bad-op"
			}
			items = append(items, x)
		}
		b, err := rlp.EncodeToBytes(items)
		if err != nil {
			return "err-other"
		}
		return hx.Hex(b)
	case w[0] == "rlpsplit" && len(w) == 2:
		// storage/rlp raw.go on arbitrary (mostly malformed) bytes
		x, ok := arg(1)
		if !ok {
			return "bad-op"
		}
		k, content, rest, err := rlp.Split(x)
		if err != nil {
			return "split-error"
		}
		n, err2 := rlp.CountValues(x)
		cnt := "count-error"
		if err2 == nil {
			cnt = strconv.Itoa(n)
		}
		kind := map[rlp.Kind]string{rlp.Byte: "byte", rlp.String: "string", rlp.List: "list"}[k]
		return kind + " " + hx.Hex(content) + " " + hx.Hex(rest) + " " + cnt
	case w[0] == "opendisk" && len(w) == 2:
		// a blob (usually a damaged node encoding) is put on disk under its hash and opened as a
		// trie root: node.go decodeNode / decodeShort / decodeFull / decodeRef incl. every error branch
		x, ok := arg(1)
		if !ok {
			return "bad-op"
		}
		h := common.BytesToHash(keccak(x))
		disk, _ := db.NewMemDatabase()
		disk.Put(h[:], x)
		res := hx.Guard(func() string {
			t2, err := trie.NewTrie(h, trie.NewDatabase(disk))
			if err != nil {
				return errClass(err)
			}
			return shapeOf(t2)
		})
		if strings.HasPrefix(res, "PANIC") {
			return "decode-panic"
		}
		return res
	case w[0] == "dbstate" && len(w) == 1:
		// the two layers of the NodeDatabase: hashes in the memory cache, keys on disk
		var mem [][]byte
		for _, h := range m.triedb.Nodes() {
			mem = append(mem, append([]byte{}, h[:]...))
		}
		return "mem=" + xorDigest(mem) + " disk=" + xorDigest(m.disk.Keys())
	case w[0] == "node" && len(w) == 2:
		hb, ok := arg(1)
		if !ok {
			return "bad-op"
		}
		b, err := m.triedb.Node(common.BytesToHash(hb))
		if err != nil || b == nil || len(hb) != 32 {
			return "absent"
		}
		return "blob=" + hx.Hex(b)
	case w[0] == "blob" && len(w) == 2:
		x, ok := arg(1)
		if !ok {
			return "bad-op"
		}
		h := common.BytesToHash(keccak(x))
		m.triedb.InsertBlob(h, x)
		return hx.Hex(h[:])
	case w[0] == "commitref" && len(w) == 1:
		// Trie.Commit with a leaf callback, as the account layer uses it: a 32-byte leaf value is
		// taken for the root of another trie and referenced from the node that holds the leaf
		h, err := m.t.Commit(func(leaf []byte, parent common.Hash) error {
			if len(leaf) == 32 {
				m.triedb.Reference(common.BytesToHash(leaf), parent)
			}
			return nil
		})
		if err != nil {
			return errClass(err)
		}
		return hx.Hex(h[:])
	case w[0] == "fork" && len(w) == 1:
		// retain a VALUE COPY of the trie object: it shares every node with the working trie, so it
		// keeps its content only if insert/delete/tryGet/hash never modify a reachable node in place
		cp := *m.t
		m.snaps = append(m.snaps, &cp)
		return "ok"
	case w[0] == "snap" && len(w) == 1:
		// retain the current trie object and continue on a new one opened at its root (what
		// storageDB.CopyTrie does); both share the NodeDatabase
		h, err := m.t.Commit(nil)
		if err != nil {
			return errClass(err)
		}
		old := m.t
		r := m.reopen(h)
		if strings.HasPrefix(r, "err") {
			return r
		}
		m.snaps = append(m.snaps, old)
		return r
	case (w[0] == "sget" && len(w) == 3) || ((w[0] == "shash" || w[0] == "sshape") && len(w) == 2):
		i, err := strconv.Atoi(w[1])
		if err != nil || i < 0 || i >= len(m.snaps) || strconv.Itoa(i) != w[1] {
			return "bad-op"
		}
		st := m.snaps[i]
		switch w[0] {
		case "shash":
			h := st.Hash()
			return hx.Hex(h[:])
		case "sshape":
			return shapeOf(st)
		}
		k, ok := arg(2)
		if !ok {
			return "bad-op"
		}
		v, err := st.TryGet(k)
		if err != nil {
			return errClass(err)
		}
		if v == nil {
			return "absent"
		}
		return "v=" + hx.Hex(v)
	case w[0] == "badopen" && len(w) == 2:
		// a rejected operation: opening an unknown root must fail and leave everything as it was
		hb, ok := arg(1)
		if !ok || len(hb) != 32 {
			return "bad-op"
		}
		if _, err := trie.NewTrie(common.BytesToHash(hb), m.triedb); err != nil {
			return errClass(err)
		}
		return "opened"
	case w[0] == "keccak" && len(w) == 2:
		x, ok := arg(1)
		if !ok {
			return "bad-op"
		}
		return hx.Hex(keccak(x))
	}
	return "bad-op"
}

func keccak(x []byte) []byte {
	h := sha3.NewKeccak256()
	h.Write(x)
	return h.Sum(nil)
}

func readLines(path string) []string {
	f, err := os.Open(path)
	if err != nil {
		return nil
	}
	defer f.Close()
	var out []string
	sc := bufio.NewScanner(f)
	sc.Buffer(make([]byte, 1<<20), 1<<26)
	for sc.Scan() {
		l := strings.TrimSpace(sc.Text())
		if l == "" || strings.HasPrefix(l, "#") {
			continue
		}
		out = append(out, l)
	}
	return out
}

func main() {
	utility.VerifDisableNTP()
	a := hx.Args()
	switch a["mode"] {
	case "search":
		runSearch(a)
		return
	case "replay":
		m := newImpl()
		for _, l := range readLines(a["file"]) {
			fmt.Printf("%s => %s\n", l, hx.Guard(func() string { return m.exec(l) }))
		}
		return
	}
	out, err := newFastOut(a["ops"], a["obs"])
	if err != nil {
		panic(err)
	}
	defer out.close()
	thorough := a["tier"] == "thorough"
	m := newImpl()
	dr := hx.NewRng(hx.SeedFromEnv() ^ 0xd15cb10b)
	do := func(line string) string {
		// ops that refer to the last reported root are made self-contained before they are recorded
		lr := m.lastRoot
		if lr == "" {
			lr = strings.Repeat("11", 32)
		}
		if strings.HasPrefix(line, "updroot ") {
			line = "upd " + strings.TrimPrefix(line, "updroot ") + " " + lr
		} else if line == "noderoot" {
			line = "node " + lr
		} else if line == "opendiskmut" {
			// the blob of the last reported root, damaged
			var blob []byte
			if hb, err := hx.UnHex(lr); err == nil {
				blob, _ = m.triedb.Node(common.BytesToHash(hb))
			}
			line = "opendisk " + hx.Hex(damage(dr, blob))
		}
		res := hx.Guard(func() string { return m.exec(line) })
		out.emit(line, res)
		return res
	}
	dist := map[string]int{}

	// 1. corpus first (minimised past disagreements, hand-written edge cases)
	if dir := os.Getenv("VERIF_CORPUS"); dir != "" {
		files, _ := filepath.Glob(filepath.Join(dir, "*.ops"))
		sort.Strings(files)
		for _, f := range files {
			do("new")
			for _, l := range readLines(f) {
				do(l)
				dist["corpus-lines"]++
			}
		}
	}
	r := hx.NewRng(hx.SeedFromEnv())

	// 1b. deterministic boundary families (before anything random)
	for _, h := range boundaryHistories(r.Fork(), thorough) {
		do("new")
		for _, l := range h {
			do(l)
		}
		dist["boundary-histories"]++
	}

	// 2. Keccak-256: Lean implementation against common/sha3 on boundary lengths and random inputs
	for _, n := range []int{0, 1, 2, 31, 32, 33, 55, 56, 134, 135, 136, 137, 138, 271, 272, 273, 407, 408, 409, 1000} {
		do("keccak " + hx.Hex(r.Bytes(n)))
	}
	do("keccak " + hx.Hex(make([]byte, 136)))
	do("keccak " + hx.Hex([]byte("abc")))
	nk := hx.ArgInt(a, "keccak", 1000)
	for i := 0; i < nk; i++ {
		do("keccak " + hx.Hex(r.Bytes(r.Intn(300))))
	}
	dist["keccak"] = nk + 22

	// 2b. RLP: the repository's encoder and raw splitter against the model's, directly
	nr := hx.ArgInt(a, "rlp", 1500)
	for i := 0; i < nr; i++ {
		n := r.Pick(0, 1, 1, 2, 31, 32, 33, 54, 55, 56, 57, 255, 256, 257, 1000)
		x := r.Bytes(n)
		if n == 1 && r.Bool() {
			x[0] = byte(r.Pick(0, 1, 0x7e, 0x7f, 0x80, 0x81, 0xff))
		}
		switch r.Intn(4) {
		case 0:
			do("rlpstr " + hx.Hex(x))
		case 1:
			l := "rlplist"
			for j, m := 0, r.Intn(5); j < m; j++ {
				l += " " + hx.Hex(r.Bytes(r.Pick(0, 1, 2, 20, 55, 56, 60)))
			}
			do(l)
		default:
			// a valid item followed by junk, or a mutated / truncated one, or noise
			enc, _ := rlp.EncodeToBytes(x)
			switch r.Intn(5) {
			case 0:
				enc = append(enc, r.Bytes(r.Intn(4))...)
			case 1:
				if len(enc) > 0 {
					enc = enc[:r.Intn(len(enc))]
				}
			case 2:
				if len(enc) > 0 {
					enc[0] = byte(r.Pick(0x00, 0x7f, 0x80, 0x81, 0xb7, 0xb8, 0xb9, 0xbf, 0xc0, 0xc1, 0xf7, 0xf8, 0xf9, 0xff))
				}
			case 3:
				enc = r.Bytes(1 + r.Intn(12))
			}
			do("rlpsplit " + hx.Hex(enc))
		}
	}
	dist["rlp-direct"] = nr

	// 3. malformed protocol lines: the driver must answer bad-op, never default
	for _, l := range []string{"upd zz 01", "upd 01", "get", "get 0", "del 0g", "iter", "cachelimit 65536", "cachelimit x", "hash 1", "frob", "upd 01 02 03", "keccak 1"} {
		do(l)
	}

	// 4. small-scope exhaustive: every sequence over 4 keys x 3 values x {upd,del} + commit + reopen + dbcommit
	exhLen := hx.ArgInt(a, "exh", 3)
	alpha := smallAlphabet()
	var rec func(seq []string, depth int)
	rec = func(seq []string, depth int) {
		if len(seq) > 0 {
			do("new")
			for _, l := range seq {
				do(l)
			}
			do("shape")
			do("hash")
			do("shape")
			do("iter -")
			for _, k := range smallKeys {
				do("get " + hx.Hex(k))
			}
			ns := 0
			for _, l := range seq {
				if l == "snap" || l == "fork" {
					do("shash " + strconv.Itoa(ns))
					do("sget " + strconv.Itoa(ns) + " " + hx.Hex(smallKeys[ns%len(smallKeys)]))
					ns++
				}
			}
			do("shape")
			do("dbstate")
			dist["exhaustive-seqs"]++
		}
		if depth == 0 {
			return
		}
		for _, s := range alpha {
			rec(append(seq, s), depth-1)
		}
	}
	rec(nil, exhLen)
	// sampled longer sequences over the same small alphabet
	nSmall := hx.ArgInt(a, "small", 3000)
	for i := 0; i < nSmall; i++ {
		do("new")
		n := exhLen + 1 + r.Intn(6)
		for j := 0; j < n; j++ {
			do(alpha[r.Intn(len(alpha))])
		}
		do("shape")
		do("hash")
		do("iter -")
		for _, k := range smallKeys {
			do("get " + hx.Hex(k))
		}
		do("shape")
		dist["small-sampled-seqs"]++
	}

	// 5. structured random histories
	nCases := hx.ArgInt(a, "cases", 150)
	for c := 0; c < nCases; c++ {
		g := newGen(r.Fork(), thorough)
		dist["family-"+g.familyName()]++
		do("new")
		n := 20 + r.Intn(hx.ArgInt(a, "len", 160))
		for j := 0; j < n; j++ {
			line := g.op()
			do(line)
		}
		do("hash")
		do("iter -")
		for _, k := range g.pool {
			do("get " + hx.Hex(k))
		}
		do("reopen")
		do("iter -")
		do("dbcommit")
		do("hash")
		do("iter -")
		for _, k := range g.pool {
			do("get " + hx.Hex(k))
		}
		do("dbstate")
		do("noderoot")
		for i := 0; i < 12; i++ {
			do("opendiskmut")
		}
		for i := 0; i < g.nsnaps; i++ {
			do("shash " + strconv.Itoa(i))
			do("sshape " + strconv.Itoa(i))
			for j, k := range g.pool {
				if j%3 == i%3 {
					do("sget " + strconv.Itoa(i) + " " + hx.Hex(k))
				}
			}
			dist["snapshots"]++
		}
		for k, v := range g.valDist {
			dist["val-"+k] += v
		}
	}
	out.flush()
	fmt.Println("STATS " + out.stats(dist))
}

var _ = ioutil.Discard
var _ = strconv.Itoa
