package main

import (
	"strconv"
	"strings"

	"verif/harness/hx"
)

// small-scope alphabet: keys that are prefixes of one another / share a prefix /
// diverge at the first nibble; values on both sides of the 32-byte embedding rule
// plus the empty value (= delete).
var smallKeys = [][]byte{{0x00}, {0x00, 0x00}, {0x00, 0x01}, {0x10}}

func smallValues() [][]byte {
	long := make([]byte, 33)
	for i := range long {
		long[i] = byte(0xa0 + i)
	}
	return [][]byte{{0x01}, long, {}}
}

func smallAlphabet() []string {
	var out []string
	for _, k := range smallKeys {
		for _, v := range smallValues() {
			out = append(out, "upd "+hx.Hex(k)+" "+hx.Hex(v))
		}
		out = append(out, "del "+hx.Hex(k))
	}
	return append(out, "commit", "reopen", "dbcommit", "snap", "fork", "commitref", "updroot 10")
}

// gen produces one structured, boundary-biased history over a key pool.
type gen struct {
	r        *hx.Rng
	family   int
	pool     [][]byte
	valDist  map[string]int
	thorough bool
	base     []byte
	nsnaps   int
}

var families = []string{"nibble-alphabet", "prefix-chain", "random20", "random32", "shared-long-prefix", "mixed", "dense-1-2-byte"}

func (g *gen) familyName() string { return families[g.family] }

func newGen(r *hx.Rng, thorough bool) *gen {
	g := &gen{r: r, family: r.Intn(len(families)), valDist: map[string]int{}, thorough: thorough}
	n := 3 + r.Intn(30)
	g.base = r.Bytes(33)
	for i := 0; i < n; i++ {
		g.pool = append(g.pool, g.freshKey(g.base))
	}
	return g
}

func (g *gen) freshKey(base []byte) []byte {
	r := g.r
	fam := g.family
	if fam == 5 {
		fam = r.Intn(5)
	}
	switch fam {
	case 0: // nibbles from {0,1,f}: many shared prefixes, keys that are prefixes of others
		nib := []byte{0x0, 0x1, 0xf}
		k := make([]byte, r.Intn(4))
		for i := range k {
			k[i] = nib[r.Intn(3)]<<4 | nib[r.Intn(3)]
		}
		return k
	case 1: // prefixes of one base key, including the empty key
		return append([]byte{}, base[:r.Intn(len(base)+1)]...)
	case 2:
		return r.Bytes(20)
	case 3:
		return r.Bytes(32)
	case 4: // long shared prefix, divergence in the last one or two bytes / last nibble
		k := append([]byte{}, base[:32]...)
		switch r.Intn(3) {
		case 0:
			k[31] = byte(r.Intn(256))
		case 1:
			k[30], k[31] = byte(r.Intn(4)), byte(r.Intn(4))
		default:
			k[31] = k[31]&0xf0 | byte(r.Intn(16))
		}
		return k
	default: // dense 1..2 byte keys: forces full nodes with many children and branch reduction on delete
		k := make([]byte, 1+r.Intn(2))
		for i := range k {
			k[i] = byte(r.Intn(4)) << 4
			if r.Bool() {
				k[i] |= byte(r.Intn(3))
			}
		}
		return k
	}
}

func (g *gen) key() []byte {
	if g.r.Chance(85, 100) {
		return g.pool[g.r.Intn(len(g.pool))]
	}
	k := g.freshKey(g.base)
	if len(g.pool) < 64 {
		g.pool = append(g.pool, k)
	}
	return k
}

func (g *gen) value() []byte {
	r := g.r
	var n int
	var class string
	switch c := r.Intn(100); {
	case c < 8:
		class, n = "empty", 0
	case c < 20:
		class = "1byte-lt80"
		g.valDist[class]++
		return []byte{byte(r.Intn(0x80))}
	case c < 28:
		class = "1byte-ge80"
		g.valDist[class]++
		return []byte{byte(0x80 + r.Intn(0x80))}
	case c < 40:
		class, n = "2-30", 2+r.Intn(29)
	case c < 50:
		class, n = "31", 31
	case c < 62:
		class, n = "32", 32
	case c < 72:
		class, n = "33", 33
	case c < 80:
		class, n = "55-56", 55+r.Intn(2)
	case c < 92:
		class, n = "100", 100
	case c < 98:
		class, n = "300", 300
	default:
		if r.Chance(1, 4) {
			class, n = "70000", 70000
		} else {
			class, n = "1000", 1000
		}
	}
	g.valDist[class]++
	return r.Bytes(n)
}

func (g *gen) op() string {
	r := g.r
	switch c := r.Intn(100); {
	case c < 45:
		return "upd " + hx.Hex(g.key()) + " " + hx.Hex(g.value())
	case c < 58:
		return "del " + hx.Hex(g.key())
	case c < 70:
		return "get " + hx.Hex(g.key())
	case c < 74:
		return "hash"
	case c < 80:
		return "commit"
	case c < 83:
		return "reopen"
	case c < 86:
		return "dbcommit"
	case c < 91:
		switch r.Intn(8) {
		case 6, 7:
			return "opendiskmut"
		case 0:
			return "updroot " + hx.Hex(g.key())
		case 1:
			return "commitref"
		case 2:
			return "dbstate"
		case 3:
			return "noderoot"
		case 4:
			return "blob " + hx.Hex(r.Bytes(r.Pick(0, 1, 31, 32, 33, 100)))
		}
		return "cachelimit " + strconv.Itoa(r.Pick(0, 0, 1, 2, 3, 65535))
	case c < 92:
		return "cachelimit " + strconv.Itoa(r.Pick(0, 0, 1, 2, 3, 65535))
	case c < 94:
		return "shape"
	case c < 95:
		if g.nsnaps < 6 {
			g.nsnaps++
			if r.Bool() {
				return "fork"
			}
			return "snap"
		}
		return "badopen " + hx.Hex(r.Bytes(32))
	case c < 97:
		if g.nsnaps == 0 {
			return "badopen " + hx.Hex(r.Bytes(32))
		}
		i := strconv.Itoa(r.Intn(g.nsnaps))
		switch r.Intn(4) {
		case 0:
			return "shash " + i
		case 1:
			return "sshape " + i
		default:
			return "sget " + i + " " + hx.Hex(g.key())
		}
	default:
		if r.Bool() {
			return "iter -"
		}
		k := g.key()
		if r.Chance(1, 3) && len(k) > 0 {
			k = k[:r.Intn(len(k))]
		}
		return "iter " + hx.Hex(k)
	}
}

// boundaryHistories: deterministic families around the size boundaries random sampling rarely
// hits exactly: node RLP length 31/32/33 (embedding rule), payload 55/56 (short/long RLP header),
// 255/256 and 65535/65536 (length-of-length 1/2/3 bytes), key lengths 0/1/31/32/33/64, and a root
// hash with a leading zero byte (found by seeded rejection sampling).
func boundaryHistories(r *hx.Rng, thorough bool) [][]string {
	var out [][]string
	val := func(n int, b byte) []byte {
		v := make([]byte, n)
		for i := range v {
			v[i] = b + byte(i)
		}
		return v
	}
	tail := func(ks ...[]byte) []string {
		t := []string{"hash", "shape", "snap", "fork", "reopen", "shape"}
		for _, k := range ks {
			t = append(t, "get "+hx.Hex(k))
		}
		t = append(t, "dbcommit", "shape")
		for _, k := range ks {
			t = append(t, "get "+hx.Hex(k), "sget 0 "+hx.Hex(k), "del "+hx.Hex(k), "sget 1 "+hx.Hex(k))
		}
		return append(t, "iter -", "shash 0", "shash 1", "sshape 1", "hash")
	}
	// (a) leaf / branch encodings around 32 bytes
	for klen := 1; klen <= 4; klen++ {
		a := make([]byte, klen)
		b := make([]byte, klen)
		for i := range a {
			a[i], b[i] = 0x11, 0x11
		}
		b[0] = 0x12
		for vlen := 18; vlen <= 36; vlen++ {
			h := []string{"upd " + hx.Hex(a) + " " + hx.Hex(val(vlen, 0x40)), "upd " + hx.Hex(b) + " 01"}
			out = append(out, append(h, tail(a, b)...))
			h2 := []string{"upd " + hx.Hex(a) + " " + hx.Hex(val(vlen, 0x40)), "upd " + hx.Hex(b) + " " + hx.Hex(val(vlen, 0x80)),
				"commit", "del " + hx.Hex(b)}
			out = append(out, append(h2, tail(a, b)...))
		}
	}
	// (b) RLP header boundaries
	sizes := []int{54, 55, 56, 57, 58, 253, 254, 255, 256, 257, 258}
	if thorough {
		sizes = append(sizes, 65533, 65534, 65535, 65536, 65537)
	} else {
		sizes = append(sizes, 65535, 65536)
	}
	for _, n := range sizes {
		k1, k2 := []byte{0xab, 0xcd}, []byte{0xab, 0xce}
		h := []string{"upd " + hx.Hex(k1) + " " + hx.Hex(val(n, 1)), "upd " + hx.Hex(k2) + " " + hx.Hex(val(n-2, 7))}
		out = append(out, append(h, tail(k1, k2)...))
		out = append(out, append([]string{"upd " + hx.Hex(k1) + " " + hx.Hex(val(n, 1))}, tail(k1)...))
	}
	// (c) key lengths, prefixes of one another
	base := val(64, 0x21)
	var h []string
	var ks [][]byte
	for _, n := range []int{0, 1, 31, 32, 33, 64} {
		h = append(h, "upd "+hx.Hex(base[:n])+" "+hx.Hex(val(n+1, 3)))
		ks = append(ks, base[:n])
	}
	out = append(out, append(h, tail(ks...)...))
	// (d) a root hash with a leading zero byte (about 1 in 256 single-leaf tries)
	for i := 0; i < 4000; i++ {
		k := r.Bytes(4)
		m := newImpl()
		m.exec("upd " + hx.Hex(k) + " 2a")
		if strings.HasPrefix(m.exec("hash"), "00") {
			out = append(out, append([]string{"upd " + hx.Hex(k) + " 2a", "badopen " + strings.Repeat("00", 32)}, tail(k)...))
			break
		}
	}
	return out
}

// damage returns a node encoding that is valid, truncated, extended, or has one header / length /
// content byte changed (boundary-biased), or is noise.
func damage(r *hx.Rng, blob []byte) []byte {
	b := append([]byte{}, blob...)
	if len(b) == 0 {
		return r.Bytes(1 + r.Intn(40))
	}
	switch r.Intn(8) {
	case 0: // as is
	case 1:
		b = b[:r.Intn(len(b))]
	case 2:
		b = append(b, r.Bytes(1+r.Intn(3))...)
	case 3:
		b[0] = byte(r.Pick(0x00, 0x7f, 0x80, 0xb7, 0xb8, 0xbf, 0xc0, 0xc1, 0xc2, 0xd1, 0xf7, 0xf8, 0xf9, int(b[0])+1, int(b[0])-1))
	case 4:
		i := r.Intn(len(b))
		b[i] = byte(r.Pick(0x00, 0x01, 0x7f, 0x80, 0x81, 0x9f, 0xa0, 0xa1, 0xb7, 0xb8, 0xc0, 0xdf, 0xe0, 0xe1, 0xff))
	case 5:
		i := r.Intn(len(b))
		b[i] ^= 1 << uint(r.Intn(8))
	case 6: // drop one byte in the middle
		i := r.Intn(len(b))
		b = append(b[:i], b[i+1:]...)
	default:
		i := r.Intn(len(b))
		b = append(b[:i], append([]byte{byte(r.Intn(256))}, b[i:]...)...)
	}
	return b
}
