package main

import (
	"reflect"
	"strconv"
	"strings"
	"unsafe"

	"com.tuntun.rangers/node/src/storage/trie"
)

// shapeOf prints the in-memory structure of the trie (which nodes are loaded, which are
// hashNodes, and every node's cache flags) by reading the unexported fields through
// reflection: no source hook is needed.  Format (mirrored by Trie.shapeL in the model):
//   N | V | H | S<keylen><flags>(child) | F<flags>(17 children)   flags = [h-][d-]<gen>
// followed by " g<cachegen>".
func shapeOf(t *trie.Trie) string {
	tv := reflect.ValueOf(t).Elem()
	var sb strings.Builder
	shapeNode(&sb, open(tv.FieldByName("root")))
	sb.WriteString(" g" + strconv.FormatUint(open(tv.FieldByName("cachegen")).Uint(), 10))
	return sb.String()
}

// open makes an unexported field readable.
func open(v reflect.Value) reflect.Value {
	if v.CanAddr() {
		return reflect.NewAt(v.Type(), unsafe.Pointer(v.UnsafeAddr())).Elem()
	}
	return v
}

func shapeFlags(sb *strings.Builder, fl reflect.Value) {
	fl = open(fl)
	if open(fl.FieldByName("hash")).IsNil() {
		sb.WriteByte('-')
	} else {
		sb.WriteByte('h')
	}
	if open(fl.FieldByName("dirty")).Bool() {
		sb.WriteByte('d')
	} else {
		sb.WriteByte('-')
	}
	sb.WriteString(strconv.FormatUint(open(fl.FieldByName("gen")).Uint(), 10))
}

func shapeNode(sb *strings.Builder, v reflect.Value) {
	if v.Kind() == reflect.Interface {
		if v.IsNil() {
			sb.WriteByte('N')
			return
		}
		v = v.Elem()
	}
	switch v.Type().String() {
	case "trie.hashNode":
		sb.WriteByte('H')
	case "trie.valueNode":
		sb.WriteByte('V')
	case "*trie.shortNode":
		e := v.Elem()
		sb.WriteString("S" + strconv.Itoa(e.FieldByName("Key").Len()))
		shapeFlags(sb, e.FieldByName("flags"))
		sb.WriteByte('(')
		shapeNode(sb, e.FieldByName("Val"))
		sb.WriteByte(')')
	case "*trie.fullNode":
		e := v.Elem()
		sb.WriteByte('F')
		shapeFlags(sb, e.FieldByName("flags"))
		sb.WriteByte('(')
		ch := e.FieldByName("Children")
		for i := 0; i < ch.Len(); i++ {
			shapeNode(sb, ch.Index(i))
		}
		sb.WriteByte(')')
	default:
		sb.WriteString("?" + v.Type().String())
	}
}
