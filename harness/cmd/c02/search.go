package main

import (
	"bytes"
	"encoding/json"
	"fmt"
	"os"
	"sort"
	"strings"

	xsha3 "golang.org/x/crypto/sha3"

	"com.tuntun.rangers/node/src/common"
	"com.tuntun.rangers/node/src/middleware/db"
	"com.tuntun.rangers/node/src/storage/trie"
	"verif/harness/hx"
)

// ---- independent reference: Yellow Paper appendix D, computed from the final content only ----

// refKeccak is Keccak-256 from golang.org/x/crypto — NOT the repository's common/sha3 the trie
// hashes with: a regression in the code under test must not move the oracle with it.
func refKeccak(x []byte) []byte {
	h := xsha3.NewLegacyKeccak256()
	h.Write(x)
	return h.Sum(nil)
}

type kv struct {
	k []byte // nibbles, no terminator
	v []byte
}

func rlpHead(off int, n int) []byte {
	if n < 56 {
		return []byte{byte(off + n)}
	}
	var lb []byte
	for x := n; x > 0; x >>= 8 {
		lb = append([]byte{byte(x)}, lb...)
	}
	return append([]byte{byte(off + 55 + len(lb))}, lb...)
}
func rlpStr(b []byte) []byte {
	if len(b) == 1 && b[0] < 0x80 {
		return []byte{b[0]}
	}
	return append(rlpHead(0x80, len(b)), b...)
}
func rlpLst(items ...[]byte) []byte {
	p := bytes.Join(items, nil)
	return append(rlpHead(0xc0, len(p)), p...)
}

// hp is the hex-prefix encoding HP(x, t).
func hp(x []byte, t bool) []byte {
	f := byte(0)
	if t {
		f = 2
	}
	var out []byte
	if len(x)%2 == 1 {
		out = append(out, (f+1)<<4|x[0])
		x = x[1:]
	} else {
		out = append(out, f<<4)
	}
	for i := 0; i < len(x); i += 2 {
		out = append(out, x[i]<<4|x[i+1])
	}
	return out
}

// ypC is c(J, i); J non-empty, all keys share their first i nibbles.
func ypC(J []kv, i int) []byte {
	if len(J) == 1 {
		return rlpLst(rlpStr(hp(J[0].k[i:], true)), rlpStr(J[0].v))
	}
	j := len(J[0].k)
	for _, e := range J[1:] {
		n := i
		for n < len(e.k) && n < len(J[0].k) && e.k[n] == J[0].k[n] {
			n++
		}
		if n < j {
			j = n
		}
	}
	if j > i {
		return rlpLst(rlpStr(hp(J[0].k[i:j], false)), ypN(J, j))
	}
	items := make([][]byte, 17)
	for n := 0; n < 16; n++ {
		var sub []kv
		for _, e := range J {
			if len(e.k) > i && int(e.k[i]) == n {
				sub = append(sub, e)
			}
		}
		items[n] = ypN(sub, i+1)
	}
	items[16] = []byte{0x80}
	for _, e := range J {
		if len(e.k) == i {
			items[16] = rlpStr(e.v)
		}
	}
	return rlpLst(items...)
}

func ypN(J []kv, i int) []byte {
	if len(J) == 0 {
		return []byte{0x80}
	}
	c := ypC(J, i)
	if len(c) < 32 {
		return c
	}
	return rlpStr(refKeccak(c))
}

func ypRoot(m map[string][]byte) []byte {
	if len(m) == 0 {
		return refKeccak([]byte{0x80})
	}
	var J []kv
	for k, v := range m {
		nib := make([]byte, 0, 2*len(k))
		for _, b := range []byte(k) {
			nib = append(nib, b>>4, b&15)
		}
		J = append(J, kv{nib, v})
	}
	sort.Slice(J, func(a, b int) bool { return bytes.Compare(J[a].k, J[b].k) < 0 })
	return refKeccak(ypC(J, 0))
}

// ---- the oracle ----

type finding struct {
	Key    string                 `json:"key"`
	Desc   string                 `json:"desc"`
	Replay map[string]interface{} `json:"replay"`
}

func copyMap(m map[string][]byte) map[string][]byte {
	c := make(map[string][]byte, len(m))
	for k, v := range m {
		c[k] = v
	}
	return c
}

// oracle executes the history on a fresh implementation, tracking the expected content (last
// write per key; empty write or delete removes) of the working trie and of every retained trie
// object (snap), and evaluates the property: reads, every reported root against the independent
// reference, iteration, retained objects. Order-only iteration findings are "soft": execution
// continues, so that a recorded known finding cannot hide a different violation later in the
// same history. Returns "" if the property holds.
func oracle(ops []string) (key, desc string) {
	soft := ""
	res := hx.Guard(func() string {
		m := newImpl()
		want := map[string][]byte{}
		var snapWant []map[string][]byte
		checkRootOf := func(got string, w map[string][]byte, at string) string {
			exp := hx.Hex(ypRoot(w))
			if got != exp {
				return "root-not-canonical|" + at + ": root " + got + " but the Merkle-Patricia root of the content is " + exp
			}
			return ""
		}
		iterRes := func(e string, at string) string {
			if e == "" {
				return ""
			}
			if strings.HasPrefix(e, "iter-order") {
				if soft == "" {
					soft = e + " (" + at + ")"
				}
				return ""
			}
			return e + " (" + at + ")"
		}
		for i, l := range ops {
			w := strings.Fields(l)
			ans := m.exec(l)
			at := "op " + fmt.Sprint(i) + " " + l
			switch w[0] {
			case "upd":
				k, _ := hx.UnHex(w[1])
				v, _ := hx.UnHex(w[2])
				if len(v) == 0 {
					delete(want, string(k))
				} else {
					want[string(k)] = v
				}
				if ans != "ok" {
					return "op-failed|" + at + " answered " + ans
				}
			case "del":
				k, _ := hx.UnHex(w[1])
				delete(want, string(k))
				if ans != "ok" {
					return "op-failed|" + at + " answered " + ans
				}
			case "get":
				k, _ := hx.UnHex(w[1])
				exp := "absent"
				if v, ok := want[string(k)]; ok {
					exp = "v=" + hx.Hex(v)
				}
				if ans != exp {
					return "read-mismatch|" + at + " answered " + ans + " want " + exp
				}
			case "hash", "commit", "reopen", "dbcommit", "commitref":
				if e := checkRootOf(ans, want, at); e != "" {
					return e
				}
			case "snap":
				if e := checkRootOf(ans, want, at); e != "" {
					return e
				}
				snapWant = append(snapWant, copyMap(want))
			case "fork":
				snapWant = append(snapWant, copyMap(want))
			case "sget", "shash", "sshape":
				var idx int
				fmt.Sscan(w[1], &idx)
				if idx >= len(snapWant) {
					break // out of range: bad-op on both sides
				}
				switch w[0] {
				case "shash":
					if e := checkRootOf(ans, snapWant[idx], at); e != "" {
						return "retained-trie-changed|" + e[strings.IndexByte(e, '|')+1:]
					}
				case "sget":
					k, _ := hx.UnHex(w[2])
					exp := "absent"
					if v, ok := snapWant[idx][string(k)]; ok {
						exp = "v=" + hx.Hex(v)
					}
					if ans != exp {
						return "retained-trie-changed|" + at + " answered " + ans + " want " + exp
					}
				}
			case "badopen":
				if ans != "err-missing-node" {
					hb, _ := hx.UnHex(w[1])
					if !(ans == "opened" && (bytes.Equal(hb, make([]byte, 32)) || hx.Hex(hb) == hx.Hex(ypRoot(map[string][]byte{})))) {
						return "bad-open-accepted|" + at + " answered " + ans
					}
				}
			case "cachelimit", "new":
				if ans != "ok" {
					return "op-failed|" + at + " answered " + ans
				}
			case "iter":
				if e := iterRes(checkIter(ans, want, w[1]), at); e != "" {
					return e
				}
			}
		}
		// final state: root (vs reference and vs a from-scratch sorted build), all reads, full iteration
		h := m.t.Hash()
		if e := checkRootOf(hx.Hex(h[:]), want, "final"); e != "" {
			return e
		}
		disk, _ := db.NewMemDatabase()
		fresh, _ := trie.NewTrie(common.Hash{}, trie.NewDatabase(disk))
		keys := make([]string, 0, len(want))
		for k := range want {
			keys = append(keys, k)
		}
		sort.Strings(keys)
		for _, k := range keys {
			fresh.Update([]byte(k), want[k])
		}
		if fh := fresh.Hash(); fh != h {
			return "root-history-dependent|final root " + hx.Hex(h[:]) + " but a fresh trie holding the same pairs has root " + hx.Hex(fh[:])
		}
		for _, k := range keys {
			v, err := m.t.TryGet([]byte(k))
			if err != nil || !bytes.Equal(v, want[k]) {
				return "read-mismatch|final get " + hx.Hex([]byte(k)) + " = " + hx.Hex(v) + " want " + hx.Hex(want[k])
			}
		}
		if e := iterRes(checkIter(m.exec("iter -"), want, "-"), "final iteration"); e != "" {
			return e
		}
		// retention: every retained trie object still stands for the content it had when it was retained
		for i, sw := range snapWant {
			sh := m.snaps[i].Hash()
			if e := checkRootOf(hx.Hex(sh[:]), sw, "retained trie "+fmt.Sprint(i)+" at the end"); e != "" {
				return "retained-trie-changed|" + e[strings.IndexByte(e, '|')+1:]
			}
			for k, v := range sw {
				got, err := m.snaps[i].TryGet([]byte(k))
				if err != nil || !bytes.Equal(got, v) {
					return "retained-trie-changed|retained trie " + fmt.Sprint(i) + " reads " + hx.Hex(got) + " for " + hx.Hex([]byte(k)) + ", had " + hx.Hex(v)
				}
			}
		}
		return ""
	})
	if res == "" {
		res = soft
	}
	if res == "" {
		return "", ""
	}
	if strings.HasPrefix(res, "PANIC") {
		return "panic", res
	}
	i := strings.IndexByte(res, '|')
	return res[:i], res[i+1:]
}

// checkIter: exactly the live pairs (with key >= start), ascending in bytes.Compare order.
func checkIter(ans string, want map[string][]byte, startHex string) string {
	if !strings.HasPrefix(ans, "n=") {
		return "iter-failed|iteration answered " + ans
	}
	start, _ := hx.UnHex(startHex)
	w := strings.Fields(ans)[1:]
	got := map[string]bool{}
	var prev []byte
	for i, e := range w {
		p := strings.SplitN(e, ":", 2)
		k, _ := hx.UnHex(p[0])
		v, _ := hx.UnHex(p[1])
		exp, ok := want[string(k)]
		if !ok || !bytes.Equal(exp, v) || got[string(k)] {
			return "iter-content|iteration returned " + e + " which is not a live pair (or twice)"
		}
		got[string(k)] = true
		if i > 0 && bytes.Compare(prev, k) >= 0 {
			if bytes.HasPrefix(prev, k) {
				return "iter-order-prefix-keys|iteration returned key " + hx.Hex(prev) + " before its proper prefix " + hx.Hex(k)
			}
			return "iter-order|iteration returned key " + hx.Hex(prev) + " before " + hx.Hex(k)
		}
		prev = k
	}
	if len(start) == 0 {
		for k := range want {
			if !got[k] {
				return "iter-content|iteration did not return live key " + hx.Hex([]byte(k))
			}
		}
	}
	return ""
}

// minimise greedily drops ops while the same class of violation persists.
func minimise(ops []string, key string) []string {
	cur := append([]string{}, ops...)
	for changed := true; changed; {
		changed = false
		for i := len(cur) - 1; i >= 0; i-- {
			cand := append(append([]string{}, cur[:i]...), cur[i+1:]...)
			if k, _ := oracle(cand); k == key {
				cur = cand
				changed = true
			}
		}
	}
	return cur
}

func runSearch(a map[string]string) {
	r := hx.NewRng(hx.SeedFromEnv() ^ 0x5ea5c02)
	n := hx.ArgInt(a, "n", 300)
	thorough := a["tier"] == "thorough"
	found := map[string]finding{}
	evals, distinct := 0, map[string]bool{}
	var samples []map[string]string
	try := func(ops []string) {
		evals += len(ops)
		for _, l := range ops {
			distinct[l] = true
		}
		key, desc := oracle(ops)
		if key == "" {
			return
		}
		if _, ok := found[key]; ok {
			return
		}
		min := ops
		if len(ops) <= 400 {
			min = minimise(ops, key)
			_, desc = oracle(min)
		}
		found[key] = finding{Key: key, Desc: desc, Replay: map[string]interface{}{"ops": min, "how": "harness/bin/c02 mode=replay file=<ops, one per line>"}}
		// print at once: a time-boxed or crashing run must not lose what it already found
		b, _ := json.Marshal(found[key])
		fmt.Println("FOUND " + string(b))
		os.Stdout.Sync()
	}
	// directed: hand-written histories (incl. hints passed by the check: hint=<file>)
	if f := a["hint"]; f != "" {
		try(readLines(f))
	}
	for _, h := range directed() {
		try(h)
	}
	// deterministic boundary families before anything random
	for _, h := range boundaryHistories(r.Fork(), thorough) {
		try(h)
	}
	report := func(key, desc string, replay map[string]interface{}) {
		if key == "" {
			return
		}
		if _, ok := found[key]; ok {
			return
		}
		found[key] = finding{Key: key, Desc: desc, Replay: replay}
		b, _ := json.Marshal(found[key])
		fmt.Println("FOUND " + string(b))
		os.Stdout.Sync()
	}
	// write faults: for a few small tries, EVERY position of the failing disk write (each Put of the
	// batch and the final Write), found by a dry run that counts the writes
	nf := 0
	nseeds := 4
	if thorough {
		nseeds = 40
	}
	for s := 0; s < nseeds; s++ {
		seed := r.U64()
		_, _, total := faultScenarioN(hx.NewRng(seed), -1)
		for k := 1; k <= total; k++ {
			evals++
			nf++
			key, desc := faultScenario(hx.NewRng(seed), k)
			report(key, desc, map[string]interface{}{"scenario": "write-fault", "fail_at": k, "of": total, "seed": seed, "how": "harness/bin/c02 mode=search (seeded)"})
		}
	}
	// concurrency (evidence, not proof): tries on one NodeDatabase from several goroutines
	conc := map[string]interface{}{"workers": 8, "rounds": 0, "race_detector": a["race"] == "1"}
	for k := 0; k < hx.ArgInt(a, "conc", 6); k++ {
		evals += 8 * 300
		seed := r.U64()
		key, desc := concScenario(seed, 8)
		report(key, desc, map[string]interface{}{"scenario": "concurrency", "workers": 8, "seed": seed})
		conc["rounds"] = k + 1
	}
	// process-local history: the same histories are answered early in the process and again after
	// everything else has run (hasher pool, caches, singletons warmed and reused by thousands of
	// other tries, rejected opens, injected faults); the answers must be identical
	type early struct {
		ops []string
		ans []string
	}
	var earlies []early
	answers := func(ops []string) []string {
		m := newImpl()
		var out []string
		for _, l := range ops {
			out = append(out, hx.Guard(func() string { return m.exec(l) }))
		}
		return out
	}
	for i := 0; i < 25; i++ {
		g := newGen(r.Fork(), false)
		var ops []string
		for j := 0; j < 60; j++ {
			ops = append(ops, g.op())
		}
		ops = append(ops, "hash", "iter -", "shape")
		earlies = append(earlies, early{ops, answers(ops)})
	}
	// small alphabet, random sequences
	alpha := smallAlphabet()
	for i := 0; i < n; i++ {
		var ops []string
		for j, m := 0, 2+r.Intn(10); j < m; j++ {
			ops = append(ops, alpha[r.Intn(len(alpha))])
		}
		try(ops)
	}
	// structured histories
	for i := 0; i < n; i++ {
		g := newGen(r.Fork(), thorough)
		var ops []string
		for j, m := 0, 10+r.Intn(120); j < m; j++ {
			ops = append(ops, g.op())
		}
		if len(samples) < 3 {
			samples = append(samples, map[string]string{"history": strings.Join(ops[:3], " ; ") + " ; ...", "family": g.familyName()})
		}
		try(ops)
	}
	for _, e := range earlies {
		evals += len(e.ops)
		late := answers(e.ops)
		for i := range late {
			if late[i] != e.ans[i] {
				report("process-history-dependent", fmt.Sprintf("op %d %q answered %q early in the process and %q after other work", i, e.ops[i], e.ans[i], late[i]),
					map[string]interface{}{"ops": e.ops})
				break
			}
		}
	}
	var vs []finding
	keys := make([]string, 0, len(found))
	for k := range found {
		keys = append(keys, k)
	}
	sort.Strings(keys)
	for _, k := range keys {
		vs = append(vs, found[k])
	}
	out := map[string]interface{}{"evaluations": evals, "distinct_nontrivial": len(distinct), "violations": vs, "samples": samples,
		"concurrency_evidence_not_proof": conc, "write_fault_scenarios": nf}
	b, _ := json.Marshal(out)
	fmt.Println("SEARCH " + string(b))
}

// directed histories: classic vectors and the shapes the leads are about.
func directed() [][]string {
	h := func(s string) string { return hx.Hex([]byte(s)) }
	return [][]string{
		{"upd " + h("doe") + " " + h("reindeer"), "upd " + h("dog") + " " + h("puppy"), "upd " + h("dogglesworth") + " " + h("cat"), "hash", "iter -"},
		{"upd " + h("do") + " " + h("verb"), "upd " + h("dog") + " " + h("puppy"), "upd " + h("doge") + " " + h("coin"), "upd " + h("horse") + " " + h("stallion"), "commit", "reopen", "iter -"},
		{"upd - 01", "upd 00 02", "hash", "get -", "del -", "hash"},
		{"upd 00 01", "upd 0000 02", "iter -"},
		{"upd 01 01", "upd 02 02", "commit", "commit", "del 01", "hash", "get 02"},
	}
}
