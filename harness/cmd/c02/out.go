package main

import (
	"bufio"
	"encoding/json"
	"io/ioutil"
	"os"
	"strings"
)

// fastOut writes the ops/obs streams like hx.Out but flushes once per history
// ("new") instead of once per line: the run makes ~10^5 lines and must not
// depend on the machine's syscall latency. A crash marker (<ops>.cur) is
// written at each history start.
type fastOut struct {
	ops, obs *bufio.Writer
	fo, fb   *os.File
	cur      string
	N        int
	Kinds    map[string]int
	Classes  map[string]int
}

func newFastOut(opsPath, obsPath string) (*fastOut, error) {
	fo, err := os.Create(opsPath)
	if err != nil {
		return nil, err
	}
	fb, err := os.Create(obsPath)
	if err != nil {
		return nil, err
	}
	return &fastOut{ops: bufio.NewWriterSize(fo, 1<<20), obs: bufio.NewWriterSize(fb, 1<<20), fo: fo, fb: fb,
		cur: opsPath + ".cur", Kinds: map[string]int{}, Classes: map[string]int{}}, nil
}

func (o *fastOut) flush() { o.ops.Flush(); o.obs.Flush() }

func (o *fastOut) emit(op, res string) {
	if strings.ContainsAny(op, "\n\r") || strings.ContainsAny(res, "\n\r") {
		panic("c02: newline in protocol line")
	}
	if op == "new" {
		o.flush()
		_ = ioutil.WriteFile(o.cur, []byte("history starting at line "+itoa(o.N)+"\n"), 0644)
	}
	o.ops.WriteString(op)
	o.ops.WriteByte('\n')
	o.obs.WriteString(res)
	o.obs.WriteByte('\n')
	o.N++
	k := op
	if i := strings.IndexByte(op, ' '); i >= 0 {
		k = op[:i]
	}
	o.Kinds[k]++
	o.Classes[resultClass(k, res)]++
}

// resultClass buckets an answer for the input-distribution report.
func resultClass(kind, res string) string {
	switch {
	case res == "ok" || res == "absent" || res == "bad-op":
		return res
	case strings.HasPrefix(res, "v="):
		return "value"
	case strings.HasPrefix(res, "n=0"):
		return "iter-empty"
	case strings.HasPrefix(res, "n="):
		return "iter-nonempty"
	case strings.HasPrefix(res, "err-"):
		return res
	case strings.HasPrefix(res, "PANIC"):
		return "PANIC"
	case res == "decode-panic" || res == "split-error" || res == "opened":
		return res
	case kind == "opendisk":
		return "decoded-" + res[:1]
	case kind == "rlpsplit":
		return "split-" + strings.Fields(res)[0] + "-" + strings.Fields(res)[len(strings.Fields(res))-1]
	case kind == "rlpstr" || kind == "rlplist":
		return "rlp-encoding"
	case strings.HasPrefix(res, "blob="):
		return "blob"
	case strings.HasPrefix(res, "mem="):
		return "dbstate"
	case kind == "shape" || kind == "sshape":
		if strings.Contains(res, "H") {
			return "shape-with-hash-nodes"
		}
		return "shape-loaded"
	case kind == "keccak":
		return "digest"
	case res == "56e81f171bcc55a6ff8345e692c0f86e5b48e01b996cadc001622fb5e363b421":
		return "root-empty"
	default:
		return "root"
	}
}

func (o *fastOut) close() { o.flush(); o.fo.Close(); o.fb.Close() }

func (o *fastOut) stats(dist map[string]int) string {
	b, _ := json.Marshal(map[string]interface{}{"ops": o.N, "kinds": o.Kinds, "results": o.Classes, "dist": dist})
	return string(b)
}

func itoa(n int) string {
	b, _ := json.Marshal(n)
	return string(b)
}
