package main

import (
	"bytes"
	"errors"
	"fmt"
	"sort"
	"sync"

	"com.tuntun.rangers/node/src/common"
	"com.tuntun.rangers/node/src/middleware/db"
	"com.tuntun.rangers/node/src/storage/trie"
	"verif/harness/hx"
)

// faultyDB is a disk store whose n-th write operation (Put on the store or a batch, or a batch
// Write) RETURNS AN ERROR instead of writing — a write fault, not a crash.
type faultyDB struct {
	*db.MemDatabase
	mu     sync.Mutex
	count  int
	failAt int // -1 = never
	fired  bool
}

var errInjected = errors.New("injected write fault")

func (f *faultyDB) tick() error {
	f.mu.Lock()
	defer f.mu.Unlock()
	f.count++
	if f.failAt >= 0 && f.count == f.failAt {
		f.fired = true
		return errInjected
	}
	return nil
}
func (f *faultyDB) Put(k, v []byte) error {
	if err := f.tick(); err != nil {
		return err
	}
	return f.MemDatabase.Put(k, v)
}
func (f *faultyDB) NewBatch() db.Batch { return &faultyBatch{f: f, b: f.MemDatabase.NewBatch()} }

type faultyBatch struct {
	f *faultyDB
	b db.Batch
}

func (b *faultyBatch) Put(k, v []byte) error {
	if err := b.f.tick(); err != nil {
		return err
	}
	return b.b.Put(k, v)
}
func (b *faultyBatch) Write() error {
	if err := b.f.tick(); err != nil {
		return err
	}
	return b.b.Write()
}
func (b *faultyBatch) ValueSize() int { return b.b.ValueSize() }
func (b *faultyBatch) Reset()         { b.b.Reset() }

// faultScenario: build a trie, NodeDatabase.Commit it with the k-th disk write failing. The fault
// must surface as an error, a retry after the fault is gone must succeed, and a fresh
// NodeDatabase over the same disk must then hold exactly the content (root = reference).
func faultScenario(r *hx.Rng, failAt int) (key, desc string) {
	k, d, _ := faultScenarioN(r, failAt)
	return k, d
}

// faultScenarioN also returns how many disk write operations the commit made (for enumerating
// every fault position, the final batch.Write included).
func faultScenarioN(r *hx.Rng, failAt int) (key, desc string, writes int) {
	res := hx.Guard(func() string {
		mem, _ := db.NewMemDatabase()
		fdb := &faultyDB{MemDatabase: mem, failAt: -1}
		tdb := trie.NewDatabase(fdb)
		t, _ := trie.NewTrie(common.Hash{}, tdb)
		want := map[string][]byte{}
		n := 1 + r.Intn(12)
		for i := 0; i < n; i++ {
			k := r.Bytes(1 + r.Intn(3))
			v := r.Bytes(r.Pick(1, 20, 33, 100, 3000))
			t.Update(k, v)
			want[string(k)] = v
		}
		root, err := t.Commit(nil)
		if err != nil {
			return "op-failed|trie.Commit: " + err.Error()
		}
		fdb.count, fdb.failAt = 0, failAt
		err = tdb.Commit(root, false)
		writes = fdb.count
		fired := fdb.fired
		if fired && err == nil {
			return fmt.Sprintf("write-fault-swallowed|NodeDatabase.Commit returned nil although disk write #%d failed", failAt)
		}
		fdb.failAt = -1
		if err != nil {
			if err2 := tdb.Commit(root, false); err2 != nil {
				return "write-fault-no-retry|retry of NodeDatabase.Commit after the fault was gone failed: " + err2.Error()
			}
		}
		// a fresh NodeDatabase sees only the disk
		t2, err := trie.NewTrie(root, trie.NewDatabase(fdb))
		if err != nil {
			return fmt.Sprintf("write-fault-lost-data|after fault #%d (fired=%v) and retry the root is not on disk: %v", failAt, fired, err)
		}
		keys := make([]string, 0, len(want))
		for k := range want {
			keys = append(keys, k)
		}
		sort.Strings(keys)
		for _, k := range keys {
			v, err := t2.TryGet([]byte(k))
			if err != nil || !bytes.Equal(v, want[k]) {
				return fmt.Sprintf("write-fault-lost-data|after fault #%d (fired=%v) and retry key %s reads %s err=%v", failAt, fired, hx.Hex([]byte(k)), hx.Hex(v), err)
			}
		}
		if h := t2.Hash(); !bytes.Equal(h[:], ypRoot(want)) {
			return "root-not-canonical|after reload from disk: " + hx.Hex(h[:])
		}
		return ""
	})
	k, d := splitFinding(res)
	return k, d, writes
}

func splitFinding(res string) (string, string) {
	if res == "" {
		return "", ""
	}
	if len(res) >= 5 && res[:5] == "PANIC" {
		return "panic", res
	}
	for i := 0; i < len(res); i++ {
		if res[i] == '|' {
			return res[:i], res[i+1:]
		}
	}
	return "unclassified", res
}

// concScenario: N goroutines, each with its own trie, on ONE NodeDatabase (as account and
// storage tries share one in the node); every trie must end at the reference root and read its
// own content. Evidence, not proof (run under -race in the thorough tier).
func concScenario(seed uint64, workers int) (key, desc string) {
	mem, _ := db.NewMemDatabase()
	tdb := trie.NewDatabase(mem)
	out := make([]string, workers)
	var wg sync.WaitGroup
	for w := 0; w < workers; w++ {
		wg.Add(1)
		go func(w int) {
			defer wg.Done()
			out[w] = hx.Guard(func() string {
				r := hx.NewRng(seed + uint64(w)*7919)
				t, _ := trie.NewTrie(common.Hash{}, tdb)
				want := map[string][]byte{}
				for i := 0; i < 300; i++ {
					k := r.Bytes(1 + r.Intn(2))
					switch c := r.Intn(10); {
					case c < 6:
						v := r.Bytes(r.Pick(1, 31, 32, 33, 100))
						t.Update(k, v)
						want[string(k)] = v
					case c < 8:
						t.Delete(k)
						delete(want, string(k))
					case c < 9:
						root, err := t.Commit(nil)
						if err != nil {
							return "op-failed|commit: " + err.Error()
						}
						if r.Bool() {
							if err := tdb.Commit(root, false); err != nil {
								return "op-failed|db commit: " + err.Error()
							}
						}
						t2, err := trie.NewTrie(root, tdb)
						if err != nil {
							return "read-mismatch|reopen under concurrency: " + err.Error()
						}
						t = t2
					default:
						v, err := t.TryGet(k)
						if err != nil || !bytes.Equal(v, want[string(k)]) {
							return fmt.Sprintf("read-mismatch|worker %d get %s = %s err=%v", w, hx.Hex(k), hx.Hex(v), err)
						}
					}
				}
				if h := t.Hash(); !bytes.Equal(h[:], ypRoot(want)) {
					return fmt.Sprintf("root-not-canonical|worker %d under concurrency: root %s want %s", w, hx.Hex(h[:]), hx.Hex(ypRoot(want)))
				}
				return ""
			})
		}(w)
	}
	wg.Wait()
	for _, o := range out {
		if o != "" {
			k, d := splitFinding(o)
			return "concurrent-" + k, d
		}
	}
	return "", ""
}
