package main

// NodeDatabase-level scripts: arbitrary DAGs built with the exported
// InsertBlob / Reference / Trie.Commit(onleaf) API (shared children, diamonds,
// references to absent children, duplicate references, re-insertion, commits
// of inner nodes before their parents, failed commits with and without process
// death).  The model must reproduce the physical write batches exactly (up to
// the Go map iteration order of external children, which the driver infers).

import (
	"bytes"
	"fmt"
	"os"
	"sort"

	"com.tuntun.rangers/node/src/common"
	xdb "com.tuntun.rangers/node/src/middleware/db"
	"com.tuntun.rangers/node/src/storage/trie"
)

func (r *runner) scenarioBlob(idx int) {
	rg := r.rng
	r.script = nil
	r.out.Emit("reset", "ok")
	rec := newRecDB()
	ndb := trie.NewDatabase(rec)
	inModel := map[common.Hash]bool{}
	pool := make([]common.Hash, 4+rg.Intn(10))
	for i := range pool {
		copy(pool[i][:], rg.Bytes(32))
	}
	isBlob := map[common.Hash]bool{}
	for _, h := range pool {
		isBlob[h] = true
	}
	var trieRoots []common.Hash
	pick := func() common.Hash { return pool[rg.Intn(len(pool))] }
	cachedSet := func() map[common.Hash]bool {
		m := map[common.Hash]bool{}
		for _, h := range ndb.Nodes() {
			m[h] = true
		}
		return m
	}
	sync := func() { // tell the model about cached nodes it does not know
		c := cachedSet()
		for h := range inModel {
			if !c[h] {
				delete(inModel, h)
			}
		}
		var hsx []common.Hash
		for h := range c {
			if !inModel[h] {
				hsx = append(hsx, h)
			}
		}
		sort.Slice(hsx, func(i, j int) bool { return bytes.Compare(hsx[i][:], hsx[j][:]) < 0 })
		descs := map[common.Hash]*nodeDesc{}
		for _, h := range hsx {
			blob, _ := ndb.Node(h)
			k := kStorage
			if isBlob[h] {
				k = kCode
			}
			d := describe(h, k, blob)
			if d.bad {
				d = describe(h, kCode, blob)
			}
			descs[h] = d
		}
		for _, h := range topoOrder(hsx, func(h common.Hash) []common.Hash { return descs[h].need }) {
			d := descs[h]
			inModel[h] = true
			// these scripts deliberately re-insert a *different* blob under a (fake) hash that
			// is already on disk — a collision, outside the theorems' hypothesis; the model's
			// storeCheck must flag exactly those stores
			want := "ok"
			if old, onDisk := rec.m[string(h[:])]; onDisk {
				if now, _ := ndb.Node(h); !bytes.Equal(old, now) {
					want = "ok!pre"
					r.stats["blob_collisions_flagged"]++
				}
			}
			r.out.Emit(fmt.Sprintf("ins %s %s %d %d %s %s", hs(h), d.kind, d.size, d.tag, hlist(d.inner), hlist(d.need)), want)
		}
	}
	big := rg.Chance(1, 3)
	nops := 10 + rg.Intn(40)
	for i := 0; i < nops; i++ {
		switch rg.Intn(12) {
		case 0, 1, 2:
			h := pick()
			n := 1 + rg.Intn(64)
			if big {
				switch rg.Intn(4) {
				case 0:
					n = xdb.IdealBatchSize/2 - 3 + rg.Intn(6)
				case 1:
					n = xdb.IdealBatchSize - 1 + rg.Intn(3)
				case 2:
					n = xdb.IdealBatchSize/3 + rg.Intn(100)
				}
			}
			blob := rg.Bytes(n)
			c := cachedSet()
			ndb.InsertBlob(h, blob)
			r.step(fmt.Sprintf("InsertBlob %x len=%d", h[:4], n))
			if c[h] { // already cached: the call is a no-op; show the model agrees
				r.out.Emit(fmt.Sprintf("ins %s c %d %d - -", hs(h), n, tagOf(blob)), "dup")
			} else {
				sync()
			}
		case 3, 4, 5, 6:
			c := cachedSet()
			var parents []common.Hash
			for h := range c {
				parents = append(parents, h)
			}
			if len(parents) == 0 {
				continue
			}
			sort.Slice(parents, func(i, j int) bool { return bytes.Compare(parents[i][:], parents[j][:]) < 0 })
			p := parents[rg.Intn(len(parents))]
			ch := pick()
			if rg.Chance(1, 12) {
				// the error branch of `reference`: a cached child referenced from a parent that is
				// not cached — the Go code dereferences a nil *cachedNode (model: `reference = none`)
				var absent common.Hash
				copy(absent[:], rg.Bytes(32))
				cc := parents[rg.Intn(len(parents))]
				r.out.Do(fmt.Sprintf("ref %s %s", hs(cc), hs(absent)), func() string { ndb.Reference(cc, absent); return "ok" })
				r.stats["blob_ref_absent_parent"]++
				continue
			}
			if rg.Chance(1, 4) && len(trieRoots) > 0 {
				ch = trieRoots[rg.Intn(len(trieRoots))]
			}
			if rg.Chance(1, 10) {
				ch = p // self reference is skipped by nobody: avoid (it would recurse forever)
				continue
			}
			// acyclicity: only reference from p to ch if ch cannot reach p; the harness
			// keeps pool order as a topological order for blobs: parent index > child index
			if isBlob[p] && isBlob[ch] && idxOf(pool, p) <= idxOf(pool, ch) {
				p, ch = ch, p
				if p == ch || !c[p] {
					continue
				}
			}
			if !isBlob[p] && !isBlob[ch] {
				continue // trie node -> trie node external references are not generated
			}
			if isBlob[p] && !isBlob[ch] {
				continue // blob -> trie root could close a cycle through a leaf reference
			}
			ndb.Reference(ch, p)
			r.step(fmt.Sprintf("Reference %x <- %x", ch[:4], p[:4]))
			r.out.Emit(fmt.Sprintf("ref %s %s", hs(ch), hs(p)), "ok")
		case 7:
			// a real trie committed to the memory database with a leaf callback
			// that references cached blobs from the node holding the leaf
			tr, err := trie.NewTrie(common.Hash{}, ndb)
			if err != nil {
				continue
			}
			nk := 1 + rg.Intn(12)
			for k := 0; k < nk; k++ {
				key := rg.Bytes(1 + rg.Intn(3))
				val := rg.Bytes(20 + rg.Intn(60))
				tr.Update(key, val)
			}
			type rf struct{ c, p common.Hash }
			var refs []rf
			root, err := tr.Commit(func(leaf []byte, parent common.Hash) error {
				if rg.Chance(1, 2) {
					c := pick()
					ndb.Reference(c, parent)
					refs = append(refs, rf{c, parent})
				}
				return nil
			})
			if err != nil {
				continue
			}
			trieRoots = append(trieRoots, root)
			r.step(fmt.Sprintf("Trie.Commit -> %x (%d keys, %d leaf refs)", root[:4], nk, len(refs)))
			sync()
			for _, x := range refs {
				r.out.Emit(fmt.Sprintf("ref %s %s", hs(x.c), hs(x.p)), "ok")
			}
		case 8, 9, 10:
			c := cachedSet()
			var cands []common.Hash
			for h := range c {
				cands = append(cands, h)
			}
			cands = append(cands, pick())
			sort.Slice(cands, func(i, j int) bool { return bytes.Compare(cands[i][:], cands[j][:]) < 0 })
			root := cands[rg.Intn(len(cands))]
			if len(trieRoots) > 0 && rg.Chance(1, 3) {
				root = trieRoots[rg.Intn(len(trieRoots))]
			}
			fail := -1
			if rg.Chance(1, 5) {
				fail = rg.Intn(3)
			}
			rec.log = nil
			rec.refused = nil
			rec.failAt = fail
			err := ndb.Commit(root, false)
			rec.failAt = -1
			ws := rec.log
			rec.log = nil
			r.stats["blob_commits"]++
			if len(ws) > 1 {
				r.stats["blob_multi_batch"]++
			}
			if os.Getenv("VERIF_DEBUG") != "" {
				fmt.Fprintf(os.Stderr, "DEBUG commit %s err=%v nodes after=%d\n", hs(root), err, len(ndb.Nodes()))
				for _, h := range ndb.Nodes() {
					fmt.Fprintf(os.Stderr, "   cached %s\n", hs(h))
				}
			}
			{ // what the commit uncached is unknown to the model from now on
				c := cachedSet()
				for h := range inModel {
					if !c[h] {
						delete(inModel, h)
					}
				}
			}
			if err == nil {
				r.out.Emit(fmt.Sprintf("commit %s %s", hs(root), traceString(ws)), "ok "+traceString(ws))
				r.step(fmt.Sprintf("Commit %x ok %d batches", root[:4], len(ws)))
			} else {
				r.out.Emit(fmt.Sprintf("fail %s %d %s %s", hs(root), fail, traceString(ws), batchString(rec.refused)), "err "+traceString(ws))
				r.step(fmt.Sprintf("Commit %x failed after %d batches", root[:4], len(ws)))
				if rg.Bool() {
					ndb = trie.NewDatabase(rec)
					inModel = map[common.Hash]bool{}
					r.out.Emit("die", "ok")
				}
			}
		case 11:
			h := pick()
			b, err := ndb.Node(h)
			if err != nil {
				b = nil
			}
			r.out.Emit("get "+hs(h), getAnswer(b))
		}
	}
}

func idxOf(pool []common.Hash, h common.Hash) int {
	for i, x := range pool {
		if x == h {
			return i
		}
	}
	return -1
}
