// c03: correspondence harness + property oracle for C03 (a committed state
// root is durable, complete and never invalidates older roots).
//
// It drives the REAL account.AccountDB / trie.NodeDatabase over a recording
// in-memory xdb.Database (recdb.go), exactly the way core/blockchain_add.go
// does (state.Commit(true) then trieDB.Commit(root,false) on one shared
// state database), and
//
//   - writes one op line per step for the Lean model (Model/TrieDB.lean) with the
//     implementation's answer (ops=/obs= files): the cache content observed
//     through the exported NodeDatabase API, the leaf references, the physical
//     write batches of every commit, the roots resolvable at every crash prefix;
//   - evaluates the property itself on the implementation (no model involved):
//     at every prefix of the physical batch writes of every commit it reopens a
//     copy of the store with empty caches and re-reads everything with the real
//     readers.  Property failures are printed as VIOLATION lines and in STATS.
//
// mode=corr (default) : modest histories, ops for the model + oracle
// mode=search         : larger histories, oracle only (ops still written)
// mode=blob           : NodeDatabase-level scripts (InsertBlob/Reference DAGs)
// All randomness derives from VERIF_SEED.
package main

import (
	"bytes"
	"encoding/json"
	"fmt"
	"hash/fnv"
	"io/ioutil"
	"math/big"
	"os"
	"path/filepath"
	"sort"
	"strconv"
	"strings"

	"com.tuntun.rangers/node/src/common"
	crypto "com.tuntun.rangers/node/src/eth_crypto"
	xdb "com.tuntun.rangers/node/src/middleware/db"
	"com.tuntun.rangers/node/src/storage/account"
	"com.tuntun.rangers/node/src/storage/rlp"
	"com.tuntun.rangers/node/src/storage/trie"
	"com.tuntun.rangers/node/src/utility"
	"verif/harness/hx"
)

var _ xdb.Database = (*recDB)(nil)

var readersAlways bool // readers=always: every fault-free commit runs with concurrent readers (race evidence run)

var tokenContract = common.HexToAddress("0x71d9cfd1b7adb1e8eb4c193ce6ffbe19b4aee0db")

// ---------------------------------------------------------------------------
// protocol helpers

const hashChars = 7 // bytes of a hash shown on the line protocol (fits an unboxed Lean Nat)

func hs(h common.Hash) string { return hx.Hex(h[:hashChars]) }

func hlist(hsx []common.Hash) string {
	if len(hsx) == 0 {
		return "-"
	}
	p := make([]string, len(hsx))
	for i, h := range hsx {
		p[i] = hs(h)
	}
	return strings.Join(p, ",")
}

func batchString(items []kv) string {
	if len(items) == 0 {
		return "-"
	}
	p := make([]string, len(items))
	for j, it := range items {
		k := []byte(it.k)
		if len(k) != 32 {
			p[j] = "x" + hx.Hex(k)
			continue
		}
		p[j] = hx.Hex(k[:hashChars])
	}
	return strings.Join(p, ",")
}

// traceString renders physical writes as "h,h;h,h;" style batches (an empty batch is "-").
func traceString(ws []physWrite) string {
	if len(ws) == 0 {
		return "none"
	}
	parts := make([]string, len(ws))
	for i, w := range ws {
		if len(w.items) == 0 {
			parts[i] = "-"
			continue
		}
		p := make([]string, len(w.items))
		for j, it := range w.items {
			k := []byte(it.k)
			if len(k) != 32 {
				p[j] = "x" + hx.Hex(k)
				continue
			}
			p[j] = hx.Hex(k[:hashChars])
			if w.kind != "batch" {
				p[j] = w.kind + ":" + p[j]
			}
		}
		parts[i] = strings.Join(p, ",")
	}
	return strings.Join(parts, ";")
}

// ---------------------------------------------------------------------------
// violations

type violation struct {
	Key    string      `json:"key"`
	Desc   string      `json:"desc"`
	Replay interface{} `json:"replay"`
}

type runner struct {
	out        *hx.Out
	rng        *hx.Rng
	mode       string
	tier       string
	seed       uint64
	violations []violation
	vkeys      map[string]int
	stats      map[string]int
	scenario   int
	violFile   *os.File
	script     []string // human-readable steps of the current scenario (for replays)
}

func (r *runner) violate(key, desc string) {
	r.vkeys[key]++
	if r.vkeys[key] > 3 {
		return
	}
	sc := r.script
	if len(sc) > 400 {
		sc = sc[len(sc)-400:]
	}
	v := violation{Key: key, Desc: desc, Replay: map[string]interface{}{
		"cmd":      fmt.Sprintf("VERIF_SEED=%d harness/bin/c03 mode=%s tier=%s only=%d ops=/dev/null obs=/dev/null", r.seed, r.mode, r.tier, r.scenario),
		"scenario": r.scenario, "steps": append([]string{}, sc...)}}
	r.violations = append(r.violations, v)
	fmt.Printf("PROPERTY-FAILURE key=%s scenario=%d %s\n", key, r.scenario, desc)
	if r.violFile != nil { // flushed when found: survives a time-boxed or crashed run
		if b, err := json.Marshal(v); err == nil {
			r.violFile.Write(append(b, '\n'))
			r.violFile.Sync()
		}
	}
}

func (r *runner) step(s string) { r.script = append(r.script, s) }

// ---------------------------------------------------------------------------
// the world: one persistent store, one live state database, expected contents

type acctExp struct {
	nonce uint64
	code  []byte
	bal   string
	data  map[string][]byte
}

type rootRec struct {
	root   common.Hash
	exp    map[common.Address]*acctExp // API-level observations made before the commit
	digest string                      // full-content digest (real iterators) when it became durable
}

type world struct {
	r       *runner
	rec     *recDB
	sdb     account.AccountDatabase
	head    common.Hash
	headExp map[common.Address]*acctExp
	durable []*rootRec
	addrs   []common.Address
	keys    map[common.Address][]string
	codes   map[common.Hash]bool
	inModel map[common.Hash]bool // hashes the model believes are cached
	ever    map[common.Hash]string
	big     bool
	recent  []common.Address // accounts touched so far in the block being built
	depth      int                     // current transaction-frame depth while a block is generated
	objSet     map[common.Address]bool // accounts whose own object a setter was called on in this block
	strong0    map[common.Address]bool // … SetNonce/IncreaseNonce/SetCode outside every frame: certainly dirty at commit
	looked     map[common.Address]bool // accounts only looked at (peek)
	replay     *recAdb      // the recorded calls of the block being committed (nil for corpus scripts)
	replayBase common.Hash
	retained   []retained // slices returned by the accessors, kept to see whether later calls mutate them
	tainted bool // the cache holds leftovers of a failed commit: leaf callbacks on them are unobservable
}

func newWorld(r *runner) *world {
	w := &world{r: r, rec: newRecDB(), headExp: map[common.Address]*acctExp{}, keys: map[common.Address][]string{},
		codes: map[common.Hash]bool{}, inModel: map[common.Hash]bool{}, ever: map[common.Hash]string{}}
	w.sdb = account.NewDatabase(w.rec)
	w.head = emptyRoot
	return w
}

// purgeInModel forgets what a commit removed from the memory cache.
func (w *world) purgeInModel() {
	cached := map[common.Hash]bool{}
	for _, h := range w.sdb.TrieDB().Nodes() {
		cached[h] = true
	}
	for h := range w.inModel {
		if !cached[h] {
			delete(w.inModel, h)
		}
	}
}

func (w *world) restart() {
	w.tainted = false
	w.sdb = account.NewDatabase(w.rec)
	w.inModel = map[common.Hash]bool{}
}

func (w *world) addr() common.Address {
	rg := w.r.rng
	if len(w.recent) > 0 && rg.Chance(2, 5) {
		// an account already dirtied earlier in this block (re-set under snapshots)
		return w.recent[rg.Intn(len(w.recent))]
	}
	if len(w.addrs) > 0 && !rg.Chance(1, 4) {
		return w.addrs[rg.Intn(len(w.addrs))]
	}
	var a common.Address
	if len(w.addrs) > 0 && rg.Chance(1, 3) {
		a = w.addrs[rg.Intn(len(w.addrs))]
		a[len(a)-1-rg.Intn(3)] ^= byte(1 + rg.Intn(255)) // long shared prefix
	} else {
		a = common.BytesToAddress(rg.Bytes(len(a)))
	}
	for _, x := range w.addrs {
		if x == a {
			return a
		}
	}
	w.addrs = append(w.addrs, a)
	return a
}

func (w *world) key(a common.Address) []byte {
	rg := w.r.rng
	ks := w.keys[a]
	if len(ks) > 0 && rg.Chance(1, 2) {
		return []byte(ks[rg.Intn(len(ks))])
	}
	var k []byte
	switch rg.Intn(6) {
	case 0:
		k = rg.Bytes(1 + rg.Intn(3))
	case 1:
		if len(ks) > 0 { // proper prefix / extension of an existing key: values at branch slot 16
			b := []byte(ks[rg.Intn(len(ks))])
			if rg.Bool() && len(b) > 1 {
				k = b[:len(b)-1]
			} else {
				k = append(append([]byte{}, b...), rg.Bytes(1)...)
			}
		} else {
			k = rg.Bytes(2)
		}
	case 2:
		k = rg.Bytes(32)
	default:
		k = rg.Bytes(1 + rg.Intn(40))
	}
	if len(k) == 0 {
		k = []byte{0}
	}
	w.noteKey(a, k)
	return k
}

func (w *world) noteKey(a common.Address, k []byte) {
	for _, x := range w.keys[a] {
		if x == string(k) {
			return
		}
	}
	w.keys[a] = append(w.keys[a], string(k))
}

func (w *world) value() []byte {
	rg := w.r.rng
	switch rg.Intn(8) {
	case 0:
		return rg.Bytes(1)
	case 1:
		return rg.Bytes(32)
	case 2:
		return rg.Bytes(31 + rg.Intn(3))
	case 3:
		if w.big {
			return rg.Bytes(200 + rg.Intn(300))
		}
		return rg.Bytes(60 + rg.Intn(80))
	default:
		return rg.Bytes(1 + rg.Intn(40))
	}
}

func (w *world) code() []byte {
	rg := w.r.rng
	switch rg.Intn(10) {
	case 0:
		if rg.Chance(1, 6) {
			return []byte{}
		}
		return rg.Bytes(2)
	case 1:
		return rg.Bytes(1)
	case 2:
		return rg.Bytes(31 + rg.Intn(3))
	case 3, 4:
		if w.big {
			return rg.Bytes(xdb.IdealBatchSize/2 - 40 + rg.Intn(80)) // two of these straddle the flush threshold
		}
		return rg.Bytes(500 + rg.Intn(500))
	case 5:
		if w.big {
			return rg.Bytes(xdb.IdealBatchSize - 2 + rg.Intn(5)) // one blob at the threshold itself
		}
		return rg.Bytes(100)
	default:
		return rg.Bytes(10 + rg.Intn(300))
	}
}

// recAdb performs every state call on the live AccountDB and records it, so that the
// very same block can be executed again in a clean process (fresh caches over a copy
// of the store as it was before the block) and the two state roots compared.
type recAdb struct {
	adb *account.AccountDB
	log []func(x *account.AccountDB)
	ids map[int]int // live snapshot id -> id in the re-execution
}

func (ra *recAdb) do(f func(x *account.AccountDB)) {
	ra.log = append(ra.log, f)
	f(ra.adb)
}
func (ra *recAdb) SetNonce(a common.Address, n uint64) { ra.do(func(x *account.AccountDB) { x.SetNonce(a, n) }) }
func (ra *recAdb) IncreaseNonce(a common.Address)      { ra.do(func(x *account.AccountDB) { x.IncreaseNonce(a) }) }
func (ra *recAdb) SetData(a common.Address, k, v []byte) {
	ra.do(func(x *account.AccountDB) { x.SetData(a, k, v) })
}
func (ra *recAdb) RemoveData(a common.Address, k []byte) {
	ra.do(func(x *account.AccountDB) { x.RemoveData(a, k) })
}
func (ra *recAdb) SetBalance(a common.Address, v *big.Int) {
	ra.do(func(x *account.AccountDB) { x.SetBalance(a, v) })
}
func (ra *recAdb) AddBalance(a common.Address, v *big.Int) {
	ra.do(func(x *account.AccountDB) { x.AddBalance(a, v) })
}
func (ra *recAdb) SetCode(a common.Address, c []byte) { ra.do(func(x *account.AccountDB) { x.SetCode(a, c) }) }
func (ra *recAdb) Suicide(a common.Address)           { ra.do(func(x *account.AccountDB) { x.Suicide(a) }) }
func (ra *recAdb) IntermediateRoot() {
	ra.do(func(x *account.AccountDB) { x.IntermediateRoot(true) })
}
// Peek: what block execution does to accounts it only looks at (zero-value call,
// contract check, nonce check of a sender whose transaction is then rejected): the
// account object is loaded into the AccountDB but neither modified nor are its slots read.
func (ra *recAdb) Peek(a common.Address, how int) {
	ra.do(func(x *account.AccountDB) {
		switch how % 6 {
		case 0:
			x.Exist(a)
		case 1:
			x.GetNonce(a)
		case 2:
			x.GetCodeSize(a)
		case 3:
			x.GetCodeHash(a)
		case 4:
			x.HasSuicided(a)
		default:
			x.Empty(a)
		}
	})
}

func (ra *recAdb) Snapshot() int {
	id := ra.adb.Snapshot()
	ids := ra.ids
	ra.log = append(ra.log, func(x *account.AccountDB) { ids[id] = x.Snapshot() })
	return id
}
func (ra *recAdb) RevertToSnapshot(id int) {
	ids := ra.ids
	live := ra.adb
	ra.do(func(x *account.AccountDB) {
		if x == live {
			x.RevertToSnapshot(id)
		} else {
			x.RevertToSnapshot(ids[id])
		}
	})
}

// mutate applies one random state mutation through the exported AccountDB API.
func (w *world) mutate(adb *recAdb, touched map[common.Address]bool) {
	rg := w.r.rng
	a := w.addr()
	if !touched[a] {
		w.recent = append(w.recent, a)
	}
	touched[a] = true
	kind := rg.Intn(14)
	if w.objSet != nil && kind != 8 && kind != 9 { // 8/9 write the token contract's storage, not `a`
		w.objSet[a] = true
		if w.depth == 0 && (kind <= 2 || kind == 10 || kind == 11 || kind == 13) {
			w.strong0[a] = true
		}
	}
	switch kind {
	case 0, 1:
		n := uint64(rg.Intn(5))
		adb.SetNonce(a, n)
		w.r.step(fmt.Sprintf("SetNonce %x %d", a[:], n))
	case 2:
		adb.IncreaseNonce(a)
		w.r.step(fmt.Sprintf("IncreaseNonce %x", a[:]))
	case 3, 4, 5, 6:
		k, v := w.key(a), w.value()
		adb.SetData(a, k, v)
		w.r.step(fmt.Sprintf("SetData %x %x %x", a[:], k, v))
	case 7:
		k := w.key(a)
		adb.RemoveData(a, k)
		w.r.step(fmt.Sprintf("RemoveData %x %x", a[:], k))
	case 8:
		v := new(big.Int).SetBytes(rg.Bytes(1 + rg.Intn(12)))
		adb.SetBalance(a, v)
		touched[tokenContract] = true
		w.r.step(fmt.Sprintf("SetBalance %x %s", a[:], v))
	case 9:
		v := new(big.Int).SetBytes(rg.Bytes(rg.Intn(9)))
		adb.AddBalance(a, v)
		touched[tokenContract] = true
		w.r.step(fmt.Sprintf("AddBalance %x %s", a[:], v))
	case 10, 11:
		c := w.code()
		adb.SetCode(a, c)
		w.codes[crypto.Keccak256Hash(c)] = true
		w.r.step(fmt.Sprintf("SetCode %x len=%d", a[:], len(c)))
	case 12:
		if rg.Chance(1, 3) {
			adb.Suicide(a)
			w.r.step(fmt.Sprintf("Suicide %x", a[:]))
		} else {
			k, v := w.key(a), w.value()
			adb.SetData(a, k, v)
			w.r.step(fmt.Sprintf("SetData %x %x %x", a[:], k, v))
		}
	case 13:
		c := w.code()
		adb.SetCode(a, c)
		w.codes[crypto.Keccak256Hash(c)] = true
		n := uint64(rg.Intn(4))
		adb.SetNonce(a, n)
		w.r.step(fmt.Sprintf("SetCode %x len=%d;SetNonce %d", a[:], len(c), n))
	}
}

// frame is one transaction / call frame as block execution produces them: a
// snapshot, some mutations and nested frames, and — for a failed transaction
// or a reverted inner call — RevertToSnapshot.  Reverts are partial (only the
// frame's own effects) and nested to depth 3; accounts dirtied earlier in the
// block are re-set inside frames that are later reverted.
func (w *world) frame(adb *recAdb, touched map[common.Address]bool, depth int, budget *int) {
	rg := w.r.rng
	id := adb.Snapshot()
	w.depth = depth + 1
	defer func() { w.depth = depth }()
	w.r.step(fmt.Sprintf("%sSnapshot #%d {", strings.Repeat("  ", depth), id))
	n := 1 + rg.Intn(5)
	for i := 0; i < n && *budget > 0; i++ {
		if depth < 3 && rg.Chance(1, 4) {
			w.frame(adb, touched, depth+1, budget)
		} else {
			*budget--
			w.mutate(adb, touched)
		}
	}
	if rg.Chance(2, 5) {
		adb.RevertToSnapshot(id)
		w.r.stats["reverted_frames"]++
		w.r.step(fmt.Sprintf("%s} RevertToSnapshot #%d", strings.Repeat("  ", depth), id))
	} else {
		w.r.stats["kept_frames"]++
		w.r.step(fmt.Sprintf("%s} keep #%d", strings.Repeat("  ", depth), id))
	}
}

// observe reads one account through the exported accessors.
func (w *world) observe(adb *account.AccountDB, a common.Address) *acctExp {
	e := &acctExp{data: map[string][]byte{}}
	e.bal = adb.GetBalance(a).String()
	if adb.HasSuicided(a) {
		// a self-destructed account stays readable until the commit and is removed
		// by it: that removal is the state transition being committed, not a loss
		for _, k := range w.keys[a] {
			e.data[k] = nil
		}
		return e
	}
	e.nonce = adb.GetNonce(a)
	code := adb.GetCode(a)
	e.code = cp(code)
	w.retain(code, e.code, "GetCode", a, nil)
	for _, k := range w.keys[a] {
		v := adb.GetData(a, []byte(k))
		e.data[k] = cp(v)
		w.retain(v, e.data[k], "GetData", a, []byte(k))
	}
	return e
}

// retained: the slice an accessor returned (not a copy) and what it contained then.
type retained struct {
	raw, was []byte
	what     string
}

func (w *world) retain(raw, was []byte, call string, a common.Address, k []byte) {
	if len(raw) == 0 || len(w.retained) > 20000 {
		return
	}
	if w.r.rng.Chance(1, 4) {
		w.retained = append(w.retained, retained{raw, was, fmt.Sprintf("%s(%x,%x)", call, a[:], k)})
	}
}

// checkRetained: results handed out earlier must not change under later calls
// (a returned slice aliasing a reused buffer or a cache entry that is rewritten).
func (w *world) checkRetained() {
	for _, x := range w.retained {
		if !bytes.Equal(x.raw, x.was) {
			w.r.violate("returned-slice-mutated-later", fmt.Sprintf("the slice returned by %s held %x and now holds %x", x.what, x.was, x.raw))
			return
		}
	}
	w.r.stats["retained_slices_checked"] += len(w.retained)
}

func sameExp(x, y *acctExp) string {
	if x.nonce != y.nonce {
		return fmt.Sprintf("nonce %d vs %d", x.nonce, y.nonce)
	}
	if !bytes.Equal(x.code, y.code) {
		return fmt.Sprintf("code len %d vs %d", len(x.code), len(y.code))
	}
	if x.bal != y.bal {
		return fmt.Sprintf("balance %s vs %s", x.bal, y.bal)
	}
	for k, v := range x.data {
		if !bytes.Equal(v, y.data[k]) {
			return fmt.Sprintf("slot %x: %x vs %x", k, v, y.data[k])
		}
	}
	return ""
}

// ---------------------------------------------------------------------------
// the oracle: real readers on a cold copy of the store

type rootStatus struct {
	present    bool
	resolvable bool
	digest     string
	why        string
}

// fullCheck opens `root` from `disk` alone with fresh caches and walks every
// account, every storage trie and every code blob with the real iterators.
func fullCheck(disk map[string][]byte, root common.Hash) (st rootStatus) {
	if root == emptyRoot || root == (common.Hash{}) {
		return rootStatus{present: true, resolvable: true, digest: "empty"}
	}
	_, st.present = disk[string(root[:])]
	defer func() {
		if e := recover(); e != nil {
			st.resolvable = false
			st.why = fmt.Sprint("panic: ", e)
		}
	}()
	sdb := account.NewDatabase(viewDB(disk))
	dg, why := contentDigest(sdb, root)
	if why != "" {
		st.why = why
		return
	}
	st.resolvable = true
	st.digest = dg
	return
}

// contentDigest walks root through the given state database (cache then disk
// for a live one, disk only for a cold one); why != "" when something is missing.
func contentDigest(sdb account.AccountDatabase, root common.Hash) (string, string) {
	tdb := sdb.TrieDB()
	t, err := trie.NewTrie(root, tdb)
	if err != nil {
		return "", "open: " + err.Error()
	}
	h := fnv.New64a()
	it := t.NodeIterator(nil)
	n := 0
	for it.Next(true) {
		if !it.Leaf() {
			continue
		}
		n++
		h.Write(it.LeafKey())
		h.Write(it.LeafBlob())
		var a account.Account
		if err := rlp.DecodeBytes(it.LeafBlob(), &a); err != nil {
			return "", "account leaf does not decode"
		}
		if a.Root != emptyRoot && a.Root != (common.Hash{}) {
			stt, err := trie.NewTrie(a.Root, tdb)
			if err != nil {
				return "", fmt.Sprintf("storage root %x of account %x: %v", a.Root[:4], it.LeafKey(), err)
			}
			sit := stt.NodeIterator(nil)
			for sit.Next(true) {
				if sit.Leaf() {
					h.Write(sit.LeafKey())
					h.Write(sit.LeafBlob())
				}
			}
			if sit.Error() != nil {
				return "", fmt.Sprintf("storage trie of account %x: %v", it.LeafKey(), sit.Error())
			}
		}
		ch := common.BytesToHash(a.NFTSetDefinitionHash)
		if ch != sha3Empty && ch != keccakEmpty {
			code, err := sdb.ContractCode(common.Hash{}, ch)
			if err != nil || len(code) == 0 {
				return "", fmt.Sprintf("code %x of account %x missing", ch[:4], it.LeafKey())
			}
			h.Write(code)
		}
	}
	if it.Error() != nil {
		return "", "account trie: " + it.Error().Error()
	}
	return fmt.Sprintf("%d:%016x", n, h.Sum64()), ""
}

// apiCheck compares the exported accessors on a cold reopen with expectations.
func (w *world) apiCheck(disk map[string][]byte, root common.Hash, exp map[common.Address]*acctExp, sample int) string {
	var res string
	func() {
		defer func() {
			if e := recover(); e != nil {
				res = fmt.Sprint("panic while reading: ", e)
			}
		}()
		adb, err := account.NewAccountDB(root, account.NewDatabase(viewDB(disk)))
		if err != nil {
			res = "cannot open: " + err.Error()
			return
		}
		as := make([]common.Address, 0, len(exp))
		for a := range exp {
			as = append(as, a)
		}
		sort.Slice(as, func(i, j int) bool { return bytes.Compare(as[i][:], as[j][:]) < 0 })
		for i, a := range as {
			if sample > 0 && len(as) > sample && (i*7919+int(root[0]))%len(as) >= sample {
				continue
			}
			got := w.observe(adb, a)
			if d := sameExp(exp[a], got); d != "" {
				res = fmt.Sprintf("account %x: %s", a[:], d)
				return
			}
		}
		if adb.Error() != nil {
			res = "db error: " + adb.Error().Error()
		}
	}()
	return res
}

// ---------------------------------------------------------------------------
// describing the cache to the model

func (w *world) nodeOf(h common.Hash) []byte {
	b, err := w.sdb.TrieDB().Node(h)
	if err != nil {
		return nil
	}
	return b
}

// emitCache tells the model about every cached node it does not know yet, and
// (for account-trie nodes holding an account leaf) the leaf the commit callback saw.
func (w *world) emitCache(root common.Hash) {
	tdb := w.sdb.TrieDB()
	cached := map[common.Hash]bool{}
	for _, h := range tdb.Nodes() {
		cached[h] = true
	}
	for h := range w.inModel {
		if !cached[h] {
			delete(w.inModel, h)
		}
	}
	// classify by walking from the root over need-edges (cache then disk)
	kind := map[common.Hash]string{}
	desc := map[common.Hash]*nodeDesc{}
	var order []common.Hash
	queue := []common.Hash{}
	push := func(h common.Hash, k string) {
		if _, ok := kind[h]; ok {
			return
		}
		kind[h] = k
		queue = append(queue, h)
	}
	if root != emptyRoot && root != (common.Hash{}) {
		push(root, kAcct)
	}
	for len(queue) > 0 {
		h := queue[0]
		queue = queue[1:]
		if !cached[h] {
			continue // on disk (or missing): the model learnt it when it was cached
		}
		blob := w.nodeOf(h)
		d := describe(h, kind[h], blob)
		desc[h] = d
		order = append(order, h)
		if d.bad {
			w.r.stats["describe_bad"]++
		}
		for _, c := range d.inner {
			push(c, kind[h])
		}
		if d.isLeaf {
			if d.aRoot != emptyRoot && d.aRoot != (common.Hash{}) {
				push(d.aRoot, kStorage)
			}
			push(d.aCode, kCode)
		}
	}
	// cached but unreachable from this root
	var rest []common.Hash
	for h := range cached {
		if _, ok := desc[h]; !ok {
			rest = append(rest, h)
		}
	}
	sort.Slice(rest, func(i, j int) bool { return bytes.Compare(rest[i][:], rest[j][:]) < 0 })
	for _, h := range rest {
		k := kStorage
		if w.codes[h] {
			k = kCode
		} else if kk, ok := w.ever[h]; ok {
			k = kk
		}
		blob := w.nodeOf(h)
		d := describe(h, k, blob)
		if d.bad {
			d = describe(h, kCode, blob)
		}
		desc[h] = d
		order = append(order, h)
		w.r.stats["cached_unreachable"]++
		if os.Getenv("VERIF_DEBUG") != "" {
			fmt.Fprintf(os.Stderr, "DEBUG unreachable cached %x kind=%s size=%d root=%x\n", h[:4], d.kind, d.size, root[:4])
		}
	}
	for _, h := range topoOrder(order, func(h common.Hash) []common.Hash {
		d := desc[h]
		if d.isLeaf {
			return append(append([]common.Hash{}, d.need...), d.aRoot, d.aCode)
		}
		return d.need
	}) {
		d := desc[h]
		w.ever[h] = d.kind
		if w.inModel[h] {
			if d.isLeaf && kind[h] == kAcct {
				// a leftover of a block that was never added is part of the new state:
				// the hasher may have stored it again (leaf callback ran again) or not
				w.r.out.Emit(fmt.Sprintf("insl? %s %s %d %d %s %s %s %s", hs(h), d.kind, d.size, d.tag, hlist(d.inner), hlist(d.need), hs(d.aRoot), hs(d.aCode)), "ok")
				w.r.stats["leftover_leaf_candidates"]++
			}
			continue
		}
		w.inModel[h] = true
		if d.isLeaf && kind[h] == kAcct {
			w.r.out.Emit(fmt.Sprintf("insl %s %s %d %d %s %s %s %s", hs(h), d.kind, d.size, d.tag, hlist(d.inner), hlist(d.need), hs(d.aRoot), hs(d.aCode)), "ok")
		} else {
			w.r.out.Emit(fmt.Sprintf("ins %s %s %d %d %s %s", hs(h), d.kind, d.size, d.tag, hlist(d.inner), hlist(d.need)), "ok")
		}
	}
}

// topoOrder lists hs children-first (post-order over need-edges inside hs),
// the order in which hasher.store / CommitTrie / InsertBlob insert them.
func topoOrder(hsx []common.Hash, need func(common.Hash) []common.Hash) []common.Hash {
	in := map[common.Hash]bool{}
	for _, h := range hsx {
		in[h] = true
	}
	done := map[common.Hash]bool{}
	var out []common.Hash
	var visit func(h common.Hash)
	visit = func(h common.Hash) {
		if done[h] || !in[h] {
			return
		}
		done[h] = true
		for _, c := range need(h) {
			visit(c)
		}
		out = append(out, h)
	}
	for _, h := range hsx {
		visit(h)
	}
	return out
}

// viewOf unfolds root over need-edges through get (the tree a reader sees):
// number of node visits and sum of blob tags, or "missing".
func viewOf(root common.Hash, get func(common.Hash) []byte, budget int) string {
	type item struct {
		h common.Hash
		k string
	}
	stack := []item{{root, kAcct}}
	n, sum := 0, uint64(0)
	for len(stack) > 0 {
		it := stack[len(stack)-1]
		stack = stack[:len(stack)-1]
		blob := get(it.h)
		if blob == nil {
			return "missing"
		}
		n++
		if n > budget {
			return "big"
		}
		sum += uint64(tagOf(blob))
		d := describe(it.h, it.k, blob)
		for _, c := range d.inner {
			stack = append(stack, item{c, it.k})
		}
		if d.isLeaf {
			if d.aRoot != emptyRoot && d.aRoot != (common.Hash{}) {
				stack = append(stack, item{d.aRoot, kStorage})
			}
			if d.aCode != sha3Empty && d.aCode != keccakEmpty {
				stack = append(stack, item{d.aCode, kCode})
			}
		}
	}
	return fmt.Sprintf("n=%d s=%d", n, sum)
}

// ---------------------------------------------------------------------------
// one block

type blockPlan struct {
	nmut     int
	failAt   int  // -1: none, k: the (k+1)-th physical write of the node commit fails
	failPutAt int // -1: none, k: the (k+1)-th batch.Put of the node commit returns an error
	die      bool // process death after the (failed or successful) commit
	retry    bool // after a failed commit try again in the same process
	fork     bool // build on an older durable root
	interRt  bool // IntermediateRoot between mutations (per-transaction roots)
	skipRead bool
}

func (w *world) block(p blockPlan) {
	r := w.r
	rg := r.rng
	base := w.head
	baseExp := w.headExp
	if p.fork && len(w.durable) > 1 {
		d := w.durable[rg.Intn(len(w.durable))]
		base, baseExp = d.root, d.exp
		r.step(fmt.Sprintf("-- fork from durable root %x", base[:4]))
	}
	adb, err := account.NewAccountDB(base, w.sdb)
	if err != nil {
		r.violate("head-unopenable", fmt.Sprintf("cannot open durable head %x on the live state database: %v", base[:4], err))
		return
	}
	r.step(fmt.Sprintf("-- block on %x: %d mutations failAt=%d die=%v retry=%v", base[:4], p.nmut, p.failAt, p.die, p.retry))
	touched := map[common.Address]bool{}
	ra := &recAdb{adb: adb, ids: map[int]int{}}
	if base == emptyRoot {
		// like the genesis block: the native-token contract exists (nonce 1, code)
		// and the balance binding points at it, so balances live in its storage
		ra.do(func(x *account.AccountDB) {
			x.SetNonce(tokenContract, 1)
			x.SetCode(tokenContract, []byte("native token contract"))
			x.AddERC20Binding(common.BLANCE_NAME, tokenContract, 3, 18)
		})
		touched[tokenContract] = true
		r.step("genesis: token contract + balance binding")
	}
	w.recent = nil
	w.depth = 0
	w.objSet, w.strong0, w.looked = map[common.Address]bool{}, map[common.Address]bool{}, map[common.Address]bool{}
	defer func() { w.objSet, w.strong0, w.looked = nil, nil, nil }()
	for budget := p.nmut; budget > 0; {
		if res := hx.Guard(func() string {
			if rg.Chance(3, 5) {
				w.frame(ra, touched, 0, &budget) // a transaction, possibly failing
			} else {
				budget--
				w.mutate(ra, touched)
			}
			return ""
		}); res != "" {
			// a panic inside a state accessor is not a C03 matter (C04/C11 own the
			// accessors); it is counted and the history simply continues
			r.stats["accessor_panics"]++
			r.step("!! " + res)
		}
		if len(w.addrs) > 0 && rg.Chance(1, 3) {
			// read-only look at some existing account (NOT recorded as touched: its slots are
			// not read before the commit, so it stays a loaded-but-clean object)
			a := w.addrs[rg.Intn(len(w.addrs))]
			how := rg.Intn(6)
			hx.Guard(func() string { ra.Peek(a, how); return "" })
			w.looked[a] = true
			r.stats["peeks"]++
			r.step(fmt.Sprintf("peek(%d) %x", how, a[:]))
		}
		if p.interRt && rg.Chance(1, 4) {
			ra.IntermediateRoot()
			r.step("IntermediateRoot(true)")
		}
	}
	w.replay, w.replayBase = ra, base
	w.commitFrom(adb, touched, p, baseExp)
	w.replay = nil
}

// commitPrepared commits a state built on the current head (corpus scripts).
func (w *world) commitPrepared(adb *account.AccountDB, touched map[common.Address]bool, p blockPlan) {
	w.commitFrom(adb, touched, p, w.headExp)
}

// commitFrom: pre-commit reads, state.Commit(true), trieDB.Commit(root,false)
// with recording / fault injection, crash-point enumeration, cold reopen.
func (w *world) commitFrom(adb *account.AccountDB, touched map[common.Address]bool, p blockPlan, baseExp map[common.Address]*acctExp) {
	r := w.r
	rg := r.rng
	// what is readable before the commit
	exp := make(map[common.Address]*acctExp, len(baseExp)+len(touched))
	for a, e := range baseExp {
		exp[a] = e
	}
	tl := make([]common.Address, 0, len(touched))
	for a := range touched {
		tl = append(tl, a)
	}
	sort.Slice(tl, func(i, j int) bool { return bytes.Compare(tl[i][:], tl[j][:]) < 0 })
	for _, a := range tl {
		a := a
		if p.skipRead {
			break
		}
		if res := hx.Guard(func() string { exp[a] = w.observe(adb, a); return "" }); res != "" {
			r.stats["accessor_panics"]++
			r.step("!! observe " + res)
		}
	}
	objs := w.objectFlags(adb)
	root, err := adb.Commit(true)
	if err != nil {
		w.tainted = true
		r.stats["state_commit_err"]++
		r.step("state.Commit error: " + err.Error())
		if os.Getenv("VERIF_DEBUG") != "" {
			fmt.Fprintln(os.Stderr, "DEBUG state.Commit error:", err)
		}
		return
	}
	r.stats["blocks"]++
	tdb := w.sdb.TrieDB()
	if w.replay != nil {
		// process-local history: the same block executed in a clean process (fresh
		// caches over the store as it was) must produce the same state root
		if root2, why := w.cleanReplay(w.rec.snapshot(), w.replayBase, w.replay, tl, p.skipRead); why != "" {
			r.stats["clean_replay_skipped"]++
		} else {
			r.stats["clean_replays"]++
			if root2 != root {
				r.violate("root-depends-on-process-history", fmt.Sprintf("the block gives state root %x in the long-lived process and %x when executed in a clean process on the same store", root[:4], root2[:4]))
			}
		}
	}
	// second reading of "readable before the commit": what the committing
	// AccountDB itself answers after state.Commit and before the node commit
	warm := map[common.Address]*acctExp{}
	for _, a := range tl {
		a := a
		if res := hx.Guard(func() string { warm[a] = w.observe(adb, a); return "" }); res != "" {
			r.stats["accessor_panics"]++
			delete(warm, a)
		}
	}
	w.emitCache(root)
	r.out.Emit("view "+hs(root), viewOf(root, w.nodeOf, 200000))
	preDigest, why := contentDigest(w.sdb, root)
	if why != "" {
		r.violate("precommit-unreadable", "state committed to the memory database cannot be walked: "+why)
	}
	diskBefore := w.rec.snapshot()
	durableBefore := append([]*rootRec{}, w.durable...)

	w.rec.log = nil
	w.rec.refused = nil
	w.rec.failAt = p.failAt
	w.rec.failPutAt = p.failPutAt
	w.rec.faults = 0
	var readers *concurrentReaders
	if p.failAt < 0 && p.failPutAt < 0 && (rg.Chance(1, 3) || readersAlways) {
		readers = w.startReaders(root, exp, durableBefore)
	}
	cerr := tdb.Commit(root, false)
	if readers != nil {
		if d := readers.wait(); d != "" {
			r.violate("concurrent-read-differs", "a reader running while the node commit was in progress: "+d)
		}
		r.stats["concurrent_reader_runs"]++
	}
	w.rec.failAt = -1
	w.rec.failPutAt = -1
	if w.rec.backend != nil {
		var ks []string
		for _, pw := range w.rec.log {
			for _, it := range pw.items {
				ks = append(ks, it.k)
			}
		}
		for _, it := range w.rec.refused {
			ks = append(ks, it.k) // a refused batch must not have reached the real store either
		}
		if d := w.rec.mirrorDiff(ks); d != "" {
			r.violate("real-store-differs-from-recorded-writes", d)
		}
		r.stats["real_store_keys_checked"] += len(ks)
	}
	if w.rec.faults > 0 && cerr == nil {
		r.violate("write-error-swallowed", fmt.Sprintf("the store refused %d write(s) during the commit of %x but NodeDatabase.Commit returned nil", w.rec.faults, root[:4]))
	}
	writes := w.rec.log
	w.rec.log = nil
	w.purgeInModel()
	r.stats["phys_writes"] += len(writes)
	if len(writes) > 1 {
		r.stats["multi_batch_commits"]++
	}
	for _, pw := range writes {
		if pw.kind != "batch" {
			r.violate("non-batch-write", "node commit issued a "+pw.kind)
		}
		for _, it := range pw.items {
			// independent reference (eth_crypto, not the trie hasher): a node is stored under the Keccak-256 of its bytes
			if h := crypto.Keccak256Hash(it.v); string(h[:]) != it.k {
				r.violate("key-is-not-hash-of-value", fmt.Sprintf("commit of %x stored %d bytes under key %x whose Keccak-256 is %x", root[:4], len(it.v), it.k, h[:]))
			}
			r.stats["hash_checks"]++
		}
	}
	if w.rec.deletes > 0 {
		r.violate("disk-delete", "the state store received a Delete")
	}
	q := ""
	if w.tainted {
		r.stats["commits_with_leftovers"]++ // still compared exactly (see insl? candidates)
	}
	if cerr == nil {
		r.out.Emit(fmt.Sprintf("commit%s %s %s", q, hs(root), traceString(writes)), "ok "+traceString(writes))
		r.step(fmt.Sprintf("trieDB.Commit %x ok: %d batches", root[:4], len(writes)))
	} else {
		r.stats["failed_commits"]++
		k := p.failAt
		if p.failPutAt >= 0 {
			k = len(writes) // a refused Put ends the commit like a refused write of the batch being filled
		}
		r.out.Emit(fmt.Sprintf("fail%s %s %d %s %s", q, hs(root), k, traceString(writes), batchString(w.rec.refused)), "err "+traceString(writes))
		if !p.die && !p.retry {
			w.tainted = true
		}
		r.step(fmt.Sprintf("trieDB.Commit %x FAILED after %d batches", root[:4], len(writes)))
	}

	// ---- crash-point enumeration: every prefix of the physical writes
	checkRoots := []*rootRec{}
	for i := len(durableBefore) - 1; i >= 0 && len(checkRoots) < 2; i-- {
		checkRoots = append(checkRoots, durableBefore[i])
	}
	for k := 0; k < 2 && len(durableBefore) > 2; k++ {
		checkRoots = append(checkRoots, durableBefore[rg.Intn(len(durableBefore)-2)])
	}
	for j := 0; j <= len(writes); j++ {
		disk := applyPrefix(diskBefore, writes, j)
		var flags []string
		var names []common.Hash
		st := fullCheck(disk, root)
		r.stats["prefix_checks"]++
		if st.present && !st.resolvable {
			r.violate("dangling-root-at-crash-prefix", fmt.Sprintf("after %d of %d physical writes of the commit of %x its top node is on disk but the state is not resolvable: %s", j, len(writes), root[:4], st.why))
		}
		if st.resolvable && st.digest != preDigest && preDigest != "" {
			r.violate("content-differs-after-reopen", fmt.Sprintf("root %x reopened from disk (prefix %d/%d) has content digest %s, before the commit it was %s", root[:4], j, len(writes), st.digest, preDigest))
		}
		names = append(names, root)
		flags = append(flags, flag(st))
		for _, d := range checkRoots {
			so := fullCheck(disk, d.root)
			r.stats["prefix_checks"]++
			if !so.resolvable {
				r.violate("older-root-lost", fmt.Sprintf("root %x was durable before the commit of %x; after %d of %d physical writes it is no longer resolvable: %s", d.root[:4], root[:4], j, len(writes), so.why))
			} else if so.digest != d.digest {
				r.violate("older-root-changed", fmt.Sprintf("root %x content digest changed from %s to %s during the commit of %x", d.root[:4], d.digest, so.digest, root[:4]))
			}
			if d.root != root {
				names = append(names, d.root)
				flags = append(flags, flag(so))
			}
		}
		// every other root whose top node is present must resolve (the new root's
		// interior nodes are not roots anyone recorded, so only known roots are asked)
		ops := make([]string, len(names))
		for i := range names {
			ops[i] = hs(names[i])
		}
		r.out.Emit(fmt.Sprintf("prefix %d %s", j, strings.Join(ops, ",")), strings.Join(flags, ","))
	}

	if cerr == nil {
		// complete: cold reopen answers every accessor as before the commit
		disk := w.rec.snapshot()
		st := fullCheck(disk, root)
		if !st.resolvable {
			r.violate("committed-root-unresolvable", fmt.Sprintf("commit of %x reported success but the root cannot be fully read from the store: %s", root[:4], st.why))
		}
		sample := 0
		if w.big {
			sample = 60
		}
		if !p.skipRead {
			if d := w.apiCheck(disk, root, exp, sample); d != "" {
				r.violate("read-differs-after-reopen", fmt.Sprintf("root %x: %s (value read before the commit vs cold reopen)", root[:4], d))
			}
		}
		if d := w.indepCheck(disk, root, warm, 25, 0); d != "" {
			r.violate("independent-reader-differs", fmt.Sprintf("root %x read from the store with an independent trie walk: %s", root[:4], d))
		}
		if !p.skipRead {
			// … and over accounts the block did not modify (expectations from earlier blocks):
			// a commit must not change what it was not asked to change
			if d := w.indepCheck(disk, root, exp, 40, int(root[1])*7+int(root[2])); d != "" {
				r.violate("independent-reader-differs", fmt.Sprintf("root %x read from the store with an independent trie walk (accounts incl. ones this block did not modify): %s", root[:4], d))
			}
		}
		if d := w.apiCheck(disk, root, warm, 0); d != "" {
			r.violate("warm-read-differs-after-reopen", fmt.Sprintf("root %x: %s (committing AccountDB after state.Commit vs cold reopen)", root[:4], d))
		}
		r.out.Emit("dview "+hs(root), viewOf(root, func(h common.Hash) []byte {
			if b, ok := disk[string(h[:])]; ok {
				return b
			}
			return nil
		}, 200000))
		known := false
		for _, d := range w.durable {
			if d.root == root {
				known = true
			}
		}
		if !known && st.resolvable {
			w.durable = append(w.durable, &rootRec{root: root, exp: exp, digest: st.digest})
		}
		if p.skipRead {
			// informational only (state-transition semantics belong to C04/C06, not to
			// durability): did an unobserved touched account change its readable content?
			if d := w.apiCheck(disk, root, exp, 0); d != "" {
				r.stats["unobserved_touch_changed_content"]++
				if os.Getenv("VERIF_DEBUG") != "" {
					fmt.Fprintln(os.Stderr, "DEBUG unobserved touch changed content:", d)
				}
			}
			for a, e := range warm {
				exp[a] = e
			}
		}
		w.emitObjects(objs, diskBefore, w.replayBase, disk, root)
		w.head, w.headExp = root, exp
		// an older root sampled through the accessors as well
		if len(durableBefore) > 0 && rg.Chance(1, 3) {
			d := durableBefore[rg.Intn(len(durableBefore))]
			if dd := w.apiCheck(disk, d.root, d.exp, 40); dd != "" {
				r.violate("older-root-read-differs", fmt.Sprintf("root %x after the commit of %x: %s", d.root[:4], root[:4], dd))
			}
		}
	} else if p.retry && !p.die {
		// the write failed but the process lives: nothing may have been uncached
		w.rec.log = nil
		err2 := tdb.Commit(root, false)
		writes2 := w.rec.log
		w.rec.log = nil
		w.purgeInModel()
		if err2 != nil {
			r.violate("retry-failed", "second commit attempt failed: "+err2.Error())
		} else {
			r.out.Emit(fmt.Sprintf("commit%s %s %s", q, hs(root), traceString(writes2)), "ok "+traceString(writes2))
			disk := w.rec.snapshot()
			st := fullCheck(disk, root)
			if !st.resolvable {
				r.violate("uncached-before-durable", fmt.Sprintf("after a failed and a repeated commit of %x the root is not resolvable (nodes were dropped from the cache before they were on disk): %s", root[:4], st.why))
			} else {
				if d := w.apiCheck(disk, root, exp, 0); d != "" {
					r.violate("read-differs-after-reopen", fmt.Sprintf("root %x (after retry): %s", root[:4], d))
				}
				w.durable = append(w.durable, &rootRec{root: root, exp: exp, digest: st.digest})
				w.head, w.headExp = root, exp
			}
			r.step("retry ok")
		}
	}
	if p.die {
		w.restart()
		r.out.Emit("die", "ok")
		r.step("-- process death, caches dropped")
	}
	// spot checks of Node() against the model's cache-then-disk lookup
	if len(writes) > 0 && len(writes[0].items) > 0 && rg.Chance(1, 2) {
		it := writes[0].items[rg.Intn(len(writes[0].items))]
		var h common.Hash
		copy(h[:], it.k)
		b := w.nodeOf(h)
		r.out.Emit("get "+hs(h), getAnswer(b))
	}
	if rg.Chance(1, 6) {
		var h common.Hash
		copy(h[:], rg.Bytes(32))
		r.out.Emit("get "+hs(h), getAnswer(w.nodeOf(h)))
	}
}

func getAnswer(b []byte) string {
	if b == nil {
		return "none"
	}
	return fmt.Sprintf("%d %d", len(b), tagOf(b))
}

func flag(st rootStatus) string {
	switch {
	case st.resolvable:
		return "r"
	case st.present:
		return "p"
	}
	return "x"
}

// ---------------------------------------------------------------------------
// scenarios

func (r *runner) scenarioState(idx int, big bool, nblocks int) {
	rg := r.rng
	r.script = nil
	r.out.Emit("reset", "ok")
	w := newWorld(r)
	w.big = big
	// fork configuration: Proposal002 (journaled vs direct balance writes in AddFT/SubFT)
	// active from genesis, or activating in the middle of the scenario
	p002 := uint64(0)
	if rg.Chance(1, 3) {
		p002 = uint64(2 + rg.Intn(5))
	}
	setForkConfig(p002)
	defer func() { setForkConfig(0); common.SetBlockHeight(0) }()
	if rg.Chance(1, 4) || idx%8 == 3 {
		// the production store: xdb.LDBDatabase (LevelDB under ./storage0) behind the recorder
		ldb, err := xdb.NewLDBDatabase(fmt.Sprintf("c03-%s-%d-%d", r.mode, r.seed, idx), 8, 8)
		if err == nil {
			w.rec.backend = ldb
			r.stats["scenarios_on_real_leveldb"]++
			defer ldb.Close()
		} else {
			r.stats["leveldb_open_failed"]++
		}
	}
	r.step(fmt.Sprintf("-- fork config: Proposal002Block=%d", p002))
	defer w.checkRetained()
	for b := 0; b < nblocks; b++ {
		common.SetBlockHeight(uint64(b))
		p := blockPlan{failAt: -1, failPutAt: -1}
		switch {
		case b == 0:
			p.nmut = 8 + rg.Intn(30)
		case big && rg.Chance(1, 2):
			p.nmut = 150 + rg.Intn(250)
		default:
			p.nmut = 1 + rg.Intn(25)
		}
		p.interRt = rg.Chance(1, 3)
		if b > 0 {
			switch rg.Intn(10) {
			case 0:
				p.failAt = rg.Intn(3)
				p.die = true
			case 1:
				p.failAt = rg.Intn(3)
				p.retry = true
			case 2:
				p.failAt = rg.Intn(2)
			case 3:
				p.die = true
			case 4:
				p.failPutAt = rg.Intn(6)
				p.die = rg.Bool()
				p.retry = !p.die && rg.Bool()
			}
			p.fork = rg.Chance(1, 8)
		}
		if res := hx.Guard(func() string { w.block(p); return "" }); res != "" {
			// a panic inside state.Commit / trieDB.Commit / the readers: the node would
			// crash-loop on this block; the scenario cannot continue
			r.violate("panic-in-commit-path", "panic while committing or re-reading a state: "+res)
			return
		}
	}
}

func main() {
	a := hx.Args()
	work, _ := os.Getwd()
	_ = ioutil.WriteFile(filepath.Join(work, "verif.ini"), []byte(""), 0644)
	utility.VerifDisableNTP()
	common.Init(0, "verif.ini", "dev")
	account.Init()

	out, err := hx.NewOut(a["ops"], a["obs"])
	if err != nil {
		panic(err)
	}
	defer out.Close()
	seed := hx.SeedFromEnv()
	tier := a["tier"]
	if tier == "" {
		tier = "quick"
	}
	mode := a["mode"]
	if mode == "" {
		mode = "corr"
	}
	r := &runner{out: out, mode: mode, tier: tier, seed: seed, vkeys: map[string]int{}, stats: map[string]int{}}
	if a["obs"] != "" && a["obs"] != "/dev/null" {
		r.violFile, _ = os.Create(a["obs"] + ".viol")
	}
	only := hx.ArgInt(a, "only", -1)
	readersAlways = a["readers"] == "always"

	type sc struct {
		big     bool
		nblocks int
		blob    bool
	}
	var plan []sc
	switch mode {
	case "corr":
		n := 40
		if tier == "thorough" {
			n = 400
		}
		for i := 0; i < n; i++ {
			plan = append(plan, sc{big: i%5 == 4, nblocks: 6 + i%7})
		}
		nb := 150
		if tier == "thorough" {
			nb = 2000
		}
		for i := 0; i < nb; i++ {
			plan = append(plan, sc{blob: true})
		}
	case "search":
		n := 30
		if tier == "thorough" {
			n = 400
		}
		for i := 0; i < n; i++ {
			plan = append(plan, sc{big: i%2 == 0, nblocks: 10 + i%9})
		}
	case "blob":
		for i := 0; i < hx.ArgInt(a, "n", 200); i++ {
			plan = append(plan, sc{blob: true})
		}
	}
	corpusDir := os.Getenv("VERIF_CORPUS")
	if mode == "corr" && only < 0 {
		r.runCorpus(corpusDir)
	}
	if (mode == "corr" && only < 0) || a["boundary"] != "" {
		r.rng = hx.NewRng(seed ^ 0xb0da)
		r.scenario = -1000
		r.scenarioBoundary()
	}
	if a["corpusonly"] != "" {
		plan = nil
	}
	base := hx.NewRng(seed ^ uint64(len(mode))*0x9e3779b97f4a7c15)
	for i, s := range plan {
		r.rng = base.Fork() // every scenario has its own stream: `only=i` replays it alone
		if only >= 0 && i != only {
			continue
		}
		r.scenario = i
		if s.blob {
			r.scenarioBlob(i)
		} else {
			r.scenarioState(i, s.big, s.nblocks)
		}
	}
	st := map[string]interface{}{}
	_ = json.Unmarshal([]byte(out.StatsJSON()), &st)
	st["c03"] = r.stats
	st["violations"] = r.violations
	st["violation_keys"] = r.vkeys
	b, _ := json.Marshal(st)
	fmt.Println("STATS " + string(b))
	_ = strconv.Itoa
}
