package main

// Hardening additions (design/C03.md "Hardening audit"): clean-process
// re-execution, concurrent readers during a commit, an independent reader of
// the persisted state (own trie walk over RLP, no trie package), boundary
// families run before the random scenarios, fork-configuration switching.

import (
	"bytes"
	"fmt"
	"sort"
	"sync"

	"com.tuntun.rangers/node/src/common"
	xdb "com.tuntun.rangers/node/src/middleware/db"
	"com.tuntun.rangers/node/src/storage/account"
	"com.tuntun.rangers/node/src/storage/rlp"
	"verif/harness/hx"
)

// ---- class 6: the same block in a clean process

func (w *world) cleanReplay(disk map[string][]byte, base common.Hash, ra *recAdb, tl []common.Address, skipRead bool) (root common.Hash, why string) {
	res := hx.Guard(func() string {
		adb2, err := account.NewAccountDB(base, account.NewDatabase(viewDB(disk)))
		if err != nil {
			why = "cannot open base: " + err.Error()
			return ""
		}
		for _, f := range ra.log {
			f := f
			hx.Guard(func() string { f(adb2); return "" })
		}
		if !skipRead {
			keep := w.retained
			for _, a := range tl {
				a := a
				hx.Guard(func() string { w.observe(adb2, a); return "" })
			}
			w.retained = keep
		}
		r2, err := adb2.Commit(true)
		if err != nil {
			why = "state.Commit error in the clean process: " + err.Error()
			return ""
		}
		root = r2
		return ""
	})
	if res != "" {
		why = res
	}
	return
}

// ---- class 4: readers while NodeDatabase.Commit runs (evidence, not proof)

type concurrentReaders struct {
	wg   sync.WaitGroup
	mu   sync.Mutex
	diff string
}

func (c *concurrentReaders) wait() string { c.wg.Wait(); return c.diff }

func (w *world) startReaders(root common.Hash, exp map[common.Address]*acctExp, durable []*rootRec) *concurrentReaders {
	c := &concurrentReaders{}
	type job struct {
		root common.Hash
		exp  map[common.Address]*acctExp
	}
	jobs := []job{{root, exp}, {root, exp}}
	if len(durable) > 0 {
		d := durable[len(durable)-1]
		jobs = append(jobs, job{d.root, d.exp}, job{d.root, d.exp})
	}
	keys := w.keys // read-only while the readers run
	for _, j := range jobs {
		j := j
		c.wg.Add(1)
		go func() {
			defer c.wg.Done()
			defer func() {
				if e := recover(); e != nil {
					c.mu.Lock()
					c.diff = fmt.Sprint("panic: ", e)
					c.mu.Unlock()
				}
			}()
			// the live, shared state database: cache first, then the store being written
			adb, err := account.NewAccountDB(j.root, w.sdb)
			if err != nil {
				c.mu.Lock()
				c.diff = fmt.Sprintf("cannot open %x: %v", j.root[:4], err)
				c.mu.Unlock()
				return
			}
			as := make([]common.Address, 0, len(j.exp))
			for a := range j.exp {
				as = append(as, a)
			}
			sort.Slice(as, func(x, y int) bool { return bytes.Compare(as[x][:], as[y][:]) < 0 })
			for i, a := range as {
				if i > 40 {
					break
				}
				e := j.exp[a]
				if adb.GetNonce(a) != e.nonce && e.nonce != 0 {
					c.mu.Lock()
					c.diff = fmt.Sprintf("root %x account %x nonce %d vs %d", j.root[:4], a[:], adb.GetNonce(a), e.nonce)
					c.mu.Unlock()
					return
				}
				for _, k := range keys[a] {
					want, ok := e.data[k]
					if !ok {
						continue
					}
					if got := adb.GetData(a, []byte(k)); !bytes.Equal(got, want) {
						c.mu.Lock()
						c.diff = fmt.Sprintf("root %x account %x slot %x: %x vs %x", j.root[:4], a[:], k, got, want)
						c.mu.Unlock()
						return
					}
				}
			}
		}()
	}
	return c
}

// ---- class 1: an independent reader of the persisted state

func nibblesOf(key []byte) []byte {
	n := make([]byte, 0, 2*len(key)+1)
	for _, b := range key {
		n = append(n, b>>4, b&15)
	}
	return append(n, 16)
}

func compactNibbles(c []byte) (nib []byte, leaf bool) {
	if len(c) == 0 {
		return nil, false
	}
	leaf = c[0]&0x20 != 0
	if c[0]&0x10 != 0 {
		nib = append(nib, c[0]&15)
	}
	for _, b := range c[1:] {
		nib = append(nib, b>>4, b&15)
	}
	if leaf {
		nib = append(nib, 16)
	}
	return
}

// indepGet walks the Merkle-Patricia trie stored in `disk` below `root` with nothing
// but RLP splitting: ok=false when a node is missing or malformed.
func indepGet(disk map[string][]byte, root common.Hash, key []byte) (val []byte, ok bool) {
	if root == emptyRoot || root == (common.Hash{}) {
		return nil, true
	}
	blob, present := disk[string(root[:])]
	if !present {
		return nil, false
	}
	return indepWalk(disk, blob, nibblesOf(key), 0)
}

func indepWalk(disk map[string][]byte, node []byte, path []byte, depth int) ([]byte, bool) {
	if depth > 200 {
		return nil, false
	}
	content, _, err := rlp.SplitList(node)
	if err != nil {
		return nil, false
	}
	n, err := rlp.CountValues(content)
	if err != nil {
		return nil, false
	}
	follow := func(k rlp.Kind, item []byte, raw []byte, rest []byte) ([]byte, bool) {
		if k == rlp.List {
			return indepWalk(disk, raw, rest, depth+1) // embedded node
		}
		if len(item) == 0 {
			return nil, true
		}
		if len(item) != 32 {
			return nil, false
		}
		b, present := disk[string(item)]
		if !present {
			return nil, false
		}
		return indepWalk(disk, b, rest, depth+1)
	}
	switch n {
	case 2:
		ck, rest, err := rlp.SplitString(content)
		if err != nil {
			return nil, false
		}
		nib, leaf := compactNibbles(ck)
		if len(path) < len(nib) || !bytes.Equal(path[:len(nib)], nib) {
			return nil, true
		}
		k, item, _, err := rlp.Split(rest)
		if err != nil {
			return nil, false
		}
		if leaf {
			return item, true
		}
		return follow(k, item, rest[:len(rest)], path[len(nib):])
	case 17:
		if len(path) == 0 {
			return nil, false
		}
		rest := content
		for i := 0; i < 17; i++ {
			k, item, r, err := rlp.Split(rest)
			if err != nil {
				return nil, false
			}
			raw := rest[:len(rest)-len(r)]
			rest = r
			if byte(i) != path[0] {
				continue
			}
			if i == 16 {
				return item, true
			}
			return follow(k, item, raw, path[1:])
		}
	}
	return nil, false
}

// indepCheck compares a sample of expected slots/nonces/code with the independent reader.
func (w *world) indepCheck(disk map[string][]byte, root common.Hash, exp map[common.Address]*acctExp, max int, offset int) string {
	as := make([]common.Address, 0, len(exp))
	for a := range exp {
		as = append(as, a)
	}
	sort.Slice(as, func(i, j int) bool { return bytes.Compare(as[i][:], as[j][:]) < 0 })
	n := 0
	if len(as) > 0 {
		k := offset % len(as)
		as = append(append([]common.Address{}, as[k:]...), as[:k]...)
	}
	for _, a := range as {
		if n >= max {
			break
		}
		n++
		e := exp[a]
		leaf, ok := indepGet(disk, root, a[:])
		if !ok {
			return fmt.Sprintf("account %x: a node on its path is missing or malformed", a[:])
		}
		var acc account.Account
		if len(leaf) > 0 {
			if err := rlp.DecodeBytes(leaf, &acc); err != nil {
				return fmt.Sprintf("account %x: leaf does not decode", a[:])
			}
		} else {
			acc.Root = emptyRoot
		}
		if acc.Nonce != e.nonce {
			return fmt.Sprintf("account %x: nonce %d in the stored leaf, %d expected", a[:], acc.Nonce, e.nonce)
		}
		ch := common.BytesToHash(acc.NFTSetDefinitionHash)
		if len(e.code) > 0 && !bytes.Equal(disk[string(ch[:])], e.code) {
			return fmt.Sprintf("account %x: code under %x has %d bytes, %d expected", a[:], ch[:4], len(disk[string(ch[:])]), len(e.code))
		}
		for k, want := range e.data {
			got, ok := indepGet(disk, acc.Root, []byte(k))
			if !ok {
				return fmt.Sprintf("account %x slot %x: a storage node is missing or malformed", a[:], k)
			}
			if !bytes.Equal(got, want) {
				return fmt.Sprintf("account %x slot %x: stored %x, expected %x", a[:], k, got, want)
			}
		}
	}
	w.r.stats["independent_reader_accounts"] += n
	return ""
}

// ---- class 2: boundary families, run before the random scenarios

// scenarioBoundary: deterministic small-scope families around the sizes that decide
// behaviour: the 32-byte embedding rule of the hasher (node RLP 31/32/33), the
// uint16 size field of cachedNode (65535/65536/65537), the flush threshold
// (batch value size IdealBatchSize-1 / = / +1 reached by 1, 2 or 3 blobs), empty / nil values.
func (r *runner) scenarioBoundary() {
	r.script = nil
	r.out.Emit("reset", "ok")
	w := newWorld(r)
	w.big = true
	L := xdb.IdealBatchSize
	mk := func(n int, salt byte) []byte {
		b := make([]byte, n)
		for i := range b {
			b[i] = byte(i*131) ^ salt
		}
		return b
	}
	run := func(name string, f func(adb *account.AccountDB, touched map[common.Address]bool)) {
		adb, err := account.NewAccountDB(w.head, w.sdb)
		if err != nil {
			r.violate("head-unopenable", err.Error())
			return
		}
		touched := map[common.Address]bool{}
		if w.head == emptyRoot {
			adb.SetNonce(tokenContract, 1)
			adb.SetCode(tokenContract, []byte("native token contract"))
			adb.AddERC20Binding(common.BLANCE_NAME, tokenContract, 3, 18)
			touched[tokenContract] = true
		}
		r.step("-- boundary family: " + name)
		f(adb, touched)
		if res := hx.Guard(func() string { w.commitFrom(adb, touched, blockPlan{failAt: -1, failPutAt: -1}, w.headExp); return "" }); res != "" {
			r.violate("panic-in-commit-path", res)
		}
		r.stats["boundary_blocks"]++
	}
	addr := func(i int) common.Address { return corpusAddr(fmt.Sprint(200 + i)) }
	// storage values 0..40 bytes under 1- and 2-byte keys: leaf RLP crosses 32 bytes
	run("storage leaf sizes around the 32-byte embedding rule", func(adb *account.AccountDB, t map[common.Address]bool) {
		for n := 0; n <= 40; n++ {
			a := addr(n % 5)
			k := []byte{byte(n)}
			if n%2 == 1 {
				k = []byte{byte(n), byte(n * 7)}
			}
			w.noteKey(a, k)
			adb.SetNonce(a, 1)
			adb.SetData(a, k, mk(n, 3))
			t[a] = true
		}
	})
	run("empty, nil and removed values", func(adb *account.AccountDB, t map[common.Address]bool) {
		a := addr(0)
		for i, v := range [][]byte{{}, nil, {0}, {0, 0}} {
			k := []byte{0xee, byte(i)}
			w.noteKey(a, k)
			adb.SetData(a, k, v)
		}
		adb.RemoveData(a, []byte{0})
		t[a] = true
	})
	for _, n := range []int{65535, 65536, 65537} {
		n := n
		run(fmt.Sprintf("code blob of %d bytes (uint16 size field)", n), func(adb *account.AccountDB, t map[common.Address]bool) {
			a := addr(6)
			adb.SetNonce(a, 1)
			adb.SetCode(a, mk(n, byte(n)))
			t[a] = true
		})
	}
	// flush threshold reached exactly / one below / one above by 1, 2, 3 blobs
	for parts := 1; parts <= 3; parts++ {
		for _, delta := range []int{-1, 0, 1} {
			parts, delta := parts, delta
			run(fmt.Sprintf("%d code blobs summing to IdealBatchSize%+d", parts, delta), func(adb *account.AccountDB, t map[common.Address]bool) {
				total := L + delta
				for i := 0; i < parts; i++ {
					n := total / parts
					if i == parts-1 {
						n = total - (total/parts)*(parts-1)
					}
					a := addr(10 + i)
					adb.SetNonce(a, uint64(1+parts))
					adb.SetCode(a, mk(n, byte(parts*16+delta+2+i)))
					t[a] = true
				}
			})
		}
	}
	w.checkRetained()
}

// ---- class 5: fork configuration

// setForkConfig selects the proposal schedule a scenario runs under; the only flags read
// on the state path are Proposal002 (AddFT/SubFT journal their write or not) and IsSub.
func setForkConfig(p002 uint64) { common.LocalChainConfig.Proposal002Block = p002 }

// ---- object-level commit model (Model/StateCommit.lean) by correspondence

// objFlag: what AccountDB.Commit sees of one account object, as far as the exported API and the
// harness's own bookkeeping determine it.
type objFlag struct {
	a                      common.Address
	suicided, dirty, empty bool
}

// objectFlags is evaluated right before state.Commit for the accounts whose dirty flag the harness
// knows for certain: only looked at (clean), or SetNonce/IncreaseNonce/SetCode outside every frame
// (dirty), or self-destructed.  Accounts that are not held as objects (Exist false) are skipped.
func (w *world) objectFlags(adb *account.AccountDB) []objFlag {
	if w.objSet == nil {
		return nil
	}
	var as []common.Address
	for a := range w.looked {
		as = append(as, a)
	}
	for a := range w.strong0 {
		if !w.looked[a] {
			as = append(as, a)
		}
	}
	sort.Slice(as, func(i, j int) bool { return bytes.Compare(as[i][:], as[j][:]) < 0 })
	var out []objFlag
	for _, a := range as {
		if a == tokenContract || len(out) >= 12 {
			continue
		}
		a := a
		hx.Guard(func() string {
			if !adb.Exist(a) {
				return ""
			}
			sui := adb.HasSuicided(a)
			switch {
			case sui:
				out = append(out, objFlag{a, true, true, adb.Empty(a)})
			case !w.objSet[a]:
				out = append(out, objFlag{a, false, false, adb.Empty(a)})
			case w.strong0[a]:
				out = append(out, objFlag{a, false, true, adb.Empty(a)})
			}
			return ""
		})
	}
	return out
}

func b01(b bool) int {
	if b {
		return 1
	}
	return 0
}

// emitObjects: one `obj` op per account; the implementation's answer is what an independent walk of the
// account trie shows for that address before and after the commit.
func (w *world) emitObjects(objs []objFlag, diskBefore map[string][]byte, base common.Hash, diskAfter map[string][]byte, root common.Hash) {
	for _, o := range objs {
		before, ok1 := indepGet(diskBefore, base, o.a[:])
		after, ok2 := indepGet(diskAfter, root, o.a[:])
		if !ok1 || !ok2 {
			continue
		}
		ans := "kept-changed"
		switch {
		case len(after) == 0:
			ans = "gone"
		case bytes.Equal(before, after):
			ans = "kept-same"
		}
		w.r.out.Emit(fmt.Sprintf("obj %d %d %d 1", b01(o.suicided), b01(o.dirty), b01(o.empty)), ans)
		w.r.stats[fmt.Sprintf("obj_s%d_d%d_e%d_%s", b01(o.suicided), b01(o.dirty), b01(o.empty), ans)]++
	}
}
