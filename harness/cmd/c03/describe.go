package main

// Structural description of persisted blobs, written independently of the trie
// package: which 32-byte hashes a *reader* of a node will follow.  This is the
// `need` relation the Lean model's Closed/Resolvable predicates are about and
// the `inner` list (gatherChildren order) its commit walk follows.

import (
	"bytes"
	"hash/fnv"

	"com.tuntun.rangers/node/src/common"
	"com.tuntun.rangers/node/src/storage/account"
	"com.tuntun.rangers/node/src/storage/rlp"
)

const (
	kAcct    = "a" // account-trie node
	kStorage = "s" // storage-trie node
	kCode    = "c" // raw blob (code)
)

var (
	emptyRoot   = common.HexToHash("56e81f171bcc55a6ff8345e692c0f86e5b48e01b996cadc001622fb5e363b421")
	// account.emptyData / emptyCode = sha3.Sum256(nil) = NIST SHA3-256 of "" (the translator
	// checks the initialiser text; the constant is spelled out to keep go.mod untouched)
	sha3Empty = common.HexToHash("a7ffc6f8bf1ed76651c14756a061d662f580ff4de43b49fa82d80a4b80f8434a")
	keccakEmpty = common.HexToHash("c5d2460186f7233c927e7db2dcc703c0e500b653ca82273b7bfad8045d85a470")
)

type leafVal struct {
	val []byte
}

// describeTrieNode returns the hash children in gatherChildren order and the
// leaf values stored in (or embedded in) this node.  ok=false if the blob is
// not a well-formed trie node.
func describeTrieNode(blob []byte) (inner []common.Hash, leaves [][]byte, ok bool) {
	content, rest, err := rlp.SplitList(blob)
	if err != nil || len(rest) != 0 {
		return nil, nil, false
	}
	ok = walkNodeList(content, &inner, &leaves)
	return
}

func walkNodeList(content []byte, inner *[]common.Hash, leaves *[][]byte) bool {
	n, err := rlp.CountValues(content)
	if err != nil {
		return false
	}
	switch n {
	case 2:
		key, rest, err := rlp.SplitString(content)
		if err != nil || len(key) == 0 {
			return false
		}
		isLeaf := key[0]&0x20 != 0
		k, val, rest2, err := rlp.Split(rest)
		if err != nil || len(rest2) != 0 {
			return false
		}
		if isLeaf {
			if k == rlp.List {
				return false
			}
			*leaves = append(*leaves, val)
			return true
		}
		return walkRef(k, val, inner, leaves)
	case 17:
		rest := content
		for i := 0; i < 17; i++ {
			k, val, r, err := rlp.Split(rest)
			if err != nil {
				return false
			}
			rest = r
			if i == 16 {
				if k == rlp.List {
					return false
				}
				if len(val) > 0 {
					*leaves = append(*leaves, val)
				}
				continue
			}
			if k != rlp.List && len(val) == 0 {
				continue
			}
			if !walkRef(k, val, inner, leaves) {
				return false
			}
		}
		return true
	}
	return false
}

func walkRef(k rlp.Kind, val []byte, inner *[]common.Hash, leaves *[][]byte) bool {
	if k == rlp.List {
		return walkNodeList(val, inner, leaves) // embedded (< 32 byte) node
	}
	if len(val) != 32 {
		return false
	}
	*inner = append(*inner, common.BytesToHash(val))
	return true
}

func tagOf(blob []byte) uint32 {
	h := fnv.New32a()
	h.Write(blob)
	return h.Sum32()
}

// nodeDesc is what the model is told about one persisted/cached blob.
type nodeDesc struct {
	hash   common.Hash
	kind   string
	size   int
	tag    uint32
	inner  []common.Hash
	need   []common.Hash
	isLeaf bool        // account-trie node holding an account leaf
	aRoot  common.Hash // Account.Root of that leaf
	aCode  common.Hash // Account.NFTSetDefinitionHash of that leaf
	bad    bool
}

// describe builds the description of blob h of the given kind.
func describe(h common.Hash, kind string, blob []byte) *nodeDesc {
	d := &nodeDesc{hash: h, kind: kind, size: len(blob), tag: tagOf(blob)}
	if kind == kCode {
		return d
	}
	inner, leaves, ok := describeTrieNode(blob)
	if !ok {
		d.bad = true
		return d
	}
	d.inner = inner
	d.need = append(d.need, inner...)
	if kind == kAcct {
		for _, lv := range leaves {
			var a account.Account
			if err := rlp.DecodeBytes(lv, &a); err != nil {
				d.bad = true
				continue
			}
			if d.isLeaf {
				d.bad = true // two account leaves in one stored node cannot happen (leaves are >= 32 bytes)
			}
			d.isLeaf = true
			d.aRoot = a.Root
			d.aCode = common.BytesToHash(a.NFTSetDefinitionHash)
			if a.Root != emptyRoot && a.Root != (common.Hash{}) {
				d.need = append(d.need, a.Root)
			}
			if d.aCode != sha3Empty && !bytes.Equal(d.aCode[:], keccakEmpty[:]) {
				d.need = append(d.need, d.aCode)
			}
		}
	}
	return d
}
