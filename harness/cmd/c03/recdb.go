package main

// recDB: an in-memory xdb.Database that records every *physical* write (a
// direct Put/Delete or one Batch.Write) with its contents, and can refuse the
// k-th physical write from now on (fault injection).  It is what the harness
// hands to account.NewDatabase, so every byte the real commit code persists
// goes through it.  No go-rangers code is modified for this.

import (
	"errors"
	"sort"
	"sync"

	xdb "com.tuntun.rangers/node/src/middleware/db"
)

type kv struct {
	k string
	v []byte
}

type physWrite struct {
	kind  string // "batch", "put", "delete"
	items []kv
}

var errInjected = errors.New("verif: injected write failure")
var errNotFound = errors.New("leveldb: not found")

type recDB struct {
	// the embedded value only supplies NewIterator/NewIteratorWithPrefix (which
	// panic "Not support" in MemDatabase, as nothing in the state path calls
	// them); every other method is overridden below
	xdb.Database
	m       map[string][]byte
	log     []physWrite
	failAt  int // <0: never fail; otherwise number of physical writes still allowed
	deletes int
	record  bool
	refused []kv // Puts of the batch whose Write was refused (fault injection)
	failPutAt int // <0: never; otherwise number of batch.Put calls still allowed
	faults    int // write faults injected since the counter was reset
	mu        sync.RWMutex // readers may run while a commit writes (concurrency phase)
	// backend: when set, every call also goes to the REAL store implementation
	// (xdb.LDBDatabase / ldbBatch over LevelDB in the scratch directory): batch.ValueSize(),
	// which decides the flush points of a commit, is then the real one, and what the
	// real store returns is compared with the in-memory mirror after every commit
	backend xdb.Database
}

func baseDB() xdb.Database {
	d, _ := xdb.NewMemDatabase()
	return d
}

func newRecDB() *recDB {
	return &recDB{Database: baseDB(), m: map[string][]byte{}, failAt: -1, failPutAt: -1, record: true}
}

func cp(b []byte) []byte {
	c := make([]byte, len(b))
	copy(c, b)
	return c
}

func (d *recDB) allow() bool {
	if d.failAt == 0 {
		d.faults++
		return false
	}
	if d.failAt > 0 {
		d.failAt--
	}
	return true
}

func (d *recDB) Put(key []byte, value []byte) error {
	if !d.allow() {
		return errInjected
	}
	if d.backend != nil {
		if err := d.backend.Put(key, value); err != nil {
			return err
		}
	}
	d.mu.Lock()
	d.m[string(key)] = cp(value)
	d.mu.Unlock()
	if d.record {
		d.log = append(d.log, physWrite{"put", []kv{{string(key), cp(value)}}})
	}
	return nil
}

func (d *recDB) Get(key []byte) ([]byte, error) {
	d.mu.RLock()
	defer d.mu.RUnlock()
	if v, ok := d.m[string(key)]; ok {
		return cp(v), nil
	}
	return nil, errNotFound
}

func (d *recDB) Has(key []byte) (bool, error) {
	d.mu.RLock()
	defer d.mu.RUnlock()
	_, ok := d.m[string(key)]
	return ok, nil
}

func (d *recDB) Delete(key []byte) error {
	if !d.allow() {
		return errInjected
	}
	d.mu.Lock()
	delete(d.m, string(key))
	d.mu.Unlock()
	d.deletes++
	if d.record {
		d.log = append(d.log, physWrite{"delete", []kv{{string(key), nil}}})
	}
	return nil
}

func (d *recDB) Close() {}

func (d *recDB) NewBatch() xdb.Batch {
	b := &recBatch{db: d}
	if d.backend != nil {
		b.inner = d.backend.NewBatch()
	}
	return b
}

// mirrorDiff compares what the real store returns for the given keys with the mirror.
func (d *recDB) mirrorDiff(keys []string) string {
	if d.backend == nil {
		return ""
	}
	for _, k := range keys {
		want, inMirror := d.m[k]
		got, err := d.backend.Get([]byte(k))
		has, _ := d.backend.Has([]byte(k))
		if !inMirror {
			if err == nil || has {
				return "the real store holds key " + hexs(k) + " that was never written"
			}
			continue
		}
		if err != nil || !has {
			return "key " + hexs(k) + " written through a batch is missing from the real store"
		}
		if string(got) != string(want) {
			return "key " + hexs(k) + " holds different bytes in the real store"
		}
	}
	return ""
}

func hexs(k string) string {
	const hexd = "0123456789abcdef"
	n := len(k)
	if n > 8 {
		n = 8
	}
	out := make([]byte, 0, 2*n)
	for i := 0; i < n; i++ {
		out = append(out, hexd[k[i]>>4], hexd[k[i]&15])
	}
	return string(out)
}

// snapshot returns an independent copy of the current content.
func (d *recDB) snapshot() map[string][]byte {
	c := make(map[string][]byte, len(d.m))
	for k, v := range d.m {
		c[k] = v
	}
	return c
}

func viewDB(m map[string][]byte) *recDB {
	return &recDB{Database: baseDB(), m: m, failAt: -1, failPutAt: -1, record: false}
}

// applyPrefix returns base + the first j physical writes of ws (a fresh map).
func applyPrefix(base map[string][]byte, ws []physWrite, j int) map[string][]byte {
	c := make(map[string][]byte, len(base)+64)
	for k, v := range base {
		c[k] = v
	}
	for i := 0; i < j && i < len(ws); i++ {
		for _, it := range ws[i].items {
			if ws[i].kind == "delete" {
				delete(c, it.k)
			} else {
				c[it.k] = it.v
			}
		}
	}
	return c
}

func sortedKeysOf(m map[string][]byte) []string {
	ks := make([]string, 0, len(m))
	for k := range m {
		ks = append(ks, k)
	}
	sort.Strings(ks)
	return ks
}

type recBatch struct {
	inner xdb.Batch // the real batch (ldbBatch) when a backend is attached
	db    *recDB
	items []kv
	size  int
}

func (b *recBatch) Put(key, value []byte) error {
	if b.db.failPutAt == 0 {
		b.db.faults++
		return errInjected
	}
	if b.db.failPutAt > 0 {
		b.db.failPutAt--
	}
	if b.inner != nil {
		if err := b.inner.Put(key, value); err != nil {
			return err
		}
	}
	b.items = append(b.items, kv{string(key), cp(value)})
	b.size += len(value)
	return nil
}

func (b *recBatch) ValueSize() int {
	if b.inner != nil {
		return b.inner.ValueSize() // the real ldbBatch decides when a commit flushes
	}
	return b.size
}

func (b *recBatch) Write() error {
	if !b.db.allow() {
		b.db.refused = append([]kv{}, b.items...)
		return errInjected
	}
	if b.inner != nil {
		if err := b.inner.Write(); err != nil {
			return err
		}
	}
	b.db.mu.Lock()
	for _, it := range b.items {
		b.db.m[it.k] = it.v
	}
	b.db.mu.Unlock()
	if b.db.record {
		its := make([]kv, len(b.items))
		copy(its, b.items)
		b.db.log = append(b.db.log, physWrite{"batch", its})
	}
	return nil
}

func (b *recBatch) Reset() {
	if b.inner != nil {
		b.inner.Reset()
	}
	b.items = nil
	b.size = 0
}
