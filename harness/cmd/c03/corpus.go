package main

// corpus/C03/*.c03 : hand-written edge cases and minimised past findings, run
// first.  One step per line:
//
//   nonce A n | data A keyhex valhex | del A keyhex | code A len | codehex A hex | bal A n |
//   addbal A n | suicide A | iroot | snap | revert | ft A name n | peek A
//   commit [fail=k] [die] [retry]        -- state.Commit(true) + trieDB.Commit(root)
//   big                                   -- use large values from here on
//
// A is a small integer naming an address (address = 20 bytes derived from it).

import (
	"fmt"
	"io/ioutil"
	"math/big"
	"path/filepath"
	"sort"
	"strconv"
	"strings"

	"com.tuntun.rangers/node/src/common"
	crypto "com.tuntun.rangers/node/src/eth_crypto"
	"com.tuntun.rangers/node/src/storage/account"
	"verif/harness/hx"
)

func corpusAddr(s string) common.Address {
	n, _ := strconv.Atoi(s)
	var a common.Address
	for i := range a {
		a[i] = byte(n*37 + i*11 + 1)
	}
	a[0] = byte(n)
	return a
}

func (r *runner) runCorpus(dir string) {
	if dir == "" {
		return
	}
	files, _ := filepath.Glob(filepath.Join(dir, "*.c03"))
	sort.Strings(files)
	for fi, f := range files {
		b, err := ioutil.ReadFile(f)
		if err != nil {
			continue
		}
		r.rng = hx.NewRng(uint64(1000 + fi))
		r.scenario = -1 - fi
		r.script = []string{"corpus " + filepath.Base(f)}
		r.out.Emit("reset", "ok")
		w := newWorld(r)
		r.stats["corpus_files"]++
		var adb *account.AccountDB
		touched := map[common.Address]bool{}
		var snaps []int
		open := func() {
			if adb == nil {
				adb, err = account.NewAccountDB(w.head, w.sdb)
				if err != nil {
					panic(err)
				}
				touched = map[common.Address]bool{}
				if w.head == emptyRoot {
					adb.SetNonce(tokenContract, 1)
					adb.SetCode(tokenContract, []byte("native token contract"))
					adb.AddERC20Binding(common.BLANCE_NAME, tokenContract, 3, 18)
					touched[tokenContract] = true
				}
			}
		}
		for _, line := range strings.Split(string(b), "\n") {
			f := strings.Fields(line)
			if len(f) == 0 || strings.HasPrefix(f[0], "#") {
				continue
			}
			r.step(line)
			switch f[0] {
			case "big":
				w.big = true
			case "nonce":
				open()
				n, _ := strconv.Atoi(f[2])
				a := corpusAddr(f[1])
				adb.SetNonce(a, uint64(n))
				touched[a] = true
			case "data":
				open()
				a := corpusAddr(f[1])
				k, _ := hx.UnHex(f[2])
				v, _ := hx.UnHex(f[3])
				w.noteKey(a, k)
				adb.SetData(a, k, v)
				touched[a] = true
			case "del":
				open()
				a := corpusAddr(f[1])
				k, _ := hx.UnHex(f[2])
				w.noteKey(a, k)
				adb.RemoveData(a, k)
				touched[a] = true
			case "code":
				open()
				a := corpusAddr(f[1])
				n, _ := strconv.Atoi(f[2])
				c := make([]byte, n)
				for i := range c {
					c[i] = byte(i*7 + n)
				}
				adb.SetCode(a, c)
				w.codes[crypto.Keccak256Hash(c)] = true
				touched[a] = true
			case "codehex": // codehex A hex : SetCode with the given bytes
				open()
				a := corpusAddr(f[1])
				c, _ := hx.UnHex(f[2])
				adb.SetCode(a, c)
				w.codes[crypto.Keccak256Hash(c)] = true
				touched[a] = true
			case "bal", "addbal":
				open()
				a := corpusAddr(f[1])
				v, _ := new(big.Int).SetString(f[2], 10)
				if f[0] == "bal" {
					adb.SetBalance(a, v)
				} else {
					adb.AddBalance(a, v)
				}
				touched[a] = true
				touched[tokenContract] = true
			case "ft": // ft A name amount : AddFT of a non-bound token (stored in A's own storage)
				open()
				a := corpusAddr(f[1])
				v, _ := new(big.Int).SetString(f[3], 10)
				adb.AddFT(a, f[2], v)
				w.noteKey(a, []byte(common.GenerateFTKey(f[2])))
				touched[a] = true
			case "suicide":
				open()
				a := corpusAddr(f[1])
				adb.Suicide(a)
				touched[a] = true
			case "peek": // peek A : read-only accessors only, the account is not touched and its slots are not read
				open()
				a := corpusAddr(f[1])
				adb.Exist(a)
				adb.GetNonce(a)
				adb.GetCodeSize(a)
				adb.GetCodeHash(a)
				adb.HasSuicided(a)
				adb.Empty(a)
			case "snap":
				open()
				snaps = append(snaps, adb.Snapshot())
			case "revert": // revert to the innermost open snapshot
				open()
				if len(snaps) > 0 {
					adb.RevertToSnapshot(snaps[len(snaps)-1])
					snaps = snaps[:len(snaps)-1]
				}
			case "iroot":
				open()
				adb.IntermediateRoot(true)
			case "commit":
				open()
				p := blockPlan{failAt: -1}
				for _, o := range f[1:] {
					switch {
					case strings.HasPrefix(o, "fail="):
						p.failAt, _ = strconv.Atoi(o[5:])
					case o == "die":
						p.die = true
					case o == "retry":
						p.retry = true
					case o == "noread":
						p.skipRead = true
					}
				}
				if res := hx.Guard(func() string { w.commitPrepared(adb, touched, p); return "" }); res != "" {
					r.violate("panic-in-commit-path", "panic while committing or re-reading a state: "+res)
				}
				adb = nil
				snaps = nil
			default:
				panic(fmt.Sprintf("corpus %s: unknown step %q", f, line))
			}
		}
	}
}
