package main

// Hardening: independent references for every oracle/honest value, retention of the
// argument, history (order / process-local state) and concurrency phases.

import (
	"bytes"
	"crypto/ecdsa"
	"crypto/sha256"
	"fmt"
	"math/big"
	"sync"

	"com.tuntun.rangers/node/src/common"
	crypto "com.tuntun.rangers/node/src/eth_crypto"
	"com.tuntun.rangers/node/src/eth_tx"
	"com.tuntun.rangers/node/src/middleware/types"
	"com.tuntun.rangers/node/src/service"
	"com.tuntun.rangers/node/src/storage/rlp"
	"verif/harness/hx"
)

// disagreements between the code under test and an independent reference, by class;
// every class becomes a violation `reference-disagrees:<class>` with the first witness.
var refDisagree = map[string]string{}
var refChecks = map[string]int{}

func disagree(class, witness string) {
	if _, ok := refDisagree[class]; !ok {
		if len(witness) > 600 {
			witness = witness[:600]
		}
		refDisagree[class] = witness
	}
}

func refSha256(b []byte) []byte { s := sha256.Sum256(b); return s[:] }

var validateEvery = 16 // thorough sets this to 1
var validateCtr int

// curveHolds: the ECDSA equation for (r, s) checked with math/big on the curve parameters
// (crypto/ecdsa's generic path) — independent of both bundled libsecp256k1 copies.
func curveHolds(pk, msg []byte, r, s *big.Int) (bool, bool) {
	if len(pk) != 65 || pk[0] != 4 {
		return false, false
	}
	pub := &ecdsa.PublicKey{Curve: crypto.S256(), X: new(big.Int).SetBytes(pk[1:33]), Y: new(big.Int).SetBytes(pk[33:])}
	if !pub.Curve.IsOnCurve(pub.X, pub.Y) {
		return false, true
	}
	return ecdsa.Verify(pub, msg, r, s), true
}

func sampled() bool {
	validateCtr++
	return validateCtr%validateEvery == 0
}

// independentWrap: the wrapped form of a signed Ethereum transaction by definition —
// own RLP of the nine items, reference Keccak, reference address of the signing key, own JSON —
// compared field by field with what the code's ConvertTx produces.
func independentWrap(et *eth_tx.Transaction, k *ecdsa.PrivateKey, chain *big.Int) (*types.Transaction, []byte) {
	enc := rlpList(itemsOf(et)...)
	if ce, err := rlp.EncodeToBytes(et); err != nil || !bytes.Equal(ce, enc) {
		disagree("rlp.EncodeToBytes(txdata)", "reference "+hx.Hex(enc)+" code "+hx.Hex(ce))
	}
	tx := &types.Transaction{
		Source:    refAddress(&k.PublicKey),
		Type:      types.TransactionTypeETHTX,
		Nonce:     et.Nonce(),
		ChainId:   chain.String(),
		Data:      expectedData(et),
		Hash:      common.BytesToHash(refKeccak(enc)),
		ExtraData: "0x" + hx.Hex(enc),
	}
	if et.To() != nil {
		tx.Target = "0x" + hx.Hex(et.To().Bytes())
	}
	refChecks["ConvertTx"]++
	if snd, err := eth_tx.Sender(eth_tx.NewEIP155Signer(chain), et); err != nil {
		disagree("eth_tx.Sender(honest)", "error "+err.Error()+" payload "+hx.Hex(enc))
	} else {
		x := eth_tx.ConvertTx(et, snd, enc)
		for _, f := range [][3]string{{"Source", x.Source, tx.Source}, {"Target", x.Target, tx.Target}, {"ChainId", x.ChainId, tx.ChainId},
			{"Data", x.Data, tx.Data}, {"ExtraData", x.ExtraData, tx.ExtraData}, {"Hash", x.Hash.String(), tx.Hash.String()},
			{"Nonce", fmt.Sprint(x.Nonce), fmt.Sprint(tx.Nonce)}} {
			if f[1] != f[2] {
				disagree("ConvertTx."+f[0], "code "+f[1]+" reference "+f[2]+" payload "+hx.Hex(enc))
			}
		}
	}
	return tx, enc
}

// specV: EIP-155 says v = 2*chain + 35 + recid for every chain id, 0 included. The node's
// SignTx(EIP155Signer(0)) keeps v = 27/28 while hashing the EIP-155 preimage, which no verifier
// (this node's included) recovers to the signer — a quirk of the degenerate chain id 0 on the
// client side, counted in `info`, not an admission matter. The honest transaction is the one by the spec.
var signTxChain0Quirk int

func specV(et *eth_tx.Transaction, chain *big.Int) *eth_tx.Transaction {
	v, _, _ := et.RawSignatureValues()
	if chain.Sign() != 0 || (v.Cmp(big.NewInt(27)) != 0 && v.Cmp(big.NewInt(28)) != 0) {
		return et
	}
	signTxChain0Quirk++
	its := itemsOf(et)
	its[6] = rlpInt(new(big.Int).Add(v, big.NewInt(8)))
	et2 := new(eth_tx.Transaction)
	if err := rlp.DecodeBytes(rlpList(its...), et2); err != nil {
		return et
	}
	return et2
}

// checkHonestSignature validates honest signing material against the references.
func checkHonestSignature(what string, k *ecdsa.PrivateKey, msg, sig65 []byte) {
	r, s := new(big.Int).SetBytes(sig65[:32]), new(big.Int).SetBytes(sig65[32:64])
	refChecks["honest-signature"]++
	if ok, _ := curveHolds(pubBytes(&k.PublicKey), msg, r, s); !ok {
		disagree(what+".Sign", "signature does not satisfy the ECDSA equation for the signing key: msg "+hx.Hex(msg)+" sig "+hx.Hex(sig65))
	}
	if s.Cmp(secpHalfN) > 0 {
		disagree(what+".Sign", "honest signature is not low-s: "+hx.Hex(sig65))
	}
}

// ---------------------------------------------------------------- retention / history / concurrency

type retained struct {
	c      chainCfg
	height uint64
	tx     *types.Transaction
	v      string
	line   string
}

func txEqual(a, b *types.Transaction) bool {
	if a.Source != b.Source || a.Target != b.Target || a.Type != b.Type || a.Time != b.Time || a.Data != b.Data ||
		a.ExtraData != b.ExtraData || a.ExtraDataType != b.ExtraDataType || a.Hash != b.Hash || a.Nonce != b.Nonce ||
		a.RequestId != b.RequestId || a.SocketRequestId != b.SocketRequestId || a.ChainId != b.ChainId || a.SubHash != b.SubHash {
		return false
	}
	if (a.Sign == nil) != (b.Sign == nil) {
		return false
	}
	return a.Sign == nil || bytes.Equal(a.Sign.Bytes(), b.Sign.Bytes())
}

type hardenStats struct {
	Retention, History, Concurrent, PoolOps int
	Violations                              []violation
}

func (h *hardenStats) viol(key, desc string, r retained) {
	for _, v := range h.Violations {
		if v.Key == key {
			return
		}
	}
	h.Violations = append(h.Violations, violation{Key: key, Desc: desc, Replay: map[string]string{"op": r.line}})
}

// historyPhase: (6) process-local history — transactions pushed into / cleared from the pool,
// rejected operations in between; (3b) the retained calls repeated in reverse and shuffled
// order, across all chain configurations and both sides of every fork, must give the verdict
// of the first pass; (4) the same from 8 goroutines per (configuration, height) group.
func historyPhase(pool service.TransactionPool, ret []retained, r *hx.Rng, h *hardenStats) {
	for i, x := range ret {
		if i%7 == 0 {
			pool.AddTransaction(cloneTx(x.tx))
			h.PoolOps++
		}
	}
	check := func(x retained, phase string) {
		x.c.apply()
		got := hx.Guard(func() string { return verdict(pool.VerifyTransaction(cloneTx(x.tx), x.height)) })
		h.History++
		if got != x.v {
			h.viol("history-dependent-verdict", "the verdict of VerifyTransaction changed with the history of the process ("+phase+"): first "+x.v+", later "+got, x)
		}
	}
	for i := len(ret) - 1; i >= 0; i-- {
		check(ret[i], "reverse order, pool filled")
	}
	pool.Clear()
	idx := make([]int, len(ret))
	for i := range idx {
		idx[i] = i
	}
	for i := len(idx) - 1; i > 0; i-- {
		j := r.Intn(i + 1)
		idx[i], idx[j] = idx[j], idx[i]
	}
	for _, i := range idx {
		check(ret[i], "shuffled order, pool cleared")
	}
	// concurrency: the chain configuration is process-global, so group by it
	groups := map[string][]retained{}
	for _, x := range ret {
		k := x.c.tokens() + fmt.Sprint(x.height)
		groups[k] = append(groups[k], x)
	}
	keys := make([]string, 0, len(groups))
	for k := range groups {
		keys = append(keys, k)
	}
	for i := 1; i < len(keys); i++ {
		for j := i; j > 0 && keys[j] < keys[j-1]; j-- {
			keys[j], keys[j-1] = keys[j-1], keys[j]
		}
	}
	for _, k := range keys {
		grp := groups[k]
		if len(grp) < 16 {
			continue
		}
		grp[0].c.apply()
		got := make([]string, len(grp))
		var wg sync.WaitGroup
		for w := 0; w < 8; w++ {
			wg.Add(1)
			go func(w int) {
				defer wg.Done()
				for i := w; i < len(grp); i += 8 {
					x := grp[i]
					got[i] = hx.Guard(func() string { return verdict(pool.VerifyTransaction(cloneTx(x.tx), x.height)) })
				}
			}(w)
		}
		wg.Wait()
		for i, x := range grp {
			h.Concurrent++
			if got[i] != x.v {
				h.viol("concurrent-verdict-differs", "VerifyTransaction from 8 goroutines: sequential "+x.v+", concurrent "+got[i], x)
			}
		}
	}
}
