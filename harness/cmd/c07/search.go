package main

// Searcher: a direct oracle for property C07 on the implementation (no model).
//   * honest native / EIP-155 transactions must be accepted;
//   * every single-field mutation of an authenticated field, every single-bit
//     flip of hash, signature and RLP payload must be rejected;
//   * whatever is accepted must be authentic by an independent derivation:
//     canonical payload, EIP-155 protected for this chain, declared fields
//     equal to the ones recomputed here from the payload.

import (
	"bytes"
	"encoding/json"
	"fmt"
	"crypto/ecdsa"
	"math/big"
	"os"
	"strconv"

	"com.tuntun.rangers/node/src/common"
	crypto "com.tuntun.rangers/node/src/eth_crypto"
	"com.tuntun.rangers/node/src/eth_tx"
	"com.tuntun.rangers/node/src/middleware/types"
	"com.tuntun.rangers/node/src/service"
	"com.tuntun.rangers/node/src/storage/rlp"
	"verif/harness/hx"
)

type violation struct {
	Key    string            `json:"key"`
	Desc   string            `json:"desc"`
	Replay map[string]string `json:"replay"`
}

type searcher struct {
	pool  service.TransactionPool
	evals int
	seen  map[string]bool
	viols []violation
	count map[string]int
	infos map[string]int
}

func (s *searcher) accept(c chainCfg, height uint64, tx *types.Transaction) bool {
	c.apply()
	s.evals++
	ok := false
	r := hx.Guard(func() string { return verdict(s.pool.VerifyTransaction(cloneTx(tx), height)) })
	ok = r == "ok"
	if len(r) >= 5 && r[:5] == "PANIC" {
		s.report("panic", "VerifyTransaction panicked: "+r, c, height, tx)
	}
	return ok
}

func (s *searcher) report(key, desc string, c chainCfg, height uint64, tx *types.Transaction) {
	s.count[key]++
	if s.seen[key] {
		return
	}
	s.seen[key] = true
	line := "vt " + strconv.FormatUint(height, 10) + " " + c.tokens() + " " + txTokens(tx)
	defer func() {
		// print the violation the moment it is found (a time-boxed run that is cut short keeps it)
		b, _ := json.Marshal(s.viols[len(s.viols)-1])
		fmt.Println("VIOL " + string(b))
		os.Stdout.Sync()
	}()
	s.viols = append(s.viols, violation{Key: key, Desc: desc, Replay: map[string]string{
		"op": line, "how": "harness/bin/c07 mode=replay ops=/dev/null obs=/dev/null line='<op>'  (prints IMPL <verdict>)",
		"tx": fmt.Sprintf("Source=%q Target=%q Type=%d Nonce=%d ChainId=%q Data=%q ExtraData=%q Hash=%s", tx.Source, tx.Target, tx.Type, tx.Nonce, tx.ChainId, tx.Data, tx.ExtraData, tx.Hash.String())}})
}

var ten18 = new(big.Int).Exp(big.NewInt(10), big.NewInt(18), nil)

// independent statement of what the wrapped form of a payload must declare
func expectedData(et *eth_tx.Transaction) string {
	q, r := new(big.Int).QuoRem(et.Value(), ten18, new(big.Int))
	tv := "0"
	if et.Value().Sign() != 0 {
		tv = fmt.Sprintf("%s.%018s", q.String(), r.String())
	}
	abi := "0x0"
	if len(et.Data()) > 0 {
		abi = "0x" + hx.Hex(et.Data())
	}
	return `{"gasPrice":"` + et.GasPrice().String() + `","gasLimit":"` + strconv.FormatUint(et.Gas(), 10) +
		`","transferValue":"` + tv + `","abiData":"` + abi + `"}`
}

// authentic checks an ACCEPTED wrapped transaction against the property's "only if" clause.
func (s *searcher) authentic(c chainCfg, height uint64, tx *types.Transaction, chain *big.Int) {
	enc, err := hx.UnHex(tx.ExtraData[min(2, len(tx.ExtraData)):])
	if err != nil || len(tx.ExtraData) < 2 || tx.ExtraData[:2] != "0x" {
		s.report("eth-extradata-not-hex-accepted", "accepted although ExtraData is not 0x-hex", c, height, tx)
		return
	}
	et := new(eth_tx.Transaction)
	if err := rlp.DecodeBytes(enc, et); err != nil {
		s.report("eth-undecodable-accepted", "accepted although payload does not decode", c, height, tx)
		return
	}
	re, _ := rlp.EncodeToBytes(et)
	if !bytes.Equal(re, enc) {
		s.report("eth-noncanonical-payload-accepted", "accepted although ExtraData is not the canonical RLP of the transaction it decodes to (hash is of the re-encoding, so ExtraData is not bound by the hash)", c, height, tx)
	}
	v, r, sv := et.RawSignatureValues()
	lo := new(big.Int).Add(new(big.Int).Mul(chain, big.NewInt(2)), big.NewInt(35))
	d := new(big.Int).Sub(v, lo)
	wantChain := chain.String()
	var pre []byte
	if !(d.Sign() >= 0 && d.Cmp(big.NewInt(1)) <= 0) {
		if v.Cmp(big.NewInt(27)) == 0 || v.Cmp(big.NewInt(28)) == 0 {
			// the recorded class is exactly "v = 27/28 admitted"; everything else about such a
			// transaction is still checked below (Homestead signing hash, declared chain id "0")
			s.report("eth-unprotected-accepted", "accepted although the payload is a pre-EIP-155 (v=27/28) signature carrying no chain id: replayable on every chain", c, height, tx)
			d = new(big.Int).Sub(v, big.NewInt(27))
			wantChain = "0"
			pre, _ = rlp.EncodeToBytes([]interface{}{et.Nonce(), et.GasPrice(), et.Gas(), et.To(), et.Value(), et.Data()})
		} else {
			s.report("eth-other-chain-accepted", "accepted although v does not encode this chain's id", c, height, tx)
			return
		}
	} else {
		pre, _ = rlp.EncodeToBytes([]interface{}{et.Nonce(), et.GasPrice(), et.Gas(), et.To(), et.Value(), et.Data(), chain, uint(0), uint(0)})
	}
	if sv.Cmp(secpHalfN) > 0 || r.Sign() == 0 || sv.Sign() == 0 || r.Cmp(secpNConst()) >= 0 {
		s.report("eth-unsigned-accepted", "accepted although r/s are out of range or s is high: the payload carries no valid signature", c, height, tx)
		return
	}
	sig := append(append(pad32(r.Bytes()), pad32(sv.Bytes())...), byte(d.Uint64()))
	pub, err := crypto.Ecrecover(refKeccak(pre), sig)
	if err != nil {
		s.report("eth-unsigned-accepted", "accepted although the signature does not recover to any key", c, height, tx)
		return
	}
	if ok, _ := curveHolds(pub, refKeccak(pre), r, sv); !ok {
		s.report("eth-unsigned-accepted", "accepted, but the recovered key does not satisfy the ECDSA equation", c, height, tx)
	}
	addr := "0x" + hx.Hex(refKeccak(pub[1:])[12:])
	if tx.Source != addr {
		s.report("eth-field-mismatch-accepted:Source", "declared sender differs from recovered signer "+addr, c, height, tx)
	}
	tgt := ""
	if et.To() != nil {
		tgt = "0x" + hx.Hex(et.To().Bytes())
	}
	if tx.Target != tgt {
		s.report("eth-field-mismatch-accepted:Target", "declared target differs from payload", c, height, tx)
	}
	if tx.Nonce != et.Nonce() {
		s.report("eth-field-mismatch-accepted:Nonce", "declared nonce differs from payload", c, height, tx)
	}
	if tx.ChainId != wantChain {
		s.report("eth-field-mismatch-accepted:ChainId", "declared chain id differs from the chain's", c, height, tx)
	}
	if tx.Data != expectedData(et) {
		s.report("eth-field-mismatch-accepted:Data", "declared value/gas/data differ from payload: want "+expectedData(et), c, height, tx)
	}
	if bytes.Equal(re, enc) && !bytes.Equal(tx.Hash.Bytes(), refKeccak(enc)) {
		s.report("eth-field-mismatch-accepted:Hash", "declared hash is not Keccak of the payload", c, height, tx)
	}
}

func min(a, b int) int {
	if a < b {
		return a
	}
	return b
}

func search(a map[string]string, pool service.TransactionPool) {
	s := &searcher{pool: pool, seen: map[string]bool{}, count: map[string]int{}, infos: map[string]int{}}
	g := gen{hx.NewRng(hx.SeedFromEnv() ^ 0x5ea7c4)}
	n := hx.ArgInt(a, "n", 6)
	distinct := 0
	kp := newKeyPool(g.r.Fork())
	// the address the code derives for a key must be the reference address (Keccak of X32‖Y32)
	for _, k := range kp.all() {
		s.evals++
		pk := pubBytes(&k.PublicKey)
		got := hx.Guard(func() string { return common.BytesToPublicKey(pk).GetAddress().GetHexString() })
		if got != refAddress(&k.PublicKey) {
			c := cfgs[0]
			c.apply()
			tx := g.honestNative(k, refChainIdStr(c, 0))
			s.report("address-not-reference", "PublicKey.GetAddress() = "+got+" but the address of this key (last 20 bytes of Keccak-256(X32||Y32)) is "+refAddress(&k.PublicKey)+"; key "+hx.Hex(pk), c, 0, tx)
		}
	}
	// fork boundary family (deterministic, first): at P-1, P, P+1 the transaction honestly signed for
	// the chain id in force is admitted and the one for the other id is not
	for _, fk := range []*ecdsa.PrivateKey{kp.short[0], g.key()} {
		for _, fc := range forkCases(g, fk) {
			chainIdReferenceCheck(fc.c, fc.height)
			distinct++
			acc := s.accept(fc.c, fc.height, fc.tx)
			form := "native"
			if fc.eth {
				form = "eth"
			}
			if fc.want && !acc {
				s.report("honest-rejected:"+form, "honestly signed transaction for the chain id in force rejected at the fork boundary ("+fc.tag+", height "+strconv.FormatUint(fc.height, 10)+")", fc.c, fc.height, fc.tx)
			}
			if !fc.want && acc {
				s.report(form+"-other-chain-accepted", "transaction honestly signed for the chain id NOT in force admitted at the fork boundary ("+fc.tag+", height "+strconv.FormatUint(fc.height, 10)+")", fc.c, fc.height, fc.tx)
			}
		}
	}
	for i := 0; i < n; i++ {
		c := cfgs[i%3]
		height := c.p001 + uint64(g.r.Intn(3))
		if c.p001 > 0 && i%2 == 1 {
			height = c.p001 - 1
		}
		c.apply()
		k := g.key()
		if i%2 == 0 && len(kp.short) > 0 {
			k = kp.short[(i/2)%len(kp.short)]
		}
		chainIdReferenceCheck(c, height)
		cid := refChainIdStr(c, height)
		other := c.orig
		if other == cid {
			other = c.chainId
		}
		if other == cid {
			other = cid + "1"
		}
		// ---- native: every boundary key and every padding class must be accepted when honest
		for _, bk := range kp.all() {
			ht := g.honestNative(bk, cid)
			distinct++
			if !s.accept(c, height, ht) {
				s.report("honest-rejected:native", "honestly signed native transaction (Source = Keccak(X32||Y32)[12:], key with a short coordinate or small scalar) rejected", c, height, ht)
			}
			if wa := g.wrongAddressTx(bk, cid); wa != nil {
				distinct++
				if s.accept(c, height, wa) {
					s.report("native-wrong-address-accepted", "transaction declaring the address of the unpadded coordinate digest as Source is accepted", c, height, wa)
				}
			}
		}
		for _, class := range []string{"hash0", "short-r", "short-s"} {
			if ct := g.honestNativeClass(k, cid, class); ct != nil {
				distinct++
				if !s.accept(c, height, ct) {
					s.report("honest-rejected:native", "honestly signed native transaction of padding class "+class+" rejected", c, height, ct)
				}
				for _, v := range signFamily(ct.Sign) {
					m := cloneTx(ct)
					m.Sign = v.sg
					distinct++
					if s.accept(c, height, m) && !sameSignature(v.sg, ct.Sign) {
						s.report("native-sign-malleated-accepted", "a signature algebraically related to the honest one ("+v.name+", padding class "+class+") is accepted", c, height, m)
					}
				}
			}
		}
		tx := g.honestNative(k, cid)
		if !s.accept(c, height, tx) {
			s.report("honest-rejected:native", "honestly signed native transaction rejected", c, height, tx)
			continue
		}
		for round := 0; round < 6; round++ {
			for _, m := range g.nativeMutants(tx, other) {
				distinct++
				acc := s.accept(c, height, m.tx)
				if m.auth && acc && (m.field == "Sign" || m.field == "Sign-family") && m.tx.Sign != nil && !sameSignature(m.tx.Sign, tx.Sign) {
					s.report("native-sign-malleated-accepted", "a changed signature is accepted on an accepted native transaction: honest Sign="+hx.Hex(tx.Sign.Bytes())+" mutant Sign="+hx.Hex(m.tx.Sign.Bytes()), c, height, m.tx)
				} else if m.auth && acc && (m.field == "Sign-recid-alias" || ((m.field == "Sign" || m.field == "Sign-family") && m.tx.Sign != nil)) {
					s.report("native-sign-recid-alias-accepted", "Sign with the recovery id respelled 27/28 <-> 0/1 is accepted: the signature bytes of an accepted transaction can be changed by anyone", c, height, m.tx)
				} else if m.auth && acc {
					s.report("native-mutant-accepted:"+m.field, "single-field mutant of an accepted native transaction is accepted", c, height, m.tx)
				}
				if !m.auth && !acc {
					s.infos["unauth-field-mutant-rejected:"+m.field]++
				}
			}
		}
		// algebraically related signatures: anything accepted whose Sign bytes differ from the
		// honest ones is a violation; only a pure respelling of the recovery id is the known alias class
		for _, v := range signFamily(tx.Sign) {
			m := cloneTx(tx)
			m.Sign = v.sg
			distinct++
			if s.accept(c, height, m) {
				if sameSignature(v.sg, tx.Sign) {
					s.report("native-sign-recid-alias-accepted", "Sign with the recovery id respelled 27/28 <-> 0/1 is accepted: the signature bytes of an accepted transaction can be changed by anyone", c, height, m)
				} else {
					s.report("native-sign-malleated-accepted", "a signature algebraically related to the honest one ("+v.name+") is accepted on an accepted native transaction although its (r,s,recid) differ: honest Sign="+hx.Hex(tx.Sign.Bytes())+" mutant Sign="+hx.Hex(v.sg.Bytes()), c, height, m)
				}
			}
		}
		for bit := 0; bit < 256; bit++ {
			m := cloneTx(tx)
			m.Hash[bit/8] ^= 1 << uint(bit%8)
			distinct++
			if s.accept(c, height, m) {
				s.report("native-mutant-accepted:Hash", "single-bit flip of Hash accepted", c, height, m)
			}
		}
		for bit := 0; bit < 520; bit++ {
			m := cloneTx(tx)
			m.Sign = flipSign(tx.Sign, bit)
			distinct++
			if s.accept(c, height, m) {
				if sameSignature(m.Sign, tx.Sign) {
					s.report("native-sign-recid-alias-accepted", "recovery id respelled by a single-bit flip is accepted", c, height, m)
				} else {
					s.report("native-mutant-accepted:Sign", "single-bit flip of Sign accepted", c, height, m)
				}
			}
		}
		// the same content honestly signed for another chain id must not be admitted here
		{
			o := g.honestNative(k, other)
			distinct++
			if s.accept(c, height, o) {
				s.report("native-other-chain-accepted", "native transaction honestly signed for chain id "+other+" accepted on chain "+cid, c, height, o)
			}
		}
		if bs := boundaryShift(tx); bs != nil {
			if s.accept(c, height, bs) {
				s.infos["two-field-boundary-shift-accepted"]++
			}
		}
		// ---- ethereum
		chain := refEthChain(c, height)
		et, err := eth_tx.SignTx(g.ethUnsigned(), eth_tx.NewEIP155Signer(chain), k)
		if err != nil {
			panic(err)
		}
		et = specV(et, chain)
		wtx, enc := independentWrap(et, k, chain)
		if !s.accept(c, height, wtx) {
			s.report("honest-rejected:eth", "honestly signed EIP-155 transaction rejected", c, height, wtx)
			continue
		}
		s.authentic(c, height, wtx, chain)
		for round := 0; round < 4; round++ {
			for _, m := range ethFieldMutants(g.r, wtx) {
				distinct++
				acc := s.accept(c, height, m.tx)
				if m.auth && acc {
					s.report("eth-mutant-accepted:"+m.field, "single-field mutant of an accepted wrapped transaction is accepted", c, height, m.tx)
				}
			}
		}
		for _, uc := range unsignedCases(g, et, k, chain) {
			distinct++
			if s.accept(c, height, uc.tx) {
				s.report("eth-unsigned-accepted", "a wrapped transaction whose payload carries no valid signature ("+uc.name+": invalid r/s/v class / declared Source) is admitted — accepted must imply a valid signature recovering to the declared Source", c, height, uc.tx)
			}
		}
		for bit := 0; bit < 8*len(enc); bit++ {
			e2 := append([]byte{}, enc...)
			e2[bit/8] ^= 1 << uint(bit%8)
			m := cloneTx(wtx)
			m.ExtraData = common.ToHex(e2)
			distinct++
			if s.accept(c, height, m) {
				s.authentic(c, height, m, chain)
				if !s.seen["eth-noncanonical-payload-accepted"] {
					s.report("eth-mutant-accepted:ExtraData", "single-bit flip of the signed payload accepted", c, height, m)
				}
			}
			// and with every declared field re-derived from the flipped payload
			if rw := rewrap(e2, chain); rw != nil {
				distinct++
				if s.accept(c, height, rw) {
					s.authentic(c, height, rw, chain)
				}
			}
		}
		for _, pv := range g.payloadVariants(et, chain) {
			m := cloneTx(wtx)
			m.ExtraData = common.ToHex(pv.enc)
			distinct++
			if pv.name != "canonical" && s.accept(c, height, m) {
				s.authentic(c, height, m, chain)
			}
			if rw := rewrap(pv.enc, chain); rw != nil {
				distinct++
				if s.accept(c, height, rw) {
					s.authentic(c, height, rw, chain)
					if pv.name == "s-high" {
						s.report("eth-malleated-signature-accepted", "the (r, n-s, v^1) twin of an accepted payload is accepted: same signer and content, different hash", c, height, rw)
					}
				}
			}
		}
		hom, _ := eth_tx.SignTx(g.ethUnsigned(), eth_tx.HomesteadSigner{}, k)
		if htx, _, err := wrap(hom, eth_tx.NewEIP155Signer(chain)); err == nil {
			distinct++
			if s.accept(c, height, htx) {
				s.authentic(c, height, htx, chain)
			}
		}
		oc := new(big.Int).Add(chain, big.NewInt(int64(g.r.Pick(1, 2, 1000))))
		oth, _ := eth_tx.SignTx(g.ethUnsigned(), eth_tx.NewEIP155Signer(oc), k)
		if otx, _, err := wrap(oth, eth_tx.NewEIP155Signer(oc)); err == nil {
			distinct++
			if s.accept(c, height, otx) {
				s.authentic(c, height, otx, chain)
			}
		}
	}
	for class, w := range refDisagree {
		key := "reference-disagrees:" + class
		s.count[key]++
		v := violation{Key: key, Desc: "the code under test disagrees with an independent reference (" + class + "): " + w, Replay: map[string]string{"witness": w}}
		s.viols = append(s.viols, v)
		b, _ := json.Marshal(v)
		fmt.Println("VIOL " + string(b))
	}
	if signTxChain0Quirk > 0 {
		s.infos["SignTx(EIP155Signer(0))-keeps-v-27/28"] = signTxChain0Quirk
	}
	res := map[string]interface{}{"evaluations": s.evals, "distinct_nontrivial": distinct, "violations": s.viols,
		"violation_counts": s.count, "info": s.infos}
	b, _ := json.Marshal(res)
	fmt.Println("SEARCH " + string(b))
}
