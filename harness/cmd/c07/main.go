// c07: correspondence harness + searcher for property C07 (only authentic
// transactions are admitted).  Drives the real TxPool.VerifyTransaction (and
// eth_tx decode/Sender/ConvertTx) in-process.  Every op line carries the crypto
// answers the model cannot compute (SHA-256, Keccak-256, secp256k1 recover /
// verify) as oracle tokens; the preimages/keys of those tokens are built by the
// harness independently of the checked code, so a model that derives a
// different preimage answers `oracle-miss` and shows up as a diff.
//
//	ops=<file> obs=<file> [n=<honest tx count>] [mode=corr|search|replay] [line=<op line>]
package main

import (
	"bufio"
	"bytes"
	"crypto/ecdsa"
	"encoding/json"
	"fmt"
	"math/big"
	"os"
	"strconv"
	"strings"

	"com.tuntun.rangers/node/src/common"
	"com.tuntun.rangers/node/src/common/secp256k1"
	crypto "com.tuntun.rangers/node/src/eth_crypto"
	ethsecp "com.tuntun.rangers/node/src/eth_crypto/secp256k1"
	"com.tuntun.rangers/node/src/eth_tx"
	"com.tuntun.rangers/node/src/middleware/types"
	"com.tuntun.rangers/node/src/service"
	"com.tuntun.rangers/node/src/storage/rlp"
	"verif/harness/hx"
	"verif/harness/hxnode"
)

// ---------------------------------------------------------------- chain configuration

type chainCfg struct {
	chainId, orig string
	p001          uint64
	genesis       *string
}

func strp(s string) *string { return &s }

var cfgs = []chainCfg{
	{"9527", "9527", 0, nil},                    // dev net
	{"2025", "8888", 894116, nil},               // main net: chain id switches at Proposal001Block
	{"9500", "9500", 0, strp("77001")},          // sub chain: Genesis.ChainId wins for ETH txs only
	{"1", "1", 0, nil},                          // smallest
	{"9223372036854775790", "5", 10, nil},       // (2^64-35)/2: the uint64 wrap of deriveChainId
	{"9500", "9500", 0, strp("")},               // Genesis present, empty chain id
	{"18446744073709551651", "7", 3, strp("x")}, // > 64 bit chain id; unparsable genesis id -> 0
}

func (c chainCfg) apply() {
	common.LocalChainConfig.ChainId = c.chainId
	common.LocalChainConfig.OriginalChainId = c.orig
	common.LocalChainConfig.Proposal001Block = c.p001
	if c.genesis != nil {
		common.Genesis = &common.GenesisConf{ChainId: *c.genesis}
	} else {
		common.Genesis = nil
	}
}

func (c chainCfg) tokens() string {
	g := "~"
	if c.genesis != nil {
		g = hexS(*c.genesis)
	}
	return hexS(c.chainId) + " " + hexS(c.orig) + " " + strconv.FormatUint(c.p001, 10) + " " + g
}

func hexS(s string) string { return hx.Hex([]byte(s)) }

// ---------------------------------------------------------------- line rendering

func signTok(s *common.Sign) string {
	if s == nil {
		return "nil"
	}
	return hx.Hex(s.Bytes())
}

func txTokens(tx *types.Transaction) string {
	return strings.Join([]string{
		hexS(tx.Source), hexS(tx.Target), strconv.Itoa(int(tx.Type)), hexS(tx.Time), hexS(tx.Data),
		hexS(tx.ExtraData), hx.Hex(tx.Hash.Bytes()), signTok(tx.Sign), strconv.FormatUint(tx.Nonce, 10),
		hexS(tx.ChainId), strconv.Itoa(int(tx.ExtraDataType)), strconv.FormatUint(tx.RequestId, 10),
		hexS(tx.SocketRequestId), hx.Hex(tx.SubHash.Bytes())}, " ")
}

// harnessSer is the harness's own statement of what GenHash hashes.
func harnessSer(tx *types.Transaction) []byte {
	var b bytes.Buffer
	b.WriteString(tx.Data)
	b.WriteString(strconv.FormatUint(tx.Nonce, 10))
	b.WriteString(tx.Source)
	b.WriteString(tx.Target)
	b.WriteString(strconv.Itoa(int(tx.Type)))
	b.WriteString(tx.Time)
	b.WriteString(tx.ExtraData)
	b.WriteString(tx.ChainId)
	return b.Bytes()
}

type oracle struct {
	toks []string
	seen map[string]bool
}

func newOracle() *oracle { return &oracle{seen: map[string]bool{}} }
func (o *oracle) add(t string) {
	if !o.seen[t] {
		o.seen[t] = true
		o.toks = append(o.toks, t)
	}
}
func (o *oracle) sha(pre []byte) {
	d := refSha256(pre) // crypto/sha256, not the node's wrapper
	refChecks["sha256"]++
	if !bytes.Equal(d, common.Sha256(pre)) {
		disagree("common.Sha256", hx.Hex(pre))
	}
	o.add("sha=" + hx.Hex(pre) + "," + hx.Hex(d))
}
func (o *oracle) kec(pre []byte) []byte {
	d := refKeccak(pre) // golang.org/x/crypto, not the node's copies
	refChecks["keccak"]++
	if !bytes.Equal(d, crypto.Keccak256(pre)) {
		disagree("eth_crypto.Keccak256", hx.Hex(pre))
	}
	o.add("kec=" + hx.Hex(pre) + "," + hx.Hex(d))
	return d
}
var secpHalfN = new(big.Int).Rsh(secpNConst(), 1)

func secpNConst() *big.Int {
	n, _ := new(big.Int).SetString("fffffffffffffffffffffffffffffffebaaedce6af48a03bbfd25e8cd0364141", 16)
	return n
}

func inRange(x *big.Int) bool { return x.Sign() > 0 && x.Cmp(secpNConst()) < 0 }

// recCore records the curve-level recovery (1 <= r,s < N, recid 0..3); overflow, zero
// and the recovery-id spellings are decision logic of the model, not oracle facts.
func (o *oracle) recCore(msg []byte, r, sv *big.Int, recid byte, ethLib bool) []byte {
	if len(msg) != 32 || !inRange(r) || !inRange(sv) || recid > 3 {
		return nil
	}
	sig := append(append(pad32(r.Bytes()), pad32(sv.Bytes())...), recid)
	var pk []byte
	var err error
	if ethLib {
		pk, err = ethsecp.RecoverPubkey(msg, append([]byte{}, sig...))
	} else {
		pk, err = secp256k1.RecoverPubkey(msg, append([]byte{}, sig...))
	}
	if sampled() {
		// second code path in the repo (the other bundled libsecp256k1) and the curve equation via math/big
		refChecks["recover"]++
		var pk2 []byte
		var err2 error
		if ethLib {
			pk2, err2 = secp256k1.RecoverPubkey(msg, append([]byte{}, sig...))
		} else {
			pk2, err2 = ethsecp.RecoverPubkey(msg, append([]byte{}, sig...))
		}
		if (err == nil) != (err2 == nil) || !bytes.Equal(pk, pk2) {
			disagree("secp256k1.RecoverPubkey(two libraries)", "msg "+hx.Hex(msg)+" sig "+hx.Hex(sig))
		}
		if err == nil {
			if ok, _ := curveHolds(pk, msg, r, sv); !ok {
				disagree("secp256k1.RecoverPubkey(curve equation)", "recovered key does not verify: msg "+hx.Hex(msg)+" sig "+hx.Hex(sig))
			}
		}
	}
	key := "rec=" + hx.Hex(msg) + "," + hx.Hex(pad32(r.Bytes())) + "," + hx.Hex(pad32(sv.Bytes())) + "," + strconv.Itoa(int(recid)) + ","
	if err != nil {
		o.add(key + "err")
		return nil
	}
	o.add(key + hx.Hex(pk))
	return pk
}

// verCore records the curve-level ECDSA equation for (r, s): the library's verify on the
// low-s representative (the equation is symmetric under s -> N-s; the low-s *rule* is
// decision logic of the model).
func (o *oracle) verCore(pk, msg []byte, r, sv *big.Int) {
	if !inRange(r) || !inRange(sv) {
		return
	}
	low := sv
	if sv.Cmp(secpHalfN) > 0 {
		low = new(big.Int).Sub(secpNConst(), sv)
	}
	res := "0"
	libOK := secp256k1.VerifySignature(pk, msg, append(pad32(r.Bytes()), pad32(low.Bytes())...))
	if libOK {
		res = "1"
	}
	if sampled() {
		refChecks["verify"]++
		if ok, valid := curveHolds(pk, msg, r, sv); valid && ok != libOK {
			disagree("secp256k1.VerifySignature(curve equation)", "pk "+hx.Hex(pk)+" msg "+hx.Hex(msg)+" r "+r.Text(16)+" s "+sv.Text(16))
		}
	}
	o.add("ver=" + hx.Hex(pk) + "," + hx.Hex(msg) + "," + hx.Hex(pad32(r.Bytes())) + "," + hx.Hex(pad32(sv.Bytes())) + "," + res)
}
func (o *oracle) String() string {
	if len(o.toks) == 0 {
		return ""
	}
	return " " + strings.Join(o.toks, " ")
}

var selfcheckFail int

func nativeOracle(o *oracle, tx *types.Transaction) {
	o.sha(harnessSer(tx))
	if tx.Sign == nil {
		return
	}
	sb := tx.Sign.Bytes()
	h := tx.Hash.Bytes()
	r, sv := new(big.Int).SetBytes(sb[:32]), new(big.Int).SetBytes(sb[32:64])
	v := sb[64]
	if v > 26 {
		v -= 27
	}
	if pk := o.recCore(h, r, sv, v, false); pk != nil {
		o.verCore(pk, h, r, sv)
		o.kec(pk[1:])
	}
}

func pad32(b []byte) []byte {
	r := make([]byte, 32)
	copy(r[32-len(b):], b)
	return r
}

// ethOracle supplies, for a payload the real decoder accepts: Keccak of the
// re-encoding, of both signing preimages (EIP-155 for `chain`, Homestead), the
// recoveries for both recovery ids and the Keccak of every recovered key.
func ethOracle(o *oracle, enc []byte, chain *big.Int) {
	et := new(eth_tx.Transaction)
	if err := rlp.DecodeBytes(enc, et); err != nil {
		return
	}
	re, err := rlp.EncodeToBytes(et)
	if err == nil {
		d := o.kec(re)
		if !bytes.Equal(d, et.Hash().Bytes()) {
			selfcheckFail++
		}
	}
	if chain == nil {
		chain = new(big.Int)
	}
	_, r, s := et.RawSignatureValues()
	pre155, _ := rlp.EncodeToBytes([]interface{}{et.Nonce(), et.GasPrice(), et.Gas(), et.To(), et.Value(), et.Data(), chain, uint(0), uint(0)})
	preH, _ := rlp.EncodeToBytes([]interface{}{et.Nonce(), et.GasPrice(), et.Gas(), et.To(), et.Value(), et.Data()})
	h155 := o.kec(pre155)
	hH := o.kec(preH)
	if !bytes.Equal(h155, eth_tx.NewEIP155Signer(chain).Hash(et).Bytes()) || !bytes.Equal(hH, eth_tx.HomesteadSigner{}.Hash(et).Bytes()) {
		selfcheckFail++
	}
	for _, h := range [][]byte{h155, hH} {
		for recid := byte(0); recid < 2; recid++ {
			if pk := o.recCore(h, r, s, recid, true); pk != nil {
				o.kec(pk[1:])
			}
		}
	}
}

func verdict(err error) string {
	switch err {
	case nil:
		return "ok"
	case service.ErrChainId:
		return "chainid"
	case service.ErrHash:
		return "hash"
	case service.ErrSign:
		return "sign"
	case service.ErrIllegal:
		return "illegal"
	case service.ErrNil:
		return "nil"
	}
	return "other:" + strings.ReplaceAll(err.Error(), " ", "_")
}

func cloneTx(tx *types.Transaction) *types.Transaction {
	c := *tx
	if tx.Sign != nil {
		c.Sign = common.BytesToSign(tx.Sign.Bytes())
	}
	return &c
}

type runner struct {
	out  *hx.Out
	pool service.TransactionPool
	tags map[string]int // generator tag -> count
	res  map[string]int // tag/verdict -> count
	addrViol []string   // keys whose GetAddress differs from the reference address
	dump     *os.File
	branch   map[string]int // which branch of the real code decided the verdict
	hs       hardenStats
	ret      []retained
	retMax   int
	rr       *hx.Rng
}

func (rn *runner) vt(tag string, c chainCfg, height uint64, tx *types.Transaction) string {
	c.apply()
	o := newOracle()
	if tx.Type == types.TransactionTypeETHTX {
		ethOracle(o, common.FromHex(tx.ExtraData), refEthChain(c, height))
	} else {
		nativeOracle(o, tx)
	}
	line := "vt " + strconv.FormatUint(height, 10) + " " + c.tokens() + " " + txTokens(tx) + o.String()
	arg := cloneTx(tx)
	r := rn.out.Do(line, func() string { return verdict(rn.pool.VerifyTransaction(arg, height)) })
	rn.tags[tag]++
	rn.res[tag+"/"+r]++
	rn.branch[branchOf(c, height, tx, r)]++
	if rn.dump != nil && rn.tags[tag] == 1 && (strings.Contains(tag, "short") || strings.Contains(tag, "hash0") || strings.Contains(tag, "unpadded") || tag == "native-other-height") {
		fmt.Fprintf(rn.dump, "# %s (%s)\n%s\n", tag, r, strings.Join(strings.Fields(line)[:20], " "))
	}
	// retention: the argument must come back unchanged, and verifying the same object again
	// must give the same verdict
	x := retained{c, height, tx, r, line}
	rn.hs.Retention++
	if !txEqual(arg, tx) {
		rn.hs.viol("argument-mutated", "VerifyTransaction changed the transaction it was given", x)
	}
	if r2 := hx.Guard(func() string { return verdict(rn.pool.VerifyTransaction(arg, height)) }); r2 != r {
		rn.hs.viol("verdict-not-repeatable", "second VerifyTransaction on the same object: first "+r+", then "+r2, x)
	}
	if len(rn.ret) < rn.retMax && (rn.rr.Intn(4) == 0 || strings.Contains(tag, "honest")) {
		rn.ret = append(rn.ret, x)
	}
	return r
}

// branchOf names the branch of VerifyTransaction that decides a verdict (distribution only).
func branchOf(c chainCfg, height uint64, tx *types.Transaction, verdict string) string {
	if tx.Type == types.TransactionTypeETHTX {
		if verdict == "ok" {
			return "eth:ok"
		}
		enc := common.FromHex(tx.ExtraData)
		et := new(eth_tx.Transaction)
		if err := rlp.DecodeBytes(enc, et); err != nil {
			return "eth:undecodable"
		}
		if re, err := rlp.EncodeToBytes(et); err != nil || !bytes.Equal(re, enc) {
			return "eth:noncanonical"
		}
		if _, err := eth_tx.Sender(eth_tx.NewEIP155Signer(refEthChain(c, height)), et); err != nil {
			if err == eth_tx.ErrInvalidChainId {
				return "eth:sender-other-chain"
			}
			if err == eth_tx.ErrInvalidSig {
				return "eth:sender-invalid-values"
			}
			return "eth:sender-recovery-failed"
		}
		return "eth:declared-field-differs"
	}
	switch verdict {
	case "ok":
		return "native:ok"
	case "chainid":
		return "native:chainid"
	case "hash":
		return "native:hash"
	}
	if tx.Sign == nil {
		return "native:sign-nil"
	}
	sb := tx.Sign.Bytes()
	pk, err := secp256k1.RecoverPubkey(tx.Hash.Bytes(), append([]byte{}, sb...))
	if err != nil {
		return "native:sign-recovery-failed"
	}
	if !secp256k1.VerifySignature(pk, tx.Hash.Bytes(), sb[:64]) {
		return "native:sign-verify-failed"
	}
	return "native:sign-other-address"
}

// addr: PublicKey.GetAddress of the real code on a 65-byte key vs the model's padded derivation.
func (rn *runner) addr(tag string, pk []byte) string {
	o := newOracle()
	if len(pk) == 65 {
		o.kec(pk[1:])
	}
	line := "addr " + hx.Hex(pk) + o.String()
	r := rn.out.Do(line, func() string {
		return hexS(common.BytesToPublicKey(pk).GetAddress().GetHexString())
	})
	rn.tags[tag]++
	if len(pk) == 65 && r != hexS("0x"+hx.Hex(refKeccak(pk[1:])[12:])) {
		rn.addrViol = append(rn.addrViol, hx.Hex(pk))
	}
	return r
}

// scacheOp: eth_tx.Sender on one decoded object with a sequence of signers (the per-object sigCache).
func (rn *runner) scacheOp(enc []byte, chains []*big.Int) {
	o := newOracle()
	var cs []string
	for _, ch := range chains {
		ethOracle(o, enc, ch)
		cs = append(cs, ch.String())
	}
	line := "scache " + hx.Hex(enc) + " " + strings.Join(cs, ",") + o.String()
	r := rn.out.Do(line, func() string {
		et := new(eth_tx.Transaction)
		if err := rlp.DecodeBytes(enc, et); err != nil {
			return "err-decode"
		}
		var outs []string
		for _, ch := range chains {
			a, err := eth_tx.Sender(eth_tx.NewEIP155Signer(ch), et)
			if err != nil {
				outs = append(outs, "err")
			} else {
				outs = append(outs, hx.Hex(a.Bytes()))
			}
		}
		return strings.Join(outs, " ")
	})
	rn.tags["scache"]++
	_ = r
}

// signPathOps: the Go code around the library's signature on the signing side —
// Signer.SignatureValues (Frontier/Homestead and EIP-155, incl. byte wrap-around and chain id 0)
// and the native secp256k1.Sign wrapper (recovery id + 27).
func (rn *runner) signPathOps(g gen, k *ecdsa.PrivateKey, chain *big.Int, et *eth_tx.Transaction) {
	h := g.r.Bytes(32)
	sig, err := crypto.Sign(h, k)
	if err != nil {
		return
	}
	sigs := [][]byte{sig}
	for _, last := range []byte{0, 1, 2, 3, 27, 28, 220, 221, 228, 229, 255} {
		s2 := append([]byte{}, sig...)
		s2[64] = last
		sigs = append(sigs, s2)
	}
	sigs = append(sigs, sig[:64], append(append([]byte{}, sig...), 0), nil, g.r.Bytes(65))
	chains := []*big.Int{chain, new(big.Int), big.NewInt(1), new(big.Int).Lsh(big.NewInt(1), 63), new(big.Int).Lsh(big.NewInt(1), 70)}
	fmtRSV := func(r, s, v *big.Int, err error) string {
		if err != nil {
			return "error"
		}
		return r.String() + " " + s.String() + " " + v.String()
	}
	norm := func(x string) string {
		if strings.HasPrefix(x, "PANIC") {
			return "panic"
		}
		return x
	}
	for si, sg := range sigs {
		sg := sg
		if si > 3 && g.r.Chance(2, 3) {
			continue
		}
		ch := chains[g.r.Intn(len(chains))]
		if si == 0 {
			ch = chain
		}
		line := "sigv " + ch.String() + " " + hx.Hex(sg)
		r := norm(hx.Guard(func() string { return fmtRSV(eth_tx.NewEIP155Signer(ch).SignatureValues(et, sg)) }))
		rn.out.Emit(line, r)
		rn.tags["sigv"]++
		rn.res["sigv/"+strings.SplitN(r, " ", 2)[0][:min(5, len(strings.SplitN(r, " ", 2)[0]))]]++
		if si%3 == 0 {
			r2 := norm(hx.Guard(func() string { return fmtRSV(eth_tx.HomesteadSigner{}.SignatureValues(et, sg)) }))
			rn.out.Emit("fsigv "+hx.Hex(sg), r2)
			rn.tags["fsigv"]++
		}
	}
	// native wrapper: the library's raw signature (the eth_crypto copy returns it unchanged, RFC 6979
	// nonces make both copies produce the same r, s) vs common/secp256k1.Sign
	key := pad32(k.D.Bytes())
	raw, err1 := ethsecp.Sign(h, key)
	nat, err2 := secp256k1.Sign(h, key)
	if err1 == nil && err2 == nil {
		rn.out.Emit("nsig "+hx.Hex(raw), hx.Hex(nat))
		rn.tags["nsig"]++
	}
}

// batchOps: the admission loop through the real handlers as a correspondence stream: small batches
// mixing honest, forged, duplicated and aliased elements, every entry point.
func (rn *runner) batchOps(g gen, kp *keyPool, c chainCfg, height uint64, i int) {
	entries := []string{"worker", "write", "runwrite"}
	for b := 0; b < 2; b++ {
		entry := entries[(i+b)%3]
		size := 1 + g.r.Intn(4)
		var batch []*types.Transaction
		kinds := ""
		for j := 0; j < size; j++ {
			k := g.keyFrom(kp)
			switch g.r.Intn(7) {
			case 6:
				// a tampered copy carrying the hash of the honest transaction that follows it
				e := g.honestElem(k, c, height, g.r.Bool())
				fs := sameHashForgeries(g, e.tx)
				batch = append(batch, fs[g.r.Intn(len(fs))].tx, e.tx)
				kinds += "CH"
				j++
			case 0:
				e := g.forge(k, c, height, g.r.Intn(7))
				batch = append(batch, e.tx)
				kinds += "F"
			case 1:
				if len(batch) > 0 { // duplicate of an earlier element
					batch = append(batch, cloneTx(batch[g.r.Intn(len(batch))]))
					kinds += "D"
					continue
				}
				fallthrough
			case 2:
				e := g.honestElem(k, c, height, true)
				batch = append(batch, e.tx)
				kinds += "E"
			case 3:
				if len(batch) > 0 && batch[len(batch)-1].Type != types.TransactionTypeETHTX && batch[len(batch)-1].Sign != nil {
					// same hash, other spelling of the recovery id: refused by the pool as existing
					a := cloneTx(batch[len(batch)-1])
					a.Sign = recidAlias(a.Sign)
					batch = append(batch, a)
					kinds += "A"
					continue
				}
				fallthrough
			default:
				e := g.honestElem(k, c, height, false)
				batch = append(batch, e.tx)
				kinds += "N"
			}
		}
		var r string
		if b == 1 && len(batch) >= 2 {
			// the first element (or an honest transaction with the same hash but another signature
			// spelling) is already in the pool
			pre := []*types.Transaction{batch[0]}
			r = rn.batchOpPre("batch-"+entry+"-prefilled", entry, c, height, pre, batch)
			kinds = "pre:" + kinds
		} else {
			r = rn.batchOp("batch-"+entry, entry, c, height, batch)
		}
		rn.res["batch-shape/"+kinds+"="+r]++
	}
}

func (rn *runner) conv(tag string, chain *big.Int, enc []byte) string {
	o := newOracle()
	ethOracle(o, enc, chain)
	line := "conv " + chain.String() + " " + hx.Hex(enc) + o.String()
	r := rn.out.Do(line, func() string { return convObs(chain, enc) })
	rn.tags[tag]++
	k := r
	if i := strings.IndexByte(r, ' '); i > 0 {
		k = "fields"
	}
	rn.res[tag+"/"+k]++
	return r
}

func convObs(chain *big.Int, enc []byte) string {
	et := new(eth_tx.Transaction)
	if err := rlp.DecodeBytes(enc, et); err != nil {
		return "err-decode"
	}
	snd, err := eth_tx.Sender(eth_tx.NewEIP155Signer(chain), et)
	if err != nil {
		return "err-sender"
	}
	x := eth_tx.ConvertTx(et, snd, enc)
	return strings.Join([]string{hexS(x.Source), hexS(x.Target), strconv.FormatUint(x.Nonce, 10), hexS(x.ChainId),
		hexS(x.Data), hx.Hex(x.Hash.Bytes()), hexS(x.ExtraData)}, " ")
}

// ---------------------------------------------------------------- generators

type gen struct{ r *hx.Rng }

func (g gen) key() *ecdsa.PrivateKey {
	for {
		d := g.r.Bytes(32)
		if g.r.Chance(1, 16) {
			d[0] = 0 // short big.Int bytes of D
		}
		k, err := crypto.ToECDSA(d)
		if err == nil {
			return k
		}
	}
}

func nativeKey(k *ecdsa.PrivateKey) common.PrivateKey { return common.PrivateKey{PrivKey: *k} }

var strPool = []string{"", "0", "1", "9", "10", "12", "{}", "{\"a\":\"1\"}", "0x", "0x0", "abc", "é", "\x00", "188", "-1", " "}

func (g gen) str() string {
	switch g.r.Intn(6) {
	case 0, 1:
		return strPool[g.r.Intn(len(strPool))]
	case 2:
		return strconv.FormatUint(g.r.U64()>>uint(g.r.Intn(64)), 10)
	case 3:
		return "0x" + hx.Hex(g.r.Bytes(20))
	case 4:
		b := g.r.Bytes(g.r.Intn(12))
		return string(b)
	}
	return fmt.Sprintf("{\"k\":%d}", g.r.Intn(1000))
}

func (g gen) nonce() uint64 {
	switch g.r.Intn(5) {
	case 0:
		return uint64(g.r.Pick(0, 1, 9, 10, 99, 100, 127, 128, 255, 256))
	case 1:
		return ^uint64(0) - uint64(g.r.Intn(2))
	case 2:
		return g.r.U64()
	}
	return uint64(g.r.Intn(1000))
}

var nativeTypes = []int32{0, 1, 2, 3, 7, 99, 100, 187, 189, 200, 600, -1, -188, 2147483647, -2147483648}

// honestNative builds and signs a transaction the way a client of the node does:
// Hash = GenHash(), Sign = PrivateKey.Sign(Hash).
func (g gen) honestNative(k *ecdsa.PrivateKey, chainId string) *types.Transaction {
	tx := g.honestNativeRaw(k, chainId)
	validateHonestNative(k, tx)
	return tx
}

// validateHonestNative: the honest material against the independent references.
func validateHonestNative(k *ecdsa.PrivateKey, tx *types.Transaction) {
	refChecks["GenHash"]++
	if gh := tx.GenHash(); gh != tx.Hash {
		disagree("Transaction.GenHash", "code "+gh.String()+" reference "+tx.Hash.String()+" content "+hx.Hex(harnessSer(tx)))
	}
	checkHonestSignature("common.PrivateKey", k, tx.Hash.Bytes(), tx.Sign.Bytes())
}

func (g gen) honestNativeRaw(k *ecdsa.PrivateKey, chainId string) *types.Transaction {
	nk := nativeKey(k)
	tx := &types.Transaction{
		// the sender's address by definition (independent reference), not whatever GetAddress returns
		Source:    refAddress(&k.PublicKey),
		Target:    g.str(),
		Type:      nativeTypes[g.r.Intn(len(nativeTypes))],
		Time:      g.str(),
		Data:      g.str(),
		ExtraData: g.str(),
		Nonce:     g.nonce(),
		ChainId:   chainId,
	}
	if g.r.Chance(1, 3) {
		tx.ExtraDataType = int32(g.r.Intn(5))
		tx.RequestId = g.r.U64() >> 40
		tx.SocketRequestId = g.str()
	}
	// the digest of the transaction's own content by definition (crypto/sha256 of the harness's
	// own concatenation), compared with GenHash
	tx.Hash = common.BytesToHash(refSha256(harnessSer(tx)))
	s := nk.Sign(tx.Hash.Bytes())
	tx.Sign = &s
	return tx
}

type mutant struct {
	field string // which field was changed
	auth  bool   // is the field one the property calls authenticated (hashed / signed / chain id)
	tx    *types.Transaction
}

func mutStr(r *hx.Rng, s string) string {
	for tries := 0; tries < 20; tries++ {
		var t string
		switch r.Intn(6) {
		case 0:
			t = s + string([]byte{byte('0' + r.Intn(10))})
		case 1:
			if len(s) > 0 {
				t = s[:len(s)-1]
			} else {
				t = "0"
			}
		case 2:
			if len(s) > 0 {
				b := []byte(s)
				b[r.Intn(len(b))] ^= 1 << uint(r.Intn(8))
				t = string(b)
			} else {
				t = "x"
			}
		case 3:
			t = strings.ToUpper(s)
		case 4:
			t = "0" + s
		default:
			if len(s) > 1 {
				i := r.Intn(len(s)-1) + 1
				t = s[i:] + s[:i]
			} else {
				t = s + s + "1"
			}
		}
		if t != s {
			return t
		}
	}
	return s + "!"
}

func flipSign(s *common.Sign, bit int) *common.Sign {
	b := s.Bytes()
	b[bit/8] ^= 1 << uint(bit%8)
	return common.BytesToSign(b)
}

var secpN, _ = new(big.Int).SetString("fffffffffffffffffffffffffffffffebaaedce6af48a03bbfd25e8cd0364141", 16)

// recidAlias rewrites the recovery id 27/28 <-> 0/1 (same signature, other spelling).
func recidAlias(s *common.Sign) *common.Sign {
	b := s.Bytes()
	if b[64] > 26 {
		b[64] -= 27
	} else {
		b[64] += 27
	}
	return common.BytesToSign(b)
}

// normRecid is secp256k1.checkSignature's view of the last signature byte.
func normRecid(v byte) byte {
	if v > 26 {
		return v - 27
	}
	return v
}

func mkSign(r, sv *big.Int, v byte) *common.Sign {
	if r.BitLen() > 256 || sv.BitLen() > 256 || r.Sign() < 0 || sv.Sign() < 0 {
		return nil
	}
	return common.BytesToSign(append(append(pad32(r.Bytes()), pad32(sv.Bytes())...), v))
}

// malleate: (r, n-s, parity flipped) is the other ECDSA signature of the same
// message by the same key; the recovery id keeps its spelling (27/28 or 0/1).
func malleate(s *common.Sign) *common.Sign {
	b := s.Bytes()
	base := b[64] - normRecid(b[64])
	sv := new(big.Int).Sub(secpN, new(big.Int).SetBytes(b[32:64]))
	return mkSign(new(big.Int).SetBytes(b[:32]), sv, base+(normRecid(b[64])^1))
}

type signVariant struct {
	name string
	sg   *common.Sign
}

// signFamily: the signatures algebraically related to an honest one (same r,
// mirrored / shifted s, other parity, r+N, zero components, other spelling of
// the recovery id).  Every member differs from the honest Sign in its bytes.
func signFamily(s *common.Sign) []signVariant {
	b := s.Bytes()
	r := new(big.Int).SetBytes(b[:32])
	sv := new(big.Int).SetBytes(b[32:64])
	ns := new(big.Int).Sub(secpN, sv)
	p := normRecid(b[64])
	var out []signVariant
	add := func(n string, sg *common.Sign) {
		if sg != nil && !bytes.Equal(sg.Bytes(), b) {
			out = append(out, signVariant{n, sg})
		}
	}
	for _, base := range []byte{27, 0} {
		sp := "27"
		if base == 0 {
			sp = "0"
		}
		add("twin(r,N-s,v^1)/"+sp, mkSign(r, ns, base+(p^1)))
		add("mirror-s(r,N-s,v)/"+sp, mkSign(r, ns, base+p))
		add("parity(r,s,v^1)/"+sp, mkSign(r, sv, base+(p^1)))
		add("r+N/"+sp, mkSign(new(big.Int).Add(r, secpN), sv, base+p))
		add("r+N,recid+2/"+sp, mkSign(new(big.Int).Add(r, secpN), sv, base+p+2))
		add("recid+2/"+sp, mkSign(r, sv, base+p+2))
		add("s+N/"+sp, mkSign(r, new(big.Int).Add(sv, secpN), base+p))
		add("N-r/"+sp, mkSign(new(big.Int).Sub(secpN, r), sv, base+p))
		add("r=0/"+sp, mkSign(new(big.Int), sv, base+p))
		add("s=0/"+sp, mkSign(r, new(big.Int), base+p))
		add("s=N/"+sp, mkSign(r, secpN, base+p))
		add("swap(s,r)/"+sp, mkSign(sv, r, base+p))
		add("alias/"+sp, mkSign(r, sv, base+p))
	}
	return out
}

// sameSignature: identical (r,s) bytes and the same recovery id after the
// 27..30 -> 0..3 mapping, i.e. only the spelling of the last byte differs.
func sameSignature(a, b *common.Sign) bool {
	x, y := a.Bytes(), b.Bytes()
	return bytes.Equal(x[:64], y[:64]) && normRecid(x[64]) == normRecid(y[64])
}

// nativeMutants: every single-field mutation (one random variant per field)
// plus selected single-bit mutations of hash and signature.
func (g gen) nativeMutants(tx *types.Transaction, otherChain string) []mutant {
	var ms []mutant
	add := func(field string, auth bool, f func(t *types.Transaction)) {
		c := cloneTx(tx)
		f(c)
		ms = append(ms, mutant{field, auth, c})
	}
	r := g.r
	add("Source", true, func(t *types.Transaction) { t.Source = mutStr(r, t.Source) })
	add("Target", true, func(t *types.Transaction) { t.Target = mutStr(r, t.Target) })
	add("Type", true, func(t *types.Transaction) {
		for {
			n := nativeTypes[r.Intn(len(nativeTypes))]
			if r.Bool() {
				n = t.Type + int32(r.Pick(-1, 1, 10))
			}
			if n != t.Type && n != types.TransactionTypeETHTX {
				t.Type = n
				return
			}
		}
	})
	add("Time", true, func(t *types.Transaction) { t.Time = mutStr(r, t.Time) })
	add("Data", true, func(t *types.Transaction) { t.Data = mutStr(r, t.Data) })
	add("ExtraData", true, func(t *types.Transaction) { t.ExtraData = mutStr(r, t.ExtraData) })
	add("Nonce", true, func(t *types.Transaction) { t.Nonce += uint64(r.Pick(1, 9, 10, 1<<32)) })
	add("ChainId", true, func(t *types.Transaction) {
		if r.Bool() {
			t.ChainId = otherChain
		} else {
			t.ChainId = mutStr(r, t.ChainId)
		}
	})
	add("Hash", true, func(t *types.Transaction) { t.Hash[r.Intn(32)] ^= 1 << uint(r.Intn(8)) })
	add("Sign", true, func(t *types.Transaction) { t.Sign = flipSign(t.Sign, r.Intn(512)) })
	add("Sign", true, func(t *types.Transaction) { t.Sign = flipSign(t.Sign, 512+r.Intn(8)) })
	add("Sign", true, func(t *types.Transaction) { t.Sign = malleate(t.Sign) })
	add("Sign-recid-alias", true, func(t *types.Transaction) { t.Sign = recidAlias(t.Sign) })
	add("Sign", true, func(t *types.Transaction) { t.Sign = nil })
	for _, v := range signFamily(tx.Sign) {
		v := v
		if strings.HasPrefix(v.name, "alias/") {
			continue // covered by Sign-recid-alias
		}
		add("Sign-family", true, func(t *types.Transaction) { t.Sign = v.sg })
	}
	add("ExtraDataType", false, func(t *types.Transaction) { t.ExtraDataType++ })
	add("RequestId", false, func(t *types.Transaction) { t.RequestId++ })
	add("SocketRequestId", false, func(t *types.Transaction) { t.SocketRequestId += "x" })
	add("SubHash", false, func(t *types.Transaction) { t.SubHash[r.Intn(32)] ^= 1 })
	return ms
}

// boundaryShift moves the last digit of Data into Nonce (or the first digit of
// Nonce into Data): two fields change, the hashed byte string does not.
func boundaryShift(tx *types.Transaction) *types.Transaction {
	ns := strconv.FormatUint(tx.Nonce, 10)
	if len(ns) >= 2 && ns[1] != '0' {
		c := cloneTx(tx)
		c.Data = tx.Data + ns[:1]
		n, _ := strconv.ParseUint(ns[1:], 10, 64)
		c.Nonce = n
		return c
	}
	return nil
}

// ---- ethereum payloads

func (g gen) bigVal() *big.Int {
	switch g.r.Intn(7) {
	case 0:
		return big.NewInt(0)
	case 1:
		return big.NewInt(int64(g.r.Pick(1, 127, 128, 255, 256)))
	case 2:
		return new(big.Int).Exp(big.NewInt(10), big.NewInt(int64(g.r.Pick(17, 18, 19))), nil)
	case 3:
		v := new(big.Int).Exp(big.NewInt(10), big.NewInt(18), nil)
		return v.Sub(v, big.NewInt(1))
	case 4:
		return new(big.Int).SetBytes(g.r.Bytes(g.r.Intn(33)))
	case 5:
		return new(big.Int).SetUint64(g.r.U64())
	}
	return big.NewInt(1000000000)
}

func (g gen) payloadData() []byte {
	switch g.r.Intn(8) {
	case 0:
		return nil
	case 1:
		return []byte{byte(g.r.Pick(0, 1, 0x7f, 0x80, 0xff))}
	case 2:
		return g.r.Bytes(g.r.Pick(54, 55, 56, 57))
	case 3:
		return g.r.Bytes(g.r.Pick(255, 256, 300))
	}
	return g.r.Bytes(g.r.Intn(40))
}

func (g gen) ethUnsigned() *eth_tx.Transaction {
	nonce := g.nonce()
	gas := uint64(g.r.Pick(0, 21000, 127, 128, 1<<20))
	if g.r.Chance(1, 6) {
		gas = g.r.U64()
	}
	if g.r.Chance(1, 3) {
		return eth_tx.NewContractCreation(nonce, g.bigVal(), gas, g.bigVal(), g.payloadData())
	}
	return eth_tx.NewTransaction(nonce, common.BytesToAddress(g.r.Bytes(20)), g.bigVal(), gas, g.bigVal(), g.payloadData())
}

// wrap = what eth_rpc.SendRawTransaction hands to the node (ConvertTx of the decoded payload).
func wrap(et *eth_tx.Transaction, signer eth_tx.Signer) (*types.Transaction, []byte, error) {
	enc, err := rlp.EncodeToBytes(et)
	if err != nil {
		return nil, nil, err
	}
	snd, err := eth_tx.Sender(signer, et)
	if err != nil {
		return nil, enc, err
	}
	return eth_tx.ConvertTx(et, snd, enc), enc, nil
}

// rewrap: declared fields made consistent with an arbitrary payload, if the real code can decode it.
func rewrap(enc []byte, chain *big.Int) *types.Transaction {
	et := new(eth_tx.Transaction)
	if err := rlp.DecodeBytes(enc, et); err != nil {
		return nil
	}
	snd, err := eth_tx.Sender(eth_tx.NewEIP155Signer(chain), et)
	if err != nil {
		return nil
	}
	return eth_tx.ConvertTx(et, snd, enc)
}

// raw RLP construction with knobs for non-canonical forms
func rlpStr(b []byte) []byte {
	if len(b) == 1 && b[0] < 0x80 {
		return []byte{b[0]}
	}
	return append(rlpHead(0x80, len(b)), b...)
}
func rlpHead(base byte, n int) []byte {
	if n < 56 {
		return []byte{base + byte(n)}
	}
	lb := new(big.Int).SetInt64(int64(n)).Bytes()
	return append([]byte{base + 55 + byte(len(lb))}, lb...)
}
func rlpList(items ...[]byte) []byte {
	var p []byte
	for _, it := range items {
		p = append(p, it...)
	}
	return append(rlpHead(0xc0, len(p)), p...)
}
func rlpInt(v *big.Int) []byte { return rlpStr(v.Bytes()) }
func rlpU(v uint64) []byte    { return rlpStr(new(big.Int).SetUint64(v).Bytes()) }

// items of a signed tx as separate RLP items so that single items can be replaced
func itemsOf(et *eth_tx.Transaction) [][]byte {
	v, r, s := et.RawSignatureValues()
	to := []byte{0x80}
	if et.To() != nil {
		to = rlpStr(et.To().Bytes())
	}
	return [][]byte{rlpU(et.Nonce()), rlpInt(et.GasPrice()), rlpU(et.Gas()), to, rlpInt(et.Value()), rlpStr(et.Data()), rlpInt(v), rlpInt(r), rlpInt(s)}
}

type payloadVariant struct {
	name string
	enc  []byte
}

func longForm(item []byte) []byte {
	// re-encode a short string item with a long-form (non-canonical) header
	if len(item) == 0 {
		return item
	}
	var content []byte
	switch {
	case item[0] < 0x80:
		content = item[:1]
	case item[0] < 0xb8:
		content = item[1:]
	default:
		return item
	}
	return append([]byte{0xb8, byte(len(content))}, content...)
}

func (g gen) payloadVariants(et *eth_tx.Transaction, chain *big.Int) []payloadVariant {
	its := itemsOf(et)
	v, r, s := et.RawSignatureValues()
	rep := func(i int, it []byte) []byte {
		c := make([][]byte, len(its))
		copy(c, its)
		c[i] = it
		return rlpList(c...)
	}
	canon := rlpList(its...)
	var vs []payloadVariant
	add := func(n string, e []byte) { vs = append(vs, payloadVariant{n, e}) }
	add("canonical", canon)
	// v variants
	parity := new(big.Int).Set(v)
	if v.Bit(0) == 1 {
		parity.Add(parity, big.NewInt(1))
	} else {
		parity.Sub(parity, big.NewInt(1))
	}
	add("v-parity", rep(6, rlpInt(parity)))
	for _, x := range []int64{0, 1, 26, 27, 28, 29, 34, 35, 36, 37, 255, 256} {
		add("v-small", rep(6, rlpInt(big.NewInt(x))))
	}
	add("v-other-chain", rep(6, rlpInt(new(big.Int).Add(v, big.NewInt(2)))))
	add("v-huge", rep(6, rlpInt(new(big.Int).Lsh(big.NewInt(1), uint(g.r.Pick(63, 64, 65, 200))))))
	add("v-wrap", rep(6, rlpInt(new(big.Int).Add(new(big.Int).Lsh(big.NewInt(1), 64), v))))
	// r, s variants
	add("r-zero", rep(7, rlpInt(big.NewInt(0))))
	add("s-zero", rep(8, rlpInt(big.NewInt(0))))
	hs := new(big.Int).Sub(secpN, s)
	{
		c := make([][]byte, len(its))
		copy(c, its)
		c[6] = rlpInt(parity)
		c[8] = rlpInt(hs)
		add("s-high", rlpList(c...))
	}
	add("r-geN", rep(7, rlpInt(new(big.Int).Add(secpN, big.NewInt(int64(g.r.Intn(3)))))))
	add("r-33bytes", rep(7, rlpInt(new(big.Int).Lsh(r, 8))))
	add("s-flip", rep(8, rlpInt(new(big.Int).Xor(s, new(big.Int).Lsh(big.NewInt(1), uint(g.r.Intn(250)))))))
	// non-canonical / malformed RLP
	if et.To() == nil {
		add("to-emptylist", rep(3, []byte{0xc0}))
	}
	add("to-19", rep(3, rlpStr(g.r.Bytes(19))))
	add("to-21", rep(3, rlpStr(g.r.Bytes(21))))
	add("to-byte", rep(3, []byte{byte(g.r.Intn(0x80))}))
	add("to-list", rep(3, rlpList(rlpStr(g.r.Bytes(19)))))
	add("to-b800", rep(3, []byte{0xb8, 0x00}))
	add("nonce-leading0", rep(0, rlpStr(append([]byte{0}, new(big.Int).SetUint64(et.Nonce()|1).Bytes()...))))
	add("nonce-9bytes", rep(0, rlpStr(append([]byte{1}, g.r.Bytes(8)...))))
	add("nonce-byte0", rep(0, []byte{0x00}))
	add("nonce-81", rep(0, []byte{0x81, byte(g.r.Intn(0x80))}))
	add("nonce-list", rep(0, []byte{0xc0}))
	add("price-leading0", rep(1, rlpStr(append([]byte{0}, et.GasPrice().Bytes()...))))
	add("value-byte0", rep(4, []byte{0x00}))
	add("gas-longform", rep(2, longForm(its[2])))
	add("data-longform", rep(5, longForm(its[5])))
	add("data-81", rep(5, []byte{0x81, byte(g.r.Intn(0x80))}))
	add("data-list", rep(5, rlpList(its[5])))
	add("trailing", append(append([]byte{}, canon...), byte(g.r.Intn(256))))
	add("truncated", canon[:len(canon)-1])
	add("extra-item", rlpList(append(append([][]byte{}, its...), []byte{0x80})...))
	add("missing-item", rlpList(its[:8]...))
	if len(canon) > 2 {
		c := append([]byte{}, canon...)
		if c[0] < 0xf8 {
			c[0]++
		} else {
			c[len(c)-len(canon)+int(c[0]-0xf7)]++
		}
		add("listsize+1", c)
	}
	add("not-a-list", rlpStr(canon))
	add("empty", nil)
	add("list-longform", func() []byte {
		var p []byte
		for _, it := range its {
			p = append(p, it...)
		}
		if len(p) < 56 {
			return append([]byte{0xf8, byte(len(p))}, p...)
		}
		lb := new(big.Int).SetInt64(int64(len(p))).Bytes()
		return append(append([]byte{0xf7 + byte(len(lb)+1), 0}, lb...), p...)
	}())
	// random single-bit flips of the canonical payload
	for i := 0; i < 6; i++ {
		c := append([]byte{}, canon...)
		c[g.r.Intn(len(c))] ^= 1 << uint(g.r.Intn(8))
		add("bitflip", c)
	}
	for i := 0; i < 2; i++ {
		add("random", g.r.Bytes(g.r.Intn(12)))
	}
	return vs
}

func ethFieldMutants(r *hx.Rng, tx *types.Transaction) []mutant {
	var ms []mutant
	add := func(field string, auth bool, f func(t *types.Transaction)) {
		c := cloneTx(tx)
		f(c)
		ms = append(ms, mutant{field, auth, c})
	}
	add("Source", true, func(t *types.Transaction) { t.Source = mutStr(r, t.Source) })
	add("Target", true, func(t *types.Transaction) { t.Target = mutStr(r, t.Target) })
	add("Type", true, func(t *types.Transaction) { t.Type = int32(r.Pick(0, 187, 189, 200)) })
	add("Nonce", true, func(t *types.Transaction) { t.Nonce += uint64(r.Pick(1, 10)) })
	add("ChainId", true, func(t *types.Transaction) { t.ChainId = mutStr(r, t.ChainId) })
	add("Data", true, func(t *types.Transaction) { t.Data = mutStr(r, t.Data) })
	add("Hash", true, func(t *types.Transaction) { t.Hash[r.Intn(32)] ^= 1 << uint(r.Intn(8)) })
	add("ExtraData", true, func(t *types.Transaction) { t.ExtraData = "0x" + strings.ToUpper(t.ExtraData[2:]) })
	add("ExtraData", true, func(t *types.Transaction) { t.ExtraData = "0X" + t.ExtraData[2:] })
	add("ExtraData", true, func(t *types.Transaction) { t.ExtraData = t.ExtraData[2:] })
	add("ExtraData", true, func(t *types.Transaction) { t.ExtraData = t.ExtraData + "zz" })
	add("ExtraData", true, func(t *types.Transaction) { t.ExtraData = t.ExtraData + "0" })
	add("ExtraData", true, func(t *types.Transaction) { t.ExtraData = "0x0" + t.ExtraData[2:] })
	add("Time", false, func(t *types.Transaction) { t.Time = "2020-01-01" })
	add("Sign", false, func(t *types.Transaction) { t.Sign = common.BytesToSign(r.Bytes(65)) })
	add("RequestId", false, func(t *types.Transaction) { t.RequestId++ })
	return ms
}

// ---------------------------------------------------------------- corpus

func runCorpus(rn *runner) {
	dir := os.Getenv("VERIF_CORPUS")
	if dir == "" {
		return
	}
	es, err := os.ReadDir(dir)
	if err != nil {
		return
	}
	for _, e := range es {
		if !strings.HasSuffix(e.Name(), ".ops") {
			continue
		}
		f, err := os.Open(dir + "/" + e.Name())
		if err != nil {
			continue
		}
		sc := bufio.NewScanner(f)
		sc.Buffer(make([]byte, 1<<20), 1<<24)
		for sc.Scan() {
			l := strings.TrimSpace(sc.Text())
			if l == "" || strings.HasPrefix(l, "#") {
				continue
			}
			replayLine(rn, "corpus", l)
		}
		f.Close()
	}
}

func unS(h string) string {
	b, err := hx.UnHex(h)
	if err != nil {
		panic("corpus: bad hex " + h)
	}
	return string(b)
}

// replayLine re-executes a recorded `vt`/`conv` op line against the real code
// (its oracle tokens are recomputed, not trusted).
func replayLine(rn *runner, tag, l string) string {
	w := strings.Fields(l)
	switch {
	case len(w) >= 20 && w[0] == "vt":
		height, _ := strconv.ParseUint(w[1], 10, 64)
		c := chainCfg{chainId: unS(w[2]), orig: unS(w[3])}
		c.p001, _ = strconv.ParseUint(w[4], 10, 64)
		if w[5] != "~" {
			c.genesis = strp(unS(w[5]))
		}
		f := w[6:20]
		tx := &types.Transaction{Source: unS(f[0]), Target: unS(f[1]), Time: unS(f[3]), Data: unS(f[4]), ExtraData: unS(f[5]),
			ChainId: unS(f[9]), SocketRequestId: unS(f[12])}
		ty, _ := strconv.ParseInt(f[2], 10, 32)
		tx.Type = int32(ty)
		hb, _ := hx.UnHex(f[6])
		tx.Hash = common.BytesToHash(hb)
		if f[7] != "nil" {
			sb, _ := hx.UnHex(f[7])
			tx.Sign = common.BytesToSign(sb)
		}
		tx.Nonce, _ = strconv.ParseUint(f[8], 10, 64)
		edt, _ := strconv.ParseInt(f[10], 10, 32)
		tx.ExtraDataType = int32(edt)
		tx.RequestId, _ = strconv.ParseUint(f[11], 10, 64)
		sh, _ := hx.UnHex(f[13])
		tx.SubHash = common.BytesToHash(sh)
		return rn.vt(tag, c, height, tx)
	case len(w) >= 3 && w[0] == "conv":
		chain, ok := new(big.Int).SetString(w[1], 10)
		if !ok {
			panic("corpus: bad chain id")
		}
		enc, _ := hx.UnHex(w[2])
		return rn.conv(tag, chain, enc)
	}
	panic("corpus: unknown op line: " + l)
}

// ---------------------------------------------------------------- main

func main() {
	a := hx.Args()
	hxnode.BootServices("dev")
	pool := service.GetTransactionPool()
	if pool == nil {
		panic("no transaction pool")
	}
	mode := a["mode"]
	if mode == "search" {
		search(a, pool)
		return
	}
	if mode == "admit" {
		admissionMode(a, pool)
		return
	}
	out, err := hx.NewOut(a["ops"], a["obs"])
	if err != nil {
		panic(err)
	}
	defer out.Close()
	rn := &runner{out: out, pool: pool, tags: map[string]int{}, res: map[string]int{}, branch: map[string]int{}, retMax: 3000, rr: hx.NewRng(hx.SeedFromEnv() ^ 0xa11a5)}
	if a["dump"] != "" {
		rn.dump, _ = os.Create(a["dump"])
		defer rn.dump.Close()
	}
	if a["tier"] == "thorough" {
		validateEvery = 1
		rn.retMax = 20000
	}
	if mode == "replay" {
		fmt.Println("IMPL " + replayLine(rn, "replay", a["line"]))
		return
	}
	runCorpus(rn)
	g := gen{hx.NewRng(hx.SeedFromEnv())}
	pool2 := newKeyPool(g.r.Fork())
	for _, k := range pool2.all() {
		rn.addr("addr-boundary-key", pubBytes(&k.PublicKey))
	}
	// deterministic small-scope families first: the fork boundary P-1, P, P+1 of every schedule whose
	// chain id changes, honest transactions of both ids, native and wrapped ETH
	for _, fk := range []*ecdsa.PrivateKey{pool2.short[0], g.key()} {
		for _, fc := range forkCases(g, fk) {
			chainIdReferenceCheck(fc.c, fc.height)
			rn.vt(fc.tag, fc.c, fc.height, fc.tx)
		}
	}
	n := hx.ArgInt(a, "n", 40)
	for i := 0; i < n; i++ {
		c := cfgs[i%len(cfgs)]
		if g.r.Chance(1, 2) {
			c = cfgs[g.r.Intn(2)]
		}
		height := c.p001 + uint64(g.r.Intn(3))
		if c.p001 > 0 && g.r.Chance(1, 3) {
			height = c.p001 - 1 - uint64(g.r.Intn(2))
		}
		c.apply()
		k := g.keyFrom(pool2)
		rn.addr("addr-key", pubBytes(&k.PublicKey))
		// native
		chainIdReferenceCheck(c, height)
		cid := refChainIdStr(c, height)
		other := c.orig
		if cid == c.orig {
			other = c.chainId
		}
		if other == cid {
			other = cid + "1"
		}
		tx := g.honestNative(k, cid)
		rn.vt("native-honest", c, height, tx)
		for _, m := range g.nativeMutants(tx, other) {
			rn.vt("native-mut-"+m.field, c, height, m.tx)
		}
		for _, class := range []string{"hash0", "short-r", "short-s"} {
			if ct := g.honestNativeClass(k, cid, class); ct != nil {
				rn.vt("native-honest-"+class, c, height, ct)
				rn.vt("native-"+class+"-twin", c, height, func() *types.Transaction { m := cloneTx(ct); m.Sign = malleate(ct.Sign); return m }())
				rn.vt("native-"+class+"-alias", c, height, func() *types.Transaction { m := cloneTx(ct); m.Sign = recidAlias(ct.Sign); return m }())
			}
		}
		if wa := g.wrongAddressTx(k, cid); wa != nil {
			rn.vt("native-unpadded-address", c, height, wa)
		}
		if bs := boundaryShift(tx); bs != nil {
			rn.vt("native-boundary-shift", c, height, bs)
		}
		if c.p001 > 0 { // same tx at a height on the other side of the chain-id switch
			h2 := c.p001 - 1
			if height < c.p001 {
				h2 = c.p001
			}
			rn.vt("native-other-height", c, h2, tx)
		}
		// ethereum
		chain := refEthChain(c, height)
		et, err := eth_tx.SignTx(g.ethUnsigned(), eth_tx.NewEIP155Signer(chain), k)
		if err != nil {
			panic(err)
		}
		et = specV(et, chain)
		wtx, enc := independentWrap(et, k, chain)
		{
			v, rr, ss := et.RawSignatureValues()
			rec := new(big.Int).Sub(v, new(big.Int).Add(new(big.Int).Mul(chain, big.NewInt(2)), big.NewInt(35)))
			pre, _ := rlp.EncodeToBytes([]interface{}{et.Nonce(), et.GasPrice(), et.Gas(), et.To(), et.Value(), et.Data(), chain, uint(0), uint(0)})
			checkHonestSignature("eth_tx.SignTx", k, refKeccak(pre), append(append(pad32(rr.Bytes()), pad32(ss.Bytes())...), byte(rec.Uint64())))
		}
		rn.vt("eth-honest", c, height, wtx)
		rn.conv("conv-honest", chain, enc)
		rn.signPathOps(g, k, chain, et)
		{
			// the sender cache: same object, signers of this chain, another chain, this chain again, …
			oc2 := new(big.Int).Add(chain, big.NewInt(1))
			seqs := [][]*big.Int{{chain, chain, oc2, chain}, {oc2, chain, chain, oc2, oc2}, {chain, new(big.Int), chain}}
			rn.scacheOp(enc, seqs[i%3])
			if hom, err := eth_tx.SignTx(g.ethUnsigned(), eth_tx.HomesteadSigner{}, k); err == nil {
				if henc, err := rlp.EncodeToBytes(hom); err == nil {
					rn.scacheOp(henc, seqs[(i+1)%3]) // unprotected: every EIP-155 signer falls back to Homestead
				}
			}
		}
		rn.batchOps(g, pool2, c, height, i)
		// padding classes of the payload signature: r or s with a leading zero byte (31-byte RLP strings)
		for _, class := range []string{"short-r", "short-s"} {
			for tries := 0; tries < 1500; tries++ {
				ce, err := eth_tx.SignTx(g.ethUnsigned(), eth_tx.NewEIP155Signer(chain), k)
				if err != nil {
					break
				}
				_, rr, ss := ce.RawSignatureValues()
				if (class == "short-r" && rr.BitLen() <= 248) || (class == "short-s" && ss.BitLen() <= 248) {
					ce = specV(ce, chain)
					ctx2, cenc := independentWrap(ce, k, chain)
					rn.vt("eth-honest-"+class, c, height, ctx2)
					rn.conv("conv-honest", chain, cenc)
					break
				}
			}
		}
		for _, m := range ethFieldMutants(g.r, wtx) {
			rn.vt("eth-mut-"+m.field, c, height, m.tx)
		}
		// every invalid-signature class with the zero Source each iteration, the other declared Sources
		// for a rotating third of the classes (the family is 65 ops otherwise and dominates the stream)
		for ui, uc := range unsignedCases(g, et, k, chain) {
			if strings.HasSuffix(uc.name, "/zero") || (ui/5)%3 == i%3 {
				rn.vt("eth-unsigned-"+uc.name, c, height, uc.tx)
			}
		}
		// the one decodable-but-non-canonical spelling (recipient 0xc0) needs a contract creation: make one
		// every iteration, with the honest declared fields and with re-derived ones
		{
			cre, err := eth_tx.SignTx(eth_tx.NewContractCreation(g.nonce(), g.bigVal(), 21000, g.bigVal(), g.payloadData()), eth_tx.NewEIP155Signer(chain), k)
			if err == nil {
				cre = specV(cre, chain)
				hw, _ := independentWrap(cre, k, chain)
				its := itemsOf(cre)
				its[3] = []byte{0xc0}
				alt := rlpList(its...)
				t1 := cloneTx(hw)
				t1.ExtraData = "0x" + hx.Hex(alt)
				rn.vt("eth-noncanonical-c0", c, height, t1)
				t2 := cloneTx(t1)
				t2.Hash = common.BytesToHash(refKeccak(alt))
				rn.vt("eth-noncanonical-c0-hash-restated", c, height, t2)
				rn.conv("conv-noncanonical-c0", chain, alt)
			}
		}
		// Homestead-signed and other-chain payloads, wrapped as eth_rpc would wrap them
		hom, _ := eth_tx.SignTx(g.ethUnsigned(), eth_tx.HomesteadSigner{}, k)
		if htx, henc, err := wrap(hom, eth_tx.NewEIP155Signer(chain)); err == nil {
			rn.vt("eth-homestead", c, height, htx)
			rn.conv("conv-homestead", chain, henc)
		}
		oc := new(big.Int).Add(chain, big.NewInt(int64(g.r.Pick(1, 2, 1000))))
		oth, _ := eth_tx.SignTx(g.ethUnsigned(), eth_tx.NewEIP155Signer(oc), k)
		if otx, oenc, err := wrap(oth, eth_tx.NewEIP155Signer(oc)); err == nil {
			rn.vt("eth-other-chain", c, height, otx)
			rn.conv("conv-other-chain", chain, oenc)
		}
		for _, pv := range g.payloadVariants(et, chain) {
			// (a) only ExtraData replaced; (b) all declared fields made consistent with the payload
			t1 := cloneTx(wtx)
			t1.ExtraData = common.ToHex(pv.enc)
			rn.vt("eth-payload-"+pv.name, c, height, t1)
			if rw := rewrap(pv.enc, chain); rw != nil {
				rn.vt("eth-rewrap-"+pv.name, c, height, rw)
			}
			rn.conv("conv-"+pv.name, chain, pv.enc)
		}
	}
	historyPhase(pool, rn.ret, rn.rr, &rn.hs)
	st := map[string]interface{}{}
	_ = json.Unmarshal([]byte(out.StatsJSON()), &st)
	st["hardening"] = map[string]interface{}{"retention_checks": rn.hs.Retention, "history_replays": rn.hs.History,
		"concurrent_checks": rn.hs.Concurrent, "pool_ops": rn.hs.PoolOps, "reference_checks": refChecks}
	st["reference_disagreements"] = refDisagree
	st["hardening_violations"] = rn.hs.Violations
	st["generators"] = rn.tags
	st["generator_results"] = rn.res
	st["selfcheck_fail"] = selfcheckFail
	st["branches"] = rn.branch
	st["key_pool"] = pool2.stats
	st["address_differs_from_reference"] = rn.addrViol
	b, _ := json.Marshal(st)
	fmt.Println("STATS " + string(b))
	if selfcheckFail > 0 {
		fmt.Fprintln(os.Stderr, "harness self-check failed: preimage reconstruction disagrees with the code's hash")
		os.Exit(3)
	}
}
