//go:build !c07admit
// +build !c07admit

package main

import "com.tuntun.rangers/node/src/service"

// Without the hooks H11a/H11b in the tree under check the admission entry points cannot be
// driven in-process; the plugin builds with tag c07admit when the hooks exist.
func admissionMode(a map[string]string, pool service.TransactionPool) {
	println("ADMIT-SKIPPED harness built without tag c07admit")
}
