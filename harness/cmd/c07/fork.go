package main

// Reference chain ids (independent of common.ChainId / common.GetChainId), the deterministic
// fork-boundary family (P-1, P, P+1 for every schedule whose chain id changes) and the family of
// payloads nobody signed combined with boundary values of the declared Source.

import (
	"crypto/ecdsa"
	"math/big"
	"strconv"

	"com.tuntun.rangers/node/src/common"
	"com.tuntun.rangers/node/src/eth_tx"
	"com.tuntun.rangers/node/src/middleware/types"
	"verif/harness/hx"
)

// refChainIdStr: the chain id in force at a height by definition — the original id strictly
// below the Proposal001 block, the current id from that block on.
func refChainIdStr(c chainCfg, height uint64) string {
	if height >= c.p001 {
		return c.chainId
	}
	return c.orig
}

func digitsOnly(s string) bool {
	if s == "" {
		return false
	}
	for _, ch := range s {
		if ch < '0' || ch > '9' {
			return false
		}
	}
	return true
}

// refEthChain: the EIP-155 chain id for wrapped transactions — the genesis id of a sub-chain
// if it has one, else the chain id in force; unparsable -> 0.
func refEthChain(c chainCfg, height uint64) *big.Int {
	s := refChainIdStr(c, height)
	if c.genesis != nil && *c.genesis != "" {
		s = *c.genesis
	}
	if !digitsOnly(s) {
		return new(big.Int)
	}
	n, _ := new(big.Int).SetString(s, 10)
	return n
}

func chainIdReferenceCheck(c chainCfg, height uint64) {
	c.apply()
	refChecks["chain-id"]++
	if got := common.ChainId(height); got != refChainIdStr(c, height) {
		disagree("common.ChainId", "height "+strconv.FormatUint(height, 10)+" config "+c.chainId+"/"+c.orig+"/"+strconv.FormatUint(c.p001, 10)+": code "+got+" reference "+refChainIdStr(c, height))
	}
	g := common.GetChainId(height)
	if g == nil {
		g = new(big.Int)
	}
	if g.Cmp(refEthChain(c, height)) != 0 {
		disagree("common.GetChainId", "height "+strconv.FormatUint(height, 10)+" config "+c.chainId+"/"+c.orig+"/"+strconv.FormatUint(c.p001, 10)+": code "+g.String()+" reference "+refEthChain(c, height).String())
	}
}

func signedEth(g gen, k *ecdsa.PrivateKey, chain *big.Int) *eth_tx.Transaction {
	et, err := eth_tx.SignTx(g.ethUnsigned(), eth_tx.NewEIP155Signer(chain), k)
	if err != nil {
		panic(err)
	}
	return specV(et, chain)
}

type forkCase struct {
	tag    string
	c      chainCfg
	height uint64
	tx     *types.Transaction
	want   bool // must be accepted
	eth    bool
}

// forkCases: for every configuration whose chain id really changes at Proposal001Block, the
// heights P-1, P, P+1, honest transactions signed for the id in force (must be admitted) and for
// the other id (must not), native and wrapped ETH.
func forkCases(g gen, k *ecdsa.PrivateKey) []forkCase {
	var out []forkCase
	for ci, c := range cfgs {
		if c.chainId == c.orig || c.p001 == 0 {
			continue
		}
		for _, dh := range []int{-1, 0, 1} {
			height := uint64(int64(c.p001) + int64(dh))
			inforce := refChainIdStr(c, height)
			other := c.chainId
			if inforce == c.chainId {
				other = c.orig
			}
			pos := map[int]string{-1: "P-1", 0: "P", 1: "P+1"}[dh]
			tagp := "fork" + strconv.Itoa(ci) + "-" + pos
			out = append(out, forkCase{tagp + "-native-inforce", c, height, g.honestNative(k, inforce), true, false})
			out = append(out, forkCase{tagp + "-native-other", c, height, g.honestNative(k, other), false, false})
			if c.genesis == nil || *c.genesis == "" {
				if digitsOnly(inforce) {
					ch, _ := new(big.Int).SetString(inforce, 10)
					w, _ := independentWrap(signedEth(g, k, ch), k, ch)
					out = append(out, forkCase{tagp + "-eth-inforce", c, height, w, true, true})
				}
				if digitsOnly(other) {
					ch, _ := new(big.Int).SetString(other, 10)
					w, _ := independentWrap(signedEth(g, k, ch), k, ch)
					out = append(out, forkCase{tagp + "-eth-other", c, height, w, false, true})
				}
			}
		}
	}
	return out
}

// ---- payloads nobody signed

type unsignedCase struct {
	name string
	tx   *types.Transaction
}

var declaredSources = []struct{ name, v string }{
	{"zero", "0x0000000000000000000000000000000000000000"},
	{"empty", ""},
	{"ff", "0xffffffffffffffffffffffffffffffffffffffff"},
	{"0x0", "0x0"},
}

// unsignedCases: an honest payload whose signature values are replaced by every class of
// INVALID signature (v still encoding this chain's id), wrapped with boundary values of the
// declared Source (and the signer's own address): nothing of it may be admitted.
func unsignedCases(g gen, et *eth_tx.Transaction, k *ecdsa.PrivateKey, chain *big.Int) []unsignedCase {
	its := itemsOf(et)
	v, r, s := et.RawSignatureValues()
	flipV := new(big.Int).Set(v)
	if new(big.Int).Sub(v, new(big.Int).Mul(chain, big.NewInt(2))).Cmp(big.NewInt(35)) == 0 {
		flipV.Add(flipV, big.NewInt(1))
	} else {
		flipV.Sub(flipV, big.NewInt(1))
	}
	zero := new(big.Int)
	type sig struct {
		name    string
		v, r, s *big.Int
	}
	sigs := []sig{
		{"r0s0", v, zero, zero}, {"r0", v, zero, s}, {"s0", v, r, zero},
		{"highS-mirror", flipV, r, new(big.Int).Sub(secpNConst(), s)}, {"highS", v, r, new(big.Int).Sub(secpNConst(), s)},
		{"rN", v, new(big.Int).Set(secpNConst()), s}, {"r>N", v, new(big.Int).Add(secpNConst(), big.NewInt(5)), s},
		{"sN", v, r, new(big.Int).Set(secpNConst())}, {"r=2^256-1", v, new(big.Int).Sub(new(big.Int).Lsh(big.NewInt(1), 256), big.NewInt(1)), s},
		{"v+2", new(big.Int).Add(v, big.NewInt(2)), r, s}, {"v-2", new(big.Int).Sub(v, big.NewInt(2)), r, s},
		{"r-not-on-curve", v, big.NewInt(5), s}, {"r1s1", v, big.NewInt(1), big.NewInt(1)},
	}
	var out []unsignedCase
	for _, sg := range sigs {
		c := make([][]byte, len(its))
		copy(c, its)
		c[6], c[7], c[8] = rlpInt(sg.v), rlpInt(sg.r), rlpInt(sg.s)
		enc := rlpList(c...)
		base := &types.Transaction{Type: types.TransactionTypeETHTX, Nonce: et.Nonce(), ChainId: chain.String(),
			Data: expectedData(et), Hash: common.BytesToHash(refKeccak(enc)), ExtraData: "0x" + hx.Hex(enc)}
		if et.To() != nil {
			base.Target = "0x" + hx.Hex(et.To().Bytes())
		}
		srcs := append([]struct{ name, v string }{{"signer", refAddress(&k.PublicKey)}}, declaredSources...)
		for _, src := range srcs {
			t := cloneTx(base)
			t.Source = src.v
			out = append(out, unsignedCase{sg.name + "/" + src.name, t})
		}
	}
	return out
}
