package main

// Admission entry points driven through the REAL handlers with mixed batches:
//   worker : network.WorkerConn.handleMessage(TransactionGotMsg)   (peer batches, sync replies)
//   write  : core.GameExecutor.write                                (ClientTransactionWrite)
//   runwrite: core.GameExecutor.runWrite, pass-through branch       (gate stream, RequestId == 0)
// The oracle is by construction and independent of the code under test: a batch is assembled from
// transactions the harness itself made honest (reference hash / address / chain id, signature
// checked against the curve equation) and transactions it forged from OTHER honest ones
// (content changed after signing, signature twin, foreign chain id, unsigned ETH payload
// for the zero address, declared field of a wrapped tx changed).  After the handler returns,
// exactly the honest elements may be in the pool.

import (
	"crypto/ecdsa"
	"encoding/json"
	"fmt"
	"os"
	"strconv"
	"strings"

	"com.tuntun.rangers/node/src/common"
	"com.tuntun.rangers/node/src/core"
	"com.tuntun.rangers/node/src/middleware"
	"com.tuntun.rangers/node/src/middleware/types"
	"com.tuntun.rangers/node/src/network"
	"com.tuntun.rangers/node/src/service"
	"verif/harness/hx"
)

type elem struct {
	tx     *types.Transaction
	honest bool
	kind   string
}

func sameContent(a, b *types.Transaction) bool {
	return a.Hash == b.Hash && a.Source == b.Source && a.Target == b.Target && a.Type == b.Type && a.Data == b.Data &&
		a.ExtraData == b.ExtraData && a.Nonce == b.Nonce && a.ChainId == b.ChainId && a.Time == b.Time &&
		((a.Sign == nil) == (b.Sign == nil)) && (a.Sign == nil || string(a.Sign.Bytes()) == string(b.Sign.Bytes()))
}

// forge: one forged transaction made from a FRESH honest one (so its hash collides with nothing
// honest in the batch), of a kind that is invalid by construction.
func (g gen) forge(k *ecdsa.PrivateKey, c chainCfg, height uint64, kind int) elem {
	cid := refChainIdStr(c, height)
	chain := refEthChain(c, height)
	switch kind % 7 {
	case 0:
		t := g.honestNative(k, cid)
		t.Data = t.Data + "9" // content changed after hashing/signing
		return elem{t, false, "native-data-changed"}
	case 1:
		t := g.honestNative(k, cid)
		t.Nonce++
		return elem{t, false, "native-nonce-changed"}
	case 2:
		t := g.honestNative(k, cid)
		t.Sign = malleate(t.Sign)
		return elem{t, false, "native-signature-twin"}
	case 3:
		t := g.honestNative(k, cid+"7")
		return elem{t, false, "native-foreign-chain"}
	case 4:
		t := g.honestNative(k, cid)
		t.Source = "0x0000000000000000000000000000000000000000" // someone else's address, hash restated
		t.Hash = common.BytesToHash(refSha256(harnessSer(t)))
		return elem{t, false, "native-foreign-source"}
	case 5:
		w, _ := independentWrap(signedEth(g, k, chain), k, chain)
		w.Nonce += 3
		return elem{w, false, "eth-declared-nonce-changed"}
	default:
		uc := unsignedCases(g, signedEth(g, k, chain), k, chain)
		return elem{uc[1].tx, false, "eth-unsigned-zero-source"} // r0s0 / zero address
	}
}

func (g gen) honestElem(k *ecdsa.PrivateKey, c chainCfg, height uint64, eth bool) elem {
	if eth {
		chain := refEthChain(c, height)
		w, _ := independentWrap(signedEth(g, k, chain), k, chain)
		return elem{w, true, "eth-honest"}
	}
	return elem{g.honestNative(k, refChainIdStr(c, height)), true, "native-honest"}
}

type admitReport struct {
	Batches, Sequences, Elements, Honest, Forged int
	ByEntry                           map[string]int
	Viols                             []violation
	seen                              map[string]bool
}

func (r *admitReport) viol(key, desc string, replay map[string]string) {
	if r.seen[key] {
		return
	}
	r.seen[key] = true
	v := violation{Key: key, Desc: desc, Replay: replay}
	r.Viols = append(r.Viols, v)
	b, _ := json.Marshal(v)
	fmt.Println("VIOL " + string(b))
	os.Stdout.Sync()
}

// driveEntry pushes the transactions through one real admission entry point.
func driveEntry(entry string, txs []*types.Transaction) (string, []byte) {
	var body []byte
	res := hx.Guard(func() string {
		switch entry {
		case "worker":
			b, err := types.MarshalTransactions(txs)
			if err != nil {
				return "marshal-error"
			}
			body = b
			if err := network.VerifC07HandleTransactionGot(b, "7"); err != nil {
				return "handler-error"
			}
		case "write":
			for _, t := range txs {
				core.VerifC07GameExecutorAdmit(*t, false)
			}
		case "runwrite":
			for _, t := range txs {
				core.VerifC07GameExecutorAdmit(*t, true)
			}
		}
		return "done"
	})
	return res, body
}

// batchOp: one `batch` op of the correspondence stream — the real handler on an empty pool, then
// per position whether that element (first occurrence of its content) is in the pool.
func (rn *runner) batchOp(tag, entry string, c chainCfg, height uint64, batch []*types.Transaction) string {
	return rn.batchOpPre(tag, entry, c, height, nil, batch)
}

// batchOpPre: `pre` transactions are put into the pool directly (TxPool.AddTransaction, no
// verification — they stand for what is already there), then the handler gets `batch`.
func (rn *runner) batchOpPre(tag, entry string, c chainCfg, height uint64, pre, batch []*types.Transaction) string {
	if len(pre) > 0 {
		entry = entry + "+" + strconv.Itoa(len(pre))
	}
	all := append(append([]*types.Transaction{}, pre...), batch...)
	c.apply()
	o := newOracle()
	line := "batch " + entry + " " + strconv.FormatUint(height, 10) + " " + c.tokens() + " " + strconv.Itoa(len(all))
	for _, t := range all {
		if t.Type == types.TransactionTypeETHTX {
			ethOracle(o, common.FromHex(t.ExtraData), refEthChain(c, height))
		} else {
			nativeOracle(o, t)
		}
		line += " " + txTokens(t)
	}
	line += o.String()
	r := rn.out.Do(line, func() string {
		common.SetBlockHeight(height)
		middleware.AccountDBManagerInstance.Height = height
		rn.pool.Clear()
		for _, t := range pre {
			rn.pool.AddTransaction(cloneTx(t))
		}
		before := len(rn.pool.GetReceived())
		txs := make([]*types.Transaction, len(batch))
		for i, t := range batch {
			txs[i] = cloneTx(t)
		}
		base := entry
		if i := strings.IndexByte(entry, '+'); i >= 0 {
			base = entry[:i]
		}
		if res, _ := driveEntry(base, txs); res != "done" {
			return res
		}
		got := rn.pool.GetReceived()
		if len(got) < before {
			return "pool-shrunk"
		}
		got = got[0:len(got)]
		flags := make([]byte, len(batch))
		for i, t := range batch {
			flags[i] = '0'
			first := true
			for j := 0; j < i; j++ {
				if sameContent(batch[j], t) {
					first = false
				}
			}
			for _, q := range pre {
				if sameContent(q, t) {
					first = false // it was there before the handler ran
				}
			}
			if first {
				for _, p := range got {
					if sameContent(p, t) {
						flags[i] = '1'
					}
				}
			}
		}
		rn.pool.Clear()
		return string(flags)
	})
	rn.tags[tag]++
	rn.res[tag+"/"+r]++
	return r
}

func runBatch(entry string, pool service.TransactionPool, c chainCfg, height uint64, batch []elem, rep *admitReport) {
	runSequence(entry, pool, c, height, [][]elem{batch}, rep)
}

// runSequence delivers several batches one after the other through ONE handler in ONE process (the
// pool is emptied only before the first), then checks by construction: every honestly signed element is
// in the pool (admitted now or already present), no forged content is.
func runSequence(entry string, pool service.TransactionPool, c chainCfg, height uint64, batches [][]elem, rep *admitReport) {
	c.apply()
	common.SetBlockHeight(height)
	middleware.AccountDBManagerInstance.Height = height
	pool.Clear()
	labels, bodies, res := "", "", "done"
	var all []elem
	for bi, batch := range batches {
		txs := make([]*types.Transaction, len(batch))
		for i, e := range batch {
			txs[i] = cloneTx(e.tx)
		}
		r, body := driveEntry(entry, txs)
		if r != "done" {
			res = r
		}
		if bi > 0 {
			labels += " | "
			bodies += "|"
		}
		for i, e := range batch {
			if i > 0 {
				labels += ","
			}
			labels += e.kind
		}
		bodies += hx.Hex(body)
		all = append(all, batch...)
	}
	got := pool.GetReceived()
	rep.Batches += len(batches)
	rep.ByEntry[entry] += len(batches)
	if len(batches) > 1 {
		rep.Sequences++
	}
	replay := func(i int) map[string]string {
		return map[string]string{"entry": entry, "height": strconv.FormatUint(height, 10), "config": c.tokens(),
			"batches_labels": labels, "element_index": strconv.Itoa(i), "batches": strconv.Itoa(len(batches)),
			"element": "vt " + strconv.FormatUint(height, 10) + " " + c.tokens() + " " + txTokens(all[i].tx),
			"batches_hex": bodies, "handler": res,
			"how": "harness/bin/c07 mode=admit (same VERIF_SEED) re-delivers the batches in this order through the real handler"}
	}
	if len(res) >= 5 && res[:5] == "PANIC" {
		rep.viol("admission-handler-panic", "the "+entry+" admission handler panicked: "+res, replay(0))
	}
	kindKey := "batch"
	if len(batches) > 1 {
		kindKey = "sequence"
	}
	for i, e := range all {
		rep.Elements++
		in := false
		for _, p := range got {
			if sameContent(p, e.tx) {
				in = true
			}
		}
		if e.honest {
			rep.Honest++
			if !in {
				rep.viol(kindKey+"-honest-dropped:"+entry, fmt.Sprintf("an honestly signed transaction (%s, element %d; delivered: %s) did not reach the pool through %s — what was delivered before it must not matter", e.kind, i, labels, entry), replay(i))
			}
		} else {
			rep.Forged++
			if in {
				rep.viol(kindKey+"-forged-admitted:"+entry, fmt.Sprintf("a forged transaction (%s, element %d; delivered: %s) reached the pool through %s although it is not authentic", e.kind, i, labels, entry), replay(i))
			}
		}
	}
}

// sameHashForgeries: tampered copies of an honest transaction that KEEP its Hash field (what a peer
// relaying a modified copy, or junk carrying a known hash, looks like).
func sameHashForgeries(g gen, h *types.Transaction) []elem {
	var out []elem
	add := func(kind string, f func(t *types.Transaction)) {
		t := cloneTx(h)
		f(t)
		out = append(out, elem{t, false, kind})
	}
	if h.Type == types.TransactionTypeETHTX {
		add("same-hash:eth-nonce-changed", func(t *types.Transaction) { t.Nonce += 1 })
		add("same-hash:eth-source-zero", func(t *types.Transaction) { t.Source = "0x0000000000000000000000000000000000000000" })
		add("same-hash:eth-data-changed", func(t *types.Transaction) { t.Data = t.Data + " " })
		add("same-hash:eth-payload-bit", func(t *types.Transaction) {
			b := []byte(t.ExtraData)
			if b[len(b)-1] == '0' {
				b[len(b)-1] = '1'
			} else {
				b[len(b)-1] = '0'
			}
			t.ExtraData = string(b)
		})
	} else {
		add("same-hash:data-changed", func(t *types.Transaction) { t.Data = t.Data + "9" })
		add("same-hash:nonce-changed", func(t *types.Transaction) { t.Nonce++ })
		add("same-hash:target-changed", func(t *types.Transaction) { t.Target = t.Target + "0" })
		add("same-hash:signature-twin", func(t *types.Transaction) { t.Sign = malleate(t.Sign) })
		add("same-hash:signature-bit", func(t *types.Transaction) { t.Sign = flipSign(t.Sign, g.r.Intn(512)) })
		add("same-hash:source-zero", func(t *types.Transaction) { t.Source = "0x0000000000000000000000000000000000000000" })
	}
	// junk that carries nothing but the hash
	out = append(out, elem{&types.Transaction{Hash: h.Hash, Type: h.Type, Source: "0x" + hx.Hex(g.r.Bytes(20)), ChainId: h.ChainId,
		Sign: common.BytesToSign(g.r.Bytes(65)), ExtraData: "0x"}, false, "same-hash:junk"})
	return out
}

// sequenceFamily: deliveries that differ only in ORDER and GROUPING around one honest transaction and
// tampered copies carrying its hash — same batch and separate batches, forged first, honest first,
// honest twice, several forged ones — through one handler in one process.
func sequenceFamily(g gen, kp *keyPool, entry string, pool service.TransactionPool, c chainCfg, height uint64, eth bool, rep *admitReport) {
	k := g.keyFrom(kp)
	h := g.honestElem(k, c, height, eth)
	fs := sameHashForgeries(g, h.tx)
	for i, f := range fs {
		if len(fs) > 4 && i%2 == 1 && g.r.Bool() { // every kind over the rounds, not all orders for each
			continue
		}
		h1 := g.honestElem(g.keyFrom(kp), c, height, !eth) // an unrelated honest bystander
		runSequence(entry, pool, c, height, [][]elem{{f, h}}, rep)
		runSequence(entry, pool, c, height, [][]elem{{h, f}}, rep)
		runSequence(entry, pool, c, height, [][]elem{{f}, {h}}, rep)
		runSequence(entry, pool, c, height, [][]elem{{h}, {f}, {h}}, rep)
		runSequence(entry, pool, c, height, [][]elem{{f, h1}, {h1, h}, {f}}, rep)
	}
	runSequence(entry, pool, c, height, [][]elem{{h, h}}, rep)
	runSequence(entry, pool, c, height, [][]elem{{h}, {h}}, rep)
	if len(fs) >= 3 {
		runSequence(entry, pool, c, height, [][]elem{{fs[0], fs[1]}, {fs[2]}, {h}}, rep)
		runSequence(entry, pool, c, height, [][]elem{{fs[len(fs)-1]}, {fs[0], h}}, rep)
	}
}

func admissionMode(a map[string]string, pool service.TransactionPool) {
	g := gen{hx.NewRng(hx.SeedFromEnv() ^ 0xad317)}
	kp := newKeyPool(g.r.Fork())
	rep := &admitReport{ByEntry: map[string]int{}, seen: map[string]bool{}}
	rounds := hx.ArgInt(a, "n", 2)
	cfgsUsed := []chainCfg{cfgs[0], cfgs[1], cfgs[2]}
	key := func() *ecdsa.PrivateKey { return g.keyFrom(kp) }
	for round := 0; round < rounds; round++ {
		for ci, c := range cfgsUsed {
			heights := []uint64{c.p001 + 1}
			if c.p001 > 0 {
				heights = []uint64{c.p001 - 1, c.p001, c.p001 + 1}
			}
			for _, height := range heights {
				for _, entry := range []string{"worker", "write", "runwrite"} {
					// process-local history first: order/grouping of an honest transaction and tampered
					// copies carrying its hash (native and wrapped ETH)
					sequenceFamily(g, kp, entry, pool, c, height, false, rep)
					sequenceFamily(g, kp, entry, pool, c, height, true, rep)
					// deterministic small scope: sizes 1..4, the forged element at every position,
					// every forged kind once per (entry, height); then mixed larger batches
					kind := 0
					for size := 1; size <= 4; size++ {
						for pos := 0; pos < size; pos++ {
							var b []elem
							for i := 0; i < size; i++ {
								if i == pos {
									b = append(b, g.forge(key(), c, height, kind))
									kind++
								} else {
									b = append(b, g.honestElem(key(), c, height, (i+ci)%2 == 1))
								}
							}
							runBatch(entry, pool, c, height, b, rep)
						}
					}
					for _, size := range []int{1, 2, 8, 33} {
						var b []elem // all honest
						for i := 0; i < size; i++ {
							b = append(b, g.honestElem(key(), c, height, i%3 == 1))
						}
						runBatch(entry, pool, c, height, b, rep)
					}
					for m := 0; m < 3; m++ {
						size := 5 + g.r.Intn(12)
						var b []elem
						for i := 0; i < size; i++ {
							if g.r.Chance(1, 3) {
								b = append(b, g.forge(key(), c, height, g.r.Intn(7)))
							} else {
								b = append(b, g.honestElem(key(), c, height, g.r.Bool()))
							}
						}
						// a forged first element followed by honest ones, and an honest last element
						b[0] = g.forge(key(), c, height, m)
						b[len(b)-1] = g.honestElem(key(), c, height, m%2 == 0)
						runBatch(entry, pool, c, height, b, rep)
					}
				}
			}
		}
	}
	pool.Clear()
	for class, w := range refDisagree {
		rep.viol("reference-disagrees:"+class, "the code under test disagrees with an independent reference ("+class+"): "+w, map[string]string{"witness": w})
	}
	out := map[string]interface{}{"sequences": rep.Sequences, "batches": rep.Batches, "elements": rep.Elements, "honest": rep.Honest, "forged": rep.Forged,
		"by_entry": rep.ByEntry, "violations": rep.Viols}
	b, _ := json.Marshal(out)
	fmt.Println("ADMIT " + string(b))
}
