package main

// Boundary-biased key material and the independent reference for the address of a
// public key.  Everything derives from the run's Rng, so a run replays exactly.

import (
	"crypto/ecdsa"
	"math/big"

	"com.tuntun.rangers/node/src/common"
	crypto "com.tuntun.rangers/node/src/eth_crypto"
	"com.tuntun.rangers/node/src/middleware/types"
	"golang.org/x/crypto/sha3"
	"verif/harness/hx"
)

// refKeccak is Keccak-256 from golang.org/x/crypto, not the node's own copy.
func refKeccak(b []byte) []byte {
	h := sha3.NewLegacyKeccak256()
	h.Write(b)
	return h.Sum(nil)
}

// refAddress: the address of a public key by definition — the last 20 bytes of
// Keccak-256(X ‖ Y) with both coordinates as 32-byte big-endian integers.
func refAddress(pub *ecdsa.PublicKey) string {
	buf := append(pad32(pub.X.Bytes()), pad32(pub.Y.Bytes())...)
	return "0x" + hx.Hex(refKeccak(buf)[12:])
}

// unpaddedAddress: what a digest over the *minimal* coordinate bytes would give (differs
// from refAddress exactly for keys with a short coordinate).
func unpaddedAddress(pub *ecdsa.PublicKey) string {
	buf := append(append([]byte{}, pub.X.Bytes()...), pub.Y.Bytes()...)
	return "0x" + hx.Hex(refKeccak(buf)[12:])
}

func shortCoord(pub *ecdsa.PublicKey) int {
	n := 0
	if l := len(pub.X.Bytes()); l < 32 {
		n += 32 - l
	}
	if l := len(pub.Y.Bytes()); l < 32 {
		n += 32 - l
	}
	return n
}

func keyFromInt(d *big.Int) *ecdsa.PrivateKey {
	k, err := crypto.ToECDSA(pad32(d.Bytes()))
	if err != nil {
		return nil
	}
	return k
}

type keyPool struct {
	short []*ecdsa.PrivateKey // public X or Y has leading zero byte(s)
	small []*ecdsa.PrivateKey // small private scalars (short D bytes)
	stats map[string]int
}

// newKeyPool: all private keys 1..600 with a short public coordinate, a few small scalars,
// and random keys searched for a short X, a short Y and (bounded effort) two leading zero bytes.
func newKeyPool(r *hx.Rng) *keyPool {
	p := &keyPool{stats: map[string]int{}}
	for d := int64(1); d <= 600; d++ {
		k := keyFromInt(big.NewInt(d))
		if k == nil {
			continue
		}
		if shortCoord(&k.PublicKey) > 0 {
			p.short = append(p.short, k)
			p.stats["small-scalar-short-coordinate"]++
		} else if d <= 3 || d == 600 || d == 256 {
			p.small = append(p.small, k)
		}
	}
	needX, needY, need2, needA := 3, 3, 1, 2
	for tries := 0; tries < 12000 && (needX > 0 || needY > 0 || need2 > 0 || needA > 0); tries++ {
		k, err := crypto.ToECDSA(r.Bytes(32))
		if err != nil {
			continue
		}
		lx, ly := len(k.PublicKey.X.Bytes()), len(k.PublicKey.Y.Bytes())
		switch {
		case needA > 0 && refAddress(&k.PublicKey)[:4] == "0x00":
			needA--
			p.small = append(p.small, k)
			p.stats["random-address-leading-zero"]++
		case (lx <= 30 || ly <= 30) && need2 > 0:
			need2--
			p.short = append(p.short, k)
			p.stats["random-two-zero-bytes"]++
		case lx < 32 && needX > 0:
			needX--
			p.short = append(p.short, k)
			p.stats["random-short-x"]++
		case ly < 32 && needY > 0:
			needY--
			p.short = append(p.short, k)
			p.stats["random-short-y"]++
		}
	}
	return p
}

func (p *keyPool) all() []*ecdsa.PrivateKey { return append(append([]*ecdsa.PrivateKey{}, p.short...), p.small...) }

// pick: half of the time a boundary key, else a fresh random one.
func (g gen) keyFrom(p *keyPool) *ecdsa.PrivateKey {
	if p != nil && len(p.short) > 0 && g.r.Chance(1, 2) {
		if g.r.Chance(1, 5) && len(p.small) > 0 {
			return p.small[g.r.Intn(len(p.small))]
		}
		return p.short[g.r.Intn(len(p.short))]
	}
	return g.key()
}

// honestNativeClass re-draws the nonce until the honest transaction falls into a
// serialisation padding class: hash with a leading zero byte, signature r or s short.
func (g gen) honestNativeClass(k *ecdsa.PrivateKey, chainId, class string) *types.Transaction {
	for tries := 0; tries < 4000; tries++ {
		tx := g.honestNativeRaw(k, chainId)
		sb := tx.Sign.Bytes()
		hit := false
		switch class {
		case "hash0":
			hit = tx.Hash[0] == 0
		case "short-r":
			hit = sb[0] == 0
		case "short-s":
			hit = sb[32] == 0
		}
		if hit {
			validateHonestNative(k, tx)
			return tx
		}
	}
	return nil
}

// wrongAddressTx: the same honest construction but declaring the address of the unpadded
// digest as Source (hash and signature made for that content). Must be rejected.
func (g gen) wrongAddressTx(k *ecdsa.PrivateKey, chainId string) *types.Transaction {
	if shortCoord(&k.PublicKey) == 0 {
		return nil
	}
	tx := g.honestNative(k, chainId)
	tx.Source = unpaddedAddress(&k.PublicKey)
	tx.Hash = common.BytesToHash(refSha256(harnessSer(tx)))
	nk := common.PrivateKey{PrivKey: *k}
	s := nk.Sign(tx.Hash.Bytes())
	tx.Sign = &s
	return tx
}

func pubBytes(pub *ecdsa.PublicKey) []byte {
	return append([]byte{4}, append(pad32(pub.X.Bytes()), pad32(pub.Y.Bytes())...)...)
}
