// Package hx holds what every correspondence harness shares: the single PRNG
// all random choices derive from, the line-protocol writer, hex helpers and a
// panic guard. Nothing here touches go-rangers.
package hx

import (
	"bufio"
	"encoding/hex"
	"fmt"
	"os"
	"runtime/debug"
	"strconv"
	"strings"
)

// Rng is splitmix64; every random choice of a run derives from one state
// seeded by VERIF_SEED so a disagreement replays exactly.
type Rng struct{ s uint64 }

func NewRng(seed uint64) *Rng { return &Rng{s: seed} }

func SeedFromEnv() uint64 {
	v := os.Getenv("VERIF_SEED")
	if v == "" {
		return 1
	}
	n, err := strconv.ParseUint(v, 10, 64)
	if err != nil {
		// accept negative / large ints by hashing the text
		var h uint64 = 1469598103934665603
		for _, c := range []byte(v) {
			h = (h ^ uint64(c)) * 1099511628211
		}
		return h
	}
	return n
}

func (r *Rng) U64() uint64 {
	r.s += 0x9e3779b97f4a7c15
	z := r.s
	z = (z ^ (z >> 30)) * 0xbf58476d1ce4e5b9
	z = (z ^ (z >> 27)) * 0x94d049bb133111eb
	return z ^ (z >> 31)
}

// Intn returns a value in [0,n).
func (r *Rng) Intn(n int) int {
	if n <= 0 {
		return 0
	}
	return int(r.U64() % uint64(n))
}

func (r *Rng) Bool() bool { return r.U64()&1 == 1 }

// Chance is true with probability num/den.
func (r *Rng) Chance(num, den int) bool { return r.Intn(den) < num }

func (r *Rng) Bytes(n int) []byte {
	b := make([]byte, n)
	for i := range b {
		b[i] = byte(r.U64())
	}
	return b
}

// Pick returns one of the given ints.
func (r *Rng) Pick(xs ...int) int { return xs[r.Intn(len(xs))] }

// Fork derives an independent stream (for sub-generators) without disturbing order-sensitivity.
func (r *Rng) Fork() *Rng { return &Rng{s: r.U64()} }

// Hex renders bytes the way the line protocol wants them ("-" for empty).
func Hex(b []byte) string {
	if len(b) == 0 {
		return "-"
	}
	return hex.EncodeToString(b)
}

func UnHex(s string) ([]byte, error) {
	if s == "-" {
		return []byte{}, nil
	}
	return hex.DecodeString(s)
}

// Out writes "ops" (what the model driver reads) and "obs" (what the
// implementation answered) to two files, one line per op, flushed per line so
// a crash loses nothing.
type Out struct {
	ops, obs *bufio.Writer
	fo, fb   *os.File
	N        int
	cur      string
	Kinds    map[string]int // op kind -> count
	Results  map[string]int // result class -> count
}

func NewOut(opsPath, obsPath string) (*Out, error) {
	fo, err := os.Create(opsPath)
	if err != nil {
		return nil, err
	}
	fb, err := os.Create(obsPath)
	if err != nil {
		return nil, err
	}
	return &Out{ops: bufio.NewWriter(fo), obs: bufio.NewWriter(fb), fo: fo, fb: fb, cur: opsPath + ".cur",
		Kinds: map[string]int{}, Results: map[string]int{}}, nil
}

// Emit records one op line and the implementation's answer to it.
func (o *Out) Emit(op string, res string) {
	if strings.ContainsAny(op, "\n\r") || strings.ContainsAny(res, "\n\r") {
		panic("hx: newline in protocol line")
	}
	o.ops.WriteString(op)
	o.ops.WriteByte('\n')
	o.obs.WriteString(res)
	o.obs.WriteByte('\n')
	o.ops.Flush()
	o.obs.Flush()
	o.N++
	k := op
	if i := strings.IndexByte(op, ' '); i >= 0 {
		k = op[:i]
	}
	o.Kinds[k]++
	c := res
	if i := strings.IndexByte(res, ' '); i >= 0 {
		c = res[:i]
	}
	if len(c) > 24 {
		c = c[:24]
	}
	if _, ok := o.Results[c]; !ok && len(o.Results) >= 40 {
		c = "(other)"
	}
	o.Results[c]++
}

// Do announces the op (so a hard crash names it), runs f under Guard and emits.
func (o *Out) Do(op string, f func() string) string {
	if o.cur != "" {
		_ = os.WriteFile(o.cur, []byte(op+"\n"), 0644)
	}
	res := Guard(f)
	o.Emit(op, res)
	return res
}

func (o *Out) Close() {
	o.ops.Flush()
	o.obs.Flush()
	o.fo.Close()
	o.fb.Close()
}

// Guard runs f and turns a panic into the protocol answer "PANIC <first line>".
func Guard(f func() string) (res string) {
	defer func() {
		if r := recover(); r != nil {
			msg := fmt.Sprint(r)
			if i := strings.IndexByte(msg, '\n'); i >= 0 {
				msg = msg[:i]
			}
			_ = debug.Stack
			res = "PANIC " + strings.ReplaceAll(msg, " ", "_")
		}
	}()
	return f()
}

// Args parses "key=value" command-line arguments.
func Args() map[string]string {
	m := map[string]string{}
	for _, a := range os.Args[1:] {
		if i := strings.IndexByte(a, '='); i > 0 {
			m[a[:i]] = a[i+1:]
		} else {
			m[a] = "1"
		}
	}
	return m
}

func ArgInt(m map[string]string, k string, def int) int {
	if v, ok := m[k]; ok {
		n, err := strconv.Atoi(v)
		if err == nil {
			return n
		}
	}
	return def
}

// Stats prints the input distribution as one JSON-ish line on stderr-free stdout channel "STATS".
func (o *Out) StatsJSON() string {
	var sb strings.Builder
	sb.WriteString("{\"ops\":")
	sb.WriteString(strconv.Itoa(o.N))
	sb.WriteString(",\"kinds\":{")
	first := true
	for _, k := range sortedKeys(o.Kinds) {
		if !first {
			sb.WriteByte(',')
		}
		first = false
		sb.WriteString(strconv.Quote(k) + ":" + strconv.Itoa(o.Kinds[k]))
	}
	sb.WriteString("},\"results\":{")
	first = true
	for _, k := range sortedKeys(o.Results) {
		if !first {
			sb.WriteByte(',')
		}
		first = false
		sb.WriteString(strconv.Quote(k) + ":" + strconv.Itoa(o.Results[k]))
	}
	sb.WriteString("}}")
	return sb.String()
}

func sortedKeys(m map[string]int) []string {
	ks := make([]string, 0, len(m))
	for k := range m {
		ks = append(ks, k)
	}
	for i := 1; i < len(ks); i++ {
		for j := i; j > 0 && ks[j] < ks[j-1]; j-- {
			ks[j], ks[j-1] = ks[j-1], ks[j]
		}
	}
	return ks
}
