module verif/harness

go 1.13

require (
	com.tuntun.rangers/node v0.0.0
	github.com/gogo/protobuf v1.3.1
	github.com/holiman/uint256 v1.1.1
	github.com/mattn/go-sqlite3 v1.10.0
	golang.org/x/crypto v0.0.0-20210711020723-a769d52b0f97
)

replace com.tuntun.rangers/node => /repo
