#!/usr/bin/env python3
import subprocess, os, sys, json, re, time
R='/work/r-c14'; V='/work/v-c14'
G='src/consensus/groupsig/'
MUTS = [
 ('M1 VerifySig drops the on-curve check', G+'sig.go', 'if sig.IsNil() || !sig.IsValid() {', 'if sig.IsNil() {'),
 ('M2 G1.Unmarshal skips IsOnCurve', G+'bn256/bn256.go', '''		e.p.z = *newGFp(1)
		e.p.t = *newGFp(1)

		if !e.p.IsOnCurve() {
			return nil, errors.New("bn256: malformed point")
		}''', '''		e.p.z = *newGFp(1)
		e.p.t = *newGFp(1)'''),
 ('M3 VerifySig hashes only the first 32 bytes of the message', G+'sig.go', '''	Hm := hashToG1(string(msg))
	p2 := bn_curve.Pair(Hm, &pub.value)''', '''	hmsg := msg
	if len(hmsg) > 32 {
		hmsg = hmsg[:32]
	}
	Hm := hashToG1(string(hmsg))
	p2 := bn_curve.Pair(Hm, &pub.value)'''),
 ('M4 ID.Serialize pads on the right', G+'id.go', 'copy(buff[ID_LENGTH-len(idBytes):ID_LENGTH], idBytes)', 'copy(buff[:len(idBytes)], idBytes)'),
 ('M5 VerifySig drops the public-key nil guard', G+'sig.go', '''	if !pub.IsValid() {
		return false
	}
''', ''),
 ('M6 VerifySig accepts the negated signature too (compares up to conjugation)', G+'sig.go', '	return bn_curve.PairIsEuqal(p1, p2)', '	return bn_curve.PairIsEuqal(p1, p2) || bn_curve.PairIsEuqal(new(bn_curve.GT).Neg(p1), p2)'),
 ('M7 G1.Unmarshal zero test uses || (a zero coordinate means infinity)', G+'bn256/bn256.go', 'if e.p.x == zero && e.p.y == zero {', 'if e.p.x == zero || e.p.y == zero {'),
 ('M8 Seckey.Deserialize reduces nothing but drops the last byte when longer than 32', G+'seckey.go', '	return sec.value.deserialize(b)', '	if len(b) > 32 {\n\t\tb = b[:32]\n\t}\n\treturn sec.value.deserialize(b)'),
 ('M9 G2.Marshal writes y.y before y.x', G+'bn256/bn256.go', '''	montDecode(temp, &e.p.y.x)
	temp.Marshal(ret[2*numBytes:])
	montDecode(temp, &e.p.y.y)
	temp.Marshal(ret[3*numBytes:])

	return ret
}

// Unmarshal sets e to the result of converting the output of Marshal back into
// a group element and then returns e.
func (e *G2) Unmarshal''', '''	montDecode(temp, &e.p.y.y)
	temp.Marshal(ret[2*numBytes:])
	montDecode(temp, &e.p.y.x)
	temp.Marshal(ret[3*numBytes:])

	return ret
}

// Unmarshal sets e to the result of converting the output of Marshal back into
// a group element and then returns e.
func (e *G2) Unmarshal'''),
 ('M10 curvePoint.Add loses its doubling exit (P + P computed by the chord formula)', G+'bn256/curve.go', '''	if xEqual && yEqual {
		c.Double(a)
		return
	}
	r := &gfP{}''', '''	_, _ = xEqual, yEqual
	r := &gfP{}'''),
 ('M11 AggregatePubkeys skips the second key', G+'pubkey.go', '''	for i := 1; i < len(pubs); i++ {
		pub.add(&pubs[i])''', '''	for i := 2; i < len(pubs); i++ {
		pub.add(&pubs[i])'''),
 ('M12 finalExponentiation forgets to conjugate y4', G+'bn256/optate.go', '''	y4 := (&gfP12{}).Mul(fu, fu2p)
	y4.Conjugate(y4)
''', '''	y4 := (&gfP12{}).Mul(fu, fu2p)
'''),
 ('M13 gfP6.Mul: tx adds v2 instead of subtracting it', G+'bn256/gfp6.go', '	tx.Sub(tx, v0).Add(tx, v1).Sub(tx, v2)', '	tx.Sub(tx, v0).Add(tx, v1).Add(tx, v2)'),
 ('M14 miller skips the -Q2 correction line', G+'bn256/optate.go', '''	r2.Square(&minusQ2.y)
	a, b, c, newR = lineFunctionAdd(r, minusQ2, bAffine, r2)
	mulLine(ret, a, b, c)
	r = newR
''', '''	_ = minusQ2
'''),
 ('H1 harmless: rename local bQ and swap two independent statements in VerifySig', G+'sig.go', '''	bQ := bn_curve.GetG2Base()
	p1 := bn_curve.Pair(&sig.value, bQ)

	Hm := hashToG1(string(msg))
	p2 := bn_curve.Pair(Hm, &pub.value)''', '''	Hm := hashToG1(string(msg))
	base := bn_curve.GetG2Base()
	p2 := bn_curve.Pair(Hm, &pub.value)
	p1 := bn_curve.Pair(&sig.value, base)'''),
 ('H2 harmless: rename local zero in G1.Unmarshal, swap the two nil guards of VerifySig', G+'bn256/bn256.go', '''	zero := gfP{0}
	if e.p.x == zero && e.p.y == zero {
		// This is the point at infinity.
		e.p.y = *newGFp(1)
		e.p.z = gfP{0}
		e.p.t = gfP{0}
	} else {
		e.p.z = *newGFp(1)
		e.p.t = *newGFp(1)

		if !e.p.IsOnCurve() {''', '''	nought := gfP{0}
	if e.p.x == nought && e.p.y == nought {
		// This is the point at infinity.
		e.p.y = *newGFp(1)
		e.p.z = gfP{0}
		e.p.t = gfP{0}
	} else {
		e.p.t = *newGFp(1)
		e.p.z = *newGFp(1)

		if !e.p.IsOnCurve() {'''),
]
sel = sys.argv[1:] 
res=[]
for name, f, old, new in MUTS:
    if sel and name.split()[0] not in sel: continue
    p=os.path.join(R,f); s=open(p).read()
    if s.count(old)!=1:
        print('PATTERN PROBLEM', name, s.count(old)); continue
    open(p,'w').write(s.replace(old,new))
    b=subprocess.run(['go','build','./src/consensus/groupsig/...'],cwd=R,env=dict(os.environ,GOFLAGS='-mod=mod',GOPROXY='off',GOSUMDB='off',GOTOOLCHAIN='local'),capture_output=True,text=True)
    if b.returncode!=0:
        print('DOES NOT COMPILE', name, b.stderr[-400:]); subprocess.run(['git','checkout','--','.'],cwd=R); continue
    t=time.time()
    r=subprocess.run([V+'/bin/check','C14','quick'],cwd=V,env=dict(os.environ,VERIF_REPO=R),capture_output=True,text=True)
    dt=time.time()-t
    lines=[l for l in r.stdout.split('\n') if l.startswith('VIOLATION') or 'prove:' in l or 'correspond' in l or 'gen:' in l or 'search:' in l]
    detail=''
    m=re.search(r'replay=(\S+)', r.stdout)
    if m:
        j=json.load(open(m.group(1)))
        if j.get('kind')=='property-violation':
            detail='key=%s class=%s'%(j.get('key'), (j.get('replay') or {}).get('class'))
        else:
            br=j.get('broken',[])
            detail='; '.join('%s'%(b[0]) + (':'+str(b[1].get('first',[{}])[0].get('op','')[:60])+' impl='+str(b[1].get('first',[{}])[0].get('impl',''))[:40]+' model='+str(b[1].get('first',[{}])[0].get('model',''))[:40] if b[0]=='correspondence' and b[1].get('first') else (':'+','.join(x.split('.')[-1] for x in b[1].get('failed',[])[:3]) if b[0]=='proof' else '')) for b in br)
    print('=== %s: rc=%d (%.0fs)\n    %s\n    %s' % (name, r.returncode, dt, '\n    '.join(l.strip() for l in lines), detail), flush=True)
    subprocess.run(['git','checkout','--','.'],cwd=R)
subprocess.run(['git','status','--short'],cwd=R)
