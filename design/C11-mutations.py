import subprocess, sys, os, re, json, time
R='/work/r-c11'
muts=[
 ('M1 QuadCoeffDiv 512->1024 (param.go)','src/vm/param.go','QuadCoeffDiv          uint64 = 512','QuadCoeffDiv          uint64 = 1024'),
 ('M2 maxStack check off by one (interpreter.go)','src/vm/interpreter.go','} else if sLen > operation.maxStack {','} else if sLen > operation.maxStack+1 {'),
 ('M3 callGas forwards all gas, no 63/64 (gas.go)','src/vm/gas.go','gas := availableGas - availableGas/64\n\t\t// If the bit length','gas := availableGas\n\t\t// If the bit length'),
 ('M4 depth test > -> >= in evm.Call (evm.go)','src/vm/evm.go','func (evm *EVM) Call(caller ContractRef, addr common.Address, input []byte, gas uint64, value *big.Int) (ret []byte, leftOverGas uint64, logs []*types.Log, err error) {\n\t// Fail if we\'re trying to execute above the call depth limit\n\tif evm.depth > int(CallCreateDepth) {','func (evm *EVM) Call(caller ContractRef, addr common.Address, input []byte, gas uint64, value *big.Int) (ret []byte, leftOverGas uint64, logs []*types.Log, err error) {\n\t// Fail if we\'re trying to execute above the call depth limit\n\tif evm.depth >= int(CallCreateDepth) {'),
 ('M5 JUMPDEST free (jump_table.go)','src/vm/jump_table.go','constantGas: JumpdestGas,','constantGas: 0,'),
 ('M6 memoryCall reads Back(4),Back(6) for the input window (memory_table.go)','src/vm/memory_table.go','x, overflow := calcMemSize64(stack.Back(5), stack.Back(6))\n\tif overflow {\n\t\treturn 0, true\n\t}\n\ty, overflow := calcMemSize64(stack.Back(3), stack.Back(4))','x, overflow := calcMemSize64(stack.Back(4), stack.Back(6))\n\tif overflow {\n\t\treturn 0, true\n\t}\n\ty, overflow := calcMemSize64(stack.Back(3), stack.Back(4))'),
 ('M7 stipend 2300 -> 23000 in opCall (instructions.go)','src/vm/instructions.go','\tif !value.IsZero() {\n\t\tgas += CallStipend\n\t\tbigVal = value.ToBig()\n\t}\n\n\tret, returnGas, logs, err := interpreter.evm.Call(','\tif !value.IsZero() {\n\t\tgas += 23000\n\t\tbigVal = value.ToBig()\n\t}\n\n\tret, returnGas, logs, err := interpreter.evm.Call('),
 ('M8 read-only check disabled (interpreter.go)','src/vm/interpreter.go','\t\tif in.readOnly {\n\t\t\t// If the interpreter is operating in readonly mode','\t\tif in.readOnly && false {\n\t\t\t// If the interpreter is operating in readonly mode'),
 ('M9 memory expansion not charged when Proposal026 (gas_table.go memoryGasCost)','src/vm/gas_table.go','\t\tif common.IsProposal026() {\n\t\t\treturn fee * common.GasMagnification, nil\n\t\t}\n\t\treturn fee, nil','\t\tif common.IsProposal026() {\n\t\t\treturn fee, nil\n\t\t}\n\t\treturn fee, nil'),
 ('M10 failed call keeps its gas (evm.go Call)','src/vm/evm.go','\tif err != nil {\n\t\tevm.StateDB.RevertToSnapshot(snapshot)\n\t\tif err != ErrExecutionReverted {\n\t\t\tgas = 0\n\t\t}\n\t}\n\treturn ret, gas, logs, err\n}\n\n// CallCode executes','\tif err != nil {\n\t\tevm.StateDB.RevertToSnapshot(snapshot)\n\t}\n\treturn ret, gas, logs, err\n}\n\n// CallCode executes'),
 ('M11 ecrecover precompile panics on short input (contracts.go)','src/vm/contracts.go','\tinput = utility.RightPadBytes(input, ecRecoverInputLength)\n','\t_ = utility.RightPadBytes(input, ecRecoverInputLength)\n'),
 ('M12 revert the BLOBHASH fix','src/vm/eips.go','\tindex.Clear()\n\treturn nil, nil\n}\n\n// opBlobBaseFee','\tindex.SetBytes32([]byte{})\n\treturn nil, nil\n}\n\n// opBlobBaseFee'),
 ('M13 revert the magnification fix in memoryCopierGas','src/vm/gas_table.go','\t\tif common.IsProposal026() {\n\t\t\tif gas, overflow = utility.SafeMul(gas, common.GasMagnification); overflow {\n\t\t\t\treturn 0, ErrGasUintOverflow\n\t\t\t}\n\t\t}\n\t\treturn gas, nil\n\t}\n}\n\nvar (\n\tgasCallDataCopy','\t\tif common.IsProposal026() {\n\t\t\treturn gas * common.GasMagnification, nil\n\t\t}\n\t\treturn gas, nil\n\t}\n}\n\nvar (\n\tgasCallDataCopy'),
 ('H1 harmless: rename local sLen -> stackLen (interpreter.go)','src/vm/interpreter.go',None,None),
 ('H2 harmless: reorder independent statements in memoryGasCost','src/vm/gas_table.go','\t\tsquare := newMemSizeWords * newMemSizeWords\n\t\tlinCoef := newMemSizeWords * MemoryGas\n','\t\tlinCoef := newMemSizeWords * MemoryGas\n\t\tsquare := newMemSizeWords * newMemSizeWords\n'),
]
only=sys.argv[1:] 
for name,f,a,b in muts:
    if only and not any(name.startswith(o+' ') for o in only): continue
    p=os.path.join(R,f); s=open(p).read()
    if a is None:
        s2=s.replace('sLen','stackLen')
    else:
        assert s.count(a)==1,(name,s.count(a))
        s2=s.replace(a,b)
    open(p,'w').write(s2)
    t=time.time()
    pr=subprocess.run(['./bin/check','C11','quick'],cwd='/work/v-c11',env=dict(os.environ,VERIF_REPO=R),stdout=subprocess.PIPE,stderr=subprocess.STDOUT)
    out=pr.stdout.decode()
    keys=[l for l in out.split('\n') if 'VIOLATION' in l or 'prove:' in l or 'correspond' in l or 'gen:' in l or 'search:' in l or 'KNOWN' in l]
    print('=== %s -> exit %d (%.0fs)'%(name,pr.returncode,time.time()-t))
    for k in keys: print('    '+k[:260])
    m=re.search(r'replay=(\S+)',out)
    if m and os.path.exists(m.group(1)):
        d=json.load(open(m.group(1)))
        print('    replay:',json.dumps(d)[:600])
    subprocess.run(['git','checkout','--','.'],cwd=R)
    sys.stdout.flush()
