#!/usr/bin/env python3
"""Regenerates edge.ops (hand-written edge cases for C10). Run: python3 mkcorpus.py > edge.ops"""
OPS = dict(STOP=0, ADD=1, MUL=2, SUB=3, DIV=4, SDIV=5, MOD=6, SMOD=7, ADDMOD=8, MULMOD=9, EXP=0xa, SIGNEXTEND=0xb,
           LT=0x10, GT=0x11, SLT=0x12, SGT=0x13, EQ=0x14, ISZERO=0x15, AND=0x16, OR=0x17, XOR=0x18, NOT=0x19, BYTE=0x1a,
           SHL=0x1b, SHR=0x1c, SAR=0x1d, SHA3=0x20, CALLDATALOAD=0x35, CALLDATASIZE=0x36, CALLDATACOPY=0x37, CODESIZE=0x38,
           CODECOPY=0x39, RETURNDATASIZE=0x3d, RETURNDATACOPY=0x3e, POP=0x50, MLOAD=0x51, MSTORE=0x52, MSTORE8=0x53,
           JUMP=0x56, JUMPI=0x57, PC=0x58, MSIZE=0x59, GAS=0x5a, JUMPDEST=0x5b, MCOPY=0x5e, PUSH0=0x5f, RETURN=0xf3,
           REVERT=0xfd, INVALID=0xfe)
for i in range(1, 17):
    OPS['DUP%d' % i] = 0x7f + i
    OPS['SWAP%d' % i] = 0x8f + i

def asm(*items):
    out = bytearray()
    for it in items:
        if isinstance(it, int):            # push shortest
            b = it.to_bytes(max(1, (it.bit_length() + 7) // 8), 'big')
            out.append(0x5f + len(b)); out += b
        elif isinstance(it, bytes):
            out += it
        elif isinstance(it, tuple):        # ('PUSH', n, value)
            out.append(0x5f + it[1]); out += it[2].to_bytes(it[1], 'big')
        else:
            out.append(OPS[it])
    return bytes(out)

def dump(k):
    return asm('MSIZE', *(['MSIZE', 'MSTORE'] * (k + 1)), 'MSIZE', 0, 'RETURN')

M = 2 ** 256
lines = []
def run(code, cfg=7, gas=3000000, data=b''):
    lines.append('run %d %d %s %s' % (cfg, gas, code.hex() or '-', data.hex() or '-'))

run(b'')
run(asm('STOP'))
run(asm('INVALID'))
# stack overflow by a pushing loop (1024 items then the 1025th push fails)
run(asm('JUMPDEST', 1, 0, 'JUMP'), gas=3000000, cfg=3)
run(asm('JUMPDEST', 'PC', 0, 'JUMP'), gas=100000, cfg=0)
# DUP16 / SWAP16 on a 17-deep stack of distinct values
deep = asm(*range(1, 18))
for op in ['DUP16', 'SWAP16', 'DUP1', 'SWAP1', 'DUP9', 'SWAP8']:
    run(deep + asm(op) + dump(17))
run(asm(*range(1, 16)) + asm('DUP16') + dump(2))     # underflow
run(asm(*range(1, 17)) + asm('SWAP16') + dump(2))    # underflow
# shifts at the boundaries
for sh in [0, 1, 255, 256, 257, 2 ** 64, 2 ** 64 + 1, M - 1]:
    for v in [M - 1, 2 ** 255, 2 ** 255 - 1, 1, 0]:
        for op in ['SHL', 'SHR', 'SAR']:
            run(asm(v, sh, op) + dump(1))
for k in [0, 1, 30, 31, 32, 2 ** 64 + 30, M - 1]:
    for v in [0x7f, 0x80, 0xff80, 2 ** 255, 2 ** 247, M - 1, 2 ** 248 - 1]:
        run(asm(v, k, 'SIGNEXTEND') + dump(1))
        run(asm(v, k, 'BYTE') + dump(1))
for a, b in [(2 ** 255, M - 1), (M - 1, M - 1), (2 ** 255, 1), (1, 0), (M - 1, 0), (2 ** 255, 2 ** 255), (7, M - 2), (M - 7, 2), (M - 7, M - 2), (0, 5)]:
    for op in ['SDIV', 'SMOD', 'DIV', 'MOD', 'SLT', 'SGT', 'LT', 'GT', 'EXP']:
        run(asm(b, a, op) + dump(1))
for a, b, n in [(M - 1, M - 1, M - 1), (M - 1, M - 1, 0), (M - 1, 1, 2), (M - 1, M - 1, 2 ** 255 + 1), (2 ** 255, 2 ** 255, 3), (0, 0, 0), (5, 6, 1), (M - 1, 2, M - 1)]:
    for op in ['ADDMOD', 'MULMOD']:
        run(asm(n, b, a, op) + dump(1))
run(asm(0, 0, 'EXP') + dump(1)); run(asm(M - 1, 2, 'EXP') + dump(1)); run(asm(2, M - 1, 'EXP') + dump(1)); run(asm(256, 2, 'EXP') + dump(1))
# memory
run(asm(0xaa, 32, 'MSTORE8') + dump(0))
run(asm(M - 1, 1, 'MSTORE') + dump(0))
run(asm(31, 'MLOAD') + dump(1))
run(asm(0x1122334455, 0, 'MSTORE', 40, 0, 5, 'MCOPY') + dump(0))           # forward overlap dst>src
run(asm(M - 0x1234, 0, 'MSTORE', 40, 5, 0, 'MCOPY') + dump(0))            # backward overlap
run(asm(M - 0x1234, 0, 'MSTORE', 0, 5, 0, 'MCOPY', 'MSIZE') + dump(1))    # zero length: no expansion
run(asm(M - 0x1234, 0, 'MSTORE', 32, 64, 0, 'MCOPY') + dump(0), cfg=1)     # MCOPY undefined without Proposal022
run(asm(1, 2 ** 64, 0, 'MCOPY') + dump(0))
run(asm(0, 2 ** 64 - 1, 0, 'MCOPY', 'MSIZE') + dump(1))
for n in [0, 1, 135, 136, 137, 272]:
    run(asm(0x616263, 0, 'MSTORE', n, 0, 'SHA3') + dump(1))
run(asm(0, M - 1, 'SHA3') + dump(1))
run(asm(1, M - 1, 'SHA3') + dump(1))
run(asm(32, 0x1FFFFFFFE0 - 31, 'MLOAD') + dump(1), gas=10 ** 9)
run(asm(0, 0, 0, 'RETURNDATACOPY', 'RETURNDATASIZE') + dump(1))
run(asm(1, 0, 0, 'RETURNDATACOPY') + dump(0))
run(asm(M - 1, 1, 0, 'RETURNDATACOPY') + dump(0))
run(asm(0, 2 ** 64, 0, 'RETURNDATACOPY') + dump(0))
data = bytes(range(1, 41))
for off in [0, 8, 39, 40, 41, 2 ** 64 - 1, 2 ** 64, M - 1]:
    run(asm(off, 'CALLDATALOAD') + dump(1), data=data)
    run(asm(48, off, 3, 'CALLDATACOPY') + dump(0), data=data)
    run(asm(48, off, 3, 'CODECOPY', 'CODESIZE', 'CALLDATASIZE') + dump(2), data=data)
# jumps
run(asm(4, 'JUMP', 'INVALID', 'JUMPDEST', 0xbeef) + dump(1))
run(asm(3, 'JUMP', 'JUMPDEST', 0xbeef) + dump(1))                            # lands on JUMP's own next byte? (dest 3 is JUMPDEST)
run(asm(2 ** 64 + 4, 'JUMP', 'JUMPDEST', 0xbeef) + dump(1))                  # truncation to 64 bits must not be accepted
run(asm(2 ** 255, 6, 'JUMPI', 'INVALID', 'INVALID', 'JUMPDEST', 0xbeef) + dump(1))
run(asm(0, 6, 'JUMPI', 7, 0, 'MSTORE') + dump(0))
run(asm(1, M - 1, 'JUMPI') + dump(0))
run(asm(0, M - 1, 'JUMPI') + dump(0))                                        # untaken: destination not checked
run(asm(5, 'JUMP') + bytes([0x61, 0x5b, 0x5b]) + asm(0xbeef) + dump(1))      # 0x5b inside PUSH2 data
run(asm(4, 'JUMP') + bytes([0x60, 0x5b]) + bytes([0x5b]) + asm(0xbeef) + dump(1))
run(asm(3, 'JUMP') + bytes([0x7f, 0x5b, 0x5b]))                              # into a truncated PUSH32 at the end
run(asm(2, 'JUMP', 'JUMPDEST'))                                              # JUMPDEST is the last byte
run(asm(3, 'JUMP', 'JUMPDEST'))                                              # one past the end
run(asm('PC', 'PC', 'PC') + dump(3))
for l in lines:
    print(l)
# the analysis alone
for code in ['', '5b', '605b', '605b5b', '7f' + '5b' * 10, '7f' + '5b' * 32 + '5b', '7e' + '5b' * 31 + '5b', '6f' + '00' * 15 + '605b',
             '60', '7f', '5b' * 9, '68' + '5b' * 9 + '5b5b', '67' + '5b' * 8 + '5b', '66' + '5b' * 7 + '5b', '00' * 7 + '7f' + '5b' * 40]:
    print('bitmap %s' % (code or '-'))
    n = len(code) // 2
    for d in list(range(0, n + 2)) + [2 ** 64, 2 ** 64 + 1]:
        print('valid %s %s' % (code or '-', ('%x' % d).rjust(2 * ((len('%x' % d) + 1) // 2), '0')))
