"""Shared machinery behind bin/check (see DESIGN.md section 2).

A property plugin (checks/cXX.py) declares its Lean targets and supplies
`correspond(ctx)` and `search(ctx, hints)`; everything else (gen, prove, audit,
decision, evidence, replay files, known findings) lives here so that all 20
checks behave the same way.
"""
import hashlib
import importlib.util
import json
import os
import re
import shutil
import subprocess
import sys
import time

VERIF = os.path.dirname(os.path.dirname(os.path.abspath(__file__)))
LEAN = os.path.join(VERIF, 'lean')
HARNESS = os.path.join(VERIF, 'harness')
GEN = os.path.join(VERIF, 'gen')
WORK = os.path.join(VERIF, '.work')
ALLOWED_AXIOMS = {'propext', 'Classical.choice', 'Quot.sound'}
FORBIDDEN = re.compile(r'\bsorry\b|\badmit\b|^\s*axiom\s|native_decide|bv_decide|implemented_by|\bunsafe\s|maxHeartbeats\s+0\b', re.M)

GOENV = dict(GOFLAGS='-mod=mod', GOPROXY='off', GOSUMDB='off', GOTOOLCHAIN='local',
             CGO_ENABLED='1')


def repo_dir():
    return os.environ.get('VERIF_REPO', '/repo')


class Ctx:
    def __init__(self, pid, tier, seed):
        self.pid = pid
        self.tier = tier
        self.seed = seed
        self.repo = repo_dir()
        self.work = os.path.join(WORK, pid)
        os.makedirs(self.work, exist_ok=True)
        self.t0 = time.time()
        self.log = []
        self.stage = {}

    def thorough(self):
        return self.tier == 'thorough'

    def note(self, msg):
        self.log.append(msg)
        print('[%s %6.1fs] %s' % (self.pid, time.time() - self.t0, msg), flush=True)

    def scratch(self, name='run'):
        """Fresh scratch cwd for node services (they create storage0/, logs/ in the cwd)."""
        d = os.path.join(self.work, '%s-%d' % (name, os.getpid()))
        shutil.rmtree(d, ignore_errors=True)
        os.makedirs(d)
        return d


def run(cmd, cwd=None, env=None, timeout=None, stdin=None, input_bytes=None):
    e = dict(os.environ)
    if env:
        e.update(env)
    try:
        p = subprocess.run(cmd, cwd=cwd, env=e, timeout=timeout, stdin=stdin, input=input_bytes,
                           stdout=subprocess.PIPE, stderr=subprocess.PIPE)
        return p.returncode, p.stdout.decode('utf-8', 'replace'), p.stderr.decode('utf-8', 'replace')
    except subprocess.TimeoutExpired as ex:
        out = (ex.stdout or b'').decode('utf-8', 'replace')
        err = (ex.stderr or b'').decode('utf-8', 'replace')
        return 124, out, err + '\nTIMEOUT after %ss' % timeout


# --------------------------------------------------------------------------
# Go side

def _modfile(ctx_repo, moddir):
    """go.mod replaces com.tuntun.rangers/node => /repo; for another tree build via -modfile."""
    src = os.path.join(moddir, 'go.mod')
    sumsrc = os.path.join(ctx_repo, 'go.sum')
    if os.path.exists(sumsrc):
        dst = os.path.join(moddir, 'go.sum')
        if not os.path.exists(dst) or open(dst, 'rb').read() != open(sumsrc, 'rb').read():
            shutil.copyfile(sumsrc, dst)
    if ctx_repo == '/repo':
        return []
    alt = os.path.join(WORK, 'modfiles', hashlib.sha1((moddir + ctx_repo).encode()).hexdigest()[:12])
    os.makedirs(alt, exist_ok=True)
    txt = open(src).read().replace('=> /repo', '=> ' + ctx_repo)
    open(os.path.join(alt, 'go.mod'), 'w').write(txt)
    shutil.copyfile(os.path.join(moddir, 'go.sum'), os.path.join(alt, 'go.sum'))
    return ['-modfile=' + os.path.join(alt, 'go.mod')]


def go_build(ctx, moddir, pkg, outname, tags='verif', race=False):
    """Build ./cmd/<pkg> of the harness (or gen) module against the current working tree."""
    out = os.path.join(moddir, 'bin', outname)
    os.makedirs(os.path.dirname(out), exist_ok=True)
    if os.path.exists(out):
        os.remove(out)          # never run a stale binary
    cmd = ['go', 'build'] + _modfile(ctx.repo, moddir)
    if tags:
        cmd += ['-tags', tags]
    if race:
        cmd += ['-race']
    cmd += ['-o', out, pkg]
    rc, so, se = run(cmd, cwd=moddir, env=GOENV, timeout=900)
    return (out if rc == 0 else None), (so + se)


def go_run_gen(ctx, name, args, timeout=300):
    """Build and run translator gen/cmd/<name> against ctx.repo; returns (rc, stdout, stderr)."""
    binp, log = go_build(ctx, GEN, './cmd/' + name, name, tags='verif')
    if not binp:
        return 1, '', log
    return run([binp] + args, cwd=ctx.repo, env=GOENV, timeout=timeout)


def write_if_changed(path, txt):
    os.makedirs(os.path.dirname(path), exist_ok=True)
    if os.path.exists(path) and open(path).read() == txt:
        return False
    open(path, 'w').write(txt)
    return True


# --------------------------------------------------------------------------
# Lean side

def strip_lean_comments(s):
    # remove nested block comments and line comments; keeps string literals naive (fine for our files)
    out = []
    i, depth, n = 0, 0, len(s)
    while i < n:
        if s.startswith('/-', i):
            depth += 1
            i += 2
        elif depth and s.startswith('-/', i):
            depth -= 1
            i += 2
        elif depth:
            i += 1
        elif s.startswith('--', i):
            j = s.find('\n', i)
            i = n if j < 0 else j
        else:
            out.append(s[i])
            i += 1
    return ''.join(out)


def lean_import_closure(mod):
    seen, todo = [], [mod]
    while todo:
        m = todo.pop()
        if m in seen:
            continue
        p = os.path.join(LEAN, *m.split('.')) + '.lean'
        if not os.path.exists(p):
            continue
        seen.append(m)
        for mm in re.findall(r'^\s*(?:public\s+)?import\s+(Rangers\.[\w.]+)', open(p).read(), re.M):
            todo.append(mm)
    return seen


def theorems_in(mod):
    """Names of `theorem`s in a Props module (namespace-qualified)."""
    p = os.path.join(LEAN, *mod.split('.')) + '.lean'
    src = strip_lean_comments(open(p).read())
    names, ns = [], []
    for line in src.split('\n'):
        m = re.match(r'\s*namespace\s+([\w.]+)', line)
        if m:
            ns.append(m.group(1))
            continue
        m = re.match(r'\s*end\s+([\w.]+)\s*$', line)
        if m and ns and ns[-1] == m.group(1):
            ns.pop()
            continue
        m = re.match(r'\s*(?:@\[[^\]]*\]\s*)?(?:private\s+|protected\s+)?theorem\s+([\w.\'?!]+)', line)
        if m:
            names.append('.'.join(ns + [m.group(1)]))
    return names


def lake_build(targets, timeout=3600):
    return run(['lake', 'build'] + targets, cwd=LEAN, timeout=timeout)


def prove(ctx, props_mods, extra_targets=(), leanchecker=None):
    """Build the property modules, audit axioms of every theorem in them, grep for escapes.

    Returns dict(obligations, discharged, failed=[...], theorems=[{name, axioms}], errors=[...]).
    """
    res = dict(obligations=0, discharged=0, failed=[], theorems=[], errors=[], build_s=0.0)
    subprocess.run([os.path.join(VERIF, 'bin', 'genmain')], check=False)
    t = time.time()
    all_names = []
    per_mod = {}
    for m in props_mods:
        try:
            per_mod[m] = theorems_in(m)
        except FileNotFoundError:
            per_mod[m] = []
            res['errors'].append('missing module ' + m)
        all_names += per_mod[m]
    res['obligations'] = len(all_names)
    rc, so, se = lake_build(list(props_mods) + list(extra_targets))
    res['build_s'] = round(time.time() - t, 1)
    if rc != 0:
        txt = (so + se)
        errs = [l for l in txt.split('\n') if 'error' in l.lower()][:40]
        res['errors'] += errs or [txt[-2000:]]
        # which modules did build? try them one by one so that one broken module
        # does not hide the obligations that still check
        ok_mods = []
        for m in props_mods:
            rc1, _, _ = lake_build([m])
            if rc1 == 0:
                ok_mods.append(m)
            else:
                res['failed'] += per_mod[m]
        props_ok = ok_mods
        res['build_failed'] = True
    else:
        props_ok = list(props_mods)
    # forbidden tokens
    for m in props_mods:
        for mm in lean_import_closure(m):
            p = os.path.join(LEAN, *mm.split('.')) + '.lean'
            hit = FORBIDDEN.search(strip_lean_comments(open(p).read()))
            if hit:
                res['errors'].append('forbidden token %r in %s' % (hit.group(0).strip(), mm))
                res['failed'] += [n for n in per_mod[m] if n not in res['failed']]
    # axiom audit
    for m in props_ok:
        names = [n for n in per_mod[m] if n not in res['failed']]
        if not names:
            continue
        aud = os.path.join(ctx.work, 'Audit_%s.lean' % m.replace('.', '_'))
        with open(aud, 'w') as f:
            f.write('import %s\n' % m)
            for n in names:
                f.write('#print axioms %s\n' % n)
        rc, so, se = run(['lake', 'env', 'lean', aud], cwd=LEAN, timeout=1800)
        txt = so + se
        flat = re.sub(r'\s+', ' ', txt)
        for n in names:
            m1 = re.search(r"'%s' depends on axioms: \[([^\]]*)\]" % re.escape(n), flat)
            m0 = re.search(r"'%s' does not depend on any axioms" % re.escape(n), flat)
            if m1:
                ax = [a.strip() for a in m1.group(1).split(',') if a.strip()]
            elif m0:
                ax = []
            else:
                res['failed'].append(n)
                res['errors'].append('audit: no axiom report for ' + n + ': ' + txt[-300:])
                continue
            bad = [a for a in ax if a not in ALLOWED_AXIOMS]
            res['theorems'].append(dict(name=n, axioms=ax))
            if bad:
                res['failed'].append(n)
                res['errors'].append('audit: %s depends on %s' % (n, bad))
    res['failed'] = sorted(set(res['failed']))
    res['discharged'] = res['obligations'] - len(res['failed'])
    if leanchecker:
        for m in props_ok:
            rc, so, se = run(['lake', 'env', 'leanchecker', m], cwd=LEAN, timeout=3600)
            res.setdefault('leanchecker', {})[m] = 'ok' if rc == 0 else (so + se)[-500:]
            if rc != 0:
                res['errors'].append('leanchecker failed on ' + m)
                res['failed'] = sorted(set(res['failed'] + per_mod[m]))
                res['discharged'] = res['obligations'] - len(res['failed'])
    return res


def driver_path(name):
    return os.path.join(LEAN, '.lake', 'build', 'bin', 'drv_' + name.lower())


def run_driver(name, ops_path, out_path, timeout=1800):
    """Feed op lines to the compiled Lean driver; returns (rc, stderr)."""
    d = driver_path(name)
    if not os.path.exists(d):
        rc, so, se = lake_build(['drv_' + name.lower()])
        if rc != 0:
            return 1, 'driver build failed: ' + (so + se)[-1500:]
    with open(ops_path, 'rb') as fi, open(out_path, 'wb') as fo:
        try:
            p = subprocess.run([d], stdin=fi, stdout=fo, stderr=subprocess.PIPE, timeout=timeout)
        except subprocess.TimeoutExpired:
            return 124, 'driver timeout'
    return p.returncode, p.stderr.decode('utf-8', 'replace')


def diff_streams(ops_path, impl_path, model_path, canon=None, limit=50):
    """Compare implementation and model answers line by line."""
    ops = open(ops_path, errors='replace').read().split('\n')
    a = open(impl_path, errors='replace').read().split('\n')
    b = open(model_path, errors='replace').read().split('\n')
    while ops and ops[-1] == '':
        ops.pop()
    a = a[:len(ops)] + [''] * max(0, len(ops) - len(a))
    b = b[:len(ops)] + ['<no-model-output>'] * max(0, len(ops) - len(b))
    mism, unmodelled, badop = [], 0, 0
    for i, (o, x, y) in enumerate(zip(ops, a, b)):
        if y == 'unmodelled':
            unmodelled += 1
            continue
        if y == 'bad-op':
            badop += 1
        cx, cy = (canon(o, x), canon(o, y)) if canon else (x, y)
        if cx != cy:
            if len(mism) < limit:
                mism.append(dict(index=i, op=o, impl=x, model=y))
            else:
                mism.append(None)
    n_m = len(mism)
    mism = [m for m in mism if m]
    return dict(ops=len(ops), mismatches=n_m, first=mism, unmodelled=unmodelled, bad_op=badop)


def correspond(ctx, harness_pkg, driver, args, canon=None, timeout=600, race=False, nontrivial=None):
    """Standard T-corr stage: build harness from the working tree, run it, run the model, diff.

    Returns dict(ok, ops, mismatches, first=[...], stats, distinct_nontrivial, samples, errors=[...]).
    """
    res = dict(ok=False, ops=0, mismatches=0, first=[], errors=[], samples=[], distinct_nontrivial=0)
    binp, log = go_build(ctx, HARNESS, './cmd/' + harness_pkg, harness_pkg, race=race)
    if not binp:
        res['errors'].append('harness build failed: ' + log[-3000:])
        res['build_failed'] = True
        return res
    cwd = ctx.scratch(harness_pkg)
    ops = os.path.join(ctx.work, harness_pkg + '.ops')
    obs = os.path.join(ctx.work, harness_pkg + '.obs')
    mod = os.path.join(ctx.work, harness_pkg + '.mod')
    for p in (ops, obs, mod, ops + '.cur'):
        if os.path.exists(p):
            os.remove(p)
    env = dict(VERIF_SEED=str(ctx.seed), VERIF_TIER=ctx.tier, VERIF_CORPUS=os.path.join(VERIF, 'corpus', ctx.pid),
               GOMEMLIMIT='8GiB')
    t = time.time()
    rc, so, se = run([binp, 'ops=' + ops, 'obs=' + obs, 'tier=' + ctx.tier] + list(args), cwd=cwd, env=env, timeout=timeout)
    res['harness_s'] = round(time.time() - t, 1)
    shutil.rmtree(cwd, ignore_errors=True)
    for line in so.split('\n'):
        if line.startswith('STATS '):
            try:
                res['stats'] = json.loads(line[6:])
            except Exception:
                res['stats'] = line[6:]
    if rc != 0:
        cur = open(ops + '.cur').read().strip() if os.path.exists(ops + '.cur') else '?'
        res['errors'].append('harness exited %d while running op %r: %s' % (rc, cur, (se or so)[-1500:]))
        res['crash_op'] = cur
    if not os.path.exists(ops):
        return res
    t = time.time()
    rc2, err2 = run_driver(driver, ops, mod, timeout=timeout * 3)
    res['driver_s'] = round(time.time() - t, 1)
    if rc2 != 0:
        res['errors'].append('model driver exited %d: %s' % (rc2, err2[-800:]))
    d = diff_streams(ops, obs, mod, canon)
    res.update(ops=d['ops'], mismatches=d['mismatches'], first=d['first'], unmodelled=d['unmodelled'], bad_op=d['bad_op'])
    # distinct non-trivial ops: distinct op lines whose model answer is neither bad-op nor unmodelled
    seen = set()
    panics = []
    with open(ops, errors='replace') as fo, open(obs, errors='replace') as fb:
        for o, x in zip(fo, fb):
            o = o.rstrip('\n')
            x = x.rstrip('\n')
            if x.startswith('PANIC'):
                if len(panics) < 20:
                    panics.append(dict(op=o, impl=x))
            if nontrivial is None or nontrivial(o, x):
                seen.add(o)
            if len(res['samples']) < 6 and (len(res['samples']) < 2 or hash(o) % 997 == 0):
                res['samples'].append({'op': o[:300], 'impl': x[:300]})
    res['distinct_nontrivial'] = len(seen)
    res['panics'] = panics
    res['ok'] = (rc == 0 and rc2 == 0 and d['mismatches'] == 0 and d['ops'] > 0)
    res['paths'] = dict(ops=ops, obs=obs, mod=mod)
    return res


# --------------------------------------------------------------------------
# known findings, replay files, evidence, decision

def load_known(pid):
    known, fixed = {}, []
    p = os.path.join(VERIF, 'known-findings.txt')
    if os.path.exists(p):
        for line in open(p):
            line = line.strip()
            m = re.match(r'known:\s+property=(\S+)\s+key=(\S+)\s*(.*)', line)
            if m and m.group(1) == pid:
                known[m.group(2)] = m.group(3)
            m = re.match(r'fixed:\s+property=(\S+)\s+(.*)', line)
            if m and m.group(1) == pid:
                fixed.append(m.group(2))
    return known, fixed


def write_replay(ctx, payload):
    d = os.path.join(VERIF, 'replay')
    os.makedirs(d, exist_ok=True)
    n = 0
    while os.path.exists(os.path.join(d, '%s-%d.json' % (ctx.pid, n))):
        n += 1
    p = os.path.join(d, '%s-%d.json' % (ctx.pid, n))
    payload = dict(payload)
    payload.setdefault('property', ctx.pid)
    payload.setdefault('seed', ctx.seed)
    payload.setdefault('tier', ctx.tier)
    payload.setdefault('repo', ctx.repo)
    json.dump(payload, open(p, 'w'), indent=1, default=str)
    return p


def write_evidence(ctx, plug, prove_res, corr_list, search_res, violations, extra=None):
    meta = plug.META
    obligations = prove_res.get('obligations', 0)
    discharged = prove_res.get('discharged', 0)
    evals = sum(c.get('ops', 0) for c in corr_list) + (search_res or {}).get('evaluations', 0)
    distinct = sum(c.get('distinct_nontrivial', 0) for c in corr_list) + (search_res or {}).get('distinct_nontrivial', 0)
    samples = []
    for c in corr_list:
        samples += c.get('samples', [])[:4]
    samples += (search_res or {}).get('samples', [])[:4]
    for t in prove_res.get('theorems', [])[:3]:
        samples.append({'obligation': t['name'], 'axioms': t['axioms']})
    cov = dict(
        obligations=obligations, discharged=discharged,
        checker_cmd='cd /verif/lean && lake build %s && lake env lean <audit: #print axioms of every theorem>%s'
                    % (' '.join(plug.PROPS), ' && lake env leanchecker <module>' if ctx.thorough() else ''),
        trusted_base=list(meta.get('trusted_base', [])),
        evaluations=max(evals, 0), distinct_nontrivial=distinct,
        rule=meta.get('rule', 'distinct op lines sent to both implementation and model whose answer is not bad-op'),
        samples=samples or [{'note': 'no samples'}],
        theorems=prove_res.get('theorems', []),
        failed_obligations=prove_res.get('failed', []),
        prove_errors=prove_res.get('errors', [])[:10],
        correspondence=[{k: v for k, v in c.items() if k in ('name', 'ok', 'ops', 'mismatches', 'unmodelled', 'bad_op', 'stats', 'harness_s', 'driver_s', 'distinct_nontrivial', 'errors', 'first')} for c in corr_list],
        search={k: v for k, v in (search_res or {}).items() if k != 'violations'},
        gen=ctx.stage.get('gen'),
        explanation=meta.get('explanation', ''),
        known_findings_confirmed=[v.get('key') for v in violations if v.get('known')],
    )
    if extra:
        cov.update(extra)
    ev = dict(property_id=ctx.pid, tier=ctx.tier, seed=ctx.seed, level=meta.get('level', 'proof'),
              coverage=cov, assumptions=list(meta.get('assumptions', [])),
              wall_s=round(time.time() - ctx.t0, 1),
              violations=len([v for v in violations if not v.get('known')]))
    p = os.path.join(os.environ.get('VERIF_EVIDENCE_DIR') or os.path.join(VERIF, 'evidence' if re.match(r'C\d+$', ctx.pid) else '.work'), ctx.pid + '.json')
    os.makedirs(os.path.dirname(p), exist_ok=True)
    json.dump(ev, open(p, 'w'), indent=1, default=str)
    return p


def load_plugin(pid):
    p = os.path.join(VERIF, 'checks', pid.lower() + '.py')
    spec = importlib.util.spec_from_file_location('check_' + pid.lower(), p)
    mod = importlib.util.module_from_spec(spec)
    sys.path.insert(0, os.path.join(VERIF, 'bin'))
    spec.loader.exec_module(mod)
    return mod


def main_check(pid, tier, seed, replay=None):
    plug = load_plugin(pid)
    ctx = Ctx(pid, tier, seed)
    if replay:
        if hasattr(plug, 'replay'):
            return plug.replay(ctx, json.load(open(replay)))
        print(json.dumps(json.load(open(replay)), indent=1))
        return 0
    known, _fixed = load_known(pid)
    broken = []          # (kind, detail) proof obligations or correspondence that no longer check
    violations = []      # concrete property failures {key, desc, replay:{}}

    # 1. gen
    if hasattr(plug, 'gen'):
        g = plug.gen(ctx)
        ctx.stage['gen'] = g
        if not g.get('ok', False):
            broken.append(('gen', g.get('error', 'translator failed')))
        ctx.note('gen: %s' % ('ok' if g.get('ok') else 'FAILED ' + str(g.get('error'))[:300]))
    if os.environ.get('VERIF_GEN_ONLY'):
        return 0

    # 2. prove
    pr = prove(ctx, plug.PROPS, extra_targets=['drv_' + d.lower() for d in getattr(plug, 'DRIVERS', [])],
               leanchecker=ctx.thorough() and getattr(plug, 'LEANCHECKER', True))
    ctx.note('prove: %d/%d obligations discharged in %.1fs' % (pr['discharged'], pr['obligations'], pr['build_s']))
    if pr['failed'] or pr['errors'] or pr['obligations'] == 0:
        broken.append(('proof', dict(failed=pr['failed'], errors=pr['errors'][:10])))

    # 3. correspond
    corr_list = []
    if hasattr(plug, 'correspond'):
        cl = plug.correspond(ctx)
        corr_list = cl if isinstance(cl, list) else [cl]
        for c in corr_list:
            ctx.note('correspond[%s]: ops=%d mismatches=%d unmodelled=%d %s' % (
                c.get('name', '?'), c.get('ops', 0), c.get('mismatches', 0), c.get('unmodelled', 0),
                'ok' if c.get('ok') else 'NOT OK ' + '; '.join(c.get('errors', []))[:400]))
            if not c.get('ok'):
                broken.append(('correspondence', dict(name=c.get('name'), first=c.get('first', [])[:5], errors=c.get('errors', [])[:3],
                                                      crash_op=c.get('crash_op'))))
            # property-level facts a correspondence run can establish by itself
            for v in c.get('violations', []):
                violations.append(v)

    # 4. searcher (always runs briefly; longer when something is broken)
    sr = None
    if hasattr(plug, 'search'):
        sr = plug.search(ctx, dict(broken=broken, corr=corr_list))
        for v in sr.get('violations', []):
            violations.append(v)
        ctx.note('search: evaluations=%d violations=%d' % (sr.get('evaluations', 0), len(sr.get('violations', []))))
        if sr.get('error'):
            broken.append(('searcher', sr['error']))

    # 5. decide
    rc = 0
    seen_keys = set()
    for v in violations:
        k = v.get('key', 'unclassified')
        if k in known:
            v['known'] = True
            if k not in seen_keys:
                print('KNOWN-FINDING: property=%s %s -- %s' % (pid, k, known[k]), flush=True)
            seen_keys.add(k)
    new = [v for v in violations if not v.get('known')]
    out_lines = []
    if new:
        byk = {}
        for v in new:
            byk.setdefault(v.get('key', 'unclassified'), v)
        for k, v in byk.items():
            p = write_replay(ctx, dict(kind='property-violation', key=k, desc=v.get('desc'), replay=v.get('replay'),
                                       broken=[b[0] for b in broken]))
            out_lines.append('VIOLATION property=%s replay=%s' % (pid, p))
        rc = 1
    elif broken:
        p = write_replay(ctx, dict(kind='proof-or-correspondence-broken', broken=broken,
                                   note='no input on which the property itself fails was found by the searcher'))
        out_lines.append('VIOLATION property=%s replay=%s no-failing-input-found' % (pid, p))
        rc = 1
    ev = write_evidence(ctx, plug, pr, corr_list, sr, violations)
    for l in out_lines:
        print(l, flush=True)
    ctx.note('evidence: %s  exit=%d' % (ev, rc))
    return rc
